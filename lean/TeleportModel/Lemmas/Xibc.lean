import TeleportModel.Model.Xibc
/-
Helper lemmas about the shared XIBC model (used by Proofs/C01, C02, C05): table algebra and exact
characterisations of what a successful handler did.
-/
namespace TM.Xibc

namespace Tab
variable {κ α : Type} [DecidableEq κ]

theorem get_cons (e : κ × α) (m : Tab κ α) (k : κ) :
    get (e :: m) k = if e.1 = k then some e.2 else get m k := by
  unfold get
  simp only [List.find?_cons]
  by_cases h : e.1 = k <;> simp [h]

theorem get_del (m : Tab κ α) (k k' : κ) :
    get (del m k) k' = if k' = k then none else get m k' := by
  induction m with
  | nil => simp [del, get]
  | cons e m ih =>
    by_cases hk : e.1 = k
    · have : del (e :: m) k = del m k := by simp [del, hk]
      rw [this, ih, get_cons]
      by_cases h2 : k' = k
      · simp [h2]
      · have : ¬ e.1 = k' := by intro h; exact h2 (h ▸ hk)
        simp [h2, this]
    · have : del (e :: m) k = e :: del m k := by simp [del, hk]
      rw [this, get_cons, get_cons, ih]
      by_cases h2 : e.1 = k'
      · have : ¬ k' = k := by intro h; exact hk (h2.trans h)
        simp [h2, this]
      · simp [h2]

theorem get_set (m : Tab κ α) (k k' : κ) (v : α) :
    get (set m k v) k' = if k' = k then some v else get m k' := by
  unfold set
  rw [get_cons, get_del]
  by_cases h : k' = k
  · simp [h]
  · have : ¬ k = k' := fun e => h e.symm
    simp [h, this]

theorem has_set (m : Tab κ α) (k k' : κ) (v : α) :
    has (set m k v) k' = (decide (k' = k) || has m k') := by
  unfold has
  rw [get_set]
  by_cases h : k' = k <;> simp [h]

theorem has_del (m : Tab κ α) (k k' : κ) :
    has (del m k) k' = (!decide (k' = k) && has m k') := by
  unfold has
  rw [get_del]
  by_cases h : k' = k <;> simp [h]

theorem has_eq_true_iff (m : Tab κ α) (k : κ) : has m k = true ↔ ∃ v, get m k = some v := by
  unfold has
  cases get m k <;> simp

theorem has_eq_false_iff (m : Tab κ α) (k : κ) : has m k = false ↔ get m k = none := by
  unfold has
  cases get m k <;> simp

end Tab

/-! ### WriteAcknowledgement -/
theorem writeAck_ok {env : Env} {c c' : Chain} {p : Packet} {ack : Bytes}
    (h : writeAck env c p ack = .ok c') :
    ack ≠ [] ∧ c.acks.has (ackKey p) = false ∧ c.clients.has p.src = true ∧
    c' = { c with acks := c.acks.set (ackKey p) (env.sha256 ack), ackWrites := ackKey p :: c.ackWrites } := by
  unfold writeAck at h
  split at h
  · cases h
  · split at h
    · cases h
    · split at h
      · cases h
      · rename_i h1 h2 h3
        injection h with h
        refine ⟨?_, ?_, ?_, h.symm⟩
        · intro e; simp [e] at h1
        · simpa using h2
        · simpa using h3

/-! ### Keeper.RecvPacket -/
/-- What the keeper-level receive did when it succeeded. -/
structure KeeperRecvSpec (env : Env) (c : Chain) (now : UInt64) (packet proof : Bytes) (h : Height) (signer : Bytes)
    (c1 : Chain) : Prop where
  decodeOk : ¬ ((env.decodePacket packet).2 = true ∧ (env.decodePacket packet).1.seq = 0)
  valid : validatePacket c (env.decodePacket packet).1 = true
  fresh : c.receipts.has (receiptKey (env.decodePacket packet).1) = false
  verified : ∃ cl, c.clients.get (env.decodePacket packet).1.src = some cl ∧
    cl.verify env (env.decodePacket packet).1.src now h (cl.effProof signer proof)
      (commitKey (env.decodePacket packet).1) (env.sha256 (env.encodePacket (env.decodePacket packet).1)) = true
  receipts : c1.receipts = c.receipts.set (receiptKey (env.decodePacket packet).1) [1]
  commits : c1.commits =
    if ((env.decodePacket packet).1.dst != c.name && c.clients.has (env.decodePacket packet).1.dst) = true
    then c.commits.set (commitKey (env.decodePacket packet).1) (env.sha256 (env.encodePacket (env.decodePacket packet).1))
    else c.commits
  name : c1.name = c.name
  clients : c1.clients = c.clients
  relayers : c1.relayers = c.relayers
  acks : c1.acks = c.acks
  nextSeq : c1.nextSeq = c.nextSeq
  evm : c1.evm = c.evm
  ackWrites : c1.ackWrites = c.ackWrites

theorem keeperRecv_ok {env : Env} {c c1 : Chain} {now : UInt64} {packet proof : Bytes} {h : Height} {signer : Bytes}
    (hk : keeperRecv env c now packet proof h signer = .ok c1) :
    KeeperRecvSpec env c now packet proof h signer c1 := by
  unfold keeperRecv at hk
  simp only at hk
  split at hk
  · cases hk
  · rename_i h1
    split at hk
    · cases hk
    · rename_i h2
      split at hk
      · cases hk
      · rename_i h3
        split at hk
        · cases hk
        · rename_i cl hcl
          split at hk
          · cases hk
          · rename_i h4
            have hv : validatePacket c (env.decodePacket packet).1 = true := by simpa using h2
            have hf : c.receipts.has (receiptKey (env.decodePacket packet).1) = false := by simpa using h3
            have hd : ¬ ((env.decodePacket packet).2 = true ∧ (env.decodePacket packet).1.seq = 0) := by
              simpa using h1
            have hver : ∃ cl, c.clients.get (env.decodePacket packet).1.src = some cl ∧
                cl.verify env (env.decodePacket packet).1.src now h (cl.effProof signer proof)
                  (commitKey (env.decodePacket packet).1)
                  (env.sha256 (env.encodePacket (env.decodePacket packet).1)) = true :=
              ⟨cl, hcl, by simpa using h4⟩
            split at hk
            · rename_i h5
              injection hk with hk
              subst hk
              exact ⟨hd, hv, hf, hver, rfl, by simp [h5], rfl, rfl, rfl, rfl, rfl, rfl, rfl⟩
            · rename_i h5
              injection hk with hk
              subst hk
              exact ⟨hd, hv, hf, hver, rfl, by simp [h5], rfl, rfl, rfl, rfl, rfl, rfl, rfl⟩

end TM.Xibc

namespace TM.Xibc

/-! ### msg_server RecvPacket -/
/-- bytes handed to WriteAcknowledgement for a packet addressed to this chain -/
def ackOfCallback (env : Env) (cb : Callback) (relayer : Bytes) (fee : UInt64) : Option Bytes :=
  match cb with
  | .fail => some (env.encodeAck ⟨1, [], errMsgCallback, relayer, fee⟩)
  | .ok code r m => some (env.encodeAck ⟨code, r, m, relayer, fee⟩)
  | .undecodable => none

/-- the three ways a receive can end successfully -/
inductive RecvBranch (env : Env) (c c1 c' : Chain) (p : Packet) (cb : Callback) (relayer : Bytes) : Prop
  | local (hd : p.dst = c.name) (ackBz : Bytes) (ha : ackOfCallback env cb relayer p.feeOption = some ackBz)
      (c2 : Chain) (hw : writeAck env c1 p ackBz = .ok c2)
      (he : c' = if cb.committed then { c2 with evm := .recvCallback (receiptKey p) :: c2.evm } else c2)
  | noRoute (hd : p.dst ≠ c.name) (hc : c.clients.has p.dst = false)
      (hw : writeAck env c1 p (env.encodeAck ⟨1, [], errMsgDst, relayer, p.feeOption⟩) = .ok c')
  | relay (hd : p.dst ≠ c.name) (hc : c.clients.has p.dst = true) (he : c' = c1)

theorem recvPacket_ok {env : Env} {c c' : Chain} {now : UInt64} {packet proof : Bytes} {h : Height} {signer : Bytes}
    {cb : Callback} (hr : recvPacket env c now packet proof h signer cb = .ok c') :
    ∃ c1 relayer, KeeperRecvSpec env c now packet proof h signer c1 ∧ (env.decodePacket packet).2 = false ∧
      relayerOnOtherChain c1 (env.decodePacket packet).1.src signer = .found relayer ∧
      RecvBranch env c c1 c' (env.decodePacket packet).1 cb relayer := by
  unfold recvPacket at hr
  split at hr
  · cases hr
  · rename_i c1 hk
    have spec := keeperRecv_ok hk
    simp only at hr
    split at hr
    · cases hr
    · rename_i hd
      have hd' : (env.decodePacket packet).2 = false := by simpa using hd
      split at hr
      · cases hr
      · cases hr
      · rename_i relayer hrel
        refine ⟨c1, relayer, spec, hd', hrel, ?_⟩
        split at hr
        · rename_i hdst
          have hdst' : (env.decodePacket packet).1.dst = c.name := by
            have := spec.name; simp at hdst; rw [hdst, this]
          cases cb with
          | fail => exact .local hdst' _ rfl c' hr (by simp [Callback.committed])
          | undecodable => cases hr
          | ok code r m =>
            simp only at hr
            split at hr
            · cases hr
            · rename_i c2 hw
              split at hr
              · rename_i hcode
                injection hr with hr
                have : (Callback.ok code r m).committed = false := by simpa [Callback.committed] using hcode
                exact .local hdst' _ rfl c2 hw (by rw [this]; simp [hr])
              · rename_i hcode
                injection hr with hr
                have : (Callback.ok code r m).committed = true := by simpa [Callback.committed] using hcode
                exact .local hdst' _ rfl c2 hw (by rw [this]; simp [hr])
        · rename_i hdst
          have hdst' : (env.decodePacket packet).1.dst ≠ c.name := by
            have := spec.name; simp at hdst; rw [← this]; exact hdst
          split at hr
          · rename_i hc
            have hc' : c.clients.has (env.decodePacket packet).1.dst = false := by
              have := spec.clients; rw [this] at hc; simpa using hc
            exact .noRoute hdst' hc' hr
          · rename_i hc
            have hc' : c.clients.has (env.decodePacket packet).1.dst = true := by
              have := spec.clients; rw [this] at hc; simpa using hc
            injection hr with hr
            exact .relay hdst' hc' hr.symm

end TM.Xibc

namespace TM.Xibc

/-! ### Keeper.AcknowledgePacket -/
structure KeeperAckSpec (env : Env) (c : Chain) (now : UInt64) (packet ack proof : Bytes) (h : Height) (signer : Bytes)
    (c1 : Chain) : Prop where
  decodeOk : (env.decodePacket packet).2 = false
  valid : validatePacket c (env.decodePacket packet).1 = true
  committed : (c.commits.get (commitKey (env.decodePacket packet).1)).getD [] =
    env.sha256 (env.encodePacket (env.decodePacket packet).1)
  verified : ∃ cl, c.clients.get (env.decodePacket packet).1.dst = some cl ∧
    cl.verify env (env.decodePacket packet).1.dst now h (cl.effProof signer proof)
      (ackKey (env.decodePacket packet).1) (env.sha256 ack) = true
  commits : c1.commits = c.commits.del (commitKey (env.decodePacket packet).1)
  relayBranch :
    ((env.decodePacket packet).1.src = c.name ∧ c1.acks = c.acks ∧ c1.ackWrites = c.ackWrites) ∨
    ((env.decodePacket packet).1.src ≠ c.name ∧ c.clients.has (env.decodePacket packet).1.src = true ∧
      c1.acks = c.acks.set (ackKey (env.decodePacket packet).1) (env.sha256 ack) ∧
      c1.ackWrites = ackKey (env.decodePacket packet).1 :: c.ackWrites)
  name : c1.name = c.name
  clients : c1.clients = c.clients
  relayers : c1.relayers = c.relayers
  receipts : c1.receipts = c.receipts
  nextSeq : c1.nextSeq = c.nextSeq
  evm : c1.evm = c.evm

theorem keeperAck_ok {env : Env} {c c1 : Chain} {now : UInt64} {packet ack proof : Bytes} {h : Height} {signer : Bytes}
    (hk : keeperAck env c now packet ack proof h signer = .ok c1) :
    KeeperAckSpec env c now packet ack proof h signer c1 := by
  unfold keeperAck at hk
  simp only at hk
  split at hk
  · cases hk
  · rename_i h1
    split at hk
    · cases hk
    · rename_i h2
      split at hk
      · cases hk
      · rename_i h3
        split at hk
        · cases hk
        · rename_i cl hcl
          split at hk
          · cases hk
          · rename_i h4
            have hd : (env.decodePacket packet).2 = false := by simpa using h1
            have hv : validatePacket c (env.decodePacket packet).1 = true := by simpa using h2
            have hc : (c.commits.get (commitKey (env.decodePacket packet).1)).getD [] =
                env.sha256 (env.encodePacket (env.decodePacket packet).1) := by simpa using h3
            have hver : ∃ cl, c.clients.get (env.decodePacket packet).1.dst = some cl ∧
                cl.verify env (env.decodePacket packet).1.dst now h (cl.effProof signer proof)
                  (ackKey (env.decodePacket packet).1) (env.sha256 ack) = true :=
              ⟨cl, hcl, by simpa using h4⟩
            split at hk
            · rename_i h5
              have h5' : (env.decodePacket packet).1.src ≠ c.name := by simpa using h5
              split at hk
              · cases hk
              · rename_i h6
                injection hk with hk
                subst hk
                exact ⟨hd, hv, hc, hver, rfl, Or.inr ⟨h5', by simpa using h6, rfl, rfl⟩, rfl, rfl, rfl, rfl, rfl, rfl⟩
            · rename_i h5
              have h5' : (env.decodePacket packet).1.src = c.name := by simpa using h5
              injection hk with hk
              subst hk
              exact ⟨hd, hv, hc, hver, rfl, Or.inl ⟨h5', rfl, rfl⟩, rfl, rfl, rfl, rfl, rfl, rfl⟩

/-! ### msg_server Acknowledgement -/
/-- contract calls of a processed acknowledgement (newest first) -/
def ackEvents (p : Packet) (a : Ack) (relayer : Bytes) : List Event :=
  [.onAck (commitKey p), .feePaid p.dst p.seq relayer, .setAckStatus p.dst p.seq (if a.code == 0 then 1 else 2)]

theorem acknowledgement_ok {env : Env} {c c' : Chain} {now : UInt64} {packet ack proof : Bytes} {h : Height}
    {signer : Bytes} {o : EvmOut} (hr : acknowledgement env c now packet ack proof h signer o = .ok c') :
    ∃ c1, KeeperAckSpec env c now packet ack proof h signer c1 ∧
      c'.name = c1.name ∧ c'.clients = c1.clients ∧ c'.relayers = c1.relayers ∧ c'.receipts = c1.receipts ∧
      c'.commits = c1.commits ∧ c'.acks = c1.acks ∧ c'.nextSeq = c1.nextSeq ∧ c'.ackWrites = c1.ackWrites ∧
      ∃ a, env.decodeAck ack = some a ∧ a.isBlank = false ∧
      (((env.decodePacket packet).1.src = c.name ∧ ∃ relayer,
          relayerOnTeleportIn (env.decodePacket packet).1.dst a.relayer c.relayers = .found relayer ∧
          env.bech32Valid relayer = true ∧ o = ⟨true, true, true⟩ ∧
          c'.evm = ackEvents (env.decodePacket packet).1 a relayer ++ c.evm) ∨
       ((env.decodePacket packet).1.src ≠ c.name ∧ c'.evm = c.evm)) := by
  unfold acknowledgement at hr
  split at hr
  · cases hr
  · rename_i c1 hk
    have spec := keeperAck_ok hk
    refine ⟨c1, spec, ?_⟩
    simp only at hr
    split at hr
    · cases hr
    · split at hr
      · cases hr
      · rename_i a ha
        split at hr
        · cases hr
        · rename_i hb
          have hb' : a.isBlank = false := by simpa using hb
          split at hr
          · rename_i hsrc
            have hsrc' : (env.decodePacket packet).1.src = c.name := by
              have := spec.name; simp at hsrc; rw [hsrc, this]
            split at hr
            · cases hr
            · rename_i ho1
              simp only [relayerOnTeleport] at hr
              split at hr
              · cases hr
              · cases hr
              · rename_i relayer hrel
                split at hr
                · cases hr
                · rename_i hb32
                  split at hr
                  · cases hr
                  · rename_i ho2
                    split at hr
                    · cases hr
                    · rename_i ho3
                      injection hr with hr
                      subst hr
                      refine ⟨rfl, rfl, rfl, rfl, rfl, rfl, rfl, rfl, a, ha, hb', Or.inl ⟨hsrc', relayer, ?_, by simpa using hb32, ?_, ?_⟩⟩
                      · rw [← spec.relayers]; exact hrel
                      · cases o; simp_all
                      · simp [ackEvents, spec.evm]
          · rename_i hsrc
            have hsrc' : (env.decodePacket packet).1.src ≠ c.name := by
              have := spec.name; simp at hsrc; rw [← this]; exact hsrc
            injection hr with hr
            subst hr
            exact ⟨rfl, rfl, rfl, rfl, rfl, rfl, rfl, rfl, a, ha, hb', Or.inr ⟨hsrc', spec.evm⟩⟩

/-! ### Keeper.SendPacket -/
theorem sendPacket_ok {env : Env} {c c' : Chain} {p : Packet} {ok : Bool} (hs : sendPacket env c p ok = .ok c') :
    p.validateBasic = true ∧ p.src = c.name ∧ c.clients.has p.dst = true ∧ p.seq = c.nextSequenceSend p.src p.dst ∧
    c' = { c with nextSeq := c.nextSeq.set (nextSeqKey p.src p.dst) (be8 (c.nextSequenceSend p.src p.dst + 1)),
                  evm := .setSequence p.dst (c.nextSequenceSend p.src p.dst + 1) :: c.evm,
                  commits := c.commits.set (commitKey p) (env.sha256 (env.encodePacket p)) } := by
  unfold sendPacket at hs
  split at hs
  · cases hs
  · rename_i h1
    split at hs
    · cases hs
    · rename_i h2
      split at hs
      · cases hs
      · rename_i h3
        split at hs
        · cases hs
        · rename_i h4
          simp only at hs
          split at hs
          · cases hs
          · injection hs with hs
            exact ⟨by simpa using h1, by simpa using h2, by simpa using h3, by simpa using h4, hs.symm⟩

theorem updateClient_ok {c c' : Chain} {now : UInt64} {chain : Bytes} {h : Height} {root signer : Bytes} {ok : Bool}
    (hu : updateClient c now chain h root signer ok = .ok c') :
    ∃ cls, c' = { c with clients := cls } := by
  unfold updateClient at hu
  split at hu
  · cases hu
  · split at hu
    · cases hu
    · split at hu
      · split at hu
        · cases hu
        · split at hu
          · cases hu
          · injection hu with hu
            exact ⟨_, hu.symm⟩
      · split at hu
        · cases hu
        · injection hu with hu
          exact ⟨_, hu.symm⟩

/-- what an accepted update stored: for EVERY client kind the client table holds the updated client afterwards -/
theorem updateClient_effect {c c' : Chain} {now : UInt64} {chain : Bytes} {h : Height} {root signer : Bytes} {ok : Bool}
    (hu : updateClient c now chain h root signer ok = .ok c') :
    ∃ cl, c.clients.get chain = some cl ∧ ok = true ∧ authRelayer c chain signer = true ∧
      ((cl.kind = .tss ∧ signer = cl.tssAddr ∧ c'.clients.get chain = some { cl with tssAddr := root }) ∨
       (cl.kind ≠ .tss ∧ c'.clients.get chain =
          some { cl with latest := maxHeight cl.latest h, cons := cl.cons.set h root, processed := cl.processed.set h now })) := by
  unfold updateClient at hu
  split at hu
  · cases hu
  · rename_i hauth
    split at hu
    · cases hu
    · rename_i cl hcl
      refine ⟨cl, hcl, ?_⟩
      split at hu
      · rename_i hk
        split at hu
        · cases hu
        · rename_i hs
          split at hu
          · cases hu
          · rename_i hok
            injection hu with hu
            subst hu
            exact ⟨by simpa using hok, by simpa using hauth, Or.inl ⟨hk, by simpa using hs, by simp [Tab.get_set]⟩⟩
      · rename_i hk
        split at hu
        · cases hu
        · rename_i hok
          injection hu with hu
          subst hu
          exact ⟨by simpa using hok, by simpa using hauth, Or.inr ⟨hk, by simp [Tab.get_set]⟩⟩

end TM.Xibc

namespace TM.Xibc

/-! ### deliver -/
theorem deliver_of_ok {env : Env} {c c' : Chain} {now : UInt64} {m : Msg} (h : handle env c now m = .ok c') :
    deliver env c now m = (c', .ok) := by
  unfold deliver; rw [h]

theorem deliver_of_error {env : Env} {c : Chain} {now : UInt64} {m : Msg} {e : String}
    (h : handle env c now m = .error e) : deliver env c now m = (c, .err) := by
  unfold deliver; rw [h]

theorem deliver_cases (env : Env) (c : Chain) (now : UInt64) (m : Msg) :
    (∃ c', handle env c now m = .ok c' ∧ deliver env c now m = (c', .ok)) ∨
    (∃ e, handle env c now m = .error e ∧ deliver env c now m = (c, .err)) := by
  cases h : handle env c now m with
  | ok c' => exact Or.inl ⟨c', rfl, deliver_of_ok h⟩
  | error e => exact Or.inr ⟨e, rfl, deliver_of_error h⟩

/-- transaction atomicity: a rejected message leaves the state unchanged -/
theorem deliver_err_unchanged {env : Env} {c : Chain} {now : UInt64} {m : Msg}
    (h : (deliver env c now m).2 ≠ .ok) : (deliver env c now m).1 = c := by
  rcases deliver_cases env c now m with ⟨c', _, hd⟩ | ⟨e, _, hd⟩
  · rw [hd] at h; exact absurd rfl h
  · rw [hd]

theorem deliver_ok_handle {env : Env} {c : Chain} {now : UInt64} {m : Msg}
    (h : (deliver env c now m).2 = .ok) : handle env c now m = .ok (deliver env c now m).1 := by
  rcases deliver_cases env c now m with ⟨c', hh, hd⟩ | ⟨e, _, hd⟩
  · rw [hd]; exact hh
  · rw [hd] at h; cases h

theorem handle_recv_ok {env : Env} {c c' : Chain} {now : UInt64} {packet proof : Bytes} {h : Height} {signer : Bytes}
    {cb : Callback} (hh : handle env c now (.recvPacket packet proof h signer cb) = .ok c') :
    recvBasic env packet h signer = true ∧ recvPacket env c now packet proof h signer cb = .ok c' := by
  simp only [handle] at hh
  split at hh
  · cases hh
  · rename_i hb; exact ⟨by simpa using hb, hh⟩

theorem handle_ack_ok {env : Env} {c c' : Chain} {now : UInt64} {packet ack proof : Bytes} {h : Height}
    {signer : Bytes} {o : EvmOut} (hh : handle env c now (.acknowledgement packet ack proof h signer o) = .ok c') :
    ackBasic env packet ack h signer = true ∧ acknowledgement env c now packet ack proof h signer o = .ok c' := by
  simp only [handle] at hh
  split at hh
  · cases hh
  · rename_i hb; exact ⟨by simpa using hb, hh⟩

/-! ### run -/
theorem run_nil (env : Env) (c : Chain) : run env c [] = (c, []) := rfl

theorem run_cons (env : Env) (c : Chain) (now : UInt64) (m : Msg) (ms : List (UInt64 × Msg)) :
    run env c ((now, m) :: ms) =
      ((run env (deliver env c now m).1 ms).1, (deliver env c now m).2 :: (run env (deliver env c now m).1 ms).2) := rfl

theorem run_length (env : Env) (c : Chain) (ms : List (UInt64 × Msg)) : (run env c ms).2.length = ms.length := by
  induction ms generalizing c with
  | nil => rfl
  | cons x ms ih => obtain ⟨now, m⟩ := x; rw [run_cons]; simp [ih]

/-- an invariant preserved by every delivery holds after every run -/
theorem run_invariant {env : Env} (P : Chain → Prop) (hstep : ∀ c now m, P c → P (deliver env c now m).1)
    (c : Chain) (ms : List (UInt64 × Msg)) (h : P c) : P (run env c ms).1 := by
  induction ms generalizing c with
  | nil => exact h
  | cons x ms ih => obtain ⟨now, m⟩ := x; rw [run_cons]; exact ih _ (hstep c now m h)

theorem toggleClient_ok {c c' : Chain} {chain : Bytes} {cl : Client} (hu : toggleClient c chain cl = .ok c') :
    ∃ cls, c' = { c with clients := cls } := by
  unfold toggleClient at hu
  split at hu
  · cases hu
  · split at hu
    · cases hu
    · injection hu with hu; exact ⟨_, hu.symm⟩

theorem upgradeClient_ok {c c' : Chain} {chain : Bytes} {cl : Client} (hu : upgradeClient c chain cl = .ok c') :
    ∃ cls, c' = { c with clients := cls } := by
  unfold upgradeClient at hu
  split at hu
  · cases hu
  · split at hu
    · injection hu with hu; exact ⟨_, hu.symm⟩
    · cases hu

end TM.Xibc

namespace TM.Xibc

/-- how the acknowledgement store moved in an accepted receive -/
inductive RecvAckEffect (env : Env) (c c' : Chain) (p : Packet) (cb : Callback) (relayer : Bytes) : Prop
  | relayed (hd : p.dst ≠ c.name) (hc : c.clients.has p.dst = true)
      (hacks : c'.acks = c.acks) (hw : c'.ackWrites = c.ackWrites) (hevm : c'.evm = c.evm)
      (hcommits : c'.commits = c.commits.set (commitKey p) (env.sha256 (env.encodePacket p)))
  | acked (ackBz : Bytes) (hne : ackBz ≠ []) (hfresh : c.acks.has (ackKey p) = false)
      (hacks : c'.acks = c.acks.set (ackKey p) (env.sha256 ackBz)) (hw : c'.ackWrites = ackKey p :: c.ackWrites)
      (hcommits : c'.commits = c.commits)
      (hwhich : (p.dst = c.name ∧ ackOfCallback env cb relayer p.feeOption = some ackBz ∧
                  c'.evm = if cb.committed then .recvCallback (receiptKey p) :: c.evm else c.evm) ∨
                (p.dst ≠ c.name ∧ c.clients.has p.dst = false ∧
                  ackBz = env.encodeAck ⟨1, [], errMsgDst, relayer, p.feeOption⟩ ∧ c'.evm = c.evm))

/-- complete description of an accepted receive in terms of the state before and after -/
structure RecvEffect (env : Env) (c c' : Chain) (now : UInt64) (packet proof : Bytes) (h : Height) (signer : Bytes)
    (cb : Callback) : Prop where
  basic : recvBasic env packet h signer = true
  valid : validatePacket c (env.decodePacket packet).1 = true
  fresh : c.receipts.has (receiptKey (env.decodePacket packet).1) = false
  verified : ∃ cl, c.clients.get (env.decodePacket packet).1.src = some cl ∧
    cl.verify env (env.decodePacket packet).1.src now h (cl.effProof signer proof)
      (commitKey (env.decodePacket packet).1) (env.sha256 (env.encodePacket (env.decodePacket packet).1)) = true
  receipts : c'.receipts = c.receipts.set (receiptKey (env.decodePacket packet).1) [1]
  name : c'.name = c.name
  clients : c'.clients = c.clients
  relayers : c'.relayers = c.relayers
  nextSeq : c'.nextSeq = c.nextSeq
  relayer : ∃ relayer, relayerOnOtherChain c (env.decodePacket packet).1.src signer = .found relayer ∧
    RecvAckEffect env c c' (env.decodePacket packet).1 cb relayer

theorem relayerOnOtherChain_congr {c c1 : Chain} (h : c1.relayers = c.relayers) (chain addr : Bytes) :
    relayerOnOtherChain c1 chain addr = relayerOnOtherChain c chain addr := by
  simp [relayerOnOtherChain, getRelayer, h]

theorem handle_recv_effect {env : Env} {c c' : Chain} {now : UInt64} {packet proof : Bytes} {h : Height}
    {signer : Bytes} {cb : Callback} (hh : handle env c now (.recvPacket packet proof h signer cb) = .ok c') :
    RecvEffect env c c' now packet proof h signer cb := by
  obtain ⟨hb, hr⟩ := handle_recv_ok hh
  obtain ⟨c1, relayer, spec, _, hrel, br⟩ := recvPacket_ok hr
  rw [relayerOnOtherChain_congr spec.relayers] at hrel
  cases br with
  | «local» hd ackBz ha c2 hw he =>
    obtain ⟨hne, hfr, _, he2⟩ := writeAck_ok hw
    subst he2
    have hcm : c1.commits = c.commits := by
      rw [spec.commits]; simp [hd]
    refine ⟨hb, ?_, ?_, spec.verified, ?_, ?_, ?_, ?_, ?_, relayer, hrel, ?_⟩
    · exact spec.valid
    · exact spec.fresh
    · rw [he]; split <;> exact spec.receipts
    · rw [he]; split <;> exact spec.name
    · rw [he]; split <;> exact spec.clients
    · rw [he]; split <;> exact spec.relayers
    · rw [he]; split <;> exact spec.nextSeq
    · refine .acked ackBz hne (by simpa [spec.acks] using hfr) ?_ ?_ ?_ (Or.inl ⟨hd, ha, ?_⟩)
      · rw [he]; split <;> simp [spec.acks]
      · rw [he]; split <;> simp [spec.ackWrites]
      · rw [he]; split <;> exact hcm
      · rw [he]; split <;> simp [spec.evm]
  | noRoute hd hc hw =>
    obtain ⟨hne, hfr, _, he⟩ := writeAck_ok hw
    subst he
    have hcm : c1.commits = c.commits := by
      rw [spec.commits]; simp [hc]
    refine ⟨hb, spec.valid, spec.fresh, spec.verified, spec.receipts, spec.name, spec.clients, spec.relayers,
      spec.nextSeq, relayer, hrel, ?_⟩
    exact .acked _ hne (by simpa [spec.acks] using hfr) (by simp [spec.acks]) (by simp [spec.ackWrites]) hcm
      (Or.inr ⟨hd, hc, rfl, spec.evm⟩)
  | relay hd hc he =>
    subst he
    have hcm : c'.commits = c.commits.set (commitKey (env.decodePacket packet).1)
        (env.sha256 (env.encodePacket (env.decodePacket packet).1)) := by
      rw [spec.commits]; simp [hd, hc]
    exact ⟨hb, spec.valid, spec.fresh, spec.verified, spec.receipts, spec.name, spec.clients, spec.relayers,
      spec.nextSeq, relayer, hrel, .relayed hd hc spec.acks spec.ackWrites spec.evm hcm⟩

/-- complete description of an accepted acknowledgement -/
structure AckEffect (env : Env) (c c' : Chain) (now : UInt64) (packet ack proof : Bytes) (h : Height) (signer : Bytes)
    (o : EvmOut) : Prop where
  basic : ackBasic env packet ack h signer = true
  valid : validatePacket c (env.decodePacket packet).1 = true
  committed : (c.commits.get (commitKey (env.decodePacket packet).1)).getD [] =
    env.sha256 (env.encodePacket (env.decodePacket packet).1)
  verified : ∃ cl, c.clients.get (env.decodePacket packet).1.dst = some cl ∧
    cl.verify env (env.decodePacket packet).1.dst now h (cl.effProof signer proof)
      (ackKey (env.decodePacket packet).1) (env.sha256 ack) = true
  commits : c'.commits = c.commits.del (commitKey (env.decodePacket packet).1)
  name : c'.name = c.name
  clients : c'.clients = c.clients
  relayers : c'.relayers = c.relayers
  receipts : c'.receipts = c.receipts
  nextSeq : c'.nextSeq = c.nextSeq
  decoded : ∃ a, env.decodeAck ack = some a ∧ a.isBlank = false ∧
    (((env.decodePacket packet).1.src = c.name ∧ c'.acks = c.acks ∧ c'.ackWrites = c.ackWrites ∧ ∃ relayer,
        relayerOnTeleportIn (env.decodePacket packet).1.dst a.relayer c.relayers = .found relayer ∧
        env.bech32Valid relayer = true ∧ o = ⟨true, true, true⟩ ∧
        c'.evm = ackEvents (env.decodePacket packet).1 a relayer ++ c.evm) ∨
     ((env.decodePacket packet).1.src ≠ c.name ∧ c.clients.has (env.decodePacket packet).1.src = true ∧
        c'.acks = c.acks.set (ackKey (env.decodePacket packet).1) (env.sha256 ack) ∧
        c'.ackWrites = ackKey (env.decodePacket packet).1 :: c.ackWrites ∧ c'.evm = c.evm))

theorem handle_ack_effect {env : Env} {c c' : Chain} {now : UInt64} {packet ack proof : Bytes} {h : Height}
    {signer : Bytes} {o : EvmOut} (hh : handle env c now (.acknowledgement packet ack proof h signer o) = .ok c') :
    AckEffect env c c' now packet ack proof h signer o := by
  obtain ⟨hb, hr⟩ := handle_ack_ok hh
  obtain ⟨c1, spec, hn, hcl, hrl, hrc, hcm, hak, hns, haw, a, ha, hbl, hcase⟩ := acknowledgement_ok hr
  refine ⟨hb, spec.valid, spec.committed, spec.verified, by rw [hcm, spec.commits], by rw [hn, spec.name],
    by rw [hcl, spec.clients], by rw [hrl, spec.relayers], by rw [hrc, spec.receipts], by rw [hns, spec.nextSeq],
    a, ha, hbl, ?_⟩
  rcases hcase with ⟨hsrc, relayer, h1, h2, h3, h4⟩ | ⟨hsrc, hevm⟩
  · rcases spec.relayBranch with ⟨_, ha1, ha2⟩ | ⟨hne, _⟩
    · exact Or.inl ⟨hsrc, by rw [hak, ha1], by rw [haw, ha2], relayer, h1, h2, h3, h4⟩
    · exact absurd hsrc hne
  · rcases spec.relayBranch with ⟨he, _⟩ | ⟨_, hc, ha1, ha2⟩
    · exact absurd he hsrc
    · exact Or.inr ⟨hsrc, hc, by rw [hak, ha1], by rw [haw, ha2], hevm⟩

end TM.Xibc
