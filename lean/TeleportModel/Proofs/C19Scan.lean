import TeleportModel.Model.Host
import TeleportModel.Generated.HostKeys
import TeleportModel.Generated.PacketScans
import TeleportModel.Proofs.C19Host
import TeleportModel.Proofs.C19Cons
/-
C19 (part 6) — per-path prefix scans. `IteratePacketCommitmentByPath` / `GetAllPacketCommitmentsByPath` and the gRPC
queries `PacketCommitments` / `PacketAcknowledgements` scan the one xibc store with the prefix
`host.XPrefixPath(src, dst)` and report every entry found for the REQUESTED (src, dst). This is exact — the scan
returns precisely the entries written for that pair — iff after the destination name the prefix continues with a
fixed segment that starts with '/': otherwise `…/bsc` is also a prefix of `…/bsc-testnet/…`.
`ByPathShape` states that requirement for a (prefix template, key template) pair; it is a `decide` obligation over
the regenerated tables (`pathScans_wf`).
-/
namespace TM.C19
open TM TM.Host TM.Generated

/-- prefix template `<p0>/<src>/<dst>/<m0>`, key template `<p0>/<src>/<dst>/<m0>/<seq>`, '/'-free family prefix -/
def ByPathShape (P K : Template) (p0 m0 : Bytes) : Prop :=
  P = { params := [.str, .str], segs := [.lit (p0 ++ [slash]), .str 0, .lit [slash], .str 1, .lit (slash :: m0)] } ∧
  PacketShape K p0 m0

instance (P K : Template) (p0 m0 : Bytes) : Decidable (ByPathShape P K p0 m0) := by unfold ByPathShape; infer_instance

def keyOf (p0 m0 a b : Bytes) (n : UInt64) : Bytes :=
  p0 ++ slash :: (a ++ slash :: (b ++ slash :: (m0 ++ slash :: toDec n)))

def preOf (p0 m0 a b : Bytes) : Bytes := p0 ++ slash :: (a ++ slash :: (b ++ slash :: m0))

theorem render_key (P K : Template) (p0 m0 a b : Bytes) (n : UInt64) (h : ByPathShape P K p0 m0) :
    render K [.s a, .s b, .n n] = some (keyOf p0 m0 a b n) := render_packet K p0 m0 a b n h.2

theorem render_pre (P K : Template) (p0 m0 a b : Bytes) (h : ByPathShape P K p0 m0) :
    render P [.s a, .s b] = some (preOf p0 m0 a b) := by
  rw [h.1]; simp [render, renderSegs, renderSeg, Arg.ty, preOf]

theorem keyOf_eq (p0 m0 a b : Bytes) (n : UInt64) : keyOf p0 m0 a b n = preOf p0 m0 a b ++ slash :: toDec n := by
  simp [keyOf, preOf]

/-! ### when is the per-path prefix a prefix of a key -/

theorem prefix_name (a a' X Y : Bytes) (ha : slash ∉ a) (ha' : slash ∉ a')
    (h : a ++ slash :: X <+: a' ++ slash :: Y) : a = a' ∧ X <+: Y := by
  induction a generalizing a' with
  | nil =>
    cases a' with
    | nil => simpa [List.cons_prefix_cons] using h
    | cons c r =>
      simp [List.cons_prefix_cons] at h
      simp at ha'
      exact absurd h.1 ha'.1
  | cons c r ih =>
    cases a' with
    | nil =>
      simp [List.cons_prefix_cons] at h
      simp at ha
      exact absurd h.1.symm ha.1
    | cons c' r' =>
      simp only [List.cons_append, List.cons_prefix_cons] at h
      simp at ha ha'
      obtain ⟨h1, h2⟩ := ih r' ha.2 ha'.2 h.2
      exact ⟨by rw [h.1, h1], h2⟩

/-- the per-path prefix of (a, b) matches the key of (a', b', n) iff (a', b') = (a, b) -/
theorem bypath_prefix_iff (p0 m0 a b a' b' : Bytes) (n : UInt64)
    (ha : slash ∉ a) (hb : slash ∉ b) (ha' : slash ∉ a') (hb' : slash ∉ b') :
    hasPrefix (keyOf p0 m0 a' b' n) (preOf p0 m0 a b) = true ↔ (a' = a ∧ b' = b) := by
  constructor
  · intro h
    simp only [hasPrefix, List.isPrefixOf_iff_prefix, keyOf, preOf] at h
    rw [List.prefix_append_right_inj, List.cons_prefix_cons] at h
    obtain ⟨h1, h2⟩ := prefix_name a a' _ _ ha ha' h.2
    obtain ⟨h3, _⟩ := prefix_name b b' _ _ hb hb' h2
    exact ⟨h1.symm, h3.symm⟩
  · rintro ⟨rfl, rfl⟩
    rw [keyOf_eq]
    simp [hasPrefix, List.isPrefixOf_iff_prefix]

/-- a key outside the family is never matched by a per-path prefix of the family -/
theorem bypath_foreign (p0 m0 a b k : Bytes) (h : hasPrefix k (p0 ++ [slash]) = false) :
    hasPrefix k (preOf p0 m0 a b) = false := by
  cases hh : hasPrefix k (preOf p0 m0 a b) with
  | false => rfl
  | true =>
    simp only [hasPrefix, List.isPrefixOf_iff_prefix] at hh
    have : p0 ++ [slash] <+: k := by
      refine List.IsPrefix.trans ?_ hh
      exact ⟨a ++ slash :: (b ++ slash :: m0), by simp [preOf]⟩
    have h2 : hasPrefix k (p0 ++ [slash]) = true := by simp [hasPrefix, List.isPrefixOf_iff_prefix, this]
    rw [h] at h2; cases h2

/-! ### the scan is exact -/

/-- what the store contains: entries written through the keeper for this family, and keys of other families -/
inductive Entry (V : Type) where
  | written (a b : Bytes) (n : UInt64) (v : V)
  | foreign (k : Bytes) (v : V)

def Entry.kv {V} (p0 m0 : Bytes) : Entry V → Bytes × V
  | .written a b n v => (keyOf p0 m0 a b n, v)
  | .foreign k v => (k, v)

/-- chain names are '/'-free (valid names are); foreign keys do not start with the family prefix -/
def Entry.Ok {V} (p0 : Bytes) : Entry V → Prop
  | .written a b _ _ => slash ∉ a ∧ slash ∉ b
  | .foreign k _ => hasPrefix k (p0 ++ [slash]) = false

/-- the entries written for (a, b), in store order -/
def Entry.sel {V} (a b : Bytes) : Entry V → Option (Bytes × Bytes × UInt64 × V)
  | .written a' b' n v => if a' = a ∧ b' = b then some (a, b, n, v) else none
  | .foreign _ _ => none

/-- generic form: any key parser that reads the sequence of the keys of (a, b) correctly -/
theorem bypath_scan_exact_gen {V} (parse : Bytes → Outcome UInt64) (p0 m0 a b : Bytes)
    (ha : slash ∉ a) (hb : slash ∉ b) (hparse : ∀ n, parse (keyOf p0 m0 a b n) = .ok n)
    (es : List (Entry V)) (hes : ∀ e ∈ es, e.Ok p0) :
    scanByPath parse (preOf p0 m0 a b) a b (es.map (Entry.kv p0 m0)) = .ok (es.filterMap (Entry.sel a b)) := by
  induction es with
  | nil => rfl
  | cons e r ih =>
    have ihr := ih (fun e he => hes e (by simp [he]))
    have he := hes e (by simp)
    cases e with
    | written a' b' n v =>
      simp only [Entry.Ok] at he
      simp only [List.map_cons, Entry.kv, scanByPath, List.filterMap_cons, Entry.sel]
      by_cases hab : a' = a ∧ b' = b
      · obtain ⟨rfl, rfl⟩ := hab
        rw [if_pos ((bypath_prefix_iff p0 m0 a' b' a' b' n ha hb ha hb).2 ⟨rfl, rfl⟩), hparse n, ihr]
        simp
      · have : hasPrefix (keyOf p0 m0 a' b' n) (preOf p0 m0 a b) = false := by
          cases hh : hasPrefix (keyOf p0 m0 a' b' n) (preOf p0 m0 a b) with
          | false => rfl
          | true => exact absurd ((bypath_prefix_iff p0 m0 a b a' b' n ha hb he.1 he.2).1 hh) hab
        rw [this]
        simp [hab, ihr]
    | foreign k v =>
      simp only [Entry.Ok] at he
      simp only [List.map_cons, Entry.kv, scanByPath, List.filterMap_cons, Entry.sel]
      rw [bypath_foreign p0 m0 a b k he]
      simp [ihr]

theorem keeperSeq_key (K : Template) (p0 m0 a b : Bytes) (n : UInt64) (hK : PacketShape K p0 m0)
    (ha : slash ∉ a) (hb : slash ∉ b) : keeperSeq (keyOf p0 m0 a b n) = .ok n := by
  have h := packet_key_parses K p0 m0 a b (keyOf p0 m0 a b n) n hK ha hb (render_packet K p0 m0 a b n hK)
  unfold keeperSeq
  rw [h]

theorem grpcSeq_key (p0 m0 a b : Bytes) (n : UInt64) :
    grpcSeq (preOf p0 m0 a b) (keyOf p0 m0 a b n) = .ok n := by
  unfold grpcSeq
  rw [keyOf_eq, List.drop_left]
  have := splitOn_append slash [] (toDec n) (by simp)
  simp only [List.nil_append] at this
  rw [this, splitOn_noSep slash _ (toDec_noSlash n)]
  simp [dec_roundtrip]

/-- **by-path scans are exact**: for '/'-free (in particular valid) chain names, scanning with the per-path prefix
    of (a, b) — with either of the two key parsers the code uses — returns exactly the entries written for (a, b),
    with their sequences, whatever else the store contains (other destinations whose NAME EXTENDS b, other
    sources, other families). -/
theorem bypath_scan_exact {V} (s : ScanParser) (P K : Template) (p0 m0 a b pre : Bytes) (hT : ByPathShape P K p0 m0)
    (ha : slash ∉ a) (hb : slash ∉ b) (hpre : render P [.s a, .s b] = some pre)
    (es : List (Entry V)) (hes : ∀ e ∈ es, e.Ok p0) :
    scanByPath (scanParserOf s pre) pre a b (es.map (Entry.kv p0 m0)) = .ok (es.filterMap (Entry.sel a b)) := by
  rw [render_pre P K p0 m0 a b hT] at hpre
  cases hpre
  apply bypath_scan_exact_gen _ p0 m0 a b ha hb _ es hes
  intro n
  cases s with
  | splitLast => exact grpcSeq_key p0 m0 a b n
  | iterateHashes => exact keeperSeq_key K p0 m0 a b n hT.2 ha hb
  | parsePath => exact keeperSeq_key K p0 m0 a b n hT.2 ha hb

/-- `prefixScan` with the per-path prefix selects exactly the keys written for (a, b) -/
theorem bypath_prefixScan_exact {V} (p0 m0 a b : Bytes) (ha : slash ∉ a) (hb : slash ∉ b)
    (es : List (Entry V)) (hes : ∀ e ∈ es, e.Ok p0) :
    prefixScan (preOf p0 m0 a b) (es.map (Entry.kv p0 m0)) =
      (es.filter (fun e => (Entry.sel a b e).isSome)).map (Entry.kv p0 m0) := by
  induction es with
  | nil => rfl
  | cons e r ih =>
    have ihr := ih (fun e he => hes e (by simp [he]))
    have he := hes e (by simp)
    have key : hasPrefix (Entry.kv p0 m0 e).1 (preOf p0 m0 a b) = (Entry.sel a b e).isSome := by
      cases e with
      | written a' b' n v =>
        simp only [Entry.Ok] at he
        by_cases hab : a' = a ∧ b' = b
        · obtain ⟨rfl, rfl⟩ := hab
          simp [Entry.kv, Entry.sel, (bypath_prefix_iff p0 m0 a' b' a' b' n ha hb ha hb).2 ⟨rfl, rfl⟩]
        · have : hasPrefix (keyOf p0 m0 a' b' n) (preOf p0 m0 a b) = false := by
            cases hh : hasPrefix (keyOf p0 m0 a' b' n) (preOf p0 m0 a b) with
            | false => rfl
            | true => exact absurd ((bypath_prefix_iff p0 m0 a b a' b' n ha hb he.1 he.2).1 hh) hab
          simp [Entry.kv, Entry.sel, this, hab]
      | foreign k v =>
        simp only [Entry.Ok] at he
        simp [Entry.kv, Entry.sel, bypath_foreign p0 m0 a b k he]
    simp only [prefixScan, prefixIter] at ihr ⊢
    rw [List.map_cons, List.filter_cons, List.filter_cons, key]
    cases (Entry.sel a b e).isSome <;> simp [ihr]

/-! ### obligations over the generated tables -/

/-- family prefix and fixed segment read off the key template -/
def p0Of (K : Template) : Bytes := match K.segs with | .lit l :: _ => l.dropLast | _ => []
def m0Of (K : Template) : Bytes := match K.segs with | [_, _, _, _, .lit l, _] => (l.drop 1).dropLast | _ => []

/-- the decidable well-formedness of a by-path scan: its prefix is `<family>/<src>/<dst>` FOLLOWED BY a fixed
    segment starting with '/', and the keys it enumerates continue with '/' and the decimal sequence -/
def ScanWF (s : PathScan) : Prop := ByPathShape s.prefixT s.keyT (p0Of s.keyT) (m0Of s.keyT)

instance (s : PathScan) : Decidable (ScanWF s) := by unfold ScanWF; infer_instance

/-- every per-path scan found in the packet keeper uses a separator-terminated prefix -/
theorem pathScans_wf : ∀ s ∈ PacketScans.pathScans, ScanWF s := by decide

/-- the scans the check knows (a new scan must get its own obligations and harness ops) -/
theorem pathScans_known : PacketScans.pathScans.map (fun s => (s.fn, s.parser)) =
    [("PacketCommitments", .splitLast), ("PacketAcknowledgements", .splitLast), ("IteratePacketCommitmentByPath", .iterateHashes)] := by
  decide

theorem familyScans_known : PacketScans.familyScans.map (fun s => (s.fn, s.parser)) =
    [("GetAllPacketSendSeqs", .parsePath), ("IteratePacketCommitment", .iterateHashes),
     ("IteratePacketReceipt", .iterateHashes), ("IteratePacketAcknowledgement", .iterateHashes)] := by decide

/-- the four XPrefixPath templates themselves (also those nobody scans with today) -/
theorem commitmentPrefixPath_shape : ByPathShape HostKeys.packetCommitmentPrefixPath HostKeys.packetCommitmentKey GC.commitmentPrefix [115, 101, 113, 117, 101, 110, 99, 101, 115] := by decide
theorem ackPrefixPath_shape : ByPathShape HostKeys.packetAcknowledgementPrefixPath HostKeys.packetAcknowledgementKey GC.ackPrefix [115, 101, 113, 117, 101, 110, 99, 101, 115] := by decide
theorem receiptPrefixPath_shape : ByPathShape HostKeys.packetReceiptPrefixPath HostKeys.packetReceiptKey GC.receiptPrefix [115, 101, 113, 117, 101, 110, 99, 101, 115] := by decide
theorem relayerPrefixPath_shape : ByPathShape HostKeys.packetRelayerPrefixPath HostKeys.packetRelayerKey GC.relayerPrefix [115, 101, 113, 117, 101, 110, 99, 101, 115] := by decide

/-- the property on the generated scan table and the generated validators: every by-path scan of the keeper,
    asked for a VALID (src, dst), returns exactly what was written for (src, dst) -/
theorem generated_bypath_scan_exact {V} (s : PathScan) (hs : s ∈ PacketScans.pathScans) (a b pre : Bytes)
    (ha : validName Validate.srcChainValidator a = true) (hb : validName Validate.dstChainValidator b = true)
    (hpre : render s.prefixT [.s a, .s b] = some pre)
    (es : List (Entry V)) (hes : ∀ e ∈ es, e.Ok (p0Of s.keyT)) :
    scanByPath (scanParserOf s.parser pre) pre a b (es.map (Entry.kv (p0Of s.keyT) (m0Of s.keyT))) =
      .ok (es.filterMap (Entry.sel a b)) :=
  bypath_scan_exact s.parser s.prefixT s.keyT _ _ a b pre (pathScans_wf s hs)
    (validName_noSlash _ srcChain_excludesSlash a ha) (validName_noSlash _ dstChain_excludesSlash b hb) hpre es hes

/-! ### the seeded defect as a witness: without the fixed segment the prefix of `bsc` also selects `bsc-testnet` -/

/-- "commitments/src/bsc" is a prefix of the key written for (src, bsc-testnet, 7) -/
theorem unterminated_prefix_overmatches :
    hasPrefix (keyOf GC.commitmentPrefix [115, 101, 113, 117, 101, 110, 99, 101, 115] [115, 114, 99] [98, 115, 99, 45, 116, 101, 115, 116, 110, 101, 116] 7)
      (GC.commitmentPrefix ++ slash :: ([115, 114, 99] ++ slash :: [98, 115, 99])) = true := by decide

/-! ### non-vacuity -/
example : (render HostKeys.packetCommitmentPrefixPath [.s [115, 114, 99], .s [98, 115, 99]]).isSome = true := by decide
example : Entry.Ok (V := Nat) GC.commitmentPrefix (.written [115, 114, 99] [98, 115, 99, 45, 116, 101, 115, 116, 110, 101, 116] 7 0) := by unfold Entry.Ok; decide
example : Entry.Ok (V := Nat) GC.commitmentPrefix (.foreign [97, 99, 107, 115, 47, 97] 0) := by unfold Entry.Ok; decide

end TM.C19
