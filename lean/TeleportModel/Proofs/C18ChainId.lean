import TeleportModel.Model.ChainId
import TeleportModel.Proofs.C19Host
/-
C18 — chain ids: `SetRevisionNumber` keeps the name part (everything before the last hyphen) and round-trips through
`ParseChainID`, for every revision-format id and every revision below 2^63 (above, `strconv.Itoa(int(revision))` of the
code yields a negative number: see `setRevision_beyond_int63`).
-/
namespace TM.ChainId
open TM TM.Host TM.C19

theorem splitLast_none_of_noHyphen (d : Bytes) (hd : ∀ c ∈ d, c ≠ hy) : splitLast d = none := by
  induction d with
  | nil => rfl
  | cons x r ih =>
    have hx : x ≠ hy := hd x (by simp)
    simp [splitLast, ih (fun c hc => hd c (by simp [hc])), hx]

/-- splitting at the last hyphen: a string `pre ++ '-' :: d` with no hyphen in `d` -/
theorem splitLast_append (pre d : Bytes) (hd : ∀ c ∈ d, c ≠ hy) : splitLast (pre ++ hy :: d) = some (pre, d) := by
  induction pre with
  | nil => simp [splitLast, splitLast_none_of_noHyphen d hd]
  | cons a pre ih => simp [splitLast, ih]

theorem toDec_noHyphen (n : UInt64) : ∀ c ∈ toDec n, c ≠ hy := by
  intro c hc h
  subst h
  have := toDecF_digits 20 n.toNat hy hc
  simp [isDigit, hy] at this

/-- the first decimal digit of a positive number is not 0 -/
theorem toDecF_head (f : Nat) : ∀ n, 1 ≤ n → n < 10 ^ f → ∃ x r, toDecF f n = x :: r ∧ 49 ≤ x ∧ x ≤ 57 := by
  induction f with
  | zero => intro n h1 h2; simp at h2; omega
  | succ f ih =>
    intro n h1 h2
    unfold toDecF
    split
    · rename_i h10
      refine ⟨digit n, [], rfl, ?_⟩
      have : n % 10 = n := Nat.mod_eq_of_lt h10
      have hk : ∀ k : Fin 10, 1 ≤ k.val → 49 ≤ UInt8.ofNat (48 + k.val) ∧ UInt8.ofNat (48 + k.val) ≤ 57 := by decide
      have := hk ⟨n % 10, Nat.mod_lt _ (by decide)⟩ (by simp; omega)
      simpa [digit] using this
    · rename_i h10
      have hn' : n / 10 < 10 ^ f := by
        rw [Nat.pow_succ] at h2
        exact Nat.div_lt_of_lt_mul (by omega)
      obtain ⟨x, r, hx, hr⟩ := ih (n / 10) (by omega) hn'
      exact ⟨x, r ++ [digit n], by rw [hx]; rfl, hr⟩

theorem isPosDecimal_toDec (n : UInt64) (h : 1 ≤ n.toNat) : isPosDecimal (toDec n) = true := by
  have h20 : n.toNat < 10 ^ 20 := by
    have := n.toNat_lt
    have : (2 : Nat) ^ 64 < 10 ^ 20 := by decide
    omega
  obtain ⟨x, r, hx, h1, h2⟩ := toDecF_head 20 n.toNat h h20
  unfold isPosDecimal toDec
  rw [hx]
  simp only [Bool.and_eq_true, decide_eq_true_eq, List.all_eq_true]
  refine ⟨⟨h1, h2⟩, ?_⟩
  intro c hc
  exact toDecF_digits 20 n.toNat c (by rw [hx]; simp [hc])

theorem itoaInt_small (rev : Nat) (h : rev < 2 ^ 63) : itoaInt rev = toDec (UInt64.ofNat rev) := by
  unfold itoaInt
  have : rev % 2 ^ 64 = rev := Nat.mod_eq_of_lt (by omega)
  rw [this]; simp [h]

/-- **the name part is kept**: after `SetRevisionNumber` everything before the last hyphen is what it was, and the last
    segment is the decimal form of the new revision — whatever hyphens and digits the name part contains -/
theorem setRevision_keeps_name (s pre suf : Bytes) (rev : Nat) (hrev : rev < 2 ^ 63) (hf : isRevisionFormat s = true)
    (hs : splitLast s = some (pre, suf)) :
    ∃ t, setRevisionNumber s rev = .ok t ∧ splitLast t = some (pre, toDec (UInt64.ofNat rev)) := by
  refine ⟨pre ++ hy :: toDec (UInt64.ofNat rev), ?_, splitLast_append _ _ (toDec_noHyphen _)⟩
  unfold setRevisionNumber
  simp [hf, hs, itoaInt_small rev hrev]

/-- **round trip**: `ParseChainID (SetRevisionNumber id r) = r` for every revision-format id and every r < 2^63
    (for r = 0 the result `name-0` is not in revision format any more and `ParseChainID` answers 0 by default) -/
theorem setRevision_roundtrip (s : Bytes) (rev : Nat) (hrev : rev < 2 ^ 63) (hf : isRevisionFormat s = true) :
    ∃ t, setRevisionNumber s rev = .ok t ∧ parseChainID t = .ok rev := by
  have hf' := hf
  unfold isRevisionFormat at hf'
  cases hs : splitLast s with
  | none => simp [hs] at hf'
  | some ps =>
    obtain ⟨pre, suf⟩ := ps
    simp only [hs, Bool.and_eq_true] at hf'
    obtain ⟨t, ht, hsplit⟩ := setRevision_keeps_name s pre suf rev hrev hf hs
    refine ⟨t, ht, ?_⟩
    unfold parseChainID isRevisionFormat
    rw [hsplit]
    have hlt : rev < 2 ^ 64 := by omega
    have htn : (UInt64.ofNat rev).toNat = rev := by simp [UInt64.toNat_ofNat, Nat.mod_eq_of_lt hlt]
    by_cases h0 : rev = 0
    · subst h0
      have h0 : isPosDecimal (toDec (UInt64.ofNat 0)) = false := by decide
      have h0' : isPosDecimal (toDec 0) = false := by decide
      simp [h0, h0', hf'.1]
    · have hpos := isPosDecimal_toDec (UInt64.ofNat rev) (by rw [htn]; omega)
      simp only [hf'.1, hpos, Bool.and_self, Bool.not_true, Bool.false_eq_true, ↓reduceIte]
      rw [dec_roundtrip]
      simp [htn]

/-- the code as it is: a revision ≥ 2^63 is written as a NEGATIVE number (`strconv.Itoa(int(revision))`), the result
    is not the chain id of that revision and does not parse back -/
theorem setRevision_beyond_int63 :
    setRevisionNumber (ofStr "huge-5") (2 ^ 63) = .ok (ofStr "huge--9223372036854775808") := by decide

/-! non-vacuity / the shapes the harness exercises -/
example : setRevisionNumber (ofStr "testnet-2-2") 1 = .ok (ofStr "testnet-2-1")
        ∧ setRevisionNumber (ofStr "net-20-2") 1 = .ok (ofStr "net-20-1")
        ∧ setRevisionNumber (ofStr "a-1-1") 2 = .ok (ofStr "a-1-2")
        ∧ setRevisionNumber (ofStr "x9-9") 10 = .ok (ofStr "x9-10")
        ∧ setRevisionNumber (ofStr "zero-1") 0 = .ok (ofStr "zero-0")
        ∧ parseChainID (ofStr "zero-0") = .ok 0
        ∧ parseChainID (ofStr "a-1-2-3-7") = .ok 7
        ∧ isRevisionFormat (ofStr "plain") = false ∧ isRevisionFormat (ofStr "x--1") = false
        ∧ isRevisionFormat (ofStr "x-01") = false
        ∧ parseChainID (ofStr "big-99999999999999999999") = .panic "regex allowed non-number value" := by decide

end TM.ChainId
