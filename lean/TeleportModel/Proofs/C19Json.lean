import TeleportModel.Model.Abi
import TeleportModel.Model.Json
import TeleportModel.Proofs.C19Abi
/-
C19 (part 2) — the JSON round trip of `ABIDecode` returns the packed struct, provided the tuple component names
resolve (through encoding/json's matching rule) to the very fields `Pack` read them from (`TagsMatch`), every
field is covered (`Covers`) and the strings are valid UTF-8.
-/
namespace TM.C19
open TM TM.Abi TM.Json

/-! ### UTF-8 -/

theorem sanitizeF_valid (f : Nat) (s : Bytes) (h : validUtf8F f s = true) : sanitizeF f s = s := by
  induction f generalizing s with
  | zero =>
    cases s with
    | nil => rfl
    | cons b r => simp [validUtf8F] at h
  | succ f ih =>
    cases s with
    | nil => rfl
    | cons b r =>
      unfold validUtf8F at h
      unfold sanitizeF
      split at h
      · simp at h
      · rw [ih _ h, List.take_append_drop]

/-- a valid UTF-8 string survives json.Marshal ∘ json.Unmarshal unchanged -/
theorem sanitize_valid (s : Bytes) (h : validUtf8 s = true) : sanitize s = s :=
  sanitizeF_valid _ _ h

theorem jsonVal_ok (v : Val) (h : strOk v = true) : jsonVal v = v := by
  cases v with
  | str s => simp [jsonVal, sanitize_valid s h]
  | u64 n => rfl
  | bytes b => rfl

/-! ### struct ↔ tuple -/

theorem pickAll_spec (S : Schema) (sv : List Val) (L : Layout) (vs : List Val) (h : pickAll S sv L = some vs) :
    vs.map Val.ty = L.tys ∧ vs.length = L.length ∧ ∀ p ∈ L.zip vs, pick S sv p.1 = some p.2 := by
  induction L generalizing vs with
  | nil => simp [pickAll] at h; subst h; simp [Layout.tys]
  | cons c r ih =>
    unfold pickAll at h
    split at h
    · rename_i v vs' hv hr
      simp at h; subst h
      obtain ⟨h1, h2, h3⟩ := ih vs' hr
      have hty : v.ty = c.ty := by
        unfold pick at hv
        split at hv
        · simp at hv
        · split at hv
          · split at hv
            · rename_i hh; simp at hv; subst hv; exact hh
            · simp at hv
          · simp at hv
      refine ⟨?_, ?_, ?_⟩
      · simp [Layout.tys] at h1 ⊢; exact ⟨hty, h1⟩
      · simp [h2]
      · intro p hp
        simp [List.zip_cons_cons] at hp
        rcases hp with rfl | hp
        · exact hv
        · exact h3 p hp
    · simp at h

/-- what `assign` does when every pair is well placed -/
theorem assign_spec (S : Schema) (sv : List Val) (pairs : List (Comp × Val)) :
    ∀ acc : List Val, acc.length = sv.length →
    (∀ p ∈ pairs, ∃ j, jsonField S p.1.name = some j ∧ (S[j]?).map (·.ty) = some p.1.ty ∧ sv[j]? = some p.2 ∧ jsonVal p.2 = p.2) →
    ∃ acc', assign S pairs acc = some acc' ∧ acc'.length = sv.length ∧
      (∀ k : Nat, acc[k]? = sv[k]? → acc'[k]? = sv[k]?) ∧
      (∀ p ∈ pairs, ∀ j : Nat, jsonField S p.1.name = some j → acc'[j]? = sv[j]?) := by
  induction pairs with
  | nil => intro acc hl _; exact ⟨acc, rfl, hl, fun _ h => h, by simp⟩
  | cons p r ih =>
    intro acc hl hg
    obtain ⟨c, v⟩ := p
    obtain ⟨j, hj, hty, hsv, hjv⟩ := hg (c, v) (by simp)
    simp only at hj hty hsv hjv
    have hjlt : j < sv.length := by
      rcases Nat.lt_or_ge j sv.length with h | h
      · exact h
      · rw [List.getElem?_eq_none h] at hsv; simp at hsv
    obtain ⟨f, hf, hfty⟩ : ∃ f, S[j]? = some f ∧ f.ty = c.ty := by
      cases hS : S[j]? with
      | none => simp [hS] at hty
      | some f => simp [hS] at hty; exact ⟨f, rfl, hty⟩
    have hl1 : (acc.set j v).length = sv.length := by simp [hl]
    obtain ⟨acc', ha, hl', hP1, hP2⟩ := ih (acc.set j v) hl1 (fun q hq => hg q (by simp [hq]))
    have hsetj : (acc.set j v)[j]? = sv[j]? := by
      rw [hsv, List.getElem?_set]; simp [hl, hjlt]
    have hset : ∀ k : Nat, acc[k]? = sv[k]? → (acc.set j v)[k]? = sv[k]? := by
      intro k hk
      by_cases hjk : j = k
      · subst hjk; exact hsetj
      · rw [List.getElem?_set]; simp [hjk, hk]
    refine ⟨acc', ?_, hl', fun k hk => hP1 k (hset k hk), ?_⟩
    · simp only [assign, hj, hf, hfty, if_true, hjv]
      exact ha
    · intro q hq j' hj'
      simp at hq
      rcases hq with rfl | hq
      · simp only at hj'
        rw [hj] at hj'; cases hj'
        exact hP1 j hsetj
      · exact hP2 q hq j' hj'

/-- **decode ∘ encode = id** for a struct bound to a tuple layout -/
theorem decode_encode (L : Layout) (S : Schema) (sv : List Val) (b : Bytes)
    (ht : TagsMatch L S) (hc : Covers L S)
    (hty : sv.map Val.ty = S.map (·.ty))
    (hu : ∀ v ∈ sv, strOk v = true)
    (hp : packStruct L S sv = some b) (hsz : b.length < 2 ^ 256) :
    decodeStruct L S b = some sv := by
  unfold packStruct at hp
  cases htt : toTuple L S sv with
  | none => simp [htt] at hp
  | some vs =>
    simp [htt] at hp; subst hp
    unfold toTuple at htt
    split at htt
    · simp at htt
    · obtain ⟨h1, h2, h3⟩ := pickAll_spec S sv L vs htt
      unfold decodeStruct
      rw [← h1, decode_encode_raw vs hsz]
      simp only
      unfold fromTuple
      have hlen : sv.length = S.length := by simpa using congrArg List.length hty
      have hgood : ∀ p ∈ L.zip vs, ∃ j, jsonField S p.1.name = some j ∧ (S[j]?).map (·.ty) = some p.1.ty ∧ sv[j]? = some p.2 ∧ jsonVal p.2 = p.2 := by
        intro p hp
        have hpick := h3 p hp
        have hmem : p.1 ∈ L := (List.of_mem_zip hp).1
        obtain ⟨j, hj1, hj2, hj3⟩ := ht.1 p.1 hmem
        refine ⟨j, hj1, hj3, ?_⟩
        unfold pick at hpick
        rw [hj2] at hpick
        simp only at hpick
        split at hpick
        · rename_i hv
          split at hpick
          · simp at hpick; subst hpick
            exact ⟨hv, jsonVal_ok _ (hu _ (List.mem_of_getElem? hv))⟩
          · simp at hpick
        · simp at hpick
      obtain ⟨acc', ha, hl', _, hP2⟩ := assign_spec S sv (L.zip vs) (S.map (fun f => zero f.ty)) (by simp [hlen]) hgood
      rw [ha]
      congr 1
      apply List.ext_getElem?
      intro k
      rcases Nat.lt_or_ge k S.length with hk | hk
      · obtain ⟨c, hcL, hcp⟩ := hc k hk
        obtain ⟨j, hj1, hj2, _⟩ := ht.1 c hcL
        rw [hcp] at hj2; cases hj2
        -- the pair of c in the zip
        obtain ⟨i, hi, hci⟩ := List.getElem_of_mem hcL
        have hi2 : i < vs.length := by omega
        have hpm : (c, vs[i]) ∈ L.zip vs := by
          have : (L.zip vs)[i]? = some (c, vs[i]) := by
            simp [List.getElem?_zip_eq_some, hci, hi, hi2]
          exact List.mem_of_getElem? this
        exact hP2 _ hpm k hj1
      · rw [List.getElem?_eq_none (by omega), List.getElem?_eq_none (by omega)]

end TM.C19
