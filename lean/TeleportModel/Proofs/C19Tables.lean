import TeleportModel.Model.Abi
import TeleportModel.Model.Json
import TeleportModel.Generated.AbiTuples
import TeleportModel.Proofs.C19Abi
import TeleportModel.Proofs.C19Json
/-
C19 (part 3) — the obligations over the GENERATED tables (tools/gofacts regenerates them from evm.go, packet.go
and the *.pb.go structs on every run). A changed tuple component, JSON tag, field type or a new all-static
tuple breaks one of the `decide` proofs below; the instantiated round-trip theorems then no longer build.
-/
namespace TM.C19
open TM TM.Abi TM.Json TM.Generated

/-! ### Packet -/
theorem packetLayout_wf : AbiTuples.tuplePacketData.WF := by decide
theorem packet_tagsMatch : TagsMatch AbiTuples.tuplePacketData AbiTuples.packetSchema := by decide
theorem packet_covers : Covers AbiTuples.tuplePacketData AbiTuples.packetSchema := by decide

/-- `ABIDecode(ABIPack(p)) = p` for every packet with valid UTF-8 strings -/
theorem packet_decode_encode (sv : List Val) (b : Bytes)
    (hty : sv.map Val.ty = AbiTuples.packetSchema.map (·.ty)) (hu : ∀ v ∈ sv, strOk v = true)
    (hp : packStruct AbiTuples.tuplePacketData AbiTuples.packetSchema sv = some b) (hsz : b.length < 2 ^ 256) :
    decodeStruct AbiTuples.tuplePacketData AbiTuples.packetSchema b = some sv :=
  decode_encode _ _ sv b packet_tagsMatch packet_covers hty hu hp hsz

/-! ### TransferData -/
theorem transferDataLayout_wf : AbiTuples.tupleTransferData.WF := by decide
theorem transferData_tagsMatch : TagsMatch AbiTuples.tupleTransferData AbiTuples.transferDataSchema := by decide
theorem transferData_covers : Covers AbiTuples.tupleTransferData AbiTuples.transferDataSchema := by decide

theorem transferData_decode_encode (sv : List Val) (b : Bytes)
    (hty : sv.map Val.ty = AbiTuples.transferDataSchema.map (·.ty)) (hu : ∀ v ∈ sv, strOk v = true)
    (hp : packStruct AbiTuples.tupleTransferData AbiTuples.transferDataSchema sv = some b) (hsz : b.length < 2 ^ 256) :
    decodeStruct AbiTuples.tupleTransferData AbiTuples.transferDataSchema b = some sv :=
  decode_encode _ _ sv b transferData_tagsMatch transferData_covers hty hu hp hsz

/-! ### CallData -/
theorem callDataLayout_wf : AbiTuples.tupleCallData.WF := by decide
theorem callData_tagsMatch : TagsMatch AbiTuples.tupleCallData AbiTuples.callDataSchema := by decide
theorem callData_covers : Covers AbiTuples.tupleCallData AbiTuples.callDataSchema := by decide

theorem callData_decode_encode (sv : List Val) (b : Bytes)
    (hty : sv.map Val.ty = AbiTuples.callDataSchema.map (·.ty)) (hu : ∀ v ∈ sv, strOk v = true)
    (hp : packStruct AbiTuples.tupleCallData AbiTuples.callDataSchema sv = some b) (hsz : b.length < 2 ^ 256) :
    decodeStruct AbiTuples.tupleCallData AbiTuples.callDataSchema b = some sv :=
  decode_encode _ _ sv b callData_tagsMatch callData_covers hty hu hp hsz

/-! ### Result -/
theorem resultLayout_wf : AbiTuples.tupleRecvPacketResultData.WF := by decide
theorem result_tagsMatch : TagsMatch AbiTuples.tupleRecvPacketResultData AbiTuples.resultSchema := by decide
theorem result_covers : Covers AbiTuples.tupleRecvPacketResultData AbiTuples.resultSchema := by decide

theorem result_decode_encode (sv : List Val) (b : Bytes)
    (hty : sv.map Val.ty = AbiTuples.resultSchema.map (·.ty)) (hu : ∀ v ∈ sv, strOk v = true)
    (hp : packStruct AbiTuples.tupleRecvPacketResultData AbiTuples.resultSchema sv = some b) (hsz : b.length < 2 ^ 256) :
    decodeStruct AbiTuples.tupleRecvPacketResultData AbiTuples.resultSchema b = some sv :=
  decode_encode _ _ sv b result_tagsMatch result_covers hty hu hp hsz

/-! ### the decode / encode METHODS do nothing but Pack, resp. Unpack + the JSON round trip -/

/-- regenerated from the method bodies of packet.go: no statement after (or between) Unpack, json.Marshal, json.Unmarshal
    touches a field, and ABIPack is a bare Arguments.Pack — so the round-trip theorems below are about the methods themselves -/
theorem abiDecode_is_pure_roundtrip : ∀ b ∈ AbiTuples.bindings, b.decodePure = true ∧ b.packPure = true := by decide

/-- encode (decode b) = b for the canonical bytes, hence the commitment recomputed from the decoded value is the hash of b -/
theorem reencode_struct (L : Layout) (S : Schema) (sv : List Val) (b : Bytes)
    (ht : TagsMatch L S) (hc : Covers L S) (hty : sv.map Val.ty = S.map (·.ty)) (hu : ∀ v ∈ sv, strOk v = true)
    (hp : packStruct L S sv = some b) (hsz : b.length < 2 ^ 256) :
    (decodeStruct L S b).bind (packStruct L S) = some b := by
  rw [decode_encode L S sv b ht hc hty hu hp hsz]; exact hp

theorem commitment_of_decoded (hash : Bytes → Bytes) (L : Layout) (S : Schema) (sv : List Val) (b : Bytes)
    (ht : TagsMatch L S) (hc : Covers L S) (hty : sv.map Val.ty = S.map (·.ty)) (hu : ∀ v ∈ sv, strOk v = true)
    (hp : packStruct L S sv = some b) (hsz : b.length < 2 ^ 256) :
    ((decodeStruct L S b).bind (packStruct L S)).map hash = some (hash b) := by
  rw [reencode_struct L S sv b ht hc hty hu hp hsz]; rfl

/-! ### EventSendPacket: only the `packet` bytes are part of the tuple (no `Covers`, by design) -/
theorem eventLayout_wf : AbiTuples.tuplePacketSendData.WF := by decide
theorem event_tagsMatch : TagsMatch AbiTuples.tuplePacketSendData AbiTuples.eventSendPacketSchema := by decide

/-- every binding found in packet.go is one of the six above (a new ABIPack/ABIDecode pair must get its own
    obligations) -/
theorem bindings_known : AbiTuples.bindings.map (·.name) =
    ["Acknowledgement", "CallData", "EventSendPacket", "Packet", "Result", "TransferData"] := by decide

/-! ### the defect F11 as a concrete witness: a last component named `feeOption` does not reach `json:"fee_option"` -/

def f11Layout : Layout := [
  { name := [99, 111, 100, 101], ty := .uint64 },
  { name := [102, 101, 101, 79, 112, 116, 105, 111, 110], ty := .uint64 } /- "feeOption" -/,
  { name := [114, 101, 115, 117, 108, 116], ty := .bytes }]
def f11Schema : Schema := [
  { goName := [67, 111, 100, 101], jsonName := [99, 111, 100, 101], ty := .uint64 },
  { goName := [82, 101, 115, 117, 108, 116], jsonName := [114, 101, 115, 117, 108, 116], ty := .bytes },
  { goName := [70, 101, 101, 79, 112, 116, 105, 111, 110], jsonName := [102, 101, 101, 95, 111, 112, 116, 105, 111, 110], ty := .uint64 }]

theorem f11_tags_do_not_match : ¬ TagsMatch f11Layout f11Schema := by decide

set_option maxRecDepth 100000 in
/-- FeeOption 7 is packed, decoded as 0 (observed on the real code: 7 ↦ 0) -/
theorem f11_fee_option_lost :
    (packStruct f11Layout f11Schema [.u64 1, .bytes [], .u64 7]).bind (decodeStruct f11Layout f11Schema)
      = some [.u64 1, .bytes [], .u64 0] := by decide

/-! ### non-vacuity -/

def samplePacket : List Val :=
  [.str [97, 98, 99], .str [0xE2, 0x80, 0xA8], .u64 18446744073709551615, .str [], .bytes [0, 47, 255], .bytes [], .str [60, 62, 38], .u64 7]

example : samplePacket.map Val.ty = AbiTuples.packetSchema.map (·.ty) := by decide
example : ∀ v ∈ samplePacket, strOk v = true := by decide
set_option maxRecDepth 100000 in
example : (packStruct AbiTuples.tuplePacketData AbiTuples.packetSchema samplePacket).isSome = true := by decide

end TM.C19
