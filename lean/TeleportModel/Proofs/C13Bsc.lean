import TeleportModel.Proofs.C13Reach
/-
C13 — the BSC light client's real update path: every state reachable by create + accepted headers satisfies `ModuleKeys`
(so the genesis round trip holds) and carries no empty value, hence every client-metadata entry of its export has a non-empty key
and a non-empty value — the metadata part of `GenesisState.Validate`. The pending-validators record is written only at an epoch
header and only non-empty; it is never reset to an empty value (the seeded change C13-7 did exactly that).
-/
namespace TM.Genesis
open TM TM.GKv

/-! ## `bscUpdate` keeps ModuleKeys -/

theorem foldl_delSigner_moduleKeys {s : Store} (h : ModuleKeys s) {chain : Bytes} (hc : slash ∉ chain) (dels : List Height) :
    ModuleKeys (dels.foldl (fun s d => bscDelSigner s chain d) s) := by
  induction dels generalizing s with
  | nil => exact h
  | cons d r ih => exact ih (moduleKeys_bscDelSigner h d hc)

theorem tyOfChain_del_other {s : Store} (hS : Sorted s) {k chain : Bytes} (hne : k ≠ clientKey chain kClientState) :
    tyOfChain (del s k) chain = tyOfChain s chain := by
  unfold tyOfChain; rw [get_del hS]; simp [hne]

theorem foldl_delSigner_tyOfChain {s : Store} (h : ModuleKeys s) {chain : Bytes} (hc : slash ∉ chain) (dels : List Height) :
    tyOfChain (dels.foldl (fun s d => bscDelSigner s chain d) s) chain = tyOfChain s chain := by
  induction dels generalizing s with
  | nil => rfl
  | cons d r ih =>
    simp only [List.foldl_cons]
    rw [ih (moduleKeys_bscDelSigner h d hc)]
    unfold bscDelSigner
    exact tyOfChain_del_other (sorted_of_moduleKeys h) (fun e => (signerPath_facts d).2.1 (clientKey_inj hc hc e).2)

theorem bscUpdateGuard_spec {s : Store} {chain cb sb signer : Bytes} {pending : Option Bytes}
    (h : bscUpdateGuard s chain cb sb signer pending = true) :
    slash ∉ chain ∧ tyOfChain s chain = some .bsc ∧ clientTy cb = some .bsc ∧ consTy sb = some .bsc ∧ signer ≠ [] ∧
      (∀ p, pending = some p → p ≠ []) := by
  unfold bscUpdateGuard at h
  simp only [Bool.and_eq_true, beq_iff_eq, Bool.not_eq_true', List.isEmpty_eq_false_iff] at h
  obtain ⟨⟨⟨⟨⟨h1, h2⟩, h3⟩, h4⟩, h5⟩, h6⟩ := h
  refine ⟨noSlash_iff.mp h1, h2, h3, h4, h5, ?_⟩
  intro p hp
  subst hp
  simpa using h6

/-- an accepted BSC header (any height, any deletion list) keeps ModuleKeys -/
theorem moduleKeys_bscUpdate {s : Store} (h : ModuleKeys s) {chain cb sb signer : Bytes} {pending : Option Bytes}
    (hgt : Height) (dels : List Height) (hg : bscUpdateGuard s chain cb sb signer pending = true) :
    ModuleKeys (bscUpdate s chain hgt cb sb signer pending dels) := by
  obtain ⟨hc, hty, hcb, hsb, _, _⟩ := bscUpdateGuard_spec hg
  unfold bscUpdate
  have h1 := moduleKeys_bscSetSigner h hgt signer hc hty
  have t1 : tyOfChain (bscSetSigner s chain hgt signer) chain = some .bsc := by
    unfold bscSetSigner
    rw [tyOfChain_set_other (sorted_of_moduleKeys h) (fun e => (signerPath_facts hgt).2.1 (clientKey_inj hc hc e).2)]; exact hty
  have fin : ∀ s2 : Store, ModuleKeys s2 → tyOfChain s2 chain = some .bsc →
      ModuleKeys (setConsensusState (setClientState (dels.foldl (fun s d => bscDelSigner s chain d) s2) chain cb) chain hgt sb) := by
    intro s2 m2 t2
    have m3 := foldl_delSigner_moduleKeys m2 hc dels
    have t3 : tyOfChain (dels.foldl (fun s d => bscDelSigner s chain d) s2) chain = clientTy cb := by
      rw [foldl_delSigner_tyOfChain m2 hc dels, t2, hcb]
    exact moduleKeys_setConsensusState (moduleKeys_setClientState_ty m3 hc (by rw [hcb]; rfl) t3) hgt hc (by rw [hsb]; rfl)
  cases pending with
  | none => exact fin _ h1 t1
  | some p =>
    refine fin _ (moduleKeys_bscSetPending h1 p hc t1) ?_
    unfold bscSetPending
    rw [tyOfChain_set_other (sorted_of_moduleKeys h1) (fun e => pending_facts.2.1 (clientKey_inj hc hc e).2)]; exact t1

/-! ## no empty values -/

theorem nonEmptyVals_iff (s : Store) : NonEmptyVals s ↔ ∀ kv ∈ s, kv.1 ≠ kChainName → kv.2 ≠ [] := by
  unfold NonEmptyVals nonEmptyValsB
  simp only [List.all_eq_true, Bool.or_eq_true, beq_iff_eq, Bool.not_eq_true', List.isEmpty_eq_false_iff]
  constructor
  · intro h kv hkv hne
    rcases h kv hkv with e | e
    · exact absurd e hne
    · exact e
  · intro h kv hkv
    by_cases e : kv.1 = kChainName
    · exact Or.inl e
    · exact Or.inr (h kv hkv e)

theorem nonEmptyVals_set {s : Store} (h : NonEmptyVals s) (k : Bytes) {v : Bytes} (hv : v ≠ []) : NonEmptyVals (set s k v) := by
  rw [nonEmptyVals_iff] at h ⊢
  intro kv hkv hne
  rcases mem_set_sub hkv with e | hm
  · subst e; exact hv
  · exact h kv hm hne

theorem nonEmptyVals_del {s : Store} (h : NonEmptyVals s) (k : Bytes) : NonEmptyVals (del s k) := by
  rw [nonEmptyVals_iff] at h ⊢
  exact fun kv hkv hne => h kv (mem_del_sub hkv) hne

theorem clientTy_ne_nil {b : Bytes} {ty : Ty} (h : clientTy b = some ty) : b ≠ [] := by
  intro e; subst e; simp [clientTy, anyUrl] at h

theorem consTy_ne_nil {b : Bytes} {ty : Ty} (h : consTy b = some ty) : b ≠ [] := by
  intro e; subst e; simp [consTy, anyUrl] at h

theorem be64_ne_nil (n : UInt64) : be64 n ≠ [] := by
  intro e
  have := be64_length n
  rw [e] at this; simp at this

theorem nonEmptyVals_foldl_del {s : Store} (h : NonEmptyVals s) (chain : Bytes) (dels : List Height) :
    NonEmptyVals (dels.foldl (fun s d => bscDelSigner s chain d) s) := by
  induction dels generalizing s with
  | nil => exact h
  | cons d r ih => exact ih (nonEmptyVals_del h _)

/-- an accepted BSC header writes no empty value: the signer is an address, the pending set (epoch headers only) is non-empty,
client and consensus states are encodings of typed messages -/
theorem nonEmptyVals_bscUpdate {s : Store} (h : NonEmptyVals s) {chain cb sb signer : Bytes} {pending : Option Bytes}
    (hgt : Height) (dels : List Height) (hg : bscUpdateGuard s chain cb sb signer pending = true) :
    NonEmptyVals (bscUpdate s chain hgt cb sb signer pending dels) := by
  obtain ⟨_, _, hcb, hsb, hsig, hpend⟩ := bscUpdateGuard_spec hg
  unfold bscUpdate
  have h1 : NonEmptyVals (bscSetSigner s chain hgt signer) := nonEmptyVals_set h _ hsig
  have fin : ∀ s2 : Store, NonEmptyVals s2 →
      NonEmptyVals (setConsensusState (setClientState (dels.foldl (fun s d => bscDelSigner s chain d) s2) chain cb) chain hgt sb) := by
    intro s2 h2
    exact nonEmptyVals_set (nonEmptyVals_set (nonEmptyVals_foldl_del h2 chain dels) _ (clientTy_ne_nil hcb)) _ (consTy_ne_nil hsb)
  cases pending with
  | none => exact fin _ h1
  | some p => exact fin _ (nonEmptyVals_set h1 _ (hpend p rfl))

theorem nonEmptyVals_fresh (n : Bytes) : NonEmptyVals (freshStore n) := by
  rw [nonEmptyVals_iff]
  intro kv hkv hne
  simp [freshStore, setChainName, GKv.set] at hkv
  subst hkv
  exact absurd rfl hne

/-! ## reachable states of a BSC client's life -/

theorem applyBsc_invariant {s : Store} (h : ModuleKeys s ∧ NonEmptyVals s) (op : BscOp) :
    ModuleKeys (applyBsc s op) ∧ NonEmptyVals (applyBsc s op) := by
  obtain ⟨hm, hn⟩ := h
  cases op with
  | create chain cb sb hgt signer pending =>
    simp only [applyBsc]
    split
    · next hg =>
      simp only [Bool.and_eq_true, beq_iff_eq, Bool.not_eq_true', List.isEmpty_eq_false_iff, Option.isNone_iff_eq_none] at hg
      obtain ⟨⟨⟨⟨g1, g2⟩, g3⟩, g4⟩, g5⟩ := hg
      refine ⟨moduleKeys_createClient hm hgt g1 g5, ?_⟩
      obtain ⟨_, ty, hty, _, hcons⟩ := createGuard_spec g1
      have hsb : sb ≠ [] := by
        rcases hcons with e | e
        · rw [hty] at g2; injection g2 with g2; rw [e] at g2; exact absurd g2 (by decide)
        · cases hc : consTy sb with
          | none => rw [hc] at e; simp at e
          | some t => exact consTy_ne_nil hc
      unfold createClient setConsensusState bscSetPending bscSetSigner setClientState
      exact nonEmptyVals_set (nonEmptyVals_set (nonEmptyVals_set (nonEmptyVals_set hn _ (clientTy_ne_nil g2)) _ g3) _ g4) _ hsb
    · exact ⟨hm, hn⟩
  | update chain hgt cb sb signer pending dels =>
    simp only [applyBsc]
    split
    · next hg => exact ⟨moduleKeys_bscUpdate hm hgt dels hg, nonEmptyVals_bscUpdate hn hgt dels hg⟩
    · exact ⟨hm, hn⟩

/-- every state reachable by installing BSC clients and feeding them accepted headers satisfies ModuleKeys and has no empty value -/
theorem bsc_reachable (n : Bytes) (ops : List BscOp) :
    ModuleKeys (ops.foldl applyBsc (freshStore n)) ∧ NonEmptyVals (ops.foldl applyBsc (freshStore n)) := by
  have : ∀ (ops : List BscOp) (s : Store), ModuleKeys s ∧ NonEmptyVals s → ModuleKeys (ops.foldl applyBsc s) ∧ NonEmptyVals (ops.foldl applyBsc s) := by
    intro ops
    induction ops with
    | nil => intro s h; exact h
    | cons op r ih => intro s h; exact ih _ (applyBsc_invariant h op)
  exact this ops _ ⟨moduleKeys_fresh n, nonEmptyVals_fresh n⟩

theorem bsc_reachable_roundtrip (n : Bytes) (ops : List BscOp) :
    initXibc (exportXibc (ops.foldl applyBsc (freshStore n))) = ops.foldl applyBsc (freshStore n) :=
  roundtrip (bsc_reachable n ops).1

/-! ## the metadata part of `GenesisState.Validate` -/

theorem exportMeta_key_ne_nil {ty : Ty} {cs : Store} {e : Bytes × Bytes} (h : e ∈ exportMeta ty cs) : e.1 ≠ [] := by
  have key : ∀ p : Bytes, p ≠ [] → p.isPrefixOf e.1 = true → e.1 ≠ [] := by
    intro p hp hpre he
    rw [he] at hpre
    cases p with
    | nil => exact hp rfl
    | cons a r => simp [List.isPrefixOf] at hpre
  cases ty <;> simp only [exportMeta, List.mem_append, List.mem_filter, mem_iter, List.not_mem_nil, Bool.and_eq_true] at h
  · rcases h with ⟨⟨_, hp⟩, _⟩ | ⟨_, hp⟩
    · exact key kConsWord (by decide) hp
    · exact key kIterate (by decide) hp
  · rcases h with ⟨_, hp⟩ | ⟨_, hp⟩
    · exact key kRecent (by decide) hp
    · exact key kPending (by decide) hp
  · rcases h with ⟨_, hp⟩ | ⟨_, hp⟩
    · exact key kEthIndex (by decide) hp
    · exact key kEthRoot (by decide) hp

/-- in a store without empty values every exported client-metadata entry has a non-empty key and a non-empty value
(`GenesisMetadata.Validate` accepts every entry of the export) -/
theorem export_metadata_valid {s : Store} (hv : NonEmptyVals s) :
    ∀ cm ∈ (exportXibc s).client.metadata, ∀ kv ∈ cm.2, kv.1 ≠ [] ∧ kv.2 ≠ [] := by
  rw [nonEmptyVals_iff] at hv
  intro cm hcm kv hkv
  simp only [exportXibc, exportClientGen] at hcm
  unfold exportMetadata at hcm
  simp only [List.mem_filterMap] at hcm
  obtain ⟨cb, _, hh⟩ := hcm
  split at hh
  · simp at hh
  · next ty hty =>
    split at hh
    · simp at hh
    · injection hh with hh
      subst hh
      refine ⟨exportMeta_key_ne_nil hkv, ?_⟩
      have hm := exportMeta_sub ty _ kv hkv
      obtain ⟨k, v⟩ := kv
      have := (mem_clientStore s cb.1 k v).mp hm
      exact hv (clientKey cb.1 k, v) this (clientKey_ne_chainName _ _)

/-- **`export_validates`, metadata part, for every reachable state of the BSC update path** (by induction over create + accepted
headers): no exported metadata entry — recent signers, pending validators — has an empty key or value.
`export_validates_bsc_partial`: the remaining conjuncts of `GenesisState.Validate` (per-type `Validate()` / `ValidateBasic()` of the
blobs, identifier rule, height ≠ 0-0, client / consensus type agreement) are given by `export_validates` under `WellFormed`; that
`WellFormed` is itself an invariant of the BSC operations is not proved here (it needs the external `Env` facts about every
blob on the op line), it is checked by the differential run. -/
theorem export_validates_bsc_partial (n : Bytes) (ops : List BscOp) :
    ∀ cm ∈ (exportXibc (ops.foldl applyBsc (freshStore n))).client.metadata, ∀ kv ∈ cm.2, kv.1 ≠ [] ∧ kv.2 ≠ [] :=
  export_metadata_valid (bsc_reachable n ops).2

/-- the seeded reset `SetPendingValidators(store, cdc, nil)` written as a model operation leaves an empty value: such a state is
outside `NonEmptyVals`, and its export carries a metadata entry with an empty value -/
theorem empty_pending_breaks_validation (s : Store) (chain : Bytes) :
    ¬ NonEmptyVals (bscSetPending s chain []) := by
  intro h
  rw [nonEmptyVals_iff] at h
  have hm : (clientKey chain kPending, ([] : Bytes)) ∈ bscSetPending s chain [] := by
    unfold bscSetPending
    have : ∀ (t : Store) (k v : Bytes), (k, v) ∈ set t k v := by
      intro t k v
      induction t with
      | nil => simp [GKv.set]
      | cons a r ih =>
        obtain ⟨k0, v0⟩ := a
        simp only [GKv.set]
        split
        · exact List.mem_cons_self ..
        · split
          · exact List.mem_cons_self ..
          · exact List.mem_cons_of_mem _ ih
    exact this _ _ _
  exact h _ hm (clientKey_ne_chainName _ _) rfl

end TM.Genesis
