import TeleportModel.Proofs.C04
import TeleportModel.Proofs.C19Tables
/-
C04 — discharge of the round-trip hypothesis of `send_commitment_is_hash_of_emitted` by the C19 ABI/JSON theorems over
the GENERATED tables (`Generated/AbiTuples`: tuple layout of `TuplePacketData` from evm.go, JSON schema of
`types.Packet` from packet.pb.go). A renamed tuple component or JSON tag breaks `TM.C19.packet_tagsMatch`
(`by decide`), and with it this module.
-/
namespace TM.Send
open TM TM.Abi TM.Json TM.Generated

/-- what the hook and `SendPacket` do with an emitted payload: `ABIDecode` into the struct, `ABIPack` of the struct -/
def abiCodec : Codec :=
  { reenc := fun raw =>
      (decodeStruct AbiTuples.tuplePacketData AbiTuples.packetSchema raw).bind
        (packStruct AbiTuples.tuplePacketData AbiTuples.packetSchema) }

/-- every payload the packet contract emits — the canonical ABI encoding `raw` of some packet `sv` with valid UTF-8
strings — survives decode-then-encode unchanged -/
theorem abi_roundtrip (sv : List Val) (raw : Bytes)
    (hty : sv.map Val.ty = AbiTuples.packetSchema.map (·.ty)) (hu : ∀ v ∈ sv, strOk v = true)
    (hp : packStruct AbiTuples.tuplePacketData AbiTuples.packetSchema sv = some raw) (hsz : raw.length < 2 ^ 256) :
    RoundTrip abiCodec raw := by
  unfold RoundTrip abiCodec
  simp only
  rw [TM.C19.packet_decode_encode sv raw hty hu hp hsz]
  exact hp

/-- **The commitment of a successful send is sha256 of the bytes in the contract's `PacketSent` log**, for the ABI
tuple / JSON schema the repository has now (no hypothesis about the codec left). -/
theorem send_commitment_is_hash_of_emitted_abi {env : Env} {c c' : Chain} {p : Packet} (sv : List Val) (raw : Bytes)
    (hty : sv.map Val.ty = AbiTuples.packetSchema.map (·.ty)) (hu : ∀ v ∈ sv, strOk v = true)
    (hp : packStruct AbiTuples.tuplePacketData AbiTuples.packetSchema sv = some raw) (hsz : raw.length < 2 ^ 256)
    (hdec : abiCodec.reenc raw = some p.bytes) (h : sendPacket env c p = .ok c') :
    c'.commits (p.dst, p.seq) = some (env.sha256 raw) :=
  send_commitment_is_hash_of_emitted abiCodec raw hdec (abi_roundtrip sv raw hty hu hp hsz) h

end TM.Send
