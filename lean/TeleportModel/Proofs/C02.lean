import TeleportModel.Lemmas.Xibc
import TeleportModel.Proofs.C08
/-
C02 — authenticity of receives and acknowledgements.

`recv_authentic` / `ack_authentic` hold for every `Env`. The contrapositive statements (`altered_rejected…`)
need the explicit assumptions
  * `MembershipSound env S`  — the client's membership verifier accepts only what the counterparty state with
    that root really maps the path to (ICS-23 / MPT soundness; `S` is the abstract "stored" relation),
  * `S` functional per (client, root, path), and
  * collision-freeness of the packet commitment sha256 ∘ ABIPack (`CommitInj`).
TSS clients are outside: for them acceptance rests on `proof = signer = TssAddress` (C06), which the theorems
state explicitly as the other disjunct.
-/
namespace TM.Xibc

/-- the delay check of the client kind (`verifyDelayPeriodPassed` for Tendermint, block delay for BSC/ETH) -/
def DelayPassed (cl : Client) (now : UInt64) (h : Height) : Prop :=
  match cl.kind with
  | .tm => ∃ pt, cl.processed.get h = some pt ∧ pt + cl.delayTime ≤ now
  | .tss => True
  | _ => ¬ (cl.latest.h < h.h) ∧ cl.delayBlock ≤ cl.latest.h - h.h   -- block numbers: no wrap in the subtraction

/-- what a successful `VerifyPacketCommitment` / `VerifyPacketAcknowledgement` established -/
def Verified (env : Env) (name : Bytes) (cl : Client) (now : UInt64) (h : Height) (proof path value : Bytes) : Prop :=
  (cl.kind = .tss ∧ proof = cl.tssAddr) ∨
  (cl.kind ≠ .tss ∧ cl.latest.lt h = false ∧ ∃ root, cl.cons.get h = some root ∧ DelayPassed cl now h ∧
    env.verify name cl.kind root proof path value = true)

theorem verify_true {env : Env} {name : Bytes} {cl : Client} {now : UInt64} {h : Height} {proof path value : Bytes}
    (hv : cl.verify env name now h proof path value = true) : Verified env name cl now h proof path value := by
  unfold Client.verify at hv
  cases hk : cl.kind with
  | tss => rw [hk] at hv; left; exact ⟨hk, by simpa using hv⟩
  | tm =>
    rw [hk] at hv
    simp only [Bool.and_eq_true, Bool.not_eq_true'] at hv
    obtain ⟨hl, hm⟩ := hv
    right
    refine ⟨by rw [hk]; simp, hl, ?_⟩
    split at hm
    · rename_i root pt hc hp
      simp only [Bool.and_eq_true, decide_eq_true_eq] at hm
      exact ⟨root, hc, by simp only [DelayPassed, hk]; exact ⟨pt, hp, hm.1⟩, by rw [hk]; exact hm.2⟩
    · cases hm
  | bsc =>
    rw [hk] at hv
    simp only [Bool.and_eq_true, Bool.not_eq_true'] at hv
    obtain ⟨hl, hm⟩ := hv
    right
    refine ⟨by rw [hk]; simp, hl.1, ?_⟩
    split at hm
    · rename_i root hc
      simp only [Bool.and_eq_true, decide_eq_true_eq] at hm
      exact ⟨root, hc, by simp only [DelayPassed, hk]; exact ⟨by simpa using hl.2, hm.1⟩, by rw [hk]; exact hm.2⟩
    · cases hm
  | eth =>
    rw [hk] at hv
    simp only [Bool.and_eq_true, Bool.not_eq_true'] at hv
    obtain ⟨hl, hm⟩ := hv
    right
    refine ⟨by rw [hk]; simp, hl.1, ?_⟩
    split at hm
    · rename_i root hc
      simp only [Bool.and_eq_true, decide_eq_true_eq] at hm
      exact ⟨root, hc, by simp only [DelayPassed, hk]; exact ⟨by simpa using hl.2, hm.1⟩, by rw [hk]; exact hm.2⟩
    · cases hm

/-- **recv_authentic**: an accepted receive decoded without error to a packet `p` for whose source chain a client
exists that — against a consensus state it holds at exactly the stated proof height, not above its latest height,
after the delay period — verified membership of sha256(ABIPack p) under exactly the commitment path of
(p.src, p.dst, p.seq) (or, for a TSS client, the signer is the TSS address). -/
theorem recv_authentic (env : Env) (c : Chain) (now : UInt64) (pk pf : Bytes) (h : Height) (s : Bytes) (cb : Callback)
    (hok : (deliver env c now (.recvPacket pk pf h s cb)).2 = .ok) :
    (env.decodePacket pk).2 = false ∧
    ∃ cl, c.clients.get (env.decodePacket pk).1.src = some cl ∧
      Verified env (env.decodePacket pk).1.src cl now h (cl.effProof s pf)
        (commitKey (env.decodePacket pk).1) (env.sha256 (env.encodePacket (env.decodePacket pk).1)) := by
  have eff := handle_recv_effect (deliver_ok_handle hok)
  have hb := eff.basic
  simp only [recvBasic, Bool.and_eq_true, Bool.not_eq_true'] at hb
  obtain ⟨cl, hcl, hv⟩ := eff.verified
  exact ⟨hb.1.2, cl, hcl, verify_true hv⟩

/-- the decode quirk of Keeper.RecvPacket (`err != nil && packet.Sequence == 0`) is unreachable through message
delivery: MsgRecvPacket.ValidateBasic already rejects every packet whose decoding reports an error. -/
theorem decode_quirk_unreachable (env : Env) (c : Chain) (now : UInt64) (pk pf : Bytes) (h : Height) (s : Bytes)
    (cb : Callback) (hd : (env.decodePacket pk).2 = true) :
    deliver env c now (.recvPacket pk pf h s cb) = (c, .err) := by
  rcases deliver_cases env c now (.recvPacket pk pf h s cb) with ⟨c', hh, hdv⟩ | ⟨e, _, hdv⟩
  · have hok : (deliver env c now (.recvPacket pk pf h s cb)).2 = .ok := by rw [hdv]
    have := (recv_authentic env c now pk pf h s cb hok).1
    rw [hd] at this; cases this
  · exact hdv

/-- **ack_authentic**: an accepted acknowledgement decoded to a packet `p` whose commitment this chain still holds —
the stored bytes equal sha256(ABIPack p) — and the client for p.dst verified membership of sha256(ack bytes) under
exactly the acknowledgement path of (p.src, p.dst, p.seq). -/
theorem ack_authentic (env : Env) (hne : ∀ b, env.sha256 b ≠ []) (c : Chain) (now : UInt64) (pk ak pf : Bytes)
    (h : Height) (s : Bytes) (o : EvmOut)
    (hok : (deliver env c now (.acknowledgement pk ak pf h s o)).2 = .ok) :
    (env.decodePacket pk).2 = false ∧
    c.commits.get (commitKey (env.decodePacket pk).1) = some (env.sha256 (env.encodePacket (env.decodePacket pk).1)) ∧
    ∃ cl, c.clients.get (env.decodePacket pk).1.dst = some cl ∧
      Verified env (env.decodePacket pk).1.dst cl now h (cl.effProof s pf)
        (ackKey (env.decodePacket pk).1) (env.sha256 ak) := by
  have eff := handle_ack_effect (deliver_ok_handle hok)
  have hb := eff.basic
  simp only [ackBasic, Bool.and_eq_true, Bool.not_eq_true'] at hb
  obtain ⟨cl, hcl, hv⟩ := eff.verified
  refine ⟨hb.1.2, ?_, cl, hcl, verify_true hv⟩
  have hst := eff.committed
  cases hg : c.commits.get (commitKey (env.decodePacket pk).1) with
  | none => rw [hg] at hst; exact absurd hst.symm (hne _)
  | some v => rw [hg] at hst; simp only [Option.getD_some] at hst; rw [hst]

/-- **rejected_unchanged**: every message that is not accepted leaves the whole state as it was. -/
theorem rejected_unchanged (env : Env) (c : Chain) (now : UInt64) (m : Msg) (h : (deliver env c now m).2 ≠ .ok) :
    (deliver env c now m).1 = c := deliver_err_unchanged h

/-! ### TSS-secured counterparties -/
theorem tss_verify_signer {env : Env} {name : Bytes} {cl : Client} {now : UInt64} {h : Height} {s pf path value : Bytes}
    (hk : cl.kind = .tss) (hv : cl.verify env name now h (cl.effProof s pf) path value = true) : s = cl.tssAddr := by
  unfold Client.verify at hv
  rw [hk] at hv
  simp only [Client.effProof, hk, ↓reduceIte] at hv
  simpa using hv

/-- **tss_recv_needs_tss_signer**: a receive verified by a TSS client is accepted only if the message signer is the
client's TSS address — whatever the proof field contains (empty, the public TSS address, anything). -/
theorem tss_recv_needs_tss_signer (env : Env) (c : Chain) (now : UInt64) (pk pf : Bytes) (h : Height) (s : Bytes)
    (cb : Callback) (cl : Client) (hcl : c.clients.get (env.decodePacket pk).1.src = some cl) (hk : cl.kind = .tss)
    (hok : (deliver env c now (.recvPacket pk pf h s cb)).2 = .ok) : s = cl.tssAddr := by
  obtain ⟨cl', hcl', hv⟩ := (handle_recv_effect (deliver_ok_handle hok)).verified
  rw [hcl] at hcl'; injection hcl' with hcl'; subst hcl'
  exact tss_verify_signer hk hv

/-- **tss_ack_needs_tss_signer**: the same for acknowledgements — putting the (public) TSS address into `ProofAcked`
does not help an account that is not the TSS address. -/
theorem tss_ack_needs_tss_signer (env : Env) (c : Chain) (now : UInt64) (pk ak pf : Bytes) (h : Height) (s : Bytes)
    (o : EvmOut) (cl : Client) (hcl : c.clients.get (env.decodePacket pk).1.dst = some cl) (hk : cl.kind = .tss)
    (hok : (deliver env c now (.acknowledgement pk ak pf h s o)).2 = .ok) : s = cl.tssAddr := by
  obtain ⟨cl', hcl', hv⟩ := (handle_ack_effect (deliver_ok_handle hok)).verified
  rw [hcl] at hcl'; injection hcl' with hcl'; subst hcl'
  exact tss_verify_signer hk hv

/-! ### EVM-secured counterparties: the stored word is compared exactly -/
section EvmValue
open TM.EvmProof (checkProofResult rlpString trimZeros leftPad32)

/-- Shape of the BSC / ETH membership verifier: the account and storage proofs establish (abstractly: `lookup`) the RLP
value the storage trie holds for the slot of `path` under `root` — `none` if a proof fails — and the value check is the
transcribed `checkProofResult`: RLP-decode the trimmed word and pad it on the LEFT to 32 bytes. -/
def EvmShaped (env : Env) (lookup : Bytes → Bytes → Bytes → Bytes → Option Bytes) : Prop :=
  ∀ name kind root proof path value, (kind = ClientKind.bsc ∨ kind = ClientKind.eth) →
    env.verify name kind root proof path value =
      (match lookup name root proof path with
       | some r => checkProofResult r value
       | none => false)

/-- what the proofs establish is what the EVM stores for the sealed word: the RLP string of its minimal big-endian
form (`sealed name root path` = the 32-byte word the packet contract holds at the slot of `path` in the state `root`) -/
def LookupSound (lookup : Bytes → Bytes → Bytes → Bytes → Option Bytes) (sealed : Bytes → Bytes → Bytes → Option Bytes) : Prop :=
  ∀ name root proof path r, lookup name root proof path = some r →
    ∃ w, sealed name root path = some w ∧ w.length = 32 ∧ r = rlpString (trimZeros w)

/-- **evm_value_exact**: the EVM clients accept a 32-byte commitment / acknowledgement hash only if the sealed word is
exactly that hash — a word with leading zero bytes is compared after LEFT-padding its trimmed form, so neither `W[k:]‖0^k`
nor `0^k‖H[0..32-k)` passes for another word. -/
theorem evm_value_exact {env : Env} {lookup : Bytes → Bytes → Bytes → Bytes → Option Bytes}
    {sealed : Bytes → Bytes → Bytes → Option Bytes} (hshape : EvmShaped env lookup) (hsound : LookupSound lookup sealed)
    {name : Bytes} {kind : ClientKind} (hkind : kind = .bsc ∨ kind = .eth) {root proof path value : Bytes}
    (hlen : value.length = 32) (hv : env.verify name kind root proof path value = true) :
    sealed name root path = some value := by
  rw [hshape name kind root proof path value hkind] at hv
  split at hv
  · rename_i r hr
    obtain ⟨w, hw, hwl, hrw⟩ := hsound _ _ _ _ _ hr
    obtain ⟨t, hdec, _, htrim⟩ := (TM.EvmProof.leading_zero_values hlen r).mp hv
    have hl := TM.EvmProof.trimZeros_length_le w
    rw [hrw, TM.EvmProof.rlpDecodeBytes_rlpString (by omega)] at hdec
    injection hdec with hdec
    subst hdec
    -- trimZeros (trimZeros w) = trimZeros value; pad both back to 32 bytes
    have h1 : leftPad32 (trimZeros w) = value := (TM.EvmProof.leftPad32_eq_iff hlen).mpr ⟨by omega, htrim⟩
    rw [TM.EvmProof.leftPad32_trimZeros hwl] at h1
    rw [hw, h1]
  · cases hv

/-- conversely a genuinely stored word is accepted whatever its number of leading (or trailing) zero bytes -/
theorem evm_value_roundtrip {w : Bytes} (hw : w.length = 32) : checkProofResult (rlpString (trimZeros w)) w = true :=
  TM.EvmProof.leading_zero_roundtrip hw

/-- **evm_recv_exact**: an accepted receive secured by a BSC / ETH client ⇒ under the root the client holds at the proof
height the packet contract's sealed word at the commitment path of exactly this triple is exactly sha256(ABIPack p). -/
theorem evm_recv_exact (env : Env) (lookup : Bytes → Bytes → Bytes → Bytes → Option Bytes)
    (sealed : Bytes → Bytes → Bytes → Option Bytes) (hshape : EvmShaped env lookup) (hsound : LookupSound lookup sealed)
    (hsha : ∀ b, (env.sha256 b).length = 32)
    (c : Chain) (now : UInt64) (pk pf : Bytes) (h : Height) (s : Bytes) (cb : Callback) (cl : Client)
    (hcl : c.clients.get (env.decodePacket pk).1.src = some cl) (hk : cl.kind = .bsc ∨ cl.kind = .eth)
    (hok : (deliver env c now (.recvPacket pk pf h s cb)).2 = .ok) :
    ∃ root, cl.cons.get h = some root ∧
      sealed (env.decodePacket pk).1.src root (commitKey (env.decodePacket pk).1) =
        some (env.sha256 (env.encodePacket (env.decodePacket pk).1)) := by
  obtain ⟨_, cl', hcl', hv⟩ := recv_authentic env c now pk pf h s cb hok
  rw [hcl] at hcl'; injection hcl' with hcl'; subst hcl'
  rcases hv with ⟨ht, _⟩ | ⟨_, _, root, hroot, _, hver⟩
  · rcases hk with hk | hk <;> rw [hk] at ht <;> cases ht
  · exact ⟨root, hroot, evm_value_exact hshape hsound hk (hsha _) hver⟩

end EvmValue

/-! ### contrapositive: altered messages are rejected -/
/-- soundness of the membership verifiers w.r.t. an abstract "the counterparty state with this root maps path to
value" relation `S client root path value` -/
def MembershipSound (env : Env) (S : Bytes → Bytes → Bytes → Bytes → Prop) : Prop :=
  ∀ name kind root proof path value, env.verify name kind root proof path value = true → S name root path value

/-- **altered_rejected**: if, for the proof-verifying client of the source chain, no consensus state held at the
stated height has a root under which the source stored sha256(ABIPack p) at p's commitment path, the receive is
rejected (whatever proof bytes it carries) and nothing changes. -/
theorem altered_rejected (env : Env) (S : Bytes → Bytes → Bytes → Bytes → Prop) (hs : MembershipSound env S)
    (c : Chain) (now : UInt64) (pk pf : Bytes) (h : Height) (s : Bytes) (cb : Callback)
    (hnotss : ∀ cl, c.clients.get (env.decodePacket pk).1.src = some cl → cl.kind ≠ .tss)
    (hnot : ∀ cl root, c.clients.get (env.decodePacket pk).1.src = some cl → cl.cons.get h = some root →
      ¬ S (env.decodePacket pk).1.src root (commitKey (env.decodePacket pk).1)
          (env.sha256 (env.encodePacket (env.decodePacket pk).1))) :
    deliver env c now (.recvPacket pk pf h s cb) = (c, .err) := by
  rcases deliver_cases env c now (.recvPacket pk pf h s cb) with ⟨c', hh, hdv⟩ | ⟨e, _, hdv⟩
  · have hok : (deliver env c now (.recvPacket pk pf h s cb)).2 = .ok := by rw [hdv]
    obtain ⟨_, cl, hcl, hv⟩ := recv_authentic env c now pk pf h s cb hok
    rcases hv with ⟨ht, _⟩ | ⟨_, _, root, hroot, _, hver⟩
    · exact absurd ht (hnotss cl hcl)
    · exact absurd (hs _ _ _ _ _ _ hver) (hnot cl root hcl hroot)
  · exact hdv

/-- the same for acknowledgements -/
theorem altered_ack_rejected (env : Env) (S : Bytes → Bytes → Bytes → Bytes → Prop) (hs : MembershipSound env S)
    (c : Chain) (now : UInt64) (pk ak pf : Bytes) (h : Height) (s : Bytes) (o : EvmOut)
    (hnotss : ∀ cl, c.clients.get (env.decodePacket pk).1.dst = some cl → cl.kind ≠ .tss)
    (hnot : ∀ cl root, c.clients.get (env.decodePacket pk).1.dst = some cl → cl.cons.get h = some root →
      ¬ S (env.decodePacket pk).1.dst root (ackKey (env.decodePacket pk).1) (env.sha256 ak)) :
    deliver env c now (.acknowledgement pk ak pf h s o) = (c, .err) := by
  rcases deliver_cases env c now (.acknowledgement pk ak pf h s o) with ⟨c', hh, hdv⟩ | ⟨e, _, hdv⟩
  · have eff := handle_ack_effect hh
    obtain ⟨cl, hcl, hv⟩ := eff.verified
    rcases verify_true hv with ⟨ht, _⟩ | ⟨_, _, root, hroot, _, hver⟩
    · exact absurd ht (hnotss cl hcl)
    · exact absurd (hs _ _ _ _ _ _ hver) (hnot cl root hcl hroot)
  · exact hdv

/-- collision-freeness of the packet commitment -/
def CommitInj (env : Env) : Prop :=
  ∀ p q : Packet, env.sha256 (env.encodePacket p) = env.sha256 (env.encodePacket q) → p = q

/-- **altered packet**: if under every root the client holds at height `h` the source stored the commitment of the
genuine packet `p0` at a path, then a message carrying any *other* packet with the same commitment path (same
triple: altered sender, transfer data, call data, callback address or fee option) is rejected. -/
theorem altered_packet_rejected (env : Env) (S : Bytes → Bytes → Bytes → Bytes → Prop) (hs : MembershipSound env S)
    (hfun : ∀ name root path v v', S name root path v → S name root path v' → v = v') (hinj : CommitInj env)
    (c : Chain) (now : UInt64) (pk pf : Bytes) (h : Height) (s : Bytes) (cb : Callback) (p0 : Packet)
    (hnotss : ∀ cl, c.clients.get (env.decodePacket pk).1.src = some cl → cl.kind ≠ .tss)
    (hgen : ∀ cl root, c.clients.get (env.decodePacket pk).1.src = some cl → cl.cons.get h = some root →
      S (env.decodePacket pk).1.src root (commitKey (env.decodePacket pk).1) (env.sha256 (env.encodePacket p0)))
    (halt : (env.decodePacket pk).1 ≠ p0) :
    deliver env c now (.recvPacket pk pf h s cb) = (c, .err) := by
  apply altered_rejected env S hs c now pk pf h s cb hnotss
  intro cl root hcl hroot hS
  have := hfun _ _ _ _ _ hS (hgen cl root hcl hroot)
  exact halt (hinj _ _ this)

/-! ### non-vacuity -/
section Example
def aPacket : Packet := ⟨[1], [2], 1, [], [9], [], [], 0⟩
/-- an environment whose verifier is sound for the relation "value = 0 :: path" -/
def aEnv : Env where
  sha256 := fun b => 0 :: b
  decodePacket := fun _ => (aPacket, false)
  encodePacket := fun _ => commitKey aPacket
  decodeAck := fun _ => none
  encodeAck := fun _ => [8]
  verify := fun _ _ _ _ path value => value == 0 :: path
  bech32Valid := fun _ => true

example : MembershipSound aEnv (fun _ _ path value => value = 0 :: path) := by
  intro name kind root proof path value h
  simpa [aEnv] using h

def aClient : Client := ⟨.tm, ⟨0, 5⟩, [(⟨0, 5⟩, [3])], [(⟨0, 5⟩, 0)], 0, 0, []⟩
def aChain : Chain := { Chain.init [2] with clients := [([1], aClient)], relayers := [⟨[4], [[1]], [[5]]⟩] }
-- accepted at the stored height, rejected at a height without consensus state and above the latest height
example : (deliver aEnv aChain 10 (.recvPacket [] [] ⟨0, 5⟩ [4] (.ok 0 [] []))).2 = .ok := by decide
example : (deliver aEnv aChain 10 (.recvPacket [] [] ⟨0, 4⟩ [4] (.ok 0 [] []))).2 = .err := by decide
example : (deliver aEnv aChain 10 (.recvPacket [] [] ⟨0, 6⟩ [4] (.ok 0 [] []))).2 = .err := by decide
end Example

end TM.Xibc
