import TeleportModel.Model.Abi
/-
C19 (part 1) — the ABI tuple encoding is loss-free, injective and canonical:
`decodeTop (types of vs) (encodeTop vs) = some vs` for every value list that fits into memory.
Proof shape: induction over the remaining components with the buffer invariant
`buf = P ++ heads ++ M ++ tails`, `|P| = 32·i`, `off = |P| + |heads| + |M|`.
-/
namespace TM.C19
open TM TM.Abi

/-! ### big-endian words -/

theorem length_toBE (k n : Nat) : (toBE k n).length = k := by
  induction k generalizing n with
  | zero => rfl
  | succ k ih => simp [toBE, ih]

theorem ofBE_snoc (a : Bytes) (x : UInt8) : ofBE (a ++ [x]) = ofBE a * 256 + x.toNat := by
  simp [ofBE, List.foldl_append]

theorem ofBE_toBE (k n : Nat) (h : n < 256 ^ k) : ofBE (toBE k n) = n := by
  induction k generalizing n with
  | zero => simp at h; subst h; rfl
  | succ k ih =>
    have h1 : n / 256 < 256 ^ k := by
      rw [Nat.pow_succ] at h
      exact Nat.div_lt_of_lt_mul (by omega)
    have h2 : (UInt8.ofNat (n % 256)).toNat = n % 256 := by
      simp [UInt8.toNat_ofNat']
    rw [toBE, ofBE_snoc, ih _ h1, h2]
    omega

theorem toBE_add (a b n : Nat) : toBE (a + b) n = toBE a (n / 256 ^ b) ++ toBE b n := by
  induction b generalizing n with
  | zero => simp [toBE]
  | succ b ih =>
    have : a + (b + 1) = (a + b) + 1 := by omega
    rw [this, toBE, ih, toBE, Nat.div_div_eq_div_mul, Nat.pow_succ, Nat.mul_comm 256, List.append_assoc]

theorem length_word (n : Nat) : (word n).length = 32 := length_toBE 32 n

theorem ofBE_word (n : Nat) (h : n < 2 ^ 256) : ofBE (word n) = n := by
  apply ofBE_toBE
  have : (256 : Nat) ^ 32 = 2 ^ 256 := by decide
  omega

/-! ### slices -/

theorem slice_mid (A B C : Bytes) (i n : Nat) (hi : A.length = i) (hn : B.length = n) :
    slice (A ++ B ++ C) i n = B := by
  subst hi; subst hn
  simp [slice, List.append_assoc]

theorem length_encDyn (s : Bytes) : (encDyn s).length = 32 + s.length + padLen s.length := by
  simp [encDyn, length_word]; omega

/-! ### one element -/

theorem decElem_u64 (out A C : Bytes) (i : Nat) (n : UInt64)
    (ho : out = A ++ word n.toNat ++ C) (hA : A.length = i * 32) :
    decElem out i .uint64 = some (.u64 n) := by
  have hlen : out.length = i * 32 + 32 + C.length := by
    rw [ho]; simp [length_word, hA]; omega
  have hw : word n.toNat = toBE 24 (n.toNat / 256 ^ 8) ++ toBE 8 n.toNat := toBE_add 24 8 n.toNat
  have hs : slice out (i * 32 + 24) 8 = toBE 8 n.toNat := by
    rw [ho, hw]
    have := slice_mid (A ++ toBE 24 (n.toNat / 256 ^ 8)) (toBE 8 n.toNat) C (i * 32 + 24) 8
      (by simp [length_toBE, hA]) (length_toBE 8 _)
    simpa [List.append_assoc] using this
  have hn : n.toNat < 256 ^ 8 := by
    have := n.toNat_lt
    have h2 : (256 : Nat) ^ 8 = 2 ^ 64 := by decide
    omega
  unfold decElem
  rw [if_neg (by omega)]
  simp only [hs, ofBE_toBE 8 _ hn]
  simp

theorem decElem_dyn (out A C D E s : Bytes) (i off : Nat) (t : Ty) (ht : t ≠ .uint64)
    (ho : out = A ++ word off ++ C) (hA : A.length = i * 32)
    (ho2 : out = D ++ encDyn s ++ E) (hD : D.length = off) (hb : out.length < 2 ^ 256) :
    decElem out i t = some (if t = .str then .str s else .bytes s) := by
  have hlen : out.length = i * 32 + 32 + C.length := by
    rw [ho]; simp [length_word, hA]; omega
  have hlen2 : out.length = off + (32 + s.length + padLen s.length) + E.length := by
    rw [ho2]; simp [length_encDyn, hD]; omega
  have hoff : off < 2 ^ 256 := by omega
  have hsl : s.length < 2 ^ 256 := by omega
  have h1 : slice out (i * 32) 32 = word off := by
    rw [ho]; exact slice_mid A (word off) C _ _ hA (length_word _)
  have h2 : slice out off 32 = word s.length := by
    rw [ho2]
    have := slice_mid D (word s.length) (s ++ List.replicate (padLen s.length) 0 ++ E) off 32 hD (length_word _)
    simpa [encDyn, List.append_assoc] using this
  have h3 : slice out (off + 32) s.length = s := by
    rw [ho2]
    have := slice_mid (D ++ word s.length) s (List.replicate (padLen s.length) 0 ++ E) (off + 32) s.length
      (by simp [length_word, hD]) rfl
    simpa [encDyn, List.append_assoc] using this
  unfold decElem
  rw [if_neg (by omega)]
  cases t with
  | uint64 => exact absurd rfl ht
  | str =>
    simp only [h1, ofBE_word off hoff, Nat.add_sub_cancel, h2, ofBE_word _ hsl, h3]
    rw [if_neg (by omega), if_neg (by omega)]
  | bytes =>
    simp only [h1, ofBE_word off hoff, Nat.add_sub_cancel, h2, ofBE_word _ hsl, h3]
    rw [if_neg (by omega), if_neg (by omega)]

/-! ### the tuple -/

theorem encGo_heads_length (r : List Val) (off : Nat) : (encGo r off).1.length = 32 * r.length := by
  induction r generalizing off with
  | nil => rfl
  | cons v r ih =>
    cases v <;> simp [encGo, length_word, ih] <;> omega

theorem decTupleAt_inv (r : List Val) : ∀ (P M : Bytes) (i off : Nat) (heads tails : Bytes),
    encGo r off = (heads, tails) → P.length = i * 32 → off = P.length + heads.length + M.length →
    off + tails.length < 2 ^ 256 →
    decTupleAt (P ++ heads ++ M ++ tails) i (r.map Val.ty) = some r := by
  induction r with
  | nil => intros; rfl
  | cons v r ih =>
    intro P M i off heads tails he hP hoff hb
    cases v with
    | u64 n =>
      simp only [encGo] at he
      generalize hg : encGo r off = g at he
      obtain ⟨h', t'⟩ := g
      simp only [Prod.mk.injEq] at he
      obtain ⟨rfl, rfl⟩ := he
      have hh : h'.length = 32 * r.length := by have := encGo_heads_length r off; rw [hg] at this; exact this
      simp only [List.map_cons, Val.ty, decTupleAt]
      rw [decElem_u64 _ P (h' ++ M ++ t') i n (by simp [List.append_assoc]) hP]
      have := ih (P ++ word n.toNat) M (i + 1) off h' t' hg
        (by simp [length_word, hP]; omega)
        (by simp [length_word] at hoff ⊢; omega) hb
      simp only [List.append_assoc] at this ⊢
      rw [this]
    | str s =>
      simp only [encGo] at he
      generalize hg : encGo r (off + (encDyn s).length) = g at he
      obtain ⟨h', t'⟩ := g
      simp only [Prod.mk.injEq] at he
      obtain ⟨rfl, rfl⟩ := he
      simp only [List.map_cons, Val.ty, decTupleAt]
      have hl : (P ++ (word off ++ h') ++ M ++ (encDyn s ++ t')).length = off + ((encDyn s).length + t'.length) := by
        simp [length_word] at hoff ⊢; omega
      rw [decElem_dyn _ P (h' ++ M ++ (encDyn s ++ t')) (P ++ word off ++ h' ++ M) t' s i off .str (by decide)
        (by simp [List.append_assoc]) hP (by simp [List.append_assoc])
        (by simp [length_word] at hoff ⊢; omega)
        (by rw [hl]; simpa using hb)]
      have := ih (P ++ word off) (M ++ encDyn s) (i + 1) (off + (encDyn s).length) h' t' hg
        (by simp [length_word, hP]; omega)
        (by simp [length_word] at hoff ⊢; omega)
        (by simp at hb ⊢; omega)
      simp only [List.append_assoc] at this ⊢
      rw [this]; rfl
    | bytes s =>
      simp only [encGo] at he
      generalize hg : encGo r (off + (encDyn s).length) = g at he
      obtain ⟨h', t'⟩ := g
      simp only [Prod.mk.injEq] at he
      obtain ⟨rfl, rfl⟩ := he
      simp only [List.map_cons, Val.ty, decTupleAt]
      have hl : (P ++ (word off ++ h') ++ M ++ (encDyn s ++ t')).length = off + ((encDyn s).length + t'.length) := by
        simp [length_word] at hoff ⊢; omega
      rw [decElem_dyn _ P (h' ++ M ++ (encDyn s ++ t')) (P ++ word off ++ h' ++ M) t' s i off .bytes (by decide)
        (by simp [List.append_assoc]) hP (by simp [List.append_assoc])
        (by simp [length_word] at hoff ⊢; omega)
        (by rw [hl]; simpa using hb)]
      have := ih (P ++ word off) (M ++ encDyn s) (i + 1) (off + (encDyn s).length) h' t' hg
        (by simp [length_word, hP]; omega)
        (by simp [length_word] at hoff ⊢; omega)
        (by simp at hb ⊢; omega)
      simp only [List.append_assoc] at this ⊢
      rw [this]; rfl

theorem length_encodeTop (vs : List Val) : (encodeTop vs).length = 32 + (encodeTuple vs).length := by
  simp [encodeTop, length_word]

/-- **decode ∘ encode = id** at the ABI level (no JSON step), for every value list whose encoding is shorter
    than 2^256 bytes (any Go slice is shorter than 2^63). -/
theorem decode_encode_raw (vs : List Val) (hsz : (encodeTop vs).length < 2 ^ 256) :
    decodeTop (vs.map Val.ty) (encodeTop vs) = some vs := by
  have hlen := length_encodeTop vs
  unfold decodeTop
  rw [if_neg (by omega), if_neg (by omega)]
  have htake : (encodeTop vs).take 32 = word 32 := by
    simp [encodeTop, length_word]
  have hdrop : (encodeTop vs).drop 32 = encodeTuple vs := by
    have := List.drop_left (l₁ := word 32) (l₂ := encodeTuple vs)
    rw [length_word] at this
    exact this
  simp only [htake, ofBE_word 32 (by decide), hdrop]
  rw [if_neg (by omega)]
  unfold encodeTuple
  generalize hg : encGo vs (32 * vs.length) = g
  obtain ⟨h, t⟩ := g
  have hh : h.length = 32 * vs.length := by have := encGo_heads_length vs (32 * vs.length); rw [hg] at this; exact this
  have := decTupleAt_inv vs [] [] 0 (32 * vs.length) h t hg rfl (by simp [hh])
    (by
      have : (encodeTuple vs).length = h.length + t.length := by simp [encodeTuple, hg]
      omega)
  simpa using this

/-- the encoding is injective on value lists of the same shape (no UTF-8 hypothesis) -/
theorem encode_injective (vs ws : List Val) (hty : vs.map Val.ty = ws.map Val.ty)
    (hv : (encodeTop vs).length < 2 ^ 256) (he : encodeTop vs = encodeTop ws) : vs = ws := by
  have h1 := decode_encode_raw vs hv
  have h2 := decode_encode_raw ws (he ▸ hv)
  rw [he, hty, h2] at h1
  exact (Option.some.inj h1).symm

/-- decoding the canonical bytes and encoding again reproduces them -/
theorem reencode_canonical (vs : List Val) (b : Bytes) (hb : b = encodeTop vs) (hsz : b.length < 2 ^ 256) :
    ∃ vs', decodeTop (vs.map Val.ty) b = some vs' ∧ encodeTop vs' = b := by
  subst hb
  exact ⟨vs, decode_encode_raw vs hsz, rfl⟩

def Collision (hash : Bytes → Bytes) (a b : Bytes) : Prop := a ≠ b ∧ hash a = hash b

/-- two different packets with the same commitment exhibit a collision of the hash function -/
theorem commitment_distinct (hash : Bytes → Bytes) (vs ws : List Val) (hty : vs.map Val.ty = ws.map Val.ty)
    (hv : (encodeTop vs).length < 2 ^ 256) (hne : vs ≠ ws)
    (hc : hash (encodeTop vs) = hash (encodeTop ws)) : Collision hash (encodeTop vs) (encodeTop ws) :=
  ⟨fun he => hne (encode_injective vs ws hty hv he), hc⟩

end TM.C19
