import TeleportModel.Model.Merkle
import TeleportModel.Generated.HostKeys
import TeleportModel.Generated.Validate
import TeleportModel.Generated.Merkle
import TeleportModel.Proofs.C19Host
import TeleportModel.Proofs.C19Cons
import TeleportModel.Proofs.C19Parse
import TeleportModel.Proofs.C19Scan
/-
C19 (part 9) — the Merkle path codec. The key bytes a proof is verified against (`GetKey`) are the key bytes the keeper
stored: in this tree a MerklePath is built WITHOUT escaping (NewMerklePath / ApplyPrefix keep their arguments verbatim) and
`GetKey` applies url.PathUnescape, which is the identity exactly on strings without '%'; every packet path of valid chain
names is such a string. The text form (`String` = PathEscape, `Pretty` = PathUnescape) is a symmetric pair on ALL bytes.
QueryUnescape in their place turns '+' — a valid identifier character — into a space.
-/
namespace TM.C19
open TM TM.Host TM.Merkle TM.Generated

/-! ### percent-encoding -/

theorem upperHex_spec : ∀ n : Fin 16, isHex (upperHex n.val) = true ∧ unHex (upperHex n.val) = n.val := by decide

theorem decode_byte (c : UInt8) :
    UInt8.ofNat (16 * unHex (upperHex (c.toNat / 16)) + unHex (upperHex (c.toNat % 16))) = c := by
  have h1 : c.toNat / 16 < 16 := by have := c.toNat_lt; omega
  have h2 : c.toNat % 16 < 16 := Nat.mod_lt _ (by decide)
  rw [(upperHex_spec ⟨_, h1⟩).2, (upperHex_spec ⟨_, h2⟩).2]
  have : 16 * (c.toNat / 16) + c.toNat % 16 = c.toNat := Nat.div_add_mod c.toNat 16
  simp only [this]
  simp

/-- unescape ∘ escape = id for BOTH matched pairs, on ALL byte strings, also in front of any rest -/
theorem unescape_escape_append (q : Bool) (s t : Bytes) :
    unescapeSt q .normal (escape q s ++ t) = (unescapeSt q .normal t).map (fun u => s ++ u) := by
  induction s with
  | nil => simp [escape]
  | cons c r ih =>
    unfold escape
    by_cases hsp : (c = 32 && q) = true
    · simp only [hsp, if_true, List.cons_append]
      obtain ⟨rfl, rfl⟩ : c = 32 ∧ q = true := by simpa using hsp
      simp [unescapeSt, ih, Option.map_map, Function.comp_def]
    · simp only [hsp]
      by_cases hesc : shouldEscape q c = true
      · have h1 : c.toNat / 16 < 16 := by have := c.toNat_lt; omega
        have h2 : c.toNat % 16 < 16 := Nat.mod_lt _ (by decide)
        simp only [hesc, if_true, List.cons_append, Bool.false_eq_true]
        have e1 := (upperHex_spec ⟨_, h1⟩).1
        have e2 := (upperHex_spec ⟨_, h2⟩).1
        simp only at e1 e2
        have hd := decode_byte c
        simp at hd
        simp [unescapeSt, e1, e2, ih, hd, Option.map_map, Function.comp_def]
      · have hne : c ≠ 37 := by intro h; subst h; cases q <;> simp [shouldEscape, isAlnum] at hesc
        simp only [hesc, if_false, List.cons_append, Bool.false_eq_true]
        by_cases hp : c = 43
        · subst hp
          have hq : q = false := by cases q <;> simp [shouldEscape, isAlnum] at hesc ⊢
          subst hq
          simp [unescapeSt, ih, Option.map_map, Function.comp_def]
        · simp [unescapeSt, hne, hp, ih, Option.map_map, Function.comp_def]

/-- PathUnescape (PathEscape s) = s and QueryUnescape (QueryEscape s) = s, for ALL byte strings -/
theorem unescape_escape (q : Bool) (s : Bytes) : unescape q (escape q s) = some s := by
  have := unescape_escape_append q s []
  rw [List.append_nil] at this
  simp [unescape, this, unescapeSt]

/-- PathUnescape is the identity exactly when there is nothing to unescape: no '%' -/
theorem pathUnescape_noPercent (s : Bytes) (h : (37 : UInt8) ∉ s) : unescape false s = some s := by
  unfold unescape
  induction s with
  | nil => rfl
  | cons c r ih =>
    simp at h
    have hc : c ≠ 37 := fun e => h.1 e.symm
    by_cases hp : c = 43
    · subst hp; simp [unescapeSt, ih h.2]
    · simp [unescapeSt, hc, hp, ih h.2]

/-! ### MerklePath -/

/-- the codec of this tree: build verbatim, read back with PathUnescape; text form PathEscape / PathUnescape -/
def codecShape : Codec :=
  { newMerklePath := .none, applyPrefix := .none, string := .pathEscape, pretty := .pathUnescape, getKey := .pathUnescape }

/-- **GetKey returns the key-path element it was built from**, for every element without '%' (and the prefix) -/
theorem merkle_key_roundtrip (pre s : Bytes) (hpre : pre ≠ []) (hs : (37 : UInt8) ∉ s) :
    proofKey codecShape pre s = some s := by
  simp [proofKey, applyPrefix, hpre, newMerklePath, getKey, codecShape, applyEscape, applyUnescape, pathUnescape_noPercent s hs]

/-- for ALL byte strings: the element a path is built from is recovered from its text form (String / Pretty) -/
theorem merkle_text_roundtrip (s : Bytes) :
    pathPretty codecShape (newMerklePath codecShape [s]) = some (slash :: s) := by
  have := unescape_escape false s
  unfold unescape at this
  simp [pathPretty, pathString, newMerklePath, codecShape, applyEscape, applyUnescape, unescape, unescapeSt, slash, this]

/-- … and an escaped element is read back by GetKey as the original bytes, for ALL byte strings (the symmetric pair) -/
theorem merkle_escaped_key_roundtrip (s : Bytes) :
    getKey codecShape [applyEscape .pathEscape s] 0 = some s := by
  simp [getKey, codecShape, applyEscape, applyUnescape, unescape_escape]

/-! ### packet paths of valid names contain no '%' -/

theorem validName_noByte (r : IdRule) (c : UInt8) (hr : (r.checks.contains .charClass && !inClass r.cls c) = true)
    (id : Bytes) (hv : validName r id = true) : c ∉ id := by
  unfold validName at hv
  rw [List.all_eq_true] at hv
  simp only [Bool.and_eq_true, List.contains_iff_mem] at hr
  have := hv _ hr.1
  simp only [runCheck, Bool.and_eq_true, List.all_eq_true] at this
  intro hm
  have h2 := this.2 _ hm
  simp [h2] at hr

theorem toDec_noPercent (n : UInt64) : (37 : UInt8) ∉ toDec n := toDec_noByte n 37 (by decide)

/-- the proof key of a packet path equals the stored key, for every template of `PacketShape` whose literals and names
    are '%'-free -/
theorem merkle_packet_key (T : Template) (p0 m0 a b pre k : Bytes) (n : UInt64) (hT : PacketShape T p0 m0)
    (hp0 : (37 : UInt8) ∉ p0) (hm0 : (37 : UInt8) ∉ m0) (ha : (37 : UInt8) ∉ a) (hb : (37 : UInt8) ∉ b)
    (hpre : pre ≠ []) (hk : render T [.s a, .s b, .n n] = some k) : proofKey codecShape pre k = some k := by
  apply merkle_key_roundtrip pre k hpre
  rw [render_packet T p0 m0 a b n hT] at hk
  cases hk
  have hd := toDec_noPercent n
  simp only [List.mem_append, List.mem_cons, not_or]
  exact ⟨hp0, by decide, ha, by decide, hb, by decide, hm0, by decide, hd⟩

/-! ### obligations over the regenerated codec and proof-path tables -/

/-- the named functions are (verbatim build, PathEscape for the text, PathUnescape to read back) — the only symmetric
    choice that leaves '+' alone -/
theorem merkle_escape_pair_symmetric : Merkle.codec = codecShape := by decide

/-- every proof verification of the Tendermint client proves the very template the keeper stores under -/
theorem proofPaths_same_template : ∀ p ∈ Merkle.proofPaths, p.pathT = p.keyT := by decide

theorem proofPaths_known : Merkle.proofPaths.map (fun p => (p.fn, p.pathFn)) =
    [("VerifyPacketCommitment", "PacketCommitmentPath"), ("VerifyPacketAcknowledgement", "PacketAcknowledgementPath")] := by decide

theorem proofPaths_shape : ∀ p ∈ Merkle.proofPaths,
    PacketShape p.keyT (p0Of p.keyT) (m0Of p.keyT) ∧ (37 : UInt8) ∉ p0Of p.keyT ∧ (37 : UInt8) ∉ m0Of p.keyT := by decide

theorem srcChain_excludesPercent :
    (Validate.srcChainValidator.checks.contains .charClass && !inClass Validate.srcChainValidator.cls 37) = true := by decide
theorem dstChain_excludesPercent :
    (Validate.dstChainValidator.checks.contains .charClass && !inClass Validate.dstChainValidator.cls 37) = true := by decide

/-- **the statement on the generated tables**: for every proof verification of the Tendermint client, all VALID chain names
    (every character IsValidID admits, '+' included) and ALL sequences, the key looked up in the proof is the key stored -/
theorem generated_merkle_key_roundtrip (p : ProofPath) (hp : p ∈ Merkle.proofPaths) (a b pre path key : Bytes) (n : UInt64)
    (ha : validName Validate.srcChainValidator a = true) (hb : validName Validate.dstChainValidator b = true)
    (hpre : pre ≠ []) (hpath : render p.pathT [.s a, .s b, .n n] = some path)
    (hkey : render p.keyT [.s a, .s b, .n n] = some key) :
    proofKey Merkle.codec pre path = some key := by
  rw [proofPaths_same_template p hp, hkey] at hpath
  have hpk : key = path := Option.some.inj hpath
  subst hpk
  rw [merkle_escape_pair_symmetric]
  obtain ⟨h1, h2, h3⟩ := proofPaths_shape p hp
  exact merkle_packet_key p.keyT _ _ a b pre key n h1 h2 h3
    (validName_noByte _ 37 srcChain_excludesPercent a ha) (validName_noByte _ 37 dstChain_excludesPercent b hb) hpre hkey

/-! ### the seeded defect as a witness: QueryUnescape in GetKey reads `ab+cd` back as `ab cd` -/
theorem query_unescape_changes_plus :
    proofKey { codecShape with getKey := .queryUnescape } [120] [97, 98, 43, 99, 100] = some [97, 98, 32, 99, 100] := by decide

/-- … and verbatim build + PathUnescape is NOT the identity on strings with '%' (why the '%'-freeness above is needed) -/
theorem raw_percent_is_unescaped : proofKey codecShape [120] [37, 52, 49] = some [65] := by decide

end TM.C19
