import TeleportModel.Model.Genesis
import TeleportModel.Proofs.C13Base
/-
C13 — genesis export / import round trip (DESIGN.md 5/C13).

Main theorems (namespace TM.Genesis):
  roundtrip            ModuleKeys s → initXibc (exportXibc s) = s          (every UInt64 height / revision byte pattern,
                                                                           any mix of client types, any packet state)
  export_idempotent    ModuleKeys s → exportXibc (initXibc (exportXibc s)) = exportXibc s
  export_validates     ModuleKeys s → WellFormed env s → validateXibc env (exportXibc s) = true
  roundtrip_agg / roundtrip_params / roundtrip_all   the same for the aggregate store, the parameter subspaces, all three
  moduleKeys_*         the keeper writes of the model preserve ModuleKeys (for every height, sequence, name without '/')
-/
namespace TM.Genesis
open TM TM.GKv

/-! ## small list lemmas -/

theorem mem_insertByName {α : Type} (e x : Bytes × α) (l : List (Bytes × α)) :
    x ∈ insertByName e l ↔ x = e ∨ x ∈ l := by
  induction l with
  | nil => simp [insertByName]
  | cons y r ih =>
    simp only [insertByName]
    split
    · simp
    · simp only [List.mem_cons, ih]
      constructor
      · rintro (h | h | h)
        · exact Or.inr (Or.inl h)
        · exact Or.inl h
        · exact Or.inr (Or.inr h)
      · rintro (h | h | h)
        · exact Or.inr (Or.inl h)
        · exact Or.inl h
        · exact Or.inr (Or.inr h)

theorem mem_sortByName {α : Type} (x : Bytes × α) (l : List (Bytes × α)) : x ∈ sortByName l ↔ x ∈ l := by
  induction l with
  | nil => simp [sortByName]
  | cons y r ih =>
    have : sortByName (y :: r) = insertByName y (sortByName r) := rfl
    rw [this, mem_insertByName, ih]
    simp only [List.mem_cons]

theorem mem_groupAdd {α : Type} (acc : List (Bytes × List α)) (e : Bytes × α) (c : Bytes) (x : α) :
    (∃ l, (c, l) ∈ groupAdd acc e ∧ x ∈ l) ↔ ((∃ l, (c, l) ∈ acc ∧ x ∈ l) ∨ (c, x) = e) := by
  induction acc with
  | nil =>
    simp only [groupAdd, List.mem_singleton, Prod.mk.injEq, List.not_mem_nil, false_and, exists_false, false_or]
    constructor
    · rintro ⟨l, ⟨h1, h2⟩, hx⟩
      subst h2; simp at hx; subst hx
      exact Prod.ext h1 rfl
    · intro h
      obtain ⟨e1, e2⟩ := e
      simp at h
      obtain ⟨h1, h2⟩ := h
      subst h1; subst h2
      exact ⟨[x], ⟨rfl, rfl⟩, by simp⟩
  | cons a r ih =>
    obtain ⟨c0, l0⟩ := a
    simp only [groupAdd]
    split
    · next heq =>
      constructor
      · rintro ⟨l, hm, hx⟩
        rcases List.mem_cons.mp hm with h | h
        · injection h with h1 h2
          subst h1; subst h2
          rcases List.mem_append.mp hx with hx | hx
          · exact Or.inl ⟨l0, List.mem_cons_self .., hx⟩
          · simp at hx; subst hx; exact Or.inr (Prod.ext heq rfl)
        · exact Or.inl ⟨l, List.mem_cons_of_mem _ h, hx⟩
      · rintro (⟨l, hm, hx⟩ | h)
        · rcases List.mem_cons.mp hm with h | h
          · injection h with h1 h2
            subst h1; subst h2
            exact ⟨l ++ [e.2], List.mem_cons_self .., List.mem_append_left _ hx⟩
          · exact ⟨l, List.mem_cons_of_mem _ h, hx⟩
        · subst h
          simp at heq; subst heq
          exact ⟨l0 ++ [x], List.mem_cons_self .., by simp⟩
    · next hne =>
      constructor
      · rintro ⟨l, hm, hx⟩
        rcases List.mem_cons.mp hm with h | h
        · exact Or.inl ⟨l, h ▸ List.mem_cons_self .., hx⟩
        · rcases (ih).mp ⟨l, h, hx⟩ with ⟨l', hm', hx'⟩ | h'
          · exact Or.inl ⟨l', List.mem_cons_of_mem _ hm', hx'⟩
          · exact Or.inr h'
      · rintro (⟨l, hm, hx⟩ | h)
        · rcases List.mem_cons.mp hm with h | h
          · exact ⟨l, h ▸ List.mem_cons_self .., hx⟩
          · obtain ⟨l', hm', hx'⟩ := (ih).mpr (Or.inl ⟨l, h, hx⟩)
            exact ⟨l', List.mem_cons_of_mem _ hm', hx'⟩
        · obtain ⟨l', hm', hx'⟩ := (ih).mpr (Or.inr h)
          exact ⟨l', List.mem_cons_of_mem _ hm', hx'⟩

theorem mem_groupFold {α : Type} (L : List (Bytes × α)) (acc : List (Bytes × List α)) (c : Bytes) (x : α) :
    (∃ l, (c, l) ∈ L.foldl groupAdd acc ∧ x ∈ l) ↔ ((∃ l, (c, l) ∈ acc ∧ x ∈ l) ∨ (c, x) ∈ L) := by
  induction L generalizing acc with
  | nil => simp
  | cons e L ih =>
    simp only [List.foldl_cons, ih, mem_groupAdd, List.mem_cons]
    constructor
    · rintro ((h | h) | h)
      · exact Or.inl h
      · exact Or.inr (Or.inl h)
      · exact Or.inr (Or.inr h)
    · rintro (h | h | h)
      · exact Or.inl (Or.inl h)
      · exact Or.inl (Or.inr h)
      · exact Or.inr h

theorem mem_groupByName {α : Type} (L : List (Bytes × α)) (c : Bytes) (x : α) :
    (∃ l, (c, l) ∈ groupByName L ∧ x ∈ l) ↔ (c, x) ∈ L := by
  unfold groupByName
  rw [mem_groupFold]
  simp

/-! ## keys -/

theorem prefix_excl {p q k : Bytes} (hp : p.isPrefixOf k = true) (hq : q.isPrefixOf k = true)
    (h1 : p.isPrefixOf q = false) (h2 : q.isPrefixOf p = false) : False := by
  rcases isPrefixOf_comparable hp hq with h | h
  · rw [h1] at h; exact absurd h (by simp)
  · rw [h2] at h; exact absurd h (by simp)

theorem splitClientKey_some {k chain path : Bytes} (h : splitClientKey k = some (chain, path)) :
    k = clientKey chain path ∧ slash ∉ chain ∧ kClientsSlash.isPrefixOf k = true := by
  unfold splitClientKey at h
  split at h
  · next hp =>
    obtain ⟨e, hn⟩ := breakAt_some h
    refine ⟨?_, hn, hp⟩
    have := isPrefixOf_drop hp
    rw [e] at this
    rw [← this]
    simp [clientKey, clientPrefix]
  · simp at h

theorem splitClientKey_clientKey {chain : Bytes} (h : slash ∉ chain) (path : Bytes) :
    splitClientKey (clientKey chain path) = some (chain, path) := by
  unfold splitClientKey
  have e : clientKey chain path = kClientsSlash ++ (chain ++ slash :: path) := by simp [clientKey, clientPrefix]
  rw [e, isPrefixOf_append]
  simp only [if_true, List.drop_left]
  exact breakAt_append h path

theorem clients_prefix_clientKey (chain path : Bytes) : kClients.isPrefixOf (clientKey chain path) = true := by
  have e : clientKey chain path = kClientsSlash ++ (chain ++ slash :: path) := by simp [clientKey, clientPrefix]
  rw [e]
  exact isPrefixOf_trans (by decide) (isPrefixOf_append _ _)

theorem clients_prefix_of_split {k : Bytes} (h : kClientsSlash.isPrefixOf k = true) : kClients.isPrefixOf k = true :=
  isPrefixOf_trans (by decide) h

theorem consHeight?_some {path : Bytes} {h : Height} (hh : consHeight? path = some h) : path = consPath h := by
  unfold consHeight? at hh
  split at hh
  · next hc =>
    obtain ⟨hl, hp⟩ := hc
    injection hh with hh
    subst hh
    have e := isPrefixOf_drop hp
    have hk : kConsPrefix.length = 16 := by decide
    rw [hk] at e
    have hd : (path.drop 16).length = 16 := by simp [hl]
    have h1 : be64 (u64OfBE ((path.drop 16).take 8)) = (path.drop 16).take 8 := be64_u64OfBE _ (by simp [hd])
    have h2 : be64 (u64OfBE (path.drop 24)) = path.drop 24 := be64_u64OfBE _ (by simp [hl])
    simp only [consPath, h1, h2]
    have h3 : path.drop 24 = (path.drop 16).drop 8 := by simp
    rw [h3, List.take_append_drop, e]
  · simp at hh

theorem consHeight?_consPath (h : Height) : consHeight? (consPath h) = some h := by
  unfold consHeight?
  have hl : (consPath h).length = 32 := by simp [consPath, be64_length]; decide
  have hp : kConsPrefix.isPrefixOf (consPath h) = true := isPrefixOf_append _ _
  simp only [hl, hp, and_self, if_true]
  have hk : kConsPrefix.length = 16 := by decide
  have d16 : (consPath h).drop 16 = be64 h.1 ++ be64 h.2 := by
    unfold consPath; rw [← hk]; simp
  have d24 : (consPath h).drop 24 = be64 h.2 := by
    have : (consPath h).drop 24 = ((consPath h).drop 16).drop 8 := by simp
    rw [this, d16]
    have := be64_length h.1
    rw [← this]; simp
  have t8 : ((consPath h).drop 16).take 8 = be64 h.1 := by
    rw [d16]
    have := be64_length h.1
    rw [← this]; simp
  rw [t8, d24, u64OfBE_be64, u64OfBE_be64]

theorem mem_clientStore (s : Store) (chain k v : Bytes) :
    (k, v) ∈ clientStore s chain ↔ (clientKey chain k, v) ∈ s := by
  unfold clientStore
  simp only [List.mem_map, mem_iter]
  constructor
  · rintro ⟨kv, ⟨hm, hp⟩, e⟩
    injection e with e1 e2
    have := isPrefixOf_drop hp
    rw [e1] at this
    obtain ⟨k0, v0⟩ := kv
    simp at e2 this
    subst e2
    simp only [clientKey, this]
    exact hm
  · intro hm
    refine ⟨(clientKey chain k, v), ⟨hm, isPrefixOf_append _ _⟩, ?_⟩
    simp [clientKey]

theorem exportMeta_sub (ty : Ty) (cs : Store) (e : Bytes × Bytes) (h : e ∈ exportMeta ty cs) : e ∈ cs := by
  cases ty <;> simp only [exportMeta, List.mem_append, List.mem_filter, mem_iter, List.not_mem_nil] at h
  · rcases h with h | h
    · exact h.1.1
    · exact h.1
  · rcases h with h | h <;> exact h.1
  · rcases h with h | h <;> exact h.1

theorem metaPath_mem {ty : Ty} {cs : Store} {p v : Bytes} (hp : metaPath ty p = true) (hm : (p, v) ∈ cs) :
    (p, v) ∈ exportMeta ty cs := by
  cases ty <;> simp only [metaPath, Bool.or_eq_true, Bool.and_eq_true] at hp <;>
    simp only [exportMeta, List.mem_append, List.mem_filter, mem_iter, Bool.and_eq_true]
  · rcases hp with ⟨⟨h1, h2⟩, h3⟩ | h
    · exact Or.inl ⟨⟨hm, h1⟩, h2, h3⟩
    · exact Or.inr ⟨hm, h⟩
  · rcases hp with h | h
    · exact Or.inl ⟨hm, h⟩
    · exact Or.inr ⟨hm, h⟩
  · rcases hp with h | h
    · exact Or.inl ⟨hm, h⟩
    · exact Or.inr ⟨hm, h⟩
  · simp at hp

/-! ## packet keys -/

theorem hashKeyOk_spec {pfx k : Bytes} (h : hashKeyOk pfx k = true) :
    ∃ a b n, splitOn slash k = [pfx, a, b, kSequences, toDec n] ∧ parseDec (toDec n) = some n := by
  unfold hashKeyOk at h
  split at h
  · next p a b sq d heq =>
    simp only [Bool.and_eq_true, beq_iff_eq] at h
    obtain ⟨⟨h1, h2⟩, h3⟩ := h
    split at h3
    · next n hn =>
      simp only [beq_iff_eq] at h3
      subst h1; subst h2
      refine ⟨a, b, n, ?_, ?_⟩
      · rw [heq, h3]
      · rw [h3]; exact hn
    · simp at h3
  · simp at h

theorem parseHashKey_of_split {k pfx a b : Bytes} {n : Nat}
    (hs : splitOn slash k = [pfx, a, b, kSequences, toDec n]) (hp : parseDec (toDec n) = some n) :
    parseHashKey k = some (a, b, n) := by
  unfold parseHashKey
  rw [hs]
  simp [hp]

theorem packetKey_of_split {k pfx a b : Bytes} {n : Nat}
    (hs : splitOn slash k = [pfx, a, b, kSequences, toDec n]) : packetKey pfx a b n = k := by
  unfold packetKey
  rw [← hs, joinSlash_splitOn]

theorem seqKeyOk_spec {k : Bytes} (h : seqKeyOk k = true) : ∃ a b, splitOn slash k = [kNextSeq, a, b] := by
  unfold seqKeyOk at h
  split at h
  · next p a b heq =>
    simp only [beq_iff_eq] at h
    subst h
    exact ⟨a, b, heq⟩
  · simp at h

theorem parsePath_of_split {k a b : Bytes} (hs : splitOn slash k = [kNextSeq, a, b]) : parsePath k = some (a, b) := by
  unfold parsePath; rw [hs]

theorem nextSeqKey_of_split {k a b : Bytes} (hs : splitOn slash k = [kNextSeq, a, b]) : nextSeqKey a b = k := by
  unfold nextSeqKey; rw [← hs, joinSlash_splitOn]

theorem mem_iterateSeqs_sub (l : Store) (e : Bytes × Bytes × UInt64) (h : e ∈ iterateSeqs l) :
    ∃ kv ∈ l, ∃ a b, parsePath kv.1 = some (a, b) ∧ e = (a, b, u64OfBE (kv.2.take 8)) := by
  induction l with
  | nil => simp [iterateSeqs] at h
  | cons kv r ih =>
    simp only [iterateSeqs] at h
    split at h
    · next a b hp =>
      rcases List.mem_cons.mp h with h' | h'
      · exact ⟨kv, List.mem_cons_self .., a, b, hp, h'⟩
      · obtain ⟨kv', hm, x⟩ := ih h'
        exact ⟨kv', List.mem_cons_of_mem _ hm, x⟩
    · simp at h

theorem mem_iterateSeqs (l : Store) (hall : ∀ kv ∈ l, (parsePath kv.1).isSome = true) {kv : Bytes × Bytes} (hm : kv ∈ l)
    {a b : Bytes} (hp : parsePath kv.1 = some (a, b)) : (a, b, u64OfBE (kv.2.take 8)) ∈ iterateSeqs l := by
  induction l with
  | nil => simp at hm
  | cons kv0 r ih =>
    have h0 := hall kv0 (List.mem_cons_self ..)
    simp only [iterateSeqs]
    split
    · next a0 b0 hp0 =>
      rcases List.mem_cons.mp hm with e | hm'
      · subst e
        rw [hp0] at hp; injection hp with hp; injection hp with h1 h2; subst h1; subst h2
        exact List.mem_cons_self ..
      · exact List.mem_cons_of_mem _ (ih (fun kv hkv => hall kv (List.mem_cons_of_mem _ hkv)) hm')
    · next hn =>
      rw [hn] at h0; simp at h0

/-! ## the shape of a module key -/

theorem xKeyOk_cases {s : Store} {k v : Bytes} (h : xKeyOk s k v = true) :
    k = kChainName ∨
    (kRelayers.isPrefixOf k = true ∧ k = relayerKey (relayerAddr v)) ∨
    (∃ chain path, splitClientKey k = some (chain, path) ∧
       ((path = kClientState ∧ (clientTy v).isSome = true) ∨
        ((consHeight? path).isSome = true ∧ (consTy v).isSome = true) ∨
        (∃ cv ty, get s (clientKey chain kClientState) = some cv ∧ clientTy cv = some ty ∧ metaPath ty path = true))) ∨
    (kAcks.isPrefixOf k = true ∧ hashKeyOk kAcks k = true) ∨
    (kCommitments.isPrefixOf k = true ∧ hashKeyOk kCommitments k = true) ∨
    (kReceipts.isPrefixOf k = true ∧ hashKeyOk kReceipts k = true ∧ v = [1]) ∨
    (kNextSeq.isPrefixOf k = true ∧ seqKeyOk k = true ∧ v.length = 8) := by
  unfold xKeyOk at h
  split at h
  · next e => exact Or.inl e
  · split at h
    · next hp => exact Or.inr (Or.inl ⟨hp, by simpa using h⟩)
    · split at h
      · next hp =>
        split at h
        · simp at h
        · next chain path hsp =>
          refine Or.inr (Or.inr (Or.inl ⟨chain, path, hsp, ?_⟩))
          split at h
          · next e => exact Or.inl ⟨e, h⟩
          · split at h
            · next hc => exact Or.inr (Or.inl ⟨hc, h⟩)
            · split at h
              · simp at h
              · next ty hb =>
                cases hg : get s (clientKey chain kClientState) with
                | none => rw [hg] at hb; simp at hb
                | some cv =>
                  rw [hg] at hb
                  exact Or.inr (Or.inr ⟨cv, ty, rfl, by simpa using hb, h⟩)
      · split at h
        · next hp => exact Or.inr (Or.inr (Or.inr (Or.inl ⟨hp, h⟩)))
        · split at h
          · next hp => exact Or.inr (Or.inr (Or.inr (Or.inr (Or.inl ⟨hp, h⟩))))
          · split at h
            · next hp =>
              simp only [Bool.and_eq_true, beq_iff_eq] at h
              exact Or.inr (Or.inr (Or.inr (Or.inr (Or.inr (Or.inl ⟨hp, h.1, h.2⟩)))))
            · split at h
              · next hp =>
                simp only [Bool.and_eq_true, beq_iff_eq] at h
                exact Or.inr (Or.inr (Or.inr (Or.inr (Or.inr (Or.inr ⟨hp, h.1, h.2⟩)))))
              · simp at h

theorem chainName_prefix_false : kRelayers.isPrefixOf kChainName = false ∧ kClientsSlash.isPrefixOf kChainName = false
    ∧ kAcks.isPrefixOf kChainName = false ∧ kCommitments.isPrefixOf kChainName = false
    ∧ kReceipts.isPrefixOf kChainName = false ∧ kNextSeq.isPrefixOf kChainName = false := by decide

/-- a key under a packet-hash prefix (`acks`, `commitments`, `receipts`) has the canonical shape -/
theorem hashKey_of_prefix {s : Store} {k v pfx : Bytes} (h : xKeyOk s k v = true) (hp : pfx.isPrefixOf k = true)
    (hpfx : pfx = kAcks ∨ pfx = kCommitments ∨ pfx = kReceipts) :
    hashKeyOk pfx k = true ∧ (pfx = kReceipts → v = [1]) := by
  rcases xKeyOk_cases h with e | ⟨hq, _⟩ | ⟨chain, path, hsp, _⟩ | ⟨hq, hk⟩ | ⟨hq, hk⟩ | ⟨hq, hk, hv⟩ | ⟨hq, _⟩
  · subst e
    rcases hpfx with e | e | e <;> subst e <;> exact absurd hp (by decide)
  · rcases hpfx with e | e | e <;> subst e <;> exact (prefix_excl hp hq (by decide) (by decide)).elim
  · have hq := (splitClientKey_some hsp).2.2
    rcases hpfx with e | e | e <;> subst e <;> exact (prefix_excl hp hq (by decide) (by decide)).elim
  · rcases hpfx with e | e | e <;> subst e
    · exact ⟨hk, fun e => absurd e (by decide)⟩
    · exact (prefix_excl hp hq (by decide) (by decide)).elim
    · exact (prefix_excl hp hq (by decide) (by decide)).elim
  · rcases hpfx with e | e | e <;> subst e
    · exact (prefix_excl hp hq (by decide) (by decide)).elim
    · exact ⟨hk, fun e => absurd e (by decide)⟩
    · exact (prefix_excl hp hq (by decide) (by decide)).elim
  · rcases hpfx with e | e | e <;> subst e
    · exact (prefix_excl hp hq (by decide) (by decide)).elim
    · exact (prefix_excl hp hq (by decide) (by decide)).elim
    · exact ⟨hk, fun _ => hv⟩
  · rcases hpfx with e | e | e <;> subst e <;> exact (prefix_excl hp hq (by decide) (by decide)).elim

theorem seqKey_of_prefix {s : Store} {k v : Bytes} (h : xKeyOk s k v = true) (hp : kNextSeq.isPrefixOf k = true) :
    seqKeyOk k = true ∧ v.length = 8 := by
  rcases xKeyOk_cases h with e | ⟨hq, _⟩ | ⟨chain, path, hsp, _⟩ | ⟨hq, hk⟩ | ⟨hq, hk⟩ | ⟨hq, hk, hv⟩ | ⟨hq, hk, hv⟩
  · subst e; exact absurd hp (by decide)
  · exact (prefix_excl hp hq (by decide) (by decide)).elim
  · exact (prefix_excl hp (splitClientKey_some hsp).2.2 (by decide) (by decide)).elim
  · exact (prefix_excl hp hq (by decide) (by decide)).elim
  · exact (prefix_excl hp hq (by decide) (by decide)).elim
  · exact (prefix_excl hp hq (by decide) (by decide)).elim
  · exact ⟨hk, hv⟩

theorem relayerKey_of_prefix {s : Store} {k v : Bytes} (h : xKeyOk s k v = true) (hp : kRelayers.isPrefixOf k = true) :
    k = relayerKey (relayerAddr v) := by
  rcases xKeyOk_cases h with e | ⟨_, hk⟩ | ⟨chain, path, hsp, _⟩ | ⟨hq, hk⟩ | ⟨hq, hk⟩ | ⟨hq, hk, hv⟩ | ⟨hq, hk, hv⟩
  · subst e; exact absurd hp (by decide)
  · exact hk
  · exact (prefix_excl hp (splitClientKey_some hsp).2.2 (by decide) (by decide)).elim
  · exact (prefix_excl hp hq (by decide) (by decide)).elim
  · exact (prefix_excl hp hq (by decide) (by decide)).elim
  · exact (prefix_excl hp hq (by decide) (by decide)).elim
  · exact (prefix_excl hp hq (by decide) (by decide)).elim

/-! ## ModuleKeys unpacked -/

theorem moduleKeys_iff (s : Store) :
    ModuleKeys s ↔ (Sorted s ∧ (get s kChainName).isSome = true ∧ ∀ kv ∈ s, xKeyOk s kv.1 kv.2 = true) := by
  unfold ModuleKeys moduleKeysB
  simp only [Bool.and_eq_true, sortedB_iff, List.all_eq_true, and_assoc]

theorem mem_iterateClients {s : Store} {chain blob : Bytes} :
    (chain, blob) ∈ iterateClients s ↔ ∃ kv ∈ s, splitClientKey kv.1 = some (chain, kClientState) ∧ kv.2 = blob := by
  unfold iterateClients
  simp only [List.mem_filterMap, mem_iter]
  constructor
  · rintro ⟨kv, ⟨hm, _⟩, h⟩
    split at h
    · next c p hsp =>
      split at h
      · next e => subst e; injection h with h; injection h with h1 h2; subst h1; exact ⟨kv, hm, hsp, h2⟩
      · simp at h
    · simp at h
  · rintro ⟨kv, hm, hsp, e⟩
    refine ⟨kv, ⟨hm, clients_prefix_of_split (splitClientKey_some hsp).2.2⟩, ?_⟩
    rw [hsp]; simp [e]

theorem mem_iterateCons {s : Store} {chain blob : Bytes} {h : Height} :
    (chain, h, blob) ∈ iterateCons s ↔ ∃ kv ∈ s, ∃ path, splitClientKey kv.1 = some (chain, path) ∧ consHeight? path = some h ∧ kv.2 = blob := by
  unfold iterateCons
  simp only [List.mem_filterMap, mem_iter]
  constructor
  · rintro ⟨kv, ⟨hm, _⟩, hh⟩
    split at hh
    · next c p hsp =>
      split at hh
      · next h' hc =>
        injection hh with hh; injection hh with h1 hh; injection hh with h2 h3
        subst h1; subst h2
        exact ⟨kv, hm, p, hsp, hc, h3⟩
      · simp at hh
    · simp at hh
  · rintro ⟨kv, hm, path, hsp, hc, e⟩
    refine ⟨kv, ⟨hm, clients_prefix_of_split (splitClientKey_some hsp).2.2⟩, ?_⟩
    rw [hsp]; simp [hc, e]

theorem mem_iterateHashes {s : Store} {pfx a b v : Bytes} {n : Nat} :
    (a, b, n, v) ∈ iterateHashes s pfx ↔ ∃ kv ∈ s, pfx.isPrefixOf kv.1 = true ∧ parseHashKey kv.1 = some (a, b, n) ∧ kv.2 = v := by
  unfold iterateHashes
  simp only [List.mem_filterMap, mem_iter]
  constructor
  · rintro ⟨kv, ⟨hm, hp⟩, hh⟩
    split at hh
    · next a' b' n' hk =>
      injection hh with hh; injection hh with h1 hh; injection hh with h2 hh; injection hh with h3 h4
      subst h1; subst h2; subst h3
      exact ⟨kv, hm, hp, hk, h4⟩
    · simp at hh
  · rintro ⟨kv, hm, hp, hk, e⟩
    exact ⟨kv, ⟨hm, hp⟩, by rw [hk]; simp [e]⟩

/-- (A) every write of InitGenesis applied to the export is an entry of the exported store -/
theorem writes_sub {s : Store} (hmk : ModuleKeys s) : ∀ kv, kv ∈ xibcWrites (exportXibc s) → kv ∈ s := by
  obtain ⟨hS, hC, hK⟩ := (moduleKeys_iff s).mp hmk
  intro kv hkv
  simp only [xibcWrites, clientWrites, packetWrites, exportXibc, exportClientGen, exportPacketGen, List.mem_append,
    List.mem_flatMap, List.mem_map, List.mem_singleton] at hkv
  rcases hkv with ((((hm | hc) | hcons) | hrel) | hname) | (((hack | hcom) | hrec) | hseq)
  · -- metadata
    obtain ⟨cm, hcm, e, he, rfl⟩ := hm
    unfold exportMetadata at hcm
    simp only [List.mem_filterMap] at hcm
    obtain ⟨cb, _, hcb⟩ := hcm
    split at hcb
    · simp at hcb
    · next ty hty =>
      split at hcb
      · simp at hcb
      · injection hcb with hcb
        subst hcb
        have := exportMeta_sub ty _ e he
        obtain ⟨ek, ev⟩ := e
        exact (mem_clientStore s cb.1 ek ev).mp this
  · -- clients
    obtain ⟨cb, hcb, rfl⟩ := hc
    obtain ⟨chain, blob⟩ := cb
    rw [exportClients, mem_sortByName] at hcb
    obtain ⟨kv, hm, hsp, e⟩ := mem_iterateClients.mp hcb
    have := (splitClientKey_some hsp).1
    obtain ⟨k0, v0⟩ := kv
    simp at this e
    subst e; rw [← this]; exact hm
  · -- consensus states
    obtain ⟨cc, hcc, hb, hhb, rfl⟩ := hcons
    obtain ⟨chain, l⟩ := cc
    obtain ⟨h, blob⟩ := hb
    rw [exportCons, mem_sortByName] at hcc
    have := (mem_groupByName (iterateCons s) chain (h, blob)).mp ⟨l, hcc, hhb⟩
    obtain ⟨kv, hm, path, hsp, hc, e⟩ := mem_iterateCons.mp this
    have h1 := (splitClientKey_some hsp).1
    have h2 := consHeight?_some hc
    obtain ⟨k0, v0⟩ := kv
    simp at h1 e
    subst e; simp only; rw [← h2, ← h1]; exact hm
  · -- relayers
    obtain ⟨blob, hb, rfl⟩ := hrel
    unfold exportRelayers at hb
    simp only [List.mem_map, mem_iter] at hb
    obtain ⟨kv, ⟨hm, hp⟩, e⟩ := hb
    have := relayerKey_of_prefix (hK kv hm) hp
    obtain ⟨k0, v0⟩ := kv
    simp at e this
    subst e; rw [← this]; exact hm
  · -- chain name
    subst hname
    cases hg : get s kChainName with
    | none => rw [hg] at hC; simp at hC
    | some v => simp only [Option.getD]; exact (mem_iff_get hS _ _).mpr hg
  · -- acks
    obtain ⟨e, he, rfl⟩ := hack
    obtain ⟨a, b, n, v⟩ := e
    obtain ⟨kv, hm, hp, hk, ev⟩ := mem_iterateHashes.mp he
    obtain ⟨hok, _⟩ := hashKey_of_prefix (hK kv hm) hp (Or.inl rfl)
    obtain ⟨a', b', n', hs, hd⟩ := hashKeyOk_spec hok
    have := parseHashKey_of_split hs hd
    rw [hk] at this; injection this with this; injection this with h1 this; injection this with h2 h3
    subst h1; subst h2; subst h3
    obtain ⟨k0, v0⟩ := kv
    simp at ev; subst ev
    simp only; rw [packetKey_of_split hs]; exact hm
  · -- commitments
    obtain ⟨e, he, rfl⟩ := hcom
    obtain ⟨a, b, n, v⟩ := e
    obtain ⟨kv, hm, hp, hk, ev⟩ := mem_iterateHashes.mp he
    obtain ⟨hok, _⟩ := hashKey_of_prefix (hK kv hm) hp (Or.inr (Or.inl rfl))
    obtain ⟨a', b', n', hs, hd⟩ := hashKeyOk_spec hok
    have := parseHashKey_of_split hs hd
    rw [hk] at this; injection this with this; injection this with h1 this; injection this with h2 h3
    subst h1; subst h2; subst h3
    obtain ⟨k0, v0⟩ := kv
    simp at ev; subst ev
    simp only; rw [packetKey_of_split hs]; exact hm
  · -- receipts
    obtain ⟨e, he, rfl⟩ := hrec
    obtain ⟨a, b, n, v⟩ := e
    obtain ⟨kv, hm, hp, hk, ev⟩ := mem_iterateHashes.mp he
    obtain ⟨hok, hv⟩ := hashKey_of_prefix (hK kv hm) hp (Or.inr (Or.inr rfl))
    obtain ⟨a', b', n', hs, hd⟩ := hashKeyOk_spec hok
    have := parseHashKey_of_split hs hd
    rw [hk] at this; injection this with this; injection this with h1 this; injection this with h2 h3
    subst h1; subst h2; subst h3
    obtain ⟨k0, v0⟩ := kv
    have hv := hv rfl
    simp at ev hv; subst ev; subst hv
    simp only; rw [packetKey_of_split hs]; exact hm
  · -- send sequences
    obtain ⟨e, he, rfl⟩ := hseq
    obtain ⟨kv, hm, a, b, hpp, rfl⟩ := mem_iterateSeqs_sub _ e he
    obtain ⟨hm, hp⟩ := (mem_iter s kNextSeq kv).mp hm
    obtain ⟨hok, hl⟩ := seqKey_of_prefix (hK kv hm) hp
    obtain ⟨a', b', hs⟩ := seqKeyOk_spec hok
    have := parsePath_of_split hs
    rw [hpp] at this; injection this with this; injection this with h1 h2
    subst h1; subst h2
    obtain ⟨k0, v0⟩ := kv
    simp only at hl hs ⊢
    have ht : v0.take 8 = v0 := List.take_of_length_le (by omega)
    rw [ht, be64_u64OfBE v0 hl, nextSeqKey_of_split hs]; exact hm

/-- (B) every entry of the store is written back by InitGenesis of the export -/
theorem sub_writes {s : Store} (hmk : ModuleKeys s) : ∀ kv, kv ∈ s → kv ∈ xibcWrites (exportXibc s) := by
  obtain ⟨hS, hC, hK⟩ := (moduleKeys_iff s).mp hmk
  intro kv hkv
  obtain ⟨k, v⟩ := kv
  have hok : xKeyOk s k v = true := hK (k, v) hkv
  simp only [xibcWrites, clientWrites, packetWrites, exportXibc, exportClientGen, exportPacketGen, List.mem_append,
    List.mem_flatMap, List.mem_map, List.mem_singleton]
  rcases xKeyOk_cases hok with e | ⟨hq, hk⟩ | ⟨chain, path, hsp, hcase⟩ | ⟨hq, hk⟩ | ⟨hq, hk⟩ | ⟨hq, hk, hv⟩ | ⟨hq, hk, hv⟩
  · -- chain name
    subst e
    left; right
    have := (mem_iff_get hS _ _).mp hkv
    rw [this]; rfl
  · -- relayer
    left; left; right
    refine ⟨v, ?_, by rw [← hk]⟩
    unfold exportRelayers
    simp only [List.mem_map, mem_iter]
    exact ⟨(k, v), ⟨hkv, hq⟩, rfl⟩
  · obtain ⟨hkey, hns, _⟩ := splitClientKey_some hsp
    rcases hcase with ⟨e, _⟩ | ⟨hc, _⟩ | ⟨cv, ty, hg, hty, hmp⟩
    · -- client state
      subst e
      left; left; left; left; right
      refine ⟨(chain, v), ?_, by simp only [hkey]⟩
      rw [exportClients, mem_sortByName]
      exact mem_iterateClients.mpr ⟨(k, v), hkv, hsp, rfl⟩
    · -- consensus state
      cases hh : consHeight? path with
      | none => rw [hh] at hc; simp at hc
      | some h =>
        left; left; left; right
        have hin : (chain, h, v) ∈ iterateCons s := mem_iterateCons.mpr ⟨(k, v), hkv, path, hsp, hh, rfl⟩
        obtain ⟨l, hl, hx⟩ := (mem_groupByName (iterateCons s) chain (h, v)).mpr hin
        refine ⟨(chain, l), ?_, (h, v), hx, ?_⟩
        · rw [exportCons, mem_sortByName]; exact hl
        · simp only [← consHeight?_some hh, hkey]
    · -- client metadata
      left; left; left; left; left
      have hcl : (chain, cv) ∈ exportClients s := by
        rw [exportClients, mem_sortByName]
        refine mem_iterateClients.mpr ⟨(clientKey chain kClientState, cv), (mem_iff_get hS _ _).mpr hg, ?_, rfl⟩
        exact splitClientKey_clientKey hns _
      have hin : (path, v) ∈ exportMeta ty (clientStore s chain) :=
        metaPath_mem hmp ((mem_clientStore s chain path v).mpr (hkey ▸ hkv))
      refine ⟨(chain, exportMeta ty (clientStore s chain)), ?_, (path, v), hin, by simp only [hkey]⟩
      unfold exportMetadata
      simp only [List.mem_filterMap]
      refine ⟨(chain, cv), hcl, ?_⟩
      simp only [hty]
      have hne : (exportMeta ty (clientStore s chain)).isEmpty = false := by
        cases hl : exportMeta ty (clientStore s chain) with
        | nil => rw [hl] at hin; simp at hin
        | cons _ _ => rfl
      simp [hne]
  · -- ack
    right; left; left; left
    obtain ⟨a, b, n, hs, hd⟩ := hashKeyOk_spec hk
    exact ⟨(a, b, n, v), mem_iterateHashes.mpr ⟨(k, v), hkv, hq, parseHashKey_of_split hs hd, rfl⟩, by simp only [packetKey_of_split hs]⟩
  · -- commitment
    right; left; left; right
    obtain ⟨a, b, n, hs, hd⟩ := hashKeyOk_spec hk
    exact ⟨(a, b, n, v), mem_iterateHashes.mpr ⟨(k, v), hkv, hq, parseHashKey_of_split hs hd, rfl⟩, by simp only [packetKey_of_split hs]⟩
  · -- receipt
    right; left; right
    obtain ⟨a, b, n, hs, hd⟩ := hashKeyOk_spec hk
    exact ⟨(a, b, n, v), mem_iterateHashes.mpr ⟨(k, v), hkv, hq, parseHashKey_of_split hs hd, rfl⟩, by simp only [packetKey_of_split hs, hv]⟩
  · -- send sequence
    right; right
    obtain ⟨a, b, hs⟩ := seqKeyOk_spec hk
    have hall : ∀ kv ∈ iter s kNextSeq, (parsePath kv.1).isSome = true := by
      intro kv' hkv'
      obtain ⟨hm', hp'⟩ := (mem_iter s kNextSeq kv').mp hkv'
      obtain ⟨a', b', hs'⟩ := seqKeyOk_spec (seqKey_of_prefix (hK kv' hm') hp').1
      rw [parsePath_of_split hs']; rfl
    have hin := mem_iterateSeqs (iter s kNextSeq) hall ((mem_iter s kNextSeq (k, v)).mpr ⟨hkv, hq⟩) (parsePath_of_split hs)
    refine ⟨_, hin, ?_⟩
    simp only
    have ht : v.take 8 = v := List.take_of_length_le (by omega)
    rw [ht, be64_u64OfBE v hv, nextSeqKey_of_split hs]

/-- **C13 round trip.** For every store whose keys belong to the module's key families — any chain names without '/',
every 16-byte height / revision pattern (0x2f bytes included), any mix of client types, any packet state — exporting
and initialising a fresh store from the export reproduces the store exactly. -/
theorem roundtrip {s : Store} (h : ModuleKeys s) : initXibc (exportXibc s) = s :=
  setAll_nil_eq ((moduleKeys_iff s).mp h).1 _ (writes_sub h) (sub_writes h)

/-- the second export equals the first -/
theorem export_idempotent {s : Store} (h : ModuleKeys s) : exportXibc (initXibc (exportXibc s)) = exportXibc s := by
  rw [roundtrip h]

/-- InitGenesis on top of a store that already holds the state (e.g. re-running it) changes nothing -/
theorem init_absorb {s : Store} (h : ModuleKeys s) : initXibcOn s (exportXibc s) = s :=
  setAll_absorb ((moduleKeys_iff s).mp h).1 _ (writes_sub h)

/-! ## the export validates -/

theorem lookup_of_unique {α : Type} {l : List (Bytes × α)} {c : Bytes} {x : α} (hm : (c, x) ∈ l)
    (hu : ∀ y, (c, y) ∈ l → y = x) : l.lookup c = some x := by
  induction l with
  | nil => simp at hm
  | cons a r ih =>
    obtain ⟨c0, x0⟩ := a
    by_cases e : c = c0
    · subst e
      have := hu x0 (List.mem_cons_self ..)
      subst this
      simp [List.lookup]
    · have hne : (c == c0) = false := by simpa using e
      simp only [List.lookup, hne]
      apply ih
      · rcases List.mem_cons.mp hm with h | h
        · injection h with h1 _; exact absurd h1 e
        · exact h
      · exact fun y hy => hu y (List.mem_cons_of_mem _ hy)

theorem mem_exportClients {s : Store} {chain cv : Bytes} :
    (chain, cv) ∈ exportClients s ↔ ((clientKey chain kClientState, cv) ∈ s ∧ slash ∉ chain) := by
  rw [exportClients, mem_sortByName, mem_iterateClients]
  constructor
  · rintro ⟨kv, hm, hsp, e⟩
    obtain ⟨hk, hn, _⟩ := splitClientKey_some hsp
    obtain ⟨k0, v0⟩ := kv
    simp only at hk e
    subst e; rw [← hk]; exact ⟨hm, hn⟩
  · rintro ⟨hm, hn⟩
    exact ⟨_, hm, splitClientKey_clientKey hn _, rfl⟩

theorem lookup_exportClients {s : Store} (hS : Sorted s) {chain cv : Bytes} (h : (chain, cv) ∈ exportClients s) :
    (exportClients s).lookup chain = some cv :=
  lookup_of_unique h (fun y hy => mem_unique hS (mem_exportClients.mp hy).1 (mem_exportClients.mp h).1)

theorem exportMeta_path {ty : Ty} {cs : Store} {e : Bytes × Bytes} (h : e ∈ exportMeta ty cs) :
    e.1 ≠ kClientState ∧ consHeight? e.1 = none := by
  have key : ∀ p : Bytes, p.isPrefixOf e.1 = true → p.isPrefixOf kClientState = false → kClientState.isPrefixOf p = false →
      p.isPrefixOf kConsPrefix = false → kConsPrefix.isPrefixOf p = false → e.1 ≠ kClientState ∧ consHeight? e.1 = none := by
    intro p hp h1 h2 h3 h4
    refine ⟨fun e' => ?_, ?_⟩
    · rw [e'] at hp
      exact prefix_excl hp (isPrefixOf_append kClientState []) (by simpa using h1) (by simpa using h2) |> fun x => x
    · unfold consHeight?
      split
      · next hc => exact (prefix_excl hp hc.2 h3 h4).elim
      · rfl
  cases ty <;> simp only [exportMeta, List.mem_append, List.mem_filter, mem_iter, List.not_mem_nil, Bool.and_eq_true] at h
  · rcases h with ⟨⟨_, hp⟩, hl, _⟩ | ⟨_, hp⟩
    · refine ⟨fun e' => ?_, ?_⟩
      · rw [e'] at hp; exact absurd hp (by decide)
      · unfold consHeight?
        split
        · next hc => simp [hc.1] at hl
        · rfl
    · exact key kIterate hp (by decide) (by decide) (by decide) (by decide)
  · rcases h with ⟨_, hp⟩ | ⟨_, hp⟩
    · exact key kRecent hp (by decide) (by decide) (by decide) (by decide)
    · exact key kPending hp (by decide) (by decide) (by decide) (by decide)
  · rcases h with ⟨_, hp⟩ | ⟨_, hp⟩
    · exact key kEthIndex hp (by decide) (by decide) (by decide) (by decide)
    · exact key kEthRoot hp (by decide) (by decide) (by decide) (by decide)

theorem wf_packet {env : Env} {s : Store} {k v pfx a b : Bytes} {n : Nat}
    (hw : wfEntry env s k v = true) (hp : pfx.isPrefixOf k = true)
    (hpfx : pfx = kAcks ∨ pfx = kCommitments ∨ pfx = kReceipts) (hk : parseHashKey k = some (a, b, n)) :
    validPacketState (a, b, n, v) = true := by
  unfold wfEntry at hw
  split at hw
  · next chain path hsp =>
    have hq := (splitClientKey_some hsp).2.2
    rcases hpfx with e | e | e <;> subst e <;> exact (prefix_excl hp hq (by decide) (by decide)).elim
  · have : (kAcks.isPrefixOf k || kCommitments.isPrefixOf k || kReceipts.isPrefixOf k) = true := by
      rcases hpfx with e | e | e <;> subst e <;> simp [hp]
    rw [if_pos this, hk] at hw
    exact hw

/-- **the export of a well-formed module state passes the modules' own genesis validation** -/
theorem export_validates {env : Env} {s : Store} (hmk : ModuleKeys s) (hwf : WellFormed env s) :
    validateXibc env (exportXibc s) = true := by
  obtain ⟨hS, hC, hK⟩ := (moduleKeys_iff s).mp hmk
  unfold WellFormed wellFormedB at hwf
  simp only [Bool.and_eq_true, List.all_eq_true] at hwf
  obtain ⟨hW, hN⟩ := hwf
  simp only [validateXibc, validateClientGen, validatePacketGen, exportXibc, exportClientGen, exportPacketGen,
    Bool.and_eq_true, List.all_eq_true]
  refine ⟨⟨⟨⟨?_, ?_⟩, ?_⟩, hN⟩, ⟨⟨⟨?_, ?_⟩, ?_⟩, ?_⟩⟩
  · -- clients
    intro cb hcb
    obtain ⟨chain, cv⟩ := cb
    obtain ⟨hm, hn⟩ := mem_exportClients.mp hcb
    have hw := hW _ hm
    have hk : xKeyOk s (clientKey chain kClientState) cv = true := hK _ hm
    simp only [wfEntry, splitClientKey_clientKey hn, if_true, Bool.and_eq_true] at hw
    have hty : (clientTy cv).isSome = true := by
      rcases xKeyOk_cases hk with e | ⟨hq, _⟩ | ⟨c, p, hsp, hcase⟩ | ⟨hq, _⟩ | ⟨hq, _⟩ | ⟨hq, _⟩ | ⟨hq, _⟩
      · have := clients_prefix_clientKey chain kClientState; rw [e] at this; exact absurd this (by decide)
      · exact (prefix_excl hq (clients_prefix_clientKey chain kClientState) (by decide) (by decide)).elim
      · rw [splitClientKey_clientKey hn] at hsp
        injection hsp with hsp; injection hsp with h1 h2; subst h1; subst h2
        rcases hcase with ⟨_, h⟩ | ⟨h, _⟩ | ⟨_, ty, _, _, h⟩
        · exact h
        · exact absurd h (by decide)
        · cases ty <;> exact absurd h (by decide)
      · exact (prefix_excl hq (clients_prefix_clientKey chain kClientState) (by decide) (by decide)).elim
      · exact (prefix_excl hq (clients_prefix_clientKey chain kClientState) (by decide) (by decide)).elim
      · exact (prefix_excl hq (clients_prefix_clientKey chain kClientState) (by decide) (by decide)).elim
      · exact (prefix_excl hq (clients_prefix_clientKey chain kClientState) (by decide) (by decide)).elim
    exact ⟨⟨hw.1, hty⟩, hw.2⟩
  · -- consensus states
    intro cc hcc
    obtain ⟨chain, l⟩ := cc
    rw [exportCons, mem_sortByName] at hcc
    cases l with
    | nil =>
      -- a group is never empty, but an empty group validates trivially once the client is found; show by contradiction-free route
      have : ∀ (L : List (Bytes × (Height × Bytes))) (acc : List (Bytes × List (Height × Bytes))),
          (∀ g ∈ acc, g.2 ≠ []) → ∀ g ∈ L.foldl groupAdd acc, g.2 ≠ [] := by
        intro L
        induction L with
        | nil => intro acc h; exact h
        | cons e L ih =>
          intro acc h
          apply ih
          clear ih
          induction acc with
          | nil => intro g hg; simp [groupAdd] at hg; subst hg; simp
          | cons a r ih' =>
            intro g hg
            simp only [groupAdd] at hg
            split at hg
            · rcases List.mem_cons.mp hg with e' | hg'
              · subst e'; simp
              · exact h g (List.mem_cons_of_mem _ hg')
            · rcases List.mem_cons.mp hg with e' | hg'
              · subst e'; exact h _ (List.mem_cons_self ..)
              · exact ih' (fun g hg => h g (List.mem_cons_of_mem _ hg)) g hg'
      exact absurd rfl (this (iterateCons s) [] (by simp) _ hcc)
    | cons hb0 l' =>
      -- the chain of the first entry has a client of the right type
      have hfirst := (mem_groupByName (iterateCons s) chain hb0).mp ⟨hb0 :: l', hcc, List.mem_cons_self ..⟩
      have hall : ∀ hb ∈ hb0 :: l', ∃ ty, (get s (clientKey chain kClientState)).bind clientTy = some ty ∧
          (!(hb.1.1 == 0 && hb.1.2 == 0) && env.validCons hb.2 && consTy hb.2 == some ty) = true ∧ slash ∉ chain := by
        intro hb hhb
        obtain ⟨h, blob⟩ := hb
        have hin := (mem_groupByName (iterateCons s) chain (h, blob)).mp ⟨hb0 :: l', hcc, hhb⟩
        obtain ⟨kv, hm, path, hsp, hc, e⟩ := mem_iterateCons.mp hin
        have hw := hW kv hm
        obtain ⟨k0, v0⟩ := kv
        simp only at hsp e hw
        subst e
        have hne : path ≠ kClientState := by
          intro e'; subst e'
          have : consHeight? kClientState = none := by decide
          rw [this] at hc; simp at hc
        simp only [wfEntry, hsp, hne, if_false, hc, Bool.and_eq_true] at hw
        obtain ⟨⟨⟨h1, h2⟩, h3⟩, h4⟩ := hw
        cases hct : consTy v0 with
        | none => rw [hct] at h4; simp at h4
        | some ty =>
          rw [hct] at h3
          refine ⟨ty, by simpa using h3, ?_, (splitClientKey_some hsp).2.1⟩
          simp only [Bool.and_eq_true, h1, h2, true_and]
          simp
      obtain ⟨ty, hty, _, hn⟩ := hall hb0 (List.mem_cons_self ..)
      cases hg : get s (clientKey chain kClientState) with
      | none => rw [hg] at hty; simp at hty
      | some cv =>
        have hlk := lookup_exportClients hS (mem_exportClients.mpr ⟨(mem_iff_get hS _ _).mpr hg, hn⟩)
        rw [hg] at hty
        simp only [Option.bind] at hty
        simp only [hlk, Option.bind, hty, List.all_eq_true]
        intro hb hhb
        obtain ⟨ty', hty', hok, _⟩ := hall hb hhb
        rw [hg] at hty'
        simp only [Option.bind, hty] at hty'
        injection hty' with hty'
        subst hty'
        exact hok
  · -- metadata
    intro cm hcm
    unfold exportMetadata at hcm
    simp only [List.mem_filterMap] at hcm
    obtain ⟨cb, hcb, hh⟩ := hcm
    obtain ⟨chain, cv⟩ := cb
    split at hh
    · simp at hh
    · next ty hty =>
      split at hh
      · simp at hh
      · injection hh with hh
        subst hh
        simp only [lookup_exportClients hS hcb, Option.isSome, true_and, List.all_eq_true, Bool.and_eq_true]
        intro e he
        obtain ⟨hne, hnc⟩ := exportMeta_path he
        have hm := exportMeta_sub ty _ e he
        obtain ⟨ek, ev⟩ := e
        have hm' := (mem_clientStore s chain ek ev).mp hm
        have hw := hW _ hm'
        have hn := (mem_exportClients.mp hcb).2
        simp only at hne hnc
        simp only [wfEntry, splitClientKey_clientKey hn, hne, if_false, hnc, Bool.and_eq_true] at hw
        exact ⟨hw.2, hw.1⟩
  · -- acks
    intro e he
    obtain ⟨a, b, n, v⟩ := e
    obtain ⟨kv, hm, hp, hk, ev⟩ := mem_iterateHashes.mp he
    subst ev
    exact wf_packet (hW kv hm) hp (Or.inl rfl) hk
  · -- receipts
    intro e he
    obtain ⟨a, b, n, v⟩ := e
    obtain ⟨kv, hm, hp, hk, ev⟩ := mem_iterateHashes.mp he
    subst ev
    exact wf_packet (hW kv hm) hp (Or.inr (Or.inr rfl)) hk
  · -- commitments
    intro e he
    obtain ⟨a, b, n, v⟩ := e
    obtain ⟨kv, hm, hp, hk, ev⟩ := mem_iterateHashes.mp he
    subst ev
    exact wf_packet (hW kv hm) hp (Or.inr (Or.inl rfl)) hk
  · -- send sequences
    intro e he
    obtain ⟨kv, hm, a, b, hpp, rfl⟩ := mem_iterateSeqs_sub _ e he
    obtain ⟨hm, hp⟩ := (mem_iter s kNextSeq kv).mp hm
    have hw := hW kv hm
    unfold wfEntry at hw
    split at hw
    · next chain path hsp => exact (prefix_excl hp (splitClientKey_some hsp).2.2 (by decide) (by decide)).elim
    · have hno : (kAcks.isPrefixOf kv.1 || kCommitments.isPrefixOf kv.1 || kReceipts.isPrefixOf kv.1) = false := by
        simp only [Bool.or_eq_false_iff]
        refine ⟨⟨?_, ?_⟩, ?_⟩
        · cases hq : kAcks.isPrefixOf kv.1 with
          | false => rfl
          | true => exact (prefix_excl hp hq (by decide) (by decide)).elim
        · cases hq : kCommitments.isPrefixOf kv.1 with
          | false => rfl
          | true => exact (prefix_excl hp hq (by decide) (by decide)).elim
        · cases hq : kReceipts.isPrefixOf kv.1 with
          | false => rfl
          | true => exact (prefix_excl hp hq (by decide) (by decide)).elim
      rw [hno] at hw
      simp only [Bool.false_eq_true, if_false, hp, if_true, hpp] at hw
      simp at hw ⊢
      exact hw

/-! ## the keeper writes preserve ModuleKeys -/

theorem xKeyOk_set_other {s : Store} (hS : Sorted s) {k' v' : Bytes}
    (hne : ∀ c, slash ∉ c → k' ≠ clientKey c kClientState) (k v : Bytes) :
    xKeyOk (set s k' v') k v = xKeyOk s k v := by
  cases hsp : splitClientKey k with
  | none => simp only [xKeyOk, hsp]
  | some cp =>
    obtain ⟨chain, path⟩ := cp
    have hn := (splitClientKey_some hsp).2.1
    have : get (set s k' v') (clientKey chain kClientState) = get s (clientKey chain kClientState) := by
      rw [get_set hS]; simp [hne chain hn]
    simp only [xKeyOk, hsp, this]

/-- writing one more entry of a module key family (not a client state) keeps ModuleKeys -/
theorem moduleKeys_set {s : Store} (h : ModuleKeys s) {k v : Bytes}
    (hne : ∀ c, slash ∉ c → k ≠ clientKey c kClientState) (hk : xKeyOk s k v = true) : ModuleKeys (set s k v) := by
  obtain ⟨hS, hC, hK⟩ := (moduleKeys_iff s).mp h
  refine (moduleKeys_iff _).mpr ⟨sorted_set hS k v, ?_, ?_⟩
  · rw [get_set hS]; split
    · rfl
    · exact hC
  · intro kv hkv
    rw [xKeyOk_set_other hS hne]
    rcases mem_set_sub hkv with e | hm
    · subst e; exact hk
    · exact hK kv hm

theorem clientKey_inj {c c' p p' : Bytes} (hc : slash ∉ c) (hc' : slash ∉ c') (h : clientKey c p = clientKey c' p') :
    c = c' ∧ p = p' := by
  have h1 := splitClientKey_clientKey hc p
  have h2 := splitClientKey_clientKey hc' p'
  rw [h, h2] at h1
  injection h1 with h1; injection h1 with a b
  exact ⟨a.symm, b.symm⟩

theorem xKeyOk_clientKey {s : Store} {chain path v : Bytes} (hc : slash ∉ chain) :
    xKeyOk s (clientKey chain path) v =
      (if path = kClientState then (clientTy v).isSome
       else if (consHeight? path).isSome then (consTy v).isSome
       else match (get s (clientKey chain kClientState)).bind clientTy with
         | none => false
         | some ty => metaPath ty path) := by
  have hp := clients_prefix_clientKey chain path
  have h1 : clientKey chain path ≠ kChainName := by
    intro e; rw [e] at hp; exact absurd hp (by decide)
  have h2 : kRelayers.isPrefixOf (clientKey chain path) = false := by
    cases hq : kRelayers.isPrefixOf (clientKey chain path) with
    | false => rfl
    | true => exact (prefix_excl hq hp (by decide) (by decide)).elim
  simp only [xKeyOk, h1, if_false, h2, Bool.false_eq_true, hp, if_true, splitClientKey_clientKey hc]
  rfl

/-- `SetClientConsensusState` at ANY height / revision (all 2^128 byte patterns) keeps ModuleKeys -/
theorem moduleKeys_setConsensusState {s : Store} (h : ModuleKeys s) {chain blob : Bytes} (hgt : Height)
    (hc : slash ∉ chain) (hb : (consTy blob).isSome = true) : ModuleKeys (setConsensusState s chain hgt blob) := by
  unfold setConsensusState
  have hlen : (consPath hgt).length = 32 := by simp [consPath, be64_length]; decide
  have hne : consPath hgt ≠ kClientState := by
    intro e; rw [e] at hlen; exact absurd hlen (by decide)
  apply moduleKeys_set h
  · intro c hcs e
    exact hne (clientKey_inj hc hcs e).2
  · rw [xKeyOk_clientKey hc]
    simp [hne, consHeight?_consPath, hb]

theorem metaPath_tm_ptime (hgt : Height) : metaPath .tm (ptimePath hgt) = true := by
  have hlen : (ptimePath hgt).length = 46 := by simp [ptimePath, consPath, be64_length]; decide
  have h1 : kConsWord.isPrefixOf (ptimePath hgt) = true := by
    have : ptimePath hgt = kConsWord ++ (slash :: (be64 hgt.1 ++ be64 hgt.2) ++ kProcessedTime) := by
      simp [ptimePath, consPath, kConsPrefix, kConsWord, slash]
    rw [this]; exact isPrefixOf_append _ _
  have h2 : isSuffix kProcessedTime (ptimePath hgt) = true := (isSuffix_iff _ _).mpr ⟨consPath hgt, rfl⟩
  simp [metaPath, h1, h2, hlen]

theorem metaPath_tm_iter (hgt : Height) : metaPath .tm (iterPath hgt) = true := by
  have : kIterate.isPrefixOf (iterPath hgt) = true := isPrefixOf_append _ _
  simp [metaPath, this]

theorem path_ne_special {p : Bytes} (pre : Bytes) (hp : pre.isPrefixOf p = true)
    (h1 : pre.isPrefixOf kClientState = false) (h2 : kClientState.isPrefixOf pre = false)
    (h3 : pre.isPrefixOf kConsPrefix = false) (h4 : kConsPrefix.isPrefixOf pre = false) :
    p ≠ kClientState ∧ (consHeight? p).isSome = false := by
  refine ⟨fun e => ?_, ?_⟩
  · rw [e] at hp; rw [h1] at hp; exact absurd hp (by simp)
  · unfold consHeight?
    split
    · next hc => exact (prefix_excl hp hc.2 h3 h4).elim
    · rfl

/-- the metadata a Tendermint update writes (`setConsensusMetadata`: processed time + iteration key) keeps ModuleKeys,
for every height, on a chain that has a Tendermint client -/
theorem moduleKeys_tmSetMeta {s : Store} (h : ModuleKeys s) {chain cv : Bytes} (hgt : Height) (t : UInt64)
    (hc : slash ∉ chain) (hcl : get s (clientKey chain kClientState) = some cv) (hty : clientTy cv = some .tm) :
    ModuleKeys (tmSetMeta s chain hgt t) := by
  unfold tmSetMeta
  have hlenP : (ptimePath hgt).length = 46 := by simp [ptimePath, consPath, be64_length]; decide
  have hneP : ptimePath hgt ≠ kClientState := by
    intro e; rw [e] at hlenP; exact absurd hlenP (by decide)
  have hncP : (consHeight? (ptimePath hgt)).isSome = false := by
    unfold consHeight?; simp [hlenP]
  obtain ⟨hneI, hncI⟩ := path_ne_special (p := iterPath hgt) kIterate (isPrefixOf_append _ _) (by decide) (by decide) (by decide) (by decide)
  have hS := ((moduleKeys_iff s).mp h).1
  have step1 : ModuleKeys (set s (clientKey chain (ptimePath hgt)) (be64 t)) := by
    apply moduleKeys_set h
    · intro c hcs e; exact hneP (clientKey_inj hc hcs e).2
    · rw [xKeyOk_clientKey hc]
      simp [hneP, hncP, hcl, hty, metaPath_tm_ptime]
  apply moduleKeys_set step1
  · intro c hcs e; exact hneI (clientKey_inj hc hcs e).2
  · rw [xKeyOk_clientKey hc]
    have : get (set s (clientKey chain (ptimePath hgt)) (be64 t)) (clientKey chain kClientState) = some cv := by
      rw [get_set hS]
      have : clientKey chain (ptimePath hgt) ≠ clientKey chain kClientState := fun e => hneP (clientKey_inj hc hc e).2
      simp [this, hcl]
    simp [hneI, hncI, this, hty, metaPath_tm_iter]

theorem packetKey_split {pfx src dst : Bytes} (n : Nat) (hp : slash ∉ pfx) (hs : slash ∉ src) (hd : slash ∉ dst) :
    splitOn slash (packetKey pfx src dst n) = [pfx, src, dst, kSequences, toDec n] := by
  have hq : slash ∉ kSequences := by decide
  unfold packetKey
  simp only [joinSlash]
  rw [splitOn_append hp, splitOn_append hs, splitOn_append hd, splitOn_append hq, splitOn_noSep (toDec_noSlash n)]

theorem xKeyOk_packet {s : Store} {pfx src dst v : Bytes} (n : UInt64) (hs : slash ∉ src) (hd : slash ∉ dst)
    (hpfx : pfx = kAcks ∨ pfx = kCommitments ∨ pfx = kReceipts) (hv : pfx = kReceipts → v = [1]) :
    xKeyOk s (packetKey pfx src dst n.toNat) v = true := by
  have hp : slash ∉ pfx := by rcases hpfx with e | e | e <;> subst e <;> decide
  have hsplit := packetKey_split n.toNat hp hs hd
  have hpre : pfx.isPrefixOf (packetKey pfx src dst n.toNat) = true := by
    unfold packetKey; simp only [joinSlash]; exact isPrefixOf_append _ _
  have hok : hashKeyOk pfx (packetKey pfx src dst n.toNat) = true := by
    unfold hashKeyOk
    rw [hsplit]
    simp [parseDec_toDec n.toNat (UInt64.toNat_lt n)]
  have no : ∀ q : Bytes, q.isPrefixOf pfx = false → pfx.isPrefixOf q = false → q.isPrefixOf (packetKey pfx src dst n.toNat) = false := by
    intro q h1 h2
    cases hq : q.isPrefixOf (packetKey pfx src dst n.toNat) with
    | false => rfl
    | true => exact (prefix_excl hq hpre h1 h2).elim
  have hne : packetKey pfx src dst n.toNat ≠ kChainName := by
    intro e; rw [e] at hpre
    rcases hpfx with e' | e' | e' <;> subst e' <;> exact absurd hpre (by decide)
  rcases hpfx with e | e | e <;> subst e
  · simp only [xKeyOk, hne, if_false, no kRelayers (by decide) (by decide), no kClients (by decide) (by decide),
      Bool.false_eq_true, hpre, if_true, hok]
  · simp only [xKeyOk, hne, if_false, no kRelayers (by decide) (by decide), no kClients (by decide) (by decide),
      no kAcks (by decide) (by decide), Bool.false_eq_true, hpre, if_true, hok]
  · simp only [xKeyOk, hne, if_false, no kRelayers (by decide) (by decide), no kClients (by decide) (by decide),
      no kAcks (by decide) (by decide), no kCommitments (by decide) (by decide), Bool.false_eq_true, hpre, if_true, hok, hv rfl]
    decide

theorem packetKey_not_clientState {pfx src dst : Bytes} (n : Nat) (hpfx : pfx = kAcks ∨ pfx = kCommitments ∨ pfx = kReceipts) :
    ∀ c, slash ∉ c → packetKey pfx src dst n ≠ clientKey c kClientState := by
  intro c _ e
  have hpre : pfx.isPrefixOf (packetKey pfx src dst n) = true := by
    unfold packetKey; simp only [joinSlash]; exact isPrefixOf_append _ _
  rw [e] at hpre
  have := clients_prefix_clientKey c kClientState
  rcases hpfx with e' | e' | e' <;> subst e' <;> exact (prefix_excl hpre this (by decide) (by decide)).elim

/-- the packet keeper's setters keep ModuleKeys for every sequence number (all of UInt64) and all chain names without '/' -/
theorem moduleKeys_packet {s : Store} (h : ModuleKeys s) {src dst : Bytes} (n : UInt64) (d : Bytes)
    (hs : slash ∉ src) (hd : slash ∉ dst) :
    ModuleKeys (setCommitment s src dst n d) ∧ ModuleKeys (setAck s src dst n d) ∧ ModuleKeys (setReceipt s src dst n) :=
  ⟨moduleKeys_set h (packetKey_not_clientState _ (Or.inr (Or.inl rfl))) (xKeyOk_packet n hs hd (Or.inr (Or.inl rfl)) (fun e => absurd e (by decide))),
   moduleKeys_set h (packetKey_not_clientState _ (Or.inl rfl)) (xKeyOk_packet n hs hd (Or.inl rfl) (fun e => absurd e (by decide))),
   moduleKeys_set h (packetKey_not_clientState _ (Or.inr (Or.inr rfl))) (xKeyOk_packet n hs hd (Or.inr (Or.inr rfl)) (fun _ => rfl))⟩

/-- `SetChainName` keeps ModuleKeys -/
theorem moduleKeys_setChainName {s : Store} (h : ModuleKeys s) (n : Bytes) : ModuleKeys (setChainName s n) := by
  apply moduleKeys_set h
  · intro c _ e
    have := clients_prefix_clientKey c kClientState
    rw [← e] at this; exact absurd this (by decide)
  · simp [xKeyOk]

/-! ## parameter subspaces, and non-vacuity -/

/-- GetParamSet / SetParamSet over every key: the parameter store round-trips -/
theorem roundtrip_params {p : Store} (h : Sorted p) : initParams (exportParams p) = p :=
  setAll_nil_eq h p (fun _ h => h) (fun _ h => h)

/-- a concrete non-trivial state: chain name, a Tendermint client on chain "abc" with consensus states at 1-47 and at
revision 0x2f2f…/height 303 (bytes 0x2f inside the key), their processed-time and iteration keys, a packet commitment
with the maximal sequence, a receipt and a send sequence -/
def demoTmClient : Bytes := 0x0a :: 52 :: urlTmClient ++ [0x12, 0x01, 0x00]
def demoTmCons : Bytes := 0x0a :: 55 :: urlTmCons ++ [0x12, 0x01, 0x00]
def demoChain : Bytes := [0x61, 0x62, 0x63]
def demoStore : Store :=
  setNextSeq (setReceipt (setCommitment
    (tmSetMeta (setConsensusState (tmSetMeta (setConsensusState (setClientState (setChainName [] [0x74, 0x65, 0x6c, 0x65])
      demoChain demoTmClient) demoChain (1, 47) demoTmCons) demoChain (1, 47) 5)
      demoChain (0x2f2f2f2f2f2f2f2f, 303) demoTmCons) demoChain (0x2f2f2f2f2f2f2f2f, 303) 6)
    demoChain [0x78, 0x79, 0x7a] 18446744073709551615 [1, 2, 3]) [0x78, 0x79, 0x7a] demoChain 9) demoChain [0x78, 0x79, 0x7a] 47

set_option maxRecDepth 100000 in
example : ModuleKeys demoStore := by decide

set_option maxRecDepth 100000 in
example : demoStore.length = 11 := by decide

set_option maxRecDepth 100000 in
/-- the hypotheses of `export_validates` are satisfiable on the same state -/
example : WellFormed ⟨fun _ => true, fun _ => true, fun _ => [], fun _ => [], fun _ => [], fun _ => true⟩ demoStore := by
  unfold WellFormed; decide

end TM.Genesis
