import TeleportModel.Model.Host
import TeleportModel.Generated.HostKeys
import TeleportModel.Generated.Validate
import TeleportModel.Proofs.C19Abi
import TeleportModel.Proofs.C19Host
/-
C19 (part 5) — consensus-state / client-state keys (fixed-width binary heights, positional parsers) for ALL
uint64 revisions and heights, the light-client store filters, and the obligations over the generated tables.
-/
namespace TM.C19
open TM TM.Host TM.Generated

theorem be8_length (n : UInt64) : (be8 n).length = 8 := length_toBE 8 _

theorem ofBE_be8 (n : UInt64) : UInt64.ofNat (ofBE (be8 n)) = n := by
  have hn : n.toNat < 256 ^ 8 := by
    have := n.toNat_lt
    have h2 : (256 : Nat) ^ 8 = 2 ^ 64 := by decide
    omega
  show UInt64.ofNat (Abi.ofBE (Abi.toBE 8 n.toNat)) = n
  rw [ofBE_toBE 8 _ hn]; simp

theorem hasPrefix_append (p r : Bytes) : hasPrefix (p ++ r) p = true := by
  simp [hasPrefix, List.isPrefixOf_iff_prefix]

theorem idxSlash_append (a r : Bytes) (h : slash ∉ a) : idxSlash (a ++ slash :: r) = some a.length := by
  induction a with
  | nil => simp [idxSlash]
  | cons b a ih =>
    simp at h
    simp [idxSlash, Ne.symm h.1, ih h.2]

theorem drop_mid (a r : Bytes) (x : UInt8) : (a ++ x :: r).drop (a.length + 1) = r := by
  induction a with
  | nil => simp
  | cons b a ih => simp [ih]

theorem splitClientKey_spec (c : Consts) (name path : Bytes) (h : slash ∉ name) :
    splitClientKey c (c.clientStorePrefix ++ slash :: (name ++ slash :: path)) = some (name, path) := by
  have hk : c.clientStorePrefix ++ slash :: (name ++ slash :: path) = (c.clientStorePrefix ++ [slash]) ++ (name ++ slash :: path) := by simp
  unfold splitClientKey
  simp only [hk, hasPrefix_append, if_true, List.drop_left, idxSlash_append name path h, List.take_left, drop_mid]

/-- shape of `FullConsensusStateKey`: "<clients>/<name>/<consensusStates>/" ++ 8 bytes ++ 8 bytes -/
def ConsShape (T : Template) (c : Consts) : Prop :=
  T = { params := [.str, .height],
        segs := [.lit (c.clientStorePrefix ++ [slash]), .str 0, .lit (slash :: (c.consensusStatePrefix ++ [slash])), .revBE 1, .heightBE 1] }

instance (T : Template) (c : Consts) : Decidable (ConsShape T c) := by unfold ConsShape; infer_instance

/-- **every consensus-state key is read back as the (chain name, height) it was written for** — for ALL uint64
    revision numbers and heights, including bytes 0x2f, 0x00, 0xff (`IterateConsensusStates`) -/
theorem cons_key_parses (T : Template) (c : Consts) (name k : Bytes) (r h : UInt64) (hT : ConsShape T c)
    (hn : slash ∉ name) (hk : render T [.s name, .h r h] = some k) :
    parseConsKey c k = some (name, r, h) := by
  rw [hT] at hk
  simp [render, renderSegs, renderSeg, Arg.ty] at hk
  subst hk
  unfold parseConsKey
  rw [splitClientKey_spec c name _ hn]
  have hp : c.consensusStatePrefix ++ slash :: (be8 r ++ be8 h) = (c.consensusStatePrefix ++ [slash]) ++ (be8 r ++ be8 h) := by simp
  have h8 : (be8 r ++ be8 h).take 8 = be8 r := by
    have := List.take_left (l₁ := be8 r) (l₂ := be8 h); rwa [be8_length] at this
  have d8 : (be8 r ++ be8 h).drop 8 = be8 h := by
    have := List.drop_left (l₁ := be8 r) (l₂ := be8 h); rwa [be8_length] at this
  simp only [hp, hasPrefix_append, List.drop_left, h8, d8, ofBE_be8]
  simp [be8_length]

theorem cons_key_injective (T : Template) (c : Consts) (name name' k : Bytes) (r h r' h' : UInt64) (hT : ConsShape T c)
    (hn : slash ∉ name) (hn' : slash ∉ name')
    (hk : render T [.s name, .h r h] = some k) (hk' : render T [.s name', .h r' h'] = some k) :
    (name, r, h) = (name', r', h') := by
  have h1 := cons_key_parses T c name k r h hT hn hk
  have h2 := cons_key_parses T c name' k r' h' hT hn' hk'
  rw [h1] at h2
  exact Option.some.inj h2

/-- shape of `FullClientStateKey`: "<clients>/<name>/<clientState>" -/
def ClientShape (T : Template) (c : Consts) : Prop :=
  T = { params := [.str], segs := [.lit (c.clientStorePrefix ++ [slash]), .str 0, .lit (slash :: c.clientState)] }

instance (T : Template) (c : Consts) : Decidable (ClientShape T c) := by unfold ClientShape; infer_instance

/-- client-state keys are read back under their chain name (`IterateClients`) -/
theorem client_key_parses (T : Template) (c : Consts) (name k : Bytes) (hT : ClientShape T c)
    (hn : slash ∉ name) (hk : render T [.s name] = some k) : parseClientKey c k = some name := by
  rw [hT] at hk
  simp [render, renderSegs, renderSeg, Arg.ty] at hk
  subst hk
  unfold parseClientKey
  rw [splitClientKey_spec c name _ hn]
  simp

/-- a consensus-state key is never mistaken for a client-state key, and vice versa -/
theorem cons_key_not_client (T : Template) (c : Consts) (name k : Bytes) (r h : UInt64) (hT : ConsShape T c)
    (hn : slash ∉ name) (hk : render T [.s name, .h r h] = some k)
    (hne : c.clientState.length ≠ c.consensusStatePrefix.length + 17) : parseClientKey c k = none := by
  rw [hT] at hk
  simp [render, renderSegs, renderSeg, Arg.ty] at hk
  subst hk
  unfold parseClientKey
  rw [splitClientKey_spec c name _ hn]
  have : c.consensusStatePrefix ++ slash :: (be8 r ++ be8 h) ≠ c.clientState := by
    intro he
    have := congrArg List.length he
    simp [be8_length] at this
    omega
  simp [this]

/-- height bytes relative to the client store: "<consensusStates>/" ++ 8 ++ 8 -/
def RelConsShape (T : Template) (c : Consts) : Prop :=
  T = { params := [.height], segs := [.lit (c.consensusStatePrefix ++ [slash]), .revBE 0, .heightBE 0] }

instance (T : Template) (c : Consts) : Decidable (RelConsShape T c) := by unfold RelConsShape; infer_instance

/-- BSC / ETH `IterateConsensusStateAscending`: a consensus-state key passes the filter and yields its height -/
theorem evm_cons_key_readback (T : Template) (c : Consts) (k : Bytes) (r h : UInt64) (hT : RelConsShape T c)
    (hk : render T [.h r h] = some k) : evmIsConsKey c k = true ∧ evmHeightFromKey c k = .ok (r, h) := by
  rw [hT] at hk
  simp [render, renderSegs, renderSeg, Arg.ty] at hk
  subst hk
  have hp : c.consensusStatePrefix ++ slash :: (be8 r ++ be8 h) = (c.consensusStatePrefix ++ [slash]) ++ (be8 r ++ be8 h) := by simp
  have hl : (c.consensusStatePrefix ++ [slash]).length = c.consensusStatePrefix.length + 1 := by simp
  have h8 : (be8 r ++ be8 h).take 8 = be8 r := by
    have := List.take_left (l₁ := be8 r) (l₂ := be8 h); rwa [be8_length] at this
  have d8 : (be8 r ++ be8 h).drop 8 = be8 h := by
    have := List.drop_left (l₁ := be8 r) (l₂ := be8 h); rwa [be8_length] at this
  have t8 : (be8 h).take 8 = be8 h := by
    have := List.take_length (l := be8 h); rwa [be8_length] at this
  constructor
  · simp [evmIsConsKey, be8_length]
  · unfold evmHeightFromKey
    rw [hp, ← hl, List.drop_left]
    simp [be8_length, h8, d8, bigEndianToUint64, t8, ofBE_be8]

/-- Tendermint `IterateProcessedTime`: processed-time keys are visited, bare consensus-state keys are not -/
theorem tm_processed_time_filter (T : Template) (c : Consts) (k : Bytes) (r h : UInt64) (hT : RelConsShape T c)
    (hk : render T [.h r h] = some k) (hs : c.processedTimeSuffix ≠ []) :
    tmIsProcessedTimeKey c k = false ∧ tmIsProcessedTimeKey c (k ++ c.processedTimeSuffix) = true := by
  rw [hT] at hk
  simp [render, renderSegs, renderSeg, Arg.ty] at hk
  subst hk
  have hpos : 0 < c.processedTimeSuffix.length := by cases h : c.processedTimeSuffix with | nil => exact absurd h hs | cons _ _ => simp
  constructor
  · simp [tmIsProcessedTimeKey, be8_length]
  · simp [tmIsProcessedTimeKey, be8_length, hasSuffix, List.isSuffixOf_iff_suffix]
    refine ⟨by omega, ?_⟩
    exact ⟨c.consensusStatePrefix ++ slash :: (be8 r ++ be8 h), by simp⟩

/-- shape of the Tendermint iteration key: "<iterateConsensusStates>" ++ 8 ++ 8 (no separator) -/
def IterShape (T : Template) (c : Consts) : Prop :=
  T = { params := [.height], segs := [.lit c.iterateConsensusStatePrefix, .revBE 0, .heightBE 0] }

instance (T : Template) (c : Consts) : Decidable (IterShape T c) := by unfold IterShape; infer_instance

/-- Tendermint `IterateConsensusStateAscending` / `GetHeightFromIterationKey` returns the height the key was made for -/
theorem tm_iteration_key_readback (T : Template) (c : Consts) (k : Bytes) (r h : UInt64) (hT : IterShape T c)
    (hk : render T [.h r h] = some k) : tmHeightFromIterKey c k = .ok (r, h) := by
  rw [hT] at hk
  simp [render, renderSegs, renderSeg, Arg.ty] at hk
  subst hk
  have h8 : (be8 r ++ be8 h).take 8 = be8 r := by
    have := List.take_left (l₁ := be8 r) (l₂ := be8 h); rwa [be8_length] at this
  have d8 : (be8 r ++ be8 h).drop 8 = be8 h := by
    have := List.drop_left (l₁ := be8 r) (l₂ := be8 h); rwa [be8_length] at this
  have t8 : (be8 h).take 8 = be8 h := by
    have := List.take_length (l := be8 h); rwa [be8_length] at this
  unfold tmHeightFromIterKey
  rw [List.drop_left]
  simp [be8_length, h8, d8, t8, ofBE_be8]

/-! ### obligations over the generated tables -/

abbrev GC : Consts := HostKeys.consts

theorem commitmentKey_shape : PacketShape HostKeys.packetCommitmentKey GC.commitmentPrefix [115, 101, 113, 117, 101, 110, 99, 101, 115] := by decide
theorem ackKey_shape : PacketShape HostKeys.packetAcknowledgementKey GC.ackPrefix [115, 101, 113, 117, 101, 110, 99, 101, 115] := by decide
theorem receiptKey_shape : PacketShape HostKeys.packetReceiptKey GC.receiptPrefix [115, 101, 113, 117, 101, 110, 99, 101, 115] := by decide
theorem relayerKey_shape : PacketShape HostKeys.packetRelayerKey GC.relayerPrefix [115, 101, 113, 117, 101, 110, 99, 101, 115] := by decide
theorem nextSeqKey_shape : PairShape HostKeys.nextSequenceSendKey GC.nextSeqSendPrefix := by decide
theorem consKey_shape : ConsShape HostKeys.fullConsensusStateKey GC := by decide
theorem clientKey_shape : ClientShape HostKeys.fullClientStateKey GC := by decide
theorem relConsKey_shape : RelConsShape HostKeys.consensusStateKey GC := by decide
theorem tmIterKey_shape : IterShape HostKeys.tm_iterationKey GC := by decide
theorem clientState_vs_cons_length : GC.clientState.length ≠ GC.consensusStatePrefix.length + 17 := by decide
theorem processedTimeSuffix_ne_nil : GC.processedTimeSuffix ≠ [] := by decide

/-- the iterated families of the single xibc store never overlap: no family prefix is a prefix of another -/
theorem family_prefixes_disjoint :
    let ps := [GC.clientStorePrefix, GC.commitmentPrefix, GC.ackPrefix, GC.receiptPrefix, GC.nextSeqSendPrefix]
    ∀ p ∈ ps, ∀ q ∈ ps, p ≠ q → hasPrefix q p = false := by decide

theorem srcChain_excludesSlash : Validate.srcChainValidator.excludesSlash = true := by decide
theorem dstChain_excludesSlash : Validate.dstChainValidator.excludesSlash = true := by decide
theorem clientId_excludesSlash : Validate.clientIdentifierValidator.excludesSlash = true := by decide

/-- the property as stated, on the generated commitment key and the generated validators: two valid
    (source, destination, sequence) triples with the same commitment key are equal -/
theorem commitment_key_injective_valid (a b a' b' k : Bytes) (n n' : UInt64)
    (ha : validName Validate.srcChainValidator a = true) (hb : validName Validate.dstChainValidator b = true)
    (ha' : validName Validate.srcChainValidator a' = true) (hb' : validName Validate.dstChainValidator b' = true)
    (hk : render HostKeys.packetCommitmentKey [.s a, .s b, .n n] = some k)
    (hk' : render HostKeys.packetCommitmentKey [.s a', .s b', .n n'] = some k) : (a, b, n) = (a', b', n') :=
  packet_key_injective _ _ _ a b a' b' k n n' commitmentKey_shape
    (validName_noSlash _ srcChain_excludesSlash a ha) (validName_noSlash _ dstChain_excludesSlash b hb)
    (validName_noSlash _ srcChain_excludesSlash a' ha') (validName_noSlash _ dstChain_excludesSlash b' hb') hk hk'

/-- … and every consensus-state key of a valid client name is read back at the height it was written for -/
theorem cons_key_parses_valid (name k : Bytes) (r h : UInt64)
    (hn : validName Validate.clientIdentifierValidator name = true)
    (hk : render HostKeys.fullConsensusStateKey [.s name, .h r h] = some k) : parseConsKey GC k = some (name, r, h) :=
  cons_key_parses _ GC name k r h consKey_shape (validName_noSlash _ clientId_excludesSlash name hn) hk

/-! ### non-vacuity -/
example : validName Validate.srcChainValidator [97, 46, 98, 95, 99] = true := by decide
example : (render HostKeys.fullConsensusStateKey [.s [97, 98, 99], .h 1 47]).isSome = true := by decide
example : parseConsKey GC ((render HostKeys.fullConsensusStateKey [.s [97, 98, 99], .h 1 47]).getD []) = some ([97, 98, 99], 1, 47) := by decide

end TM.C19
