import TeleportModel.Model.Eth
/-
C10 — Ethereum client: rule-abiding headers only; forks never wedge it.
Theorems about `TM.Eth` (Model/Eth.lean); `Variant.fixed` is the repaired `RestrictChain` (fixes/C10-restrictchain.diff),
`Variant.orig` the pinned text, for which the negations are proved on concrete witnesses.
-/
namespace TM.Eth

/-! ### association lists -/
section AL
variable {κ : Type} {α : Type} [DecidableEq κ]

theorem aget_adel_self (m : List (κ × α)) (k : κ) : aget (adel m k) k = none := by
  induction m with
  | nil => rfl
  | cons p m ih =>
    obtain ⟨k1, v⟩ := p
    unfold adel at ih ⊢
    rw [List.filter_cons]
    by_cases h : k1 = k
    · simp [h]; simpa using ih
    · simp [h, aget]; simpa using ih

theorem aget_adel_ne (m : List (κ × α)) {k k' : κ} (hne : k' ≠ k) : aget (adel m k) k' = aget m k' := by
  induction m with
  | nil => rfl
  | cons p m ih =>
    obtain ⟨k1, v⟩ := p
    unfold adel at ih ⊢
    rw [List.filter_cons]
    by_cases h : k1 = k
    · have h3 : k1 ≠ k' := fun e => hne (e ▸ h)
      simp [h, aget]
      have h4 : ¬ k = k' := fun e => hne e.symm
      simp [h4]; simpa using ih
    · by_cases h2 : k1 = k'
      · subst h2; simp [h, aget]
      · simp [h, aget, h2]; simpa using ih

theorem aget_aset_self (m : List (κ × α)) (k : κ) (v : α) : aget (aset m k v) k = some v := by
  simp [aset, aget]

theorem aget_aset_ne (m : List (κ × α)) {k k' : κ} (v : α) (hne : k' ≠ k) : aget (aset m k v) k' = aget m k' := by
  have : k ≠ k' := fun e => hne e.symm
  simp [aset, aget, this, aget_adel_ne m hne]

theorem aget_aset (m : List (κ × α)) (k k' : κ) (v : α) :
    aget (aset m k v) k' = if k' = k then some v else aget m k' := by
  by_cases h : k' = k
  · subst h; simp [aget_aset_self]
  · simp [h, aget_aset_ne m v h]
end AL

def consOf (h : Header) : Cons := { time := h.time, root := h.root }

/-- assumptions about the set `U` of headers that exist on the counterparty chain (all forks): the header hash is
    collision free on it and block numbers are below 2^63 -/
structure UOk (env : Env) (U : Header → Prop) : Prop where
  inj : ∀ a b, U a → U b → env.hash a = env.hash b → a = b
  wf : ∀ a, U a → a.number < two63

/-- the store invariant (no pruning): `g` is the header the client was created with -/
structure Inv (env : Env) (U : Header → Prop) (g : Header) (s : State) : Prop where
  key : ∀ k h, aget s.hdr k = some h → k = hkey env h ∧ U h
  closed : ∀ k h, aget s.hdr k = some h → h = g ∨ (g.number < h.number ∧ ∃ p, parentOf s h = some p)
  head : aget s.hdr (hkey env s.head) = some s.head
  roots : ∀ n a, walkCur s n s.head = some a → aget s.cons a.number = some (consOf a)

/-- the part of the invariant that survives pruning: key consistency, head stored, roots along the head's stored ancestry -/
structure Core (env : Env) (U : Header → Prop) (s : State) : Prop where
  key : ∀ k h, aget s.hdr k = some h → k = hkey env h ∧ U h
  head : aget s.hdr (hkey env s.head) = some s.head
  roots : ∀ n a, walkCur s n s.head = some a → aget s.cons a.number = some (consOf a)

theorem Inv.core {env : Env} {U : Header → Prop} {g : Header} {s : State} (hi : Inv env U g s) : Core env U s :=
  ⟨hi.key, hi.head, hi.roots⟩

/-- `h` is in the header index -/
def Stored (env : Env) (s : State) (h : Header) : Prop := aget s.hdr (hkey env h) = some h

instance (env : Env) (s : State) (h : Header) : Decidable (Stored env s h) := by unfold Stored; infer_instance

section
variable {env : Env} {U : Header → Prop} {g : Header}

theorem pred64_eq {a b : Nat} (ha : a < two63) (hb : b < two63) (h : pred64 a = b) : b + 1 = a := by
  simp only [pred64, two64, two63] at *
  omega

theorem parent_facts (hU : UOk env U) {s : State} (hk : ∀ k h, aget s.hdr k = some h → k = hkey env h ∧ U h)
    {h p : Header} (hh : U h) (hp : parentOf s h = some p) :
    p.number + 1 = h.number ∧ env.hash p = h.parentHash ∧ Stored env s p := by
  unfold parentOf at hp
  obtain ⟨e, up⟩ := hk _ _ hp
  simp only [hkey, Prod.mk.injEq] at e
  refine ⟨pred64_eq (hU.wf _ hh) (hU.wf _ up) e.2, e.1.symm, ?_⟩
  unfold Stored
  have : hkey env p = (h.parentHash, pred64 h.number) := by simp [hkey, e.1, e.2]
  rw [this]; exact hp

theorem stored_U {s : State} (hi : Core env U s) {h : Header} (hs : Stored env s h) : U h := (hi.key _ _ hs).2

/-- same parent hash and same number: same parent lookup -/
theorem parentOf_congr (s : State) {a b : Header} (h1 : a.parentHash = b.parentHash) (h2 : a.number = b.number) :
    parentOf s a = parentOf s b := by simp [parentOf, h1, h2]

/-! ### `walkCur s n h` = the n-th ancestor of `h` -/

theorem up_succ (s : State) (n : Nat) (h : Header) :
    walkCur s (n + 1) h = (parentOf s h).bind (walkCur s n) := by
  cases hp : parentOf s h <;> simp [walkCur, hp]

theorem up_add (s : State) (a b : Nat) (h : Header) :
    walkCur s (a + b) h = (walkCur s a h).bind (walkCur s b) := by
  induction a generalizing h with
  | zero => simp [walkCur]
  | succ a ih =>
    have : a + 1 + b = (a + b) + 1 := by omega
    rw [this, up_succ, up_succ]
    cases hp : parentOf s h with
    | none => simp
    | some p => simp [ih]

theorem up_facts (hU : UOk env U) {s : State} (hi : Core env U s) :
    ∀ (n : Nat) {h x : Header}, Stored env s h → walkCur s n h = some x → x.number + n = h.number ∧ Stored env s x := by
  intro n
  induction n with
  | zero => intro h x hs hx; simp [walkCur] at hx; subst hx; exact ⟨by omega, hs⟩
  | succ n ih =>
    intro h x hs hx
    rw [up_succ] at hx
    cases hp : parentOf s h with
    | none => simp [hp] at hx
    | some p =>
      simp [hp] at hx
      obtain ⟨e1, _, sp⟩ := parent_facts hU hi.key (stored_U hi hs) hp
      obtain ⟨e2, sx⟩ := ih sp hx
      exact ⟨by omega, sx⟩

theorem stored_ge (hi : Inv env U g s) {h : Header} (hs : Stored env s h) : g.number ≤ h.number := by
  rcases hi.closed _ _ hs with e | ⟨l, _⟩
  · subst e; exact Nat.le_refl _
  · omega

theorem up_exists (hU : UOk env U) {s : State} (hi : Inv env U g s) :
    ∀ (n : Nat) {h : Header}, Stored env s h → g.number + n ≤ h.number → ∃ x, walkCur s n h = some x := by
  intro n
  induction n with
  | zero => intro h _ _; exact ⟨h, rfl⟩
  | succ n ih =>
    intro h hs hn
    rcases hi.closed _ _ hs with e | ⟨_, p, hp⟩
    · subst e; omega
    · obtain ⟨e1, _, sp⟩ := parent_facts hU hi.key (stored_U hi.core hs) hp
      obtain ⟨x, hx⟩ := ih sp (by omega)
      exact ⟨x, by rw [up_succ, hp]; simpa using hx⟩

/-- ancestors only depend on the header index -/
theorem walkCur_hdr {s s' : State} (h : s'.hdr = s.hdr) (n : Nat) (x : Header) : walkCur s' n x = walkCur s n x := by
  induction n generalizing x with
  | zero => rfl
  | succ n ih =>
    have : parentOf s' x = parentOf s x := by simp [parentOf, h]
    rw [up_succ, up_succ, this]
    cases parentOf s x with
    | none => rfl
    | some p => simp [ih]

/-- from the first ancestor on, two headers with the same parent hash and number have the same ancestors -/
theorem up_congr (s : State) {a b : Header} (h1 : a.parentHash = b.parentHash) (h2 : a.number = b.number) (i : Nat) :
    walkCur s (i + 1) a = walkCur s (i + 1) b := by
  rw [up_succ, up_succ, parentOf_congr s h1 h2]

/-! ### the headers visited by a walk -/

def pathList (s : State) : Nat → Header → List Header
  | 0, _ => []
  | n + 1, h => h :: (match parentOf s h with | some p => pathList s n p | none => [])

theorem walkNew_spec (s : State) : ∀ (n : Nat) (h : Header) (acc : List Hash) (x : Header), walkCur s n h = some x →
    walkNew env s n h acc = some (x, acc ++ (pathList s n h).map env.hash) := by
  intro n
  induction n with
  | zero => intro h acc x hx; simp [walkCur] at hx; subst hx; simp [walkNew, pathList]
  | succ n ih =>
    intro h acc x hx
    rw [up_succ] at hx
    cases hp : parentOf s h with
    | none => simp [hp] at hx
    | some p =>
      simp [hp] at hx
      simp [walkNew, pathList, hp, ih p _ x hx]

theorem pathList_snoc (s : State) : ∀ (n : Nat) (h x : Header), walkCur s n h = some x →
    pathList s (n + 1) h = pathList s n h ++ [x] := by
  intro n
  induction n with
  | zero =>
    intro h x hx; simp [walkCur] at hx; subst hx
    cases hp : parentOf s h <;> simp [pathList, hp]
  | succ n ih =>
    intro h x hx
    rw [up_succ] at hx
    cases hp : parentOf s h with
    | none => simp [hp] at hx
    | some p =>
      simp [hp] at hx
      have := ih p x hx
      rw [pathList, hp]
      simp only []
      rw [this]
      simp [pathList, hp]

theorem pathList_add (s : State) : ∀ (a b : Nat) (h x : Header), walkCur s a h = some x →
    pathList s (a + b) h = pathList s a h ++ pathList s b x := by
  intro a
  induction a with
  | zero => intro b h x hx; simp [walkCur] at hx; subst hx; simp [pathList]
  | succ a ih =>
    intro b h x hx
    rw [up_succ] at hx
    cases hp : parentOf s h with
    | none => simp [hp] at hx
    | some p =>
      simp [hp] at hx
      have e : a + 1 + b = (a + b) + 1 := by omega
      rw [e, pathList, hp]
      simp only []
      rw [ih b p x hx]
      simp [pathList, hp]

theorem mem_pathList_of_up (s : State) : ∀ (n i : Nat) (h y : Header), walkCur s i h = some y → i < n → y ∈ pathList s n h := by
  intro n
  induction n with
  | zero => intro i h y _ hi; omega
  | succ n ih =>
    intro i h y hy hi
    cases i with
    | zero => simp [walkCur] at hy; subst hy; simp [pathList]
    | succ i =>
      rw [up_succ] at hy
      cases hp : parentOf s h with
      | none => simp [hp] at hy
      | some p =>
        simp [hp] at hy
        simp only [pathList, hp, List.mem_cons]
        exact Or.inr (ih i p y hy (by omega))

/-- headers at consecutive heights `t, t+1, …`, all in the index -/
def Asc (env : Env) (s : State) : List Header → Nat → Prop
  | [], _ => True
  | y :: ys, t => y.number = t ∧ Stored env s y ∧ Asc env s ys (t + 1)

theorem asc_path (hU : UOk env U) {s : State} (hi : Core env U s) : ∀ (n : Nat) (h x : Header), Stored env s h →
    walkCur s n h = some x → Asc env s (pathList s n h).reverse (x.number + 1) := by
  intro n
  induction n with
  | zero => intro h x _ _; simp [pathList, Asc]
  | succ n ih =>
    intro h x hs hx
    have e : n + 1 = n + 1 := rfl
    rw [up_add s n 1 h] at hx
    cases hx' : walkCur s n h with
    | none => simp [hx'] at hx
    | some x' =>
      simp [hx'] at hx
      rw [up_succ] at hx
      cases hp : parentOf s x' with
      | none => simp [hp] at hx
      | some p =>
        simp [hp, walkCur] at hx
        subst hx
        obtain ⟨_, sx'⟩ := up_facts hU hi n hs hx'
        obtain ⟨e1, _, _⟩ := parent_facts hU hi.key (stored_U hi sx') hp
        rw [pathList_snoc s n h x' hx']
        simp only [List.reverse_append, List.reverse_cons, List.reverse_nil, List.nil_append, List.cons_append, Asc]
        refine ⟨by omega, sx', ?_⟩
        have := ih h x' hs hx'
        rw [e1]
        exact this

theorem asc_ge (s : State) : ∀ (ys : List Header) (t : Nat), Asc env s ys t → ∀ y ∈ ys, t ≤ y.number ∧ y.number < t + ys.length := by
  intro ys
  induction ys with
  | nil => intro t _ y hy; cases hy
  | cons z zs ih =>
    intro t ha y hy
    obtain ⟨e, _, hr⟩ := ha
    rcases List.mem_cons.mp hy with e2 | hm
    · subst e2; simp; omega
    · have := ih (t + 1) hr y hm
      simp; omega

/-- the re-pointing loop on headers at consecutive heights from `t` -/
theorem repoint_spec : ∀ (ys : List Header) (s : State) (t : Nat), Asc env s ys t →
    ∃ cons', repoint s (ys.map env.hash) t = some { s with cons := cons' } ∧
      (∀ y ∈ ys, aget cons' y.number = some (consOf y)) ∧
      (∀ k, k < t → aget cons' k = aget s.cons k) := by
  intro ys
  induction ys with
  | nil => intro s t _; exact ⟨s.cons, by simp [repoint], by simp, by simp⟩
  | cons y ys ih =>
    intro s t ha
    obtain ⟨e, sy, hr⟩ := ha
    have hl : aget s.hdr (env.hash y, t) = some y := by
      have : (env.hash y, t) = hkey env y := by simp [hkey, e]
      rw [this]; exact sy
    let s1 : State := { s with cons := aset s.cons t { time := y.time, root := y.root } }
    have hr1 : Asc env s1 ys (t + 1) := by
      clear ih
      have : ∀ (zs : List Header) (u : Nat), Asc env s zs u → Asc env s1 zs u := by
        intro zs
        induction zs with
        | nil => intro u _; trivial
        | cons z zs ihz => intro u hz; exact ⟨hz.1, hz.2.1, ihz _ hz.2.2⟩
      exact this _ _ hr
    obtain ⟨c', h1, h2, h3⟩ := ih s1 (t + 1) hr1
    refine ⟨c', ?_, ?_, ?_⟩
    · simp only [List.map_cons, repoint, hl]
      exact h1
    · intro z hz
      rcases List.mem_cons.mp hz with e2 | hm
      · subst e2
        rw [h3 z.number (by omega)]
        simp [s1, e, aget_aset_self, consOf]
      · exact h2 z hm
    · intro k hk
      rw [h3 k (by omega)]
      simp only [s1]
      rw [aget_aset_ne _ _ (by omega)]

/-- the second loop stops at the latest at the client's initial header -/
theorem walkBoth_spec (hU : UOk env U) {s : State} (hi : Inv env U g s) :
    ∀ (fuel : Nat) (cur new : Header) (acc : List Hash) (st : Nat), Stored env s cur → Stored env s new →
      cur.number = new.number → new.number < g.number + fuel →
      ∃ j cur2 new2, walkBoth env s fuel cur new acc st = .ok (cur2, new2, acc ++ (pathList s j new).map env.hash, st + j) ∧
        walkCur s j cur = some cur2 ∧ walkCur s j new = some new2 ∧ cur2.parentHash = new2.parentHash := by
  intro fuel
  induction fuel with
  | zero => intro cur new acc st _ sn _ hl; have := stored_ge hi sn; omega
  | succ f ih =>
    intro cur new acc st sc sn hn hl
    by_cases hph : cur.parentHash = new.parentHash
    · exact ⟨0, cur, new, by simp [walkBoth, hph, pathList], rfl, rfl, hph⟩
    · have hcg : cur ≠ g ∨ new ≠ g := by
        by_cases h1 : cur = g
        · right; intro h2; apply hph; rw [h1, h2]
        · left; exact h1
      have hgt : g.number < new.number := by
        rcases hi.closed _ _ sc with e | ⟨l, _⟩
        · rcases hi.closed _ _ sn with e2 | ⟨l2, _⟩
          · subst e; subst e2; simp at hcg
          · exact l2
        · omega
      have hpc : ∃ pc, parentOf s cur = some pc := by
        rcases hi.closed _ _ sc with e | ⟨_, h⟩
        · subst e; omega
        · exact h
      have hpn : ∃ pn, parentOf s new = some pn := by
        rcases hi.closed _ _ sn with e | ⟨_, h⟩
        · subst e; omega
        · exact h
      obtain ⟨pc, hpc⟩ := hpc
      obtain ⟨pn, hpn⟩ := hpn
      obtain ⟨e1, _, spc⟩ := parent_facts hU hi.key (stored_U hi.core sc) hpc
      obtain ⟨e2, _, spn⟩ := parent_facts hU hi.key (stored_U hi.core sn) hpn
      obtain ⟨j, c2, n2, hw, hc2, hn2, hpe⟩ := ih pc pn (acc ++ [env.hash new]) (st + 1) spc spn (by omega) (by omega)
      refine ⟨j + 1, c2, n2, ?_, ?_, ?_, hpe⟩
      · simp only [walkBoth, hph, ↓reduceIte, hpn, hpc, hw, pathList]
        simp [Nat.add_assoc, Nat.add_comm 1 j]
      · rw [up_succ, hpc]; simpa using hc2
      · rw [up_succ, hpn]; simpa using hn2

/-- the repaired last loop: everything on the new branch above the common parent is re-pointed -/
theorem rcFinish_spec (hU : UOk env U) {s : State} (hi : Core env U s) {c cur2 new2 : Header} (sc : Stored env s c)
    {D E F : Nat} (hn2 : walkCur s D c = some new2) (hc2 : walkCur s E s.head = some cur2)
    (hpe : cur2.parentHash = new2.parentHash) (e1 : cur2.number = F) (e2 : new2.number = F) :
    ∃ cons', rcFinish .fixed env s cur2 new2 ((pathList s D c).map env.hash) F = .ok { s with cons := cons' } ∧
      ∀ n a, 1 ≤ n → walkCur s n c = some a → aget cons' a.number = some (consOf a) := by
  obtain ⟨_, sn2⟩ := up_facts hU hi D sc hn2
  obtain ⟨_, sc2⟩ := up_facts hU hi E hi.head hc2
  by_cases hh : env.hash cur2 = env.hash new2
  · -- the new branch passes through `cur2` itself
    have heq : cur2 = new2 := hU.inj _ _ (stored_U hi sc2) (stored_U hi sn2) hh
    have hasc := asc_path hU hi D c new2 sc hn2
    rw [e2] at hasc
    obtain ⟨c', h1, h2, h3⟩ := repoint_spec (env := env) _ s (F + 1) hasc
    refine ⟨c', ?_, ?_⟩
    · simp only [rcFinish, hh, ne_eq, not_true_eq_false, ↓reduceIte]
      rw [← List.map_reverse, h1]
    · intro n a hn ha
      by_cases hlt : n < D
      · exact h2 a (List.mem_reverse.mpr (mem_pathList_of_up s D n c a ha hlt))
      · obtain ⟨i, rfl⟩ : ∃ i, n = D + i := ⟨n - D, by omega⟩
        rw [up_add, hn2] at ha
        simp only [Option.bind_some] at ha
        rw [← heq] at ha
        have hm : walkCur s (E + i) s.head = some a := by rw [up_add, hc2]; simpa using ha
        obtain ⟨e3, _⟩ := up_facts hU hi i sc2 ha
        rw [h3 a.number (by omega)]
        exact hi.roots _ _ hm
  · -- `new2` is a sibling of `cur2`: it is re-pointed as well
    have hasc0 := asc_path hU hi D c new2 sc hn2
    have hasc : Asc env s (pathList s (D + 1) c).reverse F := by
      rw [pathList_snoc s D c new2 hn2]
      simp only [List.reverse_append, List.reverse_cons, List.reverse_nil, List.nil_append, List.cons_append, Asc]
      exact ⟨e2, sn2, by rw [e2] at hasc0; exact hasc0⟩
    obtain ⟨c', h1, h2, h3⟩ := repoint_spec (env := env) _ s F hasc
    refine ⟨c', ?_, ?_⟩
    · simp only [rcFinish, hh, ne_eq, not_false_eq_true, ↓reduceIte]
      have : (List.map env.hash (pathList s D c) ++ [env.hash new2]) = List.map env.hash (pathList s (D + 1) c) := by
        rw [pathList_snoc s D c new2 hn2]; simp
      rw [this, ← List.map_reverse, h1]
    · intro n a hn ha
      by_cases hlt : n < D + 1
      · exact h2 a (List.mem_reverse.mpr (mem_pathList_of_up s (D + 1) n c a ha hlt))
      · obtain ⟨i, rfl⟩ : ∃ i, n = D + (i + 1) := ⟨n - D - 1, by omega⟩
        rw [up_add, hn2] at ha
        simp only [Option.bind_some] at ha
        rw [← up_congr s hpe (by omega) i] at ha
        have hm : walkCur s (E + (i + 1)) s.head = some a := by rw [up_add, hc2]; simpa using ha
        obtain ⟨e3, _⟩ := up_facts hU hi (i + 1) sc2 ha
        rw [h3 a.number (by omega)]
        exact hi.roots _ _ hm

theorem rcTail_spec (hU : UOk env U) {s : State} (hi : Inv env U g s) {c cur1 new1 : Header} (sc : Stored env s c)
    {d1 d2 si : Nat} (hc1 : walkCur s d1 s.head = some cur1) (hn1 : walkCur s d2 c = some new1)
    (e1 : cur1.number = si) (e2 : new1.number = si) :
    ∃ cons', rcTail .fixed env s cur1 new1 ((pathList s d2 c).map env.hash) si = .ok { s with cons := cons' } ∧
      ∀ n a, 1 ≤ n → walkCur s n c = some a → aget cons' a.number = some (consOf a) := by
  obtain ⟨_, scur1⟩ := up_facts hU hi.core d1 hi.head hc1
  obtain ⟨_, snew1⟩ := up_facts hU hi.core d2 sc hn1
  obtain ⟨j, cur2, new2, hw, hc2, hn2, hpe⟩ :=
    walkBoth_spec hU hi (si + 1) cur1 new1 ((pathList s d2 c).map env.hash) 0 scur1 snew1 (by omega) (by omega)
  have hD : walkCur s (d2 + j) c = some new2 := by rw [up_add, hn1]; simpa using hn2
  have hE : walkCur s (d1 + j) s.head = some cur2 := by rw [up_add, hc1]; simpa using hc2
  obtain ⟨f1, _⟩ := up_facts hU hi.core j scur1 hc2
  obtain ⟨f2, _⟩ := up_facts hU hi.core j snew1 hn2
  obtain ⟨c', h1, h2⟩ := rcFinish_spec hU hi.core sc hD hE hpe (F := si - j) (by omega) (by omega)
  refine ⟨c', ?_, h2⟩
  simp only [rcTail, hw, Nat.zero_add]
  rw [← List.map_append, ← pathList_add s d2 j c new1 hn1]
  exact h1

/-- the repaired `RestrictChain` never fails on a store satisfying the invariant, and re-points the new branch -/
theorem restrictChain_spec (hU : UOk env U) {s : State} (hi : Inv env U g s) {c : Header} (sc : Stored env s c) :
    ∃ cons', restrictChain .fixed env s c = .ok { s with cons := cons' } ∧
      ∀ n a, 1 ≤ n → walkCur s n c = some a → aget cons' a.number = some (consOf a) := by
  have hgc := stored_ge hi sc
  have hgh := stored_ge hi hi.head
  by_cases hgt : s.head.number > c.number
  · obtain ⟨cur1, hc1⟩ := up_exists hU hi (s.head.number - c.number) hi.head (by omega)
    obtain ⟨f1, _⟩ := up_facts hU hi.core _ hi.head hc1
    obtain ⟨c', h1, h2⟩ := rcTail_spec hU hi sc hc1 (d2 := 0) (new1 := c) rfl (si := c.number) (by omega) rfl
    refine ⟨c', ?_, h2⟩
    simp only [restrictChain, hgt, ↓reduceIte, hc1, Nat.sub_self, walkNew]
    exact h1
  · obtain ⟨new1, hn1⟩ := up_exists hU hi (c.number - s.head.number) sc (by omega)
    obtain ⟨f1, _⟩ := up_facts hU hi.core _ sc hn1
    obtain ⟨c', h1, h2⟩ := rcTail_spec hU hi sc (d1 := 0) (cur1 := s.head) rfl hn1 (si := s.head.number) rfl (by omega)
    refine ⟨c', ?_, h2⟩
    simp only [restrictChain, hgt, ↓reduceIte, walkNew_spec s _ c [] new1 hn1, List.nil_append]
    exact h1

/-! ### `update` (index writes) preserves the invariant -/

theorem store_hdr (s : State) (c : Header) (k : Key) :
    aget (store env s c).hdr k = if k = hkey env c then some c else aget s.hdr k := by
  simp [store, aget_aset]

theorem store_mono (hU : UOk env U) {s : State} (hi : Inv env U g s) {c : Header} (uc : U c) {k : Key} {h : Header}
    (hk : aget s.hdr k = some h) : aget (store env s c).hdr k = some h := by
  rw [store_hdr]
  by_cases e : k = hkey env c
  · obtain ⟨e2, uh⟩ := hi.key _ _ hk
    have : env.hash h = env.hash c := by
      have := e2.symm.trans e
      simp only [hkey, Prod.mk.injEq] at this
      exact this.1
    rw [hU.inj _ _ uh uc this]; simp [e]
  · simp [e, hk]

theorem store_parentOf (hU : UOk env U) {s : State} (hi : Inv env U g s) {c p : Header} (uc : U c)
    (sp : Stored env s p) (en : p.number + 1 = c.number) {h : Header} (sh : Stored env s h) :
    parentOf (store env s c) h = parentOf s h := by
  rcases hi.closed _ _ sh with e | ⟨_, q, hq⟩
  · subst e
    unfold parentOf
    rw [store_hdr]
    have : (h.parentHash, pred64 h.number) ≠ hkey env c := by
      intro e
      simp only [hkey, Prod.mk.injEq] at e
      have h1 := hU.wf _ uc
      have h2 := stored_ge hi sp
      have h3 := e.2
      simp only [pred64, two64, two63] at *
      omega
    simp [this]
  · rw [hq]
    unfold parentOf at hq ⊢
    exact store_mono hU hi uc hq

theorem store_up (hU : UOk env U) {s : State} (hi : Inv env U g s) {c p : Header} (uc : U c)
    (sp : Stored env s p) (en : p.number + 1 = c.number) :
    ∀ (n : Nat) (h : Header), Stored env s h → walkCur (store env s c) n h = walkCur s n h := by
  intro n
  induction n with
  | zero => intro h _; rfl
  | succ n ih =>
    intro h sh
    rw [up_succ, up_succ, store_parentOf hU hi uc sp en sh]
    cases hp : parentOf s h with
    | none => rfl
    | some q =>
      obtain ⟨_, _, sq⟩ := parent_facts hU hi.key (stored_U hi.core sh) hp
      simp [ih q sq]

theorem store_inv (hU : UOk env U) {s : State} (hi : Inv env U g s) {c p : Header} (uc : U c)
    (sp : Stored env s p) (eh : env.hash p = c.parentHash) (en : p.number + 1 = c.number) :
    Inv env U g (store env s c) ∧ Stored env (store env s c) c ∧ parentOf (store env s c) c = some p := by
  have hpc : parentOf (store env s c) c = some p := by
    unfold parentOf
    have : (c.parentHash, pred64 c.number) = hkey env p := by
      have h1 := hU.wf _ uc
      simp only [hkey, Prod.mk.injEq, ← eh, true_and]
      simp only [pred64, two64, two63] at *
      omega
    rw [this]
    exact store_mono hU hi uc sp
  have hsc : Stored env (store env s c) c := by unfold Stored; rw [store_hdr]; simp
  refine ⟨⟨?_, ?_, ?_, ?_⟩, hsc, hpc⟩
  · intro k h hk
    rw [store_hdr] at hk
    by_cases e : k = hkey env c
    · simp [e] at hk; subst hk; exact ⟨e, uc⟩
    · simp [e] at hk; exact hi.key _ _ hk
  · intro k h hk
    rw [store_hdr] at hk
    by_cases e : k = hkey env c
    · simp [e] at hk; subst hk
      right
      have := stored_ge hi sp
      exact ⟨by omega, p, hpc⟩
    · simp [e] at hk
      have sh : Stored env s h := by
        obtain ⟨e2, _⟩ := hi.key _ _ hk
        unfold Stored; rw [← e2]; exact hk
      rcases hi.closed _ _ hk with e3 | ⟨l, q, hq⟩
      · left; exact e3
      · right; exact ⟨l, q, by rw [store_parentOf hU hi uc sp en sh]; exact hq⟩
  · exact store_mono hU hi uc hi.head
  · intro n a ha
    have : (store env s c).head = s.head := rfl
    rw [this, store_up hU hi uc sp en n _ hi.head] at ha
    exact hi.roots n a ha

/-- index writes, bifurcation check, `RestrictChain`, keeper writes: never fails and re-establishes the invariant -/
theorem update_core (hU : UOk env U) {s : State} (hi : Inv env U g s) {c p : Header} (uc : U c)
    (sp : Stored env s p) (eh : env.hash p = c.parentHash) (en : p.number + 1 = c.number) :
    ∃ s3, (if env.hash s.head ≠ c.parentHash then restrictChain .fixed env (store env s c) c else .ok (store env s c)) = .ok s3 ∧
      Inv env U g { s3 with head := c, cons := aset s3.cons c.number { time := c.time, root := c.root } } := by
  obtain ⟨hi2, sc2, hpc⟩ := store_inv hU hi uc sp eh en
  -- in both branches the result is the stored state with new consensus states that are right along c's ancestry
  have key : ∃ cons', (if env.hash s.head ≠ c.parentHash then restrictChain .fixed env (store env s c) c else .ok (store env s c))
        = .ok { store env s c with cons := cons' } ∧
      ∀ n a, 1 ≤ n → walkCur (store env s c) n c = some a → aget cons' a.number = some (consOf a) := by
    by_cases hb : env.hash s.head = c.parentHash
    · refine ⟨(store env s c).cons, by simp [hb], ?_⟩
      intro n a hn ha
      have hp : s.head = p := hU.inj _ _ (stored_U hi.core hi.head) (stored_U hi.core sp) (hb.trans eh.symm)
      obtain ⟨i, rfl⟩ : ∃ i, n = i + 1 := ⟨n - 1, by omega⟩
      rw [up_succ, hpc] at ha
      simp only [Option.bind_some] at ha
      rw [← hp, store_up hU hi uc sp en i _ hi.head] at ha
      exact hi.roots i a ha
    · obtain ⟨c', h1, h2⟩ := restrictChain_spec hU hi2 sc2
      exact ⟨c', by simp [hb, h1], h2⟩
  obtain ⟨c', h1, h2⟩ := key
  refine ⟨_, h1, ⟨?_, ?_, ?_, ?_⟩⟩
  · exact hi2.key
  · intro k h hk
    exact hi2.closed k h hk
  · exact sc2
  · intro n a ha
    have ha' : walkCur (store env s c) n c = some a := by
      rw [← ha]
      refine (walkCur_hdr ?_ n c).symm
      rfl
    obtain ⟨e3, _⟩ := up_facts hU hi2.core n sc2 ha'
    show aget (aset c' c.number _) a.number = _
    by_cases hn : n = 0
    · subst hn
      simp [walkCur] at ha'
      subst ha'
      simp [aget_aset_self, consOf]
    · rw [aget_aset_ne _ _ (by omega)]
      exact h2 n a (by omega) ha'

/-! ### the acceptance rules -/

theorem wrapI64_small (x : Int) (h1 : -(two63 : Int) ≤ x) (h2 : x < (two63 : Int)) : wrapI64 x = x := by
  simp only [wrapI64, two63, two64] at *
  omega

/-- for gas limits in the range `ValidateBasic` allows, `VerifyGaslimit` is the usual rule -/
theorem verifyGasLimit_iff (p h : Nat) (hp : p ≤ two63 - 1) (hh : h ≤ two63 - 1) :
    verifyGasLimit p h = true ↔ ((if h ≤ p then p - h else h - p) < p / 1024 ∧ 5000 ≤ h) := by
  have e1 : wrapI64 (p : Int) = p := wrapI64_small _ (by simp only [two63] at *; omega) (by simp only [two63] at *; omega)
  have e2 : wrapI64 (h : Int) = h := wrapI64_small _ (by simp only [two63] at *; omega) (by simp only [two63] at *; omega)
  have e3 : wrapI64 ((p : Int) - h) = (p : Int) - h := wrapI64_small _ (by simp only [two63] at *; omega) (by simp only [two63] at *; omega)
  unfold verifyGasLimit
  simp only [e1, e2, e3]
  by_cases hle : h ≤ p
  · have : ¬ ((p : Int) - h < 0) := by omega
    simp only [this, ↓reduceIte, hle]
    have e4 : (((p : Int) - h) % (two64 : Int)).toNat = p - h := by simp only [two63, two64] at *; omega
    rw [e4]
    simp
  · have : ((p : Int) - h < 0) := by omega
    simp only [this, ↓reduceIte, hle]
    have e5 : wrapI64 (((p : Int) - h) * -1) = (h : Int) - p := by
      rw [wrapI64_small _ (by simp only [two63] at *; omega) (by simp only [two63] at *; omega)]; omega
    rw [e5]
    have e4 : (((h : Int) - p) % (two64 : Int)).toNat = h - p := by simp only [two63, two64] at *; omega
    rw [e4]
    simp

/-- what the property calls a rule-abiding child `c` of `p` at block time `now` -/
structure ValidChild (env : Env) (chainId now : Nat) (p c : Header) : Prop where
  hash : env.hash p = c.parentHash
  number : p.number + 1 = c.number
  rev : c.rev = p.rev
  timeParent : p.time < c.time
  timeFuture : c.time ≤ now + 15
  basic : validateBasic c = true
  gas : verifyGasLimit p.gasLimit c.gasLimit = true
  baseFee : calcBaseFee p = some c.baseFee
  pow : chainId ≠ 4 → calcDifficulty c.time p = (c.difficulty : Int) ∧ c.extraLen ≤ 32 ∧ env.powOk c = true

theorem verifyEip1559_ok {p c : Header} (h : verifyEip1559 p c = .ok) :
    verifyGasLimit p.gasLimit c.gasLimit = true ∧ calcBaseFee p = some c.baseFee := by
  unfold verifyEip1559 at h
  split at h
  · cases h
  · rename_i hg
    split at h
    · cases h
    · rename_i e he
      split at h
      · rename_i hb; exact ⟨by simpa using hg, by rw [he, hb]⟩
      · cases h

theorem verifyHeader_ok {s : State} {now : Nat} {c : Header} (h : verifyHeader env s now c = .ok) :
    ∃ p, parentOf s c = some p ∧ env.hash p = c.parentHash ∧ p.time < c.time ∧ c.time ≤ now + 15 ∧
      verifyGasLimit p.gasLimit c.gasLimit = true ∧ calcBaseFee p = some c.baseFee ∧
      (s.chainId ≠ 4 → calcDifficulty c.time p = (c.difficulty : Int)) ∧ c.rev = p.rev := by
  unfold verifyHeader at h
  split at h
  · cases h
  · rename_i p hp
    split at h
    · cases h
    · rename_i hh
      split at h
      · cases h
      · rename_i hrv
        split at h
        · cases h
        · rename_i hf
          split at h
          · cases h
          · rename_i ht
            split at h
            · rename_i he
              obtain ⟨g1, g2⟩ := verifyEip1559_ok he
              refine ⟨p, hp, by simpa using hh, by omega, by omega, g1, g2, ?_, ?_⟩
              · intro hc
                split at h
                · rename_i hd
                  simp at h
                · rename_i hd; simpa using hd
              · simpa using hrv
            · rename_i hne
              exact (hne h).elim

theorem checkValidity_ok {s : State} {now : Nat} {c : Header} (h : checkValidity env s now c = .ok) :
    ∃ p, parentOf s c = some p ∧ env.hash p = c.parentHash ∧ p.time < c.time ∧ c.time ≤ now + 15 ∧
      validateBasic c = true ∧ verifyGasLimit p.gasLimit c.gasLimit = true ∧ calcBaseFee p = some c.baseFee ∧
      (s.chainId ≠ 4 → calcDifficulty c.time p = (c.difficulty : Int) ∧ c.extraLen ≤ 32 ∧ env.powOk c = true) ∧
      c.rev = p.rev := by
  unfold checkValidity at h
  split at h
  · cases h
  · rename_i hb
    split at h
    · rename_i hv
      obtain ⟨p, h1, h2, h3, h4, h5, h6, h7, hrv⟩ := verifyHeader_ok hv
      refine ⟨p, h1, h2, h3, h4, by simpa using hb, h5, h6, ?_, hrv⟩
      intro hc
      simp only [hc, ne_eq, not_false_eq_true, ↓reduceIte] at h
      split at h
      · cases h
      · rename_i hx
        split at h
        · cases h
        · rename_i hpw
          exact ⟨h7 hc, by omega, by simpa using hpw⟩
    · rename_i hne
      exact (hne h).elim

theorem checkValidity_complete {s : State} {now : Nat} {p c : Header} (hp : parentOf s c = some p)
    (v : ValidChild env s.chainId now p c) : checkValidity env s now c = .ok := by
  have h1 : ¬ (c.time > now + 15) := by have := v.timeFuture; omega
  have h2 : ¬ (c.time ≤ p.time) := by have := v.timeParent; omega
  have hvh : verifyHeader env s now c = .ok := by
    unfold verifyHeader verifyEip1559
    simp only [hp, v.hash, v.rev, ne_eq, not_true_eq_false, ↓reduceIte, h1, h2, v.gas, Bool.not_true, v.baseFee]
    by_cases hc : s.chainId = 4
    · simp [hc]
    · simp [(v.pow hc).1]
  unfold checkValidity
  simp only [v.basic, Bool.not_true, hvh]
  by_cases hc : s.chainId = 4
  · simp [hc]
  · obtain ⟨_, e, pw⟩ := v.pow hc
    have : ¬ (c.extraLen > 32) := by omega
    simp [hc, this, pw]

/-! ### the property -/

/-- **accept_sound** (both texts of `RestrictChain`, pruning included): an accepted header has a stored parent
    with the same hash one height below, obeys the time, gas-limit and base-fee rules and, unless the chain id is
    4, the difficulty and proof-of-work rules; it becomes the head. -/
theorem accept_sound (hU : UOk env U) {v : Variant} {s s' : State} {now : Nat} {c : Header}
    (hk : ∀ k h, aget s.hdr k = some h → k = hkey env h ∧ U h) (uc : U c)
    (h : updateClient v env now s c = .ok s') :
    ∃ p, Stored env s p ∧ ValidChild env s.chainId now p c ∧ s'.head = c := by
  unfold updateClient at h
  split at h
  · cases h
  · split at h
    · cases h
    · cases h
    · rename_i hcv
      obtain ⟨p, h1, h2, h3, h4, h5, h6, h7, h8, hrv⟩ := checkValidity_ok hcv
      obtain ⟨e1, _, sp⟩ := parent_facts hU hk uc h1
      refine ⟨p, sp, ⟨h2, e1, hrv, h3, h4, h5, h6, h7, h8⟩, ?_⟩
      repeat' split at h
      all_goals (try dsimp only at h)
      all_goals repeat' split at h
      all_goals (try dsimp only at h)
      all_goals repeat' split at h
      all_goals (try cases h)
      all_goals (try rfl)

/-- one accepted update of the repaired client, no consensus state expired: always succeeds for a rule-abiding
    child of a stored header, re-establishes the invariant -/
theorem step_fixed (hU : UOk env U) {s : State} (hi : Inv env U g s) {now : Nat} {c p : Header} (uc : U c)
    (sp : Stored env s p) (hv : ValidChild env s.chainId now p c)
    (hact : active s now = true) (hnp : pruneHeight s now = none) :
    ∃ s', updateClient .fixed env now s c = .ok s' ∧ Inv env U g s' ∧ s'.head = c := by
  have hpo : parentOf s c = some p := by
    unfold parentOf
    have : (c.parentHash, pred64 c.number) = hkey env p := by
      have h1 := hU.wf _ uc
      have := hv.number
      simp only [hkey, Prod.mk.injEq, ← hv.hash, true_and]
      simp only [pred64, two64, two63] at *
      omega
    rw [this]; exact sp
  obtain ⟨s3, h3, hi3⟩ := update_core hU hi uc sp hv.hash hv.number
  refine ⟨_, ?_, hi3, rfl⟩
  unfold updateClient
  simp only [hact, Bool.not_true, checkValidity_complete hpo hv, pruneStep, hnp]
  simp only [Bool.false_eq_true, ↓reduceIte, h3]

/-- states of the repaired client reachable from its creation with `g` by any sequence of accepted updates
    (competing branches, any order, re-submissions) during which no consensus state has expired -/
inductive Reach (env : Env) (U : Header → Prop) (g : Header) (chainId trusting : Nat) : State → Prop
  | init : Reach env U g chainId trusting (initState env chainId trusting g)
  | step {s s' : State} {now : Nat} {c : Header} : Reach env U g chainId trusting s → U c → pruneHeight s now = none →
      updateClient .fixed env now s c = .ok s' → Reach env U g chainId trusting s'

theorem init_inv (hU : UOk env U) (ug : U g) (chainId trusting : Nat) : Inv env U g (initState env chainId trusting g) := by
  have hget : ∀ k h, aget (initState env chainId trusting g).hdr k = some h → k = hkey env g ∧ h = g := by
    intro k h hk
    simp only [initState, aget] at hk
    split at hk
    · rename_i e; cases hk; exact ⟨e.symm, rfl⟩
    · cases hk
  have hnp : parentOf (initState env chainId trusting g) g = none := by
    cases hp : parentOf (initState env chainId trusting g) g with
    | none => rfl
    | some q =>
      exfalso
      unfold parentOf at hp
      obtain ⟨e, _⟩ := hget _ _ hp
      have := hU.wf _ ug
      simp only [hkey, Prod.mk.injEq] at e
      have e2 := e.2
      simp only [pred64, two64, two63] at *
      omega
  refine ⟨?_, ?_, ?_, ?_⟩
  · intro k h hk; obtain ⟨e, e2⟩ := hget k h hk; subst e2; exact ⟨e, ug⟩
  · intro k h hk; left; exact (hget k h hk).2
  · simp [initState, aget]
  · intro n a ha
    have hh : (initState env chainId trusting g).head = g := rfl
    rw [hh] at ha
    cases n with
    | zero => simp [walkCur] at ha; subst ha; simp [initState, aget, consOf]
    | succ n => rw [up_succ, hnp] at ha; cases ha

theorem reach_inv (hU : UOk env U) (ug : U g) {chainId trusting : Nat} {s : State}
    (hr : Reach env U g chainId trusting s) : Inv env U g s := by
  induction hr with
  | init => exact init_inv hU ug chainId trusting
  | @step s0 s1 now0 c0 _ uc hnp hstep ih =>
    obtain ⟨p, sp, hv, _⟩ := accept_sound hU ih.key uc hstep
    have hact : active s0 now0 = true := by
      unfold updateClient at hstep
      split at hstep
      · cases hstep
      · rename_i ha; simpa using ha
    obtain ⟨s'', h1, h2, _⟩ := step_fixed hU ih uc sp hv hact hnp
    rw [hstep] at h1
    cases h1
    exact h2

/-- **never_wedged** (repaired `RestrictChain`): after any sequence of accepted headers — competing branches in any
    order, re-submissions — a rule-abiding child of ANY stored header is accepted (the client being active and its
    lowest consensus state unexpired). -/
theorem never_wedged (hU : UOk env U) (ug : U g) {chainId trusting : Nat} {s : State}
    (hr : Reach env U g chainId trusting s) {now : Nat} {p c : Header} (uc : U c) (sp : Stored env s p)
    (hv : ValidChild env s.chainId now p c) (hact : active s now = true) (hnp : pruneHeight s now = none) :
    ∃ s', updateClient .fixed env now s c = .ok s' ∧ s'.head = c := by
  obtain ⟨s', h1, _, h3⟩ := step_fixed hU (reach_inv hU ug hr) uc sp hv hact hnp
  exact ⟨s', h1, h3⟩

/-- **ancestry_roots** (repaired `RestrictChain`): in every reachable state the consensus state kept for the height
    of any ancestor of the head is that ancestor's state root (and time stamp). -/
theorem ancestry_roots (hU : UOk env U) (ug : U g) {chainId trusting : Nat} {s : State}
    (hr : Reach env U g chainId trusting s) (n : Nat) (a : Header) (ha : walkCur s n s.head = some a) :
    aget s.cons a.number = some { time := a.time, root := a.root } :=
  (reach_inv hU ug hr).roots n a ha

/-- … and every height from the client's initial height up to the head is covered by such an ancestor. -/
theorem ancestry_total (hU : UOk env U) (ug : U g) {chainId trusting : Nat} {s : State}
    (hr : Reach env U g chainId trusting s) (k : Nat) (h1 : g.number ≤ k) (h2 : k ≤ s.head.number) :
    ∃ a, walkCur s (s.head.number - k) s.head = some a ∧ a.number = k ∧
      aget s.cons k = some { time := a.time, root := a.root } := by
  have hi := reach_inv hU ug hr
  obtain ⟨a, ha⟩ := up_exists hU hi (s.head.number - k) hi.head (by omega)
  obtain ⟨e, _⟩ := up_facts hU hi.core _ hi.head ha
  have e2 : a.number = k := by omega
  exact ⟨a, ha, e2, e2 ▸ hi.roots _ a ha⟩

end

/-! ### key consistency of the header index survives every accepted update (either text of `RestrictChain`, pruning included) -/

def KeyOk (env : Env) (U : Header → Prop) (s : State) : Prop :=
  ∀ k h, aget s.hdr k = some h → k = hkey env h ∧ U h

theorem repoint_hdr : ∀ (xs : List Hash) (s s' : State) (t : Nat), repoint s xs t = some s' → s'.hdr = s.hdr := by
  intro xs
  induction xs with
  | nil => intro s s' t h; simp [repoint] at h; subst h; rfl
  | cons x xs ih =>
    intro s s' t h
    unfold repoint at h
    split at h
    · cases h
    · have e := ih _ _ _ h
      exact e

theorem rcFinish_hdr {v : Variant} {env : Env} {s s' : State} {a b : Header} {acc : List Hash} {t : Nat}
    (h : rcFinish v env s a b acc t = .ok s') : s'.hdr = s.hdr := by
  unfold rcFinish at h
  dsimp only at h
  split at h
  · cases h
  · rename_i hr; cases h; exact repoint_hdr _ _ _ _ hr

theorem rcTail_hdr {v : Variant} {env : Env} {s s' : State} {a b : Header} {acc : List Hash} {t : Nat}
    (h : rcTail v env s a b acc t = .ok s') : s'.hdr = s.hdr := by
  unfold rcTail at h
  split at h
  · cases h
  · cases h
  · exact rcFinish_hdr h

theorem restrictChain_hdr {v : Variant} {env : Env} {s s' : State} {c : Header}
    (h : restrictChain v env s c = .ok s') : s'.hdr = s.hdr := by
  unfold restrictChain at h
  dsimp only at h
  split at h
  · cases h
  · cases h
  · split at h
    · cases h
    · exact rcTail_hdr h

theorem keyOk_step {env : Env} {U : Header → Prop} {v : Variant} {s s' : State} {now : Nat} {c : Header}
    (hk : KeyOk env U s) (uc : U c) (h : updateClient v env now s c = .ok s') : KeyOk env U s' := by
  have hdel : ∀ (s1 : State) (k : Nat), deleteAt s k = .ok s1 → KeyOk env U s1 := by
    intro s1 k hd
    unfold deleteAt at hd
    split at hd
    · cases hd
    · split at hd
      · cases hd
      · rename_i idx _
        cases hd
        intro k' h' hg
        by_cases e : k' = idx
        · subst e; rw [aget_adel_self] at hg; cases hg
        · rw [aget_adel_ne _ e] at hg; exact hk _ _ hg
  have hst : ∀ (s1 : State), KeyOk env U s1 → KeyOk env U (store env s1 c) := by
    intro s1 h1 k h' hg
    rw [store_hdr] at hg
    by_cases e : k = hkey env c
    · simp [e] at hg; subst hg; exact ⟨e, uc⟩
    · simp [e] at hg; exact h1 _ _ hg
  have hfin : ∀ (s1 s3 : State), KeyOk env U s1 →
      (if env.hash s.head ≠ c.parentHash then restrictChain v env (store env s1 c) c else .ok (store env s1 c)) = .ok s3 →
      KeyOk env U s3 := by
    intro s1 s3 h1 h3
    split at h3
    · intro k h' hg; rw [restrictChain_hdr h3] at hg; exact hst s1 h1 _ _ hg
    · cases h3; exact hst s1 h1
  unfold updateClient at h
  by_cases ha : (!active s now) = true
  · simp only [ha, ↓reduceIte] at h; cases h
  · simp only [ha, Bool.false_eq_true, ↓reduceIte] at h
    cases hcv : checkValidity env s now c with
    | err e => simp only [hcv] at h; cases h
    | panic e => simp only [hcv] at h; cases h
    | ok =>
      simp only [hcv] at h
      cases hp : pruneHeight s now with
      | none =>
        simp only [pruneStep, hp] at h
        cases h3 : (if env.hash s.head ≠ c.parentHash then restrictChain v env (store env s c) c else Outcome.ok (store env s c)) with
        | err e => simp only [h3] at h; cases h
        | panic e => simp only [h3] at h; cases h
        | ok s3 => simp only [h3] at h; cases h; exact hfin s s3 hk h3
      | some k =>
        simp only [pruneStep, hp] at h
        cases hd : deleteAt s k with
        | err e => simp only [hd] at h; cases h
        | panic e => simp only [hd] at h; cases h
        | ok s1 =>
          simp only [hd] at h
          cases h3 : (if env.hash s.head ≠ c.parentHash then restrictChain v env (store env s1 c) c else Outcome.ok (store env s1 c)) with
          | err e => simp only [h3] at h; cases h
          | panic e => simp only [h3] at h; cases h
          | ok s3 => simp only [h3] at h; cases h; exact hfin s1 s3 (hdel s1 k hd) h3

/-- states reachable by accepted updates of either text of `RestrictChain`, pruning steps included -/
inductive ReachAny (env : Env) (U : Header → Prop) (v : Variant) (g : Header) (chainId trusting : Nat) : State → Prop
  | init : ReachAny env U v g chainId trusting (initState env chainId trusting g)
  | step {s s' : State} {now : Nat} {c : Header} : ReachAny env U v g chainId trusting s → U c →
      updateClient v env now s c = .ok s' → ReachAny env U v g chainId trusting s'

theorem reachAny_keyOk {env : Env} {U : Header → Prop} {g : Header} (hU : UOk env U) (ug : U g) {v : Variant}
    {chainId trusting : Nat} {s : State} (hr : ReachAny env U v g chainId trusting s) : KeyOk env U s := by
  induction hr with
  | init => exact (init_inv hU ug chainId trusting).key
  | step _ uc' hs ih => exact keyOk_step ih uc' hs

/-- **accept_sound over all histories** (pinned or repaired loop, with pruning): whatever was accepted before, an
    accepted header is a rule-abiding child of a header that is in the index, and becomes the head. -/
theorem accept_sound_reach {env : Env} {U : Header → Prop} {g : Header} (hU : UOk env U) (ug : U g) {v : Variant}
    {chainId trusting : Nat} {s s' : State} (hr : ReachAny env U v g chainId trusting s) {now : Nat} {c : Header} (uc : U c)
    (h : updateClient v env now s c = .ok s') :
    ∃ p, Stored env s p ∧ ValidChild env s.chainId now p c ∧ s'.head = c :=
  accept_sound hU (reachAny_keyOk hU ug hr) uc h

/-! ### concrete witnesses: the pinned `RestrictChain` violates both properties; non-vacuity of the hypotheses -/

set_option maxRecDepth 100000
def wenv : Env := { hash := fun h => h.rest, powOk := fun _ => true }
def wG : Header :=
  { parentHash := 99, uncleEmpty := true, root := 500, difficulty := 1, number := 10, rev := 0, gasLimit := 8000,
    gasUsed := 4000, time := 1000, extraLen := 0, baseFee := 7, rest := 100 }
def wChild (p : Header) (id rt dt : Nat) : Header :=
  { parentHash := p.rest, uncleEmpty := true, root := rt, difficulty := 1, number := p.number + 1, rev := p.rev, gasLimit := p.gasLimit,
    gasUsed := p.gasUsed, time := p.time + dt, extraLen := 0, baseFee := p.baseFee, rest := id }
def wA1 := wChild wG 101 501 1
def wB1 := wChild wG 102 502 2
def wA2 := wChild wA1 103 503 1
def wA3 := wChild wA2 104 504 1
def wB2 := wChild wB1 105 503 1      -- cousin of A2 with A2's state root

def wrun (v : Variant) (s : State) : List Header → Option State
  | [] => some s
  | h :: hs => match updateClient v wenv 2000 s h with
    | .ok s' => wrun v s' hs
    | _ => none

def wInit : State := initState wenv 4 1000000 wG

/-- F12 on the pinned text: with G←A1 and G←B1 accepted (head B1) the rule-abiding child A2 of the stored A1 is rejected … -/
theorem orig_wedged : ∃ s, wrun .orig wInit [wA1, wB1] = some s ∧ Stored wenv s wA1 ∧ active s 2000 = true ∧
    pruneHeight s 2000 = none ∧ checkValidity wenv s 2000 wA2 = .ok ∧
    updateClient .orig wenv 2000 s wA2 = .err "rc-repoint" := by
  refine ⟨_, rfl, ?_, ?_, ?_, ?_, ?_⟩ <;> decide

/-- … so `never_wedged` is false for the pinned `RestrictChain` … -/
theorem never_wedged_orig_false :
    ¬ (∀ (s : State) (p c : Header), wrun .orig wInit [wA1, wB1] = some s → Stored wenv s p →
        ValidChild wenv s.chainId 2000 p c → ∃ s', updateClient .orig wenv 2000 s c = .ok s') := by
  intro h
  obtain ⟨s, h1, h2, _, _, _, h6⟩ := orig_wedged
  have hv : ValidChild wenv s.chainId 2000 wA1 wA2 := by
    have e : s.chainId = 4 := by
      have : wrun .orig wInit [wA1, wB1] = some s := h1
      revert this; intro this
      have h0 : (wrun .orig wInit [wA1, wB1]).map (·.chainId) = some 4 := by decide
      rw [this] at h0; simpa using h0
    refine ⟨by decide, by decide, by decide, by decide, by decide, by decide, by decide, by decide, ?_⟩
    intro hc; exact absurd e hc
  obtain ⟨s', h7⟩ := h s wA1 wA2 h1 h2 hv
  rw [h6] at h7; cases h7

/-- … while the repaired one accepts it. -/
theorem fixed_accepts : (wrun .fixed wInit [wA1, wB1, wA2]).isSome = true := by decide

/-- root-main lookup on the pinned text: G←A1←A2←A3 (head), G←B1, then B2 (child of B1, state root of A2) is accepted
    without re-pointing height 11, which keeps A1's root although the head's ancestor there is B1 -/
theorem orig_root_mismatch : ∃ s, wrun .orig wInit [wA1, wB1, wA1, wA2, wA3, wB2] = some s ∧ s.head = wB2 ∧
    walkCur s 1 s.head = some wB1 ∧ aget s.cons wB1.number = some (consOf wA1) ∧ consOf wA1 ≠ consOf wB1 := by
  refine ⟨_, rfl, ?_, ?_, ?_, ?_⟩ <;> decide

theorem fixed_root_ok : ∃ s, wrun .fixed wInit [wA1, wB1, wA1, wA2, wA3, wB2] = some s ∧ s.head = wB2 ∧
    aget s.cons wB1.number = some (consOf wB1) := by
  refine ⟨_, rfl, ?_, ?_⟩ <;> decide

/-- the hypotheses of the theorems are satisfiable: the witness headers form a universe with collision-free hashes -/
def wU (h : Header) : Prop := h ∈ [wG, wA1, wB1, wA2, wA3, wB2]

instance : DecidablePred wU := fun h => by unfold wU; infer_instance

theorem wU_ok : UOk wenv wU := by
  refine ⟨?_, ?_⟩
  · have : ∀ a ∈ [wG, wA1, wB1, wA2, wA3, wB2], ∀ b ∈ [wG, wA1, wB1, wA2, wA3, wB2], wenv.hash a = wenv.hash b → a = b := by decide
    exact fun a b ha hb => this a ha b hb
  · have : ∀ a ∈ [wG, wA1, wB1, wA2, wA3, wB2], a.number < two63 := by decide
    exact fun a ha => this a ha

example : ∃ s, Reach wenv wU wG 4 1000000 s ∧ s.head = wB1 ∧ Stored wenv s wA1 ∧ ValidChild wenv s.chainId 2000 wA1 wA2 := by
  have r0 : Reach wenv wU wG 4 1000000 wInit := Reach.init
  have r1 := Reach.step (now := 2000) (c := wA1) (s' := (wrun .fixed wInit [wA1]).get (by decide)) r0 (by decide) (by decide) (by decide)
  have r2 := Reach.step (now := 2000) (c := wB1) (s' := (wrun .fixed wInit [wA1, wB1]).get (by decide)) r1 (by decide) (by decide) (by decide)
  refine ⟨_, r2, by decide, by decide, ?_⟩
  refine ⟨by decide, by decide, by decide, by decide, by decide, by decide, by decide, by decide, ?_⟩
  intro hc; exact absurd (by decide) hc

end TM.Eth
