import TeleportModel.Proofs.C13
/-
C13 — every modelled keeper write preserves `ModuleKeys`; every state reachable from a fresh chain by keeper operations
satisfies it, so `roundtrip` applies without a free hypothesis. Also: `export_idempotent` needs `ModuleKeys` (counterexamples).
-/
namespace TM.Genesis
open TM TM.GKv

/-! ## generic: delete, metadata write -/

theorem xKeyOk_del_other {s : Store} (hS : Sorted s) {k' : Bytes}
    (hne : ∀ c, slash ∉ c → k' ≠ clientKey c kClientState) (k v : Bytes) :
    xKeyOk (del s k') k v = xKeyOk s k v := by
  cases hsp : splitClientKey k with
  | none => simp only [xKeyOk, hsp]
  | some cp =>
    obtain ⟨chain, path⟩ := cp
    have hn := (splitClientKey_some hsp).2.1
    have : get (del s k') (clientKey chain kClientState) = get s (clientKey chain kClientState) := by
      rw [get_del hS]; simp [hne chain hn]
    simp only [xKeyOk, hsp, this]

/-- deleting an entry that is neither the chain name nor a client state keeps ModuleKeys -/
theorem moduleKeys_del {s : Store} (h : ModuleKeys s) {k : Bytes} (hcn : k ≠ kChainName)
    (hne : ∀ c, slash ∉ c → k ≠ clientKey c kClientState) : ModuleKeys (del s k) := by
  obtain ⟨hS, hC, hK⟩ := (moduleKeys_iff s).mp h
  refine (moduleKeys_iff _).mpr ⟨sorted_del hS k, ?_, ?_⟩
  · rw [get_del hS]; simp [hcn, hC]
  · intro kv hkv
    rw [xKeyOk_del_other hS hne]
    exact hK kv (mem_del_sub hkv)

theorem noSlash_iff {b : Bytes} : noSlash b = true ↔ slash ∉ b := by
  simp [noSlash]

theorem clientKey_ne_chainName (c p : Bytes) : clientKey c p ≠ kChainName := by
  intro e
  have := clients_prefix_clientKey c p
  rw [e] at this; exact absurd this (by decide)

theorem tyOfChain_set_other {s : Store} (hS : Sorted s) {k v chain : Bytes} (hne : k ≠ clientKey chain kClientState) :
    tyOfChain (set s k v) chain = tyOfChain s chain := by
  unfold tyOfChain; rw [get_set hS]; simp [hne]

/-- writing a metadata entry of the chain's client type keeps ModuleKeys -/
theorem moduleKeys_setMeta {s : Store} (h : ModuleKeys s) {chain path v : Bytes} {ty : Ty} (hc : slash ∉ chain)
    (hty : tyOfChain s chain = some ty) (hmp : metaPath ty path = true) (hne : path ≠ kClientState)
    (hnc : (consHeight? path).isSome = false) : ModuleKeys (set s (clientKey chain path) v) := by
  apply moduleKeys_set h
  · intro c hcs e; exact hne (clientKey_inj hc hcs e).2
  · rw [xKeyOk_clientKey hc]
    unfold tyOfChain at hty
    simp [hne, hnc, hty, hmp]

theorem moduleKeys_delMeta {s : Store} (h : ModuleKeys s) {chain path : Bytes} (hc : slash ∉ chain)
    (hne : path ≠ kClientState) : ModuleKeys (del s (clientKey chain path)) :=
  moduleKeys_del h (clientKey_ne_chainName _ _) (fun c hcs e => hne (clientKey_inj hc hcs e).2)

/-! ## the BSC / ETH metadata writers -/

theorem signerPath_facts (h : Height) :
    metaPath .bsc (signerPath h) = true ∧ signerPath h ≠ kClientState ∧ (consHeight? (signerPath h)).isSome = false := by
  have hp : kRecent.isPrefixOf (signerPath h) = true := isPrefixOf_append _ _
  obtain ⟨a, b⟩ := path_ne_special (p := signerPath h) kRecent hp (by decide) (by decide) (by decide) (by decide)
  exact ⟨by simp [metaPath, hp], a, b⟩

theorem pending_facts :
    metaPath .bsc kPending = true ∧ kPending ≠ kClientState ∧ (consHeight? kPending).isSome = false := by decide

theorem ethPath_facts (pfx hash : Bytes) (h : UInt64) (hpfx : pfx = kEthIndex ∨ pfx = kEthRoot) :
    metaPath .eth (ethPath pfx hash h) = true ∧ ethPath pfx hash h ≠ kClientState ∧
      (consHeight? (ethPath pfx hash h)).isSome = false := by
  have hp : pfx.isPrefixOf (ethPath pfx hash h) = true := isPrefixOf_append _ _
  rcases hpfx with e | e <;> subst e
  · obtain ⟨a, b⟩ := path_ne_special (p := ethPath kEthIndex hash h) kEthIndex hp (by decide) (by decide) (by decide) (by decide)
    exact ⟨by simp [metaPath, hp], a, b⟩
  · obtain ⟨a, b⟩ := path_ne_special (p := ethPath kEthRoot hash h) kEthRoot hp (by decide) (by decide) (by decide) (by decide)
    exact ⟨by simp [metaPath, hp], a, b⟩

/-- BSC `SetSigner` (recent signers) on a chain with a BSC client -/
theorem moduleKeys_bscSetSigner {s : Store} (h : ModuleKeys s) {chain : Bytes} (hgt : Height) (v : Bytes)
    (hc : slash ∉ chain) (hty : tyOfChain s chain = some .bsc) : ModuleKeys (bscSetSigner s chain hgt v) :=
  moduleKeys_setMeta h hc hty (signerPath_facts hgt).1 (signerPath_facts hgt).2.1 (signerPath_facts hgt).2.2

theorem moduleKeys_bscDelSigner {s : Store} (h : ModuleKeys s) {chain : Bytes} (hgt : Height) (hc : slash ∉ chain) :
    ModuleKeys (bscDelSigner s chain hgt) :=
  moduleKeys_delMeta h hc (signerPath_facts hgt).2.1

/-- BSC `SetPendingValidators` -/
theorem moduleKeys_bscSetPending {s : Store} (h : ModuleKeys s) {chain : Bytes} (blob : Bytes)
    (hc : slash ∉ chain) (hty : tyOfChain s chain = some .bsc) : ModuleKeys (bscSetPending s chain blob) :=
  moduleKeys_setMeta h hc hty pending_facts.1 pending_facts.2.1 pending_facts.2.2

/-- ETH `SetEthHeaderIndex` -/
theorem moduleKeys_ethSetIndex {s : Store} (h : ModuleKeys s) {chain : Bytes} (hash : Bytes) (n : UInt64) (blob : Bytes)
    (hc : slash ∉ chain) (hty : tyOfChain s chain = some .eth) : ModuleKeys (ethSetIndex s chain hash n blob) :=
  have f := ethPath_facts kEthIndex hash n (Or.inl rfl)
  moduleKeys_setMeta h hc hty f.1 f.2.1 f.2.2

/-- ETH `SetEthConsensusRoot` -/
theorem moduleKeys_ethSetRoot {s : Store} (h : ModuleKeys s) {chain : Bytes} (root : Bytes) (n : UInt64) (hash : Bytes)
    (hc : slash ∉ chain) (hty : tyOfChain s chain = some .eth) : ModuleKeys (ethSetRoot s chain root n hash) :=
  have f := ethPath_facts kEthRoot root n (Or.inr rfl)
  moduleKeys_setMeta h hc hty f.1 f.2.1 f.2.2

/-- Tendermint pruning (`deleteConsensusState` + `deleteConsensusMetadata`) -/
theorem moduleKeys_tmPrune {s : Store} (h : ModuleKeys s) {chain : Bytes} (hgt : Height) (hc : slash ∉ chain) :
    ModuleKeys (tmPrune s chain hgt) := by
  unfold tmPrune
  have l1 : (consPath hgt).length = 32 := by simp [consPath, be64_length]; decide
  have l2 : (ptimePath hgt).length = 46 := by simp [ptimePath, consPath, be64_length]; decide
  have n1 : consPath hgt ≠ kClientState := by intro e; rw [e] at l1; exact absurd l1 (by decide)
  have n2 : ptimePath hgt ≠ kClientState := by intro e; rw [e] at l2; exact absurd l2 (by decide)
  have n3 : iterPath hgt ≠ kClientState :=
    (path_ne_special (p := iterPath hgt) kIterate (isPrefixOf_append _ _) (by decide) (by decide) (by decide) (by decide)).1
  exact moduleKeys_delMeta (moduleKeys_delMeta (moduleKeys_delMeta h hc n1) hc n2) hc n3

/-! ## relayers, send sequences, commitment deletion -/

/-- `RegisterRelayers`: the entry is stored under the address inside the value -/
theorem moduleKeys_registerRelayer {s : Store} (h : ModuleKeys s) (blob : Bytes) : ModuleKeys (registerRelayer s blob) := by
  unfold registerRelayer
  have hp : kRelayers.isPrefixOf (relayerKey (relayerAddr blob)) = true := isPrefixOf_append _ _
  apply moduleKeys_set h
  · intro c _ e
    rw [e] at hp
    exact (prefix_excl hp (clients_prefix_clientKey c kClientState) (by decide) (by decide)).elim
  · have hne : relayerKey (relayerAddr blob) ≠ kChainName := by
      intro e; rw [e] at hp; exact absurd hp (by decide)
    simp [xKeyOk, hne, hp]

theorem nextSeqKey_split {src dst : Bytes} (hs : slash ∉ src) (hd : slash ∉ dst) :
    splitOn slash (nextSeqKey src dst) = [kNextSeq, src, dst] := by
  have hq : slash ∉ kNextSeq := by decide
  unfold nextSeqKey
  simp only [joinSlash]
  rw [splitOn_append hq, splitOn_append hs, splitOn_noSep hd]

/-- `SetNextSequenceSend` for every sequence -/
theorem moduleKeys_setNextSeq {s : Store} (h : ModuleKeys s) {src dst : Bytes} (q : UInt64)
    (hs : slash ∉ src) (hd : slash ∉ dst) : ModuleKeys (setNextSeq s src dst q) := by
  unfold setNextSeq
  have hpre : kNextSeq.isPrefixOf (nextSeqKey src dst) = true := by
    unfold nextSeqKey; simp only [joinSlash]; exact isPrefixOf_append _ _
  have no : ∀ p : Bytes, p.isPrefixOf kNextSeq = false → kNextSeq.isPrefixOf p = false →
      p.isPrefixOf (nextSeqKey src dst) = false := by
    intro p h1 h2
    cases hq : p.isPrefixOf (nextSeqKey src dst) with
    | false => rfl
    | true => exact (prefix_excl hq hpre h1 h2).elim
  apply moduleKeys_set h
  · intro c _ e
    rw [e] at hpre
    exact (prefix_excl hpre (clients_prefix_clientKey c kClientState) (by decide) (by decide)).elim
  · have hne : nextSeqKey src dst ≠ kChainName := by
      intro e; rw [e] at hpre; exact absurd hpre (by decide)
    have hok : seqKeyOk (nextSeqKey src dst) = true := by
      unfold seqKeyOk; rw [nextSeqKey_split hs hd]; simp
    simp only [xKeyOk, hne, if_false, no kRelayers (by decide) (by decide), no kClients (by decide) (by decide),
      no kAcks (by decide) (by decide), no kCommitments (by decide) (by decide), no kReceipts (by decide) (by decide),
      Bool.false_eq_true, hpre, if_true, hok, be64_length]
    decide

theorem moduleKeys_delCommitment {s : Store} (h : ModuleKeys s) (src dst : Bytes) (q : UInt64) :
    ModuleKeys (delCommitment s src dst q) := by
  unfold delCommitment
  have hpre : kCommitments.isPrefixOf (packetKey kCommitments src dst q.toNat) = true := by
    unfold packetKey; simp only [joinSlash]; exact isPrefixOf_append _ _
  apply moduleKeys_del h
  · intro e; rw [e] at hpre; exact absurd hpre (by decide)
  · exact packetKey_not_clientState _ (Or.inr (Or.inl rfl))

/-! ## client states: same type, fresh chain, and the repaired ToggleClient (clear first) -/

theorem bind_clientTy_some {o : Option Bytes} {ty : Ty} (h : o.bind clientTy = some ty) :
    ∃ cv, o = some cv ∧ clientTy cv = some ty := by
  cases o with
  | none => simp at h
  | some cv => exact ⟨cv, rfl, by simpa using h⟩

/-- `SetClientState` keeps ModuleKeys exactly in the situations the keeper uses it: the chain has no client yet, or the new
client state has the type of the existing one (UpdateClient / UpgradeClient). (Changing the type while the old type's metadata is
still in the client store does NOT preserve it — that is why the repaired ToggleClient clears the store first.) -/
theorem moduleKeys_setClientState {s : Store} (h : ModuleKeys s) {chain blob : Bytes} (hc : slash ∉ chain)
    (hb : (clientTy blob).isSome = true)
    (hsame : ∀ cv, get s (clientKey chain kClientState) = some cv → clientTy cv = clientTy blob) :
    ModuleKeys (setClientState s chain blob) := by
  obtain ⟨hS, hC, hK⟩ := (moduleKeys_iff s).mp h
  unfold setClientState
  refine (moduleKeys_iff _).mpr ⟨sorted_set hS _ _, ?_, ?_⟩
  · rw [get_set hS]; simp [clientKey_ne_chainName, hC]
  · have key : ∀ c, slash ∉ c → ∀ ty, (get s (clientKey c kClientState)).bind clientTy = some ty →
        (get (set s (clientKey chain kClientState) blob) (clientKey c kClientState)).bind clientTy = some ty := by
      intro c hcs ty hty
      rw [get_set hS]
      by_cases e : clientKey chain kClientState = clientKey c kClientState
      · have ec := (clientKey_inj hc hcs e).1
        subst ec
        obtain ⟨cv, hg, ht⟩ := bind_clientTy_some hty
        simp only [if_true, Option.bind]
        rw [← hsame cv hg]; exact ht
      · simp only [e, if_false]; exact hty
    intro kv hkv
    rcases mem_set_sub hkv with e | hm
    · subst e
      simp only
      rw [xKeyOk_clientKey hc]; simp [hb]
    · have hok := hK kv hm
      obtain ⟨k, v⟩ := kv
      simp only at hok ⊢
      cases hsp : splitClientKey k with
      | none => simpa only [xKeyOk, hsp] using hok
      | some cp =>
        obtain ⟨c, p⟩ := cp
        obtain ⟨hk, hcs, _⟩ := splitClientKey_some hsp
        subst hk
        rw [xKeyOk_clientKey hcs] at hok ⊢
        by_cases e1 : p = kClientState
        · simpa [e1] using hok
        · by_cases e2 : (consHeight? p).isSome = true
          · simpa [e1, e2] using hok
          · simp only [e1, if_false, e2] at hok ⊢
            cases hbd : (get s (clientKey c kClientState)).bind clientTy with
            | none => rw [hbd] at hok; simp at hok
            | some ty => rw [hbd] at hok; rw [key c hcs ty hbd]; exact hok

theorem get_filter_key (s : Store) (g : Bytes → Bool) (k : Bytes) :
    get (s.filter (fun kv => g kv.1)) k = if g k = true then get s k else none := by
  induction s with
  | nil => simp [GKv.get]
  | cons a r ih =>
    obtain ⟨k0, v0⟩ := a
    by_cases hg : g k0 = true
    · simp only [List.filter, hg, GKv.get, ih]
      by_cases e : k0 = k
      · subst e; simp [hg]
      · simp [e]
    · have hg' : g k0 = false := by simpa using hg
      simp only [List.filter, hg', GKv.get, ih]
      by_cases e : k0 = k
      · subst e; simp [hg']
      · simp [e]

theorem clientPrefix_prefix_iff {chain c p : Bytes} (hc : slash ∉ chain) (hcs : slash ∉ c)
    (h : (clientPrefix chain).isPrefixOf (clientKey c p) = true) : c = chain := by
  obtain ⟨r, hr⟩ := (isPrefixOf_iff _ _).mp h
  have : clientKey c p = clientKey chain r := hr
  exact (clientKey_inj hcs hc this).1

/-- `clearClientStore` keeps ModuleKeys and leaves nothing under the chain -/
theorem moduleKeys_clearClient {s : Store} (h : ModuleKeys s) {chain : Bytes} (hc : slash ∉ chain) :
    ModuleKeys (clearClient s chain) ∧ get (clearClient s chain) (clientKey chain kClientState) = none := by
  obtain ⟨hS, hC, hK⟩ := (moduleKeys_iff s).mp h
  have hget : ∀ k, get (clearClient s chain) k = if (!(clientPrefix chain).isPrefixOf k) = true then get s k else none :=
    fun k => get_filter_key s (fun k => !(clientPrefix chain).isPrefixOf k) k
  refine ⟨(moduleKeys_iff _).mpr ⟨List.Pairwise.filter _ hS, ?_, ?_⟩, ?_⟩
  · rw [hget]
    have : (clientPrefix chain).isPrefixOf kChainName = false := by
      cases hq : (clientPrefix chain).isPrefixOf kChainName with
      | false => rfl
      | true =>
        have : kClientsSlash.isPrefixOf kChainName = true :=
          isPrefixOf_trans (by unfold clientPrefix; rw [List.append_assoc]; exact isPrefixOf_append _ _) hq
        exact absurd this (by decide)
    simp [this, hC]
  · intro kv hkv
    obtain ⟨hm, hg⟩ := List.mem_filter.mp hkv
    have hok := hK kv hm
    obtain ⟨k, v⟩ := kv
    simp only at hok hg ⊢
    cases hsp : splitClientKey k with
    | none => simpa only [xKeyOk, hsp] using hok
    | some cp =>
      obtain ⟨c, p⟩ := cp
      obtain ⟨hk, hcs, _⟩ := splitClientKey_some hsp
      have hne : c ≠ chain := by
        intro e; subst e
        rw [hk] at hg
        have : (clientPrefix c).isPrefixOf (clientKey c p) = true := isPrefixOf_append _ _
        simp [this] at hg
      have : get (clearClient s chain) (clientKey c kClientState) = get s (clientKey c kClientState) := by
        rw [hget]
        have : (clientPrefix chain).isPrefixOf (clientKey c kClientState) = false := by
          cases hq : (clientPrefix chain).isPrefixOf (clientKey c kClientState) with
          | false => rfl
          | true => exact absurd (clientPrefix_prefix_iff hc hcs hq) hne
        simp [this]
      simpa only [xKeyOk, hsp, this] using hok
  · rw [hget]
    have : (clientPrefix chain).isPrefixOf (clientKey chain kClientState) = true := isPrefixOf_append _ _
    simp [this]

theorem tyOfChain_setClientState {s : Store} (hS : Sorted s) (chain blob : Bytes) :
    tyOfChain (setClientState s chain blob) chain = clientTy blob := by
  unfold tyOfChain setClientState; rw [get_set hS]; simp

theorem sorted_of_moduleKeys {s : Store} (h : ModuleKeys s) : Sorted s := ((moduleKeys_iff s).mp h).1

theorem createGuard_spec {chain cb sb : Bytes} {m : InitMeta} (h : createGuard chain cb sb m = true) :
    slash ∉ chain ∧ ∃ ty, clientTy cb = some ty ∧ m.tyOk ty = true ∧ (ty = .tss ∨ (consTy sb).isSome = true) := by
  unfold createGuard at h
  simp only [Bool.and_eq_true] at h
  obtain ⟨h1, h2⟩ := h
  refine ⟨noSlash_iff.mp h1, ?_⟩
  split at h2
  · next ty hty =>
    simp only [Bool.and_eq_true, Bool.or_eq_true, beq_iff_eq] at h2
    exact ⟨ty, hty, h2.1, h2.2⟩
  · simp at h2

/-- `CreateClient` on a chain without client state (and the second half of the repaired `ToggleClient`) keeps ModuleKeys -/
theorem moduleKeys_createClient {s : Store} (h : ModuleKeys s) {chain cb sb : Bytes} (hgt : Height) {m : InitMeta}
    (hg : createGuard chain cb sb m = true) (hnone : get s (clientKey chain kClientState) = none) :
    ModuleKeys (createClient s chain cb sb hgt m) := by
  obtain ⟨hc, ty, hty, hok, hcons⟩ := createGuard_spec hg
  have h1 : ModuleKeys (setClientState s chain cb) :=
    moduleKeys_setClientState h hc (by rw [hty]; rfl) (fun cv hcv => by rw [hnone] at hcv; simp at hcv)
  have hS1 := sorted_of_moduleKeys h1
  have t1 : tyOfChain (setClientState s chain cb) chain = some ty := by rw [tyOfChain_setClientState (sorted_of_moduleKeys h), hty]
  have g1 : get (setClientState s chain cb) (clientKey chain kClientState) = some cb := by
    unfold setClientState; rw [get_set (sorted_of_moduleKeys h)]; simp
  unfold createClient
  cases m with
  | tm now =>
    cases ty <;> simp [InitMeta.tyOk] at hok
    have hcs : (consTy sb).isSome = true := by rcases hcons with e | e; exact absurd e (by decide); exact e
    exact moduleKeys_setConsensusState (moduleKeys_tmSetMeta h1 hgt now hc g1 hty) hgt hc hcs
  | bsc signer pending =>
    cases ty <;> simp [InitMeta.tyOk] at hok
    have hcs : (consTy sb).isSome = true := by rcases hcons with e | e; exact absurd e (by decide); exact e
    have h2 := moduleKeys_bscSetSigner h1 hgt signer hc t1
    have t2 : tyOfChain (bscSetSigner (setClientState s chain cb) chain hgt signer) chain = some .bsc := by
      unfold bscSetSigner
      rw [tyOfChain_set_other hS1 (fun e => (signerPath_facts hgt).2.1 (clientKey_inj hc hc e).2)]; exact t1
    exact moduleKeys_setConsensusState (moduleKeys_bscSetPending h2 pending hc t2) hgt hc hcs
  | eth hash root idx =>
    cases ty <;> simp [InitMeta.tyOk] at hok
    have hcs : (consTy sb).isSome = true := by rcases hcons with e | e; exact absurd e (by decide); exact e
    have h2 := moduleKeys_ethSetIndex h1 hash hgt.2 idx hc t1
    have t2 : tyOfChain (ethSetIndex (setClientState s chain cb) chain hash hgt.2 idx) chain = some .eth := by
      unfold ethSetIndex
      rw [tyOfChain_set_other hS1 (fun e => (ethPath_facts kEthIndex hash hgt.2 (Or.inl rfl)).2.1 (clientKey_inj hc hc e).2)]; exact t1
    exact moduleKeys_setConsensusState (moduleKeys_ethSetRoot h2 root hgt.2 hash hc t2) hgt hc hcs
  | tss => exact h1

/-! ## UpgradeClient -/

/-- deleting every entry whose key fails a test that spares the chain name and all client states keeps ModuleKeys -/
theorem moduleKeys_filter {s : Store} (h : ModuleKeys s) (g : Bytes → Bool) (hcn : g kChainName = true)
    (hcs : ∀ c, slash ∉ c → g (clientKey c kClientState) = true) : ModuleKeys (s.filter (fun kv => g kv.1)) := by
  obtain ⟨hS, hC, hK⟩ := (moduleKeys_iff s).mp h
  refine (moduleKeys_iff _).mpr ⟨List.Pairwise.filter _ hS, ?_, ?_⟩
  · rw [get_filter_key]; simp [hcn, hC]
  · intro kv hkv
    obtain ⟨hm, _⟩ := List.mem_filter.mp hkv
    have hok := hK kv hm
    obtain ⟨k, v⟩ := kv
    simp only at hok ⊢
    cases hsp : splitClientKey k with
    | none => simpa only [xKeyOk, hsp] using hok
    | some cp =>
      obtain ⟨c, p⟩ := cp
      obtain ⟨_, hcn', _⟩ := splitClientKey_some hsp
      have : get (s.filter (fun kv => g kv.1)) (clientKey c kClientState) = get s (clientKey c kClientState) := by
        rw [get_filter_key]; simp [hcs c hcn']
      simpa only [xKeyOk, hsp, this] using hok

theorem signersTest_spares (chain : Bytes) (hc : slash ∉ chain) :
    (!(clientKey chain kRecent).isPrefixOf kChainName) = true ∧
    ∀ c, slash ∉ c → (!(clientKey chain kRecent).isPrefixOf (clientKey c kClientState)) = true := by
  have hpre : (clientPrefix chain).isPrefixOf (clientKey chain kRecent) = true := isPrefixOf_append _ _
  constructor
  · cases hq : (clientKey chain kRecent).isPrefixOf kChainName with
    | false => rfl
    | true =>
      have h1 : kClientsSlash.isPrefixOf (clientKey chain kRecent) = true := by
        unfold clientKey clientPrefix; rw [List.append_assoc, List.append_assoc]; exact isPrefixOf_append _ _
      exact absurd (isPrefixOf_trans h1 hq) (by decide)
  · intro c hcs
    cases hq : (clientKey chain kRecent).isPrefixOf (clientKey c kClientState) with
    | false => rfl
    | true =>
      have ec := clientPrefix_prefix_iff hc hcs (isPrefixOf_trans hpre hq)
      subst ec
      obtain ⟨r, hr⟩ := (isPrefixOf_iff _ _).mp hq
      have e2 : clientKey c kClientState = clientKey c (kRecent ++ r) := by
        rw [hr]; simp [clientKey]
      have := (clientKey_inj hc hc e2).2
      have hp : kRecent.isPrefixOf kClientState = true := by rw [this]; exact isPrefixOf_append _ _
      exact absurd hp (by decide)

theorem moduleKeys_bscClearSigners {s : Store} (h : ModuleKeys s) {chain : Bytes} (hc : slash ∉ chain) :
    ModuleKeys (bscClearSigners s chain) ∧ ∀ c, slash ∉ c → tyOfChain (bscClearSigners s chain) c = tyOfChain s c := by
  obtain ⟨h1, h2⟩ := signersTest_spares chain hc
  refine ⟨moduleKeys_filter h (fun k => !(clientKey chain kRecent).isPrefixOf k) h1 h2, ?_⟩
  intro c hcs
  unfold tyOfChain bscClearSigners
  rw [get_filter_key s (fun k => !(clientKey chain kRecent).isPrefixOf k)]
  simp [h2 c hcs]

theorem moduleKeys_setClientState_ty {s : Store} (h : ModuleKeys s) {chain blob : Bytes} (hc : slash ∉ chain)
    (hb : (clientTy blob).isSome = true) (ht : tyOfChain s chain = clientTy blob) :
    ModuleKeys (setClientState s chain blob) := by
  refine moduleKeys_setClientState h hc hb ?_
  intro cv hcv
  unfold tyOfChain at ht
  rw [hcv] at ht
  simpa using ht

/-- `UpgradeClient` (same client type) keeps ModuleKeys; for a TSS client it writes the client state only -/
theorem moduleKeys_upgradeClient {s : Store} (h : ModuleKeys s) {chain cb sb : Bytes} (hgt : Height) {m : InitMeta}
    (hg : createGuard chain cb sb m = true) (hsame : tyOfChain s chain = clientTy cb) :
    ModuleKeys (upgradeClient s chain cb sb hgt m) := by
  obtain ⟨hc, ty, hty, hok, hcons⟩ := createGuard_spec hg
  have hb : (clientTy cb).isSome = true := by rw [hty]; rfl
  have hS := sorted_of_moduleKeys h
  rw [hty] at hsame
  unfold upgradeClient
  cases m with
  | tm now =>
    cases ty <;> simp [InitMeta.tyOk] at hok
    have hcs : (consTy sb).isSome = true := by rcases hcons with e | e; exact absurd e (by decide); exact e
    obtain ⟨cv, hcv, hcty⟩ := bind_clientTy_some hsame
    have h1 := moduleKeys_tmSetMeta h hgt now hc hcv hcty
    have l1 : (ptimePath hgt).length = 46 := by simp [ptimePath, consPath, be64_length]; decide
    have n1 : ptimePath hgt ≠ kClientState := by intro e; rw [e] at l1; exact absurd l1 (by decide)
    have n2 : iterPath hgt ≠ kClientState :=
      (path_ne_special (p := iterPath hgt) kIterate (isPrefixOf_append _ _) (by decide) (by decide) (by decide) (by decide)).1
    have t1 : tyOfChain (tmSetMeta s chain hgt now) chain = clientTy cb := by
      unfold tmSetMeta
      rw [tyOfChain_set_other (sorted_set hS _ _) (fun e => n2 (clientKey_inj hc hc e).2),
        tyOfChain_set_other hS (fun e => n1 (clientKey_inj hc hc e).2), hty]; exact hsame
    exact moduleKeys_setConsensusState (moduleKeys_setClientState_ty h1 hc hb t1) hgt hc hcs
  | bsc signer pending =>
    cases ty <;> simp [InitMeta.tyOk] at hok
    have hcs : (consTy sb).isSome = true := by rcases hcons with e | e; exact absurd e (by decide); exact e
    obtain ⟨h0, t0⟩ := moduleKeys_bscClearSigners h hc
    have t0' : tyOfChain (bscClearSigners s chain) chain = some .bsc := by rw [t0 chain hc]; exact hsame
    have h1 := moduleKeys_bscSetSigner h0 hgt signer hc t0'
    have t1 : tyOfChain (bscSetSigner (bscClearSigners s chain) chain hgt signer) chain = some .bsc := by
      unfold bscSetSigner
      rw [tyOfChain_set_other (sorted_of_moduleKeys h0) (fun e => (signerPath_facts hgt).2.1 (clientKey_inj hc hc e).2)]; exact t0'
    have h2 := moduleKeys_bscSetPending h1 pending hc t1
    have t2 : tyOfChain (bscSetPending (bscSetSigner (bscClearSigners s chain) chain hgt signer) chain pending) chain = clientTy cb := by
      unfold bscSetPending
      rw [tyOfChain_set_other (sorted_of_moduleKeys h1) (fun e => pending_facts.2.1 (clientKey_inj hc hc e).2), hty]; exact t1
    exact moduleKeys_setConsensusState (moduleKeys_setClientState_ty h2 hc hb t2) hgt hc hcs
  | eth hash root idx =>
    cases ty <;> simp [InitMeta.tyOk] at hok
    have hcs : (consTy sb).isSome = true := by rcases hcons with e | e; exact absurd e (by decide); exact e
    have h1 := moduleKeys_ethSetIndex h hash hgt.2 idx hc hsame
    have t1 : tyOfChain (ethSetIndex s chain hash hgt.2 idx) chain = some .eth := by
      unfold ethSetIndex
      rw [tyOfChain_set_other hS (fun e => (ethPath_facts kEthIndex hash hgt.2 (Or.inl rfl)).2.1 (clientKey_inj hc hc e).2)]; exact hsame
    have h2 := moduleKeys_ethSetRoot h1 root hgt.2 hash hc t1
    have t2 : tyOfChain (ethSetRoot (ethSetIndex s chain hash hgt.2 idx) chain root hgt.2 hash) chain = clientTy cb := by
      unfold ethSetRoot
      rw [tyOfChain_set_other (sorted_of_moduleKeys h1) (fun e => (ethPath_facts kEthRoot root hgt.2 (Or.inr rfl)).2.1 (clientKey_inj hc hc e).2), hty]; exact t1
    exact moduleKeys_setConsensusState (moduleKeys_setClientState_ty h2 hc hb t2) hgt hc hcs
  | tss =>
    exact moduleKeys_setClientState_ty h hc hb (by rw [hty]; exact hsame)

/-- /repo 6c33891: for a TSS client neither create, nor toggle, nor upgrade writes a consensus state — whatever consensus state
the proposal carries, the only entry written is the client state (so no consensus state at the zero height can appear) -/
theorem tss_writes_client_state_only (s : Store) (chain cb sb : Bytes) (h : Height) :
    createClient s chain cb sb h .tss = setClientState s chain cb ∧
    upgradeClient s chain cb sb h .tss = setClientState s chain cb ∧
    createClient (clearClient s chain) chain cb sb h .tss = setClientState (clearClient s chain) chain cb :=
  ⟨rfl, rfl, rfl⟩

/-! ## reachability -/

/-- every modelled keeper operation keeps ModuleKeys -/
theorem applyOp_moduleKeys {s : Store} (h : ModuleKeys s) (op : KOp) : ModuleKeys (applyOp s op) := by
  cases op with
  | chainName n => exact moduleKeys_setChainName h n
  | relayer blob => exact moduleKeys_registerRelayer h blob
  | create chain cb sb hgt m =>
    simp only [applyOp]
    split
    · next hg =>
      simp only [Bool.and_eq_true, Option.isNone_iff_eq_none] at hg
      exact moduleKeys_createClient h hgt hg.1 hg.2
    · exact h
  | toggle chain cb sb hgt m =>
    simp only [applyOp]
    split
    · next hg =>
      simp only [Bool.and_eq_true] at hg
      obtain ⟨h0, hn⟩ := moduleKeys_clearClient h (createGuard_spec hg.1).1
      exact moduleKeys_createClient h0 hgt hg.1 hn
    · exact h
  | upgrade chain cb sb hgt m =>
    simp only [applyOp]
    split
    · next hg =>
      simp only [Bool.and_eq_true, beq_iff_eq] at hg
      exact moduleKeys_upgradeClient h hgt hg.1 hg.2
    · exact h
  | clientSameType chain blob =>
    simp only [applyOp]
    split
    · next hg =>
      simp only [Bool.and_eq_true, beq_iff_eq] at hg
      obtain ⟨⟨h1, h2⟩, h3⟩ := hg
      refine moduleKeys_setClientState h (noSlash_iff.mp h1) h2 ?_
      intro cv hcv
      unfold tyOfChain at h3
      rw [hcv] at h3
      simpa using h3
    · exact h
  | cons chain hgt blob =>
    simp only [applyOp]
    split
    · next hg =>
      simp only [Bool.and_eq_true] at hg
      exact moduleKeys_setConsensusState h hgt (noSlash_iff.mp hg.1) hg.2
    · exact h
  | tmMeta chain hgt t =>
    simp only [applyOp]
    split
    · next hg =>
      simp only [Bool.and_eq_true, beq_iff_eq] at hg
      obtain ⟨cv, hcv, hty⟩ := bind_clientTy_some hg.2
      exact moduleKeys_tmSetMeta h hgt t (noSlash_iff.mp hg.1) hcv hty
    · exact h
  | tmPrune chain hgt =>
    simp only [applyOp]
    split
    · next hg => exact moduleKeys_tmPrune h hgt (noSlash_iff.mp hg)
    · exact h
  | bscSigner chain hgt v =>
    simp only [applyOp]
    split
    · next hg =>
      simp only [Bool.and_eq_true, beq_iff_eq] at hg
      exact moduleKeys_bscSetSigner h hgt v (noSlash_iff.mp hg.1) hg.2
    · exact h
  | bscDelSigner chain hgt =>
    simp only [applyOp]
    split
    · next hg => exact moduleKeys_bscDelSigner h hgt (noSlash_iff.mp hg)
    · exact h
  | bscPending chain blob =>
    simp only [applyOp]
    split
    · next hg =>
      simp only [Bool.and_eq_true, beq_iff_eq] at hg
      exact moduleKeys_bscSetPending h blob (noSlash_iff.mp hg.1) hg.2
    · exact h
  | ethIndex chain hash n blob =>
    simp only [applyOp]
    split
    · next hg =>
      simp only [Bool.and_eq_true, beq_iff_eq] at hg
      exact moduleKeys_ethSetIndex h hash n blob (noSlash_iff.mp hg.1) hg.2
    · exact h
  | ethRoot chain root n hash =>
    simp only [applyOp]
    split
    · next hg =>
      simp only [Bool.and_eq_true, beq_iff_eq] at hg
      exact moduleKeys_ethSetRoot h root n hash (noSlash_iff.mp hg.1) hg.2
    · exact h
  | commit src dst q d =>
    simp only [applyOp]
    split
    · next hg =>
      simp only [Bool.and_eq_true] at hg
      exact (moduleKeys_packet h q d (noSlash_iff.mp hg.1) (noSlash_iff.mp hg.2)).1
    · exact h
  | delCommit src dst q =>
    simp only [applyOp]
    split
    · exact moduleKeys_delCommitment h src dst q
    · exact h
  | ack src dst q d =>
    simp only [applyOp]
    split
    · next hg =>
      simp only [Bool.and_eq_true] at hg
      exact (moduleKeys_packet h q d (noSlash_iff.mp hg.1) (noSlash_iff.mp hg.2)).2.1
    · exact h
  | receipt src dst q =>
    simp only [applyOp]
    split
    · next hg =>
      simp only [Bool.and_eq_true] at hg
      exact (moduleKeys_packet h q [] (noSlash_iff.mp hg.1) (noSlash_iff.mp hg.2)).2.2
    · exact h
  | nextSeq src dst q =>
    simp only [applyOp]
    split
    · next hg =>
      simp only [Bool.and_eq_true] at hg
      exact moduleKeys_setNextSeq h q (noSlash_iff.mp hg.1) (noSlash_iff.mp hg.2)
    · exact h

theorem moduleKeys_fresh (n : Bytes) : ModuleKeys (freshStore n) := by
  refine (moduleKeys_iff _).mpr ⟨?_, ?_, ?_⟩
  · exact sorted_set sorted_nil _ _
  · simp [freshStore, setChainName, GKv.set, GKv.get]
  · intro kv hkv
    simp [freshStore, setChainName, GKv.set] at hkv
    subst hkv
    simp [xKeyOk]

/-- **every state reachable from a fresh chain by keeper operations satisfies ModuleKeys** -/
theorem reachable_moduleKeys (n : Bytes) (ops : List KOp) : ModuleKeys (ops.foldl applyOp (freshStore n)) := by
  have : ∀ (ops : List KOp) (s : Store), ModuleKeys s → ModuleKeys (ops.foldl applyOp s) := by
    intro ops
    induction ops with
    | nil => intro s h; exact h
    | cons op r ih => intro s h; exact ih _ (applyOp_moduleKeys h op)
  exact this ops _ (moduleKeys_fresh n)

/-- **the genesis round trip holds on every reachable state — no free hypothesis** -/
theorem reachable_roundtrip (n : Bytes) (ops : List KOp) :
    initXibc (exportXibc (ops.foldl applyOp (freshStore n))) = ops.foldl applyOp (freshStore n) :=
  roundtrip (reachable_moduleKeys n ops)

theorem reachable_export_idempotent (n : Bytes) (ops : List KOp) :
    exportXibc (initXibc (exportXibc (ops.foldl applyOp (freshStore n)))) = exportXibc (ops.foldl applyOp (freshStore n)) :=
  export_idempotent (reachable_moduleKeys n ops)

/-! ## the export lists ALL entries of every collection — for collections of any size -/

theorem length_filterMap_of_all_some {α β : Type} (f : α → Option β) (l : List α) (h : ∀ x ∈ l, (f x).isSome = true) :
    (l.filterMap f).length = l.length := by
  induction l with
  | nil => rfl
  | cons a r ih =>
    have ha := h a (List.mem_cons_self ..)
    cases hf : f a with
    | none => rw [hf] at ha; simp at ha
    | some b =>
      simp only [List.filterMap_cons, hf, List.length_cons]
      rw [ih (fun x hx => h x (List.mem_cons_of_mem _ hx))]

theorem length_iterateHashes {s : Store} (h : ModuleKeys s) {pfx : Bytes}
    (hpfx : pfx = kAcks ∨ pfx = kCommitments ∨ pfx = kReceipts) :
    (iterateHashes s pfx).length = (iter s pfx).length := by
  obtain ⟨_, _, hK⟩ := (moduleKeys_iff s).mp h
  unfold iterateHashes
  apply length_filterMap_of_all_some
  intro kv hkv
  obtain ⟨hm, hp⟩ := (mem_iter s pfx kv).mp hkv
  obtain ⟨hok, _⟩ := hashKey_of_prefix (hK kv hm) hp hpfx
  obtain ⟨a, b, n, hs, hd⟩ := hashKeyOk_spec hok
  rw [parseHashKey_of_split hs hd]; rfl

theorem length_iterateSeqs_of_all (l : Store) (h : ∀ kv ∈ l, (parsePath kv.1).isSome = true) :
    (iterateSeqs l).length = l.length := by
  induction l with
  | nil => rfl
  | cons kv r ih =>
    have h0 := h kv (List.mem_cons_self ..)
    simp only [iterateSeqs]
    split
    · simp only [List.length_cons]
      rw [ih (fun x hx => h x (List.mem_cons_of_mem _ hx))]
    · next hn => rw [hn] at h0; simp at h0

/-- **`export_complete`**: the exported genesis lists EVERY entry of every collection, whatever its size — as many
acknowledgements / commitments / receipts / send sequences / relayers / token pairs / parameters as the store holds under the
respective prefix (no page size, no limit), every client state (`mem_exportClients`), and — `sub_writes` — every single store entry
is reproduced by the writes of InitGenesis applied to the export -/
theorem export_complete {s : Store} (h : ModuleKeys s) :
    (exportXibc s).packet.acks.length = (iter s kAcks).length ∧
    (exportXibc s).packet.commits.length = (iter s kCommitments).length ∧
    (exportXibc s).packet.receipts.length = (iter s kReceipts).length ∧
    (exportXibc s).packet.seqs.length = (iter s kNextSeq).length ∧
    (exportXibc s).client.relayers.length = (iter s kRelayers).length ∧
    (∀ chain cv, (clientKey chain kClientState, cv) ∈ s → slash ∉ chain → (chain, cv) ∈ (exportXibc s).client.clients) ∧
    (∀ kv, kv ∈ s → kv ∈ xibcWrites (exportXibc s)) := by
  obtain ⟨_, _, hK⟩ := (moduleKeys_iff s).mp h
  refine ⟨length_iterateHashes h (Or.inl rfl), length_iterateHashes h (Or.inr (Or.inl rfl)),
    length_iterateHashes h (Or.inr (Or.inr rfl)), ?_, ?_, ?_, sub_writes h⟩
  · apply length_iterateSeqs_of_all
    intro kv hkv
    obtain ⟨hm, hp⟩ := (mem_iter s kNextSeq kv).mp hkv
    obtain ⟨a, b, hs⟩ := seqKeyOk_spec (seqKey_of_prefix (hK kv hm) hp).1
    rw [parsePath_of_split hs]; rfl
  · simp [exportXibc, exportClientGen, exportRelayers]
  · intro chain cv hm hn
    exact mem_exportClients.mpr ⟨hm, hn⟩

/-- the aggregate export lists every stored pair and the parameter export every parameter entry (unconditionally) -/
theorem export_complete_aggregate (st : AggState) :
    (exportAggregate st).pairs.length = (iter st.a [1]).length ∧ (exportAggregate st).params = st.p := by
  simp [exportAggregate, exportAgg, exportParams]

/-! ## `export_idempotent` does need `ModuleKeys` -/

/-- two relayer entries stored under keys that are not their own address (both values carry the empty address): the export
lists two relayers, the import writes both under `relayers`, the second export lists one -/
def badRelayers : Store := [(kRelayers ++ [0x58], []), (kRelayers ++ [0x59], [])]

/-- a receipt whose value is not the byte 1: InitGenesis always writes 1, so the second export carries other data -/
def badReceipt : Store := [(packetKey kReceipts [0x61, 0x62, 0x63] [0x78, 0x79, 0x7a] 5, [7])]

set_option maxRecDepth 100000 in
theorem export_idempotent_fails_without_moduleKeys :
    (Sorted badRelayers ∧ exportXibc (initXibc (exportXibc badRelayers)) ≠ exportXibc badRelayers) ∧
    (Sorted badReceipt ∧ exportXibc (initXibc (exportXibc badReceipt)) ≠ exportXibc badReceipt) := by
  refine ⟨⟨(sortedB_iff _).mp (by decide), by decide⟩, ⟨(sortedB_iff _).mp (by decide), by decide⟩⟩

end TM.Genesis
