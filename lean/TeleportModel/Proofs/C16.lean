import TeleportModel.Model.Ics20
/-
C16 — the aggregate ICS-20 middleware is transparent: acknowledgements survive, conversion is atomic.

All theorems are about `TM.Ics20.onRecv` (x/aggregate/ibc_middleware.go + keeper/ibc_hook.go + ConvertCoin) for
ALL packets, decoder answers (`view`), wrapped applications (`inner`), EVMs (`E`) and chain states.
`fixed = true` is the repaired hook (fixes/C16-hook-returns-ack.diff); `fixed = false` the code as found (F7).
-/
namespace TM.Ics20
open TM

variable {σ P : Type}

/-! ### assumptions about the parameters (named, never axioms) -/

/-- Guard established by the wrapped ICS-20 application: it acknowledges success only for packets whose amount
    is not negative (`FungibleTokenPacketData.ValidateBasic`: strictly positive). Checked on the real transfer
    module by the harness for every generated packet (oracle signature `C16:inner-guard-assumption`). -/
def InnerGuards (view : P → View) (inner : Inner σ P) : Prop :=
  ∀ st pkt a, (inner.ack st pkt).success = true → (view pkt).amount = some a → 0 ≤ a

/-- The pair's contract answers `balanceOf` (for the receiver `a`; in the `transfer` flow also for the module account
    `m`, read right after the receiver's, before and after the call) whenever its `mint` / `transfer` succeeds
    (otherwise Go's big.Int arithmetic on a nil balance panics inside `convertCoinNative*`). -/
def EvmSane (E : Evm σ) : Prop :=
  (∀ s c a amt s2, E.mint (E.balanceOf s c a).1 c a amt = some s2 →
      (E.balanceOf s c a).2 ≠ none ∧ (E.balanceOf s2 c a).2 ≠ none) ∧
  (∀ s c a m amt s2 ap,
      E.transfer (E.balanceOf (E.balanceOf s c a).1 c m).1 c a amt = some (s2, some true, ap) →
      (E.balanceOf s c a).2 ≠ none ∧ (E.balanceOf (E.balanceOf s c a).1 c m).2 ≠ none ∧
      (E.balanceOf s2 c a).2 ≠ none ∧ (E.balanceOf (E.balanceOf s2 c a).1 c m).2 ≠ none)

/-! ### the hook returns what it was given -/

theorem hook_returns_ack (E : Evm σ) (v : View) (st : State σ) (ack : Ack) (r : Res σ)
    (h : hook true E v st ack = .ok r) : r.ack = some ack := by
  unfold hook hookG at h
  simp only [if_true] at h
  repeat' split at h
  all_goals first
    | (injection h with h; subst h; rfl)
    | (cases h)

/-- The code as found: whenever the hook returns, it returns Go `nil`. -/
theorem unrepaired_hook_returns_nil (E : Evm σ) (v : View) (st : State σ) (ack : Ack) (r : Res σ)
    (h : hook false E v st ack = .ok r) : r.ack = none := by
  unfold hook hookG at h
  simp only [Bool.false_eq_true, if_false] at h
  repeat' split at h
  all_goals first
    | (injection h with h; subst h; rfl)
    | (cases h)

/-- replace the returned value, keep state / event / panic -/
def withAck (a : Option Ack) : Outcome (Res σ) → Outcome (Res σ)
  | .ok r => .ok { r with ack := a }
  | .err e => .err e
  | .panic s => .panic s

/-- The repair changes nothing but the returned value: state, event and panics are those of the code as found. -/
theorem repair_changes_only_ack (E : Evm σ) (v : View) (st : State σ) (ack : Ack) :
    hook true E v st ack = withAck (some ack) (hook false E v st ack) := by
  unfold hook hookG
  simp only [if_true, Bool.false_eq_true, if_false]
  split
  · rfl
  · split
    · rfl
    · split
      · rfl
      · split
        · rfl
        · split
          · rfl
          · split <;> rfl

/-! ### transparency -/

/-- Partial correctness, no assumptions: whatever `IBCMiddleware.OnRecvPacket` returns IS the wrapped
    application's acknowledgement. -/
theorem middleware_returns_inner_ack_of_ok (E : Evm σ) (view : P → View) (inner : Inner σ P) (st : State σ) (pkt : P)
    (r : Res σ) (h : onRecv true E view inner st pkt = .ok r) : r.ack = some (inner.ack st pkt) := by
  unfold onRecv at h
  simp only at h
  split at h
  · injection h with h; subst h; rfl
  · exact hook_returns_ack _ _ _ _ _ h

theorem balanceGrewBy_ne_none {b0 b1 : Option Nat} {amt : Int} (h0 : b0 ≠ none) (h1 : b1 ≠ none) :
    balanceGrewBy b0 b1 amt ≠ none := by
  cases b0 with
  | none => exact absurd rfl h0
  | some x =>
    cases b1 with
    | none => exact absurd rfl h1
    | some y => simp [balanceGrewBy]

theorem convertNativeCoin_no_panic (E : Evm σ) (hE : EvmSane E) (st : State σ) (p : Pair) (s rc : Addr) (d : Denom)
    (amt : Int) (site : String) : convertNativeCoin E st p s rc d amt ≠ .panic site := by
  unfold convertNativeCoin
  simp only
  cases escrow st s d amt with
  | none => simp
  | some bank1 =>
    simp only
    cases hm : E.mint (E.balanceOf st.evm p.contract rc).1 p.contract rc amt with
    | none => simp
    | some e2 =>
      simp only
      have hs := hE.1 _ _ _ _ _ hm
      have hg := balanceGrewBy_ne_none (amt := amt) hs.1 hs.2
      cases hb : balanceGrewBy (E.balanceOf st.evm p.contract rc).2 (E.balanceOf e2 p.contract rc).2 amt with
      | none => exact absurd hb hg
      | some b => cases b <;> simp

theorem balanceFellBy_ne_none {b0 b1 : Option Nat} {amt : Int} (h0 : b0 ≠ none) (h1 : b1 ≠ none) :
    balanceFellBy b0 b1 amt ≠ none := by
  cases b0 with
  | none => exact absurd rfl h0
  | some x =>
    cases b1 with
    | none => exact absurd rfl h1
    | some y => simp [balanceFellBy]

theorem convertNativeERC20_no_panic (E : Evm σ) (hE : EvmSane E) (st : State σ) (p : Pair) (s rc : Addr) (d : Denom)
    (amt : Int) (site : String) : convertNativeERC20 E st p s rc d amt ≠ .panic site := by
  unfold convertNativeERC20
  simp only
  cases escrow st s d amt with
  | none => simp
  | some bank1 =>
    simp only
    cases hm : E.transfer (E.balanceOf (E.balanceOf st.evm p.contract rc).1 p.contract (evmAddr st.modAddr)).1 p.contract rc amt with
    | none => simp
    | some t =>
      obtain ⟨e2, ret, ap⟩ := t
      simp only
      cases ret with
      | none => simp
      | some rb =>
        cases rb with
        | false => simp
        | true =>
          simp only
          have hs := hE.2 _ _ _ _ _ _ _ hm
          have hg := balanceGrewBy_ne_none (amt := amt) hs.1 hs.2.2.1
          cases hb : balanceGrewBy (E.balanceOf st.evm p.contract rc).2 (E.balanceOf e2 p.contract rc).2 amt with
          | none => exact absurd hb hg
          | some b =>
            cases b with
            | false => simp
            | true =>
              simp only
              have hf := balanceFellBy_ne_none (amt := amt) hs.2.1 hs.2.2.2
              cases hq : balanceFellBy (E.balanceOf (E.balanceOf st.evm p.contract rc).1 p.contract (evmAddr st.modAddr)).2
                  (E.balanceOf (E.balanceOf e2 p.contract rc).1 p.contract (evmAddr st.modAddr)).2 amt with
              | none => exact absurd hq hf
              | some b =>
                cases b with
                | false => simp
                | true =>
                  simp only
                  split
                  · simp
                  · split <;> simp

/-- `ConvertCoin` never panics with a sane contract. -/
theorem convertCoin_no_panic (E : Evm σ) (hE : EvmSane E) (st : State σ) (s rc : Addr) (d : Denom) (amt : Int) (site : String) :
    convertCoin E st s rc d amt ≠ .panic site := by
  unfold convertCoin
  split
  · simp
  · split
    · simp
    · split
      · exact convertNativeCoin_no_panic E hE _ _ _ _ _ _ _
      · exact convertNativeERC20_no_panic E hE _ _ _ _ _ _ _
      · simp

/-- The hook (with or without the receiver-length guard) always returns for a non-negative amount and a sane contract. -/
theorem hookG_returns (guard fixed : Bool) (E : Evm σ) (hE : EvmSane E) (v : View) (st : State σ) (ack : Ack)
    (hpos : ∀ a, v.amount = some a → 0 ≤ a) : ∃ r, hookG guard fixed E v st ack = .ok r := by
  unfold hookG
  simp only
  split
  · exact ⟨_, rfl⟩
  · split
    · exact ⟨_, rfl⟩
    · rename_i amt ha
      split
      · exact ⟨_, rfl⟩
      · split
        · exact ⟨_, rfl⟩
        · have := hpos amt ha
          have : ¬ amt < 0 := by omega
          simp only [this, if_false]
          split
          · exact ⟨_, rfl⟩
          · exact ⟨_, rfl⟩
          · rename_i s hc
            exact absurd hc (convertCoin_no_panic E hE _ _ _ _ _ s)

/-- The middleware always returns (no panic, no error) under the guards. -/
theorem onRecv_returns (fixed : Bool) (E : Evm σ) (hE : EvmSane E) (view : P → View) (inner : Inner σ P)
    (hI : InnerGuards view inner) (st : State σ) (pkt : P) :
    ∃ r, onRecv fixed E view inner st pkt = .ok r := by
  unfold onRecv
  simp only
  split
  · exact ⟨_, rfl⟩
  · rename_i hs
    have hs' : (inner.ack st pkt).success = true := by simpa using hs
    exact hookG_returns true fixed E hE _ _ _ (fun a ha => hI st pkt a hs' ha)

/-- **onRecv_no_panic.** The middleware callback never panics — whatever the amount (any integer the transfer
    application accepts: 1 … 2^256−1, no width is special), receiver, denomination, registry and EVM state. A panic out of
    `IBCMiddleware.OnRecvPacket` is therefore never a behaviour of the modelled code for a packet the transfer
    application handles (the harness reports it as `C16:callback-panicked`). -/
theorem onRecv_no_panic (fixed : Bool) (E : Evm σ) (hE : EvmSane E) (view : P → View) (inner : Inner σ P)
    (hI : InnerGuards view inner) (st : State σ) (pkt : P) (site : String) :
    onRecv fixed E view inner st pkt ≠ .panic site := by
  obtain ⟨r, hr⟩ := onRecv_returns fixed E hE view inner hI st pkt
  rw [hr]; simp

/-- **onRecv_total.** … nor does it fail: it always returns a result carrying an acknowledgement and a state. -/
theorem onRecv_total (fixed : Bool) (E : Evm σ) (hE : EvmSane E) (view : P → View) (inner : Inner σ P)
    (hI : InnerGuards view inner) (st : State σ) (pkt : P) :
    (onRecv fixed E view inner st pkt).isOk = true ∧ (onRecv fixed E view inner st pkt).isPanic = false := by
  obtain ⟨r, hr⟩ := onRecv_returns fixed E hE view inner hI st pkt
  rw [hr]; exact ⟨rfl, rfl⟩

/-- **middleware_returns_inner_ack.** For every packet, decoder, registry / bank / EVM state:
    `IBCMiddleware.OnRecvPacket` returns, and returns exactly the wrapped application's acknowledgement. -/
theorem middleware_returns_inner_ack (E : Evm σ) (hE : EvmSane E) (view : P → View) (inner : Inner σ P)
    (hI : InnerGuards view inner) (st : State σ) (pkt : P) :
    ∃ r, onRecv true E view inner st pkt = .ok r ∧ r.ack = some (inner.ack st pkt) := by
  obtain ⟨r, hr⟩ := onRecv_returns true E hE view inner hI st pkt
  exact ⟨r, hr, middleware_returns_inner_ack_of_ok E view inner st pkt r hr⟩

/-- **success_is_acknowledged.** If the wrapped application succeeded, what IBC core commits for the packet is a
    non-nil successful acknowledgement — the wrapped application's — and the callback's state is written. -/
theorem success_is_acknowledged (E : Evm σ) (view : P → View) (inner : Inner σ P) (st : State σ) (pkt : P) (r : Res σ)
    (hs : (inner.ack st pkt).success = true) (h : onRecv true E view inner st pkt = .ok r) :
    coreCommit st r = (some (inner.ack st pkt), r.st) ∧
    ∃ a, (coreCommit st r).1 = some a ∧ a.success = true := by
  have hr := middleware_returns_inner_ack_of_ok E view inner st pkt r h
  unfold coreCommit
  rw [hr]
  simp [hs]

/-- **error_preserved.** If the wrapped application failed, the middleware does nothing else: it returns that
    error acknowledgement, core commits it and discards the callback's state changes. -/
theorem error_preserved (fixed : Bool) (E : Evm σ) (view : P → View) (inner : Inner σ P) (st : State σ) (pkt : P)
    (hs : (inner.ack st pkt).success = false) :
    onRecv fixed E view inner st pkt = .ok ⟨some (inner.ack st pkt), inner.effect st pkt, .none⟩ ∧
    coreCommit st ⟨some (inner.ack st pkt), inner.effect st pkt, .none⟩ = (some (inner.ack st pkt), st) := by
  unfold onRecv coreCommit
  simp [hs]

/-! ### the defect F7: the code as found is not transparent -/

/-- For EVERY packet the wrapped application accepts, the code as found returns nil, so IBC core writes no
    acknowledgement at all (and still writes the state). -/
theorem unrepaired_never_acknowledges (E : Evm σ) (view : P → View) (inner : Inner σ P) (st : State σ) (pkt : P) (r : Res σ)
    (hs : (inner.ack st pkt).success = true) (h : onRecv false E view inner st pkt = .ok r) :
    r.ack = none ∧ coreCommit st r = (none, r.st) := by
  unfold onRecv at h
  simp only [hs, Bool.not_true, Bool.false_eq_true, if_false] at h
  have := unrepaired_hook_returns_nil _ _ _ _ _ h
  simp [coreCommit, this]

/-! ### atomic conversion -/

/-- Nothing but what the wrapped application did: balances and EVM state are its. -/
def Untouched (sI s : State σ) : Prop := s.bal = sI.bal ∧ s.evm = sI.evm

/-- One complete conversion on top of the wrapped application's state `sI`. -/
def Converted (E : Evm σ) (v : View) (sI s : State σ) : Prop :=
  ∃ (amt : Int) (id : Nat) (p : Pair) (b0 b1 : Nat) (e2 e3 : σ),
    v.amount = some amt ∧ 0 < amt ∧
    sI.enabled = true ∧ sI.denomMap v.denom = some id ∧ sI.pairs id = some p ∧ p.enabled = true ∧
    sI.blocked (evmAddr (v.receiver.getD [])) = false ∧
    amt ≤ sI.bal (v.receiver.getD []) v.denom ∧
    (E.balanceOf sI.evm p.contract (evmAddr (v.receiver.getD []))).2 = some b0 ∧
    ((p.owner = .module ∧
        E.mint (E.balanceOf sI.evm p.contract (evmAddr (v.receiver.getD []))).1 p.contract (evmAddr (v.receiver.getD [])) amt = some e2 ∧
        s.evm = e3 ∧
        s.bal = sendCoins sI.bal (v.receiver.getD []) sI.modAddr v.denom amt)
     ∨ (p.owner = .external ∧
        -- the module's own token balance (its escrow of tokens) fell by exactly amt across the `transfer`
        ∃ (m0 m1 : Nat),
        (E.balanceOf (E.balanceOf sI.evm p.contract (evmAddr (v.receiver.getD []))).1 p.contract (evmAddr sI.modAddr)).2 = some m0 ∧
        E.transfer (E.balanceOf (E.balanceOf sI.evm p.contract (evmAddr (v.receiver.getD []))).1 p.contract (evmAddr sI.modAddr)).1
            p.contract (evmAddr (v.receiver.getD [])) amt = some (e2, some true, false) ∧
        E.balanceOf e3 p.contract (evmAddr sI.modAddr) = (s.evm, some m1) ∧ (m1 : Int) = (m0 : Int) - amt ∧
        s.bal = addBal (sendCoins sI.bal (v.receiver.getD []) sI.modAddr v.denom amt) sI.modAddr v.denom (-amt))) ∧
    E.balanceOf e2 p.contract (evmAddr (v.receiver.getD [])) = (e3, some b1) ∧
    (b1 : Int) = (b0 : Int) + amt ∧
    s.denomMap = sI.denomMap ∧ s.pairs = sI.pairs ∧ s.enabled = sI.enabled

theorem mintingEnabled_some {st : State σ} {s rc : Addr} {d : Denom} {id : Nat} {p : Pair}
    (h : mintingEnabled st s rc d = some (id, p)) :
    st.enabled = true ∧ st.denomMap d = some id ∧ st.pairs id = some p ∧ p.enabled = true ∧ st.blocked rc = false := by
  unfold mintingEnabled at h
  repeat' split at h
  all_goals first
    | (injection h with h; injection h with h1 h2; subst h1; subst h2; simp_all)
    | cases h

theorem escrow_some {st : State σ} {s : Addr} {d : Denom} {amt : Int} {b : Addr → Denom → Int}
    (h : escrow st s d amt = some b) : 0 < amt ∧ amt ≤ st.bal s d ∧ b = sendCoins st.bal s st.modAddr d amt := by
  unfold escrow at h
  repeat' split at h
  all_goals first
    | (injection h with h; subst h; refine ⟨by omega, by omega, rfl⟩)
    | cases h

theorem balanceGrewBy_true {b0 b1 : Option Nat} {amt : Int} (h : balanceGrewBy b0 b1 amt = some true) :
    ∃ x y, b0 = some x ∧ b1 = some y ∧ (y : Int) = (x : Int) + amt := by
  unfold balanceGrewBy at h
  split at h
  · rename_i x y
    injection h with h
    exact ⟨x, y, rfl, rfl, by simpa using h⟩
  · cases h

theorem balanceFellBy_true {b0 b1 : Option Nat} {amt : Int} (h : balanceFellBy b0 b1 amt = some true) :
    ∃ x y, b0 = some x ∧ b1 = some y ∧ (y : Int) = (x : Int) - amt := by
  unfold balanceFellBy at h
  split at h
  · rename_i x y
    injection h with h
    exact ⟨x, y, rfl, rfl, by simpa using h⟩
  · cases h

/-- What a successful `ConvertCoin` did. -/
theorem convertCoin_ok (E : Evm σ) (st st' : State σ) (s rc : Addr) (d : Denom) (amt : Int)
    (h : convertCoin E st s rc d amt = .ok st') :
    (st'.bal = st.bal ∧ st'.evm = st.evm) ∨
    ∃ (id : Nat) (p : Pair) (b0 b1 : Nat) (e2 e3 : σ),
      0 < amt ∧ st.enabled = true ∧ st.denomMap d = some id ∧ st.pairs id = some p ∧ p.enabled = true ∧
      st.blocked rc = false ∧ amt ≤ st.bal s d ∧
      (E.balanceOf st.evm p.contract rc).2 = some b0 ∧
      ((p.owner = .module ∧ E.mint (E.balanceOf st.evm p.contract rc).1 p.contract rc amt = some e2 ∧
          st'.evm = e3 ∧
          st'.bal = sendCoins st.bal s st.modAddr d amt)
       ∨ (p.owner = .external ∧ ∃ (m0 m1 : Nat),
          (E.balanceOf (E.balanceOf st.evm p.contract rc).1 p.contract (evmAddr st.modAddr)).2 = some m0 ∧
          E.transfer (E.balanceOf (E.balanceOf st.evm p.contract rc).1 p.contract (evmAddr st.modAddr)).1 p.contract rc amt
            = some (e2, some true, false) ∧
          E.balanceOf e3 p.contract (evmAddr st.modAddr) = (st'.evm, some m1) ∧ (m1 : Int) = (m0 : Int) - amt ∧
          st'.bal = addBal (sendCoins st.bal s st.modAddr d amt) st.modAddr d (-amt))) ∧
      E.balanceOf e2 p.contract rc = (e3, some b1) ∧ (b1 : Int) = (b0 : Int) + amt ∧
      st'.denomMap = st.denomMap ∧ st'.pairs = st.pairs ∧ st'.enabled = st.enabled := by
  unfold convertCoin at h
  split at h
  · cases h
  · rename_i id p hm
    obtain ⟨hen, hdm, hpr, hpe, hbl⟩ := mintingEnabled_some hm
    split at h
    · injection h with h
      subst h
      left
      exact ⟨rfl, rfl⟩
    · right
      split at h
      · -- module-owned pair
        rename_i hown
        unfold convertNativeCoin at h
        simp only at h
        split at h
        · cases h
        · rename_i bank1 hes
          obtain ⟨hpos, hle, hb⟩ := escrow_some hes
          split at h
          · cases h
          · rename_i e2 hmint
            split at h
            · cases h
            · cases h
            · rename_i hg
              obtain ⟨x, y, hx, hy, hxy⟩ := balanceGrewBy_true hg
              injection h with h
              subst h
              refine ⟨id, p, x, y, e2, (E.balanceOf e2 p.contract rc).1, hpos, hen, hdm, hpr, hpe, hbl, hle, hx,
                Or.inl ⟨hown, hmint, rfl, hb⟩, ?_, hxy, rfl, rfl, rfl⟩
              rw [← hy]
      · -- externally owned pair
        rename_i hown
        unfold convertNativeERC20 at h
        simp only at h
        split at h
        · cases h
        · rename_i bank1 hes
          obtain ⟨hpos, hle, hb⟩ := escrow_some hes
          split at h
          · cases h
          · rename_i e2 ret ap htr
            split at h
            · cases h
            · cases h
            · split at h
              · cases h
              · cases h
              · rename_i hg
                obtain ⟨x, y, hx, hy, hxy⟩ := balanceGrewBy_true hg
                split at h
                · cases h
                · cases h
                · rename_i hq
                  obtain ⟨m0, m1, hm0, hm1, hm01⟩ := balanceFellBy_true hq
                  split at h
                  · cases h
                  · split at h
                    · cases h
                    · rename_i hap
                      have hap' : ap = false := by simpa using hap
                      subst hap'
                      injection h with h
                      subst h
                      refine ⟨id, p, x, y, e2, (E.balanceOf e2 p.contract rc).1, hpos, hen, hdm, hpr, hpe, hbl, hle, hx,
                        Or.inr ⟨hown, m0, m1, hm0, htr, ?_, hm01, ?_⟩, ?_, hxy, rfl, rfl, rfl⟩
                      · rw [← hm1]
                      · simp only [hb]
                      · rw [← hy]
      · cases h

/-- What the hook (with or without the receiver-length guard) leaves behind; with the guard a conversion implies a
    20-byte receiver. -/
theorem hookG_atomic (guard fixed : Bool) (E : Evm σ) (v : View) (st : State σ) (ack : Ack) (r : Res σ)
    (h : hookG guard fixed E v st ack = .ok r) :
    Untouched st r.st ∨ (Converted E v st r.st ∧ (guard = true → (v.receiver.getD []).length = 20)) := by
  unfold hookG at h
  simp only at h
  split at h
  · injection h with h; subst h; exact Or.inl ⟨rfl, rfl⟩
  · split at h
    · injection h with h; subst h; exact Or.inl ⟨rfl, rfl⟩
    · rename_i amt ha
      split at h
      · injection h with h; subst h; exact Or.inl ⟨rfl, rfl⟩
      · rename_i hg
        split at h
        · injection h with h; subst h; exact Or.inl ⟨rfl, rfl⟩
        · split at h
          · cases h
          · split at h
            · rename_i st' hc
              injection h with h
              subst h
              rcases convertCoin_ok E _ _ _ _ _ _ hc with hu | ⟨id, p, b0, b1, e2, e3, h1, h2, h3, h4, h5, h5b, h6, h7, h8, h9, h10, h11, h12, h13⟩
              · exact Or.inl hu
              · refine Or.inr ⟨⟨amt, id, p, b0, b1, e2, e3, ha, h1, h2, h3, h4, h5, h5b, h6, h7, h8, h9, h10, h11, h12, h13⟩, ?_⟩
                intro hgt
                subst hgt
                simpa using hg
            · injection h with h; subst h; exact Or.inl ⟨rfl, rfl⟩
            · cases h

/-- **conversion_atomic.** After `OnRecvPacket` (repaired or not) the state is either exactly the one left by the
    wrapped application (balances and EVM), or that state plus ONE COMPLETE conversion: the receiver's vouchers
    (exactly the packet amount) moved to the module account (escrow; burned for an externally owned pair) AND the
    receiver's token balance reported by the pair's contract grew by exactly the packet amount. -/
theorem conversion_atomic (fixed : Bool) (E : Evm σ) (view : P → View) (inner : Inner σ P) (st : State σ) (pkt : P) (r : Res σ)
    (h : onRecv fixed E view inner st pkt = .ok r) :
    Untouched (inner.effect st pkt) r.st ∨ Converted E (view pkt) (inner.effect st pkt) r.st := by
  unfold onRecv at h
  simp only at h
  split at h
  · injection h with h; subst h; exact Or.inl ⟨rfl, rfl⟩
  · rcases hookG_atomic true fixed E _ _ _ r h with hu | ⟨hc, _⟩
    · exact Or.inl hu
    · exact Or.inr hc

/-- **conversion_credits_receiver** (full strength; holds of the code with fixes/C16-receiver-length.diff). In `Converted` the
    tokens are credited to the EVM account `evmAddr receiver` (what `common.BytesToAddress` makes of the receiver's bytes).
    After `OnRecvPacket`, whenever a conversion happened the receiver is a 20-byte address and that EVM account IS the
    receiver — the same 20 bytes: the tokens go to the account that lost the vouchers, never to an account nobody chose. -/
theorem conversion_credits_receiver (fixed : Bool) (E : Evm σ) (view : P → View) (inner : Inner σ P) (st : State σ) (pkt : P) (r : Res σ)
    (h : onRecv fixed E view inner st pkt = .ok r) :
    Untouched (inner.effect st pkt) r.st ∨
    (Converted E (view pkt) (inner.effect st pkt) r.st ∧ ((view pkt).receiver.getD []).length = 20 ∧
      evmAddr ((view pkt).receiver.getD []) = (view pkt).receiver.getD []) := by
  unfold onRecv at h
  simp only at h
  split at h
  · injection h with h; subst h; exact Or.inl ⟨rfl, rfl⟩
  · rcases hookG_atomic true fixed E _ _ _ r h with hu | ⟨hc, hl⟩
    · exact Or.inl hu
    · exact Or.inr ⟨hc, hl rfl, by unfold evmAddr; simp [hl rfl]⟩

/-- **conversion_credits_receiver_if_len20** (what is provable of the code BEFORE the receiver-length repair): the
    credited EVM account is the receiver's own only for 20-byte receivers. -/
theorem conversion_credits_receiver_if_len20 (fixed : Bool) (E : Evm σ) (view : P → View) (inner : Inner σ P) (st : State σ) (pkt : P)
    (r : Res σ) (h : onRecvUnguarded fixed E view inner st pkt = .ok r) (hlen : ((view pkt).receiver.getD []).length = 20) :
    Untouched (inner.effect st pkt) r.st ∨
    (Converted E (view pkt) (inner.effect st pkt) r.st ∧ evmAddr ((view pkt).receiver.getD []) = (view pkt).receiver.getD []) := by
  unfold onRecvUnguarded at h
  simp only at h
  split at h
  · injection h with h; subst h; exact Or.inl ⟨rfl, rfl⟩
  · rcases hookG_atomic false fixed E _ _ _ r h with hu | ⟨hc, _⟩
    · exact Or.inl hu
    · exact Or.inr ⟨hc, by unfold evmAddr; simp [hlen]⟩

/-- Reading of `Converted` for the normal (module-owned, `RegisterCoin`) pair in terms of single balances. -/
theorem converted_balances (E : Evm σ) (v : View) (sI s : State σ) (h : Converted E v sI s)
    (hown : ∀ id p, sI.denomMap v.denom = some id → sI.pairs id = some p → p.owner = .module)
    (hne : v.receiver.getD [] ≠ sI.modAddr) :
    ∃ amt, v.amount = some amt ∧ 0 < amt ∧
      s.bal (v.receiver.getD []) v.denom = sI.bal (v.receiver.getD []) v.denom - amt ∧
      s.bal sI.modAddr v.denom = sI.bal sI.modAddr v.denom + amt ∧
      (∀ a d, ¬ (a = v.receiver.getD [] ∧ d = v.denom) → ¬ (a = sI.modAddr ∧ d = v.denom) → s.bal a d = sI.bal a d) := by
  obtain ⟨amt, id, p, b0, b1, e2, e3, ha, hpos, _, hdm, hpr, _, _, _, _, hflow, _, _, _, _, _⟩ := h
  have hm := hown id p hdm hpr
  rcases hflow with ⟨_, _, _, hb⟩ | ⟨hx, _⟩
  · refine ⟨amt, ha, hpos, ?_, ?_, ?_⟩
    · rw [hb]; simp [sendCoins, addBal, hne]; omega
    · rw [hb]; simp [sendCoins, addBal, Ne.symm hne]
    · intro a d h1 h2
      rw [hb]; simp [sendCoins, addBal, h1, h2]
  · rw [hm] at hx; cases hx

theorem evmAddr_of_length20 (a : Addr) (h : a.length = 20) : evmAddr a = a := by
  unfold evmAddr
  simp [h]

/-- The side condition of `converted_balances` holds on the real chain: the aggregate module account is a 20-byte
    address on the bank's blocked list, and `MintingEnabled` refuses blocked receivers. -/
theorem converted_receiver_ne_module (E : Evm σ) (v : View) (sI s : State σ) (h : Converted E v sI s)
    (hlen : sI.modAddr.length = 20) (hblk : sI.blocked sI.modAddr = true) : v.receiver.getD [] ≠ sI.modAddr := by
  obtain ⟨_, _, _, _, _, _, _, _, _, _, _, _, _, hb, _⟩ := h
  intro heq
  rw [heq, evmAddr_of_length20 _ hlen, hblk] at hb
  cases hb

/-! ### which denomination is converted -/

/-- On a packet that does not return a coin, the hook's denomination IS the one the transfer application credits
    (both are the voucher of the trace prefixed with the DESTINATION port/channel). -/
theorem hookDenom_eq_credited (H : String → Denom) (f : Fields) (h : hasPrefix f.srcPort f.srcChan f.denom = false) :
    hookDenom H f = creditedDenom H f := by
  simp [hookDenom, creditedDenom, h]

/-- Registry hygiene (named assumption): for a RETURNING coin (`data.Denom` starts with the source port/channel prefix)
    the hook's denomination — the hash of the doubly prefixed trace `dest/ ++ source/ ++ rest` — is not a registered
    denomination. It cannot be: a trace starting with `dest/` is only ever minted by packets received over that very
    destination channel, and over that channel every `data.Denom` starting with `source/` is unescrowed, never minted;
    `RegisterCoin` / `AddCoin` require existing supply. -/
def ReturningHashUnregistered (H : String → Denom) (f : Fields) (sI : State σ) : Prop :=
  hasPrefix f.srcPort f.srcChan f.denom = true → sI.denomMap (hookDenom H f) = none

/-- A conversion touches balances of the hook's denomination only. -/
theorem converted_other_denoms_untouched (E : Evm σ) (v : View) (sI s : State σ) (h : Converted E v sI s) :
    ∀ a d, d ≠ v.denom → s.bal a d = sI.bal a d := by
  obtain ⟨amt, id, p, b0, b1, e2, e3, _, _, _, _, _, _, _, _, _, hflow, _⟩ := h
  intro a d hd
  rcases hflow with ⟨_, _, _, hb⟩ | ⟨_, _, _, _, _, _, _, hb⟩
  · rw [hb]; simp [sendCoins, addBal, hd]
  · rw [hb]; simp [sendCoins, addBal, hd]

/-- **hook_converts_credited_denom_only.** For every packet (any source / destination port and channel, any
    `data.Denom`: 0/1/2-hop traces, traces that merely START with the destination prefix, genuinely returning coins):
    after `OnRecvPacket` either nothing but the transfer application's effect is there, or ONE complete conversion
    happened and the denomination converted is exactly the denomination the transfer application credited for this
    packet (`creditedDenom`, transcribed from ibc-go v3 `OnRecvPacket`); no balance of any other denomination changed. -/
theorem hook_converts_credited_denom_only (fixed : Bool) (E : Evm σ) (view : P → View) (inner : Inner σ P)
    (H : String → Denom) (fields : P → Fields) (st : State σ) (pkt : P) (r : Res σ)
    (hv : (view pkt).denom = hookDenom H (fields pkt))
    (hreg : ReturningHashUnregistered H (fields pkt) (inner.effect st pkt))
    (h : onRecv fixed E view inner st pkt = .ok r) :
    Untouched (inner.effect st pkt) r.st ∨
    (Converted E (view pkt) (inner.effect st pkt) r.st ∧ (view pkt).denom = creditedDenom H (fields pkt) ∧
      ∀ a d, d ≠ creditedDenom H (fields pkt) → r.st.bal a d = (inner.effect st pkt).bal a d) := by
  rcases conversion_atomic fixed E view inner st pkt r h with hu | hc
  · exact Or.inl hu
  · right
    have hden : (view pkt).denom = creditedDenom H (fields pkt) := by
      cases hp : hasPrefix (fields pkt).srcPort (fields pkt).srcChan (fields pkt).denom with
      | false => rw [hv]; exact hookDenom_eq_credited H _ hp
      | true =>
        obtain ⟨_, id, _, _, _, _, _, _, _, _, hdm, _⟩ := hc
        rw [hv, hreg hp] at hdm
        cases hdm
    refine ⟨hc, hden, ?_⟩
    intro a d hd
    exact converted_other_denoms_untouched E _ _ _ hc a d (by rw [hden]; exact hd)

/-- The look-alike case is real: with asymmetric channel ids a foreign voucher whose trace starts with the DESTINATION
    prefix is NOT a returning coin — the transfer application credits the voucher of the doubly prefixed trace, and so
    does the hook (stripping with the destination prefix would name the unrelated coin `acoin`). -/
example (H : String → Denom) :
    let f : Fields := { srcPort := "transfer", srcChan := "channel-7", dstPort := "transfer", dstChan := "channel-0",
                        denom := "transfer/channel-0/acoin" }
    creditedDenom H f = H "transfer/channel-0/transfer/channel-0/acoin" ∧ hookDenom H f = creditedDenom H f ∧
    voucherOf H (stripPrefix f.dstPort f.dstChan f.denom) = "acoin" := by
  refine ⟨?_, ?_, ?_⟩ <;> simp [creditedDenom, hookDenom, hasPrefix, denomPrefix, stripPrefix, voucherOf] <;> decide

/-- … while the genuinely returning coin is unescrowed under its own name. -/
example (H : String → Denom) :
    creditedDenom H { srcPort := "transfer", srcChan := "channel-7", dstPort := "transfer", dstChan := "channel-0",
                      denom := "transfer/channel-7/atele" } = "atele" := by
  simp [creditedDenom, hasPrefix, denomPrefix, stripPrefix, voucherOf]

/-! ### the other callbacks pass through -/

theorem onAcknowledgement_passthrough {ε} (x : Option ε) : onAcknowledgement x = x := by
  cases x <;> rfl

theorem onTimeout_passthrough {ε} (x : Option ε) : onTimeout x = x := rfl

/-! ### histories -/

/-- One step of a chain history as far as the middleware is concerned: a packet delivered through IBC core, or
    anything else (governance registering / toggling pairs, parameter changes, other transactions). -/
inductive Op (σ P : Type) where
  | recv (pkt : P)
  | other (f : State σ → State σ)
  | restart                       -- aggregate export / import
  | dry (pkt : P)                 -- the callback on a dropped context

/-- Runs a history through core + middleware; logs, per delivered packet, (acknowledgement committed by core,
    acknowledgement of the wrapped application). A panic aborts the transaction: nothing is committed or logged. -/
def run (E : Evm σ) (view : P → View) (inner : Inner σ P) : State σ → List (Op σ P) → List (Option Ack × Ack)
  | _, [] => []
  | st, .other f :: rest => run E view inner (f st) rest
  | st, .restart :: rest => run E view inner (restart st) rest
  | st, .dry pkt :: rest => run E view inner (dropped true E view inner st pkt) rest
  | st, .recv pkt :: rest =>
    match onRecv true E view inner st pkt with
    | .ok r => ((coreCommit st r).1, inner.ack st pkt) :: run E view inner (coreCommit st r).2 rest
    | _ => run E view inner st rest

/-- **restart_identity.** -/
theorem restart_identity (st : State σ) : restart st = st := rfl

/-- **dropped_identity.** -/
theorem dropped_identity (fixed : Bool) (E : Evm σ) (view : P → View) (inner : Inner σ P) (st : State σ) (pkt : P) :
    dropped fixed E view inner st pkt = st := rfl

/-- Restarts and dropped executions anywhere in a history change nothing that follows. -/
theorem run_ignores_restart_and_dry (E : Evm σ) (view : P → View) (inner : Inner σ P) (ops : List (Op σ P)) :
    ∀ st, run E view inner st ops =
      run E view inner st (ops.filter (fun o => match o with | .restart => false | .dry _ => false | _ => true)) := by
  induction ops with
  | nil => intro st; rfl
  | cons op rest ih =>
    intro st
    cases op with
    | other f => simp [run, ih]
    | restart => simpa [run, restart] using ih st
    | dry pkt => simpa [run, dropped] using ih st
    | recv pkt =>
      simp only [List.filter, run]
      split <;> simp [ih]

/-- a packet refused by the stateless stage has no effect at all (the middleware never runs) -/
theorem rejected_never_runs (fixed : Bool) (E : Evm σ) (view : P → View) (inner : Inner σ P) (wire : P → Wire) (st : State σ) (pkt : P)
    (h : packetValidateBasic (wire pkt) = false) : deliverMsg fixed E view inner wire st pkt = none := by
  simp [deliverMsg, h]

/-- … and an accepted one is exactly the handler's run. -/
theorem accepted_is_handler (fixed : Bool) (E : Evm σ) (view : P → View) (inner : Inner σ P) (wire : P → Wire) (st : State σ) (pkt : P)
    (h : packetValidateBasic (wire pkt) = true) :
    deliverMsg fixed E view inner wire st pkt = some (onRecv fixed E view inner st pkt) := by
  simp [deliverMsg, h]

/-- **Over histories** (with restarts and dropped executions anywhere): in every history, from every state, every
    delivered packet gets exactly the wrapped application's acknowledgement committed. -/
theorem every_packet_acknowledged (E : Evm σ) (view : P → View) (inner : Inner σ P) (ops : List (Op σ P)) :
    ∀ st, ∀ e ∈ run E view inner st ops, e.1 = some e.2 := by
  induction ops with
  | nil => intro st e he; simp [run] at he
  | cons op rest ih =>
    intro st e he
    cases op with
    | other f => exact ih (f st) e (by simpa [run] using he)
    | restart => exact ih st e (by simpa [run, restart] using he)
    | dry pkt => exact ih st e (by simpa [run, dropped] using he)
    | recv pkt =>
      unfold run at he
      split at he
      · rename_i r hr
        have hack := middleware_returns_inner_ack_of_ok E view inner st pkt r hr
        rcases List.mem_cons.mp he with h | h
        · subst h
          simp [coreCommit, hack]
        · exact ih _ e h
      · exact ih st e he

/-- … and no delivered packet is lost: under the guards every `recv` of the history is logged. -/
theorem every_packet_logged (E : Evm σ) (hE : EvmSane E) (view : P → View) (inner : Inner σ P) (hI : InnerGuards view inner)
    (ops : List (Op σ P)) :
    ∀ st, (run E view inner st ops).length = (ops.filter (fun o => match o with | .recv _ => true | _ => false)).length := by
  induction ops with
  | nil => intro st; rfl
  | cons op rest ih =>
    intro st
    cases op with
    | other f => simpa [run] using ih (f st)
    | restart => simpa [run, restart] using ih st
    | dry pkt => simpa [run, dropped] using ih st
    | recv pkt =>
      obtain ⟨r, hr⟩ := onRecv_returns true E hE view inner hI st pkt
      simp [run, hr, ih]

/-! ### frame: a second receiver / a second denomination / a second pair is not touched -/

/-- **other_accounts_untouched.** Whatever packet is delivered: relative to the wrapped application's own effect, no
    balance of any account other than the packet's receiver and the module account changes, in any denomination
    (two receivers / two channels / two counterparties interleaved do not interfere through the middleware). -/
theorem other_accounts_untouched (fixed : Bool) (E : Evm σ) (view : P → View) (inner : Inner σ P) (st : State σ) (pkt : P) (r : Res σ)
    (h : onRecv fixed E view inner st pkt = .ok r) :
    ∀ a d, a ≠ (view pkt).receiver.getD [] → a ≠ (inner.effect st pkt).modAddr →
      r.st.bal a d = (inner.effect st pkt).bal a d := by
  intro a d h1 h2
  rcases conversion_atomic fixed E view inner st pkt r h with hu | hc
  · rw [hu.1]
  · obtain ⟨amt, id, p, b0, b1, e2, e3, _, _, _, _, _, _, _, _, _, hflow, _⟩ := hc
    rcases hflow with ⟨_, _, _, hb⟩ | ⟨_, _, _, _, _, _, _, hb⟩
    · rw [hb]; simp [sendCoins, addBal, h1, h2]
    · rw [hb]; simp [sendCoins, addBal, h1, h2]

/-- A conversion never touches the registry: every pair — in particular every OTHER pair and every other denomination of a
    multi-denomination pair — keeps its contract, denominations, owner and enabled flag. -/
theorem converted_registry_untouched (E : Evm σ) (v : View) (sI s : State σ) (h : Converted E v sI s) :
    s.denomMap = sI.denomMap ∧ s.pairs = sI.pairs ∧ s.enabled = sI.enabled := by
  obtain ⟨_, _, _, _, _, _, _, _, _, _, _, _, _, _, _, _, _, _, _, h1, h2, h3⟩ := h
  exact ⟨h1, h2, h3⟩

/-! ### non-vacuity and the machine-checked witness of F7 -/

section Witness

/-- A minimal honest ERC-20 ledger: one balance table, `mint` adds. -/
def ledgerEvm : Evm (Addr → Nat) :=
  { isContract := fun _ _ => true
    balanceOf := fun s _ a => (s, some (s a))
    mint := fun s _ a amt => some (fun x => if x = a then s x + amt.toNat else s x)
    transfer := fun _ _ _ _ => none }

theorem ledgerEvm_sane : EvmSane ledgerEvm := by
  constructor
  · intro s c a amt s2 _; simp [ledgerEvm]
  · intro s c a m amt s2 ap h; simp [ledgerEvm] at h

def wRecv : Addr := List.replicate 20 7
def wMod : Addr := List.replicate 20 9
def wDenom : Denom := "ibc/V"

/-- voucher `ibc/V` registered, enabled, module-owned. -/
def wState : State (Addr → Nat) :=
  { enabled := true
    denomMap := fun d => if d = wDenom then some 0 else none
    pairs := fun i => if i = 0 then some { contract := 0, enabled := true, owner := .module, denoms := [wDenom] } else none
    bal := fun _ _ => 0
    blocked := fun a => a = wMod
    sendEnabled := fun _ => true
    modAddr := wMod
    evm := fun _ => 0 }

def wView : Unit → View := fun _ => { decodeOk := true, amount := some 5, receiver := some wRecv, denom := wDenom }

/-- the ICS-20 application: mints 5 vouchers to the receiver, acknowledges `{"result":"AQ=="}`. -/
def wInner : Inner (Addr → Nat) Unit :=
  { ack := fun _ _ => .result [1]
    effect := fun s _ => { s with bal := addBal s.bal wRecv wDenom 5 } }

theorem wInner_guards : InnerGuards wView wInner := by
  intro st pkt a _ h
  simp [wView] at h
  omega

/-- **Witness of F7** (the unrepaired hook violates `middleware_returns_inner_ack`): on this ordinary packet the
    code as found returns nil while the transfer application returned a success acknowledgement; core commits no
    acknowledgement. -/
theorem unrepaired_violates_transparency :
    ∃ r, onRecv false ledgerEvm wView wInner wState () = .ok r ∧
      r.ack ≠ some (wInner.ack wState ()) ∧ (coreCommit wState r).1 = none := by
  obtain ⟨r, hr⟩ := onRecv_returns false ledgerEvm ledgerEvm_sane wView wInner wInner_guards wState ()
  have := unrepaired_never_acknowledges ledgerEvm wView wInner wState () r rfl hr
  refine ⟨r, hr, ?_, ?_⟩
  · rw [this.1]; simp
  · rw [this.2]

/-- The same packet through the repaired middleware: acknowledged, and the conversion really happens
    (the `Converted` branch of `conversion_atomic` is inhabited, the theorems are not vacuous). -/
theorem repaired_witness :
    ∃ r, onRecv true ledgerEvm wView wInner wState () = .ok r ∧
      r.ack = some (.result [1]) ∧ r.ev = .success ∧
      r.st.bal wRecv wDenom = 0 ∧ r.st.bal wMod wDenom = 5 ∧ r.st.evm (evmAddr wRecv) = 5 := by
  refine ⟨_, rfl, ?_, ?_, ?_, ?_, ?_⟩ <;> decide

/-- An honest ledger for an EXTERNALLY owned pair: `transfer` debits the module account `wMod`, credits the receiver. -/
def ledgerEvmX : Evm (Addr → Nat) :=
  { isContract := fun _ _ => true
    balanceOf := fun s _ a => (s, some (s a))
    mint := fun _ _ _ _ => none
    transfer := fun s _ a amt =>
      if s wMod < amt.toNat then none
      else some (fun x => if x = a then (if a = wMod then s x else s x + amt.toNat)
                          else if x = wMod then s x - amt.toNat else s x, some true, false) }

def wStateX : State (Addr → Nat) :=
  { wState with
    pairs := fun i => if i = 0 then some { contract := 0, enabled := true, owner := .external, denoms := [wDenom] } else none
    evm := fun a => if a = wMod then 100 else 0 }

/-- The externally-owned flow (with the module-escrow check of 320c042) is inhabited too: 5 vouchers received,
    escrowed and burned, 5 tokens moved from the module's token balance (100 → 95) to the receiver. -/
theorem external_witness :
    ∃ r, onRecv true ledgerEvmX wView wInner wStateX () = .ok r ∧
      r.ack = some (.result [1]) ∧ r.ev = .success ∧
      r.st.bal wRecv wDenom = 0 ∧ r.st.bal wMod wDenom = 0 ∧ r.st.evm (evmAddr wRecv) = 5 ∧ r.st.evm wMod = 95 := by
  refine ⟨_, rfl, ?_, ?_, ?_, ?_, ?_, ?_⟩ <;> decide

/-- a 32-byte account address (what `address.Module` / derived / interchain accounts are) -/
def wRecv32 : Addr := List.replicate 12 3 ++ List.replicate 20 7

def wView32 : Unit → View := fun _ => { decodeOk := true, amount := some 5, receiver := some wRecv32, denom := wDenom }

def wInner32 : Inner (Addr → Nat) Unit :=
  { ack := fun _ _ => .result [1]
    effect := fun s _ => { s with bal := addBal s.bal wRecv32 wDenom 5 } }

/-- **conversion_credits_foreign_account_len32** — witness that the FULL-strength `conversion_credits_receiver` is false of
    the code before fixes/C16-receiver-length.diff: a 32-byte receiver gets 5 vouchers, the hook escrows them from that
    account and mints the 5 tokens to the 20-byte EVM account made of its LAST 20 bytes — a different account. -/
theorem conversion_credits_foreign_account_len32 :
    ∃ r, onRecvUnguarded true ledgerEvm wView32 wInner32 wState () = .ok r ∧
      r.ev = .success ∧ r.st.bal wRecv32 wDenom = 0 ∧ r.st.bal wMod wDenom = 5 ∧
      r.st.evm (evmAddr wRecv32) = 5 ∧ evmAddr wRecv32 ≠ wRecv32 ∧ wRecv32.length = 32 := by
  refine ⟨_, rfl, ?_, ?_, ?_, ?_, ?_, ?_⟩ <;> decide

/-- The same packet through the repaired hook: acknowledged, nothing converted, the vouchers stay with the receiver. -/
theorem len32_left_untouched_by_repaired_hook :
    ∃ r, onRecv true ledgerEvm wView32 wInner32 wState () = .ok r ∧
      r.ack = some (.result [1]) ∧ r.ev = .failed ∧ r.st.bal wRecv32 wDenom = 5 ∧ r.st.bal wMod wDenom = 0 ∧
      r.st.evm (evmAddr wRecv32) = 0 := by
  refine ⟨_, rfl, ?_, ?_, ?_, ?_, ?_⟩ <;> decide

end Witness

end TM.Ics20
