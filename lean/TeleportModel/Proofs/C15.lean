import TeleportModel.Model.NoPanic
import TeleportModel.Proofs.C20
/-
C15 — no panic outside transaction recovery: every proposal content accepted by its `ValidateBasic`
and every genesis accepted by `ValidateGenesis` is executed to success or an ordinary error, in every
module state reachable from a validated genesis by validated proposals; rvesting `BeginBlocker` is
`TM.Vesting.no_panic` (Proofs/C20.lean).
-/
namespace TM.NoPanic
open TM

/-! ### Outcome plumbing -/

@[simp] theorem ok_bind {α β} (a : α) (f : α → Out β) : (Outcome.ok a >>= f) = f a := rfl
@[simp] theorem err_bind {α β} (e : String) (f : α → Out β) : ((Outcome.err e : Out α) >>= f) = .err e := rfl
@[simp] theorem panic_bind {α β} (e : String) (f : α → Out β) : ((Outcome.panic e : Out α) >>= f) = .panic e := rfl
@[simp] theorem pure_eq {α} (a : α) : (pure a : Out α) = .ok a := rfl
@[simp] theorem isPanic_ok {α} (a : α) : (Outcome.ok a : Out α).isPanic = false := rfl
@[simp] theorem isPanic_err {α} (e : String) : (Outcome.err e : Out α).isPanic = false := rfl
@[simp] theorem isPanic_panic {α} (e : String) : (Outcome.panic e : Out α).isPanic = true := rfl

theorem bind_noPanic {α β} (o : Out α) (f : α → Out β) (h1 : o.isPanic = false)
    (h2 : ∀ a, o = .ok a → (f a).isPanic = false) : (o >>= f).isPanic = false := by
  cases o with
  | ok a => simpa using h2 a rfl
  | err e => rfl
  | panic p => simp at h1

theorem bind_eq_ok {α β} {o : Out α} {f : α → Out β} {b : β} (h : (o >>= f) = .ok b) :
    ∃ a, o = .ok a ∧ f a = .ok b := by
  cases o with
  | ok a => exact ⟨a, rfl, by simpa using h⟩
  | err e => simp at h
  | panic p => simp at h

/-! ### The validators guard `Initialize` / `UpgradeState` -/

theorem bscValidate_facts (c : Bsc) (h : bscValidate c = .ok ()) :
    c.epoch ≠ 0 ∧ c.chainId ≤ maxI64 ∧ 97 ≤ c.extraLen := by
  unfold bscValidate bscHeaderValidate at h
  refine ⟨?_, ?_, ?_⟩
  · intro h0; simp [h0] at h
  · by_cases h1 : c.chainId > maxI64
    · split at h <;> simp_all
    · omega
  · by_cases h2 : c.extraLen < 97
    · repeat' (split at h <;> try simp at h)
      all_goals omega
    · omega

theorem bscSeal_guarded (c : Bsc) (sig : SigRes) (h1 : c.chainId ≤ maxI64) (h2 : 97 ≤ c.extraLen) :
    (bscSeal c sig).isPanic = false := by
  unfold bscSeal
  have : ¬ c.extraLen < 65 := by omega
  have : ¬ c.chainId > maxI64 := by omega
  have : ¬ c.extraLen < 97 := by omega
  cases sig <;> simp [*] <;> repeat' (split <;> try rfl)

/-- bsc: `ClientState.Validate` guards `Initialize` (`% Epoch`, negative chain id in rlp, `Extra[32:len-65]`). -/
theorem bsc_init_guarded (c : Bsc) (cons : CT) (sig : SigRes) (h : bscValidate c = .ok ()) :
    (bscInit c cons sig).isPanic = false := by
  obtain ⟨he, hc, hx⟩ := bscValidate_facts c h
  unfold bscInit
  split
  · rfl
  · split
    · rfl
    · exact bscSeal_guarded c sig hc hx

/-- bsc: `ClientState.Validate` guards `UpgradeState`. -/
theorem bsc_upgrade_guarded (c : Bsc) (cons : CT) (sig : SigRes) (p s : Bool) (h : bscValidate c = .ok ()) :
    (bscUpgrade c cons sig p s).isPanic = false := by
  obtain ⟨he, hc, hx⟩ := bscValidate_facts c h
  unfold bscUpgrade
  split
  · rfl
  · repeat' (split <;> try rfl)
    exact bscSeal_guarded c sig hc hx

/-- eth: `Header.ValidateBasic` guards `Initialize` / `UpgradeState` (`BytesToBloom`). -/
theorem eth_init_guarded (c : Eth) (cons : CT) (m : Bool) (h : ethValidate c = .ok ()) :
    (ethInit c cons m).isPanic = false := by
  have hb : ¬ c.bloomLen > 256 := by
    intro hb; unfold ethValidate ethHeaderValidate at h; split at h <;> simp [hb] at h
  unfold ethInit
  split
  · rfl
  · split
    · rfl
    · simp

/-- eth `Header.ValidateBasic` itself never panics any more: the bloom length is checked before `ToEthHeader`
(oversized bloom at ANY height is an ordinary error), and since 6c8eeb9 height 0 is rejected by `ClientState.Validate`
before the header is looked at — so the former witness "height 0 with an oversized bloom" is rejected twice over. -/
theorem eth_header_validate_total (c : Eth) : (ethHeaderValidate c).isPanic = false := by
  unfold ethHeaderValidate
  split
  · rfl
  · rename_i hb
    repeat' (split <;> try rfl)

theorem eth_validate_facts (c : Eth) (h : ethValidate c = .ok ()) : c.height ≠ 0 ∧ c.bloomLen ≤ 256 := by
  unfold ethValidate at h
  split at h
  · simp at h
  · rename_i hz
    refine ⟨hz, ?_⟩
    by_cases hb : c.bloomLen > 256
    · unfold ethHeaderValidate at h; simp [hb] at h
    · omega

/-- bsc `ClientState.Validate` ⇒ the header is not at height zero (6c8eeb9). -/
theorem bsc_validate_height (c : Bsc) (h : bscValidate c = .ok ()) : c.height ≠ 0 := by
  intro hz
  unfold bscValidate at h
  repeat' (split at h <;> try simp at h)
  all_goals omega

theorem cs_init_guarded (c : CS) (cons : CT) (e : Env) (h : csValidate c = .ok ()) :
    (csInit c cons e).isPanic = false := by
  cases c with
  | tm t => simp only [csInit, tmInit]; split <;> rfl
  | bsc b => exact bsc_init_guarded b cons e.sig h
  | eth x => exact eth_init_guarded x cons e.marshalErr h
  | tss t => rfl

theorem cs_upgrade_guarded (c : CS) (cons : CT) (e : Env) (h : csValidate c = .ok ()) :
    (csUpgrade c cons e).isPanic = false := by
  cases c with
  | tm t => simp only [csUpgrade, tmInit]; split <;> rfl
  | bsc b => exact bsc_upgrade_guarded b cons e.sig e.pruneErr e.signerErr h
  | eth x => exact eth_init_guarded x cons e.marshalErr h
  | tss t => rfl

/-! ### xibc client proposals -/

theorem clientValidateBasic_val (p : ClientProp) (h : clientValidateBasic p = .ok ()) :
    ∃ c, p.cs = .val c ∧ csValidate c = .ok () := by
  unfold clientValidateBasic at h
  split at h
  · simp at h
  · cases hc : p.cs with
    | nil => simp [hc] at h
    | wrong => simp [hc] at h
    | val c =>
      simp only [hc] at h
      obtain ⟨_, hv, _⟩ := bind_eq_ok h
      exact ⟨c, rfl, hv⟩

/-- since fafdbf1: an accepted client proposal carries a consensus state that unpacks and passes its `ValidateBasic`
(so the handlers' `UnpackConsensusState` cannot fail any more for validated contents). -/
theorem clientValidateBasic_cons (p : ClientProp) (h : clientValidateBasic p = .ok ()) :
    ∃ t, p.cons = .val t ∧ consValidate t p.tmc = .ok () := by
  unfold clientValidateBasic at h
  split at h
  · simp at h
  · cases hc : p.cs with
    | nil => simp [hc] at h
    | wrong => simp [hc] at h
    | val c =>
      simp only [hc] at h
      obtain ⟨_, _, h2⟩ := bind_eq_ok h
      cases ht : p.cons with
      | nil => simp [ht] at h2
      | wrong => simp [ht] at h2
      | val t => exact ⟨t, rfl, by simpa [ht] using h2⟩

theorem unpack_noPanic {α} (a : AnyV α) : (unpack a).isPanic = false := by cases a <;> rfl

/-- CreateClientProposal: accepted by `ValidateBasic` ⇒ executed without panic, in every state. -/
theorem create_no_panic (e : Env) (s : XSt) (p : ClientProp) (h : clientValidateBasic p = .ok ()) :
    (handleCreate e s p).isPanic = false := by
  obtain ⟨c, hc, hv⟩ := clientValidateBasic_val p h
  unfold handleCreate
  split
  · rfl
  · split
    · rfl
    · simp only [hc, unpack, ok_bind]
      apply bind_noPanic _ _ (unpack_noPanic _)
      intro cons _
      apply bind_noPanic _ _ (cs_init_guarded c cons e hv)
      intro _ _; rfl

/-- UpgradeClientProposal: accepted by `ValidateBasic` ⇒ executed without panic, in every state. -/
theorem upgrade_no_panic (e : Env) (s : XSt) (p : ClientProp) (h : clientValidateBasic p = .ok ()) :
    (handleUpgrade e s p).isPanic = false := by
  obtain ⟨c, hc, hv⟩ := clientValidateBasic_val p h
  unfold handleUpgrade
  simp only [hc, unpack, ok_bind]
  apply bind_noPanic _ _ (unpack_noPanic _)
  intro cons _
  split
  · rfl
  · split
    · rfl
    · apply bind_noPanic _ _ (cs_upgrade_guarded c cons e hv)
      intro _ _; rfl

/-- every stored client state is accepted by its `Validate`. -/
def StoreValid (s : XSt) : Prop := ∀ x ∈ s.clients, csValidate x.2 = .ok ()

theorem get_valid (s : XSt) (hs : StoreValid s) (chain : String) (c : CS) (h : s.get chain = some c) :
    csValidate c = .ok () := by
  unfold XSt.get at h
  cases hf : s.clients.find? (·.1 = chain) with
  | none => simp [hf] at h
  | some x =>
    simp [hf] at h
    subst h
    exact hs x (List.mem_of_find?_eq_some hf)

theorem set_valid (s : XSt) (hs : StoreValid s) (chain : String) (c : CS) (hc : csValidate c = .ok ()) :
    StoreValid (s.set chain c) := by
  intro x hx
  simp only [XSt.set, List.mem_cons, List.mem_filter] at hx
  rcases hx with rfl | ⟨hx, _⟩
  · exact hc
  · exact hs x hx

/-- ToggleClientProposal: accepted by `ValidateBasic` ⇒ executed without panic, in EVERY state (since fix e081e86 the
handler runs `Initialize` of the proposal's own, validated, client state; the `StoreValid` hypothesis of the earlier
version is gone). -/
theorem toggle_no_panic (e : Env) (s : XSt) (p : ClientProp)
    (h : clientValidateBasic p = .ok ()) : (handleToggle e s p).isPanic = false := by
  obtain ⟨c, hc, hv⟩ := clientValidateBasic_val p h
  unfold handleToggle
  cases ho : s.get p.chain with
  | none => rfl
  | some old =>
    simp only [hc, unpack, ok_bind]
    apply bind_noPanic _ _ (unpack_noPanic _)
    intro cons _
    split
    · rfl
    · apply bind_noPanic _ _ (cs_init_guarded c cons e hv)
      intro _ _; rfl

/-- RegisterRelayerProposal. -/
theorem relayer_no_panic (s : XSt) (p : RelayerProp) (h : relayerValidateBasic p = .ok ()) :
    (handleRelayer s p).isPanic = false := by
  unfold relayerValidateBasic at h
  unfold handleRelayer
  split at h
  · simp at h
  · split at h
    · simp at h
    · rename_i hg
      have : p.addr = .good := by simpa using hg
      simp [this]

/-- All four xibc proposal types at once, in every state. -/
theorem xibc_proposal_no_panic (e : Env) (s : XSt) (p : XProp)
    (h : xValidateBasic p = .ok ()) : (xHandle e s p).isPanic = false := by
  cases p with
  | create p => exact create_no_panic e s p h
  | upgrade p => exact upgrade_no_panic e s p h
  | toggle p => exact toggle_no_panic e s p h
  | relayer p => exact relayer_no_panic s p h

/-- Validated proposals keep the store valid. -/
theorem xHandle_preserves_valid (e : Env) (s s' : XSt) (hs : StoreValid s) (p : XProp)
    (h : xValidateBasic p = .ok ()) (hr : xHandle e s p = .ok s') : StoreValid s' := by
  cases p with
  | relayer p =>
    simp only [xHandle, handleRelayer] at hr
    split at hr
    · simp at hr
    · simp at hr; subst hr; exact hs
  | create p =>
    obtain ⟨c, hc, hv⟩ := clientValidateBasic_val p h
    simp only [xHandle, handleCreate] at hr
    split at hr
    · simp at hr
    · split at hr
      · simp at hr
      · simp only [hc, unpack, ok_bind] at hr
        obtain ⟨_, _, hr⟩ := bind_eq_ok hr
        obtain ⟨_, _, hr⟩ := bind_eq_ok hr
        simp at hr; subst hr
        exact set_valid s hs _ c hv
  | upgrade p =>
    obtain ⟨c, hc, hv⟩ := clientValidateBasic_val p h
    simp only [xHandle, handleUpgrade, hc, unpack, ok_bind] at hr
    obtain ⟨_, _, hr⟩ := bind_eq_ok hr
    split at hr
    · simp at hr
    · split at hr
      · simp at hr
      · obtain ⟨_, _, hr⟩ := bind_eq_ok hr
        simp at hr; subst hr
        exact set_valid s hs _ c hv
  | toggle p =>
    obtain ⟨c, hc, hv⟩ := clientValidateBasic_val p h
    simp only [xHandle, handleToggle] at hr
    split at hr
    · simp at hr
    · simp only [hc, unpack, ok_bind] at hr
      obtain ⟨_, _, hr⟩ := bind_eq_ok hr
      split at hr
      · simp at hr
      · obtain ⟨_, _, hr⟩ := bind_eq_ok hr
        simp at hr; subst hr
        exact set_valid s hs _ c hv

/-! ### xibc genesis -/

theorem xgenClients_spec (l : List (Bool × String × AnyV CS)) (acc out : List (String × CS))
    (hacc : ∀ x ∈ acc, csValidate x.2 = .ok ()) (h : xgenClients l acc = .ok out) :
    (∀ x ∈ l, ∃ c, x.2.2 = .val c ∧ csValidate c = .ok ()) := by
  induction l generalizing acc with
  | nil => intro x hx; cases hx
  | cons a rest ih =>
    obtain ⟨idOk, chain, av⟩ := a
    unfold xgenClients at h
    split at h
    · simp at h
    · cases av with
      | nil => simp at h
      | wrong => simp at h
      | val c =>
        simp only at h
        obtain ⟨_, hv, h⟩ := bind_eq_ok h
        have hv : csValidate c = .ok () := hv
        intro x hx
        rcases List.mem_cons.mp hx with rfl | hx
        · exact ⟨c, rfl, hv⟩
        · refine ih _ ?_ h x hx
          intro y hy
          rcases List.mem_cons.mp hy with rfl | hy
          · exact hv
          · exact hacc y (List.mem_filter.mp hy).1

theorem xinitClients_spec (l : List (Bool × String × AnyV CS)) (s : XSt) (hs : StoreValid s)
    (hl : ∀ x ∈ l, ∃ c, x.2.2 = .val c ∧ csValidate c = .ok ()) :
    ∃ s', xinitClients l s = .ok s' ∧ StoreValid s' := by
  induction l generalizing s with
  | nil => exact ⟨s, rfl, hs⟩
  | cons a rest ih =>
    obtain ⟨idOk, chain, av⟩ := a
    obtain ⟨c, hc, hv⟩ := hl _ (List.mem_cons_self)
    simp only at hc
    subst hc
    unfold xinitClients
    exact ih _ (set_valid s hs chain c hv) (fun x hx => hl x (List.mem_cons_of_mem _ hx))

theorem xgenConsStates_spec (l : List XGenCons) (h : xgenConsStates l = .ok ()) :
    (xinitCons l).isPanic = false := by
  induction l with
  | nil => rfl
  | cons c rest ih =>
    unfold xgenConsStates at h
    unfold xinitCons
    split at h
    · simp at h
    · cases hc : c.cons with
      | nil => simp [hc] at h
      | wrong => simp [hc] at h
      | val t =>
        simp only [hc] at h ⊢
        split at h
        · simp at h
        · split at h
          · simp at h
          · exact ih h

theorem xgenConsensus_spec (valid : List (String × CS)) (l : List (String × List XGenCons))
    (h : xgenConsensus valid l = .ok ()) : (xinitConsAll l).isPanic = false := by
  induction l with
  | nil => rfl
  | cons a rest ih =>
    obtain ⟨chain, cl⟩ := a
    unfold xgenConsensus at h
    unfold xinitConsAll
    split at h
    · simp at h
    · obtain ⟨_, h1, h2⟩ := bind_eq_ok h
      apply bind_noPanic _ _ (xgenConsStates_spec cl h1)
      intro _ _
      exact ih h2

/-- xibc `InitGenesis` of a genesis accepted by `GenesisState.Validate` does not panic, and leaves a valid store. -/
theorem xgenMeta_spec (valid : List (String × CS)) (l : List (String × List (Bool × Bool)))
    (h : xgenMeta valid l = .ok ()) : xinitMeta l = .ok () := by
  induction l with
  | nil => rfl
  | cons a rest ih =>
    obtain ⟨chain, kv⟩ := a
    unfold xgenMeta at h
    unfold xinitMeta
    split at h
    · simp at h
    · split at h
      · simp at h
      · rename_i hk
        simp only [hk]
        exact ih h

theorem xgenesis_no_panic (g : XGen) (h : xValidateGenesis g = .ok ()) :
    (xInitGenesis g).isPanic = false ∧ ∀ s, xInitGenesis g = .ok s → StoreValid s := by
  unfold xValidateGenesis at h
  obtain ⟨valid, h1, h⟩ := bind_eq_ok h
  obtain ⟨_, h2, h⟩ := bind_eq_ok h
  obtain ⟨_, h3, _⟩ := bind_eq_ok h
  have hm := xgenMeta_spec valid g.metadata h3
  have hl := xgenClients_spec g.clients [] valid (by intro x hx; cases hx) h1
  obtain ⟨s', hs', hv'⟩ := xinitClients_spec g.clients {} (by intro x hx; cases hx) hl
  have hc := xgenConsensus_spec valid g.consensus h2
  unfold xInitGenesis
  rw [hm, hs']
  simp only [ok_bind]
  constructor
  · apply bind_noPanic _ _ hc
    intro _ _; rfl
  · intro s hs
    obtain ⟨_, _, hs⟩ := bind_eq_ok hs
    simp at hs; subst hs; exact hv'

/-! ### Histories: the chain never halts in xibc proposal execution -/

/-- `gov.EndBlocker` semantics: a failed handler leaves the state unchanged; a panic halts the chain. -/
def xRun : XSt → List (Env × XProp) → Out XSt
  | s, [] => .ok s
  | s, (e, p) :: rest =>
    match xHandle e s p with
    | .ok s' => xRun s' rest
    | .err _ => xRun s rest
    | .panic m => .panic m

theorem xRun_no_panic (s : XSt) (ops : List (Env × XProp))
    (hv : ∀ o ∈ ops, xValidateBasic o.2 = .ok ()) : (xRun s ops).isPanic = false := by
  induction ops generalizing s with
  | nil => rfl
  | cons o rest ih =>
    obtain ⟨e, p⟩ := o
    have hp := hv (e, p) (List.mem_cons_self)
    have hrest : ∀ o ∈ rest, xValidateBasic o.2 = .ok () := fun o ho => hv o (List.mem_cons_of_mem _ ho)
    have hnp := xibc_proposal_no_panic e s p hp
    unfold xRun
    cases hr : xHandle e s p with
    | ok s' => exact ih s' hrest
    | err m => exact ih s hrest
    | panic m => rw [hr] at hnp; simp at hnp

/-- From any validated genesis, any sequence of validated xibc proposals (any external results)
executes without panic. -/
theorem xibc_chain_never_halts (g : XGen) (hg : xValidateGenesis g = .ok ()) (ops : List (Env × XProp))
    (hv : ∀ o ∈ ops, xValidateBasic o.2 = .ok ()) :
    (xInitGenesis g >>= fun s => xRun s ops).isPanic = false := by
  obtain ⟨h1, h2⟩ := xgenesis_no_panic g hg
  apply bind_noPanic _ _ h1
  intro s hs
  exact xRun_no_panic s ops hv

/-! ### aggregate -/

theorem metaLoop_display (m : Meta) (l : List DUnit) (i cur : Nat) (seen : List String) (hd : Bool)
    (h : metaLoop m l i cur seen hd = .ok true) : hd = true ∨ l ≠ [] := by
  cases l with
  | nil => left; simpa [metaLoop] using h
  | cons _ _ => right; simp

/-- bank `Metadata.Validate` ⇒ at least one denom unit (it must contain the display unit). -/
theorem metaValidate_units (m : Meta) (h : metaValidate m = .ok ()) : m.units ≠ [] := by
  unfold metaValidate at h
  repeat' (split at h <;> try simp at h)
  rename_i hl
  rcases metaLoop_display m m.units 0 0 [] false hl with h | h
  · simp at h
  · exact h

theorem pairId_noPanic (p : Pair) (h : p.denoms ≠ []) : ∃ id, p.id = .ok id := by
  unfold Pair.id
  cases hd : p.denoms with
  | nil => exact absurd hd h
  | cons d _ => exact ⟨_, rfl⟩

theorem coinChecks_noPanic (e : CoinEnv) (s : ASt) (m : Meta) : (coinChecks e s m).isPanic = false := by
  unfold coinChecks
  repeat' (split <;> try rfl)

/-- RegisterCoinProposal: `ValidateBasic` (bank `Metadata.Validate`) guards `DenomUnits[0]`. -/
theorem registerCoin_no_panic (e : CoinEnv) (s : ASt) (p : CoinProp) (h : coinValidateBasic p = .ok ()) :
    (handleRegisterCoin e s p).isPanic = false := by
  unfold coinValidateBasic at h
  obtain ⟨_, hm, _⟩ := bind_eq_ok h
  have hu := metaValidate_units p.md hm
  unfold handleRegisterCoin
  apply bind_noPanic _ _ (coinChecks_noPanic e s p.md)
  intro _ _
  cases hl : p.md.units with
  | nil => exact absurd hl hu
  | cons u us =>
    simp only
    cases e.deploy with
    | err => rfl
    | ok addr => simp [Pair.id]

/-- AddCoinProposal: no panic in any state (the identifier is read after appending the new denom). -/
theorem addCoin_no_panic (e : CoinEnv) (s : ASt) (p : CoinProp) : (handleAddCoin e s p).isPanic = false := by
  unfold handleAddCoin
  cases p.contract with
  | none => rfl
  | some addr =>
    simp only
    apply bind_noPanic _ _ (coinChecks_noPanic e s p.md)
    intro _ _
    cases lookup s.ercMap addr with
    | none => rfl
    | some id =>
      simp only
      cases lookup s.pairs id with
      | none => rfl
      | some pair =>
        simp only
        obtain ⟨id', hid⟩ := pairId_noPanic { pair with denoms := pair.denoms ++ [p.md.base] } (by simp)
        rw [hid]; simp only [ok_bind]
        split <;> rfl

/-- RegisterERC20Proposal. -/
theorem registerERC20_no_panic (c : Ext String) (s : ASt) (a : String) :
    (handleRegisterERC20 c s a).isPanic = false := by
  unfold handleRegisterERC20
  repeat' (split <;> try rfl)

/-- every stored token pair has at least one denomination. -/
def AValid (s : ASt) : Prop := ∀ x ∈ s.pairs, x.2.denoms ≠ []

theorem lookup_mem {α} (l : List (String × α)) (k : String) (v : α) (h : lookup l k = some v) :
    ∃ x ∈ l, x.2 = v := by
  unfold lookup at h
  cases hf : l.find? (·.1 = k) with
  | none => simp [hf] at h
  | some x => simp [hf] at h; exact ⟨x, List.mem_of_find?_eq_some hf, h⟩

theorem lookup_valid (s : ASt) (hs : AValid s) (id : String) (p : Pair) (h : lookup s.pairs id = some p) :
    p.denoms ≠ [] := by
  obtain ⟨x, hx, rfl⟩ := lookup_mem _ _ _ h
  exact hs x hx

/-- ToggleTokenRelayProposal, in every state whose stored pairs have a denomination. -/
theorem toggleRelay_no_panic (s : ASt) (hs : AValid s) (t : Token) : (handleToggleRelay s t).isPanic = false := by
  unfold handleToggleRelay
  cases s.tokenId t with
  | none => rfl
  | some id =>
    simp only
    split
    · rfl
    · cases hp : lookup s.pairs id with
      | none => rfl
      | some pair =>
        simp only
        obtain ⟨id', hid⟩ := pairId_noPanic { pair with enabled := !pair.enabled } (lookup_valid s hs id pair hp)
        rw [hid]; rfl

/-- UpdateTokenPairERC20Proposal: `pair.Denoms[0]` is guarded by the store invariant. -/
theorem updatePair_no_panic (e : UpdEnv) (s : ASt) (hs : AValid s) (o n : String) :
    (handleUpdatePair e s o n).isPanic = false := by
  unfold handleUpdatePair
  cases lookup s.ercMap o with
  | none => rfl
  | some id =>
    simp only
    split
    · rfl
    · cases hp : lookup s.pairs id with
      | none => rfl
      | some pair =>
        simp only
        have hne := lookup_valid s hs id pair hp
        cases hd : pair.denoms with
        | nil => exact absurd hd hne
        | cons d0 ds =>
          simp only
          repeat' (split <;> try rfl)
          simp [Pair.id, hd]

/-- Per string: whatever the validator's parser accepts, the handler's parser accepts (today both are
`SetString(·, 10)`; relaxing the validator's side — e.g. to a base-0 parser — makes this lemma false). -/
theorem limit_parse_agree_string (s : String) (h : (limitVbParse s).isSome) : (limitHParse s).isSome := by
  simpa [limitVbParse, limitHParse] using h

/-- **supply_limit_parse_agree**: for ALL contents (all four raw strings), if `ValidateBasic` accepts then each of the
handler's four re-parses succeeds — no nil `*big.Int` can reach `abi.Pack`. -/
theorem supply_limit_parse_agree (p : LimitProp) (h : limitValidateBasic p = .ok ()) :
    (limitHParse p.period).isSome ∧ (limitHParse p.limit).isSome ∧ (limitHParse p.maxAmt).isSome ∧ (limitHParse p.minAmt).isSome := by
  unfold limitValidateBasic at h
  split at h
  · simp at h
  · cases hp : limitVbParse p.period with
    | none => simp [hp] at h
    | some tp =>
      cases hn : limitVbParse p.minAmt with
      | none => simp [hp, hn] at h; split at h <;> simp at h
      | some mn =>
        cases hx : limitVbParse p.maxAmt with
        | none => simp [hp, hn, hx] at h; repeat' (split at h <;> try simp at h)
        | some mx =>
          cases hl : limitVbParse p.limit with
          | none => simp [hp, hn, hx, hl] at h; repeat' (split at h <;> try simp at h)
          | some l =>
            exact ⟨limit_parse_agree_string _ (by simp [hp]), limit_parse_agree_string _ (by simp [hl]),
                   limit_parse_agree_string _ (by simp [hx]), limit_parse_agree_string _ (by simp [hn])⟩

/-- EnableTimeBasedSupplyLimitProposal: `ValidateBasic` guards the unchecked `SetString` results. -/
theorem enableLimit_no_panic (evmOk : Bool) (p : LimitProp) (h : limitValidateBasic p = .ok ()) :
    (handleEnableLimit evmOk p).isPanic = false := by
  obtain ⟨h1, h2, h3, h4⟩ := supply_limit_parse_agree p h
  unfold handleEnableLimit
  have : ¬ ((limitHParse p.period).isNone ∨ (limitHParse p.limit).isNone ∨ (limitHParse p.maxAmt).isNone ∨ (limitHParse p.minAmt).isNone) := by
    simp [Option.isNone_iff_eq_none, Option.isSome_iff_ne_none.mp h1, Option.isSome_iff_ne_none.mp h2,
          Option.isSome_iff_ne_none.mp h3, Option.isSome_iff_ne_none.mp h4]
  rw [if_neg this]
  split <;> rfl

/-- the transcribed `SetString(·, 10)` on the spellings that separate it from a base-0 parser. -/
example : setString10 "60" = some 60 ∧ setString10 "+60" = some 60 ∧ setString10 "-7" = some (-7) ∧ setString10 "007" = some 7
    ∧ setString10 "0x3c" = none ∧ setString10 "0b111100" = none ∧ setString10 "0o74" = none ∧ setString10 "1_000" = none
    ∧ setString10 " 60" = none ∧ setString10 "60 " = none ∧ setString10 "1e3" = none ∧ setString10 "" = none
    ∧ setString10 "+" = none ∧ setString10 "+-1" = none ∧ setString10 "６０" = none := by decide

example : limitValidateBasic ⟨true, "60", "1000", "100", "10", true⟩ = .ok () := by decide
example : (handleEnableLimit true ⟨true, "0x3c", "1000", "100", "10", true⟩).isPanic = true := by decide

theorem evmOnly_no_panic (b : Bool) : (handleEvmOnly b).isPanic = false := by
  unfold handleEvmOnly; split <;> rfl

/-! preservation of `AValid` -/

theorem insert_valid (l : List (String × Pair)) (h : ∀ x ∈ l, x.2.denoms ≠ []) (id : String) (p : Pair)
    (hp : p.denoms ≠ []) : ∀ x ∈ insert l id p, x.2.denoms ≠ [] := by
  intro x hx
  simp only [insert, List.mem_cons, List.mem_filter] at hx
  rcases hx with rfl | ⟨hx, _⟩
  · exact hp
  · exact h x hx

theorem setDenoms_pairs (s : ASt) (ds : List String) (id : String) : (s.setDenoms ds id).pairs = s.pairs := rfl
theorem setErc_pairs (s : ASt) (a id : String) : (s.setErc a id).pairs = s.pairs := rfl

theorem registerCoin_valid (e : CoinEnv) (s s' : ASt) (hs : AValid s) (p : CoinProp)
    (h : handleRegisterCoin e s p = .ok s') : AValid s' := by
  unfold handleRegisterCoin at h
  obtain ⟨_, _, h⟩ := bind_eq_ok h
  split at h
  · simp at h
  · split at h
    · simp at h
    · simp [Pair.id] at h; subst h
      exact insert_valid _ hs _ _ (by simp)

theorem addCoin_valid (e : CoinEnv) (s s' : ASt) (hs : AValid s) (p : CoinProp)
    (h : handleAddCoin e s p = .ok s') : AValid s' := by
  unfold handleAddCoin at h
  split at h
  · simp at h
  · obtain ⟨_, _, h⟩ := bind_eq_ok h
    split at h
    · simp at h
    · split at h
      · simp at h
      · obtain ⟨id', _, h⟩ := bind_eq_ok h
        split at h
        · simp at h
        · simp at h; subst h
          exact insert_valid _ hs _ _ (by simp)

theorem registerERC20_valid (c : Ext String) (s s' : ASt) (hs : AValid s) (a : String)
    (h : handleRegisterERC20 c s a = .ok s') : AValid s' := by
  unfold handleRegisterERC20 at h
  repeat' (split at h <;> try simp at h)
  simp [Pair.id] at h; subst h
  exact insert_valid _ hs _ _ (by simp)

theorem toggleRelay_valid (s s' : ASt) (hs : AValid s) (t : Token)
    (h : handleToggleRelay s t = .ok s') : AValid s' := by
  unfold handleToggleRelay at h
  split at h
  · simp at h
  · split at h
    · simp at h
    · split at h
      · simp at h
      · rename_i pair hp
        obtain ⟨id', _, h⟩ := bind_eq_ok h
        simp at h; subst h
        exact insert_valid _ hs _ _ (lookup_valid s hs _ pair hp)

theorem updatePair_valid (e : UpdEnv) (s s' : ASt) (hs : AValid s) (o n : String)
    (h : handleUpdatePair e s o n = .ok s') : AValid s' := by
  unfold handleUpdatePair at h
  split at h
  · simp at h
  · split at h
    · simp at h
    · split at h
      · simp at h
      · split at h
        · simp at h
        · split at h
          · simp at h
          · rename_i d0 ds hd
            repeat' (split at h <;> try simp at h)
            obtain ⟨_, _, h⟩ := bind_eq_ok h
            obtain ⟨id', _, h⟩ := bind_eq_ok h
            simp at h; subst h
            apply insert_valid
            · intro x hx
              simp only [erase, List.mem_filter] at hx
              exact hs x hx.1
            · simp [hd]

/-! ### aggregate genesis -/

theorem validDenom_empty : Vesting.validDenom "" = false := by decide

theorem aValidateLoop_spec (l : List GenPair) (se sd : List String) (h : aValidateLoop l se sd = .ok ()) :
    ∀ b ∈ l, b.denoms ≠ [] ∧ ∀ d ∈ b.denoms, d.1 ≠ "" := by
  induction l generalizing se sd with
  | nil => intro b hb; cases hb
  | cons a rest ih =>
    unfold aValidateLoop at h
    split at h
    · simp at h
    · rename_i hne
      split at h
      · simp at h
      · rename_i hden
        split at h
        · simp at h
        · split at h
          · simp at h
          · split at h
            · simp at h
            · intro b hb
              rcases List.mem_cons.mp hb with rfl | hb
              · refine ⟨by intro he; simp [he] at hne, ?_⟩
                intro d hdm he
                apply hden
                simp only [List.any_eq_true]
                exact ⟨d, hdm, by simp [he, validDenom_empty]⟩
              · exact ih _ _ h b hb

theorem aInitLoop_spec (l : List GenPair) (s : ASt) (hs : AValid s)
    (hl : ∀ b ∈ l, b.denoms ≠ [] ∧ ∀ d ∈ b.denoms, d.1 ≠ "") :
    ∃ s', aInitLoop l s = .ok s' ∧ AValid s' := by
  induction l generalizing s with
  | nil => exact ⟨s, rfl, hs⟩
  | cons b rest ih =>
    obtain ⟨hb, hne⟩ := hl b (List.mem_cons_self)
    unfold aInitLoop
    cases hd : b.denoms with
    | nil => exact absurd hd hb
    | cons d ds =>
      have hany : ((d :: ds).map (·.1)).any (· == "") = false := by
        rw [List.any_eq_false]
        intro x hx
        obtain ⟨y, hy, rfl⟩ := List.mem_map.mp hx
        have := hne y (hd ▸ hy)
        simpa using this
      simp only [Pair.id, List.map_cons] at hany ⊢
      simp only [hany]
      apply ih
      · exact insert_valid _ hs _ _ (by simp)
      · exact fun x hx => hl x (List.mem_cons_of_mem _ hx)

/-- aggregate `InitGenesis` of a genesis accepted by `GenesisState.Validate` does not panic and
establishes the store invariant. -/
theorem agenesis_no_panic (en : Bool) (g : List GenPair) (h : aValidateGenesis g = .ok ()) :
    ∃ s, aInitGenesis en g = .ok s ∧ AValid s :=
  aInitLoop_spec g _ (by intro x hx; cases hx) (aValidateLoop_spec g [] [] h)

/-! ### rvesting -/

/-- rvesting `InitGenesis` of a genesis accepted by `ValidateGenesis`: no panic, PROVIDED the `From`
account (if any) can pay `InitReward` — a fact of the bank genesis that the module's stateless
validation cannot see (documented limitation, see docs/C15.md). -/
theorem rvgenesis_no_panic (g : RvGen) (canPay : Bool) (h : rvValidateGenesis g = .ok ())
    (hp : g.src = .good → canPay = true) : rvInitGenesis g canPay = .ok () := by
  unfold rvValidateGenesis at h
  unfold rvInitGenesis
  split at h
  · simp at h
  · rename_i hv
    simp only [hv]
    cases hs : g.src with
    | none => rfl
    | bad => simp [hs] at h
    | good => simp [hp hs]

/-- The limitation is real: a validated genesis whose `From` account is not funded panics. -/
theorem rvgenesis_unfunded_panics :
    ∃ g, rvValidateGenesis g = .ok () ∧ (rvInitGenesis g false).isPanic = true :=
  ⟨{ enable := false, reward := [{ denom := "atele", amount := some 1 }], src := .good, initRewardValid := true },
   by decide, by decide⟩

/-- rvesting `BeginBlocker` (proved in Proofs/C20.lean, restated here as part of C15). -/
theorem beginBlocker_no_panic (s : Vesting.State) (hv : Vesting.Valid s.reward) (hp : ∀ d, 0 ≤ s.pool d) :
    (Vesting.beginBlock s).isPanic = false := Vesting.no_panic s hv hp

/-! ### The fixes are necessary: witnesses on the unfixed validators -/

/-- Without the `Epoch ≠ 0` guard (`Validate` = `Header.ValidateBasic` as in the unfixed tree) an accepted
client state panics in `Initialize`. -/
theorem unfixed_bsc_epoch_witness :
    ∃ c sig, bscHeaderValidate c = .ok () ∧ (bscInit c .bsc sig).isPanic = true :=
  ⟨{ epoch := 0, chainId := 56, height := 200, extraLen := 117, mixZero := true, uncleOk := true,
     bloomLen := 0, nonceLen := 0, diffZero := false }, .fail, by decide, by decide⟩

/-- Without the `ChainId ≤ MaxInt64` guard an accepted client state panics in `encodeSigHeader`. -/
theorem unfixed_bsc_chainid_witness :
    ∃ c sig, bscHeaderValidate c = .ok () ∧ c.epoch ≠ 0 ∧ (bscInit c .bsc sig).isPanic = true :=
  ⟨{ epoch := 200, chainId := 9223372036854775808, height := 200, extraLen := 117, mixZero := true, uncleOk := true,
     bloomLen := 0, nonceLen := 0, diffZero := false }, .fail, by decide, by decide, by decide⟩

/-! ### Non-vacuity -/

def exBsc : Bsc := { epoch := 200, chainId := 56, height := 400, extraLen := 97 + 40, mixZero := true,
                     uncleOk := true, bloomLen := 256, nonceLen := 8, diffZero := false }
def exProp : ClientProp := ⟨true, "bsc-1", .val (.bsc exBsc), .val .bsc, {}⟩

example : clientValidateBasic exProp = .ok () := by decide
example : (handleCreate { sig := .good } {} exProp).isOk = true := by decide

example : ∃ s : ASt, AValid s ∧ s.pairs ≠ [] :=
  ⟨{ pairs := [("a|b", { erc20 := "a", denoms := ["b"], enabled := true })] },
   by intro x hx; simp at hx; subst hx; simp, by simp⟩

/-! ### app life cycle -/

/-- `SetEVMCode` is total whatever account is stored at the address. -/
theorem setEVMCode_total (e : Option AccKind) : (setEVMCode e).isPanic = false := rfl

/-- **start-up is total for every valid genesis account table at the addresses the app writes**: whatever kind of account
a validated genesis puts at a system-contract address, a lazily used module address or anywhere else, neither InitChain nor the
v0.2 upgrade panics; at a module address used at start-up the same holds for the (only sensible) module account. -/
theorem startup_total_every_account_kind (k : AccKind) (a : AddrClass) (_hv : lcValidate k a = .ok ())
    (hm : a = .moduleInit → k = .module) : (lcInitChain k a).isPanic = false ∧ (lcUpgrade k a).isPanic = false := by
  cases a <;> cases k <;> simp_all [lcInitChain, lcUpgrade, setEVMCode]

/-- the excluded case is cosmos-sdk's own panic, not teleport code. -/
theorem lifecycle_only_sdk_panic (k : AccKind) (a : AddrClass) (h : (lcInitChain k a).isPanic = true) :
    a = .moduleInit ∧ k ≠ .module := by
  cases a <;> cases k <;> simp_all [lcInitChain, setEVMCode]

/-- re-using the stored account under the unchecked assertion is NOT total: a validated genesis with a vesting account at a
system-contract address panics. -/
theorem reuse_variant_panics : ∃ k, lcValidate k .sysContract = .ok () ∧ (setEVMCodeReuse (some k)).isPanic = true :=
  ⟨.delayedVesting, by decide, by decide⟩

/-! ### the block phase does not depend on the block gas meter -/

/-- **block_phase_total_any_gas**: the modelled Begin/EndBlock steps (proposal execution of every xibc and aggregate kind) give
the same outcome under every block-gas state — absent, infinite, finite at any fill level — and, for validated contents, never
panic.  (The tie to the code is the dynamic runs at the fill levels empty / half / limit−1000 / limit−1 / full.) -/
theorem block_phase_total_any_gas (g g' : BlockGas) (e : Env) (s : XSt) (p : XProp) (ce : CoinEnv) (a : ASt) (cp : CoinProp)
    (ok : Bool) (lp : LimitProp) :
    xHandleInBlock g e s p = xHandleInBlock g' e s p ∧ registerCoinInBlock g ce a cp = registerCoinInBlock g' ce a cp ∧
    evmOnlyInBlock g ok = evmOnlyInBlock g' ok ∧ enableLimitInBlock g ok lp = enableLimitInBlock g' ok lp ∧
    (xValidateBasic p = .ok () → (xHandleInBlock g e s p).isPanic = false) ∧
    (coinValidateBasic cp = .ok () → (registerCoinInBlock g ce a cp).isPanic = false) ∧
    (evmOnlyInBlock g ok).isPanic = false ∧ (limitValidateBasic lp = .ok () → (enableLimitInBlock g ok lp).isPanic = false) :=
  ⟨rfl, rfl, rfl, rfl, fun h => xibc_proposal_no_panic e s p h, fun h => registerCoin_no_panic ce a cp h,
   evmOnly_no_panic ok, fun h => enableLimit_no_panic ok lp h⟩

/-- charging the call's gas to a finite, almost full block meter is NOT total. -/
theorem charging_block_gas_panics :
    (evmOnlyChargingBlock { finite := true, limit := 10000000, consumed := 9999999 } true 50000).isPanic = true := by decide

/-- … while an absent / infinite meter hides it (why keeper-level tests never see it). -/
theorem charging_infinite_meter_fine (c n : Nat) :
    (evmOnlyChargingBlock { finite := false, limit := 0, consumed := c } true n).isPanic = false := by
  simp [evmOnlyChargingBlock, consumeBlockGas]

/-! ### rvesting genesis document -/

/-- **rvesting_genesis_total**: `InitGenesis` is total (returns) on every rvesting genesis document accepted by `ValidateGenesis`
whose `from` account, if any, can pay `init_reward`.  The validation the proof needs is the whole-list `Coins.Validate`
(sorted, no duplicates, positive): it is exactly what `SendCoins` re-checks. -/
theorem rvesting_genesis_total (d : RvDoc) (canPay : Bool) (h : rvValidateDoc d = .ok ())
    (hp : d.src = .good → canPay = true) : rvInitDoc d canPay = .ok () := by
  unfold rvValidateDoc at h
  unfold rvInitDoc
  split at h
  · simp at h
  · rename_i hv
    simp only [hv]
    cases hs : d.src with
    | none => rfl
    | bad => simp [hs] at h
    | good =>
      simp only [hs] at h ⊢
      split at h
      · rename_i hr
        simp [hr, hp hs]
      · simp at h

/-- the documented exception: a validated document whose `from` cannot pay panics (bank-genesis fact). -/
theorem rvesting_genesis_unfunded_panics :
    ∃ d, rvValidateDoc d = .ok () ∧ (rvInitDoc d false).isPanic = true :=
  ⟨{ enable := false, reward := [{ denom := "atele", amount := some 1 }], src := .good, initReward := [("atele", 5)] }, by decide, by decide⟩

/-- weakening the validation to coin-by-coin and canonicalising with `sdk.NewCoins` is NOT total: [5atele, 7uxyz, 3atele]. -/
theorem per_coin_validation_breaks_totality :
    ∃ d, rvValidateDocPerCoin d = .ok () ∧ (rvInitDocNewCoins d true).isPanic = true :=
  ⟨{ enable := false, reward := [{ denom := "atele", amount := some 1 }], src := .good,
     initReward := [("atele", 5), ("uxyz", 7), ("atele", 3)] }, by decide, by decide⟩

end TM.NoPanic
