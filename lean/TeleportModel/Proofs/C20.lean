import TeleportModel.Model.Vesting
/-
C20 — reward vesting releases min(reward, remaining) and conserves supply.
Property theorems only (helper lemmas are in the `Lemmas` section at the top, kept local because
they are specific to this model).
-/
namespace TM.Vesting

/-! ### helper lemmas -/

/-- validated, stored parameters -/
structure Valid (cs : Coins) : Prop where
  nodup : (cs.map (·.1)).Nodup
  nonneg : ∀ c ∈ cs, 0 ≤ c.2
  denoms : ∀ c ∈ cs, validDenom c.1 = true

theorem amountOf_notin (cs : Coins) (d : Denom) (h : d ∉ cs.map (·.1)) : amountOf cs d = 0 := by
  induction cs with
  | nil => rfl
  | cons c rest ih =>
    obtain ⟨d', a⟩ := c
    simp only [List.map_cons, List.mem_cons, not_or] at h
    simp only [amountOf]
    rw [if_neg (fun e => h.1 e.symm)]
    exact ih h.2

theorem amountOf_addCoin (cs : Coins) (d : Denom) (a : Int) (x : Denom) :
    amountOf (addCoin cs d a) x = amountOf cs x + (if d = x then a else 0) := by
  induction cs with
  | nil =>
    simp only [addCoin]
    by_cases ha : a = 0
    · simp [ha, amountOf]
    · rw [if_neg ha]; simp [amountOf]
  | cons c rest ih =>
    obtain ⟨d', a'⟩ := c
    simp only [addCoin]
    by_cases hd : d' = d
    · subst hd
      rw [if_pos rfl]
      by_cases hz : a' + a = 0
      · rw [if_pos hz]
        simp only [amountOf]
        by_cases hx : d' = x
        · simp only [if_pos hx]; omega
        · simp only [if_neg hx]; omega
      · rw [if_neg hz]
        simp only [amountOf]
        by_cases hx : d' = x
        · simp only [if_pos hx]; omega
        · simp only [if_neg hx]; omega
    · rw [if_neg hd]
      simp only [amountOf, ih]
      by_cases hx : d' = x
      · simp only [if_pos hx]; omega
      · simp only [if_neg hx]

theorem addCoin_pos (cs : Coins) (d : Denom) (a : Int) (ha : 0 ≤ a)
    (h : ∀ c ∈ cs, 0 < c.2) : ∀ c ∈ addCoin cs d a, 0 < c.2 := by
  induction cs with
  | nil =>
    simp only [addCoin]
    by_cases hz : a = 0
    · simp [hz]
    · rw [if_neg hz]; intro c hc; simp at hc; subst hc; simp; omega
  | cons c rest ih =>
    obtain ⟨d', a'⟩ := c
    have hrest : ∀ c ∈ rest, 0 < c.2 := fun c hc => h c (List.mem_cons_of_mem _ hc)
    have ha' : 0 < a' := h (d', a') (List.mem_cons_self)
    simp only [addCoin]
    by_cases hd : d' = d
    · rw [if_pos hd]
      by_cases hz : a' + a = 0
      · rw [if_pos hz]; exact hrest
      · rw [if_neg hz]
        intro c hc
        rcases List.mem_cons.mp hc with rfl | hc
        · show 0 < a' + a; omega
        · exact hrest c hc
    · rw [if_neg hd]
      intro c hc
      rcases List.mem_cons.mp hc with rfl | hc
      · exact ha'
      · exact ih hrest c hc

theorem addCoin_nodup (cs : Coins) (d : Denom) (a : Int)
    (h : (cs.map (·.1)).Nodup) : ((addCoin cs d a).map (·.1)).Nodup ∧
      (∀ x, x ∈ (addCoin cs d a).map (·.1) → x = d ∨ x ∈ cs.map (·.1)) := by
  induction cs with
  | nil =>
    simp only [addCoin]
    by_cases hz : a = 0
    · simp [hz]
    · rw [if_neg hz]; simp
  | cons c rest ih =>
    obtain ⟨d', a'⟩ := c
    simp only [List.map_cons, List.nodup_cons] at h
    obtain ⟨ih1, ih2⟩ := ih h.2
    simp only [addCoin]
    by_cases hd : d' = d
    · rw [if_pos hd]
      by_cases hz : a' + a = 0
      · rw [if_pos hz]
        exact ⟨h.2, fun x hx => Or.inr (List.mem_cons_of_mem _ hx)⟩
      · rw [if_neg hz]
        refine ⟨?_, ?_⟩
        · simp only [List.map_cons, List.nodup_cons]; exact h
        · intro x hx; exact Or.inr hx
    · rw [if_neg hd]
      refine ⟨?_, ?_⟩
      · simp only [List.map_cons, List.nodup_cons]
        refine ⟨?_, ih1⟩
        intro hmem
        rcases ih2 d' hmem with e | e
        · exact hd e
        · exact h.1 e
      · intro x hx
        simp only [List.map_cons, List.mem_cons] at hx ⊢
        rcases hx with rfl | hx
        · exact Or.inr (Or.inl rfl)
        · rcases ih2 x hx with e | e
          · exact Or.inl e
          · exact Or.inr (Or.inr e)

/-- what the loop adds for one denomination -/
def share (pool : Denom → Int) (cs : Coins) (d : Denom) : Int := min (amountOf cs d) (pool d)

/-- Loop invariant: processing validated rewards `cs` (none of whose denominations is in `acc` yet
    beyond what `acc` says) yields `acc` plus, per denomination, `min reward remaining`. -/
theorem vestLoop_spec (pool : Denom → Int) (hp : ∀ d, 0 ≤ pool d) :
    ∀ (cs acc : Coins), Valid cs → (∀ c ∈ acc, 0 < c.2) → (acc.map (·.1)).Nodup →
      ∃ v, vestLoop pool cs acc = some v ∧ (∀ c ∈ v, 0 < c.2) ∧ (v.map (·.1)).Nodup ∧
        ∀ d, amountOf v d = amountOf acc d + share pool cs d := by
  intro cs
  induction cs with
  | nil =>
    intro acc _ hpos hnd
    refine ⟨acc, rfl, hpos, hnd, ?_⟩
    intro d
    have := hp d
    simp only [share, amountOf]; omega
  | cons c rest ih =>
    obtain ⟨d0, a0⟩ := c
    intro acc hv hpos hnd
    have hvrest : Valid rest := {
      nodup := by have := hv.nodup; simp only [List.map_cons, List.nodup_cons] at this; exact this.2
      nonneg := fun c hc => hv.nonneg c (List.mem_cons_of_mem _ hc)
      denoms := fun c hc => hv.denoms c (List.mem_cons_of_mem _ hc) }
    have hd0 : d0 ∉ rest.map (·.1) := by
      have := hv.nodup; simp only [List.map_cons, List.nodup_cons] at this; exact this.1
    have ha0 : 0 ≤ a0 := hv.nonneg (d0, a0) List.mem_cons_self
    have hval : validDenom d0 = true := hv.denoms (d0, a0) List.mem_cons_self
    have hrest0 : amountOf rest d0 = 0 := amountOf_notin rest d0 hd0
    simp only [vestLoop, hval, Bool.not_true, Bool.false_eq_true, if_false]
    have key : ∀ (acc' : Coins) (inc : Int), (∀ c ∈ acc', 0 < c.2) → (acc'.map (·.1)).Nodup →
        (∀ d, amountOf acc' d = amountOf acc d + (if d0 = d then inc else 0)) →
        inc = min a0 (pool d0) →
        ∃ v, vestLoop pool rest acc' = some v ∧ (∀ c ∈ v, 0 < c.2) ∧ (v.map (·.1)).Nodup ∧
          ∀ d, amountOf v d = amountOf acc d + share pool ((d0, a0) :: rest) d := by
      intro acc' inc hpos' hnd' hamt hinc
      obtain ⟨v, hv1, hv2, hv3, hv4⟩ := ih acc' hvrest hpos' hnd'
      refine ⟨v, hv1, hv2, hv3, ?_⟩
      intro d
      rw [hv4 d, hamt d]
      simp only [share, amountOf]
      by_cases hd : d0 = d
      · subst hd
        simp only [↓reduceIte, hrest0]
        have := hp d0
        omega
      · simp only [if_neg hd]; omega
    by_cases hz : pool d0 = 0
    · rw [if_pos hz]
      exact key acc 0 hpos hnd (fun d => by by_cases hd : d0 = d <;> simp [hd]) (by omega)
    · rw [if_neg hz]
      have hpd := hp d0
      by_cases hlt : pool d0 < a0
      · rw [if_pos hlt]
        exact key _ (pool d0) (addCoin_pos acc d0 _ hpd hpos) (addCoin_nodup acc d0 _ hnd).1
          (fun d => amountOf_addCoin acc d0 _ d) (by omega)
      · rw [if_neg hlt]
        exact key _ a0 (addCoin_pos acc d0 _ ha0 hpos) (addCoin_nodup acc d0 _ hnd).1
          (fun d => amountOf_addCoin acc d0 _ d) (by omega)

theorem amountOf_single_le (v : Coins) (hnd : (v.map (·.1)).Nodup) :
    ∀ c ∈ v, amountOf v c.1 = c.2 := by
  induction v with
  | nil => intro c hc; cases hc
  | cons x rest ih =>
    obtain ⟨d, a⟩ := x
    simp only [List.map_cons, List.nodup_cons] at hnd
    intro c hc
    rcases List.mem_cons.mp hc with rfl | hc
    · simp only [amountOf, if_pos]
      rw [amountOf_notin rest _ hnd.1]; omega
    · have hne : d ≠ c.1 := by
        intro e; apply hnd.1; rw [e]; exact List.mem_map_of_mem hc
      simp only [amountOf, if_neg hne]
      exact ih hnd.2 c hc

theorem isZeroCoins_amountOf (v : Coins) (h : isZeroCoins v = true) (d : Denom) : amountOf v d = 0 := by
  induction v with
  | nil => rfl
  | cons x rest ih =>
    obtain ⟨d', a⟩ := x
    simp only [isZeroCoins, List.all_cons, Bool.and_eq_true, decide_eq_true_eq] at h
    have ih' := ih (by simpa [isZeroCoins] using h.2)
    simp only [amountOf]
    split <;> omega

/-! ### property theorems -/

/-- reward listed for a denomination (0 when not listed) -/
abbrev rewardOf (s : State) (d : Denom) : Int := amountOf s.reward d

/-- **moves_min** — with validated parameters and vesting enabled, `BeginBlocker` does not panic and
    moves exactly `min (per-block reward) (remaining pool)` of every denomination from the pool to the
    fee collector; nothing else is part of the state. -/
theorem moves_min (s : State) (hen : s.enabled = true) (hv : Valid s.reward) (hp : ∀ d, 0 ≤ s.pool d) :
    ∃ s', beginBlock s = .ok s' ∧ s'.enabled = s.enabled ∧ s'.reward = s.reward ∧
      ∀ d, s'.pool d = s.pool d - min (rewardOf s d) (s.pool d) ∧
           s'.fee d = s.fee d + min (rewardOf s d) (s.pool d) := by
  obtain ⟨v, hv1, hv2, hv3, hv4⟩ := vestLoop_spec s.pool hp s.reward [] hv (by simp) (by simp)
  have hamt : ∀ d, amountOf v d = min (rewardOf s d) (s.pool d) := by
    intro d; rw [hv4 d]; simp [amountOf, share, rewardOf]
  have hb : beginBlock s = (if isZeroCoins v then .ok s
      else if canSend s.pool v then .ok (applySend s v) else .panic "SendVestedCoins failed") := by
    simp only [beginBlock, hen, Bool.not_true, Bool.false_eq_true, if_false, hv1]
  rw [hb]
  by_cases hz : isZeroCoins v = true
  · rw [if_pos hz]
    refine ⟨s, rfl, rfl, rfl, ?_⟩
    intro d
    have := isZeroCoins_amountOf v hz d
    rw [hamt d] at this
    omega
  · rw [if_neg hz]
    have hcs : canSend s.pool v = true := by
      simp only [canSend, List.all_eq_true, Bool.and_eq_true, decide_eq_true_eq]
      intro c hc
      refine ⟨hv2 c hc, ?_⟩
      have h1 := amountOf_single_le v hv3 c hc
      have h2 := hamt c.1
      omega
    rw [if_pos hcs]
    refine ⟨applySend s v, rfl, rfl, rfl, ?_⟩
    intro d
    simp only [applySend, hamt d]
    simp

/-- **no_panic** (shared with C15): validated parameters never make `BeginBlocker` panic. -/
theorem no_panic (s : State) (hv : Valid s.reward) (hp : ∀ d, 0 ≤ s.pool d) :
    (beginBlock s).isPanic = false := by
  by_cases hen : s.enabled = true
  · obtain ⟨s', h, _⟩ := moves_min s hen hv hp
    rw [h]; rfl
  · simp [beginBlock, hen, Outcome.isPanic]

/-- **idle (disabled)** — vesting disabled ⇒ nothing moves. -/
theorem idle_disabled (s : State) (h : s.enabled = false) : beginBlock s = .ok s := by
  simp [beginBlock, h]

/-- **idle (empty pool)** — pool empty ⇒ balances unchanged. -/
theorem idle_empty (s : State) (hv : Valid s.reward) (hp : ∀ d, s.pool d = 0) :
    ∃ s', beginBlock s = .ok s' ∧ ∀ d, s'.pool d = s.pool d ∧ s'.fee d = s.fee d := by
  by_cases hen : s.enabled = true
  · obtain ⟨s', h1, _, _, h2⟩ := moves_min s hen hv (fun d => by rw [hp d]; omega)
    refine ⟨s', h1, fun d => ?_⟩
    have := h2 d
    have hr : 0 ≤ rewardOf s d := by
      by_cases hm : d ∈ s.reward.map (·.1)
      · obtain ⟨c, hc, rfl⟩ := List.mem_map.mp hm
        have := amountOf_single_le s.reward hv.nodup c hc
        have := hv.nonneg c hc
        simp only [rewardOf]; omega
      · simp only [rewardOf]; rw [amountOf_notin _ _ hm]; omega
    rw [hp d] at this ⊢
    omega
  · refine ⟨s, ?_, fun d => ⟨rfl, rfl⟩⟩
    simp [beginBlock, hen]

/-- **supply_conserved / pool_nonneg** — pool + fee collector is constant per denomination and the
    pool never goes negative. -/
theorem supply_conserved (s : State) (hv : Valid s.reward) (hp : ∀ d, 0 ≤ s.pool d) :
    ∃ s', beginBlock s = .ok s' ∧ ∀ d, s'.pool d + s'.fee d = s.pool d + s.fee d ∧ 0 ≤ s'.pool d := by
  by_cases hen : s.enabled = true
  · obtain ⟨s', h1, _, _, h2⟩ := moves_min s hen hv hp
    refine ⟨s', h1, fun d => ?_⟩
    have := h2 d; have := hp d
    omega
  · refine ⟨s, ?_, fun d => ⟨rfl, hp d⟩⟩
    simp [beginBlock, hen]

/-- `validatePerBlockReward` establishes exactly the hypothesis the theorems need. -/
theorem validate_valid (es : List Entry) (h : validate es = true) : Valid (stored es) := by
  simp only [validate, Bool.and_eq_true, List.all_eq_true, decide_eq_true_eq] at h
  obtain ⟨⟨_, hall⟩, hnd⟩ := h
  refine ⟨?_, ?_, ?_⟩
  · simpa [stored, List.map_map, Function.comp_def] using hnd
  · intro c hc
    simp only [stored, List.mem_map] at hc
    obtain ⟨e, he, rfl⟩ := hc
    have := (hall e he).2
    cases ha : e.amount with
    | none => simp [ha] at this
    | some a => simp [ha] at this; simpa using this
  · intro c hc
    simp only [stored, List.mem_map] at hc
    obtain ⟨e, he, rfl⟩ := hc
    exact (hall e he).1.2

/-! ### block sequences with parameter changes in between -/

inductive Op where
  | reward (es : List Entry)
  | enable (b : Bool)
  | fund (d : Denom) (a : Nat)
  | block
  | restart      -- export of the module's genesis, validation, re-import (the pool is bank state and stays)
  | discarded    -- a BeginBlock executed on a context that is then dropped (simulation, failed transaction)

def stepOp (s : State) : Op → Outcome State
  | .reward es => (match setReward s es with | .ok s' => .ok s' | _ => .ok s)   -- rejected change: state kept
  | .enable b => .ok { s with enabled := b }
  | .fund d a => .ok (fund s d a)
  | .block => beginBlock s
  | .restart => .ok s
  | .discarded => .ok s

def runOps : State → List Op → Outcome State
  | s, [] => .ok s
  | s, o :: os => match stepOp s o with
    | .ok s' => runOps s' os
    | .err e => .err e
    | .panic p => .panic p

def Inv (s : State) : Prop := Valid s.reward ∧ ∀ d, 0 ≤ s.pool d

theorem init_inv : Inv init := by
  refine ⟨⟨by simp [init], ?_, ?_⟩, fun d => by simp [init]⟩
  · intro c hc; simp [init] at hc; subst hc; simp
  · intro c hc; simp [init] at hc; subst hc; decide

theorem stepOp_inv (s : State) (o : Op) (h : Inv s) : ∃ s', stepOp s o = .ok s' ∧ Inv s' := by
  cases o with
  | reward es =>
    simp only [stepOp, setReward]
    by_cases hv : validate es = true
    · simp only [hv, if_true]
      exact ⟨_, rfl, validate_valid es hv, h.2⟩
    · simp only [hv]
      exact ⟨s, rfl, h⟩
  | enable b => exact ⟨_, rfl, h⟩
  | fund d a =>
    refine ⟨_, rfl, h.1, fun d' => ?_⟩
    simp only [fund]
    have := h.2 d'
    split <;> omega
  | block =>
    obtain ⟨s', h1, h2⟩ := supply_conserved s h.1 h.2
    by_cases hen : s.enabled = true
    · obtain ⟨s'', h3, _, h4, _⟩ := moves_min s hen h.1 h.2
      rw [h1] at h3; cases h3
      exact ⟨s', h1, by rw [h4]; exact h.1, fun d => (h2 d).2⟩
    · have : beginBlock s = .ok s := by simp [beginBlock, hen]
      exact ⟨s, this, h⟩
  | restart => exact ⟨s, rfl, h⟩
  | discarded => exact ⟨s, rfl, h⟩

/-- **restart_identity** — exporting and re-importing the module, and executions that are discarded, leave the
    state the property talks about (parameters, pool, fee collector) unchanged; histories may contain them anywhere
    (`over_blocks`, `every_block_moves_min` range over `Op`, which has both constructors). -/
theorem restart_identity (s : State) : stepOp s .restart = .ok s ∧ stepOp s .discarded = .ok s := ⟨rfl, rfl⟩

/-- removing restarts and discarded executions from a history does not change where it ends -/
theorem restarts_invisible (ops : List Op) (s : State) :
    runOps s ops = runOps s (ops.filter (fun o => match o with | .restart => false | .discarded => false | _ => true)) := by
  induction ops generalizing s with
  | nil => rfl
  | cons o os ih =>
    cases o with
    | restart => simpa [List.filter, runOps, stepOp] using ih s
    | discarded => simpa [List.filter, runOps, stepOp] using ih s
    | enable b => simpa [List.filter, runOps, stepOp] using ih _
    | fund d a => simpa [List.filter, runOps, stepOp] using ih _
    | reward es =>
      simp only [List.filter, runOps]
      cases h : stepOp s (.reward es) with
      | ok s' => simpa using ih s'
      | err e => rfl
      | panic p => rfl
    | block =>
      simp only [List.filter, runOps]
      cases h : stepOp s .block with
      | ok s' => simpa using ih s'
      | err e => rfl
      | panic p => rfl

/-- **over_blocks** — every history of parameter changes (validated the way the chain validates them),
    funding and blocks, of any length, runs without panic and keeps the invariant under which
    `moves_min`, `idle_*` and `supply_conserved` apply to every single block of it. -/
theorem over_blocks (ops : List Op) : ∀ s, Inv s → ∃ s', runOps s ops = .ok s' ∧ Inv s' := by
  induction ops with
  | nil => intro s h; exact ⟨s, rfl, h⟩
  | cons o os ih =>
    intro s h
    obtain ⟨s1, h1, hi⟩ := stepOp_inv s o h
    obtain ⟨s2, h2, hi2⟩ := ih s1 hi
    exact ⟨s2, by simp [runOps, h1, h2], hi2⟩

/-- **every_block_moves_min** — in every history (any prefix `pre` of parameter changes, funding, toggles
    and blocks, of any length, from the initial state or any state satisfying the invariant), the next block
    moves exactly `min (reward) (remaining)` per denomination when vesting is on and nothing when it is off. -/
theorem every_block_moves_min (pre : List Op) (s : State) (h : Inv s) :
    ∃ s1 s2, runOps s pre = .ok s1 ∧ beginBlock s1 = .ok s2 ∧
      ∀ d, (s1.enabled = true →
              s2.pool d = s1.pool d - min (rewardOf s1 d) (s1.pool d) ∧
              s2.fee d = s1.fee d + min (rewardOf s1 d) (s1.pool d)) ∧
           (s1.enabled = false → s2.pool d = s1.pool d ∧ s2.fee d = s1.fee d) ∧
           s2.pool d + s2.fee d = s1.pool d + s1.fee d ∧ 0 ≤ s2.pool d := by
  obtain ⟨s1, h1, hi⟩ := over_blocks pre s h
  obtain ⟨s2, h2, h3⟩ := supply_conserved s1 hi.1 hi.2
  refine ⟨s1, s2, h1, h2, fun d => ⟨?_, ?_, (h3 d).1, (h3 d).2⟩⟩
  · intro hen
    obtain ⟨s2', h2', _, _, h4⟩ := moves_min s1 hen hi.1 hi.2
    rw [h2] at h2'; cases h2'
    exact h4 d
  · intro hdis
    have := idle_disabled s1 hdis
    rw [h2] at this; cases this
    exact ⟨rfl, rfl⟩

/-! ### non-vacuity -/

/-- A concrete validated parameter set with two denominations and a pool that runs dry on one. -/
def exState : State :=
  { enabled := true, reward := [("atele", 5), ("uatom", 5)],
    pool := fun d => if d = "atele" then 7 else if d = "uatom" then 3 else 0, fee := fun _ => 0 }

example : exState.enabled = true ∧ Valid exState.reward ∧ ∀ d, 0 ≤ exState.pool d := by
  refine ⟨rfl, ⟨by decide, ?_, ?_⟩, ?_⟩
  · intro c hc; simp [exState] at hc; rcases hc with rfl | rfl <;> simp
  · intro c hc; simp [exState] at hc; rcases hc with rfl | rfl <;> decide
  · intro d; simp only [exState]; split <;> (try split) <;> omega

example : validate [⟨"atele", some 5⟩, ⟨"uatom", some 0⟩] = true := by decide
example : validate [⟨"atele", some 5⟩, ⟨"atele", some 5⟩] = false := by decide
example : validate [⟨"A B", some 1⟩] = false := by decide
example : validate [⟨"atele", none⟩] = false := by decide

end TM.Vesting
