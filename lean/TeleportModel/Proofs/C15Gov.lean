import TeleportModel.Model.GovCycle
import TeleportModel.Proofs.C20
/-
C15 (gov life cycle part): the gov module's own EndBlocker paths — deposit burn / refund through the bank adapter, for every
proposal life-cycle state reachable from validated messages — and the staking burns never hit the callers' `panic(err)`.
-/
namespace TM.GovCycle
open TM TM.Vesting

/-- a stored `Coins` value `SendCoins` accepts (`IsValid`): positive amounts, valid denominations, no duplicates.
The EMPTY set satisfies it. -/
def CoinsOk (cs : Coins) : Prop := (∀ c ∈ cs, 0 < c.2 ∧ validDenom c.1 = true) ∧ (cs.map (·.1)).Nodup

theorem coinsOk_nil : CoinsOk [] := ⟨fun c hc => (by cases hc), by simp⟩

theorem coinsOkB_of (cs : Coins) (h : CoinsOk cs) : coinsOkB cs = true := by
  obtain ⟨h1, h2⟩ := h
  simp only [coinsOkB, Bool.and_eq_true, List.all_eq_true, decide_eq_true_eq]
  exact ⟨fun c hc => h1 c hc, h2⟩

/-! ### `Coins.Validate` establishes `CoinsOk` -/

theorem rawValidTail_spec (cs : Coins) (low : Denom) (seen : List Denom) (h : rawValidTail cs low seen = true) :
    (∀ c ∈ cs, 0 < c.2 ∧ validDenom c.1 = true) ∧ (cs.map (·.1)).Nodup ∧ (∀ c ∈ cs, c.1 ∉ seen) := by
  induction cs generalizing low seen with
  | nil => exact ⟨fun c hc => (by cases hc), by simp, fun c hc => (by cases hc)⟩
  | cons x rest ih =>
    obtain ⟨d, a⟩ := x
    simp only [rawValidTail, Bool.and_eq_true, Bool.not_eq_true', decide_eq_true_eq] at h
    obtain ⟨⟨⟨⟨hs, hv⟩, _⟩, ha⟩, hr⟩ := h
    obtain ⟨i1, i2, i3⟩ := ih d (d :: seen) hr
    have hds : d ∉ seen := by
      intro hm
      have : seen.contains d = true := List.contains_iff_mem.mpr hm
      rw [this] at hs; cases hs
    refine ⟨?_, ?_, ?_⟩
    · intro c hc
      rcases List.mem_cons.mp hc with rfl | hc
      · exact ⟨ha, hv⟩
      · exact i1 c hc
    · simp only [List.map_cons, List.nodup_cons]
      refine ⟨?_, i2⟩
      intro hm
      obtain ⟨c, hc, hcd⟩ := List.mem_map.mp hm
      exact i3 c hc (by rw [hcd]; exact List.mem_cons_self)
    · intro c hc
      rcases List.mem_cons.mp hc with rfl | hc
      · exact hds
      · intro hm; exact i3 c hc (List.mem_cons_of_mem _ hm)

/-- `MsgSubmitProposal` / `MsgDeposit` `ValidateBasic` ⇒ the amount is valid-or-empty. -/
theorem rawValid_ok (cs : Coins) (h : rawValid cs = true) : CoinsOk cs := by
  cases cs with
  | nil => exact coinsOk_nil
  | cons x rest =>
    obtain ⟨d, a⟩ := x
    simp only [rawValid, Bool.and_eq_true, decide_eq_true_eq] at h
    obtain ⟨⟨hv, ha⟩, hr⟩ := h
    obtain ⟨i1, i2, i3⟩ := rawValidTail_spec rest d [d] hr
    refine ⟨?_, ?_⟩
    · intro c hc
      rcases List.mem_cons.mp hc with rfl | hc
      · exact ⟨ha, hv⟩
      · exact i1 c hc
    · simp only [List.map_cons, List.nodup_cons]
      refine ⟨?_, i2⟩
      intro hm
      obtain ⟨c, hc, hcd⟩ := List.mem_map.mp hm
      exact i3 c hc (by rw [hcd]; exact List.mem_cons_self)

theorem msgCoinsOk_ok (cs : Coins) (h : msgCoinsOk cs = true) : CoinsOk cs := by
  simp only [msgCoinsOk, Bool.and_eq_true] at h
  exact rawValid_ok cs h.1

/-! ### amounts -/

theorem amountOf_nonneg (cs : Coins) (h : ∀ c ∈ cs, 0 < c.2) (d : Denom) : 0 ≤ amountOf cs d := by
  induction cs with
  | nil => simp [amountOf]
  | cons x rest ih =>
    obtain ⟨d', a⟩ := x
    have ha : 0 < a := h (d', a) List.mem_cons_self
    have := ih (fun c hc => h c (List.mem_cons_of_mem _ hc))
    simp only [amountOf]
    split <;> omega

theorem amountOf_addCoins (a b : Coins) (d : Denom) : amountOf (addCoins a b) d = amountOf a d + amountOf b d := by
  induction b generalizing a with
  | nil => simp [addCoins, amountOf]
  | cons x rest ih =>
    obtain ⟨x, v⟩ := x
    have : addCoins a ((x, v) :: rest) = addCoins (addCoin a x v) rest := rfl
    rw [this, ih, amountOf_addCoin]
    simp only [amountOf]
    split <;> omega

theorem addCoin_ok (a : Coins) (x : Denom) (v : Int) (ha : CoinsOk a) (hv : 0 < v) (hx : validDenom x = true) :
    CoinsOk (addCoin a x v) := by
  obtain ⟨h1, h2⟩ := ha
  obtain ⟨n1, n2⟩ := addCoin_nodup a x v h2
  have hp := addCoin_pos a x v (by omega) (fun c hc => (h1 c hc).1)
  refine ⟨?_, n1⟩
  intro c hc
  refine ⟨hp c hc, ?_⟩
  rcases n2 c.1 (List.mem_map.mpr ⟨c, hc, rfl⟩) with h | h
  · rw [h]; exact hx
  · obtain ⟨c', hc', he⟩ := List.mem_map.mp h
    rw [← he]; exact (h1 c' hc').2

theorem addCoins_ok (a b : Coins) (ha : CoinsOk a) (hb : ∀ c ∈ b, 0 < c.2 ∧ validDenom c.1 = true) :
    CoinsOk (addCoins a b) := by
  induction b generalizing a with
  | nil => exact ha
  | cons x rest ih =>
    obtain ⟨x, v⟩ := x
    have : addCoins a ((x, v) :: rest) = addCoins (addCoin a x v) rest := rfl
    rw [this]
    obtain ⟨hv, hx⟩ := hb (x, v) List.mem_cons_self
    exact ih _ (addCoin_ok a x v ha hv hx) (fun c hc => hb c (List.mem_cons_of_mem _ hc))

/-! ### the adapter -/

theorem sendFrom_some (bal : Denom → Int) (cs : Coins) (hv : CoinsOk cs) (hc : ∀ d, amountOf cs d ≤ bal d) :
    sendFrom bal cs = some (fun d => bal d - amountOf cs d) := by
  unfold sendFrom
  have h1 : coinsOkB cs = true := coinsOkB_of cs hv
  have h2 : cs.all (fun c => decide (c.2 ≤ bal c.1)) = true := by
    simp only [List.all_eq_true, decide_eq_true_eq]
    intro c hcm
    have := amountOf_single_le cs hv.2 c hcm
    have := hc c.1
    omega
  simp [h1, h2]

/-- **adapter_burn_no_error_on_valid_or_empty**: the adapter's `BurnCoins` returns no error on every `Coins` value its
cosmos-sdk callers can pass — valid (positive, valid denominations, no duplicates) or EMPTY — that the module account covers. -/
theorem adapter_burn_no_error_on_valid_or_empty (bal : Denom → Int) (cs : Coins) (hv : cs = [] ∨ CoinsOk cs)
    (hc : ∀ d, amountOf cs d ≤ bal d) : ∃ b, burnRedirect bal cs = some b ∧ ∀ d, b d = bal d - amountOf cs d := by
  have hv' : CoinsOk cs := by
    rcases hv with rfl | h
    · exact coinsOk_nil
    · exact h
  exact ⟨_, sendFrom_some bal cs hv' hc, fun _ => rfl⟩

/-- in particular the EMPTY deposit of a proposal submitted without initial deposit, whatever the balance. -/
theorem adapter_burn_empty (bal : Denom → Int) : (burnRedirect bal []).isSome = true := by
  simp [burnRedirect, sendFrom]

/-! ### the deposit invariant -/

/-- what the gov module account owes in denomination `d` to the deposits in `L`. -/
def total (L : List Dep) (d : Denom) : Int := (L.map (fun x => amountOf x.amount d)).sum

/-- every recorded deposit is valid-or-empty, and the gov module account covers all of them. -/
def Inv (s : GSt) : Prop := (∀ x ∈ s.deps, CoinsOk x.amount) ∧ (∀ d, total s.deps d ≤ s.bal d)

theorem inv_init : Inv {} := ⟨fun x hx => (by cases hx), fun d => (by simp [total])⟩

theorem total_nonneg (L : List Dep) (h : ∀ x ∈ L, CoinsOk x.amount) (d : Denom) : 0 ≤ total L d := by
  induction L with
  | nil => simp [total]
  | cons x rest ih =>
    have h1 := amountOf_nonneg x.amount (fun c hc => ((h x List.mem_cons_self).1 c hc).1) d
    have h2 := ih (fun y hy => h y (List.mem_cons_of_mem _ hy))
    simp only [total, List.map_cons, List.sum_cons] at h2 ⊢
    omega

theorem total_split (L : List Dep) (p : Dep → Bool) (d : Denom) :
    total L d = total (L.filter p) d + total (L.filter (fun x => !p x)) d := by
  induction L with
  | nil => simp [total]
  | cons x rest ih =>
    simp only [total, List.map_cons, List.sum_cons] at ih ⊢
    by_cases hp : p x = true
    · simp only [List.filter_cons, hp, ↓reduceIte, Bool.not_true, Bool.false_eq_true, List.map_cons, List.sum_cons]; omega
    · have hp' : p x = false := by simpa using hp
      simp only [List.filter_cons, hp', Bool.false_eq_true, ↓reduceIte, Bool.not_false, List.map_cons, List.sum_cons]; omega

theorem payOut_spec (L : List Dep) (bal : Denom → Int) (hv : ∀ x ∈ L, CoinsOk x.amount) (hc : ∀ d, total L d ≤ bal d) :
    ∃ b, payOut bal L = some b ∧ ∀ d, b d = bal d - total L d := by
  induction L generalizing bal with
  | nil => exact ⟨bal, rfl, fun d => (by simp [total])⟩
  | cons x rest ih =>
    have hx := hv x List.mem_cons_self
    have hrest : ∀ y ∈ rest, CoinsOk y.amount := fun y hy => hv y (List.mem_cons_of_mem _ hy)
    have hcov : ∀ d, amountOf x.amount d ≤ bal d := by
      intro d
      have h1 := hc d
      have h2 := total_nonneg rest hrest d
      simp only [total, List.map_cons, List.sum_cons] at h1 h2
      omega
    have hs := sendFrom_some bal x.amount hx hcov
    obtain ⟨b, hb, hbd⟩ := ih (fun d => bal d - amountOf x.amount d) hrest (by
      intro d
      have h1 := hc d
      simp only [total, List.map_cons, List.sum_cons] at h1 ⊢
      omega)
    refine ⟨b, ?_, ?_⟩
    · simp only [payOut, hs]; exact hb
    · intro d
      rw [hbd d]
      simp only [total, List.map_cons, List.sum_cons]
      omega

/-- settling one proposal's deposits (burn through the adapter, or refund) never hits the callers' `panic(err)`. -/
theorem settle_spec (s : GSt) (id : Nat) (h : Inv s) :
    ∃ s', settle s id = .ok s' ∧ Inv s' ∧ s'.props = s.props ∧ s'.now = s.now := by
  obtain ⟨hv, hc⟩ := h
  let p : Dep → Bool := fun x => decide (x.pid = id)
  have hf1 : s.deps.filter (·.pid = id) = s.deps.filter p := rfl
  have hf2 : s.deps.filter (·.pid ≠ id) = s.deps.filter (fun x => !p x) := by
    congr 1; funext x; simp [p]
  have hvL : ∀ x ∈ s.deps.filter p, CoinsOk x.amount := fun x hx => hv x (List.mem_filter.mp hx).1
  have hvR : ∀ x ∈ s.deps.filter (fun x => !p x), CoinsOk x.amount := fun x hx => hv x (List.mem_filter.mp hx).1
  have hcL : ∀ d, total (s.deps.filter p) d ≤ s.bal d := by
    intro d
    have h1 := total_split s.deps p d
    have h2 := total_nonneg _ hvR d
    have h3 := hc d
    omega
  obtain ⟨b, hb, hbd⟩ := payOut_spec _ s.bal hvL hcL
  refine ⟨{ s with bal := b, deps := s.deps.filter (·.pid ≠ id) }, ?_, ⟨?_, ?_⟩, rfl, rfl⟩
  · simp only [settle, hf1, hb]
  · intro x hx
    exact hv x (List.mem_filter.mp hx).1
  · intro d
    show total (s.deps.filter (·.pid ≠ id)) d ≤ b d
    rw [hf2, hbd d]
    have h1 := total_split s.deps p d
    have h3 := hc d
    omega

/-! ### `gov.EndBlocker` -/

theorem dropInactive_spec (L : List Proposal) (s : GSt) (h : Inv s) :
    ∃ s', dropInactive L s = .ok s' ∧ Inv s' := by
  induction L generalizing s with
  | nil => exact ⟨s, rfl, h⟩
  | cons p rest ih =>
    unfold dropInactive
    split
    · obtain ⟨s1, h1, hi, _, _⟩ := settle_spec s p.id h
      rw [h1]
      exact ih _ ⟨hi.1, hi.2⟩
    · exact ih s h

theorem verdictOf_noPanic (ext : List (Nat × Verdict)) (hx : ∀ e ∈ ext, e.2 ≠ .pass .panic) (id : Nat) :
    verdictOf ext id ≠ .pass .panic := by
  unfold verdictOf
  cases hf : ext.find? (·.1 = id) with
  | none => simp
  | some e => exact hx e (List.mem_of_find?_eq_some hf)

theorem setProp_inv (s : GSt) (p : Proposal) (h : Inv s) : Inv (s.setProp p) := h

theorem closeActive_spec (ext : List (Nat × Verdict)) (hx : ∀ e ∈ ext, e.2 ≠ .pass .panic)
    (L : List Proposal) (s : GSt) (h : Inv s) : ∃ s', closeActive ext L s = .ok s' ∧ Inv s' := by
  induction L generalizing s with
  | nil => exact ⟨s, rfl, h⟩
  | cons p rest ih =>
    unfold closeActive
    split
    · obtain ⟨s1, h1, hi, _, _⟩ := settle_spec s p.id h
      rw [h1]
      have hv := verdictOf_noPanic ext hx p.id
      cases hvd : verdictOf ext p.id with
      | reject => exact ih _ (setProp_inv s1 _ hi)
      | burn => exact ih _ (setProp_inv s1 _ hi)
      | pass r =>
        cases r with
        | ok => exact ih _ (setProp_inv s1 _ hi)
        | err => exact ih _ (setProp_inv s1 _ hi)
        | panic => exact absurd hvd hv
    · exact ih s h

/-- `gov.EndBlocker` in a state satisfying the deposit invariant: no panic on the deposit paths (dropped / vetoed ⇒ burned
through the adapter; rejected / passed / failed ⇒ refunded), provided no handler panics (`TM.NoPanic`). -/
theorem endBlock_spec (ext : List (Nat × Verdict)) (hx : ∀ e ∈ ext, e.2 ≠ .pass .panic) (s : GSt) (h : Inv s) :
    ∃ s', endBlock ext s = .ok s' ∧ Inv s' := by
  unfold endBlock
  obtain ⟨s1, h1, hi⟩ := dropInactive_spec s.props s h
  rw [h1]
  exact closeActive_spec ext hx s1.props s1 hi

/-! ### messages keep the invariant -/

theorem upsert_spec (L : List Dep) (id : Nat) (w : String) (raw : Coins) (hraw : CoinsOk raw)
    (hv : ∀ x ∈ L, CoinsOk x.amount) :
    (∀ x ∈ upsert L id w raw, CoinsOk x.amount) ∧ ∀ d, total (upsert L id w raw) d = total L d + amountOf raw d := by
  induction L with
  | nil =>
    refine ⟨?_, ?_⟩
    · intro x hx
      simp only [upsert, List.mem_singleton] at hx
      subst hx; exact hraw
    · intro d; simp [upsert, total]
  | cons x rest ih =>
    obtain ⟨i1, i2⟩ := ih (fun y hy => hv y (List.mem_cons_of_mem _ hy))
    unfold upsert
    split
    · refine ⟨?_, ?_⟩
      · intro y hy
        rcases List.mem_cons.mp hy with rfl | hy
        · exact addCoins_ok _ _ (hv x List.mem_cons_self) hraw.1
        · exact hv y (List.mem_cons_of_mem _ hy)
      · intro d
        simp only [total, List.map_cons, List.sum_cons, amountOf_addCoins]
        omega
    · refine ⟨?_, ?_⟩
      · intro y hy
        rcases List.mem_cons.mp hy with rfl | hy
        · exact hv _ List.mem_cons_self
        · exact i1 y hy
      · intro d
        have := i2 d
        simp only [total, List.map_cons, List.sum_cons] at this ⊢
        omega

theorem addDeposit_inv (s s' : GSt) (id : Nat) (w : String) (raw : Coins) (cp : Bool) (h : Inv s)
    (hraw : msgCoinsOk raw = true) (hr : addDeposit s id w raw cp = .ok s') : Inv s' := by
  unfold addDeposit at hr
  split at hr
  · simp at hr
  · split at hr
    · simp at hr
    · split at hr
      · simp at hr
      · simp only [Outcome.ok.injEq] at hr
        subst hr
        obtain ⟨u1, u2⟩ := upsert_spec s.deps id w raw (msgCoinsOk_ok raw hraw) h.1
        refine ⟨u1, ?_⟩
        intro d
        have := h.2 d
        show total (upsert s.deps id w raw) d ≤ s.bal d + amountOf raw d
        rw [u2 d]; omega

theorem submitExec_inv (s s' : GSt) (w : String) (raw : Coins) (hOk cp : Bool) (h : Inv s)
    (hraw : msgCoinsOk raw = true) (hr : submitExec s w raw hOk cp = .ok s') : Inv s' := by
  unfold submitExec at hr
  split at hr
  · simp at hr
  · exact addDeposit_inv _ s' _ w raw cp (by exact h) hraw hr

/-! ### histories -/

inductive Op
  | submit (vbRest : Bool) (who : String) (raw : Coins) (hOk canPay : Bool)
  | deposit (vbRest : Bool) (id : Nat) (who : String) (raw : Coins) (canPay : Bool)
  | advance (secs : Nat)
  | endBlock (ext : List (Nat × Verdict))

/-- one block-level step as the chain performs it: a message is executed only when its `ValidateBasic` accepts (and its
effects are kept only on success); `EndBlocker` runs with NO recover. -/
def step (s : GSt) : Op → Out GSt
  | .submit vb who raw hOk cp =>
    if vb && msgCoinsOk raw then (match submitExec s who raw hOk cp with | .ok s' => .ok s' | _ => .ok s) else .ok s
  | .deposit vb id who raw cp =>
    if vb && msgCoinsOk raw then (match addDeposit s id who raw cp with | .ok s' => .ok s' | _ => .ok s) else .ok s
  | .advance n => .ok { s with now := s.now + n }
  | .endBlock ext => endBlock ext s

def run : GSt → List Op → Out GSt
  | s, [] => .ok s
  | s, o :: rest => match step s o with | .ok s' => run s' rest | .err e => .err e | .panic m => .panic m

def handlersFine : Op → Prop
  | .endBlock ext => ∀ e ∈ ext, e.2 ≠ .pass .panic
  | _ => True

theorem step_spec (s : GSt) (o : Op) (h : Inv s) (ho : handlersFine o) : ∃ s', step s o = .ok s' ∧ Inv s' := by
  cases o with
  | submit vb who raw hOk cp =>
    simp only [step]
    split
    · rename_i hc
      simp only [Bool.and_eq_true] at hc
      cases hr : submitExec s who raw hOk cp with
      | ok s' => exact ⟨s', rfl, submitExec_inv s s' who raw hOk cp h hc.2 hr⟩
      | err e => exact ⟨s, rfl, h⟩
      | panic m => exact ⟨s, rfl, h⟩
    · exact ⟨s, rfl, h⟩
  | deposit vb id who raw cp =>
    simp only [step]
    split
    · rename_i hc
      simp only [Bool.and_eq_true] at hc
      cases hr : addDeposit s id who raw cp with
      | ok s' => exact ⟨s', rfl, addDeposit_inv s s' id who raw cp h hc.2 hr⟩
      | err e => exact ⟨s, rfl, h⟩
      | panic m => exact ⟨s, rfl, h⟩
    · exact ⟨s, rfl, h⟩
  | advance n => exact ⟨_, rfl, h⟩
  | endBlock ext => exact endBlock_spec ext ho s h

/-- **gov_endblock_no_panic**: for every history of submit / deposit messages (any coin lists: only what `ValidateBasic`
accepts is executed — including EMPTY deposits), time advances and EndBlockers (any tally verdicts, any non-panicking
handler outcomes), starting from the empty gov state, no EndBlocker panics on its deposit paths and the deposit invariant
holds throughout: every proposal life-cycle state reachable from validated messages is covered. -/
theorem gov_endblock_no_panic (ops : List Op) (ho : ∀ o ∈ ops, handlersFine o) :
    ∀ s, Inv s → ∃ s', run s ops = .ok s' ∧ Inv s' := by
  induction ops with
  | nil => intro s h; exact ⟨s, rfl, h⟩
  | cons o rest ih =>
    intro s h
    obtain ⟨s1, h1, hi⟩ := step_spec s o h (ho o List.mem_cons_self)
    obtain ⟨s2, h2, hi2⟩ := ih (fun x hx => ho x (List.mem_cons_of_mem _ hx)) s1 hi
    exact ⟨s2, by simp only [run, h1]; exact h2, hi2⟩

theorem gov_endblock_no_panic_from_genesis (ops : List Op) (ho : ∀ o ∈ ops, handlersFine o) :
    (run {} ops).isPanic = false := by
  obtain ⟨s', h, _⟩ := gov_endblock_no_panic ops ho {} inv_init
  rw [h]; rfl

/-! ### why the adapter must accept the empty set; staking burns -/

/-- the adapter with a MsgSend-style `IsAllPositive` check (seeded change C15-7): errors on the empty set. -/
def burnRedirectStrict (bal : Denom → Int) (cs : Coins) : Option (Denom → Int) :=
  if cs.isEmpty || !coinsOkB cs then none else sendFrom bal cs

theorem strict_adapter_rejects_empty (bal : Denom → Int) : burnRedirectStrict bal [] = none := rfl

/-- a proposal submitted WITHOUT initial deposit records an empty deposit (reachable, validated state). -/
example : (match submitExec {} "a" [] true true with
           | .ok s => s.deps.map (fun x => (x.pid, x.who, x.amount)) | _ => []) = [(1, "a", [])] := by decide

/-- staking `burnBondedTokens` / `burnNotBondedTokens` through the adapter: no `panic(err)` when the pool covers the amount
(zero / negative amounts are skipped before the adapter is called). -/
theorem staking_burn_no_panic (pool amt : Int) (h : amt ≤ pool) : (stakingBurn pool amt).isPanic = false := by
  unfold stakingBurn
  split
  · rfl
  · rename_i hpos
    have hok : CoinsOk [("stake", amt)] := by
      refine ⟨?_, by simp⟩
      intro c hc
      simp only [List.mem_singleton] at hc
      subst hc
      have hvd : validDenom "stake" = true := by decide
      exact ⟨by simpa using (by omega : 0 < amt), hvd⟩
    have hs := sendFrom_some (fun _ => pool) [("stake", amt)] hok (by
      intro d; simp only [amountOf]; split <;> omega)
    simp only [burnRedirect, hs]; rfl

theorem slash_no_panic (b n bb bn : Int) (h1 : bb ≤ b) (h2 : bn ≤ n) : (slash b n bb bn).isPanic = false := by
  unfold slash
  have p1 := staking_burn_no_panic b bb h1
  have p2 := staking_burn_no_panic n bn h2
  cases hb : stakingBurn b bb with
  | ok x =>
    cases hn : stakingBurn n bn with
    | ok y => rfl
    | err e => rfl
    | panic m => rw [hn] at p2; simp [Outcome.isPanic] at p2
  | err e => rfl
  | panic m => rw [hb] at p1; simp [Outcome.isPanic] at p1

end TM.GovCycle
