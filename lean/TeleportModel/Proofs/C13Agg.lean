import TeleportModel.Proofs.C13
/-
C13 — the aggregate (token pair) genesis round trip.

`AggKeys env s` is the registry invariant of C12 restricted to what the genesis code needs: the aggregate store is sorted and
  * every `1 ‖ id ↦ pair` entry is stored under the pair's own id (`GetID()` = hash of the ERC20 address STRING AS STORED ‖ "|" ‖
    Denoms[0]; a genesis file that spells the address differently produces another id — the model takes the stored string), its
    ERC20 index entry and the index entry of EVERY denomination it lists exist and point to that id;
  * every `2 ‖ address ↦ id` and `3 ‖ denom ↦ id` index entry points to a stored pair that has this address / lists this
    denomination.
Because the second clause quantifies over every index entry and the first over every listed denomination, an InitGenesis that
re-indexes only `Denoms[0]` cannot reproduce a store with a multi-denomination pair (`headOnly_loses_denoms`).
-/
namespace TM.Genesis
open TM TM.GKv

theorem aggKeys_iff (env : Env) (s : Store) :
    AggKeys env s ↔ (Sorted s ∧ ∀ kv ∈ s, aggKeyOk env s kv.1 kv.2 = true) := by
  unfold AggKeys aggKeysB
  simp only [Bool.and_eq_true, sortedB_iff, List.all_eq_true]

theorem mem_exportAgg {s : Store} {b : Bytes} : b ∈ exportAgg s ↔ ∃ id, (aggPairKey id, b) ∈ s := by
  unfold exportAgg
  simp only [List.mem_map, mem_iter]
  constructor
  · rintro ⟨kv, ⟨hm, hp⟩, e⟩
    obtain ⟨r, hr⟩ := (isPrefixOf_iff _ _).mp hp
    obtain ⟨k, v⟩ := kv
    simp only at hr e
    subst e; subst hr
    exact ⟨r, hm⟩
  · rintro ⟨id, hm⟩
    exact ⟨(aggPairKey id, b), ⟨hm, by simp [aggPairKey, List.isPrefixOf]⟩, rfl⟩

theorem aggPair_ok {env : Env} {s : Store} {id b : Bytes} (h : aggKeyOk env s (aggPairKey id) b = true) :
    env.pairId b = id ∧ get s (aggErc20Key (env.pairErc20 b)) = some id ∧
      ∀ d ∈ env.pairDenoms b, get s (aggDenomKey d) = some id := by
  simp only [aggKeyOk, aggPairKey, Bool.and_eq_true, beq_iff_eq, List.all_eq_true] at h
  exact ⟨h.1.1, h.1.2, h.2⟩

theorem mem_aggPairWrites {env : Env} {b : Bytes} {kv : Bytes × Bytes} :
    kv ∈ aggPairWrites env b ↔
      (kv = (aggPairKey (env.pairId b), b) ∨ (∃ d ∈ env.pairDenoms b, kv = (aggDenomKey d, env.pairId b))
        ∨ kv = (aggErc20Key (env.pairErc20 b), env.pairId b)) := by
  simp only [aggPairWrites, List.cons_append, List.mem_cons, List.mem_append, List.mem_map, List.mem_singleton,
    List.not_mem_nil, or_false]
  constructor
  · rintro (h | ⟨d, hd, h⟩ | h)
    · exact Or.inl h
    · exact Or.inr (Or.inl ⟨d, hd, h.symm⟩)
    · exact Or.inr (Or.inr h)
  · rintro (h | ⟨d, hd, h⟩ | h)
    · exact Or.inl h
    · exact Or.inr (Or.inl ⟨d, hd, h.symm⟩)
    · exact Or.inr (Or.inr h)

/-- (A) InitGenesis of the export writes only entries of the store -/
theorem agg_writes_sub {env : Env} {s : Store} (h : AggKeys env s) :
    ∀ kv, kv ∈ (exportAgg s).flatMap (aggPairWrites env) → kv ∈ s := by
  obtain ⟨hS, hK⟩ := (aggKeys_iff env s).mp h
  intro kv hkv
  obtain ⟨b, hb, hw⟩ := List.mem_flatMap.mp hkv
  obtain ⟨id, hm⟩ := mem_exportAgg.mp hb
  obtain ⟨h1, h2, h3⟩ := aggPair_ok (id := id) (b := b) (hK _ hm)
  rcases mem_aggPairWrites.mp hw with e | ⟨d, hd, e⟩ | e
  · subst e; rw [h1]; exact hm
  · subst e; rw [h1]; exact (mem_iff_get hS _ _).mpr (h3 d hd)
  · subst e; rw [h1]; exact (mem_iff_get hS _ _).mpr h2

/-- (B) every entry of the store is written back -/
theorem agg_sub_writes {env : Env} {s : Store} (h : AggKeys env s) :
    ∀ kv, kv ∈ s → kv ∈ (exportAgg s).flatMap (aggPairWrites env) := by
  obtain ⟨hS, hK⟩ := (aggKeys_iff env s).mp h
  intro kv hkv
  obtain ⟨k, v⟩ := kv
  have hok : aggKeyOk env s k v = true := hK _ hkv
  unfold aggKeyOk at hok
  split at hok
  · next id =>
    -- a pair entry
    have := aggPair_ok (id := id) (b := v) (hK _ hkv)
    refine List.mem_flatMap.mpr ⟨v, mem_exportAgg.mpr ⟨id, hkv⟩, mem_aggPairWrites.mpr (Or.inl ?_)⟩
    rw [this.1]; rfl
  · next e =>
    split at hok
    · next b hg =>
      simp only [Bool.and_eq_true, beq_iff_eq] at hok
      have hb : (aggPairKey v, b) ∈ s := (mem_iff_get hS _ _).mpr hg
      refine List.mem_flatMap.mpr ⟨b, mem_exportAgg.mpr ⟨v, hb⟩, mem_aggPairWrites.mpr (Or.inr (Or.inr ?_))⟩
      rw [hok.1, hok.2]; rfl
    · simp at hok
  · next d =>
    split at hok
    · next b hg =>
      simp only [Bool.and_eq_true, beq_iff_eq, List.contains_iff_mem] at hok
      have hb : (aggPairKey v, b) ∈ s := (mem_iff_get hS _ _).mpr hg
      refine List.mem_flatMap.mpr ⟨b, mem_exportAgg.mpr ⟨v, hb⟩, mem_aggPairWrites.mpr (Or.inr (Or.inl ⟨d, hok.1, ?_⟩))⟩
      rw [hok.2]; rfl
    · simp at hok
  · simp at hok

/-- the token-pair store round-trips, for pairs with ANY number of denominations -/
theorem roundtrip_agg {env : Env} {s : Store} (h : AggKeys env s) : initAgg env (exportAgg s) = s :=
  setAll_nil_eq ((aggKeys_iff env s).mp h).1 _ (agg_writes_sub h) (agg_sub_writes h)

/-- **x/aggregate genesis round trip** (token pairs + parameters) -/
theorem roundtrip_aggregate {env : Env} {st : AggState} (h : AggKeys env st.a) (hp : Sorted st.p) :
    initAggregate env (exportAggregate st) = st := by
  cases st with
  | mk a p =>
    simp only [initAggregate, exportAggregate]
    rw [roundtrip_agg h, roundtrip_params hp]

theorem export_idempotent_aggregate {env : Env} {st : AggState} (h : AggKeys env st.a) (hp : Sorted st.p) :
    exportAggregate (initAggregate env (exportAggregate st)) = exportAggregate st := by
  rw [roundtrip_aggregate h hp]

/-! ### the export validates -/

theorem validateAggAux_of {env : Env} (l : List Bytes) (seenE seenD : List Bytes)
    (hv : ∀ b ∈ l, env.validPair b = true ∧ env.pairErc20 b ∉ seenE ∧ (env.pairDenoms b).headD [] ∉ seenD)
    (hp : l.Pairwise (fun b1 b2 => env.pairErc20 b1 ≠ env.pairErc20 b2 ∧
      (env.pairDenoms b1).headD [] ≠ (env.pairDenoms b2).headD [])) :
    validateAggAux env l seenE seenD = true := by
  induction l generalizing seenE seenD with
  | nil => rfl
  | cons b r ih =>
    obtain ⟨hb, hr⟩ := List.pairwise_cons.mp hp
    obtain ⟨h1, h2, h3⟩ := hv b (List.mem_cons_self ..)
    simp only [validateAggAux, Bool.and_eq_true, Bool.not_eq_true', List.contains_eq_mem, decide_eq_false_iff_not]
    refine ⟨⟨⟨h2, h3⟩, h1⟩, ih _ _ ?_ hr⟩
    intro b' hb'
    obtain ⟨g1, g2, g3⟩ := hv b' (List.mem_cons_of_mem _ hb')
    refine ⟨g1, ?_, ?_⟩
    · intro hm
      rcases List.mem_cons.mp hm with e | hm'
      · exact (hb b' hb').1 e.symm
      · exact g2 hm'
    · intro hm
      rcases List.mem_cons.mp hm with e | hm'
      · exact (hb b' hb').2 e.symm
      · exact g3 hm'

/-- the exported pairs pass `GenesisState.Validate`: no contract and no first denomination occurs twice (both index entries
point to ONE id), every pair validates -/
theorem export_validates_aggregate {env : Env} {st : AggState} (h : AggKeys env st.a) (hw : AggWellFormed env st.a) :
    validateAggregate env (exportAggregate st) = true := by
  obtain ⟨hS, hK⟩ := (aggKeys_iff env st.a).mp h
  unfold AggWellFormed aggWellFormedB at hw
  simp only [List.all_eq_true, Bool.and_eq_true, Bool.not_eq_true'] at hw
  simp only [validateAggregate, exportAggregate, validateAgg]
  apply validateAggAux_of
  · intro b hb
    exact ⟨(hw b hb).1, by simp, by simp⟩
  · -- distinct positions of the sorted store carry distinct ids; equal contract / first denomination would force equal ids
    unfold exportAgg
    rw [List.pairwise_map]
    have hsorted : (iter st.a [1]).Pairwise (fun a b => blt a.1 b.1 = true) := sorted_iter hS [1]
    refine List.Pairwise.imp_of_mem ?_ hsorted
    intro x y hx hy hlt
    obtain ⟨hxm, hxp⟩ := (mem_iter _ _ _).mp hx
    obtain ⟨hym, hyp⟩ := (mem_iter _ _ _).mp hy
    obtain ⟨rx, ex⟩ := (isPrefixOf_iff _ _).mp hxp
    obtain ⟨ry, ey⟩ := (isPrefixOf_iff _ _).mp hyp
    obtain ⟨kx, vx⟩ := x
    obtain ⟨ky, vy⟩ := y
    simp only at ex ey hlt ⊢
    subst ex; subst ey
    have hne : rx ≠ ry := by
      intro e; subst e; rw [blt_irrefl] at hlt; exact absurd hlt (by simp)
    obtain ⟨a1, a2, a3⟩ := aggPair_ok (id := rx) (hK _ hxm)
    obtain ⟨b1, b2, b3⟩ := aggPair_ok (id := ry) (hK _ hym)
    have nx := (hw vx (mem_exportAgg.mpr ⟨rx, hxm⟩)).2
    have ny := (hw vy (mem_exportAgg.mpr ⟨ry, hym⟩)).2
    constructor
    · intro e
      rw [e, b2] at a2
      injection a2 with a2
      exact hne a2.symm
    · intro e
      cases hdx : env.pairDenoms vx with
      | nil => rw [hdx] at nx; simp at nx
      | cons dx tx =>
        cases hdy : env.pairDenoms vy with
        | nil => rw [hdy] at ny; simp at ny
        | cons dy ty =>
          rw [hdx, hdy] at e
          simp only [List.headD_cons] at e
          have g1 := a3 dx (by rw [hdx]; exact List.mem_cons_self ..)
          have g2 := b3 dy (by rw [hdy]; exact List.mem_cons_self ..)
          rw [e, g2] at g1
          injection g1 with g1
          exact hne g1.symm

/-! ### why an import that indexes only `Denoms[0]` cannot be right -/

/-- a toy environment: a pair blob `[id, erc20, d1, d2, …]` -/
def toyEnv : Env :=
  { validClient := fun _ => true, validCons := fun _ => true,
    pairId := fun b => b.take 1, pairErc20 := fun b => (b.drop 1).take 1,
    pairDenoms := fun b => (b.drop 2).map (fun x => [x]), validPair := fun _ => true }

/-- one pair with two denominations -/
def toyAgg : Store := aggSetPair toyEnv [] [7, 9, 100, 101]

example : AggKeys toyEnv toyAgg := by unfold AggKeys; decide
example : initAgg toyEnv (exportAgg toyAgg) = toyAgg := by decide
/-- the seeded `Denoms[0]`-only import loses the index entry of the second denomination -/
theorem headOnly_loses_denoms : AggKeys toyEnv toyAgg ∧ initAggHeadOnly toyEnv (exportAgg toyAgg) ≠ toyAgg ∧
    get (initAggHeadOnly toyEnv (exportAgg toyAgg)) (aggDenomKey [101]) = none := by unfold AggKeys; decide

end TM.Genesis
