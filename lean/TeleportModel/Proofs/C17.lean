import TeleportModel.Model.Adapter
/-
C17 — system-contract staking / governance act for the caller only, atomically.
Theorems about `Model/Adapter.lean`, for every external decoder / router / native handler (`Env`), every log list and
every call shape.
-/
namespace TM.Adapter

variable {δ ν : Type}

/-! ### 1. The hook chain executes exactly the filtered, mapped logs — order and multiplicity -/

theorem hook_eq_runItems (env : Env δ ν) (addr : Addr) (kinds : List EvKind) (logs : List (Log δ)) :
    ∀ n, hook env addr kinds n logs
        = runItems env n ((logs.filter (relevant addr kinds)).map (toItem env kinds)) := by
  induction logs with
  | nil => intro n; rfl
  | cons l ls ih =>
    intro n
    by_cases ha : (l.address == addr) = true
    · cases ht : l.topics with
      | nil =>
        have hrel : relevant addr kinds l = true := by simp [relevant, ha, ht]
        simp only [hook, ha, ↓reduceIte, ht, List.filter_cons, hrel, List.map_cons, runItems, toItem, runItem]
      | cons t ts =>
        cases hl : lookup kinds t with
        | none =>
          have hrel : relevant addr kinds l = false := by simp [relevant, ht, hl]
          simp only [hook, ha, ↓reduceIte, ht, hl, List.filter_cons, hrel, Bool.false_eq_true]
          exact ih n
        | some k =>
          have hrel : relevant addr kinds l = true := by simp [relevant, ha, ht, hl]
          simp only [hook, ha, ↓reduceIte, ht, hl, List.filter_cons, hrel, List.map_cons, runItems]
          cases hr : (runItem env n (toItem env kinds l)).res with
          | ok n' => simp only [ih n']
          | err e => rfl
          | panic p => rfl
    · have hrel : relevant addr kinds l = false := by simp [relevant, ha]
      simp only [hook, ha, Bool.false_eq_true, ↓reduceIte, List.filter_cons, hrel]
      exact ih n

theorem runItems_append (env : Env δ ν) (a b : List (Outcome Msg)) :
    ∀ n, runItems env n (a ++ b)
        = match (runItems env n a).res with
          | .ok n' => { res := (runItems env n' b).res, trace := (runItems env n a).trace ++ (runItems env n' b).trace }
          | _ => runItems env n a := by
  induction a with
  | nil => intro n; simp [runItems]
  | cons it rest ih =>
    intro n
    simp only [List.cons_append, runItems]
    cases hr : (runItem env n it).res with
    | ok n' =>
      simp only [ih n']
      cases hr2 : (runItems env n' rest).res with
      | ok n'' => simp [List.append_assoc]
      | err e => simp [hr2]
      | panic p => simp [hr2]
    | err e => simp [hr]
    | panic p => simp [hr]

/-- **executes_exactly_filtered**: the hook chain (`PostTxProcessing` of the staking adapter, then of the gov
adapter) is the sequential execution of `(logs.filter (address = system contract ∧ first topic in the handler
table)).map toItem` — same order, same multiplicity, nothing else; result and trace of executed messages agree. -/
theorem executes_exactly_filtered (env : Env δ ν) (n : ν) (logs : List (Log δ)) :
    postTx env n logs = runItems env n (expectedItems env logs) := by
  simp only [postTx, expectedItems, itemsOf, runItems_append, hook_eq_runItems, SysC.addr, kindsOf]
  cases (runItems env n (List.map (toItem env stakingKinds) (List.filter (relevant stakingAddr stakingKinds) logs))).res <;> rfl

/-- messages among a list of items. -/
def okMsgs : List (Outcome Msg) → List Msg
  | [] => []
  | .ok m :: rest => m :: okMsgs rest
  | _ :: rest => okMsgs rest

theorem runItems_trace_prefix (env : Env δ ν) (items : List (Outcome Msg)) :
    ∀ n, ∃ rest, okMsgs items = (runItems env n items).trace ++ rest := by
  induction items with
  | nil => intro n; exact ⟨[], rfl⟩
  | cons it rest ih =>
    intro n
    cases it with
    | ok m =>
      simp only [runItems, runItem, okMsgs]
      cases hr : executeMsg env n m with
      | ok n' => obtain ⟨r, hr'⟩ := ih n'; exact ⟨r, by simp [hr']⟩
      | err e => exact ⟨okMsgs rest, by simp⟩
      | panic p => exact ⟨okMsgs rest, by simp⟩
    | err e => exact ⟨okMsgs rest, by simp [runItems, runItem, okMsgs]⟩
    | panic p => exact ⟨okMsgs rest, by simp [runItems, runItem, okMsgs]⟩

theorem runItems_ok_all (env : Env δ ν) (items : List (Outcome Msg)) :
    ∀ n n', (runItems env n items).res = .ok n' →
      (runItems env n items).trace = okMsgs items ∧ items = (okMsgs items).map .ok := by
  induction items with
  | nil => intro n n' _; exact ⟨rfl, rfl⟩
  | cons it rest ih =>
    intro n n' h
    cases it with
    | ok m =>
      simp only [runItems, runItem] at h ⊢
      cases hr : executeMsg env n m with
      | ok n1 =>
        simp only [hr] at h ⊢
        obtain ⟨h1, h2⟩ := ih n1 n' h
        refine ⟨by simp [okMsgs, h1], ?_⟩
        simp only [okMsgs, List.map_cons]; rw [← h2]
      | err e => simp [hr] at h
      | panic p => simp [hr] at h
    | err e => simp [runItems, runItem] at h
    | panic p => simp [runItems, runItem] at h

/-- the messages handed to `ExecuteMsg` are always an initial segment of the filtered/mapped logs, and all of
them (each exactly once, in order) when the hook chain succeeds. -/
theorem executed_prefix (env : Env δ ν) (n : ν) (logs : List (Log δ)) :
    ∃ rest, okMsgs (expectedItems env logs) = (postTx env n logs).trace ++ rest := by
  rw [executes_exactly_filtered]; exact runItems_trace_prefix env _ n

theorem executed_all_of_ok (env : Env δ ν) (n n' : ν) (logs : List (Log δ))
    (h : (postTx env n logs).res = .ok n') :
    (postTx env n logs).trace = okMsgs (expectedItems env logs) ∧
      expectedItems env logs = (okMsgs (expectedItems env logs)).map .ok := by
  rw [executes_exactly_filtered] at h ⊢; exact runItems_ok_all env _ n n' h

/-! ### 2. Call frames: which logs carry a system-contract address -/

def notSys (a : Addr) : Prop := a ≠ stakingAddr ∧ a ≠ govAddr

/-- provenance invariant of a receipt: a log with `origin = some (sender, call)` is exactly what the system contract
emits for `call` when entered by CALL from `sender`; every other log carries an address that is not a system contract. -/
def GOK (env : Env δ ν) (g : GLog δ) : Prop :=
  match g.origin with
  | some (s, c) => g.log = sysLog env c.contract.addr s c
  | none => notSys g.log.address

theorem bne_of_wf {a b : Addr} (h : (a != b) = true) : a ≠ b := by
  intro e; subst e; simp at h

mutual
theorem runNode_gok (env : Env δ ν) : ∀ (nd : Node δ) (f : Frame) (st : Evm), notSys f.self → nd.wf = true →
    ∀ st' gl, runNode env f st nd = some (st', gl) → ∀ g ∈ gl, GOK env g
  | .proxy k ignore target body, f, st, hf, hwf, st', gl, h, g, hg => by
    simp only [Node.wf, Bool.and_eq_true] at hwf
    obtain ⟨⟨h1, h2⟩, h3⟩ := hwf
    have ht : notSys target := ⟨bne_of_wf h1, bne_of_wf h2⟩
    simp only [runNode] at h
    cases k with
    | call =>
      simp only at h
      cases hr : runNodes env { self := target, sender := f.self } (bump target st) body with
      | some r =>
        rw [hr] at h; simp only [Option.some.injEq] at h
        obtain ⟨st2, gl2⟩ := r
        simp only [Prod.mk.injEq] at h
        exact runNodes_gok env body _ _ ht h3 st2 gl2 hr g (h.2 ▸ hg)
      | none =>
        rw [hr] at h
        by_cases hi : ignore = true
        · simp only [hi, ↓reduceIte, Option.some.injEq, Prod.mk.injEq] at h
          rw [← h.2] at hg; simp at hg
        · simp [hi] at h
    | dcall =>
      simp only at h
      cases hr : runNodes env f (bump f.self st) body with
      | some r =>
        rw [hr] at h; simp only [Option.some.injEq] at h
        obtain ⟨st2, gl2⟩ := r
        simp only [Prod.mk.injEq] at h
        exact runNodes_gok env body _ _ hf h3 st2 gl2 hr g (h.2 ▸ hg)
      | none =>
        rw [hr] at h
        by_cases hi : ignore = true
        · simp only [hi, ↓reduceIte, Option.some.injEq, Prod.mk.injEq] at h
          rw [← h.2] at hg; simp at hg
        · simp [hi] at h
    | scall =>
      simp only at h
      by_cases hi : ignore = true
      · simp only [hi, ↓reduceIte, Option.some.injEq, Prod.mk.injEq] at h
        rw [← h.2] at hg; simp at hg
      · simp [hi] at h
    | vcall =>
      simp only at h
      cases hr : runNodes env { self := target, sender := f.self } (bump target st) body with
      | some r =>
        rw [hr] at h; simp only [Option.some.injEq] at h
        obtain ⟨st2, gl2⟩ := r
        simp only [Prod.mk.injEq] at h
        exact runNodes_gok env body _ _ ht h3 st2 gl2 hr g (h.2 ▸ hg)
      | none =>
        rw [hr] at h
        by_cases hi : ignore = true
        · simp only [hi, ↓reduceIte, Option.some.injEq, Prod.mk.injEq] at h
          rw [← h.2] at hg; simp at hg
        · simp [hi] at h
  | .sys .scall ig c, f, st, hf, _, st', gl, h, g, hg => by
    simp only [runNode] at h
    by_cases hi : ig = true
    · simp only [hi, ↓reduceIte, Option.some.injEq, Prod.mk.injEq] at h
      rw [← h.2] at hg; simp at hg
    · simp [hi] at h
  | .sys .vcall ig c, f, st, hf, _, st', gl, h, g, hg => by
    simp only [runNode] at h
    by_cases hi : ig = true
    · simp only [hi, ↓reduceIte, Option.some.injEq, Prod.mk.injEq] at h
      rw [← h.2] at hg; simp at hg
    · simp [hi] at h
  | .sys .call ig c, f, st, hf, _, st', gl, h, g, hg => by
    simp only [runNode, Option.some.injEq, Prod.mk.injEq] at h
    rw [← h.2] at hg; simp only [List.mem_singleton] at hg
    subst hg; simp [GOK]
  | .sys .dcall ig c, f, st, hf, _, st', gl, h, g, hg => by
    simp only [runNode, Option.some.injEq, Prod.mk.injEq] at h
    rw [← h.2] at hg; simp only [List.mem_singleton] at hg
    subst hg; simpa [GOK, sysLog] using hf
  | .sysBad k ig c, f, st, hf, _, st', gl, h, g, hg => by
    simp only [runNode] at h
    by_cases hi : ig = true
    · simp only [hi, ↓reduceIte, Option.some.injEq, Prod.mk.injEq] at h
      rw [← h.2] at hg; simp at hg
    · simp [hi] at h
  | .rawlog topics data, f, st, hf, _, st', gl, h, g, hg => by
    simp only [runNode, Option.some.injEq, Prod.mk.injEq] at h
    rw [← h.2] at hg; simp only [List.mem_singleton] at hg
    subst hg; simpa [GOK] using hf
  | .revert, f, st, hf, _, st', gl, h, g, hg => by
    simp [runNode] at h
theorem runNodes_gok (env : Env δ ν) : ∀ (nds : List (Node δ)) (f : Frame) (st : Evm), notSys f.self → Node.wfs nds = true →
    ∀ st' gl, runNodes env f st nds = some (st', gl) → ∀ g ∈ gl, GOK env g
  | [], f, st, hf, _, st', gl, h, g, hg => by
    simp only [runNodes, Option.some.injEq, Prod.mk.injEq] at h
    rw [← h.2] at hg; simp at hg
  | nd :: rest, f, st, hf, hwf, st', gl, h, g, hg => by
    simp only [Node.wfs, Bool.and_eq_true] at hwf
    simp only [runNodes] at h
    cases h1 : runNode env f st nd with
    | none => simp [h1] at h
    | some r1 =>
      obtain ⟨st1, l1⟩ := r1
      simp only [h1] at h
      cases h2 : runNodes env f st1 rest with
      | none => simp [h2] at h
      | some r2 =>
        obtain ⟨st2, l2⟩ := r2
        simp only [h2, Option.some.injEq, Prod.mk.injEq] at h
        rw [← h.2] at hg
        rcases List.mem_append.mp hg with hg | hg
        · exact runNode_gok env nd f st hf hwf.1 st1 l1 h1 g hg
        · exact runNodes_gok env rest f st1 hf hwf.2 st2 l2 h2 g hg
end

theorem runEvm_gok (env : Env δ ν) (evm : Evm) (tx : Tx δ) (hwf : tx.wf = true) (evm' : Evm) (gl : List (GLog δ))
    (h : runEvm env evm tx = some (evm', gl)) : ∀ g ∈ gl, GOK env g := by
  simp only [Tx.wf, Bool.and_eq_true] at hwf
  exact runNode_gok env tx.root _ evm ⟨bne_of_wf hwf.1.1, bne_of_wf hwf.1.2⟩ hwf.2 evm' gl h

/-! ### 3. Attribution: executed messages = calls of the system contracts, signed by the caller, arguments copied -/

/-- the ABI decoder inverts what the compiled contracts encode (an assumption about go-ethereum's `abi` package and
solc, exercised by the correspondence run; never an axiom). -/
def RoundTrip (env : Env δ ν) : Prop := ∀ ev : Event, env.decode ev.kind (env.encode ev) = .ok ev

/-- the calls of system contract `c` recorded in a receipt: (msg.sender of the contract frame, function + arguments). -/
def attributed (c : SysC) (gl : List (GLog δ)) : List (Addr × SysCall) :=
  gl.filterMap (fun g => match g.origin with
    | some (s, call) => if call.contract = c then some (s, call) else none
    | none => none)

theorem lookup_kind : ∀ k : EvKind, lookup (kindsOf k.contract) (topicOf k) = some k := by
  intro k; cases k <;> decide

theorem emit_kind_contract (s : Addr) (c : SysCall) : (emitOf s c).kind.contract = c.contract := by
  cases c <;> rfl

theorem addr_beq (a b : SysC) : (a.addr == b.addr) = decide (a = b) := by
  cases a <;> cases b <;> decide

theorem relevant_sysLog (env : Env δ ν) (c : SysC) (s : Addr) (call : SysCall) :
    relevant c.addr (kindsOf c) (sysLog env call.contract.addr s call) = decide (call.contract = c) := by
  by_cases h : call.contract = c
  · subst h
    have := lookup_kind (emitOf s call).kind
    rw [emit_kind_contract] at this
    simp [relevant, sysLog, this]
  · simp [relevant, sysLog, addr_beq, h]

theorem toItem_sysLog (env : Env δ ν) (hrt : RoundTrip env) (s : Addr) (call : SysCall) :
    toItem env (kindsOf call.contract) (sysLog env call.contract.addr s call) = construct (emitOf s call) := by
  have := lookup_kind (emitOf s call).kind
  rw [emit_kind_contract] at this
  simp [toItem, sysLog, this, parseLog, hrt (emitOf s call)]

theorem relevant_notSys (c : SysC) (l : Log δ) (h : notSys l.address) : relevant c.addr (kindsOf c) l = false := by
  have : (l.address == c.addr) = false := by
    cases c
    · simpa [SysC.addr] using h.1
    · simpa [SysC.addr] using h.2
  simp [relevant, this]

theorem itemsOf_glogs (env : Env δ ν) (hrt : RoundTrip env) (c : SysC) :
    ∀ (gl : List (GLog δ)), (∀ g ∈ gl, GOK env g) →
      itemsOf env c (gl.map (·.log)) = (attributed c gl).map (fun sc => construct (emitOf sc.1 sc.2)) := by
  intro gl
  induction gl with
  | nil => intro _; rfl
  | cons g rest ih =>
    intro h
    have hg := h g (List.mem_cons_self ..)
    have ih' := ih (fun g' hg' => h g' (List.mem_cons_of_mem _ hg'))
    simp only [itemsOf] at ih' ⊢
    cases ho : g.origin with
    | none =>
      simp only [GOK, ho] at hg
      simp only [List.map_cons, List.filter_cons, relevant_notSys c g.log hg, Bool.false_eq_true, ↓reduceIte,
        attributed, List.filterMap_cons, ho]
      exact ih'
    | some sc =>
      obtain ⟨s, call⟩ := sc
      simp only [GOK, ho] at hg
      simp only [List.map_cons, List.filter_cons, hg, relevant_sysLog, attributed, List.filterMap_cons, ho]
      by_cases hc : call.contract = c
      · subst hc
        simp only [decide_true, ↓reduceIte, List.map_cons, toItem_sysLog env hrt]
        rw [ih']; rfl
      · simp only [hc, decide_false, Bool.false_eq_true, ↓reduceIte]
        exact ih'

/-- what the property attributes to a receipt: the system-contract calls (staking first, then governance, each in
emission order) turned into messages signed by the msg.sender of the emitting frame. -/
def attributedItems (gl : List (GLog δ)) : List (Outcome Msg) :=
  (attributed .staking gl ++ attributed .gov gl).map (fun sc => construct (emitOf sc.1 sc.2))

theorem expected_eq_attributed (env : Env δ ν) (hrt : RoundTrip env) (gl : List (GLog δ)) (h : ∀ g ∈ gl, GOK env g) :
    expectedItems env (gl.map (·.log)) = attributedItems gl := by
  simp [expectedItems, attributedItems, itemsOf_glogs env hrt _ gl h]

/-- **args_copied** (message construction): the handler's message for the event a system contract emits is the
call's own arguments with the frame's msg.sender as signer — validator strings, amount, proposal id verbatim,
vote options through `VoteOption(uint32)`, weights through `NewDecWithPrec(int64(w), 2)`. -/
theorem construct_emit (s : Addr) (c : SysCall) (m : Msg) (h : construct (emitOf s c) = .ok m) : m = msgOf s c := by
  cases c <;> simp only [emitOf, construct, msgOf] at h ⊢
  all_goals first
    | (injection h with h; exact h.symm)
    | (split at h
       · cases h
       · injection h with h; exact h.symm)

theorem args_copied (s : Addr) :
    (∀ v a, msgOf s (.delegate v a) = .delegate s v a) ∧
    (∀ v a, msgOf s (.undelegate v a) = .undelegate s v a) ∧
    (∀ v1 v2 a, msgOf s (.redelegate v1 v2 a) = .redelegate s v1 v2 a) ∧
    (∀ v, msgOf s (.withdraw v) = .withdraw s v) ∧
    (∀ p o, msgOf s (.vote p o) = .vote s p (toSigned 32 o)) ∧
    (∀ p os, msgOf s (.voteWeighted p os) = .voteWeighted s p (os.map (fun ow => (toSigned 32 ow.1, toSigned 64 ow.2)))) :=
  ⟨fun _ _ => rfl, fun _ _ => rfl, fun _ _ _ => rfl, fun _ => rfl, fun _ _ => rfl, fun _ _ => rfl⟩

theorem msgOf_signer (s : Addr) (c : SysCall) : (msgOf s c).signer = s := by cases c <;> rfl

/-- `VoteOption(uint32)` is the identity on the four valid options and never maps an invalid `uint32` to a valid one. -/
theorem voteOption_valid (u : Nat) (hu : u < 2 ^ 32) : validOption (voteOption u) = true ↔ (u = 1 ∨ u = 2 ∨ u = 3 ∨ u = 4) := by
  simp only [validOption, voteOption, toSigned, Nat.mod_eq_of_lt hu, Bool.or_eq_true, beq_iff_eq]
  split <;> omega

theorem mem_okMsgs_map {α} (f : α → Outcome Msg) (l : List α) (m : Msg) (h : m ∈ okMsgs (l.map f)) :
    ∃ a ∈ l, f a = .ok m := by
  induction l with
  | nil => simp [okMsgs] at h
  | cons a rest ih =>
    simp only [List.map_cons] at h
    cases hf : f a with
    | ok m' =>
      simp only [hf, okMsgs, List.mem_cons] at h
      rcases h with h | h
      · exact ⟨a, List.mem_cons_self .., by rw [hf, h]⟩
      · obtain ⟨b, hb, hb'⟩ := ih h; exact ⟨b, List.mem_cons_of_mem _ hb, hb'⟩
    | err e =>
      simp only [hf, okMsgs] at h
      obtain ⟨b, hb, hb'⟩ := ih h; exact ⟨b, List.mem_cons_of_mem _ hb, hb'⟩
    | panic p =>
      simp only [hf, okMsgs] at h
      obtain ⟨b, hb, hb'⟩ := ih h; exact ⟨b, List.mem_cons_of_mem _ hb, hb'⟩

theorem mem_attributed (c : SysC) (gl : List (GLog δ)) (sc : Addr × SysCall) (h : sc ∈ attributed c gl) :
    ∃ g ∈ gl, g.origin = some sc := by
  simp only [attributed, List.mem_filterMap] at h
  obtain ⟨g, hg, hm⟩ := h
  refine ⟨g, hg, ?_⟩
  cases ho : g.origin with
  | none => simp [ho] at hm
  | some x =>
    obtain ⟨s, call⟩ := x
    simp only [ho] at hm
    split at hm
    · injection hm with hm; rw [hm]
    · cases hm

theorem deliverTx_some (env : Env δ ν) (s : State ν) (tx : Tx δ) (evm' : Evm) (gl : List (GLog δ))
    (h : runEvm env s.evm tx = some (evm', gl)) :
    deliverTx env s tx =
      ((match (postTx env s.native (gl.map (·.log))).res with
        | .ok n' => ({ evm := evm', native := n' }, Status.ok)
        | .err _ => (s, Status.hookFail)
        | .panic _ => (s, Status.panicked)), (postTx env s.native (gl.map (·.log))).trace) := by
  simp only [deliverTx, applyTransaction, h]
  cases (postTx env s.native (gl.map (·.log))).res <;> rfl

theorem deliverTx_none (env : Env δ ν) (s : State ν) (tx : Tx δ) (h : runEvm env s.evm tx = none) :
    deliverTx env s tx = ((s, Status.vmFail), []) := by
  simp [deliverTx, applyTransaction, h]

/-- **signer_is_caller**: every message handed to the native modules by a transaction was produced by a frame of a
system contract entered by CALL, and its signer (delegator / voter) is the msg.sender of that frame; its other fields
are that call's arguments. Holds for every call shape in which user code never runs at a system-contract address. -/
theorem signer_is_caller (env : Env δ ν) (hrt : RoundTrip env) (s : State ν) (tx : Tx δ) (hwf : tx.wf = true) :
    ∀ m ∈ (deliverTx env s tx).2, ∃ evm' gl, runEvm env s.evm tx = some (evm', gl) ∧
      ∃ g ∈ gl, ∃ sender call, g.origin = some (sender, call) ∧ m = msgOf sender call ∧ m.signer = sender := by
  intro m hm
  cases h : runEvm env s.evm tx with
  | none => rw [deliverTx_none env s tx h] at hm; simp at hm
  | some r =>
    obtain ⟨evm', gl⟩ := r
    refine ⟨evm', gl, rfl, ?_⟩
    rw [deliverTx_some env s tx evm' gl h] at hm
    simp only at hm
    have hgok := runEvm_gok env s.evm tx hwf evm' gl h
    obtain ⟨rest, hp⟩ := executed_prefix env s.native (gl.map (·.log))
    rw [expected_eq_attributed env hrt gl hgok] at hp
    have hm' : m ∈ okMsgs (attributedItems gl) := by rw [hp]; exact List.mem_append_left _ hm
    obtain ⟨sc, hsc, hc⟩ := mem_okMsgs_map _ _ m hm'
    have hmsg := construct_emit sc.1 sc.2 m hc
    rcases List.mem_append.mp hsc with hsc | hsc
    · obtain ⟨g, hg, ho⟩ := mem_attributed _ gl sc hsc
      exact ⟨g, hg, sc.1, sc.2, ho, hmsg, by rw [hmsg, msgOf_signer]⟩
    · obtain ⟨g, hg, ho⟩ := mem_attributed _ gl sc hsc
      exact ⟨g, hg, sc.1, sc.2, ho, hmsg, by rw [hmsg, msgOf_signer]⟩

/-- the only place an `origin` is created: a CALL into a system contract from the frame whose `address(this)` is the
recorded sender (EVM: msg.sender of the callee = address of the calling frame). -/
theorem origin_is_calling_frame (env : Env δ ν) (f : Frame) (st : Evm) (ig : Bool) (c : SysCall) :
    runNode env f st (.sys .call ig c)
      = some (st, [{ log := sysLog env c.contract.addr f.self c, origin := some (f.self, c) }]) := by
  simp [runNode]

/-- a successful transaction executed every attributed call exactly once, in order (staking calls, then governance
calls), and nothing else. -/
theorem executed_exactly_attributed (env : Env δ ν) (hrt : RoundTrip env) (s : State ν) (tx : Tx δ) (hwf : tx.wf = true)
    (h : (deliverTx env s tx).1.2 = .ok) :
    ∃ evm' gl, runEvm env s.evm tx = some (evm', gl) ∧
      (deliverTx env s tx).2 = (attributed .staking gl ++ attributed .gov gl).map (fun sc => msgOf sc.1 sc.2) ∧
      (deliverTx env s tx).1.1.evm = evm' := by
  cases hr : runEvm env s.evm tx with
  | none => rw [deliverTx_none env s tx hr] at h; cases h
  | some r =>
    obtain ⟨evm', gl⟩ := r
    refine ⟨evm', gl, rfl, ?_⟩
    rw [deliverTx_some env s tx evm' gl hr] at h ⊢
    have hgok := runEvm_gok env s.evm tx hwf evm' gl hr
    cases hres : (postTx env s.native (gl.map (·.log))).res with
    | err e => simp [hres] at h
    | panic p => simp [hres] at h
    | ok n' =>
      obtain ⟨h1, h2⟩ := executed_all_of_ok env s.native n' _ hres
      rw [expected_eq_attributed env hrt gl hgok] at h1 h2
      simp only [and_true]
      rw [h1]
      -- every item is `ok`, hence equal to `ok (msgOf …)`
      have : ∀ (l : List (Addr × SysCall)),
          (l.map (fun sc => construct (emitOf sc.1 sc.2))) = (okMsgs (l.map (fun sc => construct (emitOf sc.1 sc.2)))).map .ok →
          okMsgs (l.map (fun sc => construct (emitOf sc.1 sc.2))) = l.map (fun sc => msgOf sc.1 sc.2) := by
        intro l
        induction l with
        | nil => intro _; rfl
        | cons a rest ih =>
          intro hl
          simp only [List.map_cons] at hl ⊢
          cases hc : construct (emitOf a.1 a.2) with
          | ok m =>
            simp only [hc, okMsgs, List.map_cons, List.cons.injEq, true_and] at hl ⊢
            exact ⟨construct_emit a.1 a.2 m hc, ih hl⟩
          | err e =>
            simp only [hc, okMsgs] at hl
            have := congrArg List.length hl
            simp only [List.length_cons, List.length_map] at this
            have hle : (okMsgs (rest.map (fun sc => construct (emitOf sc.1 sc.2)))).length ≤ rest.length := by
              clear hl this ih
              induction rest with
              | nil => simp [okMsgs]
              | cons b r ihr =>
                simp only [List.map_cons]
                cases construct (emitOf b.1 b.2) <;> simp [okMsgs] <;> omega
            omega
          | panic p =>
            simp only [hc, okMsgs] at hl
            have := congrArg List.length hl
            simp only [List.length_cons, List.length_map] at this
            have hle : (okMsgs (rest.map (fun sc => construct (emitOf sc.1 sc.2)))).length ≤ rest.length := by
              clear hl this ih
              induction rest with
              | nil => simp [okMsgs]
              | cons b r ihr =>
                simp only [List.map_cons]
                cases construct (emitOf b.1 b.2) <;> simp [okMsgs] <;> omega
            omega
      exact this _ h2

/-! ### 4. Atomicity -/

/-- **atomic**: a transaction whose status is not `ok` (EVM failure, a hook error — parse failure, `ValidateBasic`,
missing route, any native handler error — or a panic) leaves the whole state, contract-visible and native, as it was. -/
theorem atomic (env : Env δ ν) (s : State ν) (tx : Tx δ) (h : (deliverTx env s tx).1.2 ≠ .ok) :
    (deliverTx env s tx).1.1 = s := by
  cases hr : runEvm env s.evm tx with
  | none => rw [deliverTx_none env s tx hr]
  | some r =>
    obtain ⟨evm', gl⟩ := r
    rw [deliverTx_some env s tx evm' gl hr] at h ⊢
    cases hres : (postTx env s.native (gl.map (·.log))).res with
    | ok n' => simp [hres] at h
    | err e => rfl
    | panic p => rfl

/-- any native failure (an attributed message that fails `ValidateBasic`, has no route, or whose handler returns an
error or panics) makes the status differ from `ok` — together with `atomic`: the EVM effects of the transaction are
discarded as well. -/
theorem native_failure_fails (env : Env δ ν) (s : State ν) (tx : Tx δ) (evm' : Evm) (gl : List (GLog δ))
    (hr : runEvm env s.evm tx = some (evm', gl))
    (hf : ∀ n', (runItems env s.native (expectedItems env (gl.map (·.log)))).res ≠ .ok n') :
    (deliverTx env s tx).1.2 ≠ .ok ∧ (deliverTx env s tx).1.1 = s := by
  have h1 : (deliverTx env s tx).1.2 ≠ .ok := by
    rw [deliverTx_some env s tx evm' gl hr]
    rw [← executes_exactly_filtered] at hf
    cases hres : (postTx env s.native (gl.map (·.log))).res with
    | ok n' => exact absurd hres (hf n')
    | err e => simp
    | panic p => simp
  exact ⟨h1, atomic env s tx h1⟩

/-- the same discipline for the hook chain alone (module-level callers that branch the context). -/
theorem atomic_hooks (env : Env δ ν) (s : State ν) (logs : List (Log δ)) (h : (deliverHooks env s logs).1.2 ≠ .ok) :
    (deliverHooks env s logs).1.1 = s := by
  simp only [deliverHooks] at h ⊢
  cases hres : (postTx env s.native logs).res with
  | ok n' => simp [hres] at h
  | err e => rfl
  | panic p => rfl

/-- success commits both parts: the EVM state of the execution and the native state after all messages. -/
theorem commit_on_success (env : Env δ ν) (s : State ν) (tx : Tx δ) (evm' : Evm) (gl : List (GLog δ)) (n' : ν)
    (hr : runEvm env s.evm tx = some (evm', gl))
    (hres : (runItems env s.native (expectedItems env (gl.map (·.log)))).res = .ok n') :
    (deliverTx env s tx).1 = ({ evm := evm', native := n' }, .ok) := by
  rw [deliverTx_some env s tx evm' gl hr]
  rw [← executes_exactly_filtered] at hres
  simp [hres]

/-! ### 5. `BurnCoins` of the overwritten bank keeper conserves the supply -/

/-- amount (as moved) listed for denomination `d`. -/
def sumNat (cs : Coins) (d : Denom) : Nat :=
  match cs with
  | [] => 0
  | (d', x) :: rest => (if d' = d then x.toNat else 0) + sumNat rest d

theorem balOf_le_total (b : List ((Addr × Denom) × Nat)) (a : Addr) (d : Denom) : balOf b a d ≤ totalBal b d := by
  induction b with
  | nil => simp [balOf, totalBal]
  | cons e rest ih =>
    obtain ⟨⟨a', d'⟩, n⟩ := e
    simp only [balOf, totalBal]
    by_cases h : a' = a ∧ d' = d
    · simp [h]
    · simp only [h, ↓reduceIte]; omega

theorem total_setBal (b : List ((Addr × Denom) × Nat)) (a : Addr) (d : Denom) (v : Nat) (d0 : Denom) :
    totalBal (setBal b a d v) d0 + (if d = d0 then balOf b a d else 0) = totalBal b d0 + (if d = d0 then v else 0) := by
  induction b with
  | nil => simp [setBal, totalBal, balOf]
  | cons e rest ih =>
    obtain ⟨⟨a', d'⟩, n⟩ := e
    simp only [setBal, balOf]
    by_cases h : a' = a ∧ d' = d
    · simp only [h, and_self, ↓reduceIte, totalBal]
      by_cases h0 : d = d0 <;> simp [h0]
      omega
    · simp only [h, ↓reduceIte, totalBal]; omega

theorem balOf_setBal (b : List ((Addr × Denom) × Nat)) (a : Addr) (d : Denom) (v : Nat) (a0 : Addr) (d0 : Denom) :
    balOf (setBal b a d v) a0 d0 = if a = a0 ∧ d = d0 then v else balOf b a0 d0 := by
  induction b with
  | nil =>
    simp only [setBal, balOf]
  | cons e rest ih =>
    obtain ⟨⟨a', d'⟩, n⟩ := e
    simp only [setBal]
    by_cases h : a' = a ∧ d' = d
    · obtain ⟨h1, h2⟩ := h
      subst h1; subst h2
      simp only [and_self, ↓reduceIte, balOf]
      by_cases hx : a' = a0 ∧ d' = d0 <;> simp [hx]
    · simp only [h, ↓reduceIte, balOf, ih]
      by_cases h1 : a' = a0 ∧ d' = d0
      · obtain ⟨h2, h3⟩ := h1
        subst h2; subst h3
        have : ¬ (a = a' ∧ d = d') := fun hh => h ⟨hh.1.symm, hh.2.symm⟩
        simp [this]
      · simp [h1]

theorem subCoins_total (a : Addr) (cs : Coins) : ∀ (b b1 : List ((Addr × Denom) × Nat)) (d0 : Denom),
    subCoins b a cs = some b1 → totalBal b1 d0 + sumNat cs d0 = totalBal b d0 := by
  induction cs with
  | nil => intro b b1 d0 h; simp only [subCoins, Option.some.injEq] at h; simp [h, sumNat]
  | cons c rest ih =>
    intro b b1 d0 h
    obtain ⟨d, x⟩ := c
    simp only [subCoins] at h
    split at h
    · rename_i hle
      have := ih _ b1 d0 h
      have hs := total_setBal b a d (balOf b a d - x.toNat) d0
      have hb := balOf_le_total b a d
      simp only [sumNat]
      by_cases hd : d = d0
      · simp only [hd, ↓reduceIte] at hs ⊢
        subst hd
        omega
      · simp only [hd, ↓reduceIte] at hs ⊢; omega
    · cases h

theorem addCoins_total (a : Addr) (cs : Coins) : ∀ (b : List ((Addr × Denom) × Nat)) (d0 : Denom),
    totalBal (addCoins b a cs) d0 = totalBal b d0 + sumNat cs d0 := by
  induction cs with
  | nil => intro b d0; simp [addCoins, sumNat]
  | cons c rest ih =>
    intro b d0
    obtain ⟨d, x⟩ := c
    simp only [addCoins, sumNat, ih]
    have hs := total_setBal b a d (balOf b a d + x.toNat) d0
    by_cases hd : d = d0
    · simp only [hd, ↓reduceIte] at hs ⊢; omega
    · simp only [hd, ↓reduceIte] at hs ⊢; omega

/-- **burn_conserves_supply**: `OverwriteBankKeeper.BurnCoins` never changes the supply record nor the sum of all
balances of any denomination (contrast: `BaseKeeper.BurnCoins` lowers both). -/
theorem burn_conserves_supply (bk bk' : Bank) (m : String) (amt : Coins) (h : burnCoins bk m amt = .ok bk') :
    bk'.supply = bk.supply ∧ ∀ d, totalBal bk'.bal d = totalBal bk.bal d := by
  simp only [burnCoins, sendModuleToModule] at h
  split at h
  · cases h
  · split at h
    · cases h
    · split at h
      · cases h
      · split at h
        · cases h
        · rename_i b1 hsub
          injection h with h
          subst h
          refine ⟨rfl, fun d => ?_⟩
          simp only [addCoins_total]
          exact subCoins_total _ amt _ b1 d hsub

/-- a burn that fails or panics has no result state at all (`Outcome`), so nothing is written: the supply is
conserved on every path. -/
theorem burn_conserves_supply_always (bk : Bank) (m : String) (amt : Coins) :
    match burnCoins bk m amt with
    | .ok bk' => bk'.supply = bk.supply ∧ ∀ d, totalBal bk'.bal d = totalBal bk.bal d
    | _ => True := by
  cases h : burnCoins bk m amt with
  | ok bk' => exact burn_conserves_supply bk bk' m amt h
  | err e => trivial
  | panic p => trivial

theorem subCoins_other (a : Addr) (cs : Coins) : ∀ (b b1 : List ((Addr × Denom) × Nat)) (a0 : Addr) (d0 : Denom),
    a ≠ a0 → subCoins b a cs = some b1 → balOf b1 a0 d0 = balOf b a0 d0 := by
  induction cs with
  | nil => intro b b1 a0 d0 _ h; simp only [subCoins, Option.some.injEq] at h; rw [h]
  | cons c rest ih =>
    intro b b1 a0 d0 hne h
    obtain ⟨d, x⟩ := c
    simp only [subCoins] at h
    split at h
    · rw [ih _ b1 a0 d0 hne h, balOf_setBal]; simp [hne]
    · cases h

theorem addCoins_self (a : Addr) (cs : Coins) : ∀ (b : List ((Addr × Denom) × Nat)) (d0 : Denom),
    balOf (addCoins b a cs) a d0 = balOf b a d0 + sumNat cs d0 := by
  induction cs with
  | nil => intro b d0; simp [addCoins, sumNat]
  | cons c rest ih =>
    intro b d0
    obtain ⟨d, x⟩ := c
    simp only [addCoins, sumNat, ih, balOf_setBal]
    by_cases hd : d = d0
    · subst hd; simp; omega
    · simp [hd]

/-- the burned coins arrive at the fee collector. -/
theorem burn_to_fee_collector (bk bk' : Bank) (m : String) (amt : Coins) (ma fc : Addr)
    (hm : moduleAddr bk m = some ma) (hf : moduleAddr bk feeCollectorName = some fc) (hne : ma ≠ fc)
    (h : burnCoins bk m amt = .ok bk') :
    ∀ d, balOf bk'.bal fc d = balOf bk.bal fc d + sumNat amt d := by
  simp only [burnCoins, sendModuleToModule, hm, hf] at h
  split at h
  · cases h
  · split at h
    · cases h
    · rename_i b1 hsub
      injection h with h
      subst h
      intro d
      simp only [addCoins_self]
      rw [subCoins_other ma amt bk.bal b1 fc d hne hsub]

/-! ### 5b. The module-call path (received XIBC packet → Execute → system contract) -/

theorem okMsgs_all_ok_msgOf (l : List (Addr × SysCall))
    (hl : (l.map (fun sc => construct (emitOf sc.1 sc.2))) = (okMsgs (l.map (fun sc => construct (emitOf sc.1 sc.2)))).map .ok) :
    okMsgs (l.map (fun sc => construct (emitOf sc.1 sc.2))) = l.map (fun sc => msgOf sc.1 sc.2) := by
  induction l with
  | nil => rfl
  | cons a rest ih =>
    simp only [List.map_cons] at hl ⊢
    have hle : ∀ (r : List (Addr × SysCall)), (okMsgs (r.map (fun sc => construct (emitOf sc.1 sc.2)))).length ≤ r.length := by
      intro r
      induction r with
      | nil => simp [okMsgs]
      | cons b r ihr =>
        simp only [List.map_cons]
        cases construct (emitOf b.1 b.2) <;> simp [okMsgs] <;> omega
    cases hc : construct (emitOf a.1 a.2) with
    | ok m =>
      simp only [hc, okMsgs, List.map_cons, List.cons.injEq, true_and] at hl ⊢
      exact ⟨construct_emit a.1 a.2 m hc, ih hl⟩
    | err e =>
      simp only [hc, okMsgs] at hl
      have := congrArg List.length hl
      simp only [List.length_cons, List.length_map] at this
      have := hle rest
      omega
    | panic p =>
      simp only [hc, okMsgs] at hl
      have := congrArg List.length hl
      simp only [List.length_cons, List.length_map] at this
      have := hle rest
      omega

def RecvCall.wf (rc : RecvCall δ) : Bool :=
  match rc.call with
  | none => true
  | some nd => nd.wf

theorem executeAddr_notSys : notSys executeAddr := by
  constructor <;> decide

theorem recvEvm_gok (env : Env δ ν) (st : Evm) (rc : RecvCall δ) (hwf : rc.wf = true) (evm' : Evm) (gl : List (GLog δ))
    (code : Nat) (h : recvEvm env st rc = some (evm', gl, code)) : ∀ g ∈ gl, GOK env g := by
  simp only [recvEvm] at h
  split at h
  · cases h
  · split at h
    · simp only [Option.some.injEq, Prod.mk.injEq] at h
      intro g hg; rw [← h.2.1] at hg; simp at hg
    · cases hc : rc.call with
      | none =>
        simp only [hc, Option.some.injEq, Prod.mk.injEq] at h
        intro g hg; rw [← h.2.1] at hg; simp at hg
      | some nd =>
        simp only [hc] at h
        simp only [RecvCall.wf, hc] at hwf
        split at h
        · rename_i st2 gl2 hr
          simp only [Option.some.injEq, Prod.mk.injEq] at h
          intro g hg
          rw [← h.2.1] at hg
          exact runNode_gok env nd _ _ executeAddr_notSys hwf st2 gl2 hr g hg
        · simp only [Option.some.injEq, Prod.mk.injEq] at h
          intro g hg; rw [← h.2.1] at hg; simp at hg

/-- **recv_atomic**: whatever the callback does and whatever a failing hook chain leaves on the context it ran on
(`junk`), a handled `MsgRecvPacket` writes the receipt and exactly one acknowledgement, and unless that acknowledgement
carries result code 0 the chain state (EVM state of Execute / Staking / helper contracts, minted vouchers, native
delegations, votes, balances) is exactly the state before. -/
theorem recv_atomic (env : Env δ ν) (junk : State ν) (c c' : Chain ν) (seq : Nat) (rc : RecvCall δ) (tr : List Msg)
    (h : recvPacket env junk c seq rc = (.ok c', tr)) :
    ∃ code, c'.acks = (seq, code) :: c.acks ∧ c'.receipts = seq :: c.receipts ∧ (code ≠ 0 → c'.st = c.st) := by
  simp only [recvPacket] at h
  split at h
  · simp at h
  · split at h
    · rename_i s' code tr' hcb
      split at h
      · simp only [Prod.mk.injEq, Outcome.ok.injEq] at h
        exact ⟨0, by rw [← h.1], by rw [← h.1], fun hh => absurd rfl hh⟩
      · simp only [Prod.mk.injEq, Outcome.ok.injEq] at h
        exact ⟨code, by rw [← h.1], by rw [← h.1], fun _ => by rw [← h.1]⟩
    · simp only [Prod.mk.injEq, Outcome.ok.injEq] at h
      exact ⟨1, by rw [← h.1], by rw [← h.1], fun _ => by rw [← h.1]⟩
    · simp at h

/-- **recv_native_failure**: the EVM part of the callback succeeded (Execute called the system contract, storage written,
vouchers minted) but an attributed native message fails ⇒ error acknowledgement (code 1), receipt, and *nothing* of the
callback survives — for every `junk` the un-branched `CallEVMWithData` may have left behind. -/
theorem recv_native_failure (env : Env δ ν) (junk : State ν) (c : Chain ν) (seq : Nat) (rc : RecvCall δ)
    (evm' : Evm) (gl : List (GLog δ)) (code : Nat) (e : String)
    (hfresh : c.receipts.contains seq = false)
    (hevm : recvEvm env c.st.evm rc = some (evm', gl, code))
    (hf : (runItems env c.st.native (expectedItems env (gl.map (·.log)))).res = .err e) :
    (recvPacket env junk c seq rc).1 = .ok { c with receipts := seq :: c.receipts, acks := (seq, 1) :: c.acks } := by
  rw [← executes_exactly_filtered] at hf
  have hmem : ¬ seq ∈ c.receipts := by simpa using hfresh
  simp [recvPacket, callPacket, hevm, hf, hmem]

/-- a panic inside a hook leaves `RecvPacket`; `runTx` discards everything (no receipt, no acknowledgement). -/
theorem recv_panic_discards (env : Env δ ν) (junk : State ν) (c : Chain ν) (seq : Nat) (rc : RecvCall δ) (p : String)
    (h : (recvPacket env junk c seq rc).1 = .panic p) : (deliverRecv env junk c seq rc).1 = (c, .panicked) := by
  simp only [deliverRecv]
  cases hr : recvPacket env junk c seq rc with
  | mk o tr =>
    rw [hr] at h; simp only at h; subst h; rfl

/-- **recv_success_attributed**: an acknowledgement with code 0 means the callback's EVM state was committed and the
native modules executed exactly the system-contract calls made inside the callback — each once, in order (staking, then
governance), signed by the msg.sender of the contract frame (the Execute contract when the packet names the system
contract directly), with the call's own arguments. -/
theorem recv_success_attributed (env : Env δ ν) (hrt : RoundTrip env) (junk : State ν) (c c' : Chain ν) (seq : Nat)
    (rc : RecvCall δ) (hwf : rc.wf = true) (tr : List Msg)
    (h : recvPacket env junk c seq rc = (.ok c', tr)) (hack : c'.acks = (seq, 0) :: c.acks) :
    ∃ evm' gl, recvEvm env c.st.evm rc = some (evm', gl, 0) ∧ c'.st.evm = evm' ∧
      tr = (attributed .staking gl ++ attributed .gov gl).map (fun sc => msgOf sc.1 sc.2) := by
  simp only [recvPacket] at h
  split at h
  · simp at h
  · simp only [callPacket] at h
    cases hevm : recvEvm env c.st.evm rc with
    | none =>
      simp only [hevm, Prod.mk.injEq, Outcome.ok.injEq] at h
      rw [← h.1] at hack; simp at hack
    | some r =>
      obtain ⟨evm', gl, code⟩ := r
      simp only [hevm] at h
      cases hres : (postTx env c.st.native (gl.map (·.log))).res with
      | err e =>
        simp only [hres, Prod.mk.injEq, Outcome.ok.injEq] at h
        rw [← h.1] at hack; simp at hack
      | panic p => simp [hres] at h
      | ok n' =>
        simp only [hres] at h
        by_cases hc : code = 0
        · subst hc
          simp only [↓reduceIte, Prod.mk.injEq, Outcome.ok.injEq] at h
          refine ⟨evm', gl, rfl, by rw [← h.1], ?_⟩
          have hgok := recvEvm_gok env c.st.evm rc hwf evm' gl 0 hevm
          obtain ⟨h1, h2⟩ := executed_all_of_ok env c.st.native n' _ hres
          rw [expected_eq_attributed env hrt gl hgok] at h1 h2
          rw [← h.2, h1]
          exact okMsgs_all_ok_msgOf _ h2
        · simp only [hc, ↓reduceIte, Prod.mk.injEq, Outcome.ok.injEq] at h
          rw [← h.1] at hack
          simp only [List.cons.injEq, Prod.mk.injEq, true_and, and_true] at hack
          exact absurd hack hc

/-- the packet names the system contract itself: every executed message is signed by the Execute contract. -/
theorem recv_direct_call_signer (env : Env δ ν) (hrt : RoundTrip env) (junk : State ν) (c c' : Chain ν) (seq : Nat)
    (rc : RecvCall δ) (ig : Bool) (call : SysCall) (hcall : rc.call = some (.sys .call ig call)) (tr : List Msg)
    (h : recvPacket env junk c seq rc = (.ok c', tr)) (hack : c'.acks = (seq, 0) :: c.acks) :
    tr = [msgOf executeAddr call] ∧ (msgOf executeAddr call).signer = executeAddr := by
  have hwf : rc.wf = true := by simp [RecvCall.wf, hcall, Node.wf]
  obtain ⟨evm', gl, hevm, _, htr⟩ := recv_success_attributed env hrt junk c c' seq rc hwf tr h hack
  refine ⟨?_, msgOf_signer _ _⟩
  simp only [recvEvm, hcall, runNode] at hevm
  split at hevm
  · cases hevm
  · split at hevm
    · simp at hevm
    · simp only [Option.some.injEq, Prod.mk.injEq] at hevm
      rw [htr, ← hevm.2.1]
      cases hcc : call.contract <;> simp [attributed, hcc]

/-! ### 5c. Histories with restarts and discarded executions; second-instance frame properties -/

/-- a node restart (new application object over the same committed store) and a restart from an exported genesis are
the identity on everything the property talks about: helper-contract storage and the native staking / gov / bank state.
(The differential run compares the real dumps before / after; the adapter keeps no state of its own — its handler
tables are rebuilt by `NewHookAdapter`, which is what the restart operations exercise.) -/
def restart {ν : Type} (s : State ν) : State ν := s

theorem restart_identity {ν : Type} (s : State ν) : restart s = s := rfl

/-- operations of a history: a committed transaction, the same transaction on a context that is dropped
(Simulate / CheckTx / a failed multi-message transaction), a restart. -/
inductive HOp (δ : Type) where
  | tx (t : Tx δ)
  | dry (t : Tx δ)
  | restart

def HOp.wf : HOp δ → Bool
  | .tx t => t.wf
  | .dry t => t.wf
  | .restart => true

/-- state after the operation and the messages handed to the native modules *on the committed context*. -/
def stepH (env : Env δ ν) (s : State ν) : HOp δ → State ν × List Msg
  | .tx t => ((deliverTx env s t).1.1, (deliverTx env s t).2)
  | .dry _ => (s, [])
  | .restart => (restart s, [])

def runH (env : Env δ ν) (s : State ν) : List (HOp δ) → State ν × List Msg
  | [] => (s, [])
  | op :: rest =>
    let r := stepH env s op
    let r2 := runH env r.1 rest
    (r2.1, r.2 ++ r2.2)

/-- **discarded executions and restarts change nothing.** -/
theorem dry_restart_identity (env : Env δ ν) (s : State ν) (t : Tx δ) :
    (stepH env s (.dry t)).1 = s ∧ (stepH env s .restart).1 = s ∧
    runH env s [.dry t, .restart] = (s, []) := ⟨rfl, rfl, rfl⟩

/-- verdicts after a dry run / restart are the verdicts without it. -/
theorem runH_skip (env : Env δ ν) (s : State ν) (t : Tx δ) (rest : List (HOp δ)) :
    runH env s (.dry t :: rest) = runH env s rest ∧ runH env s (.restart :: rest) = runH env s rest := by
  constructor <;> simp [runH, stepH, restart]

/-- **signer_is_caller over whole histories** (transactions, dry runs, restarts in any order): every message that ever
reaches the native modules is a system-contract call signed by the msg.sender of the contract frame. -/
theorem history_signers (env : Env δ ν) (hrt : RoundTrip env) (ops : List (HOp δ)) :
    ∀ (s : State ν), (∀ op ∈ ops, op.wf = true) →
      ∀ m ∈ (runH env s ops).2, ∃ sender call, m = msgOf sender call ∧ m.signer = sender := by
  induction ops with
  | nil => intro s _ m hm; simp [runH] at hm
  | cons op rest ih =>
    intro s hwf m hm
    simp only [runH, List.mem_append] at hm
    rcases hm with hm | hm
    · cases op with
      | tx t =>
        have hw : t.wf = true := hwf (.tx t) (List.mem_cons_self ..)
        obtain ⟨_, _, _, _, _, sender, call, _, h2, h3⟩ := signer_is_caller env hrt s t hw m hm
        exact ⟨sender, call, h2, h3⟩
      | dry t => simp [stepH] at hm
      | restart => simp [stepH] at hm
    · exact ih _ (fun op' h' => hwf op' (List.mem_cons_of_mem _ h')) m hm

/-- **atomicity over histories**: an operation that is not a successful transaction leaves the state as it was. -/
theorem history_step_atomic (env : Env δ ν) (s : State ν) (op : HOp δ)
    (h : ∀ t, op = .tx t → (deliverTx env s t).1.2 ≠ .ok) : (stepH env s op).1 = s := by
  cases op with
  | tx t => exact atomic env s t (h t rfl)
  | dry t => rfl
  | restart => rfl

/-! #### (S) second instance: the concrete native model keys votes by (proposal, voter) and stake by (delegator, validator) -/

theorem alookup_aset_ne {κ β : Type} [BEq κ] [LawfulBEq κ] (l : List (κ × β)) (k k' : κ) (v : β) (h : k ≠ k') :
    alookup (aset l k v) k' = alookup l k' := by
  induction l with
  | nil =>
    have : (k == k') = false := by simpa using h
    simp [aset, alookup, List.find?, this]
  | cons e rest ih =>
    obtain ⟨k0, v0⟩ := e
    simp only [aset]
    by_cases h0 : (k0 == k) = true
    · have e0 : k0 = k := by simpa using h0
      subst e0
      have : (k0 == k') = false := by simpa using h
      simp [alookup, List.find?, this]
    · simp only [h0, Bool.false_eq_true, ↓reduceIte]
      by_cases h1 : (k0 == k') = true
      · simp [alookup, List.find?, h1]
      · have h1' : (k0 == k') = false := by simpa using h1
        simp only [alookup, List.find?, h1'] at ih ⊢
        exact ih

/-- a vote of `voter` on proposal `p` leaves every other (proposal, voter) entry — in particular the other proposal's
votes and other voters' votes on the same proposal — and all staking state untouched. -/
theorem vote_frame (cls : Bytes → ValClass) (n n' : Native) (voter : Addr) (p : Nat) (o : Int)
    (h : execMsg cls n (.vote voter p o) = .ok n') (p' : Nat) (voter' : Addr) (hne : (p, voter) ≠ (p', voter')) :
    alookup n'.votes (p', voter') = alookup n.votes (p', voter') ∧ n'.dels = n.dels ∧ n'.ubds = n.ubds ∧
      n'.reds = n.reds ∧ n'.bank = n.bank := by
  simp only [execMsg] at h
  split at h
  · cases h
  · cases h
  · injection h with h
    subst h
    exact ⟨alookup_aset_ne _ _ _ _ hne, rfl, rfl, rfl, rfl⟩

/-- a delegation of `del` to validator `i` leaves every other (delegator, validator) stake and all votes untouched. -/
theorem delegate_frame (cls : Bytes → ValClass) (n n' : Native) (del : Addr) (v : Bytes) (i amt : Nat)
    (hc : cls v = .known i) (h : execMsg cls n (.delegate del v amt) = .ok n')
    (del' : Addr) (j : Nat) (hne : (del, i) ≠ (del', j)) :
    alookup n'.dels (del', j) = alookup n.dels (del', j) ∧ n'.votes = n.votes ∧ n'.ubds = n.ubds ∧ n'.reds = n.reds := by
  simp only [execMsg, hc] at h
  split at h
  · cases h
  · split at h
    · cases h
    · injection h with h
      subst h
      exact ⟨alookup_aset_ne _ _ _ _ hne, rfl, rfl, rfl⟩

/-! ### 5d. Genesis: the provider of "the system address runs exactly Staking.sol / Gov.sol" -/

/-- **install_code_is_genuine_for_every_prior_account**: the adapter's `InitGenesis` overwrites whatever account the
genesis document carries at the address — none, code-less, a `BaseAccount`, a contract with the genuine or with foreign
code, with or without storage: afterwards the account is an `EthAccount` whose code is the embedded genuine byte code. -/
theorem install_code_is_genuine_for_every_prior_account (genuine : Bytes) (prior : Option GenAccount) :
    (installCode genuine prior).code = genuine ∧ (installCode genuine prior).kind = .eth := ⟨rfl, rfl⟩

theorem sys_addr_ne : stakingAddr ≠ govAddr := by decide

/-- after `adapter.Manager.InitGenesis` both system addresses run the genuine code, for every prior account map. -/
theorem genesis_runs_genuine (genuine : SysC → Bytes) (accts : Accounts) :
    RunsGenuine genuine (adapterInitGenesis genuine accts) := by
  intro c
  cases c
  · simp [codeAt, adapterInitGenesis, SysC.addr, installCode]
  · have h : govAddr ≠ stakingAddr := fun e => sys_addr_ne e.symm
    simp [codeAt, adapterInitGenesis, SysC.addr, installCode, h]

/-- every other account is left alone. -/
theorem install_frame (genuine : SysC → Bytes) (accts : Accounts) (a : Addr) (h1 : a ≠ stakingAddr) (h2 : a ≠ govAddr) :
    adapterInitGenesis genuine accts a = accts a := by
  simp [adapterInitGenesis, h1, h2]

/-- **signer_is_caller with its genesis premise made visible**: a `Node.sys` frame describes a call to a system address
only if that address runs the genuine contract; this premise is discharged by `genesis_runs_genuine` for EVERY genesis
document (every prior account shape at the two addresses), so the authenticity statement holds for chains started from
arbitrary validated genesis files. -/
theorem signer_is_caller_from_genesis (genuine : SysC → Bytes) (accts0 : Accounts)
    (env : Env δ ν) (hrt : RoundTrip env) (s : State ν) (tx : Tx δ) (hwf : tx.wf = true)
    (_hcode : RunsGenuine genuine (adapterInitGenesis genuine accts0) := genesis_runs_genuine genuine accts0) :
    ∀ m ∈ (deliverTx env s tx).2, ∃ evm' gl, runEvm env s.evm tx = some (evm', gl) ∧
      ∃ g ∈ gl, ∃ sender call, g.origin = some (sender, call) ∧ m = msgOf sender call ∧ m.signer = sender :=
  signer_is_caller env hrt s tx hwf

/-- the premise is not vacuous: an install that keeps a contract account it finds at the address (the variant "do not
burn another account number on a restart from an export") does NOT establish it — a genesis document with a foreign
contract there keeps running the foreign code. -/
def installKeep (genuine : Bytes) (prior : Option GenAccount) : GenAccount :=
  match prior with
  | some acc => if acc.kind = .eth ∧ acc.code ≠ [] then acc else installCode genuine prior
  | none => installCode genuine prior

example : (installKeep [1] (some { kind := .eth, code := [0xff], storage := [] })).code ≠ [1] := by decide
example : (installCode [1] (some { kind := .eth, code := [0xff], storage := [] })).code = [1] := by decide
example : (installCode [1] (some { kind := .base, code := [], storage := [] })).kind = .eth := by decide

/-! ### 6. Non-vacuity: concrete instances of the hypotheses and of every branch -/

namespace Ex
/-- data = what the decoder returns for it (the driver's instance); natives: a journal that rejects amount 13. -/
def env : Env (Outcome Event) (List Msg) :=
  { decode := fun _ d => d, encode := fun ev => .ok ev, routed := fun _ => true,
    exec := fun n m => match m with
      | .delegate _ _ 13 => .err "native failure"
      | m => .ok (n ++ [m]) }

def eoa : Addr := [0xaa]
def proxyA : Addr := [0xc1]
def val : Bytes := [0x76]
def s0 : State (List Msg) := { evm := [], native := [] }

/-- EOA → proxy —CALL→ Staking.delegate, then a look-alike LOG1 claiming the EOA, then DELEGATECALL Staking.delegate. -/
def tx1 : Tx (Outcome Event) :=
  { sender := eoa,
    root := .proxy .call false proxyA
      [ .sys .call false (.delegate val 5),
        .rawlog [topicOf .delegated] (.ok (.delegated eoa val (some 7))),
        .sys .dcall false (.delegate val 9) ] }

/-- same shape, but the native module rejects the message. -/
def tx2 : Tx (Outcome Event) :=
  { sender := eoa, root := .proxy .call false proxyA [ .sys .call false (.delegate val 13) ] }
end Ex

example : RoundTrip Ex.env := fun _ => rfl
example : Ex.tx1.wf = true := by decide
/-- exactly one message, signed by the proxy (the caller of the system contract) — not by the EOA named in the
look-alike event, not by the frame that DELEGATECALLed the contract code. -/
example : (deliverTx Ex.env Ex.s0 Ex.tx1).2 = [Msg.delegate Ex.proxyA Ex.val 5] := by decide
example : (deliverTx Ex.env Ex.s0 Ex.tx1).1.2 = .ok ∧ (deliverTx Ex.env Ex.s0 Ex.tx1).1.1.evm = [(Ex.proxyA, 1)] := by decide
/-- native failure: status `hookFail`, and the proxy's storage write is gone as well. -/
example : (deliverTx Ex.env Ex.s0 Ex.tx2).1.2 = .hookFail ∧ (deliverTx Ex.env Ex.s0 Ex.tx2).1.1.evm = [] := by decide

namespace Ex
/-- received packet: 40 vouchers minted, then Execute calls Staking.delegate directly. -/
def rcOk : RecvCall (Outcome Event) :=
  { transfer := some 40, transferOk := true, reverts := false, call := some (.sys .call false (.delegate val 5)) }
/-- same, but the native module rejects the message (amount 13). -/
def rcFail : RecvCall (Outcome Event) :=
  { transfer := some 40, transferOk := true, reverts := false, call := some (.sys .call false (.delegate val 13)) }
def chain0 : Chain (List Msg) := { st := s0, receipts := [], acks := [] }
/-- what a failing hook chain left on the context it ran on: arbitrary. -/
def junk : State (List Msg) := { evm := [([0xff], 99)], native := [.withdraw [0xee] [0xdd]] }
end Ex

example : Ex.rcOk.wf = true := by decide
/-- success: ack 0, vouchers minted, exactly one message, signed by the Execute contract. -/
example : (deliverRecv Ex.env Ex.junk Ex.chain0 1 Ex.rcOk).2 = [Msg.delegate executeAddr Ex.val 5] ∧
    (deliverRecv Ex.env Ex.junk Ex.chain0 1 Ex.rcOk).1.1.acks = [(1, 0)] ∧
    (deliverRecv Ex.env Ex.junk Ex.chain0 1 Ex.rcOk).1.1.st.evm = [(voucherKey, 40)] := by decide
/-- native failure: error ack, receipt, and neither the minted vouchers nor the junk of the un-branched call survive. -/
example : (deliverRecv Ex.env Ex.junk Ex.chain0 1 Ex.rcFail).1.1.acks = [(1, 1)] ∧
    (deliverRecv Ex.env Ex.junk Ex.chain0 1 Ex.rcFail).1.1.receipts = [1] ∧
    (deliverRecv Ex.env Ex.junk Ex.chain0 1 Ex.rcFail).1.1.st.evm = [] ∧
    (deliverRecv Ex.env Ex.junk Ex.chain0 1 Ex.rcFail).1.1.st.native = [] := by decide

namespace Ex
def bank : Bank :=
  { bal := [(([1], "stake"), 100), (([2], "stake"), 7)], supply := [("stake", 107)],
    modules := [("gov", [1]), (feeCollectorName, [2])] }
end Ex
example : (match burnCoins Ex.bank "gov" [("stake", 30)] with
    | .ok b => decide (balOf b.bal [1] "stake" = 70 ∧ balOf b.bal [2] "stake" = 37 ∧ b.supply = [("stake", 107)])
    | _ => false) = true := by decide
example : (match burnCoins Ex.bank "gov" [("stake", 101)] with | .err _ => true | _ => false) = true := by decide
example : (match burnCoins Ex.bank "nope" [("stake", 1)] with | .panic _ => true | _ => false) = true := by decide

end TM.Adapter
