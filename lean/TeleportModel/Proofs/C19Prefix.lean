import TeleportModel.Model.Host
import TeleportModel.Generated.HostKeys
import TeleportModel.Generated.PrefixSites
import TeleportModel.Proofs.C19Host
import TeleportModel.Proofs.C19Cons
import TeleportModel.Proofs.C19Scan
/-
C19 (part 10) — prefix-freeness of the key FAMILIES under range operations. Full keys are injective, but a range operation
(clear a client store, scan a path) works on a PREFIX: `clients/<a>/` must not be a prefix of any key under `clients/<b>/`.
That holds exactly because the per-client prefix ends with the separator and names contain no '/'; without the closing
separator it fails (`clients/x` is a prefix of `clients/x-2/…`). The guard fact — every prefix built from a variable-length
name ends with '/' — is an obligation over the regenerated inventory of all prefix / range sites of x/xibc and x/aggregate.
-/
namespace TM.C19
open TM TM.Host TM.Generated

/-- **client stores are prefix-free**: for '/'-free (in particular valid) names a ≠ b, the store prefix of `a` is not a
    prefix of any key of client `b` -/
theorem client_prefix_free (c : Consts) (a b k : Bytes) (ha : slash ∉ a) (hb : slash ∉ b) (hne : a ≠ b) :
    hasPrefix (clientStorePrefixOf c b ++ k) (clientStorePrefixOf c a) = false := by
  cases h : hasPrefix (clientStorePrefixOf c b ++ k) (clientStorePrefixOf c a) with
  | false => rfl
  | true =>
    exfalso
    simp only [hasPrefix, List.isPrefixOf_iff_prefix, clientStorePrefixOf, List.append_assoc, List.singleton_append] at h
    rw [List.prefix_append_right_inj] at h
    have h2 : a ++ slash :: [] <+: b ++ slash :: k := by
      simpa [List.cons_prefix_cons] using h
    exact hne (prefix_name a b [] k ha hb h2).1

/-- … while every key of client `a` does start with its store prefix -/
theorem client_prefix_own (c : Consts) (a k : Bytes) :
    hasPrefix (clientStorePrefixOf c a ++ k) (clientStorePrefixOf c a) = true := by
  simp [hasPrefix, List.isPrefixOf_iff_prefix]

/-- **the counter-lemma**: WITHOUT the closing separator the prefix of `a` covers every client whose name extends `a` -/
theorem unterminated_client_prefix_overlaps (c : Consts) (a ext k : Bytes) :
    hasPrefix (clientStorePrefixOf c (a ++ ext) ++ k) (c.clientStorePrefix ++ [slash] ++ a) = true := by
  simp [hasPrefix, List.isPrefixOf_iff_prefix, clientStorePrefixOf, List.append_assoc]

/-- witness: `clients/x` is a prefix of the client-state key of `x-2` -/
theorem unterminated_client_prefix_witness :
    hasPrefix (clientStorePrefixOf GC [120, 45, 50] ++ GC.clientState) (GC.clientStorePrefix ++ [slash] ++ [120]) = true := by decide

/-- **frame**: clearing the store of client `a` (range delete over its separator-terminated prefix) leaves every entry of
    every other client `b` in place, byte for byte, and removes every entry of `a` -/
theorem client_clear_frame {α} (c : Consts) (a : Bytes) (ha : slash ∉ a) (st : List (Bytes × α)) :
    (∀ b k v, slash ∉ b → b ≠ a → (clientStorePrefixOf c b ++ k, v) ∈ st →
        (clientStorePrefixOf c b ++ k, v) ∈ storeClear (clientStorePrefixOf c a) st) ∧
    (∀ k v, (clientStorePrefixOf c a ++ k, v) ∉ storeClear (clientStorePrefixOf c a) st) := by
  constructor
  · intro b k v hb hne hm
    simp only [storeClear, List.mem_filter]
    exact ⟨hm, by simp [client_prefix_free c a b k ha hb (Ne.symm hne)]⟩
  · intro k v hm
    simp only [storeClear, List.mem_filter, client_prefix_own] at hm
    simp at hm

/-- entries outside the cleared prefix keep their order and values: the cleared store is the filtered store -/
theorem storeClear_eq {α} (p : Bytes) (st : List (Bytes × α)) :
    storeClear p st = st.filter (fun kv => !hasPrefix kv.1 p) := rfl

/-! ### packet keys with decimal sequences: injective, but NOT prefix-free -/

/-- the key of sequence 1 is a proper prefix of the key of sequence 10 (same path): a range operation over a FULL packet
    key as prefix would also cover sequences 10–19, 100–199, … — full keys may only be used for point access -/
theorem sequence_keys_not_prefix_free (p0 m0 a b : Bytes) :
    hasPrefix (keyOf p0 m0 a b 10) (keyOf p0 m0 a b 1) = true ∧ keyOf p0 m0 a b 10 ≠ keyOf p0 m0 a b 1 := by
  have h1 : toDec 1 = [49] := by decide
  have h10 : toDec 10 = [49, 48] := by decide
  constructor
  · simp [hasPrefix, List.isPrefixOf_iff_prefix, keyOf, h1, h10]
  · intro h
    have := congrArg List.length h
    simp [keyOf, h1, h10] at this

set_option maxRecDepth 100000 in
/-- … whereas the per-path prefix `…/sequences` followed by '/' separates paths (`bypath_prefix_iff`) and the families
    (`family_prefixes_disjoint`); witness on the generated commitment key -/
theorem sequence_prefix_witness :
    (render HostKeys.packetCommitmentKey [.s [97, 98, 99], .s [120, 121, 122], .n 1]).bind (fun k1 =>
      (render HostKeys.packetCommitmentKey [.s [97, 98, 99], .s [120, 121, 122], .n 10]).map (fun k10 => hasPrefix k10 k1)) = some true := by
  decide

/-! ### obligations over the regenerated site inventory -/

set_option maxRecDepth 100000 in
/-- every prefix that is built from a variable-length component ends with the separator -/
theorem prefix_sites_terminated : ∀ s ∈ PrefixSites.sites, (s.kind = .sprintf ∨ s.kind = .concat) → s.terminated = true := by decide

set_option maxRecDepth 100000 in
/-- no site has a prefix argument of a shape the translator cannot classify -/
theorem prefix_sites_classified : ∀ s ∈ PrefixSites.sites, s.kind ≠ .other := by decide

set_option maxRecDepth 100000 in
/-- every site is in the expected inventory (props/C19.json "prefix_sites"); a new or changed site is named by gofacts -/
theorem prefix_sites_known : ∀ s ∈ PrefixSites.sites, s.known = true := by decide

set_option maxRecDepth 100000 in
/-- the per-client store prefix the keeper builds (`ClientStore`: "%s/%s/") is the one the theorems are about -/
theorem clientStore_site_present : PrefixSites.sites.any (fun s =>
    s.id == "x/xibc/core/client/keeper/keeper.go:ClientStore:prefix.NewStore:clientPrefix" && s.kind == .sprintf && s.terminated) = true := by
  decide

/-! ### non-vacuity -/
example : hasPrefix (clientStorePrefixOf GC [120, 45, 50] ++ GC.clientState) (clientStorePrefixOf GC [120]) = false := by decide

end TM.C19
