import TeleportModel.Model.Host
import TeleportModel.Proofs.C19Abi
/-
C19 (part 4) — store keys: decimal round trip, `strings.Split` lemmas, packet keys and consensus-state keys are
parsed back to exactly the arguments they were rendered from (hence injective), for chain names without '/'
(which the identifier validator guarantees) and for ALL uint64 sequences / revisions / heights.
-/
namespace TM.C19
open TM TM.Host

/-! ### decimal numbers -/

theorem digit_spec : ∀ k : Fin 10, isDigit (UInt8.ofNat (48 + k.val)) = true ∧ (UInt8.ofNat (48 + k.val)).toNat - 48 = k.val := by
  decide

theorem digit_isDigit (n : Nat) : isDigit (digit n) = true :=
  (digit_spec ⟨n % 10, Nat.mod_lt _ (by decide)⟩).1

theorem digit_val (n : Nat) : (digit n).toNat - 48 = n % 10 :=
  (digit_spec ⟨n % 10, Nat.mod_lt _ (by decide)⟩).2

theorem toDecF_digits (f n : Nat) : ∀ c ∈ toDecF f n, isDigit c = true := by
  induction f generalizing n with
  | zero => simp [toDecF]
  | succ f ih =>
    intro c hc
    unfold toDecF at hc
    split at hc
    · simp at hc; subst hc; exact digit_isDigit n
    · simp at hc
      rcases hc with hc | hc
      · exact ih _ c hc
      · subst hc; exact digit_isDigit n

theorem toDecF_ne_nil (f n : Nat) : toDecF (f + 1) n ≠ [] := by
  unfold toDecF; split <;> simp

theorem parseNatFrom_snoc (xs : Bytes) (c : UInt8) (acc : Nat) :
    parseNatFrom acc (xs ++ [c]) = (parseNatFrom acc xs).bind (fun a => parseStep a c) := by
  induction xs generalizing acc with
  | nil => simp [parseNatFrom]; cases parseStep acc c <;> rfl
  | cons x xs ih =>
    simp only [List.cons_append, parseNatFrom]
    cases parseStep acc x with
    | none => rfl
    | some a => exact ih a

theorem parseStep_digit (a n : Nat) (h : a * 10 + n % 10 < 2 ^ 64) :
    parseStep a (digit n) = some (a * 10 + n % 10) := by
  simp [parseStep, digit_isDigit, digit_val, h]

theorem parseNatFrom_toDecF (f : Nat) : ∀ (n acc : Nat), n < 10 ^ f →
    acc * 10 ^ (toDecF f n).length + n < 2 ^ 64 →
    parseNatFrom acc (toDecF f n) = some (acc * 10 ^ (toDecF f n).length + n) := by
  induction f with
  | zero => intro n acc h; simp at h; subst h; simp [toDecF, parseNatFrom]
  | succ f ih =>
    intro n acc hn hb
    unfold toDecF at hb ⊢
    split
    · rename_i h10
      simp only [h10, if_true, List.length_singleton, Nat.pow_one] at hb
      have : n % 10 = n := Nat.mod_eq_of_lt h10
      simp only [List.length_singleton, Nat.pow_one, parseNatFrom]
      rw [parseStep_digit acc n (by omega), this]
    · rename_i h10
      simp only [h10, if_false, List.length_append, List.length_singleton, Nat.pow_succ] at hb
      have hn' : n / 10 < 10 ^ f := by
        rw [Nat.pow_succ] at hn
        exact Nat.div_lt_of_lt_mul (by omega)
      generalize hY : acc * 10 ^ (toDecF f (n / 10)).length = Y at *
      have hb' : acc * (10 ^ (toDecF f (n / 10)).length * 10) = Y * 10 := by rw [← Nat.mul_assoc, hY]
      rw [hb'] at hb
      have hdm := Nat.div_add_mod n 10
      rw [parseNatFrom_snoc, ih (n / 10) acc hn' (by rw [hY]; omega), hY]
      simp only [Option.bind]
      rw [parseStep_digit _ n (by omega)]
      simp only [List.length_append, List.length_singleton, Nat.pow_succ]
      rw [hb']
      congr 1; omega

/-- **decimal round trip**: strconv.ParseUint(strconv.FormatUint(n)) = n for the whole uint64 range -/
theorem dec_roundtrip (n : UInt64) : parseUint (toDec n) = some n := by
  have h20 : n.toNat < 10 ^ 20 := by
    have := n.toNat_lt
    have : (2 : Nat) ^ 64 < 10 ^ 20 := by decide
    omega
  unfold parseUint toDec
  rw [if_neg (toDecF_ne_nil 19 _)]
  rw [parseNatFrom_toDecF 20 n.toNat 0 h20 (by simpa using n.toNat_lt)]
  simp

theorem toDec_noSlash (n : UInt64) : slash ∉ toDec n := by
  intro h
  have := toDecF_digits 20 n.toNat slash h
  simp [isDigit, slash] at this

/-! ### strings.Split -/

theorem splitOn_ne_nil (sep : UInt8) (s : Bytes) : splitOn sep s ≠ [] := by
  cases s with
  | nil => simp [splitOn]
  | cons b r =>
    unfold splitOn
    split
    · simp
    · split <;> simp

theorem splitOn_noSep (sep : UInt8) (a : Bytes) (h : sep ∉ a) : splitOn sep a = [a] := by
  induction a with
  | nil => rfl
  | cons b r ih =>
    simp at h
    unfold splitOn
    rw [ih h.2]
    simp [Ne.symm h.1]

theorem splitOn_append (sep : UInt8) (a rest : Bytes) (h : sep ∉ a) :
    splitOn sep (a ++ sep :: rest) = a :: splitOn sep rest := by
  induction a with
  | nil =>
    simp only [List.nil_append]
    unfold splitOn
    cases hs : splitOn sep rest with
    | nil => exact absurd hs (splitOn_ne_nil _ _)
    | cons p ps => cases rest <;> simp_all [splitOn]
  | cons b r ih =>
    simp at h
    simp only [List.cons_append]
    rw [splitOn, ih h.2]
    simp [Ne.symm h.1]

theorem splitOn_last (sep : UInt8) (x d : Bytes) (hd : sep ∉ d) :
    ∃ q qs, splitOn sep (x ++ sep :: d) = (q :: qs) ++ [d] := by
  induction x with
  | nil =>
    refine ⟨[], [], ?_⟩
    have := splitOn_append sep [] d (by simp)
    simpa [splitOn_noSep sep d hd] using this
  | cons c x ih =>
    obtain ⟨q, qs, hq⟩ := ih
    simp only [List.cons_append]
    unfold splitOn
    rw [hq]
    simp only [List.cons_append]
    by_cases hc : c = sep
    · exact ⟨[], q :: qs, by simp [hc]⟩
    · exact ⟨c :: q, qs, by simp [hc]⟩

/-! ### packet keys -/

/-- shape shared by the commitment / ack / receipt / relayer key templates:
    `<p0>/<src>/<dst>/<m0>/<seq>` with a '/'-free family prefix `p0` -/
def PacketShape (T : Template) (p0 m0 : Bytes) : Prop :=
  T = { params := [.str, .str, .u64],
        segs := [.lit (p0 ++ [slash]), .str 0, .lit [slash], .str 1, .lit (slash :: (m0 ++ [slash])), .dec 2] } ∧
  slash ∉ p0

instance (T : Template) (p0 m0 : Bytes) : Decidable (PacketShape T p0 m0) := by unfold PacketShape; infer_instance

theorem render_packet (T : Template) (p0 m0 a b : Bytes) (n : UInt64) (hT : PacketShape T p0 m0) :
    render T [.s a, .s b, .n n] = some (p0 ++ slash :: (a ++ slash :: (b ++ slash :: (m0 ++ slash :: toDec n)))) := by
  rw [hT.1]
  simp [render, renderSegs, renderSeg, Arg.ty]

/-- **every packet key is read back as the triple it was written for** (`iterateHashes`) -/
theorem packet_key_parses (T : Template) (p0 m0 a b k : Bytes) (n : UInt64) (hT : PacketShape T p0 m0)
    (ha : slash ∉ a) (hb : slash ∉ b) (hk : render T [.s a, .s b, .n n] = some k) :
    parseHashesKey k = .ok (a, b, n) := by
  rw [render_packet T p0 m0 a b n hT] at hk
  cases hk
  unfold parseHashesKey
  rw [splitOn_append slash p0 _ hT.2, splitOn_append slash a _ ha, splitOn_append slash b _ hb]
  obtain ⟨q, qs, hq⟩ := splitOn_last slash m0 (toDec n) (toDec_noSlash n)
  rw [hq]
  have hl : (p0 :: a :: b :: (q :: qs ++ [toDec n])).getLastD [] = toDec n := by
    have : p0 :: a :: b :: (q :: qs ++ [toDec n]) = (p0 :: a :: b :: q :: qs) ++ [toDec n] := by simp
    rw [this, List.getLastD_eq_getLast?, List.getLast?_append]
    simp
  simp only [hl, dec_roundtrip]
  simp

/-- **different triples never share a key** -/
theorem packet_key_injective (T : Template) (p0 m0 a b a' b' k : Bytes) (n n' : UInt64) (hT : PacketShape T p0 m0)
    (ha : slash ∉ a) (hb : slash ∉ b) (ha' : slash ∉ a') (hb' : slash ∉ b')
    (hk : render T [.s a, .s b, .n n] = some k) (hk' : render T [.s a', .s b', .n n'] = some k) :
    (a, b, n) = (a', b', n') := by
  have h1 := packet_key_parses T p0 m0 a b k n hT ha hb hk
  have h2 := packet_key_parses T p0 m0 a' b' k n' hT ha' hb' hk'
  rw [h1] at h2
  exact Outcome.ok.inj h2

/-- shape of the next-sequence key: `<p0>/<src>/<dst>` -/
def PairShape (T : Template) (p0 : Bytes) : Prop :=
  T = { params := [.str, .str], segs := [.lit (p0 ++ [slash]), .str 0, .lit [slash], .str 1] } ∧ slash ∉ p0

instance (T : Template) (p0 : Bytes) : Decidable (PairShape T p0) := by unfold PairShape; infer_instance

/-- next-sequence keys are read back by `host.ParsePath` as the pair they were written for -/
theorem pair_key_parses (T : Template) (p0 a b k : Bytes) (hT : PairShape T p0)
    (ha : slash ∉ a) (hb : slash ∉ b) (hk : render T [.s a, .s b] = some k) :
    parsePath k = .ok (a, b) := by
  rw [hT.1] at hk
  simp [render, renderSegs, renderSeg, Arg.ty] at hk
  subst hk
  unfold parsePath
  rw [splitOn_append slash p0 _ hT.2, splitOn_append slash a _ ha, splitOn_noSep slash b hb]
  simp

theorem pair_key_injective (T : Template) (p0 a b a' b' k : Bytes) (hT : PairShape T p0)
    (ha : slash ∉ a) (hb : slash ∉ b) (ha' : slash ∉ a') (hb' : slash ∉ b')
    (hk : render T [.s a, .s b] = some k) (hk' : render T [.s a', .s b'] = some k) : (a, b) = (a', b') := by
  have h1 := pair_key_parses T p0 a b k hT ha hb hk
  have h2 := pair_key_parses T p0 a' b' k hT ha' hb' hk'
  rw [h1] at h2
  exact Outcome.ok.inj h2

/-! ### identifiers -/

/-- a name accepted by `defaultIdentifierValidator` contains no separator -/
theorem validName_noSlash (r : IdRule) (hr : r.excludesSlash = true) (id : Bytes) (hv : validName r id = true) :
    slash ∉ id := by
  unfold validName at hv
  rw [List.all_eq_true] at hv
  unfold IdRule.excludesSlash at hr
  simp only [Bool.or_eq_true, Bool.and_eq_true, List.contains_iff_mem] at hr
  rcases hr with h | ⟨h, hc⟩
  · have := hv _ h
    simp [runCheck] at this
    exact this
  · have := hv _ h
    simp only [runCheck, Bool.and_eq_true, List.all_eq_true] at this
    intro hm
    have := this.2 _ hm
    simp [this] at hc

end TM.C19
