import TeleportModel.Model.Host
import TeleportModel.Generated.HostKeys
import TeleportModel.Generated.KeeperKeys
import TeleportModel.Proofs.C19Host
import TeleportModel.Proofs.C19Cons
/-
C19 (part 7) — point read-back: what `Set*` stored for (src, dst, sequence) is what `Get*` / `Has*` find for the SAME
(src, dst, sequence), and a write for one triple of valid names never changes what is read for another.
This needs getter and setter of a family to address the store through the same key template with their
parameters passed through unchanged — a `decide` obligation over the regenerated accessor table.
-/
namespace TM.C19
open TM TM.Host TM.Generated

/-! ### the store -/

theorem storeGet_storeSet_same {α} (k : Bytes) (v : α) (st : List (Bytes × α)) :
    storeGet k (storeSet k v st) = some v := by
  induction st with
  | nil => simp [storeSet, storeGet]
  | cons e r ih =>
    obtain ⟨k', v'⟩ := e
    unfold storeSet
    split
    · simp [storeGet]
    · rename_i hne
      split
      · simp [storeGet]
      · simp [storeGet, hne, ih]

theorem storeGet_storeSet_other {α} (k k' : Bytes) (v : α) (st : List (Bytes × α)) (h : k' ≠ k) :
    storeGet k' (storeSet k v st) = storeGet k' st := by
  induction st with
  | nil => simp [storeSet, storeGet, h]
  | cons e r ih =>
    obtain ⟨k₀, v₀⟩ := e
    unfold storeSet
    split
    · rename_i heq; subst heq; simp [storeGet, h]
    · split
      · simp [storeGet, h]
      · by_cases h0 : k' = k₀
        · simp [storeGet, h0]
        · simp [storeGet, h0, ih]

/-! ### through the key templates -/

/-- **get (set s k v) k = v** through one key template with the same arguments -/
theorem point_readback_same {α} (T : Template) (args : List Arg) (k : Bytes) (v : α) (st : List (Bytes × α))
    (hk : render T args = some k) :
    (render T args).bind (fun k' => storeGet k' (storeSet k v st)) = some v := by
  rw [hk]; exact storeGet_storeSet_same k v st

/-- a write for (a, b, n) does not change what is read for a different triple (a', b', n') of '/'-free names —
    in particular for names that differ only in the case of a letter -/
theorem point_readback_other {α} (T : Template) (p0 m0 a b a' b' k k' : Bytes) (n n' : UInt64) (v : α)
    (st : List (Bytes × α)) (hT : PacketShape T p0 m0)
    (ha : slash ∉ a) (hb : slash ∉ b) (ha' : slash ∉ a') (hb' : slash ∉ b')
    (hk : render T [.s a, .s b, .n n] = some k) (hk' : render T [.s a', .s b', .n n'] = some k')
    (hne : (a', b', n') ≠ (a, b, n)) :
    storeGet k' (storeSet k v st) = storeGet k' st := by
  apply storeGet_storeSet_other
  intro heq
  subst heq
  exact hne (packet_key_injective T p0 m0 a' b' a b k' n' n hT ha' hb' ha hb hk' hk)

/-! ### obligations over the regenerated accessor table -/

/-- every accessor passes its own (src, dst[, sequence]) to the key function unchanged -/
theorem accessors_verbatim : ∀ a ∈ KeeperKeys.accessors, a.verbatim = true := by decide

theorem delegates_verbatim : ∀ d ∈ KeeperKeys.delegates, d.verbatim = true := by decide

/-- every forwarding accessor forwards to an accessor of its own family -/
theorem delegates_same_family : ∀ d ∈ KeeperKeys.delegates,
    KeeperKeys.accessors.any (fun a => a.fn == d.target && a.family == d.family) = true := by decide

/-- all accessors of a family (Get / Set / Has / delete) use the same key template -/
theorem accessors_same_key : ∀ a ∈ KeeperKeys.accessors, ∀ b ∈ KeeperKeys.accessors,
    a.family = b.family → a.keyT = b.keyT := by decide

/-- whatever is read was written through the same family: every family has a setter -/
theorem accessors_have_setter : ∀ a ∈ KeeperKeys.accessors,
    KeeperKeys.accessors.any (fun b => b.family == a.family && b.op == .set) = true := by decide

/-- the key templates the accessors use are the ones whose shape (and hence injectivity) is proved -/
theorem accessors_known_templates : ∀ a ∈ KeeperKeys.accessors,
    a.keyT ∈ [HostKeys.nextSequenceSendKey, HostKeys.packetReceiptKey, HostKeys.packetCommitmentKey,
              HostKeys.packetRelayerKey, HostKeys.packetAcknowledgementKey] := by decide

/-- the statement on the generated table: a getter `g` and the setter `s` of the same family, called with the same
    arguments, address the same key — what `s` stored is what `g` reads -/
theorem generated_point_readback {α} (g s : Accessor) (hg : g ∈ KeeperKeys.accessors) (hs : s ∈ KeeperKeys.accessors)
    (hf : g.family = s.family) (args : List Arg) (k : Bytes) (v : α) (st : List (Bytes × α))
    (hk : render s.keyT args = some k) :
    (render g.keyT args).bind (fun k' => storeGet k' (storeSet k v st)) = some v := by
  rw [accessors_same_key g hg s hs hf]
  exact point_readback_same s.keyT args k v st hk

/-! ### the seeded defect as a witness: a getter that lower-cases the names misses the key of `Abc` -/
theorem lowercased_getter_misses :
    render HostKeys.packetReceiptKey [.s [65, 98, 99], .s [101, 116, 104], .n 7] ≠
    render HostKeys.packetReceiptKey [.s [97, 98, 99], .s [101, 116, 104], .n 7] := by decide

end TM.C19
