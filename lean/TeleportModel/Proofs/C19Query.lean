import TeleportModel.Model.Host
import TeleportModel.Generated.HostKeys
import TeleportModel.Proofs.C19Host
import TeleportModel.Proofs.C19Cons
/-
C19 (part 11) — the query path reads keys back too. The client gRPC `ConsensusStates` handler walks the prefix store
"clients/<name>/consensusStates/" and must tell bare consensus-state keys (exactly the 16 raw height bytes) from metadata
stored below them ("<16 bytes>/processedTime"). Recognising the bare key BY ITS LENGTH returns every height — the 16 bytes may
contain 0x2f; recognising metadata by "contains '/'" drops heights 47, 303, … (the F2 pattern).
-/
namespace TM.C19
open TM TM.Host TM.Generated

/-- **every consensus-state key is returned at the height it was written for**, for ALL uint64 revisions and heights -/
theorem consensus_query_complete (r h : UInt64) : consQueryKey (be8 r ++ be8 h) = some (r, h) := by
  have h8 : (be8 r ++ be8 h).take 8 = be8 r := by
    have := List.take_left (l₁ := be8 r) (l₂ := be8 h); rwa [be8_length] at this
  have d8 : (be8 r ++ be8 h).drop 8 = be8 h := by
    have := List.drop_left (l₁ := be8 r) (l₂ := be8 h); rwa [be8_length] at this
  simp [consQueryKey, be8_length, h8, d8, ofBE_be8]

/-- metadata stored below a consensus-state key (a non-empty suffix after the 16 bytes) is skipped -/
theorem consensus_query_skips_metadata (r h : UInt64) (suffix : Bytes) (hs : suffix ≠ []) :
    consQueryKey (be8 r ++ be8 h ++ suffix) = none := by
  have : 0 < suffix.length := by cases suffix with | nil => exact absurd rfl hs | cons _ _ => simp
  simp [consQueryKey, be8_length]
  omega

/-- the whole result: every written height is among the hits of the relative keys, whatever else the prefix store holds -/
theorem consensus_query_returns_written (rels : List Bytes) (r h : UInt64) (hm : be8 r ++ be8 h ∈ rels) :
    (r, h) ∈ rels.filterMap consQueryKey := by
  rw [List.mem_filterMap]
  exact ⟨_, hm, consensus_query_complete r h⟩

/-- and nothing else: every hit is the height of a 16-byte key of the store -/
theorem consensus_query_only_written (rels : List Bytes) (x : UInt64 × UInt64) (hx : x ∈ rels.filterMap consQueryKey) :
    ∃ k ∈ rels, k.length = 16 ∧ consQueryKey k = some x := by
  rw [List.mem_filterMap] at hx
  obtain ⟨k, hk, he⟩ := hx
  refine ⟨k, hk, ?_, he⟩
  unfold consQueryKey at he
  split at he
  · cases he
  · rename_i hl; simpa using hl

/-- the defect as a witness: the 16 key bytes of height 0-47 contain '/', so a "contains '/'" metadata test drops it -/
theorem slash_filter_drops_height_47 : (be8 0 ++ be8 47).contains slash = true ∧ (be8 1 ++ be8 303).contains slash = true := by
  decide

/-- the relative key the handler sees for (r, h) is the tail of the generated consensus-state key template -/
theorem consensus_query_key_is_generated (r h : UInt64) :
    render HostKeys.consensusStateKey [.h r h] = some (GC.consensusStatePrefix ++ [slash] ++ (be8 r ++ be8 h)) := by
  have := relConsKey_shape
  rw [this]
  simp [render, renderSegs, renderSeg, Arg.ty]

end TM.C19
