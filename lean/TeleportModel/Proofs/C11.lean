import TeleportModel.Model.Convert
import TeleportModel.Generated.AggregateParams
/-
C11 — coin ⇄ ERC-20 conversion: exact amounts or nothing, gating, backing invariants.
All statements are about `TM.Convert` (Model/Convert.lean) for an ARBITRARY token behaviour `B` unless a
hypothesis says otherwise.
-/
namespace TM.Convert

variable {σ : Type}

/-! ## bank lemmas -/

theorem Bank.sub_ok {b b' : Bank} {a : Addr} {d : Denom} {amt : Nat} (h : b.sub a d amt = .ok b') :
    validDenom d = true ∧ 0 < amt ∧ amt ≤ b.bal a d ∧ b' = b.setBal a d (b.bal a d - amt) := by
  unfold Bank.sub at h
  split at h
  · cases h
  · split at h
    · cases h
    · rename_i h1 h2
      simp at h1
      injection h with h
      exact ⟨h1.1, by omega, by omega, h.symm⟩

theorem Bank.add_ok {b b' : Bank} {a : Addr} {d : Denom} {amt : Nat} (h : b.add a d amt = .ok b') :
    validDenom d = true ∧ 0 < amt ∧ b.bal a d + amt ≤ maxUint ∧ b' = b.setBal a d (b.bal a d + amt) := by
  unfold Bank.add at h
  split at h
  · cases h
  · split at h
    · cases h
    · rename_i h1 h2
      simp at h1
      injection h with h
      exact ⟨h1.1, by omega, by omega, h.symm⟩

theorem Outcome.bind_ok {α β} {o : Outcome α} {f : α → Outcome β} {y : β} (h : o.bind f = .ok y) :
    ∃ x, o = .ok x ∧ f x = .ok y := by
  cases o with
  | ok a => exact ⟨a, rfl, h⟩
  | err e => cases h
  | panic s => cases h

theorem bind_ok2 {α β} {o : Outcome α} {f : α → Outcome β} {y : β} (h : (o >>= f) = .ok y) :
    ∃ x, o = .ok x ∧ f x = .ok y := Outcome.bind_ok h

/-- `SendCoins` succeeded: the explicit new bank. -/
theorem Bank.send_ok {b b' : Bank} {s t : Addr} {d : Denom} {amt : Nat} (h : b.send s t d amt = .ok b') :
    validDenom d = true ∧ 0 < amt ∧ amt ≤ b.bal s d ∧
    b' = (b.setBal s d (b.bal s d - amt)).setBal t d ((b.setBal s d (b.bal s d - amt)).bal t d + amt) := by
  unfold Bank.send at h
  obtain ⟨b1, h1, h2⟩ := bind_ok2 h
  obtain ⟨hv, hp, hle, rfl⟩ := Bank.sub_ok h1
  obtain ⟨_, _, _, rfl⟩ := Bank.add_ok h2
  exact ⟨hv, hp, hle, rfl⟩

theorem Bank.sendFromModule_ok {b b' : Bank} {t : Addr} {d : Denom} {amt : Nat} (h : b.sendFromModule t d amt = .ok b') :
    b.blocked t = false ∧ b.send moduleAddr t d amt = .ok b' := by
  unfold Bank.sendFromModule at h
  split at h
  · cases h
  · rename_i hb
    simp at hb
    exact ⟨hb, h⟩

theorem Bank.mint_ok {b b' : Bank} {d : Denom} {amt : Nat} (h : b.mint d amt = .ok b') :
    validDenom d = true ∧ 0 < amt ∧
    b' = (b.setBal moduleAddr d (b.bal moduleAddr d + amt)).setSupply d (b.supply d + amt) := by
  unfold Bank.mint at h
  obtain ⟨b1, h1, h2⟩ := bind_ok2 h
  obtain ⟨hv, hp, _, rfl⟩ := Bank.add_ok h1
  split at h2
  · cases h2
  · injection h2 with h2
    exact ⟨hv, hp, h2.symm⟩

theorem Bank.burn_ok {b b' : Bank} {d : Denom} {amt : Nat} (h : b.burn d amt = .ok b') :
    validDenom d = true ∧ 0 < amt ∧ amt ≤ b.bal moduleAddr d ∧ amt ≤ b.supply d ∧
    b' = (b.setBal moduleAddr d (b.bal moduleAddr d - amt)).setSupply d (b.supply d - amt) := by
  unfold Bank.burn at h
  obtain ⟨b1, h1, h2⟩ := bind_ok2 h
  obtain ⟨hv, hp, hle, rfl⟩ := Bank.sub_ok h1
  split at h2
  · cases h2
  · rename_i hs
    injection h2 with h2
    refine ⟨hv, hp, hle, ?_, h2.symm⟩
    simp [Bank.setBal] at hs
    exact hs


/-! ## what a successful run of each conversion path did -/

theorem ccnc_ok {B : Addr → Behaviour σ} {w w' : World σ} {pair : Pair} {d : Denom} {amt : Nat} {recv snd : Addr}
    (h : convertCoinNativeCoin B w pair d amt recv snd = .ok w') :
    ∃ bank1 st v ap b0,
      w.bank.send snd moduleAddr d amt = .ok bank1 ∧
      (B pair.addr).mint (w.tok pair.addr) moduleAddr recv amt = .ret st v ap ∧
      w' = ({ w with bank := bank1 }).setTok pair.addr st ∧
      balOf B w pair.addr recv = some b0 ∧ balOf B w' pair.addr recv = some (b0 + amt) := by
  unfold convertCoinNativeCoin at h
  split at h
  · cases h
  · cases h
  · rename_i bank1 hs
    try simp only [] at h
    split at h
    · cases h
    · rename_i st v ap hm
      split at h
      · rename_i b0 b1 hb0 hb1
        split at h
        · cases h
        · rename_i hne
          injection h with h
          subst h
          simp at hne
          refine ⟨bank1, st, v, ap, b0, hs, ?_, rfl, hb0, ?_⟩
          · simpa [World.setTok] using hm
          · rw [hb1, hne]
      · cases h

theorem cenc_ok {B : Addr → Behaviour σ} {w w' : World σ} {pair : Pair} {d : Denom} {amt : Nat} {recv snd : Addr}
    (h : convertERC20NativeCoin B w pair d amt recv snd = .ok w') :
    ∃ st v ap bank2 t0,
      (B pair.addr).burnCoins (w.tok pair.addr) moduleAddr snd amt = .ret st v ap ∧
      w.bank.sendFromModule recv d amt = .ok bank2 ∧
      w' = { (w.setTok pair.addr st) with bank := bank2 } ∧
      bank2.bal recv d = w.bank.bal recv d + amt ∧
      amt ≤ t0 ∧ balOf B w pair.addr snd = some t0 ∧ balOf B w' pair.addr snd = some (t0 - amt) := by
  unfold convertERC20NativeCoin at h
  split at h
  · cases h
  · cases h
  · rename_i coin0 hc
    try simp only [] at h
    split at h
    · cases h
    · rename_i st v ap hb
      split at h
      · cases h
      · cases h
      · rename_i bank2 hs
        try simp only [] at h
        split at h
        · cases h
        · rename_i hcoin
          split at h
          · rename_i t0 t1 ht0 ht1
            split at h
            · cases h
            · rename_i hne
              injection h with h
              subst h
              simp at hne hcoin
              unfold Bank.getBalance at hc
              split at hc
              · cases hc
              · injection hc with hc
                refine ⟨st, v, ap, bank2, t0, hb, ?_, rfl, ?_, by omega, ht0, ?_⟩
                · simpa [World.setTok] using hs
                · rw [hcoin, hc]
                · simp only [balOf, World.setTok] at ht1 ⊢
                  rw [ht1, hne.2]
          · cases h

theorem cent_ok {B : Addr → Behaviour σ} {w w' : World σ} {pair : Pair} {d : Denom} {amt : Nat} {recv snd : Addr}
    (h : convertERC20NativeToken B w pair d amt recv snd = .ok w') :
    ∃ st bank2 bank3 t0,
      (B pair.addr).transfer (w.tok pair.addr) snd moduleAddr amt = .ret st (some true) false ∧
      w.bank.mint d amt = .ok bank2 ∧ bank2.sendFromModule recv d amt = .ok bank3 ∧
      w' = { (w.setTok pair.addr st) with bank := bank3 } ∧
      bank3.bal recv d = w.bank.bal recv d + amt ∧
      balOf B w pair.addr moduleAddr = some t0 ∧ balOf B w' pair.addr moduleAddr = some (t0 + amt) := by
  unfold convertERC20NativeToken at h
  split at h
  · cases h
  · cases h
  · rename_i coin0 hc
    try simp only [] at h
    split at h
    · cases h
    · cases h
    · cases h
    · rename_i st ap htr
      split at h
      · rename_i t0 t1 ht0 ht1
        split at h
        · cases h
        · rename_i hne
          split at h
          · cases h
          · cases h
          · rename_i bank2 hm
            split at h
            · cases h
            · cases h
            · rename_i bank3 hs
              try simp only [] at h
              split at h
              · cases h
              · rename_i hcoin
                split at h
                · cases h
                · rename_i hap
                  injection h with h
                  subst h
                  simp at hne hcoin hap
                  subst hap
                  unfold Bank.getBalance at hc
                  split at hc
                  · cases hc
                  · injection hc with hc
                    refine ⟨st, bank2, bank3, t0, htr, ?_, hs, rfl, ?_, ht0, ?_⟩
                    · simpa [World.setTok] using hm
                    · rw [hcoin, hc]
                    · simp only [balOf, World.setTok] at ht1 ⊢
                      rw [ht1, hne]
      · cases h

theorem ccne_ok {B : Addr → Behaviour σ} {w w' : World σ} {pair : Pair} {d : Denom} {amt : Nat} {recv snd : Addr}
    (h : convertCoinNativeERC20 B w pair d amt recv snd = .ok w') :
    ∃ bank1 st bank3 t0 e0,
      w.bank.send snd moduleAddr d amt = .ok bank1 ∧
      (B pair.addr).transfer (w.tok pair.addr) moduleAddr recv amt = .ret st (some true) false ∧
      bank1.burn d amt = .ok bank3 ∧
      w' = { (w.setTok pair.addr st) with bank := bank3 } ∧
      balOf B w pair.addr recv = some t0 ∧ balOf B w' pair.addr recv = some (t0 + amt) ∧
      amt ≤ e0 ∧ balOf B w pair.addr moduleAddr = some e0 ∧ balOf B w' pair.addr moduleAddr = some (e0 - amt) := by
  unfold convertCoinNativeERC20 at h
  split at h
  · cases h
  · cases h
  · rename_i bank1 hs
    try simp only [] at h
    split at h
    · cases h
    · cases h
    · cases h
    · rename_i st ap htr
      split at h
      · rename_i t0 t1 ht0 ht1
        split at h
        · cases h
        · rename_i hne
          split at h
          · rename_i e0 e1 he0 he1
            split at h
            · cases h
            · rename_i hesc
              split at h
              · cases h
              · cases h
              · rename_i bank3 hbn
                split at h
                · cases h
                · rename_i hap
                  injection h with h
                  subst h
                  simp at hne hap hesc
                  subst hap
                  refine ⟨bank1, st, bank3, t0, e0, hs, ?_, ?_, rfl, ht0, ?_, by omega, he0, ?_⟩
                  · simpa [World.setTok] using htr
                  · simpa [World.setTok] using hbn
                  · simp only [balOf, World.setTok] at ht1 ⊢
                    rw [ht1, hne]
                  · simp only [balOf, World.setTok] at he1 ⊢
                    rw [he1, hesc.2]
          · cases h
      · cases h

/-! ## gate and dispatch -/

theorem mintingEnabled_ok {w : World σ} {s r : Addr} {token denom : String} {pair : Pair}
    (h : mintingEnabled w s r token denom = .ok pair) :
    w.enabled = true ∧ ∃ i, w.pairId token = some i ∧ w.pairId denom = some i ∧ w.pairs i = some pair ∧
      pair.enabled = true ∧ w.bank.blocked r = false ∧ (s = r ∨ w.bank.sendEnabled denom = true) := by
  unfold mintingEnabled at h
  split at h
  · cases h
  · rename_i hen
    simp only [] at h
    split at h
    · cases h
    · rename_i hid
      split at h
      · cases h
      · rename_i i hi
        split at h
        · cases h
        · rename_i p hp
          split at h
          · cases h
          · rename_i hpe
            split at h
            · cases h
            · rename_i hbl
              split at h
              · cases h
              · rename_i hse
                injection h with h
                subst h
                simp at hen hid hpe hbl hse
                refine ⟨hen, i, hi, by rw [hid, hi], hp, hpe, hbl, ?_⟩
                by_cases hsr : s = r
                · exact Or.inl hsr
                · exact Or.inr (hse hsr)

/-- The three ways a handler can return without error. -/
inductive Handled (B : Addr → Behaviour σ) (w w' : World σ) (pair : Pair) (cl : Bool)
    (modPath extPath : Outcome (World σ)) : Prop where
  | clean (hcl : cl = true) (hcode : w.code pair.addr = false) (hdel : w.deletePair pair = some w')
  | viaModule (hcl : cl = false) (hcode : w.code pair.addr = true) (hown : pair.owner = .module) (hp : modPath = .ok w')
  | viaExternal (hcl : cl = false) (hcode : w.code pair.addr = true) (hown : pair.owner = .external) (hp : extPath = .ok w')

theorem handleCoin_ok {B : Addr → Behaviour σ} {w w' : World σ} {d : Denom} {amt : Nat} {recv snd : Addr} {cl : Bool}
    (h : handleCoin B w d amt recv snd = .ok (w', cl)) :
    ∃ pair, mintingEnabled w snd recv d d = .ok pair ∧
      Handled B w w' pair cl (convertCoinNativeCoin B w pair d amt recv snd) (convertCoinNativeERC20 B w pair d amt recv snd) := by
  unfold handleCoin at h
  split at h
  · cases h
  · cases h
  · rename_i pair hme
    refine ⟨pair, hme, ?_⟩
    split at h
    · rename_i hc
      simp at hc
      split at h
      · cases h
      · rename_i w2 hd
        injection h with h
        injection h with h1 h2
        subst h1; subst h2
        exact .clean rfl hc hd
    · rename_i hc
      simp at hc
      split at h
      · rename_i ho
        obtain ⟨x, hx, hy⟩ := Outcome.bind_ok h
        injection hy with hy
        injection hy with h1 h2
        subst h1; subst h2
        exact .viaModule rfl hc ho hx
      · rename_i ho
        obtain ⟨x, hx, hy⟩ := Outcome.bind_ok h
        injection hy with hy
        injection hy with h1 h2
        subst h1; subst h2
        exact .viaExternal rfl hc ho hx
      · cases h

theorem handleERC20_ok {B : Addr → Behaviour σ} {w w' : World σ} {c : String} {d : Denom} {amt : Nat} {recv snd : Addr}
    {cl : Bool} (h : handleERC20 B w c d amt recv snd = .ok (w', cl)) :
    ∃ pair, mintingEnabled w snd recv c d = .ok pair ∧
      Handled B w w' pair cl (convertERC20NativeCoin B w pair d amt recv snd) (convertERC20NativeToken B w pair d amt recv snd) := by
  unfold handleERC20 at h
  split at h
  · cases h
  · cases h
  · rename_i pair hme
    refine ⟨pair, hme, ?_⟩
    split at h
    · rename_i hc
      simp at hc
      split at h
      · cases h
      · rename_i w2 hd
        injection h with h
        injection h with h1 h2
        subst h1; subst h2
        exact .clean rfl hc hd
    · rename_i hc
      simp at hc
      split at h
      · rename_i ho
        obtain ⟨x, hx, hy⟩ := Outcome.bind_ok h
        injection hy with hy
        injection hy with h1 h2
        subst h1; subst h2
        exact .viaModule rfl hc ho hx
      · rename_i ho
        obtain ⟨x, hx, hy⟩ := Outcome.bind_ok h
        injection hy with hy
        injection hy with h1 h2
        subst h1; subst h2
        exact .viaExternal rfl hc ho hx
      · cases h

/-- `finish` as a case distinction. -/
theorem finish_cases {w w' : World σ} {o : Outcome (World σ × Bool)} {r : Res} (h : finish w o = (w', r)) :
    (w' = w ∧ ((∃ c, r = .rejected c) ∨ r = .panicked)) ∨
    (o = .ok (w', false) ∧ r = .converted) ∨ (o = .ok (w', true) ∧ r = .cleaned) := by
  unfold finish at h
  split at h <;> injection h with h1 h2 <;> subst h1 <;> subst h2
  · exact Or.inr (Or.inl ⟨rfl, rfl⟩)
  · exact Or.inr (Or.inr ⟨rfl, rfl⟩)
  · exact Or.inl ⟨rfl, Or.inl ⟨_, rfl⟩⟩
  · exact Or.inl ⟨rfl, Or.inr rfl⟩

theorem isSome_of_validateCoin {m : MsgCoin} (hv : m.validateBasic = true) : ∃ s, m.senderAddr = some s := by
  simp [MsgCoin.validateBasic] at hv
  exact Option.isSome_iff_exists.mp hv.1.2

theorem isSome_of_validateERC20 {m : MsgERC20} (hv : m.validateBasic = true) : ∃ r, m.receiverAddr = some r := by
  simp [MsgERC20.validateBasic] at hv
  exact Option.isSome_iff_exists.mp hv.1.2

/-- Stage 1 then stage 2: an accepted message was accepted by `ValidateBasic`, so the handler's own (error-dropping)
parse yields exactly the address `sdk.AccAddressFromBech32` reads from the message. -/
theorem deliverCoin_cases {B : Addr → Behaviour σ} {w w' : World σ} {m : MsgCoin} {r : Res}
    (h : deliverCoin B w m = (w', r)) :
    (w' = w ∧ ((∃ c, r = .rejected c) ∨ r = .panicked)) ∨
    ∃ s cl, m.validateBasic = true ∧ m.senderAddr = some s ∧
      handleCoin B w m.denom m.amount.toNat (hexToAddr m.receiver) s = .ok (w', cl) ∧
      r = (if cl then .cleaned else .converted) := by
  unfold deliverCoin at h
  split at h
  · injection h with h1 h2; subst h1; subst h2; exact Or.inl ⟨rfl, Or.inl ⟨_, rfl⟩⟩
  · rename_i hv
    simp at hv
    obtain ⟨s, hs⟩ := isSome_of_validateCoin hv
    have hp : handlerAddr m.sender = s := by
      simp only [handlerAddr]; simp only [MsgCoin.senderAddr] at hs; rw [hs]; rfl
    rw [hp] at h
    rcases finish_cases h with h | ⟨h1, h2⟩ | ⟨h1, h2⟩
    · exact Or.inl h
    · exact Or.inr ⟨s, false, hv, hs, h1, by simp [h2]⟩
    · exact Or.inr ⟨s, true, hv, hs, h1, by simp [h2]⟩

theorem deliverERC20_cases {B : Addr → Behaviour σ} {w w' : World σ} {m : MsgERC20} {r : Res}
    (h : deliverERC20 B w m = (w', r)) :
    (w' = w ∧ ((∃ c, r = .rejected c) ∨ r = .panicked)) ∨
    ∃ rc cl, m.validateBasic = true ∧ m.receiverAddr = some rc ∧
      handleERC20 B w m.contract m.denom m.amount.toNat rc (hexToAddr m.sender) = .ok (w', cl) ∧
      r = (if cl then .cleaned else .converted) := by
  unfold deliverERC20 at h
  split at h
  · injection h with h1 h2; subst h1; subst h2; exact Or.inl ⟨rfl, Or.inl ⟨_, rfl⟩⟩
  · rename_i hv
    simp at hv
    obtain ⟨s, hs⟩ := isSome_of_validateERC20 hv
    have hp : handlerAddr m.receiver = s := by
      simp only [handlerAddr]; simp only [MsgERC20.receiverAddr] at hs; rw [hs]; rfl
    rw [hp] at h
    rcases finish_cases h with h | ⟨h1, h2⟩ | ⟨h1, h2⟩
    · exact Or.inl h
    · exact Or.inr ⟨s, false, hv, hs, h1, by simp [h2]⟩
    · exact Or.inr ⟨s, true, hv, hs, h1, by simp [h2]⟩

/-! ## bank effects in functional form -/

structure SendEffect (b b' : Bank) (s t : Addr) (d : Denom) (amt : Nat) : Prop where
  valid : validDenom d = true
  pos : 0 < amt
  enough : amt ≤ b.bal s d
  src : b'.bal s d = b.bal s d - amt
  dst : b'.bal t d = b.bal t d + amt
  frame : ∀ a e, ¬(a = s ∧ e = d) → ¬(a = t ∧ e = d) → b'.bal a e = b.bal a e
  supply : b'.supply = b.supply
  blocked : b'.blocked = b.blocked
  sendEnabled : b'.sendEnabled = b.sendEnabled

theorem Bank.send_effect {b b' : Bank} {s t : Addr} {d : Denom} {amt : Nat} (h : b.send s t d amt = .ok b')
    (hst : s ≠ t) : SendEffect b b' s t d amt := by
  obtain ⟨hv, hp, hle, rfl⟩ := Bank.send_ok h
  have hts : t ≠ s := fun e => hst e.symm
  refine ⟨hv, hp, hle, ?_, ?_, ?_, rfl, rfl, rfl⟩
  · simp [Bank.setBal, hst]
  · simp [Bank.setBal, hts]
  · intro a e h1 h2
    simp only [Bank.setBal]
    rw [if_neg h2, if_neg h1]


/-! ## sums over denomination lists -/

def sumMap (l : List Denom) (f : Denom → Nat) : Nat := (l.map f).sum

theorem sumMap_congr {l : List Denom} {f g : Denom → Nat} (h : ∀ e ∈ l, g e = f e) : sumMap l g = sumMap l f := by
  induction l with
  | nil => rfl
  | cons x xs ih =>
    simp only [sumMap, List.map_cons, List.sum_cons] at *
    rw [h x (by simp), ih (fun e he => h e (by simp [he]))]

theorem sumMap_mono {l : List Denom} {f g : Denom → Nat} (h : ∀ e ∈ l, f e ≤ g e) : sumMap l f ≤ sumMap l g := by
  induction l with
  | nil => exact Nat.le_refl _
  | cons x xs ih =>
    simp only [sumMap, List.map_cons, List.sum_cons] at *
    have h1 := h x (by simp)
    have h2 := ih (fun e he => h e (by simp [he]))
    omega

theorem sumMap_add_mem {l : List Denom} {f g : Denom → Nat} {d : Denom} {k : Nat} (hn : l.Nodup) (hd : d ∈ l)
    (h : ∀ e, e ≠ d → g e = f e) (hg : g d = f d + k) : sumMap l g = sumMap l f + k := by
  induction l with
  | nil => cases hd
  | cons x xs ih =>
    simp only [sumMap, List.map_cons, List.sum_cons] at *
    rw [List.nodup_cons] at hn
    by_cases hx : x = d
    · subst hx
      have : sumMap xs g = sumMap xs f := sumMap_congr (fun e he => h e (fun c => hn.1 (c ▸ he)))
      simp only [sumMap] at this
      rw [hg, this]; omega
    · have hd' : d ∈ xs := by
        rcases List.mem_cons.mp hd with h1 | h1
        · exact absurd h1.symm hx
        · exact h1
      rw [h x hx, ih hn.2 hd']; omega

theorem sumMap_sub_mem {l : List Denom} {f g : Denom → Nat} {d : Denom} {k : Nat} (hn : l.Nodup) (hd : d ∈ l)
    (h : ∀ e, e ≠ d → g e = f e) (hg : g d + k = f d) : sumMap l g + k = sumMap l f :=
  (sumMap_add_mem (f := g) (g := f) hn hd (fun e he => (h e he).symm) hg.symm).symm

theorem le_sumMap_of_mem {l : List Denom} {f : Denom → Nat} {d : Denom} (hd : d ∈ l) : f d ≤ sumMap l f := by
  induction l with
  | nil => cases hd
  | cons x xs ih =>
    simp only [sumMap, List.map_cons, List.sum_cons] at *
    rcases List.mem_cons.mp hd with h1 | h1
    · subst h1; omega
    · have := ih h1; omega

/-! ## registry well-formedness (taken as given: C12 owns the registry) and its preservation -/

/-- The registry indexes agree with the pair table, denominations are listed once and never look like a hex
address, and the bank blocks the module account as a receiver (app.go `BlockedAddrs`). -/
structure WellFormed (w : World σ) : Prop where
  id_ok : ∀ i p, w.pairs i = some p → p.id? = some i
  erc_ok : ∀ a i, w.byErc20 a = some i → ∃ p, w.pairs i = some p ∧ p.addr = a
  den_ok : ∀ d i, w.byDenom d = some i → ∃ p, w.pairs i = some p ∧ d ∈ p.denoms
  erc_back : ∀ i p, w.pairs i = some p → w.byErc20 p.addr = some i
  den_back : ∀ i p, w.pairs i = some p → ∀ d ∈ p.denoms, w.byDenom d = some i
  nodup : ∀ i p, w.pairs i = some p → p.denoms.Nodup
  not_hex : ∀ i p, w.pairs i = some p → ∀ d ∈ p.denoms, isHexAddress d = false
  module_blocked : w.bank.blocked moduleAddr = true

/-- `w'` has at most the pairs of `w` (same address, denominations, owner), at most its index entries, and the same
bank flags. Every action satisfies this. -/
structure Sub (w w' : World σ) : Prop where
  pairs : ∀ i p', w'.pairs i = some p' → ∃ p, w.pairs i = some p ∧ p'.addr = p.addr ∧ p'.denoms = p.denoms ∧ p'.owner = p.owner
  pairId : ∀ t i, w'.pairId t = some i → w.pairId t = some i
  blocked : w'.bank.blocked = w.bank.blocked

theorem Sub.of_registry_eq {w w' : World σ} (h1 : w'.pairs = w.pairs) (h2 : w'.byErc20 = w.byErc20)
    (h3 : w'.byDenom = w.byDenom) (h4 : w'.bank.blocked = w.bank.blocked) : Sub w w' := by
  refine ⟨?_, ?_, h4⟩
  · intro i p' h; rw [h1] at h; exact ⟨p', h, rfl, rfl, rfl⟩
  · intro t i h; simpa [World.pairId, h2, h3] using h

theorem WellFormed.of_registry_eq {w w' : World σ} (hw : WellFormed w) (h1 : w'.pairs = w.pairs)
    (h2 : w'.byErc20 = w.byErc20) (h3 : w'.byDenom = w.byDenom) (h4 : w'.bank.blocked = w.bank.blocked) :
    WellFormed w' := by
  refine ⟨?_, ?_, ?_, ?_, ?_, ?_, ?_, ?_⟩
  · rw [h1]; exact hw.id_ok
  · rw [h1, h2]; exact hw.erc_ok
  · rw [h1, h3]; exact hw.den_ok
  · rw [h1, h2]; exact hw.erc_back
  · rw [h1, h3]; exact hw.den_back
  · rw [h1]; exact hw.nodup
  · rw [h1]; exact hw.not_hex
  · rw [h4]; exact hw.module_blocked


theorem deletePair_eq {w w' : World σ} {p : Pair} {i : Id} (hw : WellFormed w) (hp : w.pairs i = some p)
    (h : w.deletePair p = some w') :
    w' = { w with pairs := fun j => if j = i then none else w.pairs j,
                  byErc20 := fun a => if a = p.addr then none else w.byErc20 a,
                  byDenom := fun d => if p.denoms.contains d then none else w.byDenom d } := by
  unfold World.deletePair at h
  rw [hw.id_ok i p hp] at h
  injection h with h
  exact h.symm

theorem deletePair_wf {w w' : World σ} {p : Pair} {i : Id} (hw : WellFormed w) (hp : w.pairs i = some p)
    (h : w.deletePair p = some w') : WellFormed w' ∧ Sub w w' ∧ w'.bank = w.bank ∧ w'.tok = w.tok ∧
      w'.enabled = w.enabled ∧ w'.code = w.code ∧ w'.pairs i = none := by
  have he := deletePair_eq hw hp h
  subst he
  refine ⟨⟨?_, ?_, ?_, ?_, ?_, ?_, ?_, hw.module_blocked⟩, ⟨?_, ?_, rfl⟩, rfl, rfl, rfl, rfl, by simp⟩
  · intro j q hq
    simp only at hq
    split at hq
    · cases hq
    · exact hw.id_ok j q hq
  · intro a j ha
    simp only at ha ⊢
    split at ha
    · cases ha
    · rename_i hne
      obtain ⟨q, hq, hqa⟩ := hw.erc_ok a j ha
      refine ⟨q, ?_, hqa⟩
      have : j ≠ i := by
        intro e; subst e
        rw [hp] at hq; injection hq with hq; subst hq
        exact hne hqa.symm
      rw [if_neg this]; exact hq
  · intro d j hd
    simp only at hd ⊢
    split at hd
    · cases hd
    · rename_i hne
      obtain ⟨q, hq, hqd⟩ := hw.den_ok d j hd
      refine ⟨q, ?_, hqd⟩
      have : j ≠ i := by
        intro e; subst e
        rw [hp] at hq; injection hq with hq; subst hq
        exact hne (by simpa using hqd)
      rw [if_neg this]; exact hq
  · intro j q hq
    simp only at hq ⊢
    split at hq
    · cases hq
    · rename_i hji
      have hb := hw.erc_back j q hq
      have : q.addr ≠ p.addr := by
        intro e
        rw [e, hw.erc_back i p hp] at hb
        injection hb with hb
        exact hji hb.symm
      rw [if_neg this]; exact hb
  · intro j q hq d hd
    simp only at hq ⊢
    split at hq
    · cases hq
    · rename_i hji
      have hb := hw.den_back j q hq d hd
      have : ¬ (p.denoms.contains d = true) := by
        intro e
        have e' : d ∈ p.denoms := by simpa using e
        rw [hw.den_back i p hp d e'] at hb
        injection hb with hb
        exact hji hb.symm
      rw [if_neg this]; exact hb
  · intro j q hq
    simp only at hq
    split at hq
    · cases hq
    · exact hw.nodup j q hq
  · intro j q hq
    simp only at hq
    split at hq
    · cases hq
    · exact hw.not_hex j q hq
  · intro j q hq
    simp only at hq
    split at hq
    · cases hq
    · exact ⟨q, hq, rfl, rfl, rfl⟩
  · intro t j ht
    simp only [World.pairId] at ht ⊢
    split at ht
    · rename_i hx
      rw [if_pos hx]
      split at ht
      · cases ht
      · exact ht
    · rename_i hx
      rw [if_neg hx]
      split at ht
      · cases ht
      · exact ht

theorem toggle_wf {w : World σ} (hw : WellFormed w) (t : String) :
    WellFormed (toggleRelay w t) ∧ Sub w (toggleRelay w t) ∧ (toggleRelay w t).bank = w.bank ∧
      (toggleRelay w t).tok = w.tok := by
  unfold toggleRelay
  split
  · exact ⟨hw, Sub.of_registry_eq rfl rfl rfl rfl, rfl, rfl⟩
  · rename_i i hi
    split
    · exact ⟨hw, Sub.of_registry_eq rfl rfl rfl rfl, rfl, rfl⟩
    · rename_i p hp
      rw [hw.id_ok i p hp]
      refine ⟨⟨?_, ?_, ?_, ?_, ?_, ?_, ?_, hw.module_blocked⟩, ⟨?_, ?_, rfl⟩, rfl, rfl⟩
      · intro j q hq
        simp only at hq
        split at hq
        · rename_i hj; subst hj
          injection hq with hq; subst hq
          exact hw.id_ok j p hp
        · exact hw.id_ok j q hq
      · intro a j ha
        simp only at ha ⊢
        obtain ⟨q, hq, hqa⟩ := hw.erc_ok a j ha
        by_cases hj : j = i
        · subst hj
          rw [hp] at hq; injection hq with hq; subst hq
          exact ⟨{ p with enabled := !p.enabled }, by rw [if_pos rfl], hqa⟩
        · exact ⟨q, by rw [if_neg hj]; exact hq, hqa⟩
      · intro d j hd
        simp only at hd ⊢
        obtain ⟨q, hq, hqd⟩ := hw.den_ok d j hd
        by_cases hj : j = i
        · subst hj
          rw [hp] at hq; injection hq with hq; subst hq
          exact ⟨{ p with enabled := !p.enabled }, by rw [if_pos rfl], hqd⟩
        · exact ⟨q, by rw [if_neg hj]; exact hq, hqd⟩
      · intro j q hq
        simp only at hq ⊢
        split at hq
        · rename_i hj; subst hj
          injection hq with hq; subst hq
          exact hw.erc_back j p hp
        · exact hw.erc_back j q hq
      · intro j q hq
        simp only at hq ⊢
        split at hq
        · rename_i hj; subst hj
          injection hq with hq; subst hq
          exact hw.den_back j p hp
        · exact hw.den_back j q hq
      · intro j q hq
        simp only at hq
        split at hq
        · rename_i hj; subst hj
          injection hq with hq; subst hq
          exact hw.nodup j p hp
        · exact hw.nodup j q hq
      · intro j q hq
        simp only at hq
        split at hq
        · rename_i hj; subst hj
          injection hq with hq; subst hq
          exact hw.not_hex j p hp
        · exact hw.not_hex j q hq
      · intro j q hq
        simp only at hq
        split at hq
        · rename_i hj; subst hj
          injection hq with hq; subst hq
          exact ⟨p, hp, rfl, rfl, rfl⟩
        · exact ⟨q, hq, rfl, rfl, rfl⟩
      · intro t' j ht
        simpa [World.pairId] using ht


/-! ## exact effects of an accepted conversion (arbitrary token behaviour) -/

/-- registry, parameters and contract code untouched; only the token `c` may have a new state `st`. -/
structure SameRegistry (w w' : World σ) (c : Addr) (st : σ) : Prop where
  pairs : w'.pairs = w.pairs
  byErc20 : w'.byErc20 = w.byErc20
  byDenom : w'.byDenom = w.byDenom
  enabled : w'.enabled = w.enabled
  code : w'.code = w.code
  tok : w'.tok = fun a => if a = c then st else w.tok a
  blocked : w'.bank.blocked = w.bank.blocked
  sendEnabled : w'.bank.sendEnabled = w.bank.sendEnabled

/-- case 1.1: coins escrowed, tokens minted. -/
structure CoinViaModule (B : Addr → Behaviour σ) (w w' : World σ) (q : Pair) (d : Denom) (amt : Nat) (recv snd : Addr)
    (st : σ) (b0 : Nat) : Prop where
  call : ∃ v ap, (B q.addr).mint (w.tok q.addr) moduleAddr recv amt = .ret st v ap
  reg : SameRegistry w w' q.addr st
  bank : SendEffect w.bank w'.bank snd moduleAddr d amt
  recvBefore : balOf B w q.addr recv = some b0
  recvAfter : balOf B w' q.addr recv = some (b0 + amt)

/-- case 2.2: vouchers escrowed and burned, tokens released by the module. -/
structure CoinViaExternal (B : Addr → Behaviour σ) (w w' : World σ) (q : Pair) (d : Denom) (amt : Nat) (recv snd : Addr)
    (st : σ) (t0 : Nat) : Prop where
  call : (B q.addr).transfer (w.tok q.addr) moduleAddr recv amt = .ret st (some true) false
  reg : SameRegistry w w' q.addr st
  valid : validDenom d = true
  pos : 0 < amt
  enough : amt ≤ w.bank.bal snd d
  src : w'.bank.bal snd d = w.bank.bal snd d - amt
  frame : ∀ a e, ¬(a = snd ∧ e = d) → w'.bank.bal a e = w.bank.bal a e
  supplyEnough : amt ≤ w.bank.supply d
  supply : w'.bank.supply d = w.bank.supply d - amt
  supplyFrame : ∀ e, e ≠ d → w'.bank.supply e = w.bank.supply e
  recvBefore : balOf B w q.addr recv = some t0
  recvAfter : balOf B w' q.addr recv = some (t0 + amt)
  escrow : ∃ e0, amt ≤ e0 ∧ balOf B w q.addr moduleAddr = some e0 ∧ balOf B w' q.addr moduleAddr = some (e0 - amt)

theorem coinViaModule_of {B : Addr → Behaviour σ} {w w' : World σ} {q : Pair} {d : Denom} {amt : Nat} {recv snd : Addr}
    (h : convertCoinNativeCoin B w q d amt recv snd = .ok w') (hs : snd ≠ moduleAddr) :
    ∃ st b0, CoinViaModule B w w' q d amt recv snd st b0 := by
  obtain ⟨bank1, st, v, ap, b0, h1, h2, rfl, h4, h5⟩ := ccnc_ok h
  exact ⟨st, b0, ⟨v, ap, h2⟩, ⟨rfl, rfl, rfl, rfl, rfl, rfl, (Bank.send_effect h1 hs).blocked, (Bank.send_effect h1 hs).sendEnabled⟩,
    Bank.send_effect h1 hs, h4, h5⟩

theorem coinViaExternal_of {B : Addr → Behaviour σ} {w w' : World σ} {q : Pair} {d : Denom} {amt : Nat} {recv snd : Addr}
    (h : convertCoinNativeERC20 B w q d amt recv snd = .ok w') (hs : snd ≠ moduleAddr) :
    ∃ st t0, CoinViaExternal B w w' q d amt recv snd st t0 := by
  obtain ⟨bank1, st, bank3, t0, e0, h1, h2, h3, rfl, h5, h6, h7, h8, h9⟩ := ccne_ok h
  have e1 := Bank.send_effect h1 hs
  obtain ⟨_, _, hle, hsup, rfl⟩ := Bank.burn_ok h3
  have hms : moduleAddr ≠ snd := fun e => hs e.symm
  refine ⟨st, t0, h2, ⟨rfl, rfl, rfl, rfl, rfl, rfl, ?_, ?_⟩, e1.valid, e1.pos, e1.enough, ?_, ?_, ?_, ?_, ?_, h5, h6,
    ⟨e0, h7, h8, h9⟩⟩
  · simp [Bank.setSupply, Bank.setBal, e1.blocked]
  · simp [Bank.setSupply, Bank.setBal, e1.sendEnabled]
  · simp [Bank.setSupply, Bank.setBal, hs, e1.src]
  · intro a e hne
    simp only [Bank.setSupply, Bank.setBal]
    by_cases hm : a = moduleAddr ∧ e = d
    · rw [if_pos hm, hm.1, hm.2, e1.dst]; omega
    · rw [if_neg hm]; exact e1.frame a e hne hm
  · rw [e1.supply] at hsup; exact hsup
  · simp [Bank.setSupply, Bank.setBal, e1.supply]
  · intro e he
    simp [Bank.setSupply, Bank.setBal, he, e1.supply]

/-- case 1.2: tokens burned, coins released from escrow. -/
structure ERC20ViaModule (B : Addr → Behaviour σ) (w w' : World σ) (q : Pair) (d : Denom) (amt : Nat) (recv snd : Addr)
    (st : σ) (t0 : Nat) : Prop where
  call : ∃ v ap, (B q.addr).burnCoins (w.tok q.addr) moduleAddr snd amt = .ret st v ap
  reg : SameRegistry w w' q.addr st
  notBlocked : w.bank.blocked recv = false
  bank : SendEffect w.bank w'.bank moduleAddr recv d amt
  sndEnough : amt ≤ t0
  sndBefore : balOf B w q.addr snd = some t0
  sndAfter : balOf B w' q.addr snd = some (t0 - amt)

/-- case 2.1: tokens escrowed by the module, vouchers minted. -/
structure ERC20ViaExternal (B : Addr → Behaviour σ) (w w' : World σ) (q : Pair) (d : Denom) (amt : Nat) (recv snd : Addr)
    (st : σ) (t0 : Nat) : Prop where
  call : (B q.addr).transfer (w.tok q.addr) snd moduleAddr amt = .ret st (some true) false
  reg : SameRegistry w w' q.addr st
  valid : validDenom d = true
  pos : 0 < amt
  notBlocked : w.bank.blocked recv = false
  dst : w'.bank.bal recv d = w.bank.bal recv d + amt
  frame : ∀ a e, ¬(a = recv ∧ e = d) → w'.bank.bal a e = w.bank.bal a e
  supply : w'.bank.supply d = w.bank.supply d + amt
  supplyFrame : ∀ e, e ≠ d → w'.bank.supply e = w.bank.supply e
  escrowBefore : balOf B w q.addr moduleAddr = some t0
  escrowAfter : balOf B w' q.addr moduleAddr = some (t0 + amt)

theorem erc20ViaModule_of {B : Addr → Behaviour σ} {w w' : World σ} {q : Pair} {d : Denom} {amt : Nat} {recv snd : Addr}
    (h : convertERC20NativeCoin B w q d amt recv snd = .ok w') (hb : w.bank.blocked moduleAddr = true) :
    ∃ st t0, ERC20ViaModule B w w' q d amt recv snd st t0 := by
  obtain ⟨st, v, ap, bank2, t0, h1, h2, rfl, _, h5, h6, h7⟩ := cenc_ok h
  obtain ⟨hnb, hsend⟩ := Bank.sendFromModule_ok h2
  have hne : moduleAddr ≠ recv := by
    intro e; rw [← e, hb] at hnb; cases hnb
  have e1 := Bank.send_effect hsend hne
  exact ⟨st, t0, ⟨v, ap, h1⟩, ⟨rfl, rfl, rfl, rfl, rfl, rfl, e1.blocked, e1.sendEnabled⟩, hnb, e1, h5, h6, h7⟩

theorem erc20ViaExternal_of {B : Addr → Behaviour σ} {w w' : World σ} {q : Pair} {d : Denom} {amt : Nat} {recv snd : Addr}
    (h : convertERC20NativeToken B w q d amt recv snd = .ok w') (hb : w.bank.blocked moduleAddr = true) :
    ∃ st t0, ERC20ViaExternal B w w' q d amt recv snd st t0 := by
  obtain ⟨st, bank2, bank3, t0, h1, h2, h3, rfl, _, h6, h7⟩ := cent_ok h
  obtain ⟨hv, hp, rfl⟩ := Bank.mint_ok h2
  obtain ⟨hnb, hsend⟩ := Bank.sendFromModule_ok h3
  have hnb' : w.bank.blocked recv = false := by simpa [Bank.setSupply, Bank.setBal] using hnb
  have hne : moduleAddr ≠ recv := by
    intro e; rw [← e, hb] at hnb'; cases hnb'
  have hne' : recv ≠ moduleAddr := fun e => hne e.symm
  have e1 := Bank.send_effect hsend hne
  refine ⟨st, t0, h1, ⟨rfl, rfl, rfl, rfl, rfl, rfl, ?_, ?_⟩, hv, hp, hnb', ?_, ?_, ?_, ?_, h6, h7⟩
  · simpa [Bank.setSupply, Bank.setBal] using e1.blocked
  · simpa [Bank.setSupply, Bank.setBal] using e1.sendEnabled
  · have := e1.dst
    simpa [Bank.setSupply, Bank.setBal, hne'] using this
  · intro a e hne2
    by_cases hm : a = moduleAddr ∧ e = d
    · have := e1.src
      simp only [Bank.setSupply, Bank.setBal] at this
      simp only [World.setTok]
      rw [hm.1, hm.2, this]; simp
    · have := e1.frame a e hm hne2
      simp only [Bank.setSupply, Bank.setBal] at this
      simp only [World.setTok]
      rw [this, if_neg hm]
  · have := e1.supply
    simp only [World.setTok]
    rw [this]; simp [Bank.setSupply, Bank.setBal]
  · intro e he
    have := e1.supply
    simp only [World.setTok]
    rw [this]; simp [Bank.setSupply, Bank.setBal, he]


/-! ## Theorem `exact_or_nothing` -/

/-- What the gate established for an accepted message. -/
structure Gate (w : World σ) (token denom : String) (j : Id) (q : Pair) (recv : Addr) : Prop where
  enabled : w.enabled = true
  tokenId : w.pairId token = some j
  denomId : w.pairId denom = some j
  pair : w.pairs j = some q
  pairEnabled : q.enabled = true
  notBlocked : w.bank.blocked recv = false

/-- A rejected (or panicking) `MsgConvertCoin` writes nothing. -/
theorem coin_rejected_unchanged {B : Addr → Behaviour σ} {w w' : World σ} {m : MsgCoin} {r : Res}
    (h : deliverCoin B w m = (w', r)) (hr : r ≠ .converted ∧ r ≠ .cleaned) : w' = w := by
  rcases deliverCoin_cases h with ⟨h1, _⟩ | ⟨s, cl, _, _, _, h4⟩
  · exact h1
  · cases cl <;> simp at h4 <;> simp [h4] at hr

theorem erc20_rejected_unchanged {B : Addr → Behaviour σ} {w w' : World σ} {m : MsgERC20} {r : Res}
    (h : deliverERC20 B w m = (w', r)) (hr : r ≠ .converted ∧ r ≠ .cleaned) : w' = w := by
  rcases deliverERC20_cases h with ⟨h1, _⟩ | ⟨s, cl, _, _, _, h4⟩
  · exact h1
  · cases cl <;> simp at h4 <;> simp [h4] at hr

/-- An accepted `MsgConvertCoin` (signed by an ordinary account): the sender loses exactly `amount` coins of
`m.denom`, the receiver's reported token balance rises by exactly `amount`, nothing else in the bank moves
(`CoinViaModule` / `CoinViaExternal` list every component), for ANY token behaviour. -/
theorem coin_exact {B : Addr → Behaviour σ} {w w' : World σ} {m : MsgCoin} (hw : WellFormed w)
    (h : deliverCoin B w m = (w', .converted)) (hs : m.senderAddr ≠ some moduleAddr) :
    ∃ s j q st b0, m.senderAddr = some s ∧ 0 < m.amount ∧ Gate w m.denom m.denom j q (hexToAddr m.receiver) ∧
      w.code q.addr = true ∧
      ((q.owner = .module ∧ CoinViaModule B w w' q m.denom m.amount.toNat (hexToAddr m.receiver) s st b0) ∨
       (q.owner = .external ∧ CoinViaExternal B w w' q m.denom m.amount.toNat (hexToAddr m.receiver) s st b0)) := by
  rcases deliverCoin_cases h with ⟨_, h2⟩ | ⟨s, cl, hv, hsd, hh, hr⟩
  · rcases h2 with ⟨c, h2⟩ | h2 <;> cases h2
  · have hcl : cl = false := by cases cl <;> simp at hr ⊢
    subst hcl
    have hsm : s ≠ moduleAddr := fun e => hs (by rw [hsd, e])
    have hpos : 0 < m.amount := by
      simp [MsgCoin.validateBasic] at hv; exact hv.1.1.2
    obtain ⟨q, hme, hd⟩ := handleCoin_ok hh
    obtain ⟨hen, j, hj1, hj2, hq, hqe, hnb, _⟩ := mintingEnabled_ok hme
    have g : Gate w m.denom m.denom j q (hexToAddr m.receiver) := ⟨hen, hj1, hj2, hq, hqe, hnb⟩
    cases hd with
    | clean hcl _ _ => cases hcl
    | viaModule _ hcode hown hp =>
      obtain ⟨st, b0, e⟩ := coinViaModule_of hp hsm
      exact ⟨s, j, q, st, b0, hsd, hpos, g, hcode, Or.inl ⟨hown, e⟩⟩
    | viaExternal _ hcode hown hp =>
      obtain ⟨st, b0, e⟩ := coinViaExternal_of hp hsm
      exact ⟨s, j, q, st, b0, hsd, hpos, g, hcode, Or.inr ⟨hown, e⟩⟩

/-- An accepted `MsgConvertERC20`: the receiver gains exactly `amount` coins of `m.denom`; on a module-owned pair
the sender's reported token balance falls by exactly `amount` and the coins leave the escrow; on an external pair
the module's reported token balance rises by exactly `amount` and exactly `amount` vouchers are minted. -/
theorem erc20_exact {B : Addr → Behaviour σ} {w w' : World σ} {m : MsgERC20} (hw : WellFormed w)
    (h : deliverERC20 B w m = (w', .converted)) :
    ∃ rc j q st t0, m.receiverAddr = some rc ∧ 0 < m.amount ∧ Gate w m.contract m.denom j q rc ∧
      w.code q.addr = true ∧
      ((q.owner = .module ∧ ERC20ViaModule B w w' q m.denom m.amount.toNat rc (hexToAddr m.sender) st t0) ∨
       (q.owner = .external ∧ ERC20ViaExternal B w w' q m.denom m.amount.toNat rc (hexToAddr m.sender) st t0)) := by
  rcases deliverERC20_cases h with ⟨_, h2⟩ | ⟨rc, cl, hv, hsd, hh, hr⟩
  · rcases h2 with ⟨c, h2⟩ | h2 <;> cases h2
  · have hcl : cl = false := by cases cl <;> simp at hr ⊢
    subst hcl
    have hpos : 0 < m.amount := by
      simp [MsgERC20.validateBasic] at hv; exact hv.1.1.2
    obtain ⟨q, hme, hd⟩ := handleERC20_ok hh
    obtain ⟨hen, j, hj1, hj2, hq, hqe, hnb, _⟩ := mintingEnabled_ok hme
    have g : Gate w m.contract m.denom j q rc := ⟨hen, hj1, hj2, hq, hqe, hnb⟩
    cases hd with
    | clean hcl _ _ => cases hcl
    | viaModule _ hcode hown hp =>
      obtain ⟨st, b0, e⟩ := erc20ViaModule_of hp hw.module_blocked
      exact ⟨rc, j, q, st, b0, hsd, hpos, g, hcode, Or.inl ⟨hown, e⟩⟩
    | viaExternal _ hcode hown hp =>
      obtain ⟨st, b0, e⟩ := erc20ViaExternal_of hp hw.module_blocked
      exact ⟨rc, j, q, st, b0, hsd, hpos, g, hcode, Or.inr ⟨hown, e⟩⟩

/-- The clean-up branch (contract without code): only the registry entry goes; bank and tokens are untouched. -/
theorem coin_cleaned {B : Addr → Behaviour σ} {w w' : World σ} {m : MsgCoin} (hw : WellFormed w)
    (h : deliverCoin B w m = (w', .cleaned)) :
    ∃ j q, Gate w m.denom m.denom j q (hexToAddr m.receiver) ∧ w.code q.addr = false ∧ w.deletePair q = some w' ∧
      w'.bank = w.bank ∧ w'.tok = w.tok ∧ w'.pairs j = none := by
  rcases deliverCoin_cases h with ⟨_, h2⟩ | ⟨s, cl, hv, hsd, hh, hr⟩
  · rcases h2 with ⟨c, h2⟩ | h2 <;> cases h2
  · have hcl : cl = true := by cases cl <;> simp at hr ⊢
    subst hcl
    obtain ⟨q, hme, hd⟩ := handleCoin_ok hh
    obtain ⟨hen, j, hj1, hj2, hq, hqe, hnb, _⟩ := mintingEnabled_ok hme
    cases hd with
    | clean _ hcode hdel =>
      obtain ⟨_, _, hb, ht, _, _, hn⟩ := deletePair_wf hw hq hdel
      exact ⟨j, q, ⟨hen, hj1, hj2, hq, hqe, hnb⟩, hcode, hdel, hb, ht, hn⟩
    | viaModule hcl _ _ _ => cases hcl
    | viaExternal hcl _ _ _ => cases hcl

theorem erc20_cleaned {B : Addr → Behaviour σ} {w w' : World σ} {m : MsgERC20} (hw : WellFormed w)
    (h : deliverERC20 B w m = (w', .cleaned)) :
    ∃ rc j q, m.receiverAddr = some rc ∧ Gate w m.contract m.denom j q rc ∧ w.code q.addr = false ∧
      w.deletePair q = some w' ∧ w'.bank = w.bank ∧ w'.tok = w.tok ∧ w'.pairs j = none := by
  rcases deliverERC20_cases h with ⟨_, h2⟩ | ⟨rc, cl, hv, hsd, hh, hr⟩
  · rcases h2 with ⟨c, h2⟩ | h2 <;> cases h2
  · have hcl : cl = true := by cases cl <;> simp at hr ⊢
    subst hcl
    obtain ⟨q, hme, hd⟩ := handleERC20_ok hh
    obtain ⟨hen, j, hj1, hj2, hq, hqe, hnb, _⟩ := mintingEnabled_ok hme
    cases hd with
    | clean _ hcode hdel =>
      obtain ⟨_, _, hb, ht, _, _, hn⟩ := deletePair_wf hw hq hdel
      exact ⟨rc, j, q, hsd, ⟨hen, hj1, hj2, hq, hqe, hnb⟩, hcode, hdel, hb, ht, hn⟩
    | viaModule hcl _ _ _ => cases hcl
    | viaExternal hcl _ _ _ => cases hcl


/-! ## Theorem `convert_receiver_named`: the credited / debited account is the one NAMED IN THE MESSAGE -/

theorem accAddressFromBech32_some {r : Option Bech32} {a : Addr} (h : accAddressFromBech32 r = some a) :
    ∃ b, r = some b ∧ b.hrp = chainPrefix ∧ b.bytes = a := by
  unfold accAddressFromBech32 at h
  split at h
  · cases h
  · rename_i b
    split at h
    · rename_i hc
      injection h with h
      exact ⟨b, rfl, hc.1, h⟩
    · cases h

/-- An accepted `MsgConvertERC20` pays out to exactly the account whose bytes a prefix-agnostic bech32 decode of the
receiver string yields (and that string carries the chain's prefix). This rests on stage 1 (`ValidateBasic` enforcing
the chain prefix): the handler itself drops the parse error and would pay to the EMPTY address. -/
theorem convert_receiver_named {B : Addr → Behaviour σ} {w w' : World σ} {m : MsgERC20} (hw : WellFormed w)
    (h : deliverERC20 B w m = (w', .converted)) :
    ∃ b j q st t0, m.receiver = some b ∧ b.hrp = chainPrefix ∧ Gate w m.contract m.denom j q b.bytes ∧
      ((q.owner = .module ∧ ERC20ViaModule B w w' q m.denom m.amount.toNat b.bytes (hexToAddr m.sender) st t0) ∨
       (q.owner = .external ∧ ERC20ViaExternal B w w' q m.denom m.amount.toNat b.bytes (hexToAddr m.sender) st t0)) := by
  obtain ⟨rc, j, q, st, t0, hr, _, g, _, hor⟩ := erc20_exact hw h
  obtain ⟨b, hb, hp, rfl⟩ := accAddressFromBech32_some hr
  exact ⟨b, j, q, st, t0, hb, hp, g, hor⟩

/-- An accepted `MsgConvertCoin` takes the coins from exactly the account named (bech32, chain prefix) as sender. -/
theorem convert_sender_named {B : Addr → Behaviour σ} {w w' : World σ} {m : MsgCoin} (hw : WellFormed w)
    (h : deliverCoin B w m = (w', .converted)) (hs : m.senderAddr ≠ some moduleAddr) :
    ∃ b j q st b0, m.sender = some b ∧ b.hrp = chainPrefix ∧
      ((q.owner = .module ∧ CoinViaModule B w w' q m.denom m.amount.toNat (hexToAddr m.receiver) b.bytes st b0) ∨
       (q.owner = .external ∧ CoinViaExternal B w w' q m.denom m.amount.toNat (hexToAddr m.receiver) b.bytes st b0)) ∧
      w.pairs j = some q := by
  obtain ⟨s, j, q, st, b0, hr, _, g, _, hor⟩ := coin_exact hw h hs
  obtain ⟨b, hb, hp, rfl⟩ := accAddressFromBech32_some hr
  exact ⟨b, j, q, st, b0, hb, hp, hor, g.pair⟩

/-- Without stage 1 the handler is not safe: a receiver string of a foreign prefix reaches it as the empty address. -/
theorem handler_drops_foreign_prefix (b : Bech32) (h : b.hrp ≠ chainPrefix) : handlerAddr (some b) = "" := by
  simp [handlerAddr, accAddressFromBech32, h]

/-! ### the same at handler level (the ICS-20 hook calls `ConvertCoin` without `ValidateBasic`) -/

theorem handleCoin_exact {B : Addr → Behaviour σ} {w w' : World σ} {d : Denom} {amt : Nat} {recv snd : Addr}
    (hh : handleCoin B w d amt recv snd = .ok (w', false)) (hsm : snd ≠ moduleAddr) :
    ∃ j q st b0, Gate w d d j q recv ∧ w.code q.addr = true ∧
      ((q.owner = .module ∧ CoinViaModule B w w' q d amt recv snd st b0) ∨
       (q.owner = .external ∧ CoinViaExternal B w w' q d amt recv snd st b0)) := by
  obtain ⟨q, hme, hd⟩ := handleCoin_ok hh
  obtain ⟨hen, j, hj1, hj2, hq, hqe, hnb, _⟩ := mintingEnabled_ok hme
  have g : Gate w d d j q recv := ⟨hen, hj1, hj2, hq, hqe, hnb⟩
  cases hd with
  | clean hcl _ _ => cases hcl
  | viaModule _ hcode hown hp =>
    obtain ⟨st, b0, e⟩ := coinViaModule_of hp hsm
    exact ⟨j, q, st, b0, g, hcode, Or.inl ⟨hown, e⟩⟩
  | viaExternal _ hcode hown hp =>
    obtain ⟨st, b0, e⟩ := coinViaExternal_of hp hsm
    exact ⟨j, q, st, b0, g, hcode, Or.inr ⟨hown, e⟩⟩

theorem handleCoin_cleaned {B : Addr → Behaviour σ} {w w' : World σ} {d : Denom} {amt : Nat} {recv snd : Addr}
    (hw : WellFormed w) (hh : handleCoin B w d amt recv snd = .ok (w', true)) :
    ∃ j q, Gate w d d j q recv ∧ w.code q.addr = false ∧ w.deletePair q = some w' ∧
      w'.bank = w.bank ∧ w'.tok = w.tok ∧ w'.pairs j = none := by
  obtain ⟨q, hme, hd⟩ := handleCoin_ok hh
  obtain ⟨hen, j, hj1, hj2, hq, hqe, hnb, _⟩ := mintingEnabled_ok hme
  cases hd with
  | clean _ hcode hdel =>
    obtain ⟨_, _, hb, ht, _, _, hn⟩ := deletePair_wf hw hq hdel
    exact ⟨j, q, ⟨hen, hj1, hj2, hq, hqe, hnb⟩, hcode, hdel, hb, ht, hn⟩
  | viaModule hcl _ _ _ => cases hcl
  | viaExternal hcl _ _ _ => cases hcl

/-! ## the ICS-20 receive hook: `transferRecv ; tryConvert` with an atomic `tryConvert` -/

/-- what the transfer application alone does to the bank -/
structure CreditEffect (b b' : Bank) (recv : Addr) (v : Denom) (amt : Nat) : Prop where
  valid : validDenom v = true
  pos : 0 < amt
  notBlocked : b.blocked recv = false
  dst : b'.bal recv v = b.bal recv v + amt
  frame : ∀ a e, ¬(a = recv ∧ e = v) → b'.bal a e = b.bal a e
  supply : b'.supply v = b.supply v + amt
  supplyFrame : ∀ e, e ≠ v → b'.supply e = b.supply e
  blocked : b'.blocked = b.blocked
  sendEnabled : b'.sendEnabled = b.sendEnabled

theorem Bank.ibcCredit_ok {b b' : Bank} {recv : Addr} {v : Denom} {amt : Nat} (h : b.ibcCredit recv v amt = .ok b') :
    CreditEffect b b' recv v amt := by
  unfold Bank.ibcCredit at h
  split at h
  · cases h
  · rename_i h1
    split at h
    · cases h
    · split at h
      · cases h
      · rename_i h3
        split at h
        · cases h
        · injection h with h
          subst h
          simp at h1 h3
          refine ⟨h1.1, by omega, h3, ?_, ?_, ?_, ?_, rfl, rfl⟩
          · simp [Bank.setSupply, Bank.setBal]
          · intro a e hne; simp only [Bank.setSupply, Bank.setBal]; rw [if_neg hne]
          · simp [Bank.setSupply, Bank.setBal]
          · intro e he; simp [Bank.setSupply, Bank.setBal, he]

/-- `tryConvert` is atomic: when it does not convert (denomination not registered, or `ConvertCoin` returned an
error) the state is exactly the state it started from. -/
theorem hookConvert_kept {B : Addr → Behaviour σ} {w1 w2 : World σ} {recv : Addr} {v : Denom} {amt : Nat}
    (h : hookConvert B w1 recv v amt = some (w2, .kept)) : w2 = w1 := by
  unfold hookConvert at h
  split at h
  · injection h with h; injection h with h1 _; exact h1.symm
  · split at h
    · injection h with h; injection h with _ h2; cases h2
    · injection h with h; injection h with _ h2; cases h2
    · injection h with h; injection h with h1 _; exact h1.symm
    · cases h

theorem hookConvert_cases {B : Addr → Behaviour σ} {w1 w2 : World σ} {recv : Addr} {v : Denom} {amt : Nat} {r : IcsRes}
    (h : hookConvert B w1 recv v amt = some (w2, r)) :
    (r = .kept ∧ w2 = w1) ∨
    (r = .converted ∧ handleCoin B w1 v amt recv recv = .ok (w2, false)) ∨
    (r = .cleaned ∧ handleCoin B w1 v amt recv recv = .ok (w2, true)) := by
  unfold hookConvert at h
  split at h
  · injection h with h; injection h with h1 h2; exact Or.inl ⟨h2.symm, h1.symm⟩
  · split at h
    · rename_i w3 hh
      injection h with h; injection h with h1 h2; subst h1; exact Or.inr (Or.inl ⟨h2.symm, hh⟩)
    · rename_i w3 hh
      injection h with h; injection h with h1 h2; subst h1; exact Or.inr (Or.inr ⟨h2.symm, hh⟩)
    · injection h with h; injection h with h1 h2; exact Or.inl ⟨h2.symm, h1.symm⟩
    · cases h

/-- Every outcome of a received packet. -/
theorem ics20_cases {B : Addr → Behaviour σ} {w w' : World σ} {p : IcsPacket} {r : IcsRes}
    (h : ics20Recv B w p = (w', r)) :
    (w' = w ∧ (r = .errAck ∨ r = .panicked)) ∨
    ∃ recv b1, p.receiver = some recv ∧ 0 < p.amount ∧
      w.bank.ibcCredit recv p.voucher p.amount.toNat = .ok b1 ∧
      ((r = .kept ∧ w' = afterTransfer w b1) ∨
       (r = .converted ∧ handleCoin B (afterTransfer w b1) p.voucher p.amount.toNat recv recv = .ok (w', false)) ∨
       (r = .cleaned ∧ handleCoin B (afterTransfer w b1) p.voucher p.amount.toNat recv recv = .ok (w', true))) := by
  unfold ics20Recv at h
  split at h
  · injection h with h1 h2; exact Or.inl ⟨h1.symm, Or.inl h2.symm⟩
  · rename_i hpos
    split at h
    · injection h with h1 h2; exact Or.inl ⟨h1.symm, Or.inl h2.symm⟩
    · rename_i recv hrecv
      split at h
      · injection h with h1 h2; exact Or.inl ⟨h1.symm, Or.inl h2.symm⟩
      · injection h with h1 h2; exact Or.inl ⟨h1.symm, Or.inr h2.symm⟩
      · rename_i b1 hb1
        split at h
        · injection h with h1 h2; exact Or.inl ⟨h1.symm, Or.inr h2.symm⟩
        · rename_i x hx
          subst h
          exact Or.inr ⟨recv, b1, hrecv, by omega, hb1, hookConvert_cases hx⟩

/-- An error acknowledgement or a panic: nothing is written. -/
theorem hook_errack_unchanged {B : Addr → Behaviour σ} {w w' : World σ} {p : IcsPacket} {r : IcsRes}
    (h : ics20Recv B w p = (w', r)) (hr : r = .errAck ∨ r = .panicked) : w' = w := by
  rcases ics20_cases h with ⟨h1, _⟩ | ⟨_, _, _, _, _, ⟨h1, _⟩ | ⟨h1, _⟩ | ⟨h1, _⟩⟩
  · exact h1
  all_goals (subst h1; rcases hr with hr | hr <;> cases hr)

/-- **A failed (or not attempted) hook conversion leaves exactly the state of the transfer application**: the
receiver holds the vouchers, nothing is escrowed, no token moved. -/
theorem hook_failed_keeps_transfer {B : Addr → Behaviour σ} {w w' : World σ} {p : IcsPacket}
    (h : ics20Recv B w p = (w', .kept)) :
    ∃ recv b1, p.receiver = some recv ∧ CreditEffect w.bank b1 recv p.voucher p.amount.toNat ∧
      w' = afterTransfer w b1 := by
  rcases ics20_cases h with ⟨_, h2⟩ | ⟨recv, b1, hr, _, hc, ⟨_, h1⟩ | ⟨h1, _⟩ | ⟨h1, _⟩⟩
  · rcases h2 with h2 | h2 <;> cases h2
  · exact ⟨recv, b1, hr, Bank.ibcCredit_ok hc, h1⟩
  · cases h1
  · cases h1

/-- **A successful hook conversion moves the exact amount**: from the state the transfer application left, the
receiver's vouchers (exactly `amount`) go to escrow / are burned and its reported token balance rises by exactly
`amount` (`CoinViaModule` / `CoinViaExternal` with sender = receiver), for ANY token behaviour. -/
theorem hook_converted_exact {B : Addr → Behaviour σ} {w w' : World σ} {p : IcsPacket} (hw : WellFormed w)
    (h : ics20Recv B w p = (w', .converted)) :
    ∃ recv b1 j q st b0, p.receiver = some recv ∧ CreditEffect w.bank b1 recv p.voucher p.amount.toNat ∧
      Gate (afterTransfer w b1) p.voucher p.voucher j q recv ∧
      ((q.owner = .module ∧ CoinViaModule B (afterTransfer w b1) w' q p.voucher p.amount.toNat recv recv st b0) ∨
       (q.owner = .external ∧ CoinViaExternal B (afterTransfer w b1) w' q p.voucher p.amount.toNat recv recv st b0)) := by
  rcases ics20_cases h with ⟨_, h2⟩ | ⟨recv, b1, hr, _, hc, ⟨h1, _⟩ | ⟨_, hh⟩ | ⟨h1, _⟩⟩
  · rcases h2 with h2 | h2 <;> cases h2
  · cases h1
  · have ce := Bank.ibcCredit_ok hc
    have hrm : recv ≠ moduleAddr := by
      intro e; have := ce.notBlocked; rw [e, hw.module_blocked] at this; cases this
    obtain ⟨j, q, st, b0, g, _, hor⟩ := handleCoin_exact hh hrm
    exact ⟨recv, b1, j, q, st, b0, hr, ce, g, hor⟩
  · cases h1

/-! ## Theorem `gated` -/

theorem mintingEnabled_gate {w : World σ} {s r : Addr} {token denom : String}
    (hg : w.enabled = false ∨ (∃ i p, w.pairId token = some i ∧ w.pairs i = some p ∧ p.enabled = false) ∨
          w.bank.blocked r = true) :
    ∃ c, mintingEnabled w s r token denom = .err c := by
  cases hres : mintingEnabled w s r token denom with
  | err c => exact ⟨c, rfl⟩
  | ok pair =>
    obtain ⟨hen, i, hi, _, hp, hpe, hnb, _⟩ := mintingEnabled_ok hres
    rcases hg with h | ⟨i', p', h1, h2, h3⟩ | h
    · rw [hen] at h; cases h
    · rw [hi] at h1; injection h1 with h1; subst h1
      rw [hp] at h2; injection h2 with h2; subst h2
      rw [hpe] at h3; cases h3
    · rw [hnb] at h; cases h
  | panic x =>
    exfalso
    unfold mintingEnabled at hres
    dsimp only at hres
    repeat (first | cases hres | split at hres)

/-- Module disabled, pair disabled, or blocked receiver ⇒ `MsgConvertCoin` is rejected and nothing is written. -/
theorem gated_coin {B : Addr → Behaviour σ} {w : World σ} {m : MsgCoin}
    (hg : w.enabled = false ∨ (∃ i p, w.pairId m.denom = some i ∧ w.pairs i = some p ∧ p.enabled = false) ∨
          w.bank.blocked (hexToAddr m.receiver) = true) :
    ∃ c, deliverCoin B w m = (w, .rejected c) := by
  unfold deliverCoin
  split
  · exact ⟨_, rfl⟩
  · obtain ⟨c, hc⟩ := mintingEnabled_gate (s := handlerAddr m.sender) (denom := m.denom) hg
    exact ⟨c, by simp [handleCoin, hc, finish]⟩

/-- The same for `MsgConvertERC20` (the pair is the one the contract address resolves to). -/
theorem gated_erc20 {B : Addr → Behaviour σ} {w : World σ} {m : MsgERC20}
    (hg : w.enabled = false ∨ (∃ i p, w.pairId m.contract = some i ∧ w.pairs i = some p ∧ p.enabled = false) ∨
          (∃ rc, m.receiverAddr = some rc ∧ w.bank.blocked rc = true)) :
    ∃ c, deliverERC20 B w m = (w, .rejected c) := by
  unfold deliverERC20
  split
  · exact ⟨_, rfl⟩
  · rename_i hv
    simp at hv
    obtain ⟨rc, hrc⟩ := isSome_of_validateERC20 hv
    have hp : handlerAddr m.receiver = rc := by
      simp only [handlerAddr]; simp only [MsgERC20.receiverAddr] at hrc; rw [hrc]; rfl
    rw [hp]
    have hg' : w.enabled = false ∨ (∃ i p, w.pairId m.contract = some i ∧ w.pairs i = some p ∧ p.enabled = false) ∨
        w.bank.blocked rc = true := by
      rcases hg with h | h | ⟨rc', h1, h2⟩
      · exact Or.inl h
      · exact Or.inr (Or.inl h)
      · rw [hrc] at h1; injection h1 with h1; subst h1; exact Or.inr (Or.inr h2)
    obtain ⟨c, hc⟩ := mintingEnabled_gate (s := hexToAddr m.sender) (denom := m.denom) hg'
    exact ⟨c, by simp [handleERC20, hc, finish]⟩

/-- Non-positive amounts never get past `ValidateBasic`. -/
theorem nonpositive_rejected_coin {B : Addr → Behaviour σ} {w : World σ} {m : MsgCoin} (h : m.amount ≤ 0) :
    deliverCoin B w m = (w, .rejected "basic") := by
  have : m.validateBasic = false := by
    simp [MsgCoin.validateBasic]; intro _ h2; omega
  simp [deliverCoin, this]

theorem nonpositive_rejected_erc20 {B : Addr → Behaviour σ} {w : World σ} {m : MsgERC20} (h : m.amount ≤ 0) :
    deliverERC20 B w m = (w, .rejected "basic") := by
  have : m.validateBasic = false := by
    simp [MsgERC20.validateBasic]; intro _ h2; omega
  simp [deliverERC20, this]


/-! ## Theorem `backed_module_pairs` -/

/-- coins of the pair's denominations held by the module account -/
def escrow (w : World σ) (p : Pair) : Nat := sumMap p.denoms (fun d => w.bank.bal moduleAddr d)

/-- What is assumed of the contract behind a module-owned pair (it is deployed by `RegisterCoin` from the fixed
`ERC20MinterBurnerDecimals` byte code with the module as only minter/burner): the total supply moves only through
`mint` / `burnCoins` called by the module, by at most / at least the amount. -/
structure ModuleToken (Bc : Behaviour σ) : Prop where
  transfer_le : ∀ st c t a st' v ap, Bc.transfer st c t a = .ret st' v ap → Bc.totalSupply st' ≤ Bc.totalSupply st
  mint_module : ∀ st t a st' v ap, Bc.mint st moduleAddr t a = .ret st' v ap → Bc.totalSupply st' ≤ Bc.totalSupply st + a
  mint_other : ∀ st c t a st' v ap, c ≠ moduleAddr → Bc.mint st c t a = .ret st' v ap → Bc.totalSupply st' ≤ Bc.totalSupply st
  burn_module : ∀ st f a st' v ap, Bc.burnCoins st moduleAddr f a = .ret st' v ap → Bc.totalSupply st' + a ≤ Bc.totalSupply st
  burn_other : ∀ st c f a st' v ap, c ≠ moduleAddr → Bc.burnCoins st c f a = .ret st' v ap → Bc.totalSupply st' ≤ Bc.totalSupply st

/-- Nobody holds coins whose denomination merely *looks like* the address of a module-owned pair's contract
(`GetTokenPairID` would route such a denomination to that pair although the pair does not list it). -/
def NoAliasFunds (w : World σ) : Prop :=
  ∀ i p, w.pairs i = some p → p.owner = .module → ∀ d, w.pairId d = some i → d ∉ p.denoms → ∀ a, w.bank.bal a d = 0

/-- The invariant: every module-owned pair's ERC-20 supply is covered by the coins of its denominations in escrow. -/
structure ModInv (B : Addr → Behaviour σ) (w : World σ) : Prop where
  wf : WellFormed w
  noAlias : NoAliasFunds w
  tokens : ∀ i p, w.pairs i = some p → p.owner = .module → ModuleToken (B p.addr)
  backed : ∀ i p, w.pairs i = some p → p.owner = .module → (B p.addr).totalSupply (w.tok p.addr) ≤ escrow w p

/-- No action is signed by the aggregate module account (it has no key). -/
def Action.signed : Action → Prop
  | .coin m => m.senderAddr ≠ some moduleAddr
  | .ics20 p => isHexAddress p.voucher = false     -- IBC vouchers are `ibc/<hash>`
  | .userTransfer _ c _ _ => c ≠ moduleAddr
  | .userMint _ c _ _ => c ≠ moduleAddr
  | .userBurn _ c _ _ => c ≠ moduleAddr
  | .bankSend s _ _ _ => s ≠ moduleAddr
  -- governance operations that rewrite the registry are outside the backing theorems (registry: C12, taken as given)
  | .addCoin _ _ => False
  | .updateERC20 _ _ _ => False
  | _ => True

theorem escrow_denoms {w : World σ} {p p' : Pair} (h : p'.denoms = p.denoms) : escrow w p' = escrow w p := by
  simp [escrow, h]

theorem ModInv.of_step {B : Addr → Behaviour σ} {w w' : World σ} (hI : ModInv B w) (hwf : WellFormed w') (hsub : Sub w w')
    (hzero : ∀ i p d, w.pairs i = some p → p.owner = .module → w.pairId d = some i → d ∉ p.denoms →
      ∀ a, w'.bank.bal a d = 0)
    (hback : ∀ i p, w.pairs i = some p → p.owner = .module →
      (B p.addr).totalSupply (w'.tok p.addr) + escrow w p ≤ (B p.addr).totalSupply (w.tok p.addr) + escrow w' p) :
    ModInv B w' := by
  refine ⟨hwf, ?_, ?_, ?_⟩
  · intro i p' hp' ho d hd hnd a
    obtain ⟨p, hp, _, h2, h3⟩ := hsub.pairs i p' hp'
    exact hzero i p d hp (h3 ▸ ho) (hsub.pairId d i hd) (h2 ▸ hnd) a
  · intro i p' hp' ho
    obtain ⟨p, hp, h1, _, h3⟩ := hsub.pairs i p' hp'
    rw [h1]; exact hI.tokens i p hp (h3 ▸ ho)
  · intro i p' hp' ho
    obtain ⟨p, hp, h1, h2, h3⟩ := hsub.pairs i p' hp'
    have hb := hI.backed i p hp (h3 ▸ ho)
    have hs := hback i p hp (h3 ▸ ho)
    rw [h1, escrow_denoms h2]
    omega

/-- steps that leave bank balances alone and can only lower the supply of module tokens -/
theorem ModInv.of_quiet {B : Addr → Behaviour σ} {w w' : World σ} (hI : ModInv B w) (hwf : WellFormed w') (hsub : Sub w w')
    (hbal : w'.bank.bal = w.bank.bal)
    (htok : ∀ i p, w.pairs i = some p → p.owner = .module →
      (B p.addr).totalSupply (w'.tok p.addr) ≤ (B p.addr).totalSupply (w.tok p.addr)) : ModInv B w' := by
  refine hI.of_step hwf hsub ?_ ?_
  · intro i p d hp ho hd hnd a
    rw [hbal]; exact hI.noAlias i p hp ho d hd hnd a
  · intro i p hp ho
    have := htok i p hp ho
    have he : escrow w' p = escrow w p := by simp [escrow, hbal]
    omega

theorem addr_ne_of_id_ne {w : World σ} (hw : WellFormed w) {i j : Id} {p q : Pair} (hp : w.pairs i = some p)
    (hq : w.pairs j = some q) (hij : i ≠ j) : p.addr ≠ q.addr := by
  intro e
  have h1 := hw.erc_back i p hp
  have h2 := hw.erc_back j q hq
  rw [e, h2] at h1
  injection h1 with h1
  exact hij h1.symm

theorem pairId_of_listed {w : World σ} (hw : WellFormed w) {i : Id} {p : Pair} (hp : w.pairs i = some p) {d : Denom}
    (hd : d ∈ p.denoms) : w.pairId d = some i := by
  unfold World.pairId
  rw [hw.not_hex i p hp d hd]
  simpa using hw.den_back i p hp d hd


theorem SameRegistry.wf {w w' : World σ} {c : Addr} {st : σ} (r : SameRegistry w w' c st) (hw : WellFormed w) :
    WellFormed w' := hw.of_registry_eq r.pairs r.byErc20 r.byDenom r.blocked

theorem SameRegistry.sub {w w' : World σ} {c : Addr} {st : σ} (r : SameRegistry w w' c st) : Sub w w' :=
  Sub.of_registry_eq r.pairs r.byErc20 r.byDenom r.blocked

theorem SameRegistry.tok_ne {w w' : World σ} {c : Addr} {st : σ} (r : SameRegistry w w' c st) {a : Addr} (h : a ≠ c) :
    w'.tok a = w.tok a := by rw [r.tok]; simp [h]

theorem SameRegistry.tok_eq {w w' : World σ} {c : Addr} {st : σ} (r : SameRegistry w w' c st) : w'.tok c = st := by
  rw [r.tok]; simp

theorem modInv_coinViaModule {B : Addr → Behaviour σ} {w w' : World σ} {q : Pair} {j : Id} {d : Denom} {amt : Nat}
    {recv snd : Addr} {st : σ} {b0 : Nat} (hI : ModInv B w) (hq : w.pairs j = some q) (hqo : q.owner = .module)
    (hd : w.pairId d = some j) (hs : snd ≠ moduleAddr) (e : CoinViaModule B w w' q d amt recv snd st b0) : ModInv B w' := by
  have hms : moduleAddr ≠ snd := fun x => hs x.symm
  have hdq : d ∈ q.denoms := by
    apply Classical.byContradiction
    intro hn
    have := hI.noAlias j q hq hqo d hd hn snd
    have h1 := e.bank.enough
    have h2 := e.bank.pos
    omega
  refine hI.of_step (e.reg.wf hI.wf) e.reg.sub ?_ ?_
  · intro i p d0 hp ho hd0 hnd a
    have hz := hI.noAlias i p hp ho d0 hd0 hnd
    by_cases hdd : d0 = d
    · subst hdd
      have h1 := e.bank.enough
      have h2 := e.bank.pos
      have := hz snd
      omega
    · rw [e.bank.frame a d0 (fun x => hdd x.2) (fun x => hdd x.2)]; exact hz a
  · intro i p hp ho
    by_cases hij : i = j
    · subst hij
      rw [hq] at hp; injection hp with hp; subst hp
      obtain ⟨v, ap, hcall⟩ := e.call
      have h1 := (hI.tokens i q hq hqo).mint_module _ _ _ _ _ _ hcall
      rw [e.reg.tok_eq]
      have h2 : escrow w' q = escrow w q + amt := by
        apply sumMap_add_mem (hI.wf.nodup i q hq) hdq
        · intro x hx
          exact e.bank.frame moduleAddr x (fun y => hx y.2) (fun y => hx y.2)
        · exact e.bank.dst
      omega
    · have hne := addr_ne_of_id_ne hI.wf hp hq hij
      rw [e.reg.tok_ne hne]
      have : escrow w p ≤ escrow w' p := by
        apply sumMap_mono
        intro x _
        by_cases hx : x = d
        · subst hx; rw [e.bank.dst]; omega
        · rw [e.bank.frame moduleAddr x (fun y => hx y.2) (fun y => hx y.2)]; exact Nat.le_refl _
      omega

theorem modInv_coinViaExternal {B : Addr → Behaviour σ} {w w' : World σ} {q : Pair} {j : Id} {d : Denom} {amt : Nat}
    {recv snd : Addr} {st : σ} {b0 : Nat} (hI : ModInv B w) (hq : w.pairs j = some q) (hqo : q.owner = .external)
    (hs : snd ≠ moduleAddr) (e : CoinViaExternal B w w' q d amt recv snd st b0) : ModInv B w' := by
  have hms : moduleAddr ≠ snd := fun x => hs x.symm
  refine hI.of_step (e.reg.wf hI.wf) e.reg.sub ?_ ?_
  · intro i p d0 hp ho hd0 hnd a
    have hz := hI.noAlias i p hp ho d0 hd0 hnd
    by_cases hdd : d0 = d
    · subst hdd
      have h1 := e.enough
      have h2 := e.pos
      have := hz snd
      omega
    · rw [e.frame a d0 (fun x => hdd x.2)]; exact hz a
  · intro i p hp ho
    have hij : i ≠ j := by
      intro x; subst x
      rw [hq] at hp; injection hp with hp; subst hp
      rw [hqo] at ho; cases ho
    have hne := addr_ne_of_id_ne hI.wf hp hq hij
    rw [e.reg.tok_ne hne]
    have : escrow w' p = escrow w p := by
      apply sumMap_congr
      intro x _
      exact e.frame moduleAddr x (fun y => hms y.1)
    omega

theorem modInv_erc20ViaModule {B : Addr → Behaviour σ} {w w' : World σ} {q : Pair} {j : Id} {d : Denom} {amt : Nat}
    {recv snd : Addr} {st : σ} {t0 : Nat} (hI : ModInv B w) (hq : w.pairs j = some q) (hqo : q.owner = .module)
    (hd : w.pairId d = some j) (e : ERC20ViaModule B w w' q d amt recv snd st t0) : ModInv B w' := by
  have hmr : moduleAddr ≠ recv := by
    intro x
    have := e.notBlocked
    rw [← x, hI.wf.module_blocked] at this; cases this
  refine hI.of_step (e.reg.wf hI.wf) e.reg.sub ?_ ?_
  · intro i p d0 hp ho hd0 hnd a
    have hz := hI.noAlias i p hp ho d0 hd0 hnd
    by_cases hdd : d0 = d
    · subst hdd
      have h1 := e.bank.enough
      have h2 := e.bank.pos
      have := hz moduleAddr
      omega
    · rw [e.bank.frame a d0 (fun x => hdd x.2) (fun x => hdd x.2)]; exact hz a
  · intro i p hp ho
    by_cases hij : i = j
    · subst hij
      rw [hq] at hp; injection hp with hp; subst hp
      obtain ⟨v, ap, hcall⟩ := e.call
      have h1 := (hI.tokens i q hq hqo).burn_module _ _ _ _ _ _ hcall
      rw [e.reg.tok_eq]
      by_cases hdq : d ∈ q.denoms
      · have h2 : escrow w' q + amt = escrow w q := by
          apply sumMap_sub_mem (hI.wf.nodup i q hq) hdq
          · intro x hx
            exact e.bank.frame moduleAddr x (fun y => hx y.2) (fun y => hx y.2)
          · have := e.bank.src
            have := e.bank.enough
            omega
        omega
      · have h2 : escrow w' q = escrow w q := by
          apply sumMap_congr
          intro x hx
          have hxd : x ≠ d := fun y => hdq (y ▸ hx)
          exact e.bank.frame moduleAddr x (fun y => hxd y.2) (fun y => hxd y.2)
        omega
    · have hne := addr_ne_of_id_ne hI.wf hp hq hij
      rw [e.reg.tok_ne hne]
      have : escrow w' p = escrow w p := by
        apply sumMap_congr
        intro x hx
        have hxd : x ≠ d := by
          intro y; subst y
          have := pairId_of_listed hI.wf hp hx
          rw [hd] at this; injection this with this
          exact hij this.symm
        exact e.bank.frame moduleAddr x (fun y => hxd y.2) (fun y => hxd y.2)
      omega

theorem modInv_erc20ViaExternal {B : Addr → Behaviour σ} {w w' : World σ} {q : Pair} {j : Id} {d : Denom} {amt : Nat}
    {recv snd : Addr} {st : σ} {t0 : Nat} (hI : ModInv B w) (hq : w.pairs j = some q) (hqo : q.owner = .external)
    (hd : w.pairId d = some j) (e : ERC20ViaExternal B w w' q d amt recv snd st t0) : ModInv B w' := by
  have hmr : moduleAddr ≠ recv := by
    intro x
    have := e.notBlocked
    rw [← x, hI.wf.module_blocked] at this; cases this
  have hown : ∀ i p, w.pairs i = some p → p.owner = .module → i ≠ j := by
    intro i p hp ho x; subst x
    rw [hq] at hp; injection hp with hp; subst hp
    rw [hqo] at ho; cases ho
  refine hI.of_step (e.reg.wf hI.wf) e.reg.sub ?_ ?_
  · intro i p d0 hp ho hd0 hnd a
    have hz := hI.noAlias i p hp ho d0 hd0 hnd
    have hdd : d0 ≠ d := by
      intro x; subst x
      rw [hd] at hd0; injection hd0 with hd0
      exact hown i p hp ho hd0.symm
    rw [e.frame a d0 (fun x => hdd x.2)]; exact hz a
  · intro i p hp ho
    have hne := addr_ne_of_id_ne hI.wf hp hq (hown i p hp ho)
    rw [e.reg.tok_ne hne]
    have : escrow w' p = escrow w p := by
      apply sumMap_congr
      intro x _
      exact e.frame moduleAddr x (fun y => hmr y.1)
    omega


theorem modInv_coin {B : Addr → Behaviour σ} {w : World σ} {m : MsgCoin} (hI : ModInv B w)
    (hs : m.senderAddr ≠ some moduleAddr) : ModInv B (deliverCoin B w m).1 := by
  cases hr : deliverCoin B w m with
  | mk w' r =>
    cases r with
    | rejected c => rw [coin_rejected_unchanged hr (by simp)]; exact hI
    | panicked => rw [coin_rejected_unchanged hr (by simp)]; exact hI
    | cleaned =>
      obtain ⟨j, q, g, _, hdel, _, _, _⟩ := coin_cleaned hI.wf hr
      obtain ⟨hwf, hsub, hb, ht, _, _, _⟩ := deletePair_wf hI.wf g.pair hdel
      exact hI.of_quiet hwf hsub (by rw [hb]) (fun i p _ _ => by rw [ht]; exact Nat.le_refl _)
    | converted =>
      obtain ⟨s, j, q, st, b0, hsd, _, g, _, h | h⟩ := coin_exact hI.wf hr hs
      · exact modInv_coinViaModule hI g.pair h.1 g.denomId (fun e => hs (by rw [hsd, e])) h.2
      · exact modInv_coinViaExternal hI g.pair h.1 (fun e => hs (by rw [hsd, e])) h.2

theorem modInv_erc20 {B : Addr → Behaviour σ} {w : World σ} {m : MsgERC20} (hI : ModInv B w) :
    ModInv B (deliverERC20 B w m).1 := by
  cases hr : deliverERC20 B w m with
  | mk w' r =>
    cases r with
    | rejected c => rw [erc20_rejected_unchanged hr (by simp)]; exact hI
    | panicked => rw [erc20_rejected_unchanged hr (by simp)]; exact hI
    | cleaned =>
      obtain ⟨rc, j, q, _, g, _, hdel, _, _, _⟩ := erc20_cleaned hI.wf hr
      obtain ⟨hwf, hsub, hb, ht, _, _, _⟩ := deletePair_wf hI.wf g.pair hdel
      exact hI.of_quiet hwf hsub (by rw [hb]) (fun i p _ _ => by rw [ht]; exact Nat.le_refl _)
    | converted =>
      obtain ⟨rc, j, q, st, t0, _, _, g, _, h | h⟩ := erc20_exact hI.wf hr
      · exact modInv_erc20ViaModule hI g.pair h.1 g.denomId h.2
      · exact modInv_erc20ViaExternal hI g.pair h.1 g.denomId h.2

/-- a user's call into a token contract -/
theorem modInv_call {B : Addr → Behaviour σ} {w : World σ} {c : Addr} {r : Call σ} (hI : ModInv B w)
    (hle : ∀ st v ap, r = .ret st v ap → ∀ i p, w.pairs i = some p → p.owner = .module → p.addr = c →
      (B c).totalSupply st ≤ (B c).totalSupply (w.tok c)) :
    ModInv B (applyCall w c r) := by
  cases r with
  | revert => exact hI
  | ret st v ap =>
    refine hI.of_quiet (hI.wf.of_registry_eq rfl rfl rfl rfl) (Sub.of_registry_eq rfl rfl rfl rfl) rfl ?_
    intro i p hp ho
    simp only [applyCall, World.setTok]
    by_cases hpc : p.addr = c
    · rw [if_pos hpc, hpc]; exact hle st v ap rfl i p hp ho hpc
    · rw [if_neg hpc]; exact Nat.le_refl _

theorem Bank.send_frame {b b' : Bank} {s t : Addr} {d : Denom} {amt : Nat} (h : b.send s t d amt = .ok b') :
    0 < amt ∧ amt ≤ b.bal s d ∧ (∀ a e, e ≠ d → b'.bal a e = b.bal a e) ∧
    (∀ a, a ≠ s → a ≠ t → b'.bal a d = b.bal a d) ∧ b'.blocked = b.blocked ∧ b'.supply = b.supply := by
  obtain ⟨_, hp, hle, rfl⟩ := Bank.send_ok h
  refine ⟨hp, hle, ?_, ?_, rfl, rfl⟩
  · intro a e he; simp [Bank.setBal, he]
  · intro a h1 h2; simp [Bank.setBal, h1, h2]

theorem modInv_bankSend {B : Addr → Behaviour σ} {w : World σ} {s t : Addr} {d : Denom} {amt : Nat} (hI : ModInv B w)
    (hs : s ≠ moduleAddr) : ModInv B { w with bank := bankMsgSend w.bank s t d amt } := by
  unfold bankMsgSend
  split
  · exact hI
  · rename_i hc
    simp at hc
    split
    · rename_i b' hsend
      obtain ⟨hp, hle, hf1, hf2, hbl, _⟩ := Bank.send_frame hsend
      have htm : moduleAddr ≠ t := by
        intro e; have := hc.2; rw [← e, hI.wf.module_blocked] at this; cases this
      refine hI.of_step (hI.wf.of_registry_eq rfl rfl rfl hbl) (Sub.of_registry_eq rfl rfl rfl hbl) ?_ ?_
      · intro i p d0 hp0 ho hd0 hnd a
        have hz := hI.noAlias i p hp0 ho d0 hd0 hnd
        by_cases hdd : d0 = d
        · subst hdd; have := hz s; omega
        · show b'.bal a d0 = 0
          rw [hf1 a d0 hdd]; exact hz a
      · intro i p hp0 ho
        have : escrow { w with bank := b' } p = escrow w p := by
          apply sumMap_congr
          intro x _
          show b'.bal moduleAddr x = w.bank.bal moduleAddr x
          by_cases hx : x = d
          · subst hx; exact hf2 moduleAddr (fun e => hs e.symm) htm
          · exact hf1 moduleAddr x hx
        show (B p.addr).totalSupply (w.tok p.addr) + escrow w p ≤ (B p.addr).totalSupply (w.tok p.addr) + escrow { w with bank := b' } p
        omega
    · exact hI

theorem modInv_handleCoin {B : Addr → Behaviour σ} {w w' : World σ} {d : Denom} {amt : Nat} {recv snd : Addr} {cl : Bool}
    (hI : ModInv B w) (hsm : snd ≠ moduleAddr) (hh : handleCoin B w d amt recv snd = .ok (w', cl)) : ModInv B w' := by
  cases cl with
  | true =>
    obtain ⟨j, q, g, _, hdel, _, _, _⟩ := handleCoin_cleaned hI.wf hh
    obtain ⟨hwf, hsub, hb, ht, _, _, _⟩ := deletePair_wf hI.wf g.pair hdel
    exact hI.of_quiet hwf hsub (by rw [hb]) (fun i p _ _ => by rw [ht]; exact Nat.le_refl _)
  | false =>
    obtain ⟨j, q, st, b0, g, _, h | h⟩ := handleCoin_exact hh hsm
    · exact modInv_coinViaModule hI g.pair h.1 g.denomId hsm h.2
    · exact modInv_coinViaExternal hI g.pair h.1 hsm h.2

/-- the transfer application's credit of an IBC voucher keeps the invariant -/
theorem modInv_credit {B : Addr → Behaviour σ} {w : World σ} {b1 : Bank} {recv : Addr} {v : Denom} {amt : Nat}
    (hI : ModInv B w) (ce : CreditEffect w.bank b1 recv v amt) (hv : isHexAddress v = false) :
    ModInv B (afterTransfer w b1) := by
  have hrm : recv ≠ moduleAddr := by
    intro e; have := ce.notBlocked; rw [e, hI.wf.module_blocked] at this; cases this
  refine hI.of_step (hI.wf.of_registry_eq rfl rfl rfl ce.blocked) (Sub.of_registry_eq rfl rfl rfl ce.blocked) ?_ ?_
  · intro i p d0 hp ho hd0 hnd a
    have hz := hI.noAlias i p hp ho d0 hd0 hnd
    by_cases hdd : d0 = v
    · subst hdd
      exfalso
      have h1 : w.byDenom d0 = some i := by simpa [World.pairId, hv] using hd0
      obtain ⟨p', hp', hin⟩ := hI.wf.den_ok d0 i h1
      rw [hp] at hp'; injection hp' with hp'; subst hp'
      exact hnd hin
    · show b1.bal a d0 = 0
      rw [ce.frame a d0 (fun x => hdd x.2)]; exact hz a
  · intro i p hp ho
    have : escrow (afterTransfer w b1) p = escrow w p := by
      apply sumMap_congr
      intro x _
      exact ce.frame moduleAddr x (fun y => hrm y.1.symm)
    show (B p.addr).totalSupply (w.tok p.addr) + escrow w p ≤ (B p.addr).totalSupply (w.tok p.addr) + escrow (afterTransfer w b1) p
    omega

theorem modInv_ics20 {B : Addr → Behaviour σ} {w : World σ} {p : IcsPacket} (hI : ModInv B w)
    (hv : isHexAddress p.voucher = false) : ModInv B (ics20Recv B w p).1 := by
  cases hr : ics20Recv B w p with
  | mk w' r =>
    rcases ics20_cases hr with ⟨h1, _⟩ | ⟨recv, b1, _, _, hc, h⟩
    · rw [h1]; exact hI
    · have ce := Bank.ibcCredit_ok hc
      have hI1 := modInv_credit hI ce hv
      have hrm : recv ≠ moduleAddr := by
        intro e; have := ce.notBlocked; rw [e, hI.wf.module_blocked] at this; cases this
      rcases h with ⟨_, h1⟩ | ⟨_, hh⟩ | ⟨_, hh⟩
      · rw [h1]; exact hI1
      · exact modInv_handleCoin hI1 hrm hh
      · exact modInv_handleCoin hI1 hrm hh

theorem modInv_step {B : Addr → Behaviour σ} {w : World σ} {a : Action} (hI : ModInv B w) (ha : a.signed) :
    ModInv B (step B w a) := by
  cases a with
  | coin m => exact modInv_coin hI ha
  | erc20 m => exact modInv_erc20 hI
  | ics20 p => exact modInv_ics20 hI ha
  | userTransfer c caller to amt =>
    simp only [step]
    split
    · exact modInv_call hI (fun st v ap hr i p hp ho hpc => (hpc ▸ hI.tokens i p hp ho).transfer_le _ _ _ _ _ _ _ hr)
    · exact hI
  | userMint c caller to amt =>
    simp only [step]
    split
    · exact modInv_call hI (fun st v ap hr i p hp ho hpc => (hpc ▸ hI.tokens i p hp ho).mint_other _ _ _ _ _ _ _ ha hr)
    · exact hI
  | userBurn c caller fromA amt =>
    simp only [step]
    split
    · exact modInv_call hI (fun st v ap hr i p hp ho hpc => (hpc ▸ hI.tokens i p hp ho).burn_other _ _ _ _ _ _ _ ha hr)
    · exact hI
  | bankSend s t d amt => exact modInv_bankSend hI ha
  | setEnabled b =>
    exact hI.of_quiet (hI.wf.of_registry_eq rfl rfl rfl rfl) (Sub.of_registry_eq rfl rfl rfl rfl) rfl (fun _ _ _ _ => Nat.le_refl _)
  | setParamByKey k b =>
    exact hI.of_quiet (hI.wf.of_registry_eq rfl rfl rfl rfl) (Sub.of_registry_eq rfl rfl rfl rfl) rfl (fun _ _ _ _ => Nat.le_refl _)
  | toggle t =>
    obtain ⟨hwf, hsub, hb, ht⟩ := toggle_wf hI.wf t
    exact hI.of_quiet hwf hsub (by simp only [step]; rw [hb]) (fun _ _ _ _ => by simp only [step]; rw [ht]; exact Nat.le_refl _)
  | setSendEnabled d b =>
    exact hI.of_quiet (hI.wf.of_registry_eq rfl rfl rfl rfl) (Sub.of_registry_eq rfl rfl rfl rfl) rfl (fun _ _ _ _ => Nat.le_refl _)
  | selfdestruct c =>
    exact hI.of_quiet (hI.wf.of_registry_eq rfl rfl rfl rfl) (Sub.of_registry_eq rfl rfl rfl rfl) rfl (fun _ _ _ _ => Nat.le_refl _)
  | restart => exact hI
  | addCoin d c => exact ha.elim
  | updateERC20 o n m => exact ha.elim

/-- **backed_module_pairs**: over arbitrary histories of conversions (any amounts, pairs, denominations, token
behaviours of the *other* contracts) interleaved with user token calls, bank sends, parameter changes, relay
toggles and self-destructs, every module-owned pair's ERC-20 supply stays covered by the escrowed coins of its
denominations. -/
theorem backed_module_pairs {B : Addr → Behaviour σ} {w : World σ} {as : List Action} (hI : ModInv B w)
    (ha : ∀ a ∈ as, a.signed) : ModInv B (run B w as) := by
  induction as generalizing w with
  | nil => exact hI
  | cons a as ih =>
    exact ih (modInv_step hI (ha a (by simp))) (fun b hb => ha b (by simp [hb]))


/-! ## Theorem `backed_external_pairs` -/

/-- token balance the contract at `c` reports for the module account; 0 when the reading fails (used by the witnesses) -/
def reportedBal (B : Addr → Behaviour σ) (w : World σ) (c : Addr) : Nat := (balOf B w c moduleAddr).getD 0

/-- the tokens escrowed at contract `c`, by the ghost ledger `E` of the token class (see `ExternalToken`) -/
def modBal (E : Addr → σ → Nat) (w : World σ) (c : Addr) : Nat := E c (w.tok c)

/-- What is assumed of an externally owned token for the backing invariant, relative to a ledger `esc` of what the
contract holds for the module (a ghost: the keeper never sees it):
  * a `balanceOf(module)` reading may FAIL (revert, undecodable return data) but never lies: when it answers, it
    answers `esc`;
  * calls by anybody but the module never lower `esc` (for `ERC20MinterBurnerDecimals`: the BURNER_ROLE holder does not
    burn the escrow).
Nothing is assumed about calls made by the module itself — the keeper's post-checks decide — nor about `transfer`'s
return data. Fee-taking, double-debiting, Approval-emitting tokens and the programmable token (failing view functions,
transfers without effect, …) all satisfy this. -/
structure ExternalToken (Bc : Behaviour σ) (esc : σ → Nat) : Prop where
  truthful : ∀ st m, Bc.balanceOf st moduleAddr = some m → m = esc st
  transfer_other : ∀ st c t a st' v ap, c ≠ moduleAddr → Bc.transfer st c t a = .ret st' v ap → esc st ≤ esc st'
  mint_other : ∀ st c t a st' v ap, c ≠ moduleAddr → Bc.mint st c t a = .ret st' v ap → esc st ≤ esc st'
  burn_other : ∀ st c f a st' v ap, c ≠ moduleAddr → Bc.burnCoins st c f a = .ret st' v ap → esc st ≤ esc st'

/-- The invariant for the external pairs whose contract is in the honest set `H`: the supply of *every* coin
denomination that resolves to the pair (the listed voucher and all hex-address-looking aliases together) is covered
by the tokens the module holds. -/
structure ExtInv (B : Addr → Behaviour σ) (H : Addr → Prop) (V : Denom → Prop) (E : Addr → σ → Nat)
    (w : World σ) : Prop where
  wf : WellFormed w
  /-- the tokens of the set `H` belong to the class `ExternalToken` with the ledger `E` -/
  tokens : ∀ a, H a → ExternalToken (B a) (E a)
  /-- `V` = the IBC voucher denominations received packets may carry: no honest external pair lists one of them
  ("a pair listing only that voucher": coins minted by somebody else than the aggregate module are not backed by
  escrowed tokens) -/
  noIbc : ∀ i p, w.pairs i = some p → p.owner = .external → H p.addr → ∀ d, V d → w.pairId d ≠ some i
  backed : ∀ i p, w.pairs i = some p → p.owner = .external → H p.addr →
    ∀ L : List Denom, L.Nodup → (∀ d ∈ L, w.pairId d = some i) → sumMap L w.bank.supply ≤ modBal E w p.addr

theorem ExtInv.of_step {B : Addr → Behaviour σ} {H : Addr → Prop} {V : Denom → Prop} {E : Addr → σ → Nat} {w w' : World σ} (hI : ExtInv B H V E w)
    (hwf : WellFormed w') (hsub : Sub w w')
    (hback : ∀ i p, w.pairs i = some p → p.owner = .external → H p.addr →
      ∀ L : List Denom, L.Nodup → (∀ d ∈ L, w.pairId d = some i) → sumMap L w'.bank.supply ≤ modBal E w' p.addr) :
    ExtInv B H V E w' := by
  refine ⟨hwf, hI.tokens, ?_, ?_⟩
  · intro i p' hp' ho hH d hd hid
    obtain ⟨p, hp, h1, _, h3⟩ := hsub.pairs i p' hp'
    exact hI.noIbc i p hp (h3 ▸ ho) (h1 ▸ hH) d hd (hsub.pairId d i hid)
  intro i p' hp' ho hH L hn hL
  obtain ⟨p, hp, h1, _, h3⟩ := hsub.pairs i p' hp'
  rw [h1]
  exact hback i p hp (h3 ▸ ho) (h1 ▸ hH) L hn (fun d hd => hsub.pairId d i (hL d hd))

theorem ExtInv.of_quiet {B : Addr → Behaviour σ} {H : Addr → Prop} {V : Denom → Prop} {E : Addr → σ → Nat} {w w' : World σ} (hI : ExtInv B H V E w)
    (hwf : WellFormed w') (hsub : Sub w w') (hsup : w'.bank.supply = w.bank.supply)
    (htok : ∀ i p, w.pairs i = some p → p.owner = .external → H p.addr → modBal E w p.addr ≤ modBal E w' p.addr) :
    ExtInv B H V E w' := by
  refine hI.of_step hwf hsub ?_
  intro i p hp ho hH L hn hL
  rw [hsup]
  exact Nat.le_trans (hI.backed i p hp ho hH L hn hL) (htok i p hp ho hH)

theorem modBal_tok_eq {E : Addr → σ → Nat} {w w' : World σ} {c : Addr} (h : w'.tok c = w.tok c) :
    modBal E w' c = modBal E w c := by simp [modBal, h]

theorem sumMap_le_add {l : List Denom} {f g : Denom → Nat} {d : Denom} {k : Nat} (hn : l.Nodup)
    (h : ∀ e, e ≠ d → g e = f e) (hg : g d = f d + k) : sumMap l g ≤ sumMap l f + k := by
  by_cases hd : d ∈ l
  · rw [sumMap_add_mem hn hd h hg]; exact Nat.le_refl _
  · rw [sumMap_congr (f := f) (fun e he => h e (fun x => hd (x ▸ he)))]; omega

theorem owner_ne_id {w : World σ} {i j : Id} {p q : Pair} (hp : w.pairs i = some p) (hq : w.pairs j = some q)
    (h : p.owner ≠ q.owner) : i ≠ j := by
  intro x; subst x
  rw [hq] at hp; injection hp with hp; subst hp
  exact h rfl

theorem extInv_handleCoin {B : Addr → Behaviour σ} {H : Addr → Prop} {V : Denom → Prop} {E : Addr → σ → Nat} {w w' : World σ} {d : Denom}
    {amt : Nat} {recv snd : Addr} {cl : Bool} (hI : ExtInv B H V E w) (hsm : snd ≠ moduleAddr)
    (hh : handleCoin B w d amt recv snd = .ok (w', cl)) : ExtInv B H V E w' := by
  cases cl with
  | true =>
    obtain ⟨j, q, g, _, hdel, _, _, _⟩ := handleCoin_cleaned hI.wf hh
    obtain ⟨hwf, hsub, hb, ht, _, _, _⟩ := deletePair_wf hI.wf g.pair hdel
    exact hI.of_quiet hwf hsub (by rw [hb]) (fun i p _ _ _ => by rw [modBal_tok_eq (by rw [ht])]; exact Nat.le_refl _)
  | false =>
    obtain ⟨j, q, st, b0, g, _, ⟨hqo, e⟩ | ⟨hqo, e⟩⟩ := handleCoin_exact hh hsm
    · refine hI.of_quiet (e.reg.wf hI.wf) e.reg.sub e.bank.supply ?_
      intro i p hp ho _
      have hne := addr_ne_of_id_ne hI.wf hp g.pair (owner_ne_id hp g.pair (by rw [ho, hqo]; simp))
      rw [modBal_tok_eq (e.reg.tok_ne hne)]; exact Nat.le_refl _
    · refine hI.of_step (e.reg.wf hI.wf) e.reg.sub ?_
      intro i p hp ho hHp L hn hL
      try dsimp only
      by_cases hij : i = j
      · subst hij
        rw [g.pair] at hp; injection hp with hp; subst hp
        have hm : modBal E w q.addr ≤ modBal E w' q.addr + amt := by
          obtain ⟨e0, h1, h2, h3⟩ := e.escrow
          have t1 := (hI.tokens _ hHp).truthful _ _ h2
          have t2 := (hI.tokens _ hHp).truthful _ _ h3
          simp only [modBal]
          omega
        by_cases hdL : d ∈ L
        · have h1 : sumMap L w'.bank.supply + amt = sumMap L w.bank.supply := by
            apply sumMap_sub_mem hn hdL e.supplyFrame
            have := e.supply; have := e.supplyEnough; omega
          have := hI.backed i q g.pair ho hHp L hn hL
          omega
        · have h1 : sumMap L w'.bank.supply = sumMap L w.bank.supply :=
            sumMap_congr (fun x hx => e.supplyFrame x (fun y => hdL (y ▸ hx)))
          have h2 := hI.backed i q g.pair ho hHp (d :: L) (List.nodup_cons.mpr ⟨hdL, hn⟩)
            (fun d hd => by
              rcases List.mem_cons.mp hd with h | h
              · rw [h]; exact g.denomId
              · exact hL d h)
          simp only [sumMap, List.map_cons, List.sum_cons] at h2 h1 ⊢
          have := e.supplyEnough
          omega
      · have hne := addr_ne_of_id_ne hI.wf hp g.pair hij
        rw [modBal_tok_eq (e.reg.tok_ne hne)]
        have h1 : sumMap L w'.bank.supply = sumMap L w.bank.supply := by
          apply sumMap_congr
          intro x hx
          apply e.supplyFrame
          intro y; subst y
          have := hL _ hx
          rw [g.denomId] at this; injection this with this
          exact hij this.symm
        rw [h1]; exact hI.backed i p hp ho hHp L hn hL

theorem extInv_coin {B : Addr → Behaviour σ} {H : Addr → Prop} {V : Denom → Prop} {E : Addr → σ → Nat} {w : World σ} {m : MsgCoin}
    (hI : ExtInv B H V E w) (hs : m.senderAddr ≠ some moduleAddr) : ExtInv B H V E (deliverCoin B w m).1 := by
  cases hr : deliverCoin B w m with
  | mk w' r =>
    rcases deliverCoin_cases hr with ⟨h1, _⟩ | ⟨s, cl, _, hsd, hh, _⟩
    · rw [h1]; exact hI
    · exact extInv_handleCoin hI (fun e => hs (by rw [hsd, e])) hh

/-- the transfer application's credit of an IBC voucher that no honest external pair lists keeps the invariant -/
theorem extInv_credit {B : Addr → Behaviour σ} {H : Addr → Prop} {V : Denom → Prop} {E : Addr → σ → Nat} {w : World σ} {b1 : Bank}
    {recv : Addr} {v : Denom} {amt : Nat} (hI : ExtInv B H V E w) (ce : CreditEffect w.bank b1 recv v amt) (hv : V v) :
    ExtInv B H V E (afterTransfer w b1) := by
  refine hI.of_step (hI.wf.of_registry_eq rfl rfl rfl ce.blocked) (Sub.of_registry_eq rfl rfl rfl ce.blocked) ?_
  intro i p hp ho hHp L hn hL
  have h1 : sumMap L b1.supply = sumMap L w.bank.supply := by
    apply sumMap_congr
    intro x hx
    apply ce.supplyFrame
    intro y; subst y
    exact hI.noIbc i p hp ho hHp x hv (hL x hx)
  show sumMap L b1.supply ≤ modBal E (afterTransfer w b1) p.addr
  have h2 : modBal E (afterTransfer w b1) p.addr = modBal E w p.addr := modBal_tok_eq rfl
  rw [h1, h2]
  exact hI.backed i p hp ho hHp L hn hL

theorem extInv_ics20 {B : Addr → Behaviour σ} {H : Addr → Prop} {V : Denom → Prop} {E : Addr → σ → Nat} {w : World σ} {p : IcsPacket}
    (hI : ExtInv B H V E w) (hv : V p.voucher) : ExtInv B H V E (ics20Recv B w p).1 := by
  cases hr : ics20Recv B w p with
  | mk w' r =>
    rcases ics20_cases hr with ⟨h1, _⟩ | ⟨recv, b1, _, _, hc, h⟩
    · rw [h1]; exact hI
    · have ce := Bank.ibcCredit_ok hc
      have hI1 := extInv_credit hI ce hv
      have hrm : recv ≠ moduleAddr := by
        intro e; have := ce.notBlocked; rw [e, hI.wf.module_blocked] at this; cases this
      rcases h with ⟨_, h1⟩ | ⟨_, hh⟩ | ⟨_, hh⟩
      · rw [h1]; exact hI1
      · exact extInv_handleCoin hI1 hrm hh
      · exact extInv_handleCoin hI1 hrm hh

theorem extInv_erc20 {B : Addr → Behaviour σ} {H : Addr → Prop} {V : Denom → Prop} {E : Addr → σ → Nat} {w : World σ} {m : MsgERC20} (hI : ExtInv B H V E w) :
    ExtInv B H V E (deliverERC20 B w m).1 := by
  cases hr : deliverERC20 B w m with
  | mk w' r =>
    cases r with
    | rejected c => rw [erc20_rejected_unchanged hr (by simp)]; exact hI
    | panicked => rw [erc20_rejected_unchanged hr (by simp)]; exact hI
    | cleaned =>
      obtain ⟨rc, j, q, _, g, _, hdel, _, _, _⟩ := erc20_cleaned hI.wf hr
      obtain ⟨hwf, hsub, hb, ht, _, _, _⟩ := deletePair_wf hI.wf g.pair hdel
      exact hI.of_quiet hwf hsub (by rw [hb]) (fun i p _ _ _ => by rw [modBal_tok_eq (by rw [ht])]; exact Nat.le_refl _)
    | converted =>
      obtain ⟨rc, j, q, st, t0, _, _, g, _, ⟨hqo, e⟩ | ⟨hqo, e⟩⟩ := erc20_exact hI.wf hr
      · refine hI.of_quiet (e.reg.wf hI.wf) e.reg.sub e.bank.supply ?_
        intro i p hp ho _
        have hne := addr_ne_of_id_ne hI.wf hp g.pair (owner_ne_id hp g.pair (by rw [ho, hqo]; simp))
        rw [modBal_tok_eq (e.reg.tok_ne hne)]; exact Nat.le_refl _
      · refine hI.of_step (e.reg.wf hI.wf) e.reg.sub ?_
        intro i p hp ho hHp L hn hL
        dsimp only
        by_cases hij : i = j
        · subst hij
          rw [g.pair] at hp; injection hp with hp; subst hp
          have h0 : modBal E w q.addr = t0 := ((hI.tokens _ hHp).truthful _ _ e.escrowBefore).symm
          have h1 : modBal E w' q.addr = t0 + m.amount.toNat := ((hI.tokens _ hHp).truthful _ _ e.escrowAfter).symm
          have h2 := sumMap_le_add (l := L) hn e.supplyFrame e.supply
          have := hI.backed i q g.pair ho hHp L hn hL
          omega
        · have hne := addr_ne_of_id_ne hI.wf hp g.pair hij
          rw [modBal_tok_eq (e.reg.tok_ne hne)]
          have h1 : sumMap L w'.bank.supply = sumMap L w.bank.supply := by
            apply sumMap_congr
            intro x hx
            apply e.supplyFrame
            intro y; subst y
            have := hL _ hx
            rw [g.denomId] at this; injection this with this
            exact hij this.symm
          rw [h1]; exact hI.backed i p hp ho hHp L hn hL

theorem extInv_call {B : Addr → Behaviour σ} {H : Addr → Prop} {V : Denom → Prop} {E : Addr → σ → Nat} {w : World σ} {c : Addr} {r : Call σ} (hI : ExtInv B H V E w)
    (hle : ∀ st v ap, r = .ret st v ap → H c → E c (w.tok c) ≤ E c st) :
    ExtInv B H V E (applyCall w c r) := by
  cases r with
  | revert => exact hI
  | ret st v ap =>
    refine hI.of_quiet (hI.wf.of_registry_eq rfl rfl rfl rfl) (Sub.of_registry_eq rfl rfl rfl rfl) rfl ?_
    intro i p hp ho hHp
    simp only [applyCall, World.setTok, modBal]
    by_cases hpc : p.addr = c
    · rw [if_pos hpc, hpc]; exact hle st v ap rfl (hpc ▸ hHp)
    · rw [if_neg hpc]; exact Nat.le_refl _

/-- received packets carry voucher denominations of the set `V` -/
def Action.icsIn (V : Denom → Prop) : Action → Prop
  | .ics20 p => V p.voucher
  | _ => True

theorem extInv_step {B : Addr → Behaviour σ} {H : Addr → Prop} {V : Denom → Prop} {E : Addr → σ → Nat} {w : World σ} {a : Action} (hI : ExtInv B H V E w)
(ha : a.signed) (hv : a.icsIn V) : ExtInv B H V E (step B w a) := by
  cases a with
  | coin m => exact extInv_coin hI ha
  | erc20 m => exact extInv_erc20 hI
  | ics20 p => exact extInv_ics20 hI hv
  | userTransfer c caller to amt =>
    simp only [step]
    split
    · exact extInv_call hI (fun st v ap hr hc => (hI.tokens c hc).transfer_other _ _ _ _ _ _ _ ha hr)
    · exact hI
  | userMint c caller to amt =>
    simp only [step]
    split
    · exact extInv_call hI (fun st v ap hr hc => (hI.tokens c hc).mint_other _ _ _ _ _ _ _ ha hr)
    · exact hI
  | userBurn c caller fromA amt =>
    simp only [step]
    split
    · exact extInv_call hI (fun st v ap hr hc => (hI.tokens c hc).burn_other _ _ _ _ _ _ _ ha hr)
    · exact hI
  | bankSend s t d amt =>
    simp only [step]
    unfold bankMsgSend
    split
    · exact hI
    · split
      · rename_i b' hsend
        obtain ⟨_, _, _, _, hbl, hsup⟩ := Bank.send_frame hsend
        exact hI.of_quiet (hI.wf.of_registry_eq rfl rfl rfl hbl) (Sub.of_registry_eq rfl rfl rfl hbl) hsup
          (fun _ _ _ _ _ => Nat.le_refl _)
      · exact hI
  | setEnabled b =>
    exact hI.of_quiet (hI.wf.of_registry_eq rfl rfl rfl rfl) (Sub.of_registry_eq rfl rfl rfl rfl) rfl (fun _ _ _ _ _ => Nat.le_refl _)
  | setParamByKey k b =>
    exact hI.of_quiet (hI.wf.of_registry_eq rfl rfl rfl rfl) (Sub.of_registry_eq rfl rfl rfl rfl) rfl (fun _ _ _ _ _ => Nat.le_refl _)
  | toggle t =>
    obtain ⟨hwf, hsub, hb, ht⟩ := toggle_wf hI.wf t
    exact hI.of_quiet hwf hsub (by simp only [step]; rw [hb])
      (fun _ _ _ _ _ => by simp only [step]; rw [modBal_tok_eq (by rw [ht])]; exact Nat.le_refl _)
  | setSendEnabled d b =>
    exact hI.of_quiet (hI.wf.of_registry_eq rfl rfl rfl rfl) (Sub.of_registry_eq rfl rfl rfl rfl) rfl (fun _ _ _ _ _ => Nat.le_refl _)
  | selfdestruct c =>
    exact hI.of_quiet (hI.wf.of_registry_eq rfl rfl rfl rfl) (Sub.of_registry_eq rfl rfl rfl rfl) rfl (fun _ _ _ _ _ => Nat.le_refl _)
  | restart => exact hI
  | addCoin d c => exact ha.elim
  | updateERC20 o n m => exact ha.elim

/-- **backed_external_pairs**: over arbitrary histories, for every external pair whose contract is in the class
`ExternalToken` (view functions may fail, transfers may misbehave, but a successful reading is truthful and nobody but
the module lowers the escrow), the supply of the voucher (and of every alias denomination, summed) never exceeds the
tokens escrowed for the module. Other pairs' contracts are arbitrary. -/
theorem backed_external_pairs {B : Addr → Behaviour σ} {H : Addr → Prop} {V : Denom → Prop} {E : Addr → σ → Nat} {w : World σ} {as : List Action}
    (hI : ExtInv B H V E w) (ha : ∀ a ∈ as, a.signed ∧ a.icsIn V) :
    ExtInv B H V E (run B w as) := by
  induction as generalizing w with
  | nil => exact hI
  | cons a as ih =>
    exact ih (extInv_step hI (ha a (by simp)).1 (ha a (by simp)).2) (fun b hb => ha b (by simp [hb]))

/-- the listed voucher alone -/
theorem voucher_backed {B : Addr → Behaviour σ} {H : Addr → Prop} {V : Denom → Prop} {E : Addr → σ → Nat} {w : World σ} (hI : ExtInv B H V E w) {i : Id} {p : Pair}
    (hp : w.pairs i = some p) (ho : p.owner = .external) (hH : H p.addr) {v : Denom} (hv : v ∈ p.denoms) :
    w.bank.supply v ≤ modBal E w p.addr := by
  have := hI.backed i p hp ho hH [v] (by simp) (fun d hd => by
    have : d = v := by simpa using hd
    rw [this]; exact pairId_of_listed hI.wf hp hv)
  simpa [sumMap] using this


/-- … and whenever the contract answers, the answer covers the voucher supply -/
theorem voucher_backed_reported {B : Addr → Behaviour σ} {H : Addr → Prop} {V : Denom → Prop} {E : Addr → σ → Nat}
    {w : World σ} (hI : ExtInv B H V E w) {i : Id} {p : Pair} (hp : w.pairs i = some p) (ho : p.owner = .external)
    (hH : H p.addr) {v : Denom} (hv : v ∈ p.denoms) {m : Nat} (hm : balOf B w p.addr moduleAddr = some m) :
    w.bank.supply v ≤ m := by
  have h1 := voucher_backed hI hp ho hH hv
  have h2 := (hI.tokens _ hH).truthful _ _ hm
  simp only [modBal] at h1
  omega

/-! ## arbitrary tokens: what every *accepted* conversion on an external pair guarantees -/

/-- ERC-20 → coin on an external pair, ANY token behaviour: the voucher supply and the module balance the token
reports move by the same amount (`+amount`). -/
theorem external_accepted_same_delta_erc20 {B : Addr → Behaviour σ} {w w' : World σ} {m : MsgERC20} (hw : WellFormed w)
    (h : deliverERC20 B w m = (w', .converted)) :
    ∃ j q, w.pairId m.contract = some j ∧ w.pairs j = some q ∧
      (q.owner = .external →
        w'.bank.supply m.denom = w.bank.supply m.denom + m.amount.toNat ∧
        (∃ t0, balOf B w q.addr moduleAddr = some t0 ∧ balOf B w' q.addr moduleAddr = some (t0 + m.amount.toNat))) := by
  obtain ⟨rc, j, q, st, t0, _, _, g, _, ⟨hqo, e⟩ | ⟨hqo, e⟩⟩ := erc20_exact hw h
  · exact ⟨j, q, g.tokenId, g.pair, fun ho => by rw [hqo] at ho; cases ho⟩
  · exact ⟨j, q, g.tokenId, g.pair, fun _ => ⟨e.supply, t0, e.escrowBefore, e.escrowAfter⟩⟩

/-- coin → ERC-20 on an external pair, ANY token behaviour (repaired code): exactly `amount` vouchers are burned,
the receiver's reported balance rises by exactly `amount` AND the module's reported balance falls by exactly `amount`
— the voucher supply and the escrow move by the same amount. -/
theorem external_accepted_same_delta_coin {B : Addr → Behaviour σ} {w w' : World σ} {m : MsgCoin}
    (hw : WellFormed w) (h : deliverCoin B w m = (w', .converted)) (hs : m.senderAddr ≠ some moduleAddr) :
    ∃ j q, w.pairId m.denom = some j ∧ w.pairs j = some q ∧
      (q.owner = .external →
        w'.bank.supply m.denom + m.amount.toNat = w.bank.supply m.denom ∧
        (∃ t0, balOf B w q.addr (hexToAddr m.receiver) = some t0 ∧
               balOf B w' q.addr (hexToAddr m.receiver) = some (t0 + m.amount.toNat)) ∧
        (∃ e0, m.amount.toNat ≤ e0 ∧ balOf B w q.addr moduleAddr = some e0 ∧
               balOf B w' q.addr moduleAddr = some (e0 - m.amount.toNat))) := by
  obtain ⟨s, j, q, st, b0, _, _, g, _, ⟨hqo, e⟩ | ⟨hqo, e⟩⟩ := coin_exact hw h hs
  · exact ⟨j, q, g.tokenId, g.pair, fun ho => by rw [hqo] at ho; cases ho⟩
  · refine ⟨j, q, g.tokenId, g.pair, fun _ => ⟨?_, ⟨b0, e.recvBefore, e.recvAfter⟩, e.escrow⟩⟩
    have := e.supply; have := e.supplyEnough; omega

/-! ### the unrepaired code (before fixes/C11-escrow-postcheck.diff) and the witness of the defect -/

/-- `convertCoinNativeERC20` as it is in the unrepaired tree: no look at the module's own token balance. -/
def convertCoinNativeERC20Unfixed (B : Addr → Behaviour σ) (w : World σ) (pair : Pair) (denom : Denom) (amt : Nat)
    (receiver sender : Addr) : Outcome (World σ) :=
  let c := pair.addr
  let tok0 := balOf B w c receiver
  match w.bank.send sender moduleAddr denom amt with
  | .err e => .err e
  | .panic s => .panic s
  | .ok bank1 =>
    let w1 := { w with bank := bank1 }
    match (B c).transfer (w1.tok c) moduleAddr receiver amt with
    | .revert => .err "evm:15"
    | .ret _ none _ => .err "undefined:1"
    | .ret _ (some false) _ => .err "sdk:35"
    | .ret st (some true) approval =>
      let w2 := w1.setTok c st
      match tok0, balOf B w2 c receiver with
      | some t0, some t1 =>
        if t1 ≠ t0 + amt then .err "aggregate:7"
        else match w2.bank.burn denom amt with
          | .err e => .err e
          | .panic s => .panic s
          | .ok bank3 =>
            if approval then .err "aggregate:8" else .ok { w2 with bank := bank3 }
      | _, _ => .panic "nil balance"

def ddTok : TokState :=
  { kind := .doubleDebit, bal := fun a => if a = moduleAddr then 10 else 0, supply := 10, admin := fun _ => false }

def ddWorld : World TokState :=
  { params := fun _ => true, pairs := fun _ => none, byErc20 := fun _ => none, byDenom := fun _ => none,
    bank := { bal := fun a d => if a = "s" ∧ d = "vch" then 3 else 0, supply := fun d => if d = "vch" then 3 else 0,
              blocked := fun a => a == moduleAddr, sendEnabled := fun _ => true },
    tok := fun _ => ddTok, code := fun _ => true }

def ddPair : Pair := { addr := "c", denoms := ["vch"], enabled := true, owner := .external }

/-- Unrepaired code + double-debit token (the same scenario was replayed on the real code, see
fixes/C11-escrow-postcheck.md): converting 3 vouchers is accepted while the module's escrow falls by 6. -/
theorem unfixed_module_side_unchecked :
    ∃ w', convertCoinNativeERC20Unfixed (fun _ => repoBehaviour) ddWorld ddPair "vch" 3 "r" "s" = .ok w' ∧
      reportedBal (fun _ => repoBehaviour) ddWorld "c" = 10 ∧ reportedBal (fun _ => repoBehaviour) w' "c" = 4 ∧
      w'.bank.supply "vch" = 0 := by
  refine ⟨_, rfl, ?_, ?_, ?_⟩ <;> decide

/-- The repaired code rejects the same conversion with `ErrBalanceInvariance`. -/
theorem fixed_rejects_double_debit :
    convertCoinNativeERC20 (fun _ => repoBehaviour) ddWorld ddPair "vch" 3 "r" "s" = .err "aggregate:7" := by
  rfl

end TM.Convert

namespace TM.Convert
/-! ## the token hypotheses are satisfiable: a MinterBurner whose only minter/burner is the module -/

def strictMB : Behaviour TokState where
  balanceOf := fun t a => some (t.bal a)
  totalSupply := fun t => t.supply
  transfer := fun t caller to amt => ofOpt (t.move caller to amt) (some true) false
  mint := fun t caller to amt => if caller = moduleAddr then ofOpt (t.mintTo to amt) none false else .revert
  burnCoins := fun t caller fromA amt => if caller = moduleAddr then ofOpt (t.burnFrom fromA amt) none false else .revert

theorem ofOpt_ret {o : Option TokState} {val : Option Bool} {ap : Bool} {st : TokState} {v : Option Bool} {a : Bool}
    (h : ofOpt o val ap = .ret st v a) : o = some st := by
  cases o with
  | none => cases h
  | some t => simp [ofOpt] at h; rw [h.1]

theorem move_supply {t t' : TokState} {s d : Addr} {a : Nat} (h : t.move s d a = some t') : t'.supply = t.supply := by
  unfold TokState.move at h
  split at h
  · cases h
  · injection h with h; subst h; rfl

example : ModuleToken strictMB := by
  refine ⟨?_, ?_, ?_, ?_, ?_⟩
  · intro st c t a st' v ap h
    have := move_supply (ofOpt_ret h)
    simp [strictMB, this]
  · intro st t a st' v ap h
    simp only [strictMB, if_pos] at h
    have := ofOpt_ret h
    unfold TokState.mintTo at this
    split at this
    · cases this
    · injection this with this; subst this; simp [strictMB]
  · intro st c t a st' v ap hc h
    simp [strictMB, hc] at h
  · intro st f a st' v ap h
    simp only [strictMB, if_pos] at h
    have := ofOpt_ret h
    unfold TokState.burnFrom at this
    split at this
    · cases this
    · rename_i hc
      injection this with this; subst this
      simp only [strictMB]
      simp at hc
      omega
  · intro st c f a st' v ap hc h
    simp [strictMB, hc] at h
end TM.Convert

namespace TM.Convert
example : ExternalToken strictMB (fun st => st.bal moduleAddr) := by
  refine ⟨?_, ?_, ?_, ?_⟩
  · intro st m h
    simp [strictMB] at h
    exact h.symm
  · intro st c t a st' v ap hc h
    have hm := ofOpt_ret h
    unfold TokState.move at hm
    split at hm
    · cases hm
    · injection hm with hm; subst hm
      have hmc : moduleAddr ≠ c := fun e => hc e.symm
      by_cases ht : moduleAddr = t
      · simp [← ht, hmc]
      · simp [ht, hmc]
  · intro st c t a st' v ap hc h
    simp [strictMB, hc] at h
  · intro st c f a st' v ap hc h
    simp [strictMB, hc] at h
end TM.Convert

namespace TM.Convert
variable {σ : Type}

/-! ## restarts: a genesis export / import is the identity; a pair governance switched off stays refused -/

/-- **restart_identity**: exporting and re-importing the module's genesis changes nothing the conversions look at
(pairs with their `Enabled` flags, parameters, both indexes, balances, token contracts). -/
theorem restart_identity (B : Addr → Behaviour σ) (w : World σ) : step B w .restart = w := rfl

theorem deletePair_pairs {w w' : World σ} {p : Pair} (h : w.deletePair p = some w') :
    ∀ j q, w'.pairs j = some q → w.pairs j = some q := by
  unfold World.deletePair at h
  split at h
  · cases h
  · injection h with h; subst h
    intro j q hq
    simp only at hq
    split at hq
    · cases hq
    · exact hq

theorem handleCoin_pairs {B : Addr → Behaviour σ} {w w' : World σ} {d : Denom} {amt : Nat} {recv snd : Addr} {cl : Bool}
    (hh : handleCoin B w d amt recv snd = .ok (w', cl)) : ∀ j q, w'.pairs j = some q → w.pairs j = some q := by
  obtain ⟨pair, _, hd⟩ := handleCoin_ok hh
  cases hd with
  | clean _ _ hdel => exact deletePair_pairs hdel
  | viaModule _ _ _ hp =>
    obtain ⟨_, _, _, _, _, _, _, rfl, _, _⟩ := ccnc_ok hp
    intro j q hq; exact hq
  | viaExternal _ _ _ hp =>
    obtain ⟨_, _, _, _, _, _, _, _, rfl, _⟩ := ccne_ok hp
    intro j q hq; exact hq

theorem handleERC20_pairs {B : Addr → Behaviour σ} {w w' : World σ} {c : String} {d : Denom} {amt : Nat}
    {recv snd : Addr} {cl : Bool} (hh : handleERC20 B w c d amt recv snd = .ok (w', cl)) :
    ∀ j q, w'.pairs j = some q → w.pairs j = some q := by
  obtain ⟨pair, _, hd⟩ := handleERC20_ok hh
  cases hd with
  | clean _ _ hdel => exact deletePair_pairs hdel
  | viaModule _ _ _ hp =>
    obtain ⟨_, _, _, _, _, _, _, rfl, _⟩ := cenc_ok hp
    intro j q hq; exact hq
  | viaExternal _ _ _ hp =>
    obtain ⟨_, _, _, _, _, _, _, rfl, _⟩ := cent_ok hp
    intro j q hq; exact hq

/-- the governance operations that rewrite a stored pair record -/
def Action.rewritesPair : Action → Prop
  | .toggle _ => True
  | .addCoin _ _ => True
  | .updateERC20 _ _ _ => True
  | _ => False

/-- Only the governance operations rewrite a stored pair; every other action (restarts included) keeps each pair as it
is or deletes it (clean-up of a contract without code). -/
theorem step_pairs {B : Addr → Behaviour σ} {w : World σ} {a : Action} (ha : ¬ a.rewritesPair) :
    ∀ j q, (step B w a).pairs j = some q → w.pairs j = some q := by
  cases a with
  | coin m =>
    intro j q hq
    cases hr : deliverCoin B w m with
    | mk w' r =>
      simp only [step, hr] at hq
      rcases deliverCoin_cases hr with ⟨h1, _⟩ | ⟨_, _, _, _, hh, _⟩
      · rw [h1] at hq; exact hq
      · exact handleCoin_pairs hh j q hq
  | erc20 m =>
    intro j q hq
    cases hr : deliverERC20 B w m with
    | mk w' r =>
      simp only [step, hr] at hq
      rcases deliverERC20_cases hr with ⟨h1, _⟩ | ⟨_, _, _, _, hh, _⟩
      · rw [h1] at hq; exact hq
      · exact handleERC20_pairs hh j q hq
  | ics20 p =>
    intro j q hq
    cases hr : ics20Recv B w p with
    | mk w' r =>
      simp only [step, hr] at hq
      rcases ics20_cases hr with ⟨h1, _⟩ | ⟨_, _, _, _, _, ⟨_, h1⟩ | ⟨_, hh⟩ | ⟨_, hh⟩⟩
      · rw [h1] at hq; exact hq
      · rw [h1] at hq; exact hq
      · exact handleCoin_pairs hh j q hq
      · exact handleCoin_pairs hh j q hq
  | userTransfer c caller to amt =>
    intro j q hq
    simp only [step] at hq
    split at hq
    · generalize (B c).transfer (w.tok c) caller to amt = r at hq
      cases r <;> exact hq
    · exact hq
  | userMint c caller to amt =>
    intro j q hq
    simp only [step] at hq
    split at hq
    · generalize (B c).mint (w.tok c) caller to amt = r at hq
      cases r <;> exact hq
    · exact hq
  | userBurn c caller fromA amt =>
    intro j q hq
    simp only [step] at hq
    split at hq
    · generalize (B c).burnCoins (w.tok c) caller fromA amt = r at hq
      cases r <;> exact hq
    · exact hq
  | bankSend s t d amt => intro j q hq; exact hq
  | setEnabled b => intro j q hq; exact hq
  | setParamByKey k b => intro j q hq; exact hq
  | toggle t => exact absurd trivial ha
  | addCoin d c => exact absurd trivial ha
  | updateERC20 o n m => exact absurd trivial ha
  | setSendEnabled d b => intro j q hq; exact hq
  | selfdestruct c => intro j q hq; exact hq
  | restart => intro j q hq; exact hq

theorem run_pairs {B : Addr → Behaviour σ} {w : World σ} {as : List Action} (ha : ∀ a ∈ as, ¬ a.rewritesPair) :
    ∀ j q, (run B w as).pairs j = some q → w.pairs j = some q := by
  induction as generalizing w with
  | nil => intro j q hq; exact hq
  | cons a as ih =>
    intro j q hq
    exact step_pairs (ha a (by simp)) j q (ih (fun b hb => ha b (by simp [hb])) j q hq)

theorem mintingEnabled_notfound {w : World σ} {s r : Addr} {token denom : String} {i : Id}
    (hi : w.pairId token = some i) (hn : w.pairs i = none) : ∃ c, mintingEnabled w s r token denom = .err c := by
  cases hres : mintingEnabled w s r token denom with
  | err c => exact ⟨c, rfl⟩
  | ok pair =>
    obtain ⟨_, i', hi', _, hp, _⟩ := mintingEnabled_ok hres
    rw [hi] at hi'; injection hi' with hi'; subst hi'
    rw [hn] at hp; cases hp
  | panic x =>
    exfalso
    unfold mintingEnabled at hres
    dsimp only at hres
    repeat (first | cases hres | split at hres)

/-- **disabled_pair_refuses**: once a pair is switched off, then after ANY history without a relay toggle —
conversions in both directions, ICS-20 packets, user token calls, bank sends, parameter changes, self-destructs and
any number of restarts — every `MsgConvertCoin`, `MsgConvertERC20` addressed to it is rejected (nothing written) and
the ICS-20 hook does not convert for it. -/
theorem disabled_pair_refuses {B : Addr → Behaviour σ} {w : World σ} {as : List Action} {i : Id} {p : Pair}
    (hp : w.pairs i = some p) (hd : p.enabled = false) (ha : ∀ a ∈ as, ¬ a.rewritesPair) :
    (∀ m : MsgCoin, (run B w as).pairId m.denom = some i → ∃ c, deliverCoin B (run B w as) m = (run B w as, .rejected c)) ∧
    (∀ m : MsgERC20, (run B w as).pairId m.contract = some i →
      ∃ c, deliverERC20 B (run B w as) m = (run B w as, .rejected c)) ∧
    (∀ pk : IcsPacket, (run B w as).pairId pk.voucher = some i →
      (ics20Recv B (run B w as) pk).2 ≠ .converted ∧ (ics20Recv B (run B w as) pk).2 ≠ .cleaned) := by
  have hsub := run_pairs (B := B) (w := w) ha
  have hdis : ∀ q, (run B w as).pairs i = some q → q.enabled = false := by
    intro q hq
    have := hsub i q hq
    rw [hp] at this; injection this with this; subst this; exact hd
  refine ⟨?_, ?_, ?_⟩
  · intro m hm
    cases hq : (run B w as).pairs i with
    | some q => exact gated_coin (Or.inr (Or.inl ⟨i, q, hm, hq, hdis q hq⟩))
    | none =>
      unfold deliverCoin
      split
      · exact ⟨_, rfl⟩
      · obtain ⟨c, hc⟩ := mintingEnabled_notfound (s := handlerAddr m.sender) (r := hexToAddr m.receiver)
          (denom := m.denom) hm hq
        exact ⟨c, by simp [handleCoin, hc, finish]⟩
  · intro m hm
    cases hq : (run B w as).pairs i with
    | some q => exact gated_erc20 (Or.inr (Or.inl ⟨i, q, hm, hq, hdis q hq⟩))
    | none =>
      unfold deliverERC20
      split
      · exact ⟨_, rfl⟩
      · obtain ⟨c, hc⟩ := mintingEnabled_notfound (s := hexToAddr m.sender) (r := handlerAddr m.receiver)
          (denom := m.denom) hm hq
        exact ⟨c, by simp [handleERC20, hc, finish]⟩
  · intro pk hpk
    have key : ∀ w' cl recv b1, handleCoin B (afterTransfer (run B w as) b1) pk.voucher pk.amount.toNat recv recv = .ok (w', cl) → False := by
      intro w' cl recv b1 hh
      obtain ⟨pair, hme, _⟩ := handleCoin_ok hh
      obtain ⟨_, i', hi', _, hpair, hen, _⟩ := mintingEnabled_ok hme
      have h1 : (run B w as).pairId pk.voucher = some i' := hi'
      rw [hpk] at h1; injection h1 with h1; subst h1
      have := hdis pair hpair
      rw [hen] at this; cases this
    cases hr : ics20Recv B (run B w as) pk with
    | mk w' r =>
      rcases ics20_cases hr with ⟨_, h2⟩ | ⟨recv, b1, _, _, _, ⟨h1, _⟩ | ⟨_, hh⟩ | ⟨_, hh⟩⟩
      · rcases h2 with h2 | h2 <;> subst h2 <;> exact ⟨by simp, by simp⟩
      · subst h1; exact ⟨by simp, by simp⟩
      · exact (key _ _ _ _ hh).elim
      · exact (key _ _ _ _ hh).elim

end TM.Convert

namespace TM.Convert
variable {σ : Type}

/-! ## parameters are switched BY KEY: the key must be bound to its own field -/

/-- **paramPairs_bind_own_field** (obligation over the table `tools/gofacts` extracts from the CURRENT
`Params.ParamSetPairs`): the source binds exactly the pairs the model uses — every store key to the field of the
same name. A swapped / re-bound pair changes the generated table and this stops compiling. -/
theorem paramPairs_bind_own_field : TM.Generated.AggregateParams.paramPairs = paramPairs := by decide

theorem keyOfField_enableAggregate : keyOfField "EnableAggregate" = keyEnableAggregate := by decide

/-- the module-wide switch the keeper reads IS the value stored under the key `EnableAggregate` -/
theorem enabled_reads_own_key (w : World σ) : w.enabled = w.params keyEnableAggregate := by
  simp [World.enabled, keyOfField_enableAggregate]

/-- an action that can change the parameter stored under `EnableAggregate` -/
def Action.writesEnableAggregate : Action → Prop
  | .setEnabled _ => True
  | .setParamByKey k _ => k = keyEnableAggregate
  | _ => False

theorem deletePair_params {w w' : World σ} {p : Pair} (h : w.deletePair p = some w') : w'.params = w.params := by
  unfold World.deletePair at h
  split at h
  · cases h
  · injection h with h; subst h; rfl

theorem handleCoin_params {B : Addr → Behaviour σ} {w w' : World σ} {d : Denom} {amt : Nat} {recv snd : Addr} {cl : Bool}
    (hh : handleCoin B w d amt recv snd = .ok (w', cl)) : w'.params = w.params := by
  obtain ⟨pair, _, hd⟩ := handleCoin_ok hh
  cases hd with
  | clean _ _ hdel => exact deletePair_params hdel
  | viaModule _ _ _ hp => obtain ⟨_, _, _, _, _, _, _, rfl, _, _⟩ := ccnc_ok hp; rfl
  | viaExternal _ _ _ hp => obtain ⟨_, _, _, _, _, _, _, _, rfl, _⟩ := ccne_ok hp; rfl

theorem handleERC20_params {B : Addr → Behaviour σ} {w w' : World σ} {c : String} {d : Denom} {amt : Nat}
    {recv snd : Addr} {cl : Bool} (hh : handleERC20 B w c d amt recv snd = .ok (w', cl)) : w'.params = w.params := by
  obtain ⟨pair, _, hd⟩ := handleERC20_ok hh
  cases hd with
  | clean _ _ hdel => exact deletePair_params hdel
  | viaModule _ _ _ hp => obtain ⟨_, _, _, _, _, _, _, rfl, _⟩ := cenc_ok hp; rfl
  | viaExternal _ _ _ hp => obtain ⟨_, _, _, _, _, _, _, rfl, _⟩ := cent_ok hp; rfl

theorem toggleRelay_params (w : World σ) (t : String) : (toggleRelay w t).params = w.params := by
  unfold toggleRelay
  split
  · rfl
  · split
    · rfl
    · split <;> rfl

/-- Only a write to the key `EnableAggregate` changes the value stored under it. -/
theorem step_enableAggregate {B : Addr → Behaviour σ} {w : World σ} {a : Action} (ha : ¬ a.writesEnableAggregate) :
    (step B w a).params keyEnableAggregate = w.params keyEnableAggregate := by
  cases a with
  | coin m =>
    cases hr : deliverCoin B w m with
    | mk w' r =>
      simp only [step, hr]
      rcases deliverCoin_cases hr with ⟨h1, _⟩ | ⟨_, _, _, _, hh, _⟩
      · rw [h1]
      · rw [handleCoin_params hh]
  | erc20 m =>
    cases hr : deliverERC20 B w m with
    | mk w' r =>
      simp only [step, hr]
      rcases deliverERC20_cases hr with ⟨h1, _⟩ | ⟨_, _, _, _, hh, _⟩
      · rw [h1]
      · rw [handleERC20_params hh]
  | ics20 p =>
    cases hr : ics20Recv B w p with
    | mk w' r =>
      simp only [step, hr]
      rcases ics20_cases hr with ⟨h1, _⟩ | ⟨_, _, _, _, _, ⟨_, h1⟩ | ⟨_, hh⟩ | ⟨_, hh⟩⟩
      · rw [h1]
      · rw [h1]; rfl
      · rw [handleCoin_params hh]; rfl
      · rw [handleCoin_params hh]; rfl
  | userTransfer c caller to amt =>
    simp only [step]
    split
    · generalize (B c).transfer (w.tok c) caller to amt = r
      cases r <;> rfl
    · rfl
  | userMint c caller to amt =>
    simp only [step]
    split
    · generalize (B c).mint (w.tok c) caller to amt = r
      cases r <;> rfl
    · rfl
  | userBurn c caller fromA amt =>
    simp only [step]
    split
    · generalize (B c).burnCoins (w.tok c) caller fromA amt = r
      cases r <;> rfl
    · rfl
  | bankSend s t d amt => rfl
  | setEnabled b => exact absurd trivial ha
  | setParamByKey k b =>
    have hk : k ≠ keyEnableAggregate := fun e => ha e
    simp only [step, World.setParam]
    rw [if_neg (fun e => hk e.symm)]
  | toggle t => simp only [step]; rw [toggleRelay_params]
  | setSendEnabled d b => rfl
  | selfdestruct c => rfl
  | restart => rfl
  | addCoin d c =>
    simp only [step, addCoin]
    repeat (first | rfl | split)
  | updateERC20 o n m =>
    simp only [step, updateERC20]
    split
    · rfl
    · split
      · rfl
      · split
        · rfl
        · split
          · rfl
          · split
            · rename_i w1 i' hdel _
              show w1.params keyEnableAggregate = _
              rw [deletePair_params hdel]
            · rfl

theorem run_enableAggregate {B : Addr → Behaviour σ} {w : World σ} {as : List Action}
    (ha : ∀ a ∈ as, ¬ a.writesEnableAggregate) :
    (run B w as).params keyEnableAggregate = w.params keyEnableAggregate := by
  induction as generalizing w with
  | nil => rfl
  | cons a as ih =>
    show (run B (step B w a) as).params keyEnableAggregate = _
    rw [ih (fun b hb => ha b (by simp [hb])), step_enableAggregate (ha a (by simp))]

/-- **disabled_by_key_refuses**: after governance wrote `false` under the KEY `EnableAggregate` (a parameter change
proposal addresses the parameter by key; whatever is stored under `EnableEVMHook`), and after any history that
does not write that key again — conversions, ICS-20 packets, writes to the OTHER key, relay toggles, restarts … —
every `MsgConvertCoin` / `MsgConvertERC20` is rejected with the state unchanged and the ICS-20 hook does not
convert. -/
theorem disabled_by_key_refuses {B : Addr → Behaviour σ} {w : World σ} {as : List Action}
    (ha : ∀ a ∈ as, ¬ a.writesEnableAggregate) :
    let w' := run B (step B w (.setParamByKey keyEnableAggregate false)) as
    (∀ m : MsgCoin, ∃ c, deliverCoin B w' m = (w', .rejected c)) ∧
    (∀ m : MsgERC20, ∃ c, deliverERC20 B w' m = (w', .rejected c)) ∧
    (∀ pk : IcsPacket, (ics20Recv B w' pk).2 ≠ .converted ∧ (ics20Recv B w' pk).2 ≠ .cleaned) := by
  intro w'
  have hoff : w'.enabled = false := by
    rw [enabled_reads_own_key]
    show (run B (step B w (.setParamByKey keyEnableAggregate false)) as).params keyEnableAggregate = false
    rw [run_enableAggregate ha]
    simp [step, World.setParam]
  refine ⟨fun m => gated_coin (Or.inl hoff), fun m => gated_erc20 (Or.inl hoff), ?_⟩
  intro pk
  have key : ∀ w2 cl recv b1, handleCoin B (afterTransfer w' b1) pk.voucher pk.amount.toNat recv recv = .ok (w2, cl) → False := by
    intro w2 cl recv b1 hh
    obtain ⟨pair, hme, _⟩ := handleCoin_ok hh
    obtain ⟨hen, _⟩ := mintingEnabled_ok hme
    have : (afterTransfer w' b1).enabled = w'.enabled := rfl
    rw [this, hoff] at hen; cases hen
  cases hr : ics20Recv B w' pk with
  | mk w2 r =>
    rcases ics20_cases hr with ⟨_, h2⟩ | ⟨recv, b1, _, _, _, ⟨h1, _⟩ | ⟨_, hh⟩ | ⟨_, hh⟩⟩
    · rcases h2 with h2 | h2 <;> subst h2 <;> exact ⟨by simp, by simp⟩
    · subst h1; exact ⟨by simp, by simp⟩
    · exact (key _ _ _ _ hh).elim
    · exact (key _ _ _ _ hh).elim

end TM.Convert

namespace TM.Convert
variable {σ : Type}

/-! ## failed balance readings -/

/-- **failed_reading_fails_conversion**: a conversion that goes through has read every balance it compares
successfully — a `balanceOf` that reverts or returns undecodable data (before OR after the transfer) makes the
conversion fail (in the code: the nil `*big.Int` is dereferenced and the transaction panics; nothing is written).
A failed reading is never taken for a balance of 0. -/
theorem failed_reading_fails_conversion {B : Addr → Behaviour σ} {w w' : World σ} {pair : Pair} {d : Denom} {amt : Nat}
    {recv snd : Addr} :
    (convertERC20NativeToken B w pair d amt recv snd = .ok w' →
      (balOf B w pair.addr moduleAddr).isSome ∧ (balOf B w' pair.addr moduleAddr).isSome) ∧
    (convertCoinNativeERC20 B w pair d amt recv snd = .ok w' →
      (balOf B w pair.addr recv).isSome ∧ (balOf B w' pair.addr recv).isSome ∧
      (balOf B w pair.addr moduleAddr).isSome ∧ (balOf B w' pair.addr moduleAddr).isSome) ∧
    (convertCoinNativeCoin B w pair d amt recv snd = .ok w' →
      (balOf B w pair.addr recv).isSome ∧ (balOf B w' pair.addr recv).isSome) ∧
    (convertERC20NativeCoin B w pair d amt recv snd = .ok w' →
      (balOf B w pair.addr snd).isSome ∧ (balOf B w' pair.addr snd).isSome) := by
  refine ⟨?_, ?_, ?_, ?_⟩
  · intro h
    obtain ⟨_, _, _, _, _, _, _, _, _, h6, h7⟩ := cent_ok h
    simp [h6, h7]
  · intro h
    obtain ⟨_, _, _, _, _, _, _, _, _, h5, h6, _, h8, h9⟩ := ccne_ok h
    simp [h5, h6, h8, h9]
  · intro h
    obtain ⟨_, _, _, _, _, _, _, _, h4, h5⟩ := ccnc_ok h
    simp [h4, h5]
  · intro h
    obtain ⟨_, _, _, _, _, _, _, _, _, _, h6, h7⟩ := cenc_ok h
    simp [h6, h7]

/-- … in particular the ERC-20 → voucher path with a failed first escrow reading is not accepted, whatever the
transfer does and whatever the second reading says (the `amount == escrow` coincidence of a zeroed reading). -/
theorem failed_first_reading_rejects {B : Addr → Behaviour σ} {w : World σ} {pair : Pair} {d : Denom} {amt : Nat}
    {recv snd : Addr} (h : balOf B w pair.addr moduleAddr = none) :
    ∀ w', convertERC20NativeToken B w pair d amt recv snd ≠ .ok w' := by
  intro w' hok
  have := (failed_reading_fails_conversion.1 hok).1
  rw [h] at this; cases this

/-! ## the adversarial token class of the harness satisfies `ExternalToken` -/

/-- the token contracts of the harness (MinterBurner, DirectBalanceManipulation, MaliciousDelayed, double-debit,
fee-on-receive and the programmable token with failing view functions and misbehaving transfers) when the holder of a
burner role does not burn other accounts' tokens -/
def repoClass : Behaviour TokState :=
  { repoBehaviour with
    burnCoins := fun t caller fromA amt => if caller = moduleAddr then repoBehaviour.burnCoins t caller fromA amt else .revert }

theorem thief_ne_module : thief ≠ moduleAddr := by decide

theorem move_module_ge {t t' : TokState} {s d : Addr} {a : Nat} (h : t.move s d a = some t') (hs : s ≠ moduleAddr) :
    t.bal moduleAddr ≤ t'.bal moduleAddr := by
  unfold TokState.move at h
  split at h
  · cases h
  · injection h with h; subst h
    have hms : moduleAddr ≠ s := fun e => hs e.symm
    by_cases hd : moduleAddr = d
    · simp [← hd, hms]
    · simp [hd, hms]

theorem advTransfer_module_ge {t t' : TokState} {c to : Addr} {a e : Nat} {v : Option Bool} {ap : Bool}
    (h : advTransfer t c to a e = .ret t' v ap) (hc : c ≠ moduleAddr) : t.bal moduleAddr ≤ t'.bal moduleAddr := by
  unfold advTransfer at h
  split at h
  · cases h
  · injection h with h1 _ _; subst h1
    have hmc : moduleAddr ≠ c := fun x => hc x.symm
    have hmt : moduleAddr ≠ thief := fun x => thief_ne_module x.symm
    by_cases hd : moduleAddr = to
    · simp [← hd, hmc, hmt]
    · simp [hd, hmc, hmt]

theorem ofOpt_ret2 {o : Option TokState} {val : Option Bool} {ap : Bool} {st : TokState} {v : Option Bool} {a : Bool}
    (h : ofOpt o val ap = .ret st v a) : o = some st := by
  cases o with
  | none => cases h
  | some t => simp [ofOpt] at h; rw [h.1]

/-- **The backing invariant ranges over the adversarial token class**: every token kind of the harness — the
programmable one included — is an `ExternalToken` for the ledger "balance stored for the module". -/
theorem repoClass_external : ExternalToken repoClass (fun t => t.bal moduleAddr) := by
  refine ⟨?_, ?_, ?_, ?_⟩
  · intro st m h
    simp only [repoClass, repoBehaviour] at h
    split at h
    · simp only [pgBalanceOf] at h
      by_cases hc : (if st.readWho = "" ∨ st.readWho = moduleAddr then st.readMode else 0) = 1 ∨
          (if st.readWho = "" ∨ st.readWho = moduleAddr then st.readMode else 0) = 2 ∨
          (if st.readWho = "" ∨ st.readWho = moduleAddr then st.readMode else 0) = 4
      · rw [if_pos hc] at h; cases h
      · rw [if_neg hc] at h; injection h with h; exact h.symm
    · injection h with h; exact h.symm
  · intro st c t a st' v ap hc h
    simp only [repoClass, repoBehaviour, repoTransfer] at h
    split at h
    · -- programmable
      simp only [pgTransfer] at h
      split at h
      · cases h
      · split at h
        · injection h with h1 _ _; subst h1; exact Nat.le_refl _
        · split at h
          · cases h
          · rename_i t2 _ _ hadv
            injection h with h1 _ _; subst h1
            exact advTransfer_module_ge (t := { st with readMode := st.readNext, readNext := 0, xferMode := 0 }) hadv hc
    · exact move_module_ge (ofOpt_ret2 h) hc
    · -- directBalance: two moves
      have := ofOpt_ret2 h
      cases h1 : st.move c thief (a - a / 2) with
      | none => rw [h1] at this; cases this
      | some t1 =>
        rw [h1] at this
        exact Nat.le_trans (move_module_ge h1 hc) (move_module_ge this hc)
    · split at h
      · cases h
      · exact move_module_ge (ofOpt_ret2 h) hc
    · exact advTransfer_module_ge h hc
    · exact advTransfer_module_ge h hc
  · intro st c t a st' v ap hc h
    simp only [repoClass, repoBehaviour] at h
    split at h
    · have := ofOpt_ret2 h
      unfold TokState.mintTo at this
      split at this
      · cases this
      · injection this with this; subst this
        by_cases hd : moduleAddr = t
        · simp [← hd]
        · simp [hd]
    · cases h
  · intro st c f a st' v ap hc h
    simp [repoClass, hc] at h

end TM.Convert

namespace TM.Convert
variable {σ : Type}

/-! ## the disabled state across EVERY governance operation on the pair -/

/-- frame: `AddCoin` rewrites the denomination list only -/
theorem addCoin_preserves_enabled (p : Pair) (d : Denom) :
    (addCoinPair p d).enabled = p.enabled ∧ (addCoinPair p d).addr = p.addr ∧ (addCoinPair p d).owner = p.owner ∧
    (addCoinPair p d).denoms.head? = (if p.denoms = [] then some d else p.denoms.head?) := by
  refine ⟨rfl, rfl, rfl, ?_⟩
  cases h : p.denoms <;> simp [addCoinPair, h]

/-- frame: `UpdateTokenPairERC20` rewrites the contract address only -/
theorem updateERC20_preserves_enabled (p : Pair) (new : Addr) :
    (updatePair p new).enabled = p.enabled ∧ (updatePair p new).denoms = p.denoms ∧ (updatePair p new).owner = p.owner :=
  ⟨rfl, rfl, rfl⟩

/-- only `ToggleRelay` changes `Enabled` -/
theorem toggle_flips_enabled (p : Pair) : (togglePair p).enabled = !p.enabled := rfl

/-- A pair's identity across governance operations is its FIRST denomination (`GetID` hashes the address and
`Denoms[0]`; `AddCoin` appends, `UpdateTokenPairERC20` keeps the list): `EnabledHead w d0` = some stored pair whose
first denomination is `d0` is enabled. -/
def EnabledHead (w : World σ) (d0 : Denom) : Prop :=
  ∃ i p, w.pairs i = some p ∧ p.enabled = true ∧ p.denoms.head? = some d0

/-- every pair is stored under its own id (part of `WellFormed`; preserved by every operation) -/
def Ided (w : World σ) : Prop := ∀ i p, w.pairs i = some p → p.id? = some i

theorem denoms_ne_nil_of_id {p : Pair} {i : Id} (h : p.id? = some i) : p.denoms ≠ [] := by
  intro e; simp [Pair.id?, e] at h

theorem addCoin_frame {w : World σ} {d : Denom} {c : Addr} (hid : Ided w) :
    Ided (addCoin w d c) ∧ ∀ d0, EnabledHead (addCoin w d c) d0 → EnabledHead w d0 := by
  unfold addCoin
  split
  · exact ⟨hid, fun _ h => h⟩
  · split
    · exact ⟨hid, fun _ h => h⟩
    · split
      · exact ⟨hid, fun _ h => h⟩
      · rename_i i hi
        split
        · exact ⟨hid, fun _ h => h⟩
        · rename_i p hp
          split
          · exact ⟨hid, fun _ h => h⟩
          · rename_i hnew
            simp only [Decidable.not_not] at hnew
            refine ⟨?_, ?_⟩
            · intro j q hq
              simp only at hq
              split at hq
              · rename_i hji; subst hji
                injection hq with hq; subst hq; exact hnew
              · exact hid j q hq
            · intro d0 h
              obtain ⟨j, q, hq, hen, hhd⟩ := h
              simp only at hq
              split at hq
              · injection hq with hq; subst hq
                have hne := denoms_ne_nil_of_id (hid i p hp)
                have hh := (addCoin_preserves_enabled p d).2.2.2
                rw [if_neg hne] at hh
                exact ⟨i, p, hp, hen, by rw [← hh]; exact hhd⟩
              · exact ⟨j, q, hq, hen, hhd⟩

theorem updateERC20_frame {w : World σ} {old new : Addr} {m : Bool} (hid : Ided w) :
    Ided (updateERC20 w old new m) ∧ ∀ d0, EnabledHead (updateERC20 w old new m) d0 → EnabledHead w d0 := by
  unfold updateERC20
  split
  · exact ⟨hid, fun _ h => h⟩
  · split
    · exact ⟨hid, fun _ h => h⟩
    · rename_i i _ _ p hp
      split
      · exact ⟨hid, fun _ h => h⟩
      · split
        · exact ⟨hid, fun _ h => h⟩
        · split
          · rename_i w1 i' hdel hnew
            have hsub := deletePair_pairs hdel
            refine ⟨?_, ?_⟩
            · intro j q hq
              simp only at hq
              split at hq
              · rename_i hji; subst hji
                injection hq with hq; subst hq; exact hnew
              · exact hid j q (hsub j q hq)
            · intro d0 h
              obtain ⟨j, q, hq, hen, hhd⟩ := h
              simp only at hq
              split at hq
              · injection hq with hq; subst hq
                exact ⟨i, p, hp, hen, hhd⟩
              · exact ⟨j, q, hsub j q hq, hen, hhd⟩
          · exact ⟨hid, fun _ h => h⟩

/-- one step of any action other than `ToggleRelay` creates no enabled pair identity -/
theorem step_enabledHead {B : Addr → Behaviour σ} {w : World σ} {a : Action} (hid : Ided w) (ha : ∀ t, a ≠ .toggle t) :
    Ided (step B w a) ∧ ∀ d0, EnabledHead (step B w a) d0 → EnabledHead w d0 := by
  by_cases hr : a.rewritesPair
  · cases a with
    | toggle t => exact absurd rfl (ha t)
    | addCoin d c => exact addCoin_frame hid
    | updateERC20 o n m => exact updateERC20_frame hid
    | _ => exact absurd hr (by simp [Action.rewritesPair])
  · have hsub := step_pairs (B := B) (w := w) hr
    exact ⟨fun j q hq => hid j q (hsub j q hq),
      fun d0 ⟨j, q, hq, hen, hhd⟩ => ⟨j, q, hsub j q hq, hen, hhd⟩⟩

/-- **disabled_stays_disabled_until_toggled**: if no stored pair with first denomination `d0` is enabled, then after
ANY list of operations that contains no `ToggleRelay` — `AddCoin`, `UpdateTokenPairERC20`, parameter changes by key or
by `SetParams`, restarts, conversions, ICS-20 packets, user calls, … in any order — still none is; and every
conversion message addressed to such a pair (through ANY of its denominations, old or newly added, or through its
current contract address) is rejected with the state unchanged, the ICS-20 hook does not convert for it. -/
theorem disabled_stays_disabled_until_toggled {B : Addr → Behaviour σ} {w : World σ} {as : List Action} {d0 : Denom}
    (hid : Ided w) (hoff : ¬ EnabledHead w d0) (ha : ∀ a ∈ as, ∀ t, a ≠ .toggle t) :
    let w' := run B w as
    ¬ EnabledHead w' d0 ∧
    (∀ (m : MsgCoin) i p, w'.pairId m.denom = some i → w'.pairs i = some p → p.denoms.head? = some d0 →
      ∃ c, deliverCoin B w' m = (w', .rejected c)) ∧
    (∀ (m : MsgERC20) i p, w'.pairId m.contract = some i → w'.pairs i = some p → p.denoms.head? = some d0 →
      ∃ c, deliverERC20 B w' m = (w', .rejected c)) ∧
    (∀ (pk : IcsPacket) i p, w'.pairId pk.voucher = some i → w'.pairs i = some p → p.denoms.head? = some d0 →
      (ics20Recv B w' pk).2 ≠ .converted ∧ (ics20Recv B w' pk).2 ≠ .cleaned) := by
  intro w'
  have key : Ided w' ∧ ¬ EnabledHead w' d0 := by
    show Ided (run B w as) ∧ ¬ EnabledHead (run B w as) d0
    induction as generalizing w with
    | nil => exact ⟨hid, hoff⟩
    | cons a as ih =>
      obtain ⟨h1, h2⟩ := step_enabledHead (B := B) hid (ha a (by simp))
      exact ih h1 (fun h => hoff (h2 d0 h)) (fun b hb => ha b (by simp [hb]))
  have hdis : ∀ i p, w'.pairs i = some p → p.denoms.head? = some d0 → p.enabled = false := by
    intro i p hp hh
    cases he : p.enabled with
    | false => rfl
    | true => exact absurd ⟨i, p, hp, he, hh⟩ key.2
  refine ⟨key.2, ?_, ?_, ?_⟩
  · intro m i p hi hp hh
    exact gated_coin (Or.inr (Or.inl ⟨i, p, hi, hp, hdis i p hp hh⟩))
  · intro m i p hi hp hh
    exact gated_erc20 (Or.inr (Or.inl ⟨i, p, hi, hp, hdis i p hp hh⟩))
  · intro pk i p hi hp hh
    have kk : ∀ w2 cl recv b1, handleCoin B (afterTransfer w' b1) pk.voucher pk.amount.toNat recv recv = .ok (w2, cl) → False := by
      intro w2 cl recv b1 hhh
      obtain ⟨pair, hme, _⟩ := handleCoin_ok hhh
      obtain ⟨_, i', hi', _, hpair, hen, _⟩ := mintingEnabled_ok hme
      have h1 : w'.pairId pk.voucher = some i' := hi'
      rw [hi] at h1; injection h1 with h1; subst h1
      have h2 : w'.pairs i = some pair := hpair
      rw [hp] at h2; injection h2 with h2; subst h2
      have := hdis i p hp hh
      rw [hen] at this; cases this
    cases hr : ics20Recv B w' pk with
    | mk w2 r =>
      rcases ics20_cases hr with ⟨_, h2⟩ | ⟨recv, b1, _, _, _, ⟨h1, _⟩ | ⟨_, hhh⟩ | ⟨_, hhh⟩⟩
      · rcases h2 with h2 | h2 <;> subst h2 <;> exact ⟨by simp, by simp⟩
      · subst h1; exact ⟨by simp, by simp⟩
      · exact (kk _ _ _ _ hhh).elim
      · exact (kk _ _ _ _ hhh).elim

end TM.Convert
