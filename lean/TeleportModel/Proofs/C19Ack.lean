import TeleportModel.Model.Abi
import TeleportModel.Model.Json
import TeleportModel.Generated.AbiTuples
import TeleportModel.Proofs.C19Abi
import TeleportModel.Proofs.C19Json
/-
C19 (part 3b) — the acknowledgement obligations, in their own module so that the known defect F11 (tuple component
`feeOption` vs struct tag `json:"fee_option"`) breaks exactly `ack_tagsMatch` / `ack_decode_encode` and nothing else.
-/
namespace TM.C19
open TM TM.Abi TM.Json TM.Generated

/-! ### Acknowledgement (defect F11: `feeOption` vs `json:"fee_option"` — `ack_tagsMatch` fails on the unfixed tree) -/
theorem ackLayout_wf : AbiTuples.tupleAckData.WF := by decide
theorem ack_tagsMatch : TagsMatch AbiTuples.tupleAckData AbiTuples.acknowledgementSchema := by decide
theorem ack_covers : Covers AbiTuples.tupleAckData AbiTuples.acknowledgementSchema := by decide

theorem ack_decode_encode (sv : List Val) (b : Bytes)
    (hty : sv.map Val.ty = AbiTuples.acknowledgementSchema.map (·.ty)) (hu : ∀ v ∈ sv, strOk v = true)
    (hp : packStruct AbiTuples.tupleAckData AbiTuples.acknowledgementSchema sv = some b) (hsz : b.length < 2 ^ 256) :
    decodeStruct AbiTuples.tupleAckData AbiTuples.acknowledgementSchema b = some sv :=
  decode_encode _ _ sv b ack_tagsMatch ack_covers hty hu hp hsz

end TM.C19
