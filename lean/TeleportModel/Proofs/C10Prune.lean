import TeleportModel.Proofs.C10
/-
C10 across pruning steps (repaired `RestrictChain`).  The invariant `InvP` survives every accepted update, the prune
pass (`pruneStep`, the model's transcription of the `pruneCb` pass + `deleteConsensusStateAndIndexHeader`) included:
  * header-index keys consistent, head stored, consensus states right along the head's stored ancestry (`Core`);
  * the head's stored ancestry ends exactly at the prune line `P` (= lowest kept consensus state); everything the
    prune pass ever deleted stays deleted (`DeadOk`), so nothing below `P` can be walked into again;
  * root-main entries of headers at or above the line point at the header itself (needs: no two headers of the
    counterparty chain at one height share a state root, `UOkP.rootSep`).
`never_wedged_partial`: a rule-abiding child whose stored ancestry meets the head's stored ancestry (`LiveC`, i.e. the
branch forks at or above the prune line) is accepted, whatever was pruned before.  The complement is the known finding
`C10:valid-child-rejected:fork-below-prune-line` (`below_line_rejected`).
-/
namespace TM.Eth

/-! ### pure facts about the loops -/

theorem walkNew_sound (env : Env) (s : State) : ∀ (n : Nat) (h : Header) (acc : List Hash) (x : Header) (acc' : List Hash),
    walkNew env s n h acc = some (x, acc') → walkCur s n h = some x ∧ acc' = acc ++ (pathList s n h).map env.hash := by
  intro n
  induction n with
  | zero => intro h acc x acc' hw; simp [walkNew] at hw; obtain ⟨rfl, rfl⟩ := hw; simp [walkCur, pathList]
  | succ n ih =>
    intro h acc x acc' hw
    unfold walkNew at hw
    cases hp : parentOf s h with
    | none => simp [hp] at hw
    | some p =>
      simp only [hp] at hw
      obtain ⟨h1, h2⟩ := ih p _ x acc' hw
      refine ⟨by rw [up_succ, hp]; simpa using h1, ?_⟩
      rw [h2]; simp [pathList, hp]

theorem walkBoth_sound (env : Env) (s : State) : ∀ (fuel : Nat) (cur new : Header) (acc : List Hash) (st : Nat)
    (cur2 new2 : Header) (acc2 : List Hash) (steps : Nat),
    walkBoth env s fuel cur new acc st = .ok (cur2, new2, acc2, steps) →
    ∃ j, steps = st + j ∧ acc2 = acc ++ (pathList s j new).map env.hash ∧ walkCur s j cur = some cur2 ∧
      walkCur s j new = some new2 ∧ cur2.parentHash = new2.parentHash := by
  intro fuel
  induction fuel with
  | zero => intro cur new acc st cur2 new2 acc2 steps hw; simp [walkBoth] at hw
  | succ f ih =>
    intro cur new acc st cur2 new2 acc2 steps hw
    unfold walkBoth at hw
    by_cases hph : cur.parentHash = new.parentHash
    · simp only [hph, ↓reduceIte, Outcome.ok.injEq, Prod.mk.injEq] at hw
      obtain ⟨rfl, rfl, rfl, rfl⟩ := hw
      exact ⟨0, rfl, by simp [pathList], rfl, rfl, hph⟩
    · simp only [hph, ↓reduceIte] at hw
      cases hpn : parentOf s new with
      | none => simp [hpn] at hw
      | some pn =>
        cases hpc : parentOf s cur with
        | none => simp [hpn, hpc] at hw
        | some pc =>
          simp only [hpn, hpc] at hw
          obtain ⟨j, h1, h2, h3, h4, h5⟩ := ih pc pn _ _ cur2 new2 acc2 steps hw
          refine ⟨j + 1, by omega, ?_, ?_, ?_, h5⟩
          · rw [h2]; simp [pathList, hpn]
          · rw [up_succ, hpc]; simpa using h3
          · rw [up_succ, hpn]; simpa using h4

theorem walkBoth_total (env : Env) (s : State) : ∀ (a fuel : Nat) (cur new : Header) (acc : List Hash) (st : Nat) (x y : Header),
    a < fuel → walkCur s a cur = some y → walkCur s a new = some x → y.parentHash = x.parentHash →
    ∃ r, walkBoth env s fuel cur new acc st = .ok r := by
  intro a
  induction a with
  | zero =>
    intro fuel cur new acc st x y hf hy hx he
    simp [walkCur] at hy hx; subst hy; subst hx
    obtain ⟨f, rfl⟩ : ∃ f, fuel = f + 1 := ⟨fuel - 1, by omega⟩
    exact ⟨(cur, new, acc, st), by simp [walkBoth, he]⟩
  | succ a ih =>
    intro fuel cur new acc st x y hf hy hx he
    obtain ⟨f, rfl⟩ : ∃ f, fuel = f + 1 := ⟨fuel - 1, by omega⟩
    by_cases hph : cur.parentHash = new.parentHash
    · exact ⟨(cur, new, acc, st), by simp [walkBoth, hph]⟩
    · rw [up_succ] at hy hx
      cases hpc : parentOf s cur with
      | none => simp [hpc] at hy
      | some pc =>
        cases hpn : parentOf s new with
        | none => simp [hpn] at hx
        | some pn =>
          simp [hpc] at hy; simp [hpn] at hx
          obtain ⟨r, hr⟩ := ih f pc pn (acc ++ [env.hash new]) (st + 1) x y (by omega) hy hx he
          exact ⟨r, by simp [walkBoth, hph, hpn, hpc, hr]⟩

theorem up_prefix (s : State) {m : Nat} {h y : Header} (hy : walkCur s m h = some y) (k : Nat) (hk : k ≤ m) :
    ∃ z, walkCur s k h = some z ∧ walkCur s (m - k) z = some y := by
  have e : m = k + (m - k) := by omega
  rw [e, up_add] at hy
  cases hz : walkCur s k h with
  | none => simp [hz] at hy
  | some z => exact ⟨z, rfl, by simpa [hz] using hy⟩

theorem repoint_dom : ∀ (xs : List Hash) (s s' : State) (t : Nat), repoint s xs t = some s' →
    ∀ k v, aget s'.cons k = some v → (aget s.cons k).isSome ∨ t ≤ k := by
  intro xs
  induction xs with
  | nil => intro s s' t h k v hk; simp [repoint] at h; subst h; left; simp [hk]
  | cons x xs ih =>
    intro s s' t h k v hk
    unfold repoint at h
    split at h
    · cases h
    · rcases ih _ _ _ h k v hk with h1 | h1
      · by_cases e : k = t
        · right; omega
        · left; rw [aget_aset_ne _ _ e] at h1; exact h1
      · right; omega

theorem rcFinish_dom {env : Env} {s s' : State} {a b : Header} {acc : List Hash} {t : Nat}
    (h : rcFinish .fixed env s a b acc t = .ok s') : ∀ k v, aget s'.cons k = some v → (aget s.cons k).isSome ∨ t ≤ k := by
  unfold rcFinish at h
  dsimp only at h
  split at h
  · cases h
  · rename_i hr
    cases h
    intro k v hk
    rcases repoint_dom _ _ _ _ hr k v hk with h1 | h1
    · left; exact h1
    · right
      by_cases hh : env.hash a = env.hash b
      · simp [hh] at h1; omega
      · simp [hh] at h1; exact h1

/-! ### lowest key -/

theorem minKey_mem {α : Type} : ∀ (m : List (Nat × α)) (k : Nat), minKey m = some k → (aget m k).isSome := by
  intro m
  induction m with
  | nil => intro k h; simp [minKey] at h
  | cons p m ih =>
    intro k h
    obtain ⟨k0, v0⟩ := p
    unfold minKey at h
    cases hm : minKey m with
    | none => simp [hm] at h; subst h; simp [aget]
    | some k' =>
      simp [hm] at h
      by_cases e : k0 = k
      · simp [aget, e]
      · have : k = k' := by omega
        subst this
        simp [aget, e, ih k hm]

theorem minKey_le {α : Type} : ∀ (m : List (Nat × α)) (k : Nat), (aget m k).isSome → ∃ k', minKey m = some k' ∧ k' ≤ k := by
  intro m
  induction m with
  | nil => intro k h; simp [aget] at h
  | cons p m ih =>
    intro k h
    obtain ⟨k0, v0⟩ := p
    unfold minKey
    by_cases e : k0 = k
    · cases hm : minKey m with
      | none => exact ⟨k0, rfl, by omega⟩
      | some k' => exact ⟨min k0 k', rfl, by omega⟩
    · simp [aget, e] at h
      obtain ⟨k', h1, h2⟩ := ih k h
      rw [h1]
      exact ⟨min k0 k', rfl, by omega⟩

theorem minKey_spec {α : Type} (m : List (Nat × α)) (P : Nat) (h1 : (aget m P).isSome)
    (h2 : ∀ k v, aget m k = some v → P ≤ k) : minKey m = some P := by
  obtain ⟨k', e, hle⟩ := minKey_le m P h1
  have := minKey_mem m k' e
  cases hv : aget m k' with
  | none => simp [hv] at this
  | some v => have := h2 k' v hv; rw [e]; congr; omega

/-! ### the invariant across pruning -/

/-- assumptions on the set `U` of existing headers: `UOk` and no two headers at one height with the same state root -/
structure UOkP (env : Env) (U : Header → Prop) : Prop where
  base : UOk env U
  rootSep : ∀ a b, U a → U b → a.number = b.number → a.root = b.root → a = b

/-- key of the parent lookup: `parentOf s h = aget s.hdr (pkey h)` -/
def pkey (h : Header) : Key := (h.parentHash, pred64 h.number)

/-- `dl` = every header the prune pass has deleted so far; they stay deleted and hang together down to height `g0` -/
def DeadOk (env : Env) (U : Header → Prop) (g0 : Nat) (s : State) (dl : List Header) : Prop :=
  ∀ d ∈ dl, U d ∧ aget s.hdr (hkey env d) = none ∧ (pkey d ∈ dl.map (hkey env) ∨ d.number = g0)

structure InvP (env : Env) (U : Header → Prop) (g0 : Nat) (s : State) (P : Nat) (dl : List Header) : Prop where
  core : Core env U s
  lower : ∀ k h, aget s.hdr k = some h → g0 ≤ h.number
  le : P ≤ s.head.number
  dead : DeadOk env U g0 s dl
  bottom : ∃ b, walkCur s (s.head.number - P) s.head = some b ∧ (pkey b ∈ dl.map (hkey env) ∨ b.number = g0)
  consLo : ∀ k v, aget s.cons k = some v → P ≤ k
  rm : ∀ k h, aget s.hdr k = some h → P ≤ h.number → aget s.rootMain (h.root, h.number) = some (hkey env h)

section
variable {env : Env} {U : Header → Prop} {g0 : Nat}

theorem adel_mono {κ α : Type} [DecidableEq κ] (m : List (κ × α)) (k0 k : κ) (v : α) (h : aget (adel m k0) k = some v) :
    aget m k = some v := by
  by_cases e : k = k0
  · subst e; rw [aget_adel_self] at h; cases h
  · rw [aget_adel_ne _ e] at h; exact h

theorem up_stored {s : State} (hk : ∀ k h, aget s.hdr k = some h → k = hkey env h ∧ U h) :
    ∀ (n : Nat) {x a : Header}, Stored env s x → walkCur s n x = some a → Stored env s a := by
  intro n
  induction n with
  | zero => intro x a sx h; simp [walkCur] at h; subst h; exact sx
  | succ n ih =>
    intro x a sx h
    rw [up_succ] at h
    cases hp : parentOf s x with
    | none => simp [hp] at h
    | some q =>
      simp [hp] at h
      have sq : Stored env s q := by
        unfold parentOf at hp
        unfold Stored
        rw [← (hk _ _ hp).1]; exact hp
      exact ih sq h

/-- a header whose parent key is dead (or which sits at the creation height) has no parent in the index -/
theorem no_parent (hU : UOkP env U) {s : State} {P : Nat} {dl : List Header} (hi : InvP env U g0 s P dl) {h : Header}
    (uh : U h) (hc : pkey h ∈ dl.map (hkey env) ∨ h.number = g0) : parentOf s h = none := by
  cases hp : parentOf s h with
  | none => rfl
  | some q =>
    exfalso
    rcases hc with hc | hc
    · obtain ⟨d, hd, e⟩ := List.mem_map.mp hc
      have := (hi.dead d hd).2.1
      unfold parentOf at hp
      rw [show (h.parentHash, pred64 h.number) = pkey h from rfl, ← e, this] at hp
      cases hp
    · obtain ⟨e1, _, sq⟩ := parent_facts hU.base hi.core.key uh hp
      have := hi.lower _ _ sq
      omega

theorem bottom_facts (hU : UOkP env U) {s : State} {P : Nat} {dl : List Header} (hi : InvP env U g0 s P dl) :
    ∃ b, walkCur s (s.head.number - P) s.head = some b ∧ b.number = P ∧ Stored env s b ∧ parentOf s b = none ∧
      (pkey b ∈ dl.map (hkey env) ∨ b.number = g0) := by
  obtain ⟨b, hb, hc⟩ := hi.bottom
  obtain ⟨e, sb⟩ := up_facts hU.base hi.core _ hi.core.head hb
  have := hi.le
  exact ⟨b, hb, by omega, sb, no_parent hU hi (stored_U hi.core sb) hc, hc⟩

/-- the head's stored ancestry ends at the prune line -/
theorem main_ge (hU : UOkP env U) {s : State} {P : Nat} {dl : List Header} (hi : InvP env U g0 s P dl) {n : Nat} {a : Header}
    (ha : walkCur s n s.head = some a) : n ≤ s.head.number - P := by
  obtain ⟨b, hb, _, _, hn, _⟩ := bottom_facts hU hi
  refine Nat.le_of_not_lt (fun hlt => ?_)
  obtain ⟨i, rfl⟩ : ∃ i, n = (s.head.number - P) + (i + 1) := ⟨n - (s.head.number - P) - 1, by omega⟩
  rw [up_add, hb] at ha
  simp only [Option.bind_some] at ha
  rw [up_succ, hn] at ha
  cases ha

/-- the prune pass never fails on a store satisfying the invariant, and re-establishes it one height up -/
theorem prune_inv (hU : UOkP env U) {s : State} {P : Nat} {dl : List Header} (hi : InvP env U g0 s P dl) {now : Nat}
    (hact : active s now = true) :
    ∃ s1 P1 dl1, pruneStep s now = .ok s1 ∧ InvP env U g0 s1 P1 dl1 ∧ P ≤ P1 ∧ s1.head = s.head ∧ s1.chainId = s.chainId ∧
      s1.trusting = s.trusting ∧
      (∀ k h, aget s1.hdr k = some h → aget s.hdr k = some h) ∧
      (∀ d ∈ dl1, d ∈ dl ∨ walkCur s (s.head.number - P) s.head = some d) := by
  obtain ⟨b, hb, ebn, sb, hbn, hbc⟩ := bottom_facts hU hi
  have hcb : aget s.cons P = some (consOf b) := ebn ▸ hi.core.roots _ _ hb
  have hmin : minKey s.cons = some P := minKey_spec _ _ (by simp [hcb]) hi.consLo
  by_cases hex : expired s now (consOf b) = true
  · -- the lowest consensus state has expired: it is deleted together with the bottom header `b`
    have hph : pruneHeight s now = some P := by simp [pruneHeight, hmin, hcb, hex]
    have hrm : aget s.rootMain ((consOf b).root, P) = some (hkey env b) := by
      have := hi.rm _ _ sb (by omega)
      rw [ebn] at this; exact this
    have hM : P < s.head.number := by
      have hle := hi.le
      rcases Nat.lt_or_ge P s.head.number with h | h
      · exact h
      · exfalso
        have e : s.head.number = P := by omega
        have hh := hi.core.roots 0 s.head rfl
        unfold active at hact
        have e0 : s.head.number - P = 0 := by omega
        rw [e0] at hb; simp [walkCur] at hb
        rw [hh, hb] at hact
        simp [hex] at hact
    let s1 : State := { s with hdr := adel s.hdr (hkey env b), rootMain := adel s.rootMain ((consOf b).root, P), cons := adel s.cons P }
    have hstep : pruneStep s now = .ok s1 := by simp [pruneStep, hph, deleteAt, hcb, hrm, s1]
    have hmono : ∀ k h, aget s1.hdr k = some h → aget s.hdr k = some h := fun k h hk => adel_mono _ _ _ _ hk
    have hkey1 : ∀ k h, aget s1.hdr k = some h → k = hkey env h ∧ U h := fun k h hk => hi.core.key _ _ (hmono k h hk)
    have hbdel : aget s1.hdr (hkey env b) = none := aget_adel_self _ _
    -- walks in s1 are walks in s
    have hupmono : ∀ (n : Nat) (x a : Header), walkCur s1 n x = some a → walkCur s n x = some a := by
      intro n
      induction n with
      | zero => intro x a h; exact h
      | succ n ih =>
        intro x a h
        rw [up_succ] at h ⊢
        cases hp : parentOf s1 x with
        | none => simp [hp] at h
        | some q =>
          simp [hp] at h
          have : parentOf s x = some q := hmono _ _ hp
          rw [this]; simpa using ih q a h
    -- walks in s that stay above P are walks in s1
    have hupdel : ∀ (n : Nat) (x a : Header), Stored env s x → walkCur s n x = some a → P < a.number → walkCur s1 n x = some a := by
      intro n
      induction n with
      | zero => intro x a _ h _; exact h
      | succ n ih =>
        intro x a sx h hP
        rw [up_succ] at h ⊢
        cases hp : parentOf s x with
        | none => simp [hp] at h
        | some q =>
          simp [hp] at h
          obtain ⟨_, _, sq⟩ := parent_facts hU.base hi.core.key (stored_U hi.core sx) hp
          obtain ⟨eq, _⟩ := up_facts hU.base hi.core n sq h
          have hne : (x.parentHash, pred64 x.number) ≠ hkey env b := by
            intro e
            unfold parentOf at hp
            rw [e, sb] at hp
            cases hp
            omega
          have : parentOf s1 x = some q := by
            unfold parentOf at hp ⊢
            show aget (adel s.hdr (hkey env b)) _ = _
            rw [aget_adel_ne _ hne]; exact hp
          rw [this]; simpa using ih q a sq h hP
    have hhead1 : aget s1.hdr (hkey env s.head) = some s.head := by
      show aget (adel s.hdr (hkey env b)) _ = _
      rw [aget_adel_ne]
      · exact hi.core.head
      · intro e; simp only [hkey, Prod.mk.injEq] at e; omega
    have hcore1 : Core env U s1 := by
      refine ⟨hkey1, hhead1, ?_⟩
      intro n a ha
      have ha' := hupmono n _ a ha
      have hr := hi.core.roots n a ha'
      have sa1 : Stored env s1 a := up_stored hkey1 n hhead1 ha
      have hne : a.number ≠ P := by
        intro e
        obtain ⟨e2, _⟩ := up_facts hU.base hi.core n hi.core.head ha'
        have hn : n = s.head.number - P := by omega
        rw [hn, hb] at ha'
        cases ha'
        unfold Stored at sa1
        rw [hbdel] at sa1
        cases sa1
      show aget (adel s.cons P) a.number = _
      rw [aget_adel_ne _ hne]; exact hr
    -- the new bottom: the child of b on the head's ancestry
    obtain ⟨b1, hb1, hb1b⟩ := up_prefix s hb (s.head.number - (P + 1)) (by omega)
    have e1 : s.head.number - P - (s.head.number - (P + 1)) = 1 := by omega
    rw [e1, up_succ] at hb1b
    have hpb1 : parentOf s b1 = some b := by
      cases hp : parentOf s b1 with
      | none => simp [hp] at hb1b
      | some q => simp [hp, walkCur] at hb1b; rw [hb1b]
    obtain ⟨eb1, sb1⟩ := up_facts hU.base hi.core _ hi.core.head hb1
    have hpk : pkey b1 = hkey env b := by
      unfold parentOf at hpb1
      exact (hi.core.key _ _ hpb1).1
    refine ⟨s1, P + 1, b :: dl, hstep, ⟨hcore1, ?_, ?_, ?_, ?_, ?_, ?_⟩, by omega, rfl, rfl, rfl, hmono, ?_⟩
    · intro k h hk; exact hi.lower _ _ (hmono k h hk)
    · show P + 1 ≤ s.head.number; omega
    · intro d hd
      rcases List.mem_cons.mp hd with e | hd
      · subst e
        refine ⟨stored_U hi.core sb, hbdel, ?_⟩
        rcases hbc with h | h
        · left; simp only [List.map_cons, List.mem_cons]; right; exact h
        · right; exact h
      · obtain ⟨ud, hnone, hc⟩ := hi.dead d hd
        refine ⟨ud, ?_, ?_⟩
        · cases hq : aget s1.hdr (hkey env d) with
          | none => rfl
          | some q => rw [hmono _ _ hq] at hnone; cases hnone
        · rcases hc with h | h
          · left; simp only [List.map_cons, List.mem_cons]; right; exact h
          · right; exact h
    · refine ⟨b1, ?_, ?_⟩
      · show walkCur s1 (s.head.number - (P + 1)) s.head = some b1
        exact hupdel _ _ _ hi.core.head hb1 (by omega)
      · left; rw [hpk]; simp
    · intro k v hk
      have hk' : aget (adel s.cons P) k = some v := hk
      by_cases e : k = P
      · subst e; rw [aget_adel_self] at hk'; cases hk'
      · rw [aget_adel_ne _ e] at hk'
        have := hi.consLo k v hk'
        omega
    · intro k h hk hP
      have := hi.rm k h (hmono k h hk) (by omega)
      show aget (adel s.rootMain ((consOf b).root, P)) (h.root, h.number) = _
      rw [aget_adel_ne]
      · exact this
      · intro e; simp only [Prod.mk.injEq] at e; omega
    · intro d hd
      rcases List.mem_cons.mp hd with e | hd
      · subst e; right; exact hb
      · left; exact hd
  · -- nothing expired
    have hph : pruneHeight s now = none := by
      have : expired s now (consOf b) = false := by simpa using hex
      simp [pruneHeight, hmin, hcb, this]
    exact ⟨s, P, dl, by simp [pruneStep, hph], hi, Nat.le_refl _, rfl, rfl, rfl, fun _ _ h => h, fun d hd => Or.inl hd⟩

/-- `update()` (index writes) keeps the invariant, provided the new header is not one of the pruned ones -/
theorem store_invP (hU : UOkP env U) {s : State} {P : Nat} {dl : List Header} (hi : InvP env U g0 s P dl) {c : Header}
    (uc : U c) (hlow : g0 ≤ c.number) (hnd : ∀ d ∈ dl, hkey env c ≠ hkey env d) :
    InvP env U g0 (store env s c) P dl ∧ Stored env (store env s c) c := by
  have hmono : ∀ k h, aget s.hdr k = some h → aget (store env s c).hdr k = some h := by
    intro k h hk
    rw [store_hdr]
    by_cases e : k = hkey env c
    · obtain ⟨e2, uh⟩ := hi.core.key _ _ hk
      have : env.hash h = env.hash c := by
        have := e2.symm.trans e
        simp only [hkey, Prod.mk.injEq] at this
        exact this.1
      rw [hU.base.inj _ _ uh uc this]; simp [e]
    · simp [e, hk]
  have hsc : Stored env (store env s c) c := by unfold Stored; rw [store_hdr]; simp
  have hkey2 : ∀ k h, aget (store env s c).hdr k = some h → k = hkey env h ∧ U h := by
    intro k h hk
    rw [store_hdr] at hk
    by_cases e : k = hkey env c
    · simp [e] at hk; subst hk; exact ⟨e, uc⟩
    · simp [e] at hk; exact hi.core.key _ _ hk
  obtain ⟨b, hb, ebn, sb, hbn, hbc⟩ := bottom_facts hU hi
  -- a parent found in the new index for a header on the head's ancestry was there before
  have hpar : ∀ (i : Nat) (x a : Header), walkCur s i s.head = some x → parentOf (store env s c) x = some a → parentOf s x = some a := by
    intro i x a hx hp
    unfold parentOf at hp ⊢
    rw [store_hdr] at hp
    by_cases e : (x.parentHash, pred64 x.number) = hkey env c
    · simp [e] at hp; subst hp
      cases hq : aget s.hdr (x.parentHash, pred64 x.number) with
      | some q =>
        obtain ⟨e2, uq⟩ := hi.core.key _ _ hq
        have : env.hash q = env.hash c := by
          have := e2.symm.trans e
          simp only [hkey, Prod.mk.injEq] at this
          exact this.1
        rw [hU.base.inj _ _ uq uc this]
      | none =>
        exfalso
        have hle := main_ge hU hi hx
        rcases Nat.lt_or_ge i (s.head.number - P) with hlt | hge
        · obtain ⟨z, hz, _⟩ := up_prefix s hb (i + 1) (by omega)
          rw [up_add s i 1, hx] at hz
          simp only [Option.bind_some] at hz
          rw [up_succ] at hz
          have : parentOf s x = none := hq
          rw [this] at hz; cases hz
        · have : i = s.head.number - P := by omega
          subst this
          rw [hb] at hx; cases hx
          rcases hbc with h | h
          · obtain ⟨d, hd, e3⟩ := List.mem_map.mp h
            exact hnd d hd (e.symm.trans e3.symm)
          · have h1 := hU.base.wf _ uc
            have h2 := hU.base.wf _ (stored_U hi.core sb)
            simp only [hkey, Prod.mk.injEq] at e
            have e3 := e.2
            simp only [pred64, two64, two63] at *
            omega
    · simp [e] at hp; exact hp
  have hup : ∀ (n : Nat) (a : Header), walkCur (store env s c) n s.head = some a → walkCur s n s.head = some a := by
    intro n
    induction n with
    | zero => intro a h; exact h
    | succ n ih =>
      intro a h
      rw [up_add _ n 1] at h ⊢
      cases hx : walkCur (store env s c) n s.head with
      | none => simp [hx] at h
      | some x =>
        have hx' := ih x hx
        simp only [hx, Option.bind_some] at h
        rw [hx']
        simp only [Option.bind_some]
        rw [up_succ] at h ⊢
        cases hp : parentOf (store env s c) x with
        | none => simp [hp] at h
        | some q =>
          simp [hp, walkCur] at h
          rw [hpar n x q hx' hp]
          simp [walkCur, h]
  have hupmono : ∀ (n : Nat) (x a : Header), walkCur s n x = some a → walkCur (store env s c) n x = some a := by
    intro n
    induction n with
    | zero => intro x a h; exact h
    | succ n ih =>
      intro x a h
      rw [up_succ] at h ⊢
      cases hp : parentOf s x with
      | none => simp [hp] at h
      | some q =>
        simp [hp] at h
        have : parentOf (store env s c) x = some q := hmono _ _ hp
        rw [this]; simpa using ih q a h
  refine ⟨⟨⟨hkey2, hmono _ _ hi.core.head, ?_⟩, ?_, hi.le, ?_, ?_, hi.consLo, ?_⟩, hsc⟩
  · intro n a ha
    exact hi.core.roots n a (hup n a ha)
  · intro k h hk
    rw [store_hdr] at hk
    by_cases e : k = hkey env c
    · simp [e] at hk; subst hk; exact hlow
    · simp [e] at hk; exact hi.lower _ _ hk
  · intro d hd
    obtain ⟨ud, hnone, hc⟩ := hi.dead d hd
    refine ⟨ud, ?_, hc⟩
    rw [store_hdr]
    have : hkey env d ≠ hkey env c := fun e => hnd d hd e.symm
    simp [this, hnone]
  · exact ⟨b, hupmono _ _ _ hb, hbc⟩
  · intro k h hk hP
    show aget (aset s.rootMain (c.root, c.number) (hkey env c)) (h.root, h.number) = _
    rw [aget_aset]
    by_cases e : (h.root, h.number) = (c.root, c.number)
    · simp only [Prod.mk.injEq] at e
      have : h = c := hU.rootSep _ _ (hkey2 k h hk).2 uc e.2 e.1
      simp [this]
    · simp only [e, ↓reduceIte]
      rw [store_hdr] at hk
      by_cases e2 : k = hkey env c
      · simp [e2] at hk; subst hk; simp at e
      · simp [e2] at hk; exact hi.rm k h hk hP

/-! ### `RestrictChain`: what a successful run did, and when it succeeds -/

/-- the new header's stored ancestry meets the head's stored ancestry: two headers of the same height with the same
    parent hash (possibly the same header).  In tree terms: the branch forks at or above the prune line. -/
def LiveC (s : State) (c : Header) : Prop :=
  ∃ n m x y, walkCur s n c = some x ∧ walkCur s m s.head = some y ∧ x.number = y.number ∧ y.parentHash = x.parentHash

theorem rcTail_core (hU : UOk env U) {s : State} (hi : Core env U s) {c cur1 new1 : Header} (sc : Stored env s c)
    {d1 d2 si : Nat} (hc1 : walkCur s d1 s.head = some cur1) (hn1 : walkCur s d2 c = some new1)
    (e1 : cur1.number = si) (e2 : new1.number = si) {cur2 new2 : Header} {acc2 : List Hash} {steps : Nat}
    (hw : walkBoth env s (si + 1) cur1 new1 ((pathList s d2 c).map env.hash) 0 = .ok (cur2, new2, acc2, steps)) :
    ∃ cons' D E, rcTail .fixed env s cur1 new1 ((pathList s d2 c).map env.hash) si = .ok { s with cons := cons' } ∧
      walkCur s D c = some new2 ∧ walkCur s E s.head = some cur2 ∧ cur2.parentHash = new2.parentHash ∧
      cur2.number = new2.number ∧ new2.number = si - steps ∧
      (∀ n a, 1 ≤ n → walkCur s n c = some a → aget cons' a.number = some (consOf a)) := by
  obtain ⟨j, hst, hacc, hc2, hn2, hpe⟩ := walkBoth_sound env s _ _ _ _ _ _ _ _ _ hw
  obtain ⟨_, scur1⟩ := up_facts hU hi d1 hi.head hc1
  obtain ⟨_, snew1⟩ := up_facts hU hi d2 sc hn1
  have hD : walkCur s (d2 + j) c = some new2 := by rw [up_add, hn1]; simpa using hn2
  have hE : walkCur s (d1 + j) s.head = some cur2 := by rw [up_add, hc1]; simpa using hc2
  obtain ⟨f1, _⟩ := up_facts hU hi j scur1 hc2
  obtain ⟨f2, _⟩ := up_facts hU hi j snew1 hn2
  obtain ⟨c', h1, h2⟩ := rcFinish_spec hU hi sc hD hE hpe (F := si - steps) (by omega) (by omega)
  refine ⟨c', d2 + j, d1 + j, ?_, hD, hE, hpe, by omega, by omega, h2⟩
  simp only [rcTail, hw]
  rw [hacc, ← List.map_append, ← pathList_add s d2 j c new1 hn1]
  exact h1

/-- what an accepted `RestrictChain` has done -/
theorem restrictChain_sound (hU : UOk env U) {s : State} (hi : Core env U s) {c : Header} (sc : Stored env s c) {s3 : State}
    (h : restrictChain .fixed env s c = .ok s3) :
    ∃ cons' D E new2 cur2, s3 = { s with cons := cons' } ∧
      walkCur s D c = some new2 ∧ walkCur s E s.head = some cur2 ∧ cur2.parentHash = new2.parentHash ∧
      cur2.number = new2.number ∧
      (∀ n a, 1 ≤ n → walkCur s n c = some a → aget cons' a.number = some (consOf a)) ∧
      (∀ k v, aget cons' k = some v → (aget s.cons k).isSome ∨ new2.number ≤ k) := by
  -- reduce to rcTail with the two starting points
  have key : ∃ cur1 new1 d1 d2 si, walkCur s d1 s.head = some cur1 ∧ walkCur s d2 c = some new1 ∧ cur1.number = si ∧
      new1.number = si ∧ rcTail .fixed env s cur1 new1 ((pathList s d2 c).map env.hash) si = .ok s3 := by
    unfold restrictChain at h
    by_cases hgt : s.head.number > c.number
    · simp only [hgt, ↓reduceIte] at h
      cases hc1 : walkCur s (s.head.number - c.number) s.head with
      | none => simp [hc1] at h
      | some cur1 =>
        simp only [hc1, Nat.sub_self, walkNew] at h
        obtain ⟨f1, _⟩ := up_facts hU hi _ hi.head hc1
        exact ⟨cur1, c, _, 0, c.number, hc1, rfl, by omega, rfl, h⟩
    · simp only [hgt, ↓reduceIte] at h
      cases hw : walkNew env s (c.number - s.head.number) c [] with
      | none => simp [hw] at h
      | some r =>
        obtain ⟨new1, acc1⟩ := r
        simp only [hw] at h
        obtain ⟨hn1, hacc⟩ := walkNew_sound env s _ _ _ _ _ hw
        obtain ⟨f1, _⟩ := up_facts hU hi _ sc hn1
        rw [hacc, List.nil_append] at h
        exact ⟨s.head, new1, 0, _, s.head.number, rfl, hn1, rfl, by omega, h⟩
  obtain ⟨cur1, new1, d1, d2, si, hc1, hn1, e1, e2, ht⟩ := key
  cases hw : walkBoth env s (si + 1) cur1 new1 ((pathList s d2 c).map env.hash) 0 with
  | err e => simp [rcTail, hw] at ht
  | panic e => simp [rcTail, hw] at ht
  | ok r =>
    obtain ⟨cur2, new2, acc2, steps⟩ := r
    obtain ⟨c', D, E, h1, hD, hE, hpe, hnum, hF, h2⟩ := rcTail_core hU hi sc hc1 hn1 e1 e2 hw
    rw [h1] at ht
    cases ht
    refine ⟨c', D, E, new2, cur2, rfl, hD, hE, hpe, hnum, h2, ?_⟩
    have hfin : rcFinish .fixed env s cur2 new2 acc2 (si - steps) = .ok { s with cons := c' } := by
      simpa [rcTail, hw] using h1
    intro k v hk
    rcases rcFinish_dom hfin k v hk with h3 | h3
    · left; exact h3
    · right; omega

/-- `RestrictChain` succeeds whenever the new branch meets the head's stored ancestry -/
theorem restrictChain_total (hU : UOk env U) {s : State} (hi : Core env U s) {c : Header} (sc : Stored env s c)
    (hl : LiveC s c) : ∃ s3, restrictChain .fixed env s c = .ok s3 := by
  obtain ⟨n, m, x, y, hx, hy, hnum, hpe⟩ := hl
  obtain ⟨fx, _⟩ := up_facts hU hi n sc hx
  obtain ⟨fy, _⟩ := up_facts hU hi m hi.head hy
  have fin : ∀ {cur1 new1 : Header} {d1 d2 si a : Nat}, walkCur s d1 s.head = some cur1 → walkCur s d2 c = some new1 →
      cur1.number = si → new1.number = si → walkCur s a cur1 = some y → walkCur s a new1 = some x → a ≤ si →
      ∃ s3, rcTail .fixed env s cur1 new1 ((pathList s d2 c).map env.hash) si = .ok s3 := by
    intro cur1 new1 d1 d2 si a hc1 hn1 e1 e2 hay hax hle
    obtain ⟨r, hw⟩ := walkBoth_total env s a (si + 1) cur1 new1 ((pathList s d2 c).map env.hash) 0 x y (by omega) hay hax hpe
    obtain ⟨cur2, new2, acc2, steps⟩ := r
    obtain ⟨c', _, _, h1, _⟩ := rcTail_core hU hi sc hc1 hn1 e1 e2 hw
    exact ⟨_, h1⟩
  unfold restrictChain
  by_cases hgt : s.head.number > c.number
  · obtain ⟨cur1, hc1, hrest⟩ := up_prefix s hy (s.head.number - c.number) (by omega)
    obtain ⟨f1, _⟩ := up_facts hU hi _ hi.head hc1
    have e : m - (s.head.number - c.number) = n := by omega
    rw [e] at hrest
    obtain ⟨s3, h3⟩ := fin hc1 (d2 := 0) (new1 := c) rfl (si := c.number) (by omega) rfl hrest hx (by omega)
    exact ⟨s3, by simp only [hgt, ↓reduceIte, hc1, Nat.sub_self, walkNew]; exact h3⟩
  · obtain ⟨new1, hn1, hrest⟩ := up_prefix s hx (c.number - s.head.number) (by omega)
    obtain ⟨f1, _⟩ := up_facts hU hi _ sc hn1
    have e : n - (c.number - s.head.number) = m := by omega
    rw [e] at hrest
    obtain ⟨s3, h3⟩ := fin (d1 := 0) (cur1 := s.head) rfl hn1 (si := s.head.number) rfl (by omega) hy hrest (by omega)
    exact ⟨s3, by simp only [hgt, ↓reduceIte, walkNew_spec s _ c [] new1 hn1, List.nil_append]; exact h3⟩

/-! ### one update -/

/-- a header that passes the parent lookup is none of the pruned ones -/
theorem alive (hU : UOkP env U) {s : State} {P : Nat} {dl : List Header} (hi : InvP env U g0 s P dl) {c p : Header} (uc : U c)
    (hp : parentOf s c = some p) :
    g0 ≤ c.number ∧ (∀ d ∈ dl, hkey env c ≠ hkey env d) ∧ (∀ b, walkCur s (s.head.number - P) s.head = some b → hkey env c ≠ hkey env b) := by
  obtain ⟨e1, _, sp⟩ := parent_facts hU.base hi.core.key uc hp
  have hinj : ∀ d, U d → hkey env c = hkey env d → c = d := by
    intro d ud e
    simp only [hkey, Prod.mk.injEq] at e
    exact hU.base.inj _ _ uc ud e.1
  refine ⟨by have := hi.lower _ _ sp; omega, ?_, ?_⟩
  · intro d hd e
    obtain ⟨ud, _, hc⟩ := hi.dead d hd
    have := hinj d ud e
    subst this
    rw [no_parent hU hi uc hc] at hp; cases hp
  · intro b hb e
    obtain ⟨b', hb', _, sb, hbn, _⟩ := bottom_facts hU hi
    rw [hb] at hb'; cases hb'
    have := hinj b (stored_U hi.core sb) e
    subst this
    rw [hbn] at hp; cases hp

/-- index writes + bifurcation check + `RestrictChain` + keeper writes on a pruned store `s1` -/
theorem finish_invP (hU : UOkP env U) {s1 : State} {P1 : Nat} {dl1 : List Header} (hi1 : InvP env U g0 s1 P1 dl1) {c : Header}
    (uc : U c) (hlow : g0 ≤ c.number) (hnd : ∀ d ∈ dl1, hkey env c ≠ hkey env d) {headHash : Hash} (hh : headHash = env.hash s1.head)
    (hext : headHash = c.parentHash → c.number = s1.head.number + 1) {s3 : State}
    (h3 : (if headHash ≠ c.parentHash then restrictChain .fixed env (store env s1 c) c else .ok (store env s1 c)) = .ok s3) :
    InvP env U g0 { s3 with head := c, cons := aset s3.cons c.number { time := c.time, root := c.root } } P1 dl1 := by
  obtain ⟨hi2, sc2⟩ := store_invP hU hi1 uc hlow hnd
  obtain ⟨b1, hb1, eb1, sb1, hb1n, hb1c⟩ := bottom_facts hU hi2
  have hhd : (store env s1 c).head = s1.head := rfl
  have hle2 := hi2.le
  have key : ∃ cons', s3 = { store env s1 c with cons := cons' } ∧
      (∀ n a, 1 ≤ n → walkCur (store env s1 c) n c = some a → aget cons' a.number = some (consOf a)) ∧
      (∀ k v, aget cons' k = some v → P1 ≤ k) ∧ P1 ≤ c.number ∧
      (∃ b', walkCur (store env s1 c) (c.number - P1) c = some b' ∧ (pkey b' ∈ dl1.map (hkey env) ∨ b'.number = g0)) := by
    by_cases hb : headHash = c.parentHash
    · -- extension of the head
      simp only [hb, ne_eq, not_true_eq_false, ↓reduceIte, Outcome.ok.injEq] at h3
      subst h3
      have en := hext hb
      have hpc : parentOf (store env s1 c) c = some s1.head := by
        unfold parentOf
        have e : (c.parentHash, pred64 c.number) = hkey env s1.head := by
          have h1 := hU.base.wf _ uc
          simp only [hkey, Prod.mk.injEq, ← hb, hh, true_and]
          simp only [pred64, two64, two63] at *
          omega
        rw [e]; exact hi2.core.head
      refine ⟨_, rfl, ?_, hi2.consLo, by rw [hhd] at hle2; omega, ?_⟩
      · intro n a hn ha
        obtain ⟨i, rfl⟩ : ∃ i, n = i + 1 := ⟨n - 1, by omega⟩
        rw [up_succ, hpc] at ha
        exact hi2.core.roots i a ha
      · refine ⟨b1, ?_, hb1c⟩
        rw [hhd] at hb1 hle2
        have e : c.number - P1 = (s1.head.number - P1) + 1 := by omega
        rw [e, Nat.add_comm, up_add _ 1, up_succ, hpc]
        simpa [walkCur] using hb1
    · simp only [hb, ne_eq, not_false_eq_true, ↓reduceIte] at h3
      obtain ⟨c', D, E, new2, cur2, rfl, hD, hE, hpe, hnum, h2, hdom⟩ := restrictChain_sound hU.base hi2.core sc2 h3
      obtain ⟨fE, _⟩ := up_facts hU.base hi2.core E hi2.core.head hE
      obtain ⟨fD, _⟩ := up_facts hU.base hi2.core D sc2 hD
      have hEle := main_ge hU hi2 hE
      refine ⟨c', rfl, h2, ?_, by omega, ?_⟩
      · intro k v hk
        rcases hdom k v hk with h | h
        · cases hv : aget (store env s1 c).cons k with
          | none => simp [hv] at h
          | some v' => exact hi2.consLo k v' hv
        · omega
      · by_cases hF : new2.number = P1
        · -- the new branch meets the head's ancestry at the prune line: its header there is the new bottom
          have hcb : cur2 = b1 := by
            have : E = (store env s1 c).head.number - P1 := by omega
            rw [this, hb1] at hE; cases hE; rfl
          refine ⟨new2, by rw [show c.number - P1 = D by omega]; exact hD, ?_⟩
          have hpk : pkey new2 = pkey b1 := by rw [← hcb]; simp [pkey, hpe, hnum]
          rw [hpk, ← hnum, hcb]; exact hb1c
        · obtain ⟨i, hi'⟩ : ∃ i, new2.number = P1 + (i + 1) := ⟨new2.number - P1 - 1, by omega⟩
          refine ⟨b1, ?_, hb1c⟩
          rw [show c.number - P1 = D + (i + 1) by omega, up_add, hD]
          simp only [Option.bind_some]
          rw [← up_congr _ hpe hnum i]
          have : (store env s1 c).head.number - P1 = E + (i + 1) := by omega
          rw [this, up_add, hE] at hb1
          simpa using hb1
  obtain ⟨c', rfl, h2, hdom, hPT, b', hb', hb'c⟩ := key
  have hwalk : ∀ (n : Nat) (x : Header), walkCur ({ store env s1 c with cons := aset c' c.number { time := c.time, root := c.root }, head := c } : State) n x
      = walkCur (store env s1 c) n x := by
    intro n x
    refine walkCur_hdr ?_ n x
    rfl
  refine ⟨⟨hi2.core.key, sc2, ?_⟩, hi2.lower, hPT, hi2.dead, ⟨b', ?_, hb'c⟩, ?_, hi2.rm⟩
  · intro n a ha
    have ha' : walkCur (store env s1 c) n c = some a := by rw [← hwalk]; exact ha
    obtain ⟨e3, _⟩ := up_facts hU.base hi2.core n sc2 ha'
    show aget (aset c' c.number _) a.number = _
    by_cases hn : n = 0
    · subst hn
      simp [walkCur] at ha'
      subst ha'
      simp [aget_aset_self, consOf]
    · rw [aget_aset_ne _ _ (by omega)]
      exact h2 n a (by omega) ha'
  · show walkCur _ (c.number - P1) c = some b'
    rw [hwalk]; exact hb'
  · intro k v hk
    have hk' : aget (aset c' c.number { time := c.time, root := c.root }) k = some v := hk
    rw [aget_aset] at hk'
    by_cases e : k = c.number
    · omega
    · simp only [e, ↓reduceIte] at hk'; exact hdom k v hk'

/-- every accepted update of the repaired client — prune pass included, whatever it is — re-establishes the invariant -/
theorem stepP (hU : UOkP env U) {s s' : State} {P : Nat} {dl : List Header} (hi : InvP env U g0 s P dl) {now : Nat} {c : Header}
    (uc : U c) (h : updateClient .fixed env now s c = .ok s') :
    ∃ P' dl', InvP env U g0 s' P' dl' ∧ P ≤ P' ∧ s'.head = c := by
  unfold updateClient at h
  by_cases ha : (!active s now) = true
  · simp only [ha, ↓reduceIte] at h; cases h
  · simp only [ha, Bool.false_eq_true, ↓reduceIte] at h
    have hact : active s now = true := by simpa using ha
    cases hcv : checkValidity env s now c with
    | err e => simp only [hcv] at h; cases h
    | panic e => simp only [hcv] at h; cases h
    | ok =>
      simp only [hcv] at h
      obtain ⟨p, hp, hph, _⟩ := checkValidity_ok hcv
      obtain ⟨en, _, sp⟩ := parent_facts hU.base hi.core.key uc hp
      obtain ⟨hlow, hnd, hnb⟩ := alive hU hi uc hp
      obtain ⟨s1, P1, dl1, hpr, hi1, hPP, hhead, _, _, _, hdl⟩ := prune_inv hU hi hact
      simp only [hpr] at h
      have hnd1 : ∀ d ∈ dl1, hkey env c ≠ hkey env d := by
        intro d hd
        rcases hdl d hd with h1 | h1
        · exact hnd d h1
        · exact hnb d h1
      have hext : env.hash s.head = c.parentHash → c.number = s1.head.number + 1 := by
        intro e
        have : s.head = p := hU.base.inj _ _ (stored_U hi.core hi.core.head) (stored_U hi.core sp) (e.trans hph.symm)
        rw [hhead, this]; omega
      cases h3 : (if env.hash s.head ≠ c.parentHash then restrictChain .fixed env (store env s1 c) c else Outcome.ok (store env s1 c)) with
      | err e => simp only [h3] at h; cases h
      | panic e => simp only [h3] at h; cases h
      | ok s3 =>
        simp only [h3] at h
        cases h
        exact ⟨P1, dl1, finish_invP hU hi1 uc hlow hnd1 (by rw [hhead]) hext h3, hPP, rfl⟩

/-- **never_wedged_partial** — what is guaranteed across pruning: whatever has been pruned, a rule-abiding child `c` of a
    stored header is accepted by the active client if it extends the head, or if (after this update's prune pass) its
    stored ancestry meets the head's stored ancestry (`LiveC`: the branch forks at or above the prune line). -/
theorem never_wedged_partial (hU : UOkP env U) {s : State} {P : Nat} {dl : List Header} (hi : InvP env U g0 s P dl) {now : Nat}
    {p c : Header} (uc : U c) (sp : Stored env s p) (hv : ValidChild env s.chainId now p c)
    (hact : active s now = true)
    (hl : ∀ s1, pruneStep s now = .ok s1 → env.hash s.head = c.parentHash ∨ LiveC (store env s1 c) c) :
    ∃ s', updateClient .fixed env now s c = .ok s' ∧ s'.head = c := by
  have hpo : parentOf s c = some p := by
    unfold parentOf
    have : (c.parentHash, pred64 c.number) = hkey env p := by
      have h1 := hU.base.wf _ uc
      have := hv.number
      simp only [hkey, Prod.mk.injEq, ← hv.hash, true_and]
      simp only [pred64, two64, two63] at *
      omega
    rw [this]; exact sp
  obtain ⟨hlow, hnd, hnb⟩ := alive hU hi uc hpo
  obtain ⟨s1, P1, dl1, hpr, hi1, _, hhead, _, _, _, hdl⟩ := prune_inv hU hi hact
  have hnd1 : ∀ d ∈ dl1, hkey env c ≠ hkey env d := by
    intro d hd
    rcases hdl d hd with h1 | h1
    · exact hnd d h1
    · exact hnb d h1
  obtain ⟨hi2, sc2⟩ := store_invP hU hi1 uc hlow hnd1
  have h3 : ∃ s3, (if env.hash s.head ≠ c.parentHash then restrictChain .fixed env (store env s1 c) c else Outcome.ok (store env s1 c)) = .ok s3 := by
    by_cases hb : env.hash s.head = c.parentHash
    · exact ⟨store env s1 c, by simp [hb]⟩
    · rcases hl s1 hpr with h | h
      · exact absurd h hb
      · obtain ⟨s3, h3⟩ := restrictChain_total hU.base hi2.core sc2 h
        exact ⟨s3, by simp [hb, h3]⟩
  obtain ⟨s3, h3⟩ := h3
  refine ⟨{ s3 with head := c, cons := aset s3.cons c.number { time := c.time, root := c.root } }, ?_, rfl⟩
  unfold updateClient
  simp only [hact, Bool.not_true, checkValidity_complete hpo hv, hpr]
  simp only [Bool.false_eq_true, ↓reduceIte, h3]

/-- the condition is also necessary: an update accepted through `RestrictChain` had `LiveC` -/
theorem live_necessary (hU : UOkP env U) {s1 s3 : State} {P : Nat} {dl : List Header} (hi1 : InvP env U g0 s1 P dl) {c : Header}
    (uc : U c) (hlow : g0 ≤ c.number) (hnd : ∀ d ∈ dl, hkey env c ≠ hkey env d)
    (h3 : restrictChain .fixed env (store env s1 c) c = .ok s3) : LiveC (store env s1 c) c := by
  obtain ⟨hi2, sc2⟩ := store_invP hU hi1 uc hlow hnd
  obtain ⟨_, D, E, new2, cur2, _, hD, hE, hpe, hnum, _, _⟩ := restrictChain_sound hU.base hi2.core sc2 h3
  exact ⟨D, E, new2, cur2, hD, hE, hnum.symm, hpe⟩

/-- a child of any header on the head's stored ancestry (after this update's prune pass) is live -/
theorem live_of_main (hU : UOkP env U) {s1 : State} {P : Nat} {dl : List Header} (hi1 : InvP env U g0 s1 P dl) {c y : Header}
    (uc : U c) (hlow : g0 ≤ c.number) (hnd : ∀ d ∈ dl, hkey env c ≠ hkey env d) {m : Nat}
    (hy : walkCur s1 m s1.head = some y) (eh : env.hash y = c.parentHash) (en : y.number + 1 = c.number) :
    LiveC (store env s1 c) c := by
  obtain ⟨hi2, sc2⟩ := store_invP hU hi1 uc hlow hnd
  obtain ⟨_, sy⟩ := up_facts hU.base hi1.core m hi1.core.head hy
  have hmono : ∀ (n : Nat) (x a : Header), walkCur s1 n x = some a → walkCur (store env s1 c) n x = some a := by
    intro n
    induction n with
    | zero => intro x a h; exact h
    | succ n ih =>
      intro x a h
      rw [up_succ] at h ⊢
      cases hp : parentOf s1 x with
      | none => simp [hp] at h
      | some q =>
        simp [hp] at h
        have : parentOf (store env s1 c) x = some q := by
          unfold parentOf at hp ⊢
          rw [store_hdr]
          by_cases e : (x.parentHash, pred64 x.number) = hkey env c
          · obtain ⟨e2, uq⟩ := hi1.core.key _ _ hp
            have : env.hash q = env.hash c := by
              have := e2.symm.trans e
              simp only [hkey, Prod.mk.injEq] at this
              exact this.1
            rw [hU.base.inj _ _ uq uc this]; simp [e]
          · simp [e, hp]
        rw [this]; simpa using ih q a h
  have hpc : parentOf (store env s1 c) c = some y := by
    unfold parentOf
    have e : (c.parentHash, pred64 c.number) = hkey env y := by
      have h1 := hU.base.wf _ uc
      simp only [hkey, Prod.mk.injEq, ← eh, true_and]
      simp only [pred64, two64, two63] at *
      omega
    rw [e]
    have := hmono 0 y y rfl
    exact (by
      have sy2 : aget (store env s1 c).hdr (hkey env y) = some y := by
        rw [store_hdr]
        by_cases e3 : hkey env y = hkey env c
        · have : y = c := by
            simp only [hkey, Prod.mk.injEq] at e3
            exact hU.base.inj _ _ (stored_U hi1.core sy) uc e3.1
          rw [this] at en
          omega
        · simp [e3]; exact sy
      exact sy2)
  refine ⟨1, m, y, y, ?_, hmono m _ _ hy, rfl, rfl⟩
  rw [up_succ, hpc]; rfl

/-! ### all histories -/

/-- states of the repaired client reachable from its creation by ANY sequence of accepted updates (pruning included) -/
inductive ReachP (env : Env) (U : Header → Prop) (g : Header) (chainId trusting : Nat) : State → Prop
  | init : ReachP env U g chainId trusting (initState env chainId trusting g)
  | step {s s' : State} {now : Nat} {c : Header} : ReachP env U g chainId trusting s → U c →
      updateClient .fixed env now s c = .ok s' → ReachP env U g chainId trusting s'

theorem init_invP (hU : UOkP env U) {g : Header} (ug : U g) (chainId trusting : Nat) :
    InvP env U g.number (initState env chainId trusting g) g.number [] := by
  have hc := (init_inv hU.base ug chainId trusting).core
  refine ⟨hc, ?_, Nat.le_refl _, ?_, ⟨g, ?_, Or.inr rfl⟩, ?_, ?_⟩
  · intro k h hk
    simp only [initState, aget] at hk
    split at hk
    · cases hk; exact Nat.le_refl _
    · cases hk
  · intro d hd; cases hd
  · show walkCur _ (g.number - g.number) g = some g
    simp [walkCur]
  · intro k v hk
    simp only [initState, aget] at hk
    split at hk
    · rename_i e; omega
    · cases hk
  · intro k h hk _
    simp only [initState, aget] at hk
    split at hk
    · cases hk; simp [initState, aget]
    · cases hk

theorem reachP_inv (hU : UOkP env U) {g : Header} (ug : U g) {chainId trusting : Nat} {s : State}
    (hr : ReachP env U g chainId trusting s) : ∃ P dl, InvP env U g.number s P dl := by
  induction hr with
  | init => exact ⟨_, _, init_invP hU ug chainId trusting⟩
  | step _ uc hs ih =>
    obtain ⟨P, dl, hi⟩ := ih
    obtain ⟨P', dl', hi', _, _⟩ := stepP hU hi uc hs
    exact ⟨P', dl', hi'⟩

/-- **never_wedged across pruning** over all histories (statement of `never_wedged_partial` on reachable states) -/
theorem never_wedged_pruned (hU : UOkP env U) {g : Header} (ug : U g) {chainId trusting : Nat} {s : State}
    (hr : ReachP env U g chainId trusting s) {now : Nat} {p c : Header} (uc : U c) (sp : Stored env s p)
    (hv : ValidChild env s.chainId now p c) (hact : active s now = true)
    (hl : ∀ s1, pruneStep s now = .ok s1 → env.hash s.head = c.parentHash ∨ LiveC (store env s1 c) c) :
    ∃ s', updateClient .fixed env now s c = .ok s' ∧ s'.head = c := by
  obtain ⟨P, dl, hi⟩ := reachP_inv hU ug hr
  exact never_wedged_partial hU hi uc sp hv hact hl

/-- the prune pass itself never wedges the client -/
theorem prune_total (hU : UOkP env U) {g : Header} (ug : U g) {chainId trusting : Nat} {s : State}
    (hr : ReachP env U g chainId trusting s) {now : Nat} (hact : active s now = true) : ∃ s1, pruneStep s now = .ok s1 := by
  obtain ⟨P, dl, hi⟩ := reachP_inv hU ug hr
  obtain ⟨s1, _, _, h, _⟩ := prune_inv hU hi hact
  exact ⟨s1, h⟩

/-- **ancestry_roots across pruning**: in every reachable state every consensus state kept for a height up to the head's
    is the (time, state root) of the head's ancestor at that height, which is still in the index. -/
theorem ancestry_roots_pruned (hU : UOkP env U) {g : Header} (ug : U g) {chainId trusting : Nat} {s : State}
    (hr : ReachP env U g chainId trusting s) (k : Nat) (v : Cons) (hk : aget s.cons k = some v) (hle : k ≤ s.head.number) :
    ∃ a, walkCur s (s.head.number - k) s.head = some a ∧ a.number = k ∧ v = { time := a.time, root := a.root } := by
  obtain ⟨P, dl, hi⟩ := reachP_inv hU ug hr
  have hP := hi.consLo k v hk
  obtain ⟨b, hb, _⟩ := bottom_facts hU hi
  obtain ⟨a, ha, _⟩ := up_prefix s hb (s.head.number - k) (by omega)
  obtain ⟨e, _⟩ := up_facts hU.base hi.core _ hi.core.head ha
  have e2 : a.number = k := by omega
  have := hi.core.roots _ a ha
  rw [e2, hk] at this
  exact ⟨a, ha, e2, by cases this; rfl⟩

end

/-! ### several clients, restarts, discarded executions -/

theorem World.get_set_same (w : World) (i : Bool) (s : State) : (w.set i s).get i = some s := by
  cases i <;> simp [World.get, World.set]

theorem World.get_set_other (w : World) (i : Bool) (s : State) : (w.set i s).get (!i) = w.get (!i) := by
  cases i <;> simp [World.get, World.set]

/-- the stateless stage adds nothing: `MsgUpdateClient.ValidateBasic ; UpdateClient` accepts exactly what `UpdateClient`
    accepts (`checkValidity` runs the same `ValidateBasic` first) -/
theorem msgUpdate_ok_iff {v : Variant} {env : Env} {now : Nat} {s s' : State} {h : Header} :
    msgUpdate v env now s h = .ok s' ↔ updateClient v env now s h = .ok s' := by
  unfold msgUpdate
  by_cases hb : validateBasic h = true
  · simp [hb]
  · have hf : validateBasic h = false := by simpa using hb
    simp only [hf, Bool.not_false, ↓reduceIte]
    constructor
    · intro h1; cases h1
    · intro h1
      exfalso
      unfold updateClient at h1
      split at h1
      · cases h1
      · have : checkValidity env s now h = .err "basic" := by simp [checkValidity, hf]
        rw [this] at h1
        cases h1

/-- **difficulty_factor_bounds**: the adjustment factor lies in [−99, 2] (for a child not older than its parent), and
    it IS −99 as soon as the child is ≥ 909 s after its parent, whether or not the parent has uncles (without uncles
    already from 900 s on): the uncle term sits inside the maximum -/
theorem difficulty_factor_bounds (time : Nat) (p : Header) :
    -99 ≤ diffFactor time p ∧ (p.time ≤ time → diffFactor time p ≤ 2) ∧
    (p.time + 909 ≤ time → diffFactor time p = -99) ∧ (p.uncleEmpty = true → p.time + 900 ≤ time → diffFactor time p = -99) := by
  unfold diffFactor
  refine ⟨?_, ?_, ?_, ?_⟩
  · dsimp only; split <;> omega
  · intro h
    have h0 : (0 : Int) ≤ ((time : Int) - (p.time : Int)) / 9 := Int.ediv_nonneg (by omega) (by omega)
    dsimp only
    cases p.uncleEmpty <;> simp <;> split <;> omega
  · intro h
    have h0 : (101 : Int) ≤ ((time : Int) - (p.time : Int)) / 9 := by omega
    dsimp only
    cases p.uncleEmpty <;> simp <;> omega
  · intro hu h
    have h0 : (100 : Int) ≤ ((time : Int) - (p.time : Int)) / 9 := by omega
    dsimp only
    simp [hu]; omega

/-- the future-block rule as the code computes it: `header.Time > uint64(ctx.BlockTime().Add(15 s).Unix())` on uint64 -/
def codeFuture (t now : Nat) : Bool := decide (t % two64 > (now + 15) % two64)

/-- **timestamp_rule_uint64_faithful**: for every header time below 2^64 and every block time whose Unix seconds `now` satisfy
    `0 ≤ now` and `now + 15 < 2^63` (so that `Unix()` of block time + 15 s is a non-negative int64 and `uint64(·)` keeps its value) the
    code's uint64 comparison is the model's comparison on naturals.  A NEGATIVE Unix block time (before 1970) is outside this range:
    there `uint64(Unix())` is huge and the unchanged code lets every header pass the future check. -/
theorem timestamp_rule_uint64_faithful (t now : Nat) (ht : t < two64) (hn : now + 15 < two63) :
    codeFuture t now = decide (t > now + 15) := by
  unfold codeFuture
  have h1 : t % two64 = t := Nat.mod_eq_of_lt ht
  have h2 : (now + 15) % two64 = now + 15 := Nat.mod_eq_of_lt (by simp only [two63, two64] at *; omega)
  rw [h1, h2]

/-- the rewrite through `int64(header.Time)` is NOT faithful: at 2^63 it sees a time far in the past -/
theorem int64_cast_unfaithful : wrapI64 ((two63 : Nat) : Int) < 0 ∧ decide ((two63 : Nat) > 1700000020 + 15) = true := by
  constructor <;> decide

/-- `beNat []  = 0`: an absent (empty) base fee / difficulty IS the value 0 -/
theorem beNat_nil : beNat [] = 0 := rfl

/-- leading zero bytes do not change the value -/
theorem beNat_zero_cons (b : Bytes) : beNat (0 :: b) = beNat b := by
  simp [beNat, List.foldl]

/-- what an update of client `i` is: `updateClient` on that client's state -/
theorem World.update_ok {v : Variant} {env : Env} {now : Nat} {w w' : World} {i : Bool} {h : Header}
    (hu : World.update v env now w i h = .ok w') :
    ∃ s s', w.get i = some s ∧ updateClient v env now s h = .ok s' ∧ w' = w.set i s' := by
  unfold World.update at hu
  cases hg : w.get i with
  | none => simp [hg] at hu
  | some s =>
    simp only [hg] at hu
    cases hc : msgUpdate v env now s h with
    | err e => simp [hc] at hu
    | panic e => simp [hc] at hu
    | ok s' => simp only [hc, Outcome.ok.injEq] at hu; exact ⟨s, s', rfl, msgUpdate_ok_iff.mp hc, hu.symm⟩

/-- **frame**: an update of one client leaves the other client's store exactly as it was (verdicts on one client are
    independent of the other's history) -/
theorem frame {v : Variant} {env : Env} {now : Nat} {w w' : World} {i : Bool} {h : Header}
    (hu : World.update v env now w i h = .ok w') : w'.get (!i) = w.get (!i) := by
  obtain ⟨s, s', _, _, rfl⟩ := World.update_ok hu
  exact World.get_set_other w i s'

/-- **restart_identity**: export → import of the client module is the identity on everything the property talks about -/
theorem restart_identity (w : World) : w.restart = w := rfl

/-- an update executed on a dropped context changes nothing -/
theorem discarded_identity (v : Variant) (env : Env) (now : Nat) (w : World) (i : Bool) (h : Header) :
    World.discarded v env now w i h = w := by
  unfold World.discarded; split; rfl

/-- worlds reachable by creating the two clients, updating either of them, restarting the chain and running discarded
    updates, in any interleaving -/
inductive WReach (env : Env) (U : Header → Prop) : World → Prop
  | empty : WReach env U { a := none, b := none }
  | create {w : World} (i : Bool) (g : Header) (chainId trusting : Nat) : WReach env U w → U g →
      WReach env U (w.set i (initState env chainId trusting g))
  | update {w w' : World} {now : Nat} {i : Bool} {c : Header} : WReach env U w → U c →
      World.update .fixed env now w i c = .ok w' → WReach env U w'
  | restart {w : World} : WReach env U w → WReach env U w.restart
  | discarded {w : World} (now : Nat) (i : Bool) (c : Header) : WReach env U w → WReach env U (World.discarded .fixed env now w i c)

/-- every client of a reachable world is in a state reachable by accepted updates of that client alone: all the
    per-client theorems (`accept_sound_reach`, `never_wedged_pruned`, `ancestry_roots_pruned`, `prune_total`) hold in
    histories with a second client, restarts and discarded executions -/
theorem wreach_client {env : Env} {U : Header → Prop} {w : World} (hw : WReach env U w) :
    ∀ i s, w.get i = some s → ∃ g chainId trusting, U g ∧ ReachP env U g chainId trusting s := by
  induction hw with
  | empty => intro i s h; cases i <;> simp [World.get] at h
  | @create w i g chainId trusting _ ug ih =>
    intro j s h
    by_cases e : j = i
    · subst e
      rw [World.get_set_same] at h; cases h
      exact ⟨g, chainId, trusting, ug, ReachP.init⟩
    · have : j = !i := by cases i <;> cases j <;> simp_all
      subst this
      rw [World.get_set_other] at h
      exact ih _ _ h
  | @update w w' now i c _ uc hu ih =>
    intro j s h
    obtain ⟨s0, s1, h0, h1, rfl⟩ := World.update_ok hu
    by_cases e : j = i
    · subst e
      rw [World.get_set_same] at h; cases h
      obtain ⟨g, chainId, trusting, ug, hr⟩ := ih _ _ h0
      exact ⟨g, chainId, trusting, ug, ReachP.step hr uc h1⟩
    · have : j = !i := by cases i <;> cases j <;> simp_all
      subst this
      rw [World.get_set_other] at h
      exact ih _ _ h
  | restart _ ih => intro i s h; exact ih i s h
  | discarded now i c _ ih => intro j s h; rw [discarded_identity] at h; exact ih j s h

/-! ### create / upgrade / toggle proposals: the index invariant of the prune proof, whatever the redundant fields say -/

/-- the redundant `ConsensusState.Height` of the proposal plays no role -/
theorem upgradeState_height_irrelevant (env : Env) (s : State) (ci tr : Nat) (h : Header) (ch ch' : Option (Nat × Nat)) :
    upgradeState env s ci tr h ch = upgradeState env s ci tr h ch' := rfl

/-- **upgrade_index_consistent**: after an upgrade the two index facts the prune theorem relies on (`Core.key`: header-index
    keys are (hash, HEADER height); `InvP.rm`: the root-main entry of every header at or above the prune line is keyed by the
    header's own (root, height) and points at it) still hold, the new head is indexed under its own height and carries its own
    consensus state — whatever `Height` the proposal's consensus state had -/
theorem upgrade_index_consistent {env : Env} {U : Header → Prop} (hU : UOkP env U) {s : State} {P : Nat}
    (hk : ∀ k h', aget s.hdr k = some h' → k = hkey env h' ∧ U h')
    (hrm : ∀ k h', aget s.hdr k = some h' → P ≤ h'.number → aget s.rootMain (h'.root, h'.number) = some (hkey env h'))
    {h : Header} (uh : U h) (ci tr : Nat) (ch : Option (Nat × Nat)) :
    (∀ k h', aget (upgradeState env s ci tr h ch).hdr k = some h' → k = hkey env h' ∧ U h') ∧
    (∀ k h', aget (upgradeState env s ci tr h ch).hdr k = some h' → P ≤ h'.number →
        aget (upgradeState env s ci tr h ch).rootMain (h'.root, h'.number) = some (hkey env h')) ∧
    aget (upgradeState env s ci tr h ch).hdr (hkey env h) = some h ∧
    aget (upgradeState env s ci tr h ch).rootMain (h.root, h.number) = some (hkey env h) ∧
    aget (upgradeState env s ci tr h ch).cons h.number = some (consOf h) ∧ (upgradeState env s ci tr h ch).head = h := by
  have hh : ∀ k, aget (upgradeState env s ci tr h ch).hdr k = if k = hkey env h then some h else aget s.hdr k := fun k => store_hdr s h k
  have hr : ∀ k, aget (upgradeState env s ci tr h ch).rootMain k = if k = (h.root, h.number) then some (hkey env h) else aget s.rootMain k := by
    intro k; show aget (aset s.rootMain (h.root, h.number) (hkey env h)) k = _; exact aget_aset _ _ _ _
  have hkey2 : ∀ k h', aget (upgradeState env s ci tr h ch).hdr k = some h' → k = hkey env h' ∧ U h' := by
    intro k h' hg
    rw [hh] at hg
    by_cases e : k = hkey env h
    · simp [e] at hg; subst hg; exact ⟨e, uh⟩
    · simp [e] at hg; exact hk _ _ hg
  refine ⟨hkey2, ?_, by rw [hh]; simp, by rw [hr]; simp, ?_, rfl⟩
  · intro k h' hg hP
    rw [hr]
    by_cases e : (h'.root, h'.number) = (h.root, h.number)
    · simp only [Prod.mk.injEq] at e
      have : h' = h := hU.rootSep _ _ (hkey2 k h' hg).2 uh e.2 e.1
      simp [this]
    · simp only [e, ↓reduceIte]
      rw [hh] at hg
      by_cases e2 : k = hkey env h
      · simp [e2] at hg; subst hg; simp at e
      · simp [e2] at hg; exact hrm k h' hg hP
  · show aget (aset _ h.number _) h.number = _
    simp [aget_aset_self, consOf]

/-- creation and toggle (store cleared, then `Initialize` + keeper writes) establish the full invariant of the prune proof -/
theorem create_invP {env : Env} {U : Header → Prop} (hU : UOkP env U) {g : Header} (ug : U g) {ci tr : Nat} {s : State}
    (h : createClient env ci tr g = .ok s) : InvP env U g.number s g.number [] := by
  unfold createClient at h
  split at h
  · cases h
  · split at h
    · cases h
    · cases h; exact init_invP hU ug ci tr

theorem toggle_invP {env : Env} {U : Header → Prop} (hU : UOkP env U) {g : Header} (ug : U g) {other : Bool} {ci tr : Nat}
    {ch : Option (Nat × Nat)} {s : State} (h : toggleClient env other ci tr g ch = .ok s) : InvP env U g.number s g.number [] := by
  unfold toggleClient at h
  split at h
  · cases h
  · exact create_invP hU ug h

/-! ### concrete witness: a fork below the prune line is rejected although its parent is still in the index -/

set_option maxRecDepth 100000

def pB1 := wChild wG 202 602 12     -- side branch, never pruned
def pA1 := wChild wG 201 601 10
def pA2 := wChild pA1 203 603 10
def pA3 := wChild pA2 204 604 10
def pA4 := wChild pA3 205 605 10
def pB2 := wChild pB1 206 606 40    -- rule-abiding child of the stored pB1: fork point G, below the prune line
def pC3 := wChild pA2 207 607 25    -- rule-abiding child of pA2: fork at the prune line

def wrunT (v : Variant) (s : State) : List (Header × Nat) → Option State
  | [] => some s
  | (h, now) :: hs => match updateClient v wenv now s h with
    | .ok s' => wrunT v s' hs
    | _ => none

/-- trusting period 50 s; header times 1000, 1010, … -/
def pInit : State := initState wenv 4 50 wG
def pHist : List (Header × Nat) := [(pB1, 1015), (pA1, 1015), (pA2, 1025), (pA3, 1035), (pA4, 1055)]

/-- known finding `C10:valid-child-rejected:fork-below-prune-line` on the repaired client: after G←B1, G←A1←A2←A3←A4
    (G pruned at the last update) the update with B2 at time 1065 prunes A1 and then cannot walk the head's branch down to
    the fork point G: the rule-abiding child B2 of the STILL STORED header B1 is rejected by the active client … -/
theorem below_line_rejected : ∃ s, wrunT .fixed pInit pHist = some s ∧ Stored wenv s pB1 ∧ active s 1065 = true ∧
    checkValidity wenv s 1065 pB2 = .ok ∧ updateClient .fixed wenv 1065 s pB2 = .err "rc-cur-parent" := by
  refine ⟨_, rfl, ?_, ?_, ?_, ?_⟩ <;> decide

/-- … while a child forking at the prune line is accepted in the same state (the prune pass of that update included). -/
theorem at_line_accepted : ∃ s s', wrunT .fixed pInit pHist = some s ∧ updateClient .fixed wenv 1065 s pC3 = .ok s' ∧
    s'.head = pC3 ∧ minKey s.cons = some 11 ∧ minKey s'.cons = some 12 := by
  refine ⟨_, _, rfl, rfl, ?_, ?_, ?_⟩ <;> decide

def pU (h : Header) : Prop := h ∈ [wG, pB1, pA1, pA2, pA3, pA4, pB2, pC3]
instance : DecidablePred pU := fun h => by unfold pU; infer_instance

theorem pU_ok : UOkP wenv pU := by
  refine ⟨⟨?_, ?_⟩, ?_⟩
  · have : ∀ a ∈ [wG, pB1, pA1, pA2, pA3, pA4, pB2, pC3], ∀ b ∈ [wG, pB1, pA1, pA2, pA3, pA4, pB2, pC3], wenv.hash a = wenv.hash b → a = b := by decide
    exact fun a b ha hb => this a ha b hb
  · have : ∀ a ∈ [wG, pB1, pA1, pA2, pA3, pA4, pB2, pC3], a.number < two63 := by decide
    exact fun a ha => this a ha
  · have : ∀ a ∈ [wG, pB1, pA1, pA2, pA3, pA4, pB2, pC3], ∀ b ∈ [wG, pB1, pA1, pA2, pA3, pA4, pB2, pC3], a.number = b.number → a.root = b.root → a = b := by decide
    exact fun a b ha hb => this a ha b hb

/-- the witness state is reachable (hypotheses of the theorems above are satisfiable on a history with pruning) -/
theorem pReach : ∃ s, wrunT .fixed pInit pHist = some s ∧ ReachP wenv pU wG 4 50 s := by
  have r0 : ReachP wenv pU wG 4 50 pInit := ReachP.init
  have r1 := ReachP.step (now := 1015) (c := pB1) (s' := (wrunT .fixed pInit (pHist.take 1)).get (by decide)) r0 (by decide) (by decide)
  have r2 := ReachP.step (now := 1015) (c := pA1) (s' := (wrunT .fixed pInit (pHist.take 2)).get (by decide)) r1 (by decide) (by decide)
  have r3 := ReachP.step (now := 1025) (c := pA2) (s' := (wrunT .fixed pInit (pHist.take 3)).get (by decide)) r2 (by decide) (by decide)
  have r4 := ReachP.step (now := 1035) (c := pA3) (s' := (wrunT .fixed pInit (pHist.take 4)).get (by decide)) r3 (by decide) (by decide)
  have r5 := ReachP.step (now := 1055) (c := pA4) (s' := (wrunT .fixed pInit pHist).get (by decide)) r4 (by decide) (by decide)
  exact ⟨_, by decide, r5⟩

/-- hence the property as literally stated ("a valid child of ANY stored header is accepted") is false across pruning,
    also for the repaired `RestrictChain` -/
theorem never_wedged_literal_false :
    ¬ (∀ (s : State) (now : Nat) (p c : Header), ReachP wenv pU wG 4 50 s → pU c → Stored wenv s p →
        ValidChild wenv s.chainId now p c → active s now = true → ∃ s', updateClient .fixed wenv now s c = .ok s') := by
  intro h
  obtain ⟨s, hs, hr⟩ := pReach
  obtain ⟨s0, hs0, h1, h2, _, h4⟩ := below_line_rejected
  rw [hs] at hs0; cases hs0
  have e : s.chainId = 4 := by
    have h0 : (wrunT .fixed pInit pHist).map (·.chainId) = some 4 := by decide
    rw [hs] at h0; simpa using h0
  have hv : ValidChild wenv s.chainId 1065 pB1 pB2 := by
    refine ⟨by decide, by decide, by decide, by decide, by decide, by decide, by decide, by decide, ?_⟩
    intro hc; exact absurd e hc
  obtain ⟨s', h5⟩ := h s 1065 pB1 pB2 hr (by decide) h1 hv h2
  rw [h4] at h5; cases h5

end TM.Eth
