import TeleportModel.Model.Auth
import TeleportModel.Model.Guard
/-
C06 — only relayers, the TSS account and the chain's own modules can drive the bridge.
(a) message level: theorems about `TM.Auth` (this file, first part);
(b) contract level: theorems about `TM.Guard` (second part).
All statements are over arbitrary registries, client configurations, stores and histories.
-/
namespace TM.Auth

/-! ### registry lemmas -/

theorem getRelayer_register_same (reg : Registry) (r : Relayer) :
    getRelayer (register reg r) r.address = some r := by
  induction reg with
  | nil => simp [register, getRelayer]
  | cons x rest ih =>
    simp only [register]
    by_cases h1 : x.address = r.address
    · simp [h1, getRelayer]
    · simp only [h1, ↓reduceIte]
      by_cases h2 : bytesLt r.address x.address = true
      · simp [h2, getRelayer]
      · simp [h2, getRelayer, h1, ih]

theorem getRelayer_register_other (reg : Registry) (r : Relayer) (a : Str) (h : a ≠ r.address) :
    getRelayer (register reg r) a = getRelayer reg a := by
  have h' : r.address ≠ a := Ne.symm h
  induction reg with
  | nil => simp [register, getRelayer, h']
  | cons x rest ih =>
    simp only [register]
    by_cases h1 : x.address = r.address
    · have h3 : x.address ≠ a := h1 ▸ h'
      simp [h1, getRelayer, h']
    · simp only [h1, ↓reduceIte]
      by_cases h2 : bytesLt r.address x.address = true
      · simp [h2, getRelayer, h']
      · simp only [h2, Bool.false_eq_true, ↓reduceIte, getRelayer, ih]

theorem chainsOf_register (reg : Registry) (r : Relayer) (a : Str) :
    chainsOf (register reg r) a = if a = r.address then r.chains else chainsOf reg a := by
  unfold chainsOf
  by_cases h : a = r.address
  · subst h; simp [getRelayer_register_same]
  · simp [getRelayer_register_other reg r a h, h]

theorem zipFind_found_mem {cs as : List Str} {c a : Str} (h : zipFind cs as c = .found a) : c ∈ cs := by
  induction cs generalizing as with
  | nil => simp [zipFind] at h
  | cons x rest ih =>
    cases as with
    | nil =>
      simp only [zipFind] at h
      by_cases hx : x = c
      · simp [hx] at h
      · simp only [hx, ↓reduceIte] at h
        exact List.mem_cons_of_mem _ (ih h)
    | cons y ys =>
      simp only [zipFind] at h
      by_cases hx : x = c
      · simp [hx]
      · simp only [hx, ↓reduceIte] at h
        exact List.mem_cons_of_mem _ (ih h)

theorem otherChainAddr_found_mem {reg : Registry} {c a rl : Str}
    (h : otherChainAddr reg c a = .found rl) : c ∈ chainsOf reg a := by
  unfold otherChainAddr at h
  unfold chainsOf
  cases hg : getRelayer reg a with
  | none => simp [hg] at h
  | some ir => simp only [hg] at h; exact zipFind_found_mem h

/-- `Addresses[i]` for the FIRST index i with `Chains[i] = c`. -/
def FirstMatch (chains addrs : List Str) (c a : Str) : Prop :=
  ∃ i : Nat, chains[i]? = some c ∧ addrs[i]? = some a ∧ ∀ j : Nat, j < i → chains[j]? ≠ some c

theorem zipFind_found_first {cs as : List Str} {c a : Str} (h : zipFind cs as c = .found a) :
    FirstMatch cs as c a := by
  induction cs generalizing as with
  | nil => simp [zipFind] at h
  | cons x rest ih =>
    cases as with
    | nil =>
      simp only [zipFind] at h
      by_cases hx : x = c
      · simp [hx] at h
      · simp only [hx, ↓reduceIte] at h
        obtain ⟨i, _, h2, _⟩ := ih h
        simp at h2
    | cons y ys =>
      simp only [zipFind] at h
      by_cases hx : x = c
      · simp only [hx, ↓reduceIte, Lookup.found.injEq] at h
        exact ⟨0, by simp [hx], by simp [h], by intro j hj; omega⟩
      · simp only [hx, ↓reduceIte] at h
        obtain ⟨i, h1, h2, h3⟩ := ih h
        refine ⟨i + 1, by simpa using h1, by simpa using h2, ?_⟩
        intro j hj
        cases j with
        | zero => simp [hx]
        | succ k => simpa using h3 k (by omega)

/-! ### what a successful run of each handler implies (the order of checks of the Go code) -/

theorem execRecv_ok {st st' : State} {s : Signer} {p : Pkt} {proofOK : Bool} {cb : Cb}
    (h : execRecv st s p proofOK cb = .ok st') :
    validatePacket st p = true ∧ st.receipts.contains p.triple = false ∧
    ∃ c, getClient st.clients p.src = some c ∧ verify c s proofOK = true ∧
    ∃ rl, otherChainAddr st.reg p.src s.raw = .found rl ∧
      ((p.dst = st.self ∨ getClient st.clients p.dst = none) →
          hasAck st.acks p.triple = false ∧
          st'.acks = (p.triple, ⟨some rl, recvClass st p cb⟩) :: st.acks) ∧
      st'.reg = st.reg := by
  unfold execRecv at h
  split at h
  · cases h
  · split at h
    · cases h
    · split at h
      · cases h
      · rename_i c hc
        split at h
        · cases h
        · dsimp only at h
          split at h
          · cases h
          · cases h
          · rename_i rl ho
            refine ⟨by simp_all, by simp_all, c, hc, by simp_all, rl, ho, ?_, ?_⟩
            · intro hd
              by_cases hself : (p.dst == st.self) = true
              · simp only [hself, ↓reduceIte] at h
                split at h
                · cases h
                · rename_i hno
                  cases cb <;> (simp only at h; cases h; simp_all [recvClass])
              · simp only [hself, Bool.false_eq_true, ↓reduceIte] at h
                have hnone : getClient st.clients p.dst = none := by
                  rcases hd with hd | hd
                  · simp [hd] at hself
                  · exact hd
                simp only [hnone, Option.isSome_none, Bool.not_false, ↓reduceIte] at h
                split at h
                · cases h
                · cases h
                  simp_all [recvClass]
            · split at h
              · split at h
                · cases h
                · cases cb <;> (simp only at h; cases h; rfl)
              · split at h
                · split at h
                  · cases h
                  · cases h; rfl
                · cases h; rfl

theorem execUpdate_ok {st st' : State} {s : Signer} {chain : Str} {hdrOK : Bool} {newTss : Option Str}
    (h : execUpdate st s chain hdrOK newTss = .ok st') :
    authRelayer st.reg chain s.raw = true ∧
    ∃ c, getClient st.clients chain = some c ∧ checkMsg c s = true ∧ hdrOK = true ∧ st'.reg = st.reg := by
  unfold execUpdate at h
  split at h
  · cases h
  · split at h
    · cases h
    · rename_i c hc
      split at h
      · cases h
      · split at h
        · cases h
        · refine ⟨by simp_all, c, hc, by simp_all, by simp_all, ?_⟩
          split at h <;> (cases h; rfl)

theorem execAck_ok {fold : Str → Str → Bool} {st st' : State} {s : Signer} {p : Pkt} {genuine proofOK : Bool}
    {rl : Str} {dec evm : Bool}
    (h : execAck fold st s p genuine proofOK rl dec evm = .ok st') :
    validatePacket st p = true ∧ st.commits.contains p.triple = true ∧ genuine = true ∧
    (∃ c, getClient st.clients p.dst = some c ∧ verify c s proofOK = true) ∧ dec = true ∧
    (p.src = st.self → evm = true ∧ ∃ r, teleportAddr fold st.reg p.dst rl = .found r) ∧
    st'.reg = st.reg := by
  unfold execAck at h
  split at h
  · cases h
  · split at h
    · cases h
    · split at h
      · cases h
      · rename_i c hc
        split at h
        · cases h
        · dsimp only at h
          split at h
          · cases h
          · split at h
            · cases h
            · split at h
              · split at h
                · cases h
                · cases h
                · rename_i r hr
                  split at h
                  · cases h
                  · cases h
                    refine ⟨by simp_all, by simp_all, by simp_all, ⟨c, hc, by simp_all⟩, by simp_all, ?_, ?_⟩
                    · intro _; exact ⟨by simp_all, r, hr⟩
                    · split <;> rfl
              · cases h
                rename_i hne
                refine ⟨by simp_all, by simp_all, by simp_all, ⟨c, hc, by simp_all⟩, by simp_all, ?_, ?_⟩
                · intro hs; simp [hs] at hne
                · split <;> rfl

theorem deliver_accepted {fold : Str → Str → Bool} {st : State} {m : Msg} (h : (deliver fold st m).2 = true) :
    ∃ st', exec fold st m = .ok st' ∧ (deliver fold st m).1 = st' := by
  unfold deliver at *
  cases hx : exec fold st m with
  | ok st' => exact ⟨st', rfl, by simp⟩
  | err e => simp [hx] at h
  | panic e => simp [hx] at h

/-! ### the three gates -/

/-- An accepted `MsgUpdateClient` was signed by an account registered as relayer for exactly that chain,
and for a TSS-secured chain by the configured TSS account. -/
theorem update_needs_relayer (fold : Str → Str → Bool) (st : State) (s : Signer) (chain : Str)
    (hdrOK : Bool) (newTss : Option Str)
    (h : (deliver fold st (.update s chain hdrOK newTss)).2 = true) :
    chain ∈ chainsOf st.reg s.raw ∧
    (∃ c, getClient st.clients chain = some c) ∧
    (∀ a, getClient st.clients chain = some (.tss a) → s.canon = a) := by
  obtain ⟨st', hx, _⟩ := deliver_accepted h
  obtain ⟨ha, c, hc, hk, _, _⟩ := execUpdate_ok (by simpa [exec] using hx)
  refine ⟨by simpa [authRelayer] using ha, ⟨c, hc⟩, ?_⟩
  intro a hca
  rw [hc] at hca
  cases hca
  simpa [checkMsg] using hk

/-- An accepted `MsgRecvPacket` was signed by an account registered as relayer for the packet's source
chain; the source chain's client verified the packet; for a TSS-secured source chain the signer is the
configured TSS address. -/
theorem recv_needs_relayer (fold : Str → Str → Bool) (st : State) (s : Signer) (p : Pkt) (proofOK : Bool) (cb : Cb)
    (h : (deliver fold st (.recv s p proofOK cb)).2 = true) :
    p.src ∈ chainsOf st.reg s.raw ∧
    (∃ c, getClient st.clients p.src = some c ∧ verify c s proofOK = true) ∧
    (∀ a, getClient st.clients p.src = some (.tss a) → s.raw = a) := by
  obtain ⟨st', hx, _⟩ := deliver_accepted h
  obtain ⟨_, _, c, hc, hver, rl, ho, _⟩ := execRecv_ok (by simpa [exec] using hx)
  refine ⟨otherChainAddr_found_mem ho, ⟨c, hc, hver⟩, ?_⟩
  intro a hca
  rw [hc] at hca
  cases hca
  simpa [verify] using hver

/-- An accepted `MsgAcknowledgement` for a packet sent to a TSS-secured chain was signed by the
configured TSS address (and for every client type the destination chain's client verified the ack). -/
theorem ack_tss (fold : Str → Str → Bool) (st : State) (s : Signer) (p : Pkt) (genuine proofOK : Bool)
    (rl : Str) (dec evm : Bool)
    (h : (deliver fold st (.ack s p genuine proofOK rl dec evm)).2 = true) :
    (∃ c, getClient st.clients p.dst = some c ∧ verify c s proofOK = true) ∧
    (∀ a, getClient st.clients p.dst = some (.tss a) → s.raw = a) := by
  obtain ⟨st', hx, _⟩ := deliver_accepted h
  obtain ⟨_, _, _, ⟨c, hc, hver⟩, _⟩ := execAck_ok (by simpa [exec] using hx)
  refine ⟨⟨c, hc, hver⟩, ?_⟩
  intro a hca
  rw [hc] at hca
  cases hca
  simpa [verify] using hver

/-- An accepted acknowledgement of a packet this chain sent pays a registered relayer: the ack's relayer
field resolves (`GetRelayerAddressOnTeleport`) to a registered address. -/
theorem ack_payout_resolves (fold : Str → Str → Bool) (st : State) (s : Signer) (p : Pkt) (genuine proofOK : Bool)
    (rl : Str) (dec evm : Bool)
    (h : (deliver fold st (.ack s p genuine proofOK rl dec evm)).2 = true) (hsrc : p.src = st.self) :
    ∃ r, teleportAddr fold st.reg p.dst rl = .found r := by
  obtain ⟨st', hx, _⟩ := deliver_accepted h
  obtain ⟨_, _, _, _, _, hp, _⟩ := execAck_ok (by simpa [exec] using hx)
  exact (hp hsrc).2

theorem ackOf_none_of_hasAck_false (l : List (Triple × AckRec)) (t : Triple) (h : hasAck l t = false) :
    ackOf l t = none := by
  induction l with
  | nil => simp [ackOf]
  | cons x xs ih =>
    obtain ⟨k, v⟩ := x
    simp only [hasAck, List.any_cons, Bool.or_eq_false_iff, beq_eq_false_iff_ne] at h
    simp only [ackOf, h.1, ↓reduceIte]
    exact ih (by simpa [hasAck] using h.2)

/-- The acknowledgement written by an accepted receive carries, as fee recipient, exactly
`Addresses[i]` of the submitting signer's own registration, i the first index with `Chains[i] = p.src`;
no acknowledgement existed for the packet before. -/
theorem ack_relayer_field (fold : Str → Str → Bool) (st : State) (s : Signer) (p : Pkt) (proofOK : Bool) (cb : Cb)
    (h : (deliver fold st (.recv s p proofOK cb)).2 = true)
    (hdst : p.dst = st.self ∨ getClient st.clients p.dst = none) :
    ∃ ir rl, getRelayer st.reg s.raw = some ir ∧ FirstMatch ir.chains ir.addresses p.src rl ∧
      ackOf (deliver fold st (.recv s p proofOK cb)).1.acks p.triple = some ⟨some rl, recvClass st p cb⟩ ∧
      ackOf st.acks p.triple = none := by
  obtain ⟨st', hx, hst⟩ := deliver_accepted h
  obtain ⟨_, _, c, hc, hver, rl, ho, hack, _⟩ := execRecv_ok (by simpa [exec] using hx)
  obtain ⟨hno, hacks⟩ := hack hdst
  unfold otherChainAddr at ho
  cases hg : getRelayer st.reg s.raw with
  | none => simp [hg] at ho
  | some ir =>
    simp only [hg] at ho
    refine ⟨ir, rl, rfl, zipFind_found_first ho, ?_, ackOf_none_of_hasAck_false _ _ hno⟩
    rw [hst, hacks]
    simp [ackOf]

/-- `ack_relayer_field` split per outcome class of the receive: whichever branch of `msg_server.RecvPacket`
writes the acknowledgement — callback returned code 0, callback returned a code ≠ 0, the callback failed at EVM
level (error ack "receive packet callback failed"), destination chain without client (error ack "dstChain not
found") — the fee recipient is the address the signer registered for the packet's source chain. -/
theorem ack_relayer_field_callback_ok (fold : Str → Str → Bool) (st : State) (s : Signer) (p : Pkt) (proofOK : Bool)
    (h : (deliver fold st (.recv s p proofOK .ok)).2 = true) (hdst : p.dst = st.self) :
    ∃ ir rl, getRelayer st.reg s.raw = some ir ∧ FirstMatch ir.chains ir.addresses p.src rl ∧
      ackOf (deliver fold st (.recv s p proofOK .ok)).1.acks p.triple = some ⟨some rl, .cbOk⟩ := by
  obtain ⟨ir, rl, h1, h2, h3, _⟩ := ack_relayer_field fold st s p proofOK .ok h (Or.inl hdst)
  exact ⟨ir, rl, h1, h2, by simpa [recvClass, hdst] using h3⟩

theorem ack_relayer_field_callback_code (fold : Str → Str → Bool) (st : State) (s : Signer) (p : Pkt) (proofOK : Bool)
    (h : (deliver fold st (.recv s p proofOK .code)).2 = true) (hdst : p.dst = st.self) :
    ∃ ir rl, getRelayer st.reg s.raw = some ir ∧ FirstMatch ir.chains ir.addresses p.src rl ∧
      ackOf (deliver fold st (.recv s p proofOK .code)).1.acks p.triple = some ⟨some rl, .cbCode⟩ := by
  obtain ⟨ir, rl, h1, h2, h3, _⟩ := ack_relayer_field fold st s p proofOK .code h (Or.inl hdst)
  exact ⟨ir, rl, h1, h2, by simpa [recvClass, hdst] using h3⟩

theorem ack_relayer_field_callback_evm_failure (fold : Str → Str → Bool) (st : State) (s : Signer) (p : Pkt) (proofOK : Bool)
    (h : (deliver fold st (.recv s p proofOK .evmFail)).2 = true) (hdst : p.dst = st.self) :
    ∃ ir rl, getRelayer st.reg s.raw = some ir ∧ FirstMatch ir.chains ir.addresses p.src rl ∧
      ackOf (deliver fold st (.recv s p proofOK .evmFail)).1.acks p.triple = some ⟨some rl, .cbEvmFail⟩ := by
  obtain ⟨ir, rl, h1, h2, h3, _⟩ := ack_relayer_field fold st s p proofOK .evmFail h (Or.inl hdst)
  exact ⟨ir, rl, h1, h2, by simpa [recvClass, hdst] using h3⟩

theorem ack_relayer_field_dst_not_found (fold : Str → Str → Bool) (st : State) (s : Signer) (p : Pkt) (proofOK : Bool) (cb : Cb)
    (h : (deliver fold st (.recv s p proofOK cb)).2 = true) (hne : p.dst ≠ st.self)
    (hnone : getClient st.clients p.dst = none) :
    ∃ ir rl, getRelayer st.reg s.raw = some ir ∧ FirstMatch ir.chains ir.addresses p.src rl ∧
      ackOf (deliver fold st (.recv s p proofOK cb)).1.acks p.triple = some ⟨some rl, .dstNotFound⟩ := by
  obtain ⟨ir, rl, h1, h2, h3, _⟩ := ack_relayer_field fold st s p proofOK cb h (Or.inr hnone)
  exact ⟨ir, rl, h1, h2, by simpa [recvClass, hne] using h3⟩

/-- A rejected message (error or recovered panic) leaves the whole state as it was. -/
theorem rejected_unchanged (fold : Str → Str → Bool) (st : State) (m : Msg)
    (h : (deliver fold st m).2 = false) : (deliver fold st m).1 = st := by
  unfold deliver at *
  cases hx : exec fold st m <;> simp_all

/-- A rejected registration proposal leaves the whole state as it was. -/
theorem rejected_registration_unchanged (st : State) (ok : Bool) (r : Relayer)
    (h : (applyReg st ok r).2 = false) : (applyReg st ok r).1 = st := by
  unfold applyReg at *
  by_cases hv : validRegistration ok r = true <;> simp_all

/-- For a TSS client the verdict does not depend on anything the message carries as proof: `packet.go`
replaces the proof by the signer unconditionally, so the external proof verdict (and with it the message's
own `ProofCommitment` / `ProofAcked` bytes — empty, garbage, the TSS address itself, anybody's address) is
irrelevant; only `msg.Signer = TssAddress` counts. -/
theorem tss_proof_field_irrelevant (a : Str) (s : Signer) (p1 p2 : Bool) :
    verify (.tss a) s p1 = verify (.tss a) s p2 ∧ (verify (.tss a) s p1 = true ↔ s.raw = a) := by
  simp [verify]

/-! ### registration is per chain, over arbitrary histories -/

/-- messages never touch the registry -/
theorem deliver_reg (fold : Str → Str → Bool) (st : State) (m : Msg) : (deliver fold st m).1.reg = st.reg := by
  cases hd : (deliver fold st m).2 with
  | false => rw [rejected_unchanged fold st m hd]
  | true =>
    obtain ⟨st', hx, hst⟩ := deliver_accepted hd
    rw [hst]
    cases m with
    | update s chain hdrOK newTss =>
      obtain ⟨_, _, _, _, _, hr⟩ := execUpdate_ok (by simpa [exec] using hx)
      exact hr
    | recv s p proofOK =>
      obtain ⟨_, _, _, _, _, _, _, _, hr⟩ := execRecv_ok (by simpa [exec] using hx)
      exact hr
    | ack s p genuine proofOK rl dec evm =>
      obtain ⟨_, _, _, _, _, _, hr⟩ := execAck_ok (by simpa [exec] using hx)
      exact hr

/-- chains of the LAST valid registration of address `a` in a history (`d` if there is none). -/
def lastRegChains : List Op → Str → List Str → List Str
  | [], _, d => d
  | .reg ok r :: rest, a, d =>
    lastRegChains rest a (if validRegistration ok r = true ∧ a = r.address then r.chains else d)
  | .regDry _ _ :: rest, a, d => lastRegChains rest a d      -- a discarded registration does not count
  | .restart :: rest, a, d => lastRegChains rest a d          -- a restart changes nothing
  | .msg _ :: rest, a, d => lastRegChains rest a d

theorem chainsOf_run (fold : Str → Str → Bool) (st : State) (ops : List Op) (a : Str) :
    chainsOf (run fold st ops).1.reg a = lastRegChains ops a (chainsOf st.reg a) := by
  induction ops generalizing st with
  | nil => simp [run, lastRegChains]
  | cons o rest ih =>
    cases o with
    | reg ok r =>
      simp only [run, stepOp, lastRegChains]
      rw [ih]
      congr 1
      unfold applyReg
      by_cases hv : validRegistration ok r = true
      · simp only [hv, ↓reduceIte, true_and]
        exact chainsOf_register st.reg r a
      · simp [hv]
    | regDry ok r =>
      simp only [run, stepOp, lastRegChains, applyRegDry]
      rw [ih]
    | restart =>
      simp only [run, stepOp, lastRegChains]
      rw [ih]
    | msg m =>
      simp only [run, stepOp, lastRegChains]
      rw [ih, deliver_reg]

/-- **Registration is per chain**, at every point of every history of registrations (including
re-registrations, which overwrite) and messages: if chain `c` is not in the chain list of the signer's
most recent valid registration, no client update for `c` and no receive of a packet from `c` signed by
that address is accepted — whatever else the signer is registered for. -/
theorem registration_is_per_chain (fold : Str → Str → Bool) (st : State) (ops : List Op) (s : Signer) (c : Str)
    (h : c ∉ lastRegChains ops s.raw (chainsOf st.reg s.raw)) :
    (∀ hdrOK newTss, (deliver fold (run fold st ops).1 (.update s c hdrOK newTss)).2 = false) ∧
    (∀ p proofOK cb, p.src = c → (deliver fold (run fold st ops).1 (.recv s p proofOK cb)).2 = false) := by
  rw [← chainsOf_run fold st ops s.raw] at h
  constructor
  · intro hdrOK newTss
    cases hd : (deliver fold (run fold st ops).1 (.update s c hdrOK newTss)).2 with
    | false => rfl
    | true => exact absurd (update_needs_relayer _ _ _ _ _ _ hd).1 h
  · intro p proofOK cb hp
    cases hd : (deliver fold (run fold st ops).1 (.recv s p proofOK cb)).2 with
    | false => rfl
    | true => exact absurd (hp ▸ (recv_needs_relayer _ _ _ _ _ _ hd).1) h

/-- the statement in the "registering r for chains X" form: after a valid registration of `r` for the
chain list `X`, and any later history that does not register `r` again, `r` is accepted for no chain
outside `X`. -/
theorem registration_confers_only_listed_chains (fold : Str → Str → Bool) (st : State) (pre post : List Op)
    (r : Relayer) (ok : Bool) (hvalid : validRegistration ok r = true)
    (hpost : ∀ ok' r', Op.reg ok' r' ∈ post → r'.address ≠ r.address)
    (s : Signer) (hs : s.raw = r.address) (c : Str) (hc : c ∉ r.chains) :
    (∀ hdrOK newTss,
      (deliver fold (run fold st (pre ++ Op.reg ok r :: post)).1 (.update s c hdrOK newTss)).2 = false) ∧
    (∀ p proofOK cb, p.src = c →
      (deliver fold (run fold st (pre ++ Op.reg ok r :: post)).1 (.recv s p proofOK cb)).2 = false) := by
  apply registration_is_per_chain
  have key : ∀ (ops : List Op) (d : List Str), (∀ ok' r', Op.reg ok' r' ∈ ops → r'.address ≠ r.address) →
      lastRegChains ops r.address d = d := by
    intro ops
    induction ops with
    | nil => intro d _; rfl
    | cons o rest ih =>
      intro d hh
      cases o with
      | reg ok' r' =>
        have hne : r'.address ≠ r.address := hh ok' r' (by simp)
        simp only [lastRegChains]
        rw [if_neg (by intro hx; exact hne hx.2.symm)]
        exact ih d (fun a b hm => hh a b (List.mem_cons_of_mem _ hm))
      | regDry ok' r' =>
        simp only [lastRegChains]
        exact ih d (fun a b hm => hh a b (List.mem_cons_of_mem _ hm))
      | restart =>
        simp only [lastRegChains]
        exact ih d (fun a b hm => hh a b (List.mem_cons_of_mem _ hm))
      | msg m =>
        simp only [lastRegChains]
        exact ih d (fun a b hm => hh a b (List.mem_cons_of_mem _ hm))
  have split : ∀ (ops : List Op) (d : List Str),
      lastRegChains (ops ++ Op.reg ok r :: post) r.address d = r.chains := by
    intro ops
    induction ops with
    | nil =>
      intro d
      simp only [List.nil_append, lastRegChains, hvalid, true_and, ↓reduceIte]
      exact key post _ hpost
    | cons o rest ih =>
      intro d
      cases o <;> simp only [List.cons_append, lastRegChains] <;> exact ih _
  rw [hs, split]
  exact hc

/-- at every point of every history, an accepted update / receive comes from a signer whose most recent
valid registration lists the chain. -/
theorem history_accepts_only_last_registered (fold : Str → Str → Bool) (st : State) (pre : List Op) (s : Signer) :
    (∀ chain hdrOK newTss, (deliver fold (run fold st pre).1 (.update s chain hdrOK newTss)).2 = true →
        chain ∈ lastRegChains pre s.raw (chainsOf st.reg s.raw)) ∧
    (∀ p proofOK cb, (deliver fold (run fold st pre).1 (.recv s p proofOK cb)).2 = true →
        p.src ∈ lastRegChains pre s.raw (chainsOf st.reg s.raw)) := by
  rw [← chainsOf_run fold st pre s.raw]
  exact ⟨fun chain hdrOK newTss h => (update_needs_relayer _ _ _ _ _ _ h).1,
         fun p proofOK cb h => (recv_needs_relayer _ _ _ _ _ _ h).1⟩

/-! ### discarded registrations -/

/-- erase the registrations that ran on a discarded context branch -/
def committed : List Op → List Op
  | [] => []
  | .regDry _ _ :: rest => committed rest
  | o :: rest => o :: committed rest

/-- **A discarded registration confers nothing**: a registration handler run on a context branch that is thrown
away (the dry run of gov `SubmitProposal`, a transaction or proposal execution that fails later) leaves no trace —
after ANY history the whole state, hence every later verdict, is the one reached by the same history with the
discarded registrations erased: authorisation is a function of the COMMITTED registry only. -/
theorem discarded_registration_confers_nothing (fold : Str → Str → Bool) (st : State) (ops : List Op) :
    (run fold st ops).1 = (run fold st (committed ops)).1 := by
  induction ops generalizing st with
  | nil => rfl
  | cons o rest ih =>
    cases o with
    | reg ok r => simp only [committed, run]; exact ih _
    | regDry ok r => simp only [committed, run, stepOp, applyRegDry]; exact ih _
    | restart => simp only [committed, run]; exact ih _
    | msg m => simp only [committed, run]; exact ih _

/-- in particular: whatever was dry-run, an accepted update / receive comes from a signer whose most recent
COMMITTED valid registration lists the chain (`lastRegChains` skips discarded registrations), and the verdict of
every message equals the verdict in the history without the discarded registrations. -/
theorem verdict_ignores_discarded (fold : Str → Str → Bool) (st : State) (ops : List Op) (m : Msg) :
    deliver fold (run fold st ops).1 m = deliver fold (run fold st (committed ops)).1 m := by
  rw [discarded_registration_confers_nothing]

theorem lastRegChains_committed (ops : List Op) (a : Str) (d : List Str) :
    lastRegChains (committed ops) a d = lastRegChains ops a d := by
  induction ops generalizing d with
  | nil => rfl
  | cons o rest ih =>
    cases o with
    | reg ok r => simp only [committed, lastRegChains]; exact ih _
    | regDry ok r => simp only [committed, lastRegChains]; exact ih _
    | restart => simp only [committed, lastRegChains]; exact ih _
    | msg m => simp only [committed, lastRegChains]; exact ih _

/-! ### second instance: what one counterparty's messages leave alone -/

theorem getClient_setClient_other (cs : Clients) (a b : Str) (c : Client) (h : b ≠ a) :
    getClient (setClient cs a c) b = getClient cs b := by
  induction cs with
  | nil => simp [setClient, getClient, Ne.symm h]
  | cons x rest ih =>
    obtain ⟨k, v⟩ := x
    simp only [setClient]
    by_cases hk : k = a
    · subst hk; simp [getClient, Ne.symm h]
    · simp only [hk, ↓reduceIte, getClient, ih]

theorem execUpdate_clients {st st' : State} {s : Signer} {a : Str} {hdrOK : Bool} {newTss : Option Str}
    (hx : execUpdate st s a hdrOK newTss = .ok st') (b : Str) (h : b ≠ a) :
    getClient st'.clients b = getClient st.clients b := by
  unfold execUpdate at hx
  split at hx
  · cases hx
  · split at hx
    · cases hx
    · split at hx
      · cases hx
      · split at hx
        · cases hx
        · split at hx <;> (cases hx; first | rfl | exact getClient_setClient_other _ _ _ _ h)

/-- frame: a client update for chain `a` — accepted or not — leaves the client of every other chain `b`
(another Tendermint counterparty, another TSS chain) exactly as it was, and touches no registration. -/
theorem update_frame (fold : Str → Str → Bool) (st : State) (s : Signer) (a b : Str) (hdrOK : Bool)
    (newTss : Option Str) (h : b ≠ a) :
    getClient (deliver fold st (.update s a hdrOK newTss)).1.clients b = getClient st.clients b ∧
    (deliver fold st (.update s a hdrOK newTss)).1.reg = st.reg := by
  refine ⟨?_, deliver_reg _ _ _⟩
  cases hd : (deliver fold st (.update s a hdrOK newTss)).2 with
  | false => rw [rejected_unchanged fold st _ hd]
  | true =>
    obtain ⟨st', hx, hst⟩ := deliver_accepted hd
    rw [hst]
    exact execUpdate_clients (by simpa [exec] using hx) b h

/-! ### start from a genesis document: the validated sections own the reserved keys -/

/-- value written last for key `k` by a list of writes (`d` if none). -/
def lastW {α : Type} (key : α → Str × GKey) (val : α → GVal) : List α → Str × GKey → Option GVal → Option GVal
  | [], _, d => d
  | x :: rest, k, d => lastW key val rest k (if key x = k then some (val x) else d)

theorem cget_cset (s : CStore) (k k' : Str × GKey) (v : GVal) :
    cget (cset s k' v) k = if k' = k then some v else cget s k := by
  simp [cset, cget]

theorem cget_foldl {α : Type} (key : α → Str × GKey) (val : α → GVal) (l : List α) (s0 : CStore) (k : Str × GKey) :
    cget (l.foldl (fun s x => cset s (key x) (val x)) s0) k = lastW key val l k (cget s0 k) := by
  induction l generalizing s0 with
  | nil => rfl
  | cons x rest ih =>
    simp only [List.foldl_cons, lastW]
    rw [ih, cget_cset]

theorem lastW_default {α : Type} (key : α → Str × GKey) (val : α → GVal) (l : List α) (k : Str × GKey) (d : Option GVal) :
    lastW key val l k d = (match lastW key val l k none with | some v => some v | none => d) := by
  induction l generalizing d with
  | nil => cases d <;> rfl
  | cons x rest ih =>
    simp only [lastW]
    by_cases h : key x = k
    · simp only [h, ↓reduceIte]
      rw [ih (some (val x))]
      cases lastW key val rest k none <;> rfl
    · simp only [h, ↓reduceIte]
      exact ih d

theorem lastW_untouched {α : Type} (key : α → Str × GKey) (val : α → GVal) (l : List α) (k : Str × GKey) (d : Option GVal)
    (h : ∀ x ∈ l, key x ≠ k) : lastW key val l k d = d := by
  induction l generalizing d with
  | nil => rfl
  | cons x rest ih =>
    simp only [lastW, h x (by simp), ↓reduceIte]
    exact ih d (fun y hy => h y (List.mem_cons_of_mem _ hy))

/-- the client state the `clients` section lists LAST for a chain. -/
def lastClient (d : GenDoc) (ch : Str) : Option GVal :=
  lastW (fun (c : Str × Client × Bool) => (c.1, GKey.clientState)) (fun c => GVal.client c.2.1) d.clients (ch, .clientState) none

/-- **The clients section wins**: after the import, the client state read back for a chain listed in the `clients`
section is exactly that section's — whatever `clients_metadata` holds under the reserved key `clientState` (or any
other key), whatever the consensus section holds. Who is configured (the TSS account of a TSS client) is what was
VALIDATED. -/
theorem import_clients_section_wins (d : GenDoc) (ch : Str) (v : GVal) (h : lastClient d ch = some v) :
    cget (importStore d) (ch, .clientState) = some v := by
  unfold importStore
  simp only
  rw [cget_foldl (fun (c : Str × Nat × Nat) => (c.1, GKey.consensus c.2.1)) (fun c => GVal.cons c.2.2)]
  rw [lastW_untouched _ _ _ _ _ (by intro x _ hx; cases hx)]
  rw [cget_foldl (fun (c : Str × Client × Bool) => (c.1, GKey.clientState)) (fun c => GVal.client c.2.1)]
  rw [lastW_default]
  unfold lastClient at h
  rw [h]

/-- the same for the consensus states the `clients_consensus` section lists: metadata under `consensusStates/<h>`
for a LISTED height is overwritten. (Metadata under a reserved consensus key of an UNLISTED height survives the
import — that is how the code behaves, see docs/C06.md.) -/
theorem import_consensus_section_wins (d : GenDoc) (ch : Str) (hgt : Nat) (v : GVal)
    (h : lastW (fun (c : Str × Nat × Nat) => (c.1, GKey.consensus c.2.1)) (fun c => GVal.cons c.2.2) d.consensus
          (ch, .consensus hgt) none = some v) :
    cget (importStore d) (ch, .consensus hgt) = some v := by
  unfold importStore
  simp only
  rw [cget_foldl (fun (c : Str × Nat × Nat) => (c.1, GKey.consensus c.2.1)) (fun c => GVal.cons c.2.2)]
  rw [lastW_default, h]

/-- a document that does not validate starts nothing. -/
theorem invalid_document_starts_nothing (st : State) (d : GenDoc) (h : d.valid = false) : startFrom st d = (st, false) := by
  simp [startFrom, h]

/-! ### restarts -/

/-- erase the restarts of a history -/
def withoutRestarts : List Op → List Op
  | [] => []
  | .restart :: rest => withoutRestarts rest
  | o :: rest => o :: withoutRestarts rest

/-- a restart (genesis export → import, module-level or whole application) is the identity on the state. -/
theorem restart_identity (fold : Str → Str → Bool) (st : State) : stepOp fold st .restart = (st, true) := rfl

/-- after any history with restarts anywhere, the state — registry, clients, receipts, commitments, acks — and
hence every later verdict is that of the same history without the restarts; all theorems above range over
histories with restarts (`Op.restart` is an ordinary element of the `ops` they quantify over). -/
theorem restarts_change_nothing (fold : Str → Str → Bool) (st : State) (ops : List Op) :
    (run fold st ops).1 = (run fold st (withoutRestarts ops)).1 := by
  induction ops generalizing st with
  | nil => rfl
  | cons o rest ih =>
    cases o with
    | reg ok r => simp only [withoutRestarts, run]; exact ih _
    | regDry ok r => simp only [withoutRestarts, run]; exact ih _
    | restart => simp only [withoutRestarts, run, stepOp]; exact ih _
    | msg m => simp only [withoutRestarts, run]; exact ih _

/-! ### the payout direction: `GetRelayerAddressOnTeleport` -/

theorem scanOne_hit {fold : Str → Str → Bool} {cs xs : List Str} {ch a : Str}
    (h : scanOne fold cs xs ch a = .hit) :
    ∃ (i : Nat) (x : Str), cs[i]? = some ch ∧ xs[i]? = some x ∧ fold x a = true := by
  induction cs generalizing xs with
  | nil => simp [scanOne] at h
  | cons c rest ih =>
    cases xs with
    | nil =>
      simp only [scanOne] at h
      by_cases hc : c = ch
      · simp [hc] at h
      · simp only [hc, ↓reduceIte] at h
        obtain ⟨i, x, _, h2, _⟩ := ih h
        simp at h2
    | cons y ys =>
      simp only [scanOne] at h
      by_cases hc : (decide (c = ch) && fold y a) = true
      · simp only [Bool.and_eq_true, decide_eq_true_eq] at hc
        exact ⟨0, y, by simp [hc.1], by simp, hc.2⟩
      · simp only [hc, Bool.false_eq_true, ↓reduceIte] at h
        obtain ⟨i, x, h1, h2, h3⟩ := ih h
        exact ⟨i + 1, x, by simpa using h1, by simpa using h2, h3⟩

/-- the account paid for an acknowledgement is a registered relayer for that chain whose registered
counterparty address case-folds to the acknowledgement's relayer field. -/
theorem payout_is_registered (fold : Str → Str → Bool) (reg : Registry) (ch a r : Str)
    (h : teleportAddr fold reg ch a = .found r) :
    ∃ ir, ir ∈ reg ∧ ir.address = r ∧ ∃ (i : Nat) (x : Str), ir.chains[i]? = some ch ∧ ir.addresses[i]? = some x ∧ fold x a = true := by
  induction reg with
  | nil => simp [teleportAddr] at h
  | cons ir rest ih =>
    simp only [teleportAddr] at h
    cases hs : scanOne fold ir.chains ir.addresses ch a with
    | hit =>
      simp only [hs, Lookup.found.injEq] at h
      exact ⟨ir, by simp, h, scanOne_hit hs⟩
    | panic => simp [hs] at h
    | miss =>
      simp only [hs] at h
      obtain ⟨ir', hm, rest'⟩ := ih h
      exact ⟨ir', List.mem_cons_of_mem _ hm, rest'⟩

/-! ### no index panic: validated registrations keep `len(Chains) = len(Addresses)` -/

def RegWF (reg : Registry) : Prop := ∀ ir ∈ reg, ir.chains.length = ir.addresses.length

theorem register_mem {reg : Registry} {r x : Relayer} (h : x ∈ register reg r) : x = r ∨ x ∈ reg := by
  induction reg with
  | nil => simp [register] at h; exact Or.inl h
  | cons y rest ih =>
    simp only [register] at h
    by_cases h1 : y.address = r.address
    · simp only [h1, ↓reduceIte, List.mem_cons] at h
      rcases h with h | h
      · exact Or.inl h
      · exact Or.inr (List.mem_cons_of_mem _ h)
    · simp only [h1, ↓reduceIte] at h
      by_cases h2 : bytesLt r.address y.address = true
      · simp only [h2, ↓reduceIte, List.mem_cons] at h
        rcases h with h | h | h
        · exact Or.inl h
        · exact Or.inr (by simp [h])
        · exact Or.inr (List.mem_cons_of_mem _ h)
      · simp only [h2, Bool.false_eq_true, ↓reduceIte, List.mem_cons] at h
        rcases h with h | h
        · exact Or.inr (by simp [h])
        · rcases ih h with h' | h'
          · exact Or.inl h'
          · exact Or.inr (List.mem_cons_of_mem _ h')

theorem regWF_run (fold : Str → Str → Bool) (st : State) (ops : List Op) (h : RegWF st.reg) :
    RegWF (run fold st ops).1.reg := by
  induction ops generalizing st with
  | nil => simpa [run] using h
  | cons o rest ih =>
    cases o with
    | reg ok r =>
      simp only [run, stepOp]
      apply ih
      unfold applyReg
      by_cases hv : validRegistration ok r = true
      · simp only [hv, ↓reduceIte]
        intro x hx
        rcases register_mem hx with hx | hx
        · subst hx
          simp only [validRegistration, Bool.and_eq_true, decide_eq_true_eq] at hv
          exact hv.1.2.symm
        · exact h x hx
      · simpa [hv] using h
    | regDry ok r =>
      simp only [run, stepOp, applyRegDry]
      exact ih _ h
    | restart =>
      simp only [run, stepOp]
      exact ih _ h
    | msg m =>
      simp only [run, stepOp]
      apply ih
      rw [deliver_reg]; exact h

theorem zipFind_no_panic {cs as : List Str} (c : Str) (h : cs.length = as.length) :
    zipFind cs as c ≠ .indexPanic := by
  induction cs generalizing as with
  | nil => simp [zipFind]
  | cons x rest ih =>
    cases as with
    | nil => simp at h
    | cons y ys =>
      simp only [zipFind]
      by_cases hx : x = c
      · simp [hx]
      · simp only [hx, ↓reduceIte]
        exact ih (by simpa using h)

theorem getRelayer_mem {reg : Registry} {a : Str} {ir : Relayer} (h : getRelayer reg a = some ir) : ir ∈ reg := by
  induction reg with
  | nil => simp [getRelayer] at h
  | cons x rest ih =>
    simp only [getRelayer] at h
    by_cases hx : x.address = a
    · simp only [hx, ↓reduceIte, Option.some.injEq] at h
      simp [h]
    · simp only [hx, ↓reduceIte] at h
      exact List.mem_cons_of_mem _ (ih h)

/-- In every state reachable from a well-formed registry through validated registrations and messages,
`GetRelayerAddressOnOtherChain` never indexes `Addresses` out of range. -/
theorem no_index_panic (fold : Str → Str → Bool) (st : State) (ops : List Op) (h : RegWF st.reg) (c a : Str) :
    otherChainAddr (run fold st ops).1.reg c a ≠ .indexPanic := by
  have hw := regWF_run fold st ops h
  unfold otherChainAddr
  cases hg : getRelayer (run fold st ops).1.reg a with
  | none => simp
  | some ir => exact zipFind_no_panic c (hw ir (getRelayer_mem hg))

/-! ### non-vacuity: the hypotheses of the theorems are satisfiable on a non-trivial state -/

def exReg : Registry :=
  register (register (register [] ⟨[114, 49], [[115, 114, 99], [116, 115, 115]], [[65], [66]]⟩)
    ⟨[114, 50], [[116, 115, 115], [115, 114, 99], [115, 114, 99]], [[67], [97], [68]]⟩)
    ⟨[114, 49], [[116, 115, 115]], [[69]]⟩          -- re-registration of r1: loses "src"
def exState : State :=
  { self := [84], reg := exReg, clients := [([116, 115, 115], .tss [114, 50]), ([115, 114, 99], .other 0)],
    receipts := [], commits := [⟨[84], [116, 115, 115], 4⟩], acks := [] }

-- r2 (registered for "tss" and "src", and the TSS address of "tss") is accepted ...
example : (deliver asciiFold exState (.recv ⟨[114, 50], [114, 50]⟩ ⟨[116, 115, 115], [84], 1, true⟩ false .evmFail)).2 = true := by decide
example : (deliver asciiFold exState (.recv ⟨[114, 50], [114, 50]⟩ ⟨[115, 114, 99], [84], 1, true⟩ true .ok)).2 = true := by decide
example : (deliver asciiFold exState (.update ⟨[114, 50], [114, 50]⟩ [115, 114, 99] true none)).2 = true := by decide
example : (deliver asciiFold exState (.ack ⟨[114, 50], [114, 50]⟩ ⟨[84], [116, 115, 115], 4, true⟩ true false [101] true true)).2 = true := by decide
-- ... the written ack carries the FIRST address r2 registered for "src" ([97], not [68])
example : ackOf (deliver asciiFold exState (.recv ⟨[114, 50], [114, 50]⟩ ⟨[115, 114, 99], [84], 1, true⟩ true .code)).1.acks
    ⟨[115, 114, 99], [84], 1⟩ = some ⟨some [97], .cbCode⟩ := by decide
-- ... r1 lost "src" by its re-registration, and is not the TSS account of "tss"
example : (deliver asciiFold exState (.recv ⟨[114, 49], [114, 49]⟩ ⟨[115, 114, 99], [84], 1, true⟩ true .ok)).2 = false := by decide
example : (deliver asciiFold exState (.recv ⟨[114, 49], [114, 49]⟩ ⟨[116, 115, 115], [84], 1, true⟩ true .ok)).2 = false := by decide
example : RegWF exReg := by unfold RegWF; decide

end TM.Auth

/-! ## (b) contract level -/
namespace TM.Guard

/-- **Only the required module / contract address can exercise a privileged method**: for every method
with a guard and every call path whose effective caller is not the required address, the call reverts and
the contract state is unchanged — whatever the method body would do, whatever the state. -/
theorem privileged_only_modules {σ : Type} (k : Consts) (body : Method → σ → Option σ) (m : Method)
    (cp : CallPath) (s : σ) (g : CallerClass) (r : Address)
    (hg : guardOf m = some g) (hr : required k g = some r) (hc : callerOf k cp ≠ r) :
    call k body m cp s = (s, false) := by
  unfold call
  simp only [hg]
  have : permits k g (callerOf k cp) = false := by
    unfold permits
    simp only [hr]
    simpa using hc
  simp [this]

/-- a selector that is not in the table does not exist: the dispatcher reverts. -/
theorem unknown_method_reverts {σ : Type} (k : Consts) (body : Method → σ → Option σ) (m : Method)
    (cp : CallPath) (s : σ) (hg : guardOf m = none) : call k body m cp s = (s, false) := by
  unfold call; simp [hg]

/-- a call that reverts — for whatever reason — changes no contract state. -/
theorem revert_unchanged {σ : Type} (k : Consts) (body : Method → σ → Option σ) (m : Method)
    (cp : CallPath) (s : σ) (h : (call k body m cp s).2 = false) : (call k body m cp s).1 = s := by
  unfold call at *
  cases hg : guardOf m with
  | none => simp
  | some g =>
    simp only [hg] at h ⊢
    by_cases hp : permits k g (callerOf k cp) = true
    · simp only [hp, ↓reduceIte] at h ⊢
      cases hb : body m s with
      | none => simp
      | some s' =>
        simp only [hb] at h
        by_cases hw : writesTarget cp = true <;> simp [hw] at h
    · simp [hp]

/-- the positive control: the required address reaches the body. -/
theorem required_caller_runs_body {σ : Type} (k : Consts) (body : Method → σ → Option σ) (m : Method)
    (cp : CallPath) (s s' : σ) (g : CallerClass) (r : Address)
    (hg : guardOf m = some g) (hr : required k g = some r) (hc : callerOf k cp = r) (hb : body m s = some s')
    (hw : writesTarget cp = true) :
    call k body m cp s = (s', true) := by
  unfold call permits
  simp [hg, hr, hc, hb, hw]

/-- the execute contract's address is none of the addresses a guard accepts. -/
structure Distinct (k : Consts) : Prop where
  pm : k.executeC ≠ k.packetModule
  am : k.executeC ≠ k.aggregateModule
  pc : k.executeC ≠ k.packetC
  ec : k.executeC ≠ k.endpointC

/-- an address that is none of the four addresses a guard accepts (user accounts, user contracts, the
execute contract). -/
def Outsider (k : Consts) (a : Address) : Prop :=
  a ≠ k.packetModule ∧ a ≠ k.aggregateModule ∧ a ≠ k.packetC ∧ a ≠ k.endpointC

/-- the paths open to users: a transaction from an account, a call from a contract (any origin, any
intermediate hops), call data handed to `execute`, call data inside a relayed packet. -/
def UserPath (k : Consts) : CallPath → Prop
  | .eoa a => Outsider k a
  | .contract _ c => Outsider k c
  | .viaExecute _ => True
  | .inPacket => True
  | .module a => Outsider k a        -- Go code calling with an address that is not the required one
  | .delegate o _ => Outsider k o    -- DELEGATECALL keeps the helper's own caller as msg.sender
  | .callcode _ c => Outsider k c
  | .static _ c => Outsider k c
  | .ctor _ c => Outsider k c        -- the contract under construction

theorem required_not_outsider {k : Consts} {g : CallerClass} {r a : Address}
    (hr : required k g = some r) (ha : Outsider k a) : a ≠ r := by
  obtain ⟨h1, h2, h3, h4⟩ := ha
  cases g <;> simp [required] at hr <;> subst hr <;> assumption

/-- **No user path reaches a privileged method**: user account, user contract, nested call through the
execute contract, call data of a received packet — every privileged method of the three contracts reverts
and changes nothing. -/
theorem no_user_path {σ : Type} (k : Consts) (hd : Distinct k) (body : Method → σ → Option σ) (m : Method)
    (hp : privileged m = true) (cp : CallPath) (hcp : UserPath k cp) (s : σ) :
    call k body m cp s = (s, false) := by
  unfold privileged at hp
  cases hg : guardOf m with
  | none => simp [hg] at hp
  | some g =>
    cases hr : required k g with
    | none => cases g <;> simp [required] at hr; simp [hg] at hp
    | some r =>
      apply privileged_only_modules k body m cp s g r hg hr
      have hex : Outsider k k.executeC := ⟨hd.pm, hd.am, hd.pc, hd.ec⟩
      cases cp with
      | eoa a => exact required_not_outsider hr hcp
      | contract o c => exact required_not_outsider hr hcp
      | viaExecute o => exact required_not_outsider hr hex
      | inPacket => exact required_not_outsider hr hex
      | module a => exact required_not_outsider hr hcp
      | delegate o c => exact required_not_outsider hr hcp
      | callcode o c => exact required_not_outsider hr hcp
      | static o c => exact required_not_outsider hr hcp
      | ctor o c => exact required_not_outsider hr hcp

/-- DELEGATECALL / CALLCODE / STATICCALL can never change the target contract's state, whoever makes them. -/
theorem foreign_context_never_changes_target {σ : Type} (k : Consts) (body : Method → σ → Option σ) (m : Method)
    (cp : CallPath) (s : σ) (h : writesTarget cp = false) : (call k body m cp s).1 = s := by
  unfold call
  cases guardOf m with
  | none => rfl
  | some g =>
    simp only
    split
    · cases body m s with
      | none => rfl
      | some s' => simp [h]
    · rfl

/-- **Only the packet contract's own logs drive `SendPacket`**: a `PacketSent`-shaped log emitted by any other
address leaves the keeper state (commitments, next send sequence) as it was. -/
theorem only_packet_contract_logs_drive_send {σ : Type} (k : Consts) (send : σ → σ) (a : Address) (s : σ)
    (h : a ≠ k.packetC) : hook k send a s = s := by
  unfold hook hookAccepts
  simp [h]

/-- **The hook filters each log of a receipt on its own**: in a receipt with any mixture of genuine logs of the
packet contract and look-alike logs of other contracts, in any order, the keeper does exactly what it would do
for the receipt with the foreign logs removed — a genuine log elsewhere in the same transaction lends a forged
one no authority. -/
theorem hook_filters_each_log {σ : Type} (k : Consts) (send : σ → σ) (logs : List Address) (s : σ) :
    hookRun k send logs s = hookRun k send (logs.filter (fun a => a == k.packetC)) s := by
  induction logs generalizing s with
  | nil => rfl
  | cons a rest ih =>
    by_cases h : a = k.packetC
    · subst h
      simp only [hookRun, List.filter_cons, beq_self_eq_true, ↓reduceIte]
      exact ih _
    · have hb : (a == k.packetC) = false := by simpa using h
      simp only [hookRun, List.filter_cons, hb, Bool.false_eq_true, ↓reduceIte]
      rw [only_packet_contract_logs_drive_send k send a s h]
      exact ih _

/-- counting form: the number of sends is the number of logs emitted by the packet contract itself. -/
theorem hook_counts_genuine_logs (k : Consts) (logs : List Address) (n : Nat) :
    hookRun k (fun m => m + 1) logs n = n + (logs.filter (fun a => a == k.packetC)).length := by
  induction logs generalizing n with
  | nil => simp [hookRun]
  | cons a rest ih =>
    by_cases h : a = k.packetC
    · subst h
      simp only [hookRun, hook, hookAccepts, beq_self_eq_true, ↓reduceIte, List.filter_cons, List.length_cons]
      rw [ih]; omega
    · have hb : (a == k.packetC) = false := by simpa using h
      simp only [hookRun, hook, hookAccepts, hb, Bool.false_eq_true, ↓reduceIte, List.filter_cons]
      exact ih _

/-- the privileged rows of the table, spelled out (a change of the table must change this statement). -/
theorem privileged_rows :
    (table.filter (fun r => privileged r.1)).map (fun r => (r.1.contract, r.1.name, r.2)) =
    [ (.packet, "OnAcknowledgePacket", .packetModule), (.packet, "onRecvPacket", .packetModule),
      (.packet, "sendPacketFeeToRelayer", .packetModule), (.packet, "setAckStatus", .packetModule),
      (.packet, "setChainName", .packetModule), (.packet, "setSequence", .packetModule),
      (.packet, "sendPacket", .endpointContract),
      (.endpoint, "bindToken", .aggregateModule), (.endpoint, "enableTimeBasedSupplyLimit", .aggregateModule),
      (.endpoint, "disableTimeBasedSupplyLimit", .aggregateModule),
      (.endpoint, "onRecvPacket", .packetContract), (.endpoint, "onAcknowledgementPacket", .packetContract) ] := by
  decide

/-- the table has one row per method (no method is listed twice with different classes). -/
theorem table_functional : (table.map (·.1)).Nodup := by decide

/-! non-vacuity: the real addresses -/
def realConsts : Consts :=
  { packetModule := [0x74, 0x26, 0xaf, 0xc4, 0x89, 0xd0, 0xee, 0xf9, 0x9a, 0x0b, 0x43, 0x8d, 0xef, 0x22, 0x6a, 0xd1, 0x39, 0xf7, 0x52, 0x35],
    aggregateModule := [0xee, 0x3c, 0x65, 0xb5, 0xc7, 0xf4, 0xdd, 0x0e, 0xbe, 0xd8, 0xbf, 0x04, 0x67, 0x25, 0xe2, 0x73, 0xe3, 0xee, 0xed, 0x3c],
    packetC := [0,0,0,0,0,0,0,0,0,0,0,0,0,0,0,0,0x20,0,0,1],
    endpointC := [0,0,0,0,0,0,0,0,0,0,0,0,0,0,0,0,0x20,0,0,2],
    executeC := [0,0,0,0,0,0,0,0,0,0,0,0,0,0,0,0,0x20,0,0,3] }

example : Distinct realConsts := ⟨by decide, by decide, by decide, by decide⟩
example : UserPath realConsts (.eoa [1, 2, 3]) := by unfold UserPath Outsider; decide
example : privileged ⟨.packet, "setSequence"⟩ = true := by decide
example : (call realConsts (fun _ (n : Nat) => some (n + 1)) ⟨.packet, "setSequence"⟩ (.module realConsts.packetModule) 7) = (8, true) := by decide
example : (call realConsts (fun _ (n : Nat) => some (n + 1)) ⟨.packet, "setSequence"⟩ .inPacket 7) = (7, false) := by decide

end TM.Guard
