import TeleportModel.Model.Bsc
/-
C09 — "the BSC client accepts only the next block sealed by an eligible validator".
All statements are about `TM.Bsc` (Model/Bsc.lean) with `Fix.fixed` (the repaired code, fixes/C09-*.diff);
the defects of the code as found are the `asFound_*` witnesses at the end.
-/
namespace TM.Bsc

/-! ## unfolding the accepting path -/

theorem updateClient_ok {fx : Fix} {env : Env} {cs : ClientState} {st : Store} {bt : Nat} {h : Header}
    {cs' : ClientState} {st' : Store} (hacc : updateClient fx env cs st bt h = .ok (cs', st')) :
    ∃ c st1 st2, lookupCons st.cons cs.head.rev cs.head.number = some c
      ∧ expired cs.trustingPeriod bt c = false
      ∧ verifyHeader fx env cs st h = .ok st1
      ∧ update cs (pruneExpired fx cs st1 bt) h = .ok (cs', st2)
      ∧ st' = { st2 with cons := setCons st2.cons ⟨h.rev, h.number, h.time, h.root⟩ } := by
  unfold updateClient at hacc
  cases hc : lookupCons st.cons cs.head.rev cs.head.number with
  | none => simp [hc] at hacc
  | some c =>
    simp only [hc] at hacc
    cases hexp : expired cs.trustingPeriod bt c with
    | true => simp [hexp] at hacc
    | false =>
      simp only [hexp] at hacc
      unfold checkHeaderAndUpdateState at hacc
      simp only [hc] at hacc
      cases hv : verifyHeader fx env cs st h with
      | err e => simp [hv] at hacc
      | panic p => simp [hv] at hacc
      | ok st1 =>
        simp only [hv] at hacc
        cases hu : update cs (pruneExpired fx cs st1 bt) h with
        | err e => simp [hu] at hacc
        | panic p => simp [hu] at hacc
        | ok x =>
          obtain ⟨cs1, st2⟩ := x
          simp [hu] at hacc
          exact ⟨c, st1, st2, rfl, hexp, rfl, by rw [← hacc.1]; exact hu, hacc.2.symm⟩

theorem validateBasic_ok {h : Header} (hv : validateBasic h = .ok ()) :
    extraVanity + extraSeal ≤ h.extra.length ∧ toHash h.mixDigest = 0 ∧ toHash h.uncleHash = uncleHashC
    ∧ (0 < h.number → toBscPanics h = false ∧ beNat h.difficulty % two64 ≠ 0) := by
  unfold validateBasic at hv
  split at hv; · cases hv
  split at hv; · cases hv
  split at hv; · cases hv
  split at hv; · cases hv
  rename_i h1 h2 h3 h4
  refine ⟨by omega, by simpa using h3, by simpa using h4, ?_⟩
  intro hpos
  simp only [hpos, ↓reduceIte] at hv
  split at hv; · cases hv
  split at hv; · cases hv
  rename_i h5 h6
  exact ⟨by simpa using h5, h6⟩

theorem verifyHeader_ok {fx : Fix} {env : Env} {cs : ClientState} {st st1 : Store} {h : Header}
    (hv : verifyHeader fx env cs st h = .ok st1) :
    validateBasic h = .ok () ∧ cs.epoch ≠ 0
    ∧ (h.number % cs.epoch ≠ 0 → h.extra.length - extraVanity - extraSeal = 0)
    ∧ (h.number % cs.epoch = 0 → (h.extra.length - extraVanity - extraSeal) % addressLength = 0)
    ∧ verifyCascadingFields fx env cs st h = .ok st1 := by
  unfold verifyHeader at hv
  split at hv
  · cases hv
  · cases hv
  · rename_i u hvb
    split at hv; · cases hv
    rename_i he
    simp only at hv
    split at hv; · cases hv
    split at hv; · cases hv
    rename_i h1 h2
    refine ⟨hvb, he, ?_, ?_, hv⟩
    · intro hne; exact Classical.byContradiction (fun hx => h1 ⟨hne, hx⟩)
    · intro heq; exact Classical.byContradiction (fun hx => h2 ⟨heq, hx⟩)

theorem verifyCascadingFields_ok {fx : Fix} {env : Env} {cs : ClientState} {st st1 : Store} {h : Header}
    (hv : verifyCascadingFields fx env cs st h = .ok st1) :
    cs.head.number % two64 = subU64 h.number 1
    ∧ env.hash cs.head = toHash h.parentHash
    ∧ h.gasLimit ≤ gasCap ∧ h.gasUsed ≤ h.gasLimit
    ∧ gasDiff cs.head.gasLimit h.gasLimit < cs.head.gasLimit % two64 / gasLimitBoundDivisor
    ∧ minGasLimit ≤ h.gasLimit
    ∧ verifySeal fx env cs st h = .ok st1 := by
  unfold verifyCascadingFields at hv
  simp only at hv
  split at hv; · cases hv
  split at hv; · cases hv
  split at hv; · cases hv
  split at hv; · cases hv
  split at hv; · cases hv
  split at hv; · cases hv
  split at hv; · cases hv
  rename_i h1 h2 h3 hr h4 h5 h6
  simp only [Bool.or_eq_true, decide_eq_true_eq, not_or, Nat.not_le, Nat.not_lt, ge_iff_le] at h6
  exact ⟨by simpa using h1, by simpa using h3, by omega, by omega, h6.1, h6.2, hv⟩

/-- repaired code: the header carries the revision number of the head -/
theorem verifyCascadingFields_rev {env : Env} {cs : ClientState} {st st1 : Store} {h : Header}
    (hv : verifyCascadingFields Fix.fixed env cs st h = .ok st1) : h.rev = cs.head.rev := by
  unfold verifyCascadingFields at hv
  simp only at hv
  split at hv; · cases hv
  split at hv; · cases hv
  split at hv; · cases hv
  split at hv; · cases hv
  rename_i hr
  simpa [Fix.fixed] using hr

theorem verifySeal_ok {fx : Fix} {env : Env} {cs : ClientState} {st st1 : Store} {h : Header}
    (hv : verifySeal fx env cs st h = .ok st1) :
    ∃ signer, env.recover cs.chainId h = some signer ∧ signer = toAddr h.coinbase
      ∧ signer ∈ valSet cs.validators
      ∧ recentlySigned fx st.recents signer h.number ((valSet cs.validators).length / 2 + 1) = false
      ∧ beNat h.difficulty = (if inturn cs.validators cs.head.number signer then 2 else 1)
      ∧ st1 = { st with recents := setSigner st.recents h.rev h.number signer } := by
  unfold verifySeal at hv
  split at hv
  · cases hv
  · rename_i signer hrec
    simp only at hv
    split at hv; · cases hv
    split at hv; · cases hv
    split at hv; · cases hv
    split at hv; · cases hv
    split at hv; · cases hv
    split at hv; · cases hv
    rename_i h1 h2 h3 h4 h5 h6
    refine ⟨signer, hrec, by simpa using h1, by simpa using h2, by simpa using h3, ?_, by cases hv; rfl⟩
    cases hit : inturn cs.validators cs.head.number signer
    · simp [hit] at h6 ⊢; exact h6
    · simp [hit] at h5 ⊢; exact h5

/-- the pending list in force after `update` processed header `h` -/
def pendingAfter (st : Store) (cs : ClientState) (h : Header) : Option (List Bytes) :=
  if h.number % cs.epoch = 0 then parseValidators h.extra else some st.pending

/-- validator list after `update` -/
def valsAfter (cs : ClientState) (pending : List Bytes) (h : Header) : List Bytes :=
  if h.number % cs.epoch = cs.validators.length / 2 then pending else cs.validators

/-- recents after the shrink loop of `update` -/
def rs1After (cs : ClientState) (rs : List Signer) (pending : List Bytes) (h : Header) : List Signer :=
  if h.number % cs.epoch = cs.validators.length / 2 then
    (List.range ((cs.validators.length / 2 + 1) - ((valSet pending).length / 2 + 1))).foldl
      (fun rs i => deleteSigner rs h.rev (subU64 (subU64 h.number ((valSet pending).length / 2 + 1)) i)) rs
  else rs

/-- the recents list after `update` -/
def recentsAfter (cs : ClientState) (rs : List Signer) (pending : List Bytes) (h : Header) : List Signer :=
  if h.number ≥ (valsAfter cs pending h).length / 2 + 1 then
    deleteSigner (rs1After cs rs pending h) h.rev (h.number - ((valsAfter cs pending h).length / 2 + 1))
  else rs1After cs rs pending h

theorem update_ok {cs cs' : ClientState} {st st' : Store} {h : Header}
    (hu : update cs st h = .ok (cs', st')) :
    cs.epoch ≠ 0 ∧ ∃ pending, pendingAfter st cs h = some pending
      ∧ cs' = { cs with head := h,
                        validators := if h.number % cs.epoch = cs.validators.length / 2 then pending else cs.validators }
      ∧ st' = { st with pending := pending, recents := recentsAfter cs st.recents pending h } := by
  unfold update at hu
  split at hu; · cases hu
  rename_i he
  simp only at hu
  split at hu
  · cases hu
  · rename_i pending hp
    refine ⟨he, pending, hp, ?_, ?_⟩
    · cases hu; rfl
    · cases hu; rfl

theorem gasDiff_eq {p g : Nat} (hp : p < two63) (hg : g ≤ gasCap) :
    gasDiff p g = ((p : Int) - (g : Int)).natAbs := by
  unfold gasDiff toI64 wrapI64
  unfold two63 two64 gasCap at *
  simp only
  split <;> split <;> split <;> omega

theorem length_chunks (k : Nat) (b : Bytes) : (chunks k b).length = k := by
  induction k generalizing b with
  | zero => rfl
  | succ k ih => simp [chunks, ih]

/-- `ParseValidators` succeeds only on a whole, non-zero number of 20-byte addresses -/
theorem parseValidators_some {extra : Bytes} {l : List Bytes} (h : parseValidators extra = some l) :
    addressLength ≤ extra.length - extraVanity - extraSeal
    ∧ (extra.length - extraVanity - extraSeal) % addressLength = 0
    ∧ l.length = (extra.length - extraVanity - extraSeal) / addressLength ∧ 1 ≤ l.length := by
  unfold parseValidators at h
  simp only at h
  split at h; · cases h
  split at h; · cases h
  rename_i h1 h2
  simp only [Option.some.injEq] at h
  have hl : ((List.drop extraVanity extra).take (extra.length - extraVanity - extraSeal)).length
      = extra.length - extraVanity - extraSeal := by
    simp only [List.length_take, List.length_drop]; unfold extraVanity extraSeal; omega
  rw [hl] at h1 h2 h
  have hlen : l.length = (extra.length - extraVanity - extraSeal) / addressLength := by
    rw [← h]; exact length_chunks _ _
  unfold addressLength at *
  refine ⟨by omega, by omega, hlen, by omega⟩

/-- the validator area of an extra-data field: the bytes between the 32-byte vanity and the 65-byte seal -/
def validatorArea (extra : Bytes) : Bytes := (extra.drop extraVanity).take (extra.length - extraVanity - extraSeal)

theorem chunks_flatten : ∀ (k : Nat) (b : Bytes), b.length = k * addressLength → (chunks k b).flatten = b
  | 0, b, h => by
    have : b = [] := List.eq_nil_of_length_eq_zero (by omega)
    simp [chunks, this]
  | k + 1, b, h => by
    simp only [chunks, List.flatten_cons]
    rw [chunks_flatten k (b.drop addressLength) (by simp only [List.length_drop]; unfold addressLength at *; omega)]
    exact List.take_append_drop addressLength b

theorem chunks_entry_length : ∀ (k : Nat) (b : Bytes), b.length = k * addressLength →
    ∀ e ∈ chunks k b, e.length = addressLength
  | 0, _, _ => by intro e he; simp [chunks] at he
  | k + 1, b, h => by
    intro e he
    simp only [chunks, List.mem_cons] at he
    rcases he with rfl | he
    · simp only [List.length_take]; unfold addressLength at *; omega
    · exact chunks_entry_length k (b.drop addressLength)
        (by simp only [List.length_drop]; unfold addressLength at *; omega) e he

theorem chunks_getElem : ∀ (k : Nat) (b : Bytes) (i : Nat), i < k →
    (chunks k b)[i]? = some ((b.drop (addressLength * i)).take addressLength)
  | 0, _, _, h => by omega
  | k + 1, b, 0, _ => by simp [chunks]
  | k + 1, b, i + 1, h => by
    simp only [chunks, List.getElem?_cons_succ]
    rw [chunks_getElem k (b.drop addressLength) i (by omega)]
    simp only [List.drop_drop]
    congr 3
    unfold addressLength; omega

/-- **`ParseValidators` is the plain chunking of the validator area**: it returns EVERY 20-byte entry, in order —
entry `i` is bytes `[20i, 20i+20)` of the area, whatever it contains (the zero address, 0xff…ff, a duplicate, the
coinbase, any order); the number of entries is `|area| / 20` and the concatenation of the entries is the area
(total-length preserving), so two headers that parse to the same list carry the same area (injective). -/
theorem parseValidators_chunking {extra : Bytes} {l : List Bytes} (h : parseValidators extra = some l) :
    l.length = (validatorArea extra).length / addressLength
    ∧ l.flatten = validatorArea extra
    ∧ (∀ e ∈ l, e.length = addressLength)
    ∧ (∀ i, i < l.length → l[i]? = some (((validatorArea extra).drop (addressLength * i)).take addressLength)) := by
  unfold parseValidators at h
  simp only at h
  split at h; · cases h
  split at h; · cases h
  rename_i h1 h2
  simp only [Option.some.injEq] at h
  have hlen : (validatorArea extra).length = (validatorArea extra).length / addressLength * addressLength := by
    have : (validatorArea extra).length % addressLength = 0 := by
      unfold validatorArea; exact Classical.byContradiction (fun hx => h1 hx)
    have := Nat.div_add_mod (validatorArea extra).length addressLength
    rw [Nat.mul_comm] at this; omega
  subst h
  refine ⟨length_chunks _ _, chunks_flatten _ _ hlen, chunks_entry_length _ _ hlen, ?_⟩
  intro i hi
  rw [length_chunks] at hi
  exact chunks_getElem _ _ i hi

theorem parseValidators_injective {e1 e2 : Bytes} {l : List Bytes}
    (h1 : parseValidators e1 = some l) (h2 : parseValidators e2 = some l) : validatorArea e1 = validatorArea e2 := by
  rw [← (parseValidators_chunking h1).2.1, ← (parseValidators_chunking h2).2.1]

/-- zero addresses, all-ones addresses and duplicates are entries like any other -/
example : parseValidators (List.replicate 32 0 ++ (List.replicate 20 0 ++ List.replicate 20 255 ++ List.replicate 20 7
    ++ List.replicate 20 7) ++ List.replicate 65 0)
    = some [List.replicate 20 0, List.replicate 20 255, List.replicate 20 7, List.replicate 20 7] := by decide +kernel

theorem parseValidators_ne_nil {extra : Bytes} {l : List Bytes} (h : parseValidators extra = some l) : l ≠ [] := by
  have := (parseValidators_some h).2.2.2
  intro hn; rw [hn] at this; simp at this

/-- structural validity as the property states it -/
def StructurallyValid (cs : ClientState) (h : Header) : Prop :=
  extraVanity + extraSeal ≤ h.extra.length
  ∧ (h.number % cs.epoch = 0 → (h.extra.length - extraVanity - extraSeal) % addressLength = 0
        ∧ addressLength ≤ h.extra.length - extraVanity - extraSeal)   -- an epoch header carries ≥ 1 validator
  ∧ (h.number % cs.epoch ≠ 0 → h.extra.length = extraVanity + extraSeal)
  ∧ toHash h.mixDigest = 0
  ∧ toHash h.uncleHash = uncleHashC
  ∧ beNat h.difficulty % two64 ≠ 0
  ∧ h.gasLimit ≤ gasCap
  ∧ h.gasUsed ≤ h.gasLimit
  ∧ minGasLimit ≤ h.gasLimit
  ∧ ((cs.head.gasLimit : Int) - (h.gasLimit : Int)).natAbs < cs.head.gasLimit / gasLimitBoundDivisor

theorem subU64_of_le {a b : Nat} (ha : a < two64) (hb : b ≤ a) : subU64 a b = a - b := by
  unfold subU64 two64 at *; omega

/-- repaired window test: no record of the signer at a height `k` with `number ≤ k + ⌊N/2⌋` -/
theorem recentlySigned_fixed_false {rs : List Signer} {signer : Addr} {number limit : Nat} (hn : number < two64)
    (h : recentlySigned Fix.fixed rs signer number limit = false) :
    ∀ e ∈ rs, number < e.num + limit → e.addr ≠ signer := by
  intro e he hw heq
  unfold recentlySigned at h
  rw [List.any_eq_false] at h
  have := h e he
  simp only [Fix.fixed, Bool.true_and, heq, beq_self_eq_true, Bool.or_eq_true, decide_eq_true_eq, not_or,
    Nat.not_lt, gt_iff_lt] at this
  obtain ⟨h1, h2⟩ := this
  rw [subU64_of_le hn h1] at h2
  omega

theorem accept_sound_core {env : Env} {cs cs' : ClientState} {st st' : Store} {bt : Nat} {h : Header}
    (hacc : updateClient Fix.fixed env cs st bt h = .ok (cs', st'))
    (hu64 : h.number < two64) (hnum : cs.head.number + 1 < two64) :
    h.number = cs.head.number + 1
    ∧ toHash h.parentHash = env.hash cs.head
    ∧ 0 < h.number
    ∧ ∃ signer, env.recover cs.chainId h = some signer
        ∧ signer = toAddr h.coinbase
        ∧ signer ∈ valSet cs.validators
        ∧ (∀ e ∈ st.recents, h.number ≤ e.num + (valSet cs.validators).length / 2 → e.addr ≠ signer)
        ∧ beNat h.difficulty = (if inturn cs.validators cs.head.number signer then 2 else 1) := by
  obtain ⟨c, st1, st2, _, _, hv, _, _⟩ := updateClient_ok hacc
  obtain ⟨hvb, he, hx1, hx2, hcf⟩ := verifyHeader_ok hv
  obtain ⟨hc1, hc2, hc3, hc4, hc5, hc6, hs⟩ := verifyCascadingFields_ok hcf
  obtain ⟨signer, hr, hcb, hmem, hrec, hdiff, _⟩ := verifySeal_ok hs
  have hnumber : h.number = cs.head.number + 1 := by
    unfold subU64 two64 at hc1; unfold two64 at hnum hu64
    omega
  refine ⟨hnumber, hc2.symm, by omega, signer, hr, hcb, hmem, ?_, hdiff⟩
  intro e he hw
  exact recentlySigned_fixed_false hu64 hrec e he (by omega)

/-- **accept_sound** (one step, any state): an accepted header is the direct child of the head, structurally
valid, sealed by its coinbase, which is a current validator without a record inside the window and used
the difficulty of its turn. -/
theorem accept_sound {env : Env} {cs cs' : ClientState} {st st' : Store} {bt : Nat} {h : Header}
    (hacc : updateClient Fix.fixed env cs st bt h = .ok (cs', st'))
    (hu64 : h.number < two64) (hnum : cs.head.number + 1 < two64) (hgas : cs.head.gasLimit < two63) :
    h.number = cs.head.number + 1
    ∧ toHash h.parentHash = env.hash cs.head
    ∧ StructurallyValid cs h
    ∧ ∃ signer, env.recover cs.chainId h = some signer
        ∧ signer = toAddr h.coinbase
        ∧ signer ∈ valSet cs.validators
        ∧ (∀ e ∈ st.recents, h.number ≤ e.num + (valSet cs.validators).length / 2 → e.addr ≠ signer)
        ∧ beNat h.difficulty = (if inturn cs.validators cs.head.number signer then 2 else 1) := by
  obtain ⟨c, st1, st2, _, _, hv, hupd, _⟩ := updateClient_ok hacc
  obtain ⟨hvb, he, hx1, hx2, hcf⟩ := verifyHeader_ok hv
  obtain ⟨hb1, hb2, hb3, hb4⟩ := validateBasic_ok hvb
  obtain ⟨hc1, hc2, hc3, hc4, hc5, hc6, hs⟩ := verifyCascadingFields_ok hcf
  obtain ⟨signer, hr, hcb, hmem, hrec, hdiff, _⟩ := verifySeal_ok hs
  obtain ⟨_, pending, hpa, _, _⟩ := update_ok hupd
  have hnumber : h.number = cs.head.number + 1 := by
    unfold subU64 two64 at hc1; unfold two64 at hnum hu64
    omega
  have hpos : 0 < h.number := by omega
  obtain ⟨_, hdnz⟩ := hb4 hpos
  refine ⟨hnumber, hc2.symm, ?_, signer, hr, hcb, hmem, ?_, hdiff⟩
  · refine ⟨hb1, ?_, ?_, hb2, hb3, hdnz, hc3, hc4, hc6, ?_⟩
    · intro h0
      unfold pendingAfter at hpa
      simp only [h0, ↓reduceIte] at hpa
      exact ⟨hx2 h0, (parseValidators_some hpa).1⟩
    · intro hne; have := hx1 hne; unfold extraVanity extraSeal at *; omega
    · rw [gasDiff_eq hgas hc3] at hc5
      have : cs.head.gasLimit % two64 = cs.head.gasLimit := Nat.mod_eq_of_lt (by unfold two63 at hgas; unfold two64; omega)
      rw [this] at hc5; exact hc5
  · intro e he hw
    exact recentlySigned_fixed_false hu64 hrec e he (by omega)

/-- **an accepted header stays in the revision of the head** (repaired code; the block hash and the seal do not
cover `Height.RevisionNumber`, consensus states and recent-signer records are keyed by the full height): the height
of an accepted header is `Height.Increment` of the head's. -/
theorem accepted_same_revision {env : Env} {cs cs' : ClientState} {st st' : Store} {bt : Nat} {h : Header}
    (hacc : updateClient Fix.fixed env cs st bt h = .ok (cs', st')) : h.rev = cs.head.rev ∧ cs'.head.rev = cs.head.rev := by
  obtain ⟨c, st1, st2, _, _, hv, hu, _⟩ := updateClient_ok hacc
  obtain ⟨_, _, _, _, hcf⟩ := verifyHeader_ok hv
  obtain ⟨_, _, _, hcs', _⟩ := update_ok hu
  have := verifyCascadingFields_rev hcf
  exact ⟨this, by rw [hcs']; exact this⟩

theorem pruneExpired_fixed (cs : ClientState) (st : Store) (bt : Nat) :
    (pruneExpired Fix.fixed cs st bt).recents = st.recents ∧ (pruneExpired Fix.fixed cs st bt).pending = st.pending := by
  unfold pruneExpired
  split <;> simp [Fix.fixed]

theorem lookupCons_setCons (cons : List Cons) (c : Cons) : lookupCons (setCons cons c) c.rev c.num = some c := by
  simp [lookupCons, setCons]

/-- closed form of an accepting step of the repaired client -/
theorem step_effect {env : Env} {cs cs' : ClientState} {st st' : Store} {bt : Nat} {h : Header}
    (hacc : updateClient Fix.fixed env cs st bt h = .ok (cs', st')) :
    ∃ signer pending, env.recover cs.chainId h = some signer
      ∧ pendingAfter st cs h = some pending
      ∧ cs' = { cs with head := h,
                        validators := if h.number % cs.epoch = cs.validators.length / 2 then pending else cs.validators }
      ∧ st'.recents = recentsAfter cs (setSigner st.recents h.rev h.number signer) pending h
      ∧ st'.pending = pending
      ∧ lookupCons st'.cons h.rev h.number = some ⟨h.rev, h.number, h.time, h.root⟩ := by
  obtain ⟨c, st1, st2, _, _, hv, hu, hst'⟩ := updateClient_ok hacc
  obtain ⟨_, _, _, _, hcf⟩ := verifyHeader_ok hv
  obtain ⟨_, _, _, _, _, _, hs⟩ := verifyCascadingFields_ok hcf
  obtain ⟨signer, hr, _, _, _, _, hst1⟩ := verifySeal_ok hs
  obtain ⟨_, pending, hp, hcs', hst2⟩ := update_ok hu
  obtain ⟨hpr, hpp⟩ := pruneExpired_fixed cs st1 bt
  refine ⟨signer, pending, hr, ?_, hcs', ?_, ?_, ?_⟩
  · unfold pendingAfter at hp ⊢; rw [hpp, hst1] at hp; exact hp
  · rw [hst', hst2]; simp only; rw [hpr, hst1]
  · rw [hst', hst2]
  · rw [hst']; exact lookupCons_setCons _ ⟨h.rev, h.number, h.time, h.root⟩

/-- **valset_changes_only_at_offset** (one step): the validator list changes only at a height with
`number mod epoch = ⌊len/2⌋`, and only to the pending list — the list parsed from this header when it is
itself an epoch header, else the stored pending list (`pending_is_last_epoch_list` identifies it over runs).
Epoch, chain id and trusting period never change. -/
theorem valset_changes_only_at_offset {env : Env} {cs cs' : ClientState} {st st' : Store} {bt : Nat} {h : Header}
    (hacc : updateClient Fix.fixed env cs st bt h = .ok (cs', st')) :
    (cs'.validators ≠ cs.validators →
        h.number % cs.epoch = cs.validators.length / 2 ∧ pendingAfter st cs h = some cs'.validators)
    ∧ 1 ≤ cs.epoch ∧ cs'.epoch = cs.epoch ∧ cs'.chainId = cs.chainId ∧ cs'.trustingPeriod = cs.trustingPeriod := by
  obtain ⟨signer, pending, _, hp, hcs', _, _, _⟩ := step_effect hacc
  obtain ⟨c, st1, st2, _, _, hv, _, _⟩ := updateClient_ok hacc
  obtain ⟨_, he, _⟩ := verifyHeader_ok hv
  subst hcs'
  refine ⟨?_, by omega, rfl, rfl, rfl⟩
  intro hne
  simp only at hne ⊢
  split at hne
  · rename_i hsw; simp only [hsw, ↓reduceIte]; exact ⟨trivial, hp⟩
  · exact absurd rfl hne

/-- **root_recorded**: the consensus state of the accepted height is `⟨time, root⟩` of the header, and the
header becomes the head. -/
theorem root_recorded {env : Env} {cs cs' : ClientState} {st st' : Store} {bt : Nat} {h : Header}
    (hacc : updateClient Fix.fixed env cs st bt h = .ok (cs', st')) :
    lookupCons st'.cons h.rev h.number = some ⟨h.rev, h.number, h.time, h.root⟩ ∧ cs'.head = h := by
  obtain ⟨signer, pending, _, _, hcs', _, _, hc⟩ := step_effect hacc
  exact ⟨hc, by rw [hcs']⟩

/-- the pending list is replaced exactly at epoch headers, by the list the header carries -/
theorem pending_recorded_at_epoch {env : Env} {cs cs' : ClientState} {st st' : Store} {bt : Nat} {h : Header}
    (hacc : updateClient Fix.fixed env cs st bt h = .ok (cs', st')) :
    (h.number % cs.epoch = 0 → parseValidators h.extra = some st'.pending)
    ∧ (h.number % cs.epoch ≠ 0 → st'.pending = st.pending) := by
  obtain ⟨signer, pending, _, hp, _, _, hpe, _⟩ := step_effect hacc
  unfold pendingAfter at hp
  constructor
  · intro h0; rw [hpe]; simpa [h0] using hp
  · intro h0; rw [hpe]; simp only [h0, ↓reduceIte, Option.some.injEq] at hp; exact hp.symm

/-- **offset 0** (a single-validator set, ⌊len/2⌋ = 0): the epoch header is itself the switch point — both
branches of `update` fire for the same header, and the new validator list is the one this very header carries. -/
theorem switch_at_epoch_header {env : Env} {cs cs' : ClientState} {st st' : Store} {bt : Nat} {h : Header}
    (hacc : updateClient Fix.fixed env cs st bt h = .ok (cs', st'))
    (h0 : h.number % cs.epoch = 0) (hN : cs.validators.length / 2 = 0) :
    parseValidators h.extra = some cs'.validators ∧ st'.pending = cs'.validators := by
  obtain ⟨signer, pending, _, hp, hcs', _, hpe, _⟩ := step_effect hacc
  unfold pendingAfter at hp
  simp only [h0, ↓reduceIte] at hp
  have hv : cs'.validators = pending := by rw [hcs']; simp [h0, hN]
  rw [hv, hpe]; exact ⟨hp, rfl⟩

/-- the validator list after an accepted header, in closed form: the pending list (this header's own list when
it is an epoch header) exactly at offset ⌊len/2⌋, unchanged otherwise — the rule the harness oracle re-evaluates
on its own bookkeeping. -/
theorem valset_after {env : Env} {cs cs' : ClientState} {st st' : Store} {bt : Nat} {h : Header}
    (hacc : updateClient Fix.fixed env cs st bt h = .ok (cs', st')) :
    (h.number % cs.epoch = cs.validators.length / 2 → pendingAfter st cs h = some cs'.validators)
    ∧ (h.number % cs.epoch ≠ cs.validators.length / 2 → cs'.validators = cs.validators) := by
  obtain ⟨signer, pending, _, hp, hcs', _, _, _⟩ := step_effect hacc
  constructor
  · intro hsw; rw [hcs']; simp only [hsw, ↓reduceIte]; exact hp
  · intro hsw; rw [hcs']; simp only [hsw, ↓reduceIte]

theorem not_or_not_iff {p q : Prop} : (¬p ∨ ¬q) ↔ (p → ¬q) := by
  constructor
  · rintro (h | h) hp
    · exact absurd hp h
    · exact h
  · intro h
    by_cases hp : p
    · exact Or.inr (h hp)
    · exact Or.inl hp

/-! ## consensus states: an accepted update overwrites its height, an upgrade keeps the other heights -/

theorem mem_setCons {e c : Cons} {l : List Cons} :
    e ∈ setCons l c ↔ e = c ∨ (e ∈ l ∧ ¬(e.rev = c.rev ∧ e.num = c.num)) := by
  simp [setCons, not_or_not_iff]

theorem mem_deleteCons {e : Cons} {l : List Cons} {rev num : Nat} :
    e ∈ deleteCons l rev num ↔ e ∈ l ∧ ¬(e.rev = rev ∧ e.num = num) := by
  simp [deleteCons, not_or_not_iff]

/-- the consensus states after an accepted update, in closed form: the header's own state at its height
(written unconditionally — `setCons` removes whatever was stored under that height), every other stored state
unchanged, minus the earliest one if it had expired. -/
theorem update_cons {env : Env} {cs cs' : ClientState} {st st' : Store} {bt : Nat} {h : Header}
    (hacc : updateClient Fix.fixed env cs st bt h = .ok (cs', st')) :
    st'.cons = setCons
      (match pruneTarget cs.trustingPeriod bt st.cons with
        | none => st.cons
        | some c => deleteCons st.cons c.rev c.num)
      ⟨h.rev, h.number, h.time, h.root⟩ := by
  obtain ⟨c, st1, st2, _, _, hv, hu, hst'⟩ := updateClient_ok hacc
  obtain ⟨_, _, _, _, hcf⟩ := verifyHeader_ok hv
  obtain ⟨_, _, _, _, _, _, hs⟩ := verifyCascadingFields_ok hcf
  obtain ⟨signer, _, _, _, _, _, hst1⟩ := verifySeal_ok hs
  obtain ⟨_, pending, _, _, hst2⟩ := update_ok hu
  rw [hst', hst2]
  simp only
  congr 1
  unfold pruneExpired
  rw [hst1]
  simp only
  cases pruneTarget cs.trustingPeriod bt st.cons <;> rfl

/-- **accepted_root_stored**: after an accepted update the consensus state stored at the header's height is
`⟨time, root⟩` of THAT header and it is the only one stored for that height — whatever was stored there before
(a state of an abandoned branch left behind by an upgrade, a re-submitted height). -/
theorem accepted_root_stored {env : Env} {cs cs' : ClientState} {st st' : Store} {bt : Nat} {h : Header}
    (hacc : updateClient Fix.fixed env cs st bt h = .ok (cs', st')) :
    lookupCons st'.cons h.rev h.number = some ⟨h.rev, h.number, h.time, h.root⟩
    ∧ ∀ e ∈ st'.cons, e.rev = h.rev → e.num = h.number → e = ⟨h.rev, h.number, h.time, h.root⟩ := by
  refine ⟨(root_recorded hacc).1, ?_⟩
  intro e he hr hn
  rw [update_cons hacc] at he
  rcases mem_setCons.1 he with h1 | ⟨_, h2⟩
  · exact h1
  · exact absurd ⟨hr, hn⟩ h2

/-- an accepted update leaves the consensus state of every other height alone, except the earliest one when it
has expired (so along a run every accepted height keeps the root of the header accepted for it until it is pruned
or written again) -/
theorem update_keeps_other_heights {env : Env} {cs cs' : ClientState} {st st' : Store} {bt : Nat} {h : Header}
    (hacc : updateClient Fix.fixed env cs st bt h = .ok (cs', st')) (e : Cons)
    (hk : ¬(e.rev = h.rev ∧ e.num = h.number))
    (hp : ∀ c, pruneTarget cs.trustingPeriod bt st.cons = some c → ¬(e.rev = c.rev ∧ e.num = c.num)) :
    e ∈ st'.cons ↔ e ∈ st.cons := by
  rw [update_cons hacc, mem_setCons]
  cases hpt : pruneTarget cs.trustingPeriod bt st.cons with
  | none =>
    simp only
    constructor
    · rintro (h1 | ⟨h1, _⟩)
      · rw [h1] at hk; exact absurd ⟨rfl, rfl⟩ hk
      · exact h1
    · intro h1; exact Or.inr ⟨h1, hk⟩
  | some c =>
    simp only [mem_deleteCons]
    constructor
    · rintro (h1 | ⟨⟨h1, _⟩, _⟩)
      · rw [h1] at hk; exact absurd ⟨rfl, rfl⟩ hk
      · exact h1
    · intro h1; exact Or.inr ⟨⟨h1, hp c hpt⟩, hk⟩

theorem upgradeClient_ok {env : Env} {st st' : Store} {cs1 cs' : ClientState} {bt : Nat}
    (hu : upgradeClient env st cs1 bt = .ok (cs', st')) :
    cs' = cs1 ∧ cs1.epoch ≠ 0 ∧ cs1.head.number % cs1.epoch = 0
    ∧ ∃ signer pending, env.recover cs1.chainId cs1.head = some signer ∧ signer = toAddr cs1.head.coinbase
      ∧ parseValidators cs1.head.extra = some pending
      ∧ st'.recents = [⟨cs1.head.rev, cs1.head.number, signer⟩] ∧ st'.pending = pending
      ∧ st'.cons = setCons
          (match pruneTarget cs1.trustingPeriod bt st.cons with
            | none => st.cons
            | some c => deleteCons st.cons c.rev c.num)
          ⟨cs1.head.rev, cs1.head.number, cs1.head.time, cs1.head.root⟩ := by
  unfold upgradeClient at hu
  split at hu; · cases hu
  rename_i h1
  split at hu; · cases hu
  split at hu; · cases hu
  split at hu
  · cases hu
  · cases hu
  · split at hu; · cases hu
    rename_i h2
    simp only at hu
    split at hu
    · cases hu
    · rename_i signer hr
      split at hu; · cases hu
      rename_i h3
      split at hu
      · cases hu
      · rename_i pending hp
        simp only [Outcome.ok.injEq, Prod.mk.injEq] at hu
        obtain ⟨hc, hs⟩ := hu
        subst hs
        exact ⟨hc.symm, h1, by simpa using h2, signer, pending, hr, by simpa using h3, hp, rfl, rfl, rfl⟩

/-- **upgrade keeps the other heights**: `UpgradeClient` resets head, recents and pending validators but every
consensus state of another height survives (minus the earliest one when it has expired under the new trusting
period) — in particular the states of an abandoned branch above the new head stay in the store; the new head's own
height is overwritten. -/
theorem upgrade_keeps_other_heights {env : Env} {st st' : Store} {cs1 cs' : ClientState} {bt : Nat}
    (hu : upgradeClient env st cs1 bt = .ok (cs', st')) (e : Cons)
    (hk : ¬(e.rev = cs1.head.rev ∧ e.num = cs1.head.number))
    (hp : ∀ c, pruneTarget cs1.trustingPeriod bt st.cons = some c → ¬(e.rev = c.rev ∧ e.num = c.num)) :
    (e ∈ st'.cons ↔ e ∈ st.cons)
    ∧ lookupCons st'.cons cs1.head.rev cs1.head.number
        = some ⟨cs1.head.rev, cs1.head.number, cs1.head.time, cs1.head.root⟩ := by
  obtain ⟨_, _, _, signer, pending, _, _, _, _, _, hcons⟩ := upgradeClient_ok hu
  refine ⟨?_, by rw [hcons]; exact lookupCons_setCons _ _⟩
  rw [hcons, mem_setCons]
  cases hpt : pruneTarget cs1.trustingPeriod bt st.cons with
  | none =>
    simp only
    constructor
    · rintro (h1 | ⟨h1, _⟩)
      · rw [h1] at hk; exact absurd ⟨rfl, rfl⟩ hk
      · exact h1
    · intro h1; exact Or.inr ⟨h1, hk⟩
  | some c =>
    simp only [mem_deleteCons]
    constructor
    · rintro (h1 | ⟨⟨h1, _⟩, _⟩)
      · rw [h1] at hk; exact absurd ⟨rfl, rfl⟩ hk
      · exact h1
    · intro h1; exact Or.inr ⟨⟨h1, hp c hpt⟩, hk⟩

/-! ## order independence (cited by the determinism property C14) -/

theorem mem_insertSorted {a x : Addr} {l : List Addr} : x ∈ insertSorted a l ↔ x = a ∨ x ∈ l := by
  induction l with
  | nil => simp [insertSorted]
  | cons b t ih =>
    unfold insertSorted
    split
    · simp
    · split
      · rename_i h1 h2; subst h2; simp
      · simp [ih]; constructor
        · rintro (h | h | h) <;> simp [h]
        · rintro (h | h | h) <;> simp [h]

theorem sorted_insertSorted {a : Addr} {l : List Addr} (hs : l.Pairwise (· < ·)) :
    (insertSorted a l).Pairwise (· < ·) := by
  induction l with
  | nil => simp [insertSorted]
  | cons b t ih =>
    rw [List.pairwise_cons] at hs
    unfold insertSorted
    split
    · rename_i hab
      rw [List.pairwise_cons]
      refine ⟨?_, List.pairwise_cons.2 hs⟩
      intro x hx
      show a < x
      rcases List.mem_cons.1 hx with e | m
      · rw [e]; exact hab
      · exact Nat.lt_trans hab (hs.1 x m)
    · split
      · exact List.pairwise_cons.2 hs
      · rename_i h1 h2
        rw [List.pairwise_cons]
        refine ⟨?_, ih hs.2⟩
        intro x hx
        show b < x
        rcases mem_insertSorted.1 hx with e | m
        · rw [e]; exact Nat.lt_of_le_of_ne (Nat.le_of_not_lt h1) (fun e => h2 e.symm)
        · exact hs.1 x m

theorem mem_valSet {x : Addr} {vs : List Bytes} : x ∈ valSet vs ↔ ∃ v ∈ vs, toAddr v = x := by
  induction vs with
  | nil => simp [valSet]
  | cons v t ih =>
    have : valSet (v :: t) = insertSorted (toAddr v) (valSet t) := rfl
    rw [this, mem_insertSorted, ih]
    constructor
    · rintro (h | ⟨w, hw, e⟩)
      · exact ⟨v, List.mem_cons_self, h.symm⟩
      · exact ⟨w, List.mem_cons_of_mem _ hw, e⟩
    · rintro ⟨w, hw, e⟩
      rcases List.mem_cons.1 hw with h | h
      · left; rw [← e, h]
      · right; exact ⟨w, h, e⟩

theorem sorted_valSet (vs : List Bytes) : (valSet vs).Pairwise (· < ·) := by
  induction vs with
  | nil => simp [valSet]
  | cons v t ih => exact sorted_insertSorted ih

theorem sorted_ext : ∀ {l1 l2 : List Nat}, l1.Pairwise (· < ·) → l2.Pairwise (· < ·) →
    (∀ x, x ∈ l1 ↔ x ∈ l2) → l1 = l2
  | [], [], _, _, _ => rfl
  | [], b :: _, _, _, h => absurd ((h b).2 List.mem_cons_self) (by simp)
  | a :: _, [], _, _, h => absurd ((h a).1 List.mem_cons_self) (by simp)
  | a :: t1, b :: t2, h1, h2, h => by
    rw [List.pairwise_cons] at h1 h2
    have hab : a = b := by
      have ha := (h a).1 List.mem_cons_self
      have hb := (h b).2 List.mem_cons_self
      rcases List.mem_cons.1 ha with e | m
      · exact e
      · rcases List.mem_cons.1 hb with e | m'
        · exact e.symm
        · have := h2.1 a m
          have := h1.1 b m'
          omega
    subst hab
    congr 1
    apply sorted_ext h1.2 h2.2
    intro x
    constructor
    · intro hx
      rcases List.mem_cons.1 ((h x).1 (List.mem_cons_of_mem _ hx)) with e | m
      · subst e; exact absurd (h1.1 x hx) (Nat.lt_irrefl _)
      · exact m
    · intro hx
      rcases List.mem_cons.1 ((h x).2 (List.mem_cons_of_mem _ hx)) with e | m
      · subst e; exact absurd (h2.1 x hx) (Nat.lt_irrefl _)
      · exact m

/-- the snapshot's validator list depends only on the *set* of addresses (order, duplicates and byte
padding of `ClientState.Validators` are irrelevant) -/
theorem valSet_congr {vs1 vs2 : List Bytes}
    (h : ∀ a, (∃ v ∈ vs1, toAddr v = a) ↔ (∃ v ∈ vs2, toAddr v = a)) : valSet vs1 = valSet vs2 :=
  sorted_ext (sorted_valSet vs1) (sorted_valSet vs2) (fun x => by rw [mem_valSet, mem_valSet]; exact h x)

theorem valSet_perm {vs1 vs2 : List Bytes} (h : vs1.Perm vs2) : valSet vs1 = valSet vs2 :=
  valSet_congr (fun a => by
    constructor
    · rintro ⟨v, hv, e⟩; exact ⟨v, h.mem_iff.1 hv, e⟩
    · rintro ⟨v, hv, e⟩; exact ⟨v, h.mem_iff.2 hv, e⟩)

/-- **inturn depends only on the sorted set** -/
theorem inturn_congr {vs1 vs2 : List Bytes} (headNumber : Nat) (signer : Addr)
    (h : ∀ a, (∃ v ∈ vs1, toAddr v = a) ↔ (∃ v ∈ vs2, toAddr v = a)) :
    inturn vs1 headNumber signer = inturn vs2 headNumber signer := by
  unfold inturn; rw [valSet_congr h]

theorem inturn_perm {vs1 vs2 : List Bytes} (headNumber : Nat) (signer : Addr) (h : vs1.Perm vs2) :
    inturn vs1 headNumber signer = inturn vs2 headNumber signer := by
  unfold inturn; rw [valSet_perm h]

/-- **recentlySigned is invariant under permutation of the recents list** (store iteration order, Go map
iteration order) -/
theorem recentlySigned_perm {fx : Fix} {rs1 rs2 : List Signer} (signer : Addr) (number limit : Nat)
    (h : rs1.Perm rs2) : recentlySigned fx rs1 signer number limit = recentlySigned fx rs2 signer number limit := by
  unfold recentlySigned; exact h.any_eq

/-- the whole seal check is invariant under permutation of the validator list and of the recents list
(up to the order in which the new record is prepended) -/
theorem verifySeal_accepts_perm {fx : Fix} {env : Env} {cs1 cs2 : ClientState} {st1 st2 : Store} {h : Header}
    (hv : cs1.validators.Perm cs2.validators) (hr : st1.recents.Perm st2.recents)
    (hh : cs1.head = cs2.head) (hc : cs1.chainId = cs2.chainId) :
    (verifySeal fx env cs1 st1 h).isOk = (verifySeal fx env cs2 st2 h).isOk := by
  unfold verifySeal
  rw [hc]
  cases env.recover cs2.chainId h with
  | none => rfl
  | some signer =>
    simp only [valSet_perm hv, recentlySigned_perm signer _ _ hr, inturn_perm _ _ hv, hh]
    repeat' split
    all_goals rfl

/-! ## runs -/

theorem mem_setSigner {e : Signer} {rs : List Signer} {rev num : Nat} {a : Addr} :
    e ∈ setSigner rs rev num a ↔ e = ⟨rev, num, a⟩ ∨ (e ∈ rs ∧ ¬(e.rev = rev ∧ e.num = num)) := by
  simp [setSigner, not_or_not_iff]

theorem mem_deleteSigner {e : Signer} {rs : List Signer} {rev num : Nat} :
    e ∈ deleteSigner rs rev num ↔ e ∈ rs ∧ ¬(e.rev = rev ∧ e.num = num) := by
  simp [deleteSigner, not_or_not_iff]

theorem mem_foldl_delete {e : Signer} {rev : Nat} (f : Nat → Nat) (l : List Nat) (rs : List Signer) :
    e ∈ l.foldl (fun rs i => deleteSigner rs rev (f i)) rs ↔ e ∈ rs ∧ ∀ i ∈ l, ¬(e.rev = rev ∧ e.num = f i) := by
  induction l generalizing rs with
  | nil => simp
  | cons i t ih =>
    simp only [List.foldl_cons, ih, mem_deleteSigner, List.mem_cons, forall_eq_or_imp]
    constructor
    · rintro ⟨⟨h1, h2⟩, h3⟩; exact ⟨h1, h2, h3⟩
    · rintro ⟨h1, h2, h3⟩; exact ⟨⟨h1, h2⟩, h3⟩

theorem length_insertSorted_le (a : Addr) (l : List Addr) : (insertSorted a l).length ≤ l.length + 1 := by
  induction l with
  | nil => simp [insertSorted]
  | cons b t ih =>
    unfold insertSorted
    split
    · simp
    · split
      · simp
      · simp only [List.length_cons]; omega

theorem length_valSet_le (vs : List Bytes) : (valSet vs).length ≤ vs.length := by
  induction vs with
  | nil => simp [valSet]
  | cons v t ih =>
    have : valSet (v :: t) = insertSorted (toAddr v) (valSet t) := rfl
    rw [this]
    have := length_insertSorted_le (toAddr v) (valSet t)
    simp only [List.length_cons]; omega

theorem rs1After_subset {cs : ClientState} {rs : List Signer} {pending : List Bytes} {h : Header} {e : Signer}
    (he : e ∈ rs1After cs rs pending h) : e ∈ rs := by
  unfold rs1After at he
  split at he
  · exact ((mem_foldl_delete _ _ _).1 he).1
  · exact he

theorem recentsAfter_subset {cs : ClientState} {rs : List Signer} {pending : List Bytes} {h : Header} {e : Signer}
    (he : e ∈ recentsAfter cs rs pending h) : e ∈ rs := by
  unfold recentsAfter at he
  split at he
  · exact rs1After_subset (mem_deleteSigner.1 he).1
  · exact rs1After_subset he

theorem shrink_target_ne {number oldLimit newLimit i k : Nat} (hn : number < two64) (ho : oldLimit ≤ two64)
    (hi : i < oldLimit - newLimit) (hk : k ≤ number) (hw : number < k + newLimit) :
    subU64 (subU64 number newLimit) i ≠ k := by
  unfold subU64 two64 at *
  omega

/-- a record at a height inside the window of the new set survives `update` -/
theorem mem_recentsAfter {cs : ClientState} {rs : List Signer} {pending : List Bytes} {h : Header} {e : Signer}
    (he : e ∈ rs) (hn : h.number < two64) (hlen : cs.validators.length < two64) (hk : e.num ≤ h.number)
    (hw : h.number ≤ e.num +
      (valSet (if h.number % cs.epoch = cs.validators.length / 2 then pending else cs.validators)).length / 2) :
    e ∈ recentsAfter cs rs pending h := by
  have hrs1 : e ∈ rs1After cs rs pending h := by
    unfold rs1After
    split
    · rename_i hsw
      rw [mem_foldl_delete (fun i => subU64 (subU64 h.number ((valSet pending).length / 2 + 1)) i)]
      refine ⟨he, ?_⟩
      intro i hi hc
      simp only [hsw, ↓reduceIte] at hw
      have hi' := List.mem_range.1 hi
      exact shrink_target_ne hn (by unfold two64 at *; omega) hi' hk (by omega) hc.2.symm
    · exact he
  unfold recentsAfter
  split
  · rename_i hge
    rw [mem_deleteSigner]
    refine ⟨hrs1, ?_⟩
    intro hc
    have hle := length_valSet_le (valsAfter cs pending h)
    unfold valsAfter at hle hge hc
    omega
  · exact hrs1

theorem createClient_ok {env : Env} {cs0 cs : ClientState} {st : Store}
    (hc : createClient env cs0 = .ok (cs, st)) :
    cs = cs0 ∧ cs0.epoch ≠ 0 ∧ cs0.head.number % cs0.epoch = 0 ∧
    ∃ signer pending, env.recover cs0.chainId cs0.head = some signer ∧ signer = toAddr cs0.head.coinbase
      ∧ parseValidators cs0.head.extra = some pending
      ∧ st = { recents := [⟨cs0.head.rev, cs0.head.number, signer⟩], pending := pending,
               cons := [⟨cs0.head.rev, cs0.head.number, cs0.head.time, cs0.head.root⟩] } := by
  unfold createClient at hc
  split at hc; · cases hc
  rename_i h1
  split at hc; · cases hc
  split at hc; · cases hc
  split at hc
  · cases hc
  · cases hc
  · split at hc; · cases hc
    rename_i h2
    split at hc
    · cases hc
    · rename_i signer hr
      split at hc; · cases hc
      rename_i h3
      split at hc
      · cases hc
      · rename_i pending hp
        simp only [Outcome.ok.injEq, Prod.mk.injEq] at hc
        exact ⟨hc.1.symm, h1, by simpa using h2, signer, pending, hr, by simpa using h3, hp, hc.2.symm⟩

/-- a client is never created at height 0-0, with epoch 0, or from an epoch header without validators -/
theorem createClient_guards {env : Env} {cs0 cs : ClientState} {st : Store}
    (hc : createClient env cs0 = .ok (cs, st)) :
    1 ≤ cs0.epoch ∧ cs0.chainId ≤ gasCap ∧ ¬(cs0.head.rev = 0 ∧ cs0.head.number = 0) ∧ st.pending ≠ [] := by
  obtain ⟨_, he, _, signer, pending, _, _, hp, hst⟩ := createClient_ok hc
  unfold createClient at hc
  split at hc; · cases hc
  split at hc; · cases hc
  rename_i h2
  split at hc; · cases hc
  rename_i h3
  refine ⟨by omega, by omega, h3, ?_⟩
  rw [hst]; simp only
  exact parseValidators_ne_nil hp

/-- Runs of the repaired client: `create` followed by accepted updates. `h0` is the initial head, `recs` the
accepted headers (most recent first) each with the number of distinct validators in force after it.
Side conditions = representability assumptions: header numbers are `uint64`, the head never reaches
2^64 − 1, validator lists have fewer than 2^64 entries. -/
inductive Trace (env : Env) : ClientState → Store → Header → List (Header × Nat) → Prop
  | create {cs0 cs : ClientState} {st : Store} :
      createClient env cs0 = .ok (cs, st) → cs.validators.length < two64 → Trace env cs st cs.head []
  | step {cs cs' : ClientState} {st st' : Store} {h0 h : Header} {recs : List (Header × Nat)} {bt : Nat} :
      Trace env cs st h0 recs → updateClient Fix.fixed env cs st bt h = .ok (cs', st') →
      h.number < two64 → cs.head.number + 1 < two64 → cs'.validators.length < two64 →
      Trace env cs' st' h0 ((h, (valSet cs'.validators).length) :: recs)

/-- all accepted headers, most recent first, ending with the initial head -/
def accepted (h0 : Header) (recs : List (Header × Nat)) : List Header := recs.map Prod.fst ++ [h0]

/-- first height from which the recent-signer store is complete -/
def compFrom (start : Nat) : List (Header × Nat) → Nat
  | [] => start
  | (h, n) :: rest => max (compFrom start rest) (h.number - n / 2)

structure Inv (env : Env) (cs : ClientState) (st : Store) (h0 : Header) (recs : List (Header × Nat)) : Prop where
  head_mem : cs.head ∈ accepted h0 recs
  le_head : ∀ x ∈ accepted h0 recs, x.number ≤ cs.head.number
  lens : cs.validators.length < two64
  lo_le : compFrom h0.number recs ≤ cs.head.number
  head_le : cs.head.number ≤ compFrom h0.number recs + (valSet cs.validators).length / 2
  complete : ∀ x ∈ accepted h0 recs, compFrom h0.number recs ≤ x.number →
      ∃ a, env.recover cs.chainId x = some a ∧ (⟨x.rev, x.number, a⟩ : Signer) ∈ st.recents
  sound : ∀ e ∈ st.recents, ∃ x ∈ accepted h0 recs, x.rev = e.rev ∧ x.number = e.num
      ∧ env.recover cs.chainId x = some e.addr

theorem trace_inv {env : Env} {cs : ClientState} {st : Store} {h0 : Header} {recs : List (Header × Nat)}
    (t : Trace env cs st h0 recs) : Inv env cs st h0 recs := by
  induction t with
  | create hc hl =>
    obtain ⟨hcs, _, _, signer, pending, hr, _, _, hst⟩ := createClient_ok hc
    subst hcs; subst hst
    refine ⟨by simp [accepted], ?_, hl, Nat.le_refl _, by simp [compFrom], ?_, ?_⟩
    · intro x hx; simp [accepted] at hx; rw [hx]; exact Nat.le_refl _
    · intro x hx _; simp [accepted] at hx; subst hx; exact ⟨signer, hr, by simp⟩
    · intro e he; simp at he; subst he; exact ⟨_, by simp [accepted], rfl, rfl, hr⟩
  | @step cs cs' st st' h0 h recs bt t hacc hu64 hnw hl' ih =>
    obtain ⟨hnum, _, _, signer', hr', _, _, _, _⟩ := accept_sound_core hacc hu64 hnw
    obtain ⟨signer, pending, hr, hp, hcs', hrec', _, _⟩ := step_effect hacc
    have hsig : signer' = signer := by rw [hr] at hr'; exact (Option.some.inj hr').symm
    have hvals : cs'.validators = (if h.number % cs.epoch = cs.validators.length / 2 then pending else cs.validators) := by
      rw [hcs']
    have hchain : cs'.chainId = cs.chainId := by rw [hcs']
    have hhead : cs'.head = h := by rw [hcs']
    have hacc_eq : accepted h0 ((h, (valSet cs'.validators).length) :: recs) = h :: accepted h0 recs := rfl
    have hcf : compFrom h0.number ((h, (valSet cs'.validators).length) :: recs)
        = max (compFrom h0.number recs) (h.number - (valSet cs'.validators).length / 2) := rfl
    refine ⟨?_, ?_, hl', ?_, ?_, ?_, ?_⟩
    · rw [hacc_eq, hhead]; exact List.mem_cons_self
    · intro x hx
      rw [hacc_eq] at hx; rw [hhead]
      rcases List.mem_cons.1 hx with e | m
      · rw [e]; exact Nat.le_refl _
      · have := ih.le_head x m; omega
    · rw [hcf, hhead]; have := ih.lo_le; omega
    · rw [hcf, hhead]; omega
    · intro x hx hlo
      rw [hacc_eq] at hx; rw [hcf] at hlo; rw [hchain, hrec']
      rcases List.mem_cons.1 hx with e | m
      · subst e
        refine ⟨signer, hr, ?_⟩
        apply mem_recentsAfter (mem_setSigner.2 (Or.inl rfl)) hu64 ih.lens (Nat.le_refl _)
        rw [← hvals]
        show x.number ≤ x.number + (valSet cs'.validators).length / 2
        omega
      · obtain ⟨a, hra, hmem⟩ := ih.complete x m (by omega)
        refine ⟨a, hra, ?_⟩
        have hxle := ih.le_head x m
        apply mem_recentsAfter (mem_setSigner.2 (Or.inr ⟨hmem, by simp only; omega⟩)) hu64 ih.lens
        · simp only; omega
        · rw [← hvals]; simp only; omega
    · intro e he
      rw [hrec'] at he
      have he' := recentsAfter_subset he
      rw [hacc_eq, hchain]
      rcases mem_setSigner.1 he' with e1 | ⟨m, _⟩
      · subst e1; exact ⟨h, List.mem_cons_self, rfl, rfl, hr⟩
      · obtain ⟨x, hx, h1, h2, h3⟩ := ih.sound e m
        exact ⟨x, List.mem_cons_of_mem _ hx, h1, h2, h3⟩

/-- over runs of the repaired client every accepted header carries the revision number of the initial head -/
theorem rev_constant {env : Env} {cs : ClientState} {st : Store} {h0 : Header} {recs : List (Header × Nat)}
    (t : Trace env cs st h0 recs) : cs.head.rev = h0.rev ∧ ∀ x ∈ accepted h0 recs, x.rev = h0.rev := by
  induction t with
  | create hc hl =>
    refine ⟨rfl, ?_⟩
    intro x hx; simp [accepted] at hx; rw [hx]
  | @step cs cs' st st' h0 h recs bt t hacc hu64 hnw hl' ih =>
    obtain ⟨h1, h2⟩ := accepted_same_revision hacc
    refine ⟨by rw [h2]; exact ih.1, ?_⟩
    intro x hx
    have hacc_eq : accepted h0 ((h, (valSet cs'.validators).length) :: recs) = h :: accepted h0 recs := rfl
    rw [hacc_eq] at hx
    rcases List.mem_cons.1 hx with e | m
    · rw [e, h1]; exact ih.1
    · exact ih.2 x m

/-- **recents_invariant** (over runs of the repaired client). With `lo = compFrom …` (≥ head − ⌊N/2⌋):
the store holds the sealer of *every* accepted height in `[lo, head]`, every entry of the store is the
genuine sealer record of an accepted height, and `lo ≤ head ≤ lo + ⌊N/2⌋`; `compFrom_stable` shows that
`lo = head − ⌊N/2⌋` (i.e. exactly the last ⌊N/2⌋+1 heights are covered) once the run is longer than the
window and the set did not grow inside it. -/
theorem recents_invariant {env : Env} {cs : ClientState} {st : Store} {h0 : Header} {recs : List (Header × Nat)}
    (t : Trace env cs st h0 recs) :
    (∀ x ∈ accepted h0 recs, compFrom h0.number recs ≤ x.number →
        ∃ a, env.recover cs.chainId x = some a ∧ (⟨x.rev, x.number, a⟩ : Signer) ∈ st.recents)
    ∧ (∀ e ∈ st.recents, ∃ x ∈ accepted h0 recs, x.rev = e.rev ∧ x.number = e.num
        ∧ env.recover cs.chainId x = some e.addr)
    ∧ compFrom h0.number recs ≤ cs.head.number
    ∧ cs.head.number ≤ compFrom h0.number recs + (valSet cs.validators).length / 2 :=
  let i := trace_inv t
  ⟨i.complete, i.sound, i.lo_le, i.head_le⟩

/-- **accept_sound over runs**: the accepted header's sealer sealed none of the accepted heights
`k` with `max lo (head + 1 − ⌊N/2⌋) ≤ k ≤ head`. -/
theorem accept_sound_run {env : Env} {cs cs' : ClientState} {st st' : Store} {h0 h : Header}
    {recs : List (Header × Nat)} {bt : Nat}
    (t : Trace env cs st h0 recs)
    (hacc : updateClient Fix.fixed env cs st bt h = .ok (cs', st'))
    (hu64 : h.number < two64) (hnum : cs.head.number + 1 < two64) :
    ∃ signer, env.recover cs.chainId h = some signer ∧
      ∀ x ∈ accepted h0 recs, compFrom h0.number recs ≤ x.number →
        cs.head.number + 1 ≤ x.number + (valSet cs.validators).length / 2 →
        env.recover cs.chainId x ≠ some signer := by
  obtain ⟨hn, _, _, signer, hr, _, _, hwin, _⟩ := accept_sound_core hacc hu64 hnum
  refine ⟨signer, hr, ?_⟩
  intro x hx hlo hw hsame
  obtain ⟨a, hra, hmem⟩ := (trace_inv t).complete x hx hlo
  rw [hra] at hsame
  have := hwin _ hmem (by simp only; omega)
  exact this (Option.some.inj hsame)

theorem compFrom_le {start B : Nat} {recs : List (Header × Nat)} (hs : start ≤ B)
    (h : ∀ r ∈ recs, r.1.number - r.2 / 2 ≤ B) : compFrom start recs ≤ B := by
  induction recs with
  | nil => exact hs
  | cons r t ih =>
    obtain ⟨x, n⟩ := r
    have h1 := h (x, n) List.mem_cons_self
    have h2 := ih (fun r hr => h r (List.mem_cons_of_mem _ hr))
    simp only [compFrom] at *
    omega

/-- after the start-up phase and without growth inside the window the complete zone is the full window -/
theorem compFrom_stable {env : Env} {cs : ClientState} {st : Store} {h0 : Header} {recs : List (Header × Nat)}
    (t : Trace env cs st h0 recs)
    (hstart : h0.number + (valSet cs.validators).length / 2 ≤ cs.head.number)
    (hstable : ∀ r ∈ recs, cs.head.number < r.1.number + (valSet cs.validators).length / 2 →
        (valSet cs.validators).length ≤ r.2) :
    compFrom h0.number recs = cs.head.number - (valSet cs.validators).length / 2 := by
  have i := trace_inv t
  apply Nat.le_antisymm
  · apply compFrom_le (by omega)
    intro r hr
    have hle := i.le_head r.1 (by simp [accepted]; exact Or.inl ⟨r.2, hr⟩)
    by_cases hw : cs.head.number < r.1.number + (valSet cs.validators).length / 2
    · have := hstable r hr hw; omega
    · omega
  · have := i.head_le; omega

/-- **accept_sound, full window** (the statement of DESIGN.md 5/C09): once the client has run for ⌊N/2⌋
blocks and the set did not grow inside the window, the sealer of an accepted header sealed *none of the
last ⌊N/2⌋ blocks*. -/
theorem accept_sound_full {env : Env} {cs cs' : ClientState} {st st' : Store} {h0 h : Header}
    {recs : List (Header × Nat)} {bt : Nat}
    (t : Trace env cs st h0 recs)
    (hacc : updateClient Fix.fixed env cs st bt h = .ok (cs', st'))
    (hu64 : h.number < two64) (hnum : cs.head.number + 1 < two64)
    (hstart : h0.number + (valSet cs.validators).length / 2 ≤ cs.head.number)
    (hstable : ∀ r ∈ recs, cs.head.number < r.1.number + (valSet cs.validators).length / 2 →
        (valSet cs.validators).length ≤ r.2) :
    ∃ signer, env.recover cs.chainId h = some signer ∧
      ∀ x ∈ accepted h0 recs, cs.head.number + 1 ≤ x.number + (valSet cs.validators).length / 2 →
        env.recover cs.chainId x ≠ some signer := by
  obtain ⟨signer, hr, hall⟩ := accept_sound_run t hacc hu64 hnum
  refine ⟨signer, hr, ?_⟩
  intro x hx hw
  apply hall x hx _ hw
  rw [compFrom_stable t hstart hstable]; omega

/-- over runs the stored pending list is the list carried by the last accepted epoch header (so, with
`valset_changes_only_at_offset`, a new validator set is always that list) and the epoch never changes -/
theorem pending_is_last_epoch_list {env : Env} {cs : ClientState} {st : Store} {h0 : Header}
    {recs : List (Header × Nat)} (t : Trace env cs st h0 recs) :
    ∃ x ∈ accepted h0 recs, x.number % cs.epoch = 0 ∧ parseValidators x.extra = some st.pending
      ∧ ∀ y ∈ accepted h0 recs, y.number % cs.epoch = 0 → y.number ≤ x.number := by
  induction t with
  | create hc hl =>
    obtain ⟨hcs, _, h0e, signer, pending, _, _, hp, hst⟩ := createClient_ok hc
    subst hcs; subst hst
    refine ⟨_, by simp [accepted], h0e, hp, ?_⟩
    intro y hy _; simp [accepted] at hy; rw [hy]; exact Nat.le_refl _
  | @step cs cs' st st' h0 h recs bt t hacc hu64 hnw hl' ih =>
    obtain ⟨x, hx, hx0, hxp, hxmax⟩ := ih
    obtain ⟨hnum, _⟩ := accept_sound_core hacc hu64 hnw
    obtain ⟨_, _, hep, _, _⟩ := valset_changes_only_at_offset hacc
    obtain ⟨hp0, hp1⟩ := pending_recorded_at_epoch hacc
    have hle := (trace_inv t).le_head
    have hacc_eq : accepted h0 ((h, (valSet cs'.validators).length) :: recs) = h :: accepted h0 recs := rfl
    rw [hacc_eq, hep]
    by_cases h0 : h.number % cs.epoch = 0
    · refine ⟨h, List.mem_cons_self, h0, hp0 h0, ?_⟩
      intro y hy _
      rcases List.mem_cons.1 hy with e | m
      · rw [e]; exact Nat.le_refl _
      · have := hle y m; omega
    · refine ⟨x, List.mem_cons_of_mem _ hx, hx0, by rw [hp1 h0]; exact hxp, ?_⟩
      intro y hy hy0
      rcases List.mem_cons.1 hy with e | m
      · rw [e] at hy0; exact absurd hy0 h0
      · exact hxmax y m hy0

/-! ## frame: a client's accept set depends on its own committed state only -/

theorem applyOp_untouched {env : Env} {w : World} {op : Op} {c : Nat} (h : op.touches c = false) :
    (applyOp env w op).1 c = w c := by
  cases op with
  | create i cs0 =>
    simp only [Op.touches, beq_eq_false_iff_ne, ne_eq] at h
    simp only [applyOp]
    cases w i with
    | some s => rfl
    | none =>
      simp only
      cases createClient env cs0 <;> simp [World.set, Ne.symm h]
  | update i bt hd =>
    simp only [Op.touches, beq_eq_false_iff_ne, ne_eq] at h
    simp only [applyOp]
    cases w i with
    | none => rfl
    | some s =>
      obtain ⟨cs, st⟩ := s
      simp only
      cases updateClient Fix.fixed env cs st bt hd <;> simp [World.set, Ne.symm h]
  | dry i bt hd =>
    simp only [applyOp]
    cases w i with
    | none => rfl
    | some s => rfl
  | upgrade i cs1 bt =>
    simp only [Op.touches, beq_eq_false_iff_ne, ne_eq] at h
    simp only [applyOp]
    cases w i with
    | none => rfl
    | some s =>
      obtain ⟨cs, st⟩ := s
      simp only
      cases upgradeClient env st cs1 bt <;> simp [World.set, Ne.symm h]
  | restart => rfl

theorem applyOp_congr {env : Env} {w w' : World} {op : Op} {c : Nat} (hw : w c = w' c) (h : op.touches c = true) :
    (applyOp env w op).1 c = (applyOp env w' op).1 c ∧ (applyOp env w op).2 = (applyOp env w' op).2 := by
  cases op with
  | create i cs0 =>
    simp only [Op.touches, beq_iff_eq] at h
    subst h
    simp only [applyOp]
    rw [hw]
    cases w' i with
    | some s => exact ⟨hw, rfl⟩
    | none =>
      simp only
      cases createClient env cs0 with
      | ok s => simp [World.set]
      | err e => exact ⟨hw, rfl⟩
      | panic p => exact ⟨hw, rfl⟩
  | update i bt hd =>
    simp only [Op.touches, beq_iff_eq] at h
    subst h
    simp only [applyOp]
    rw [hw]
    cases w' i with
    | none => exact ⟨hw, rfl⟩
    | some s =>
      obtain ⟨cs, st⟩ := s
      simp only
      cases updateClient Fix.fixed env cs st bt hd with
      | ok s => simp [World.set]
      | err e => exact ⟨hw, rfl⟩
      | panic p => exact ⟨hw, rfl⟩
  | dry i bt hd => simp [Op.touches] at h
  | upgrade i cs1 bt =>
    simp only [Op.touches, beq_iff_eq] at h
    subst h
    simp only [applyOp]
    rw [hw]
    cases w' i with
    | none => exact ⟨hw, rfl⟩
    | some s =>
      obtain ⟨cs, st⟩ := s
      simp only
      cases upgradeClient env st cs1 bt with
      | ok s => simp [World.set]
      | err e => exact ⟨hw, rfl⟩
      | panic p => exact ⟨hw, rfl⟩
  | restart => simp [Op.touches] at h

/-- **frame**: the committed state of client `c` after a history is the state after the sub-history of the
operations that address `c` — operations on other clients and discarded executions (`dry`, on any client,
including `c` itself) are invisible. -/
theorem frame {env : Env} (c : Nat) (ops : List Op) :
    ∀ {w w' : World}, w c = w' c → runOps env w ops c = runOps env w' (ops.filter (Op.touches c)) c := by
  induction ops with
  | nil => intro w w' hw; exact hw
  | cons op rest ih =>
    intro w w' hw
    unfold runOps
    simp only [List.foldl_cons]
    cases ht : op.touches c with
    | false =>
      simp only [List.filter_cons, ht]
      exact ih (by rw [applyOp_untouched ht]; exact hw)
    | true =>
      simp only [List.filter_cons, ht, ↓reduceIte, List.foldl_cons]
      exact ih (applyOp_congr hw ht).1

/-- **accept set independence**: whether (and with which result) client `c` accepts header `h` after a history
does not depend on what was verified elsewhere or in discarded executions — in particular a header whose seal was
checked before (on another client, or in a dropped context) is judged exactly as if it had never been seen, and
so is any copy of it with another seal. -/
theorem accept_independent {env : Env} (c : Nat) (ops : List Op) (w : World) (bt : Nat) (h : Header) :
    (applyOp env (runOps env w ops) (.update c bt h)).2
      = (applyOp env (runOps env w (ops.filter (Op.touches c))) (.update c bt h)).2
    ∧ (applyOp env (runOps env w ops) (.dry c bt h)).2
      = (applyOp env (runOps env w (ops.filter (Op.touches c))) (.dry c bt h)).2 := by
  have hf := frame (env := env) c ops (w := w) (w' := w) rfl
  constructor
  · exact (applyOp_congr hf (by simp [Op.touches])).2
  · simp only [applyOp]; rw [hf]
    cases runOps env w (List.filter (Op.touches c) ops) c with
    | none => rfl
    | some s => rfl

/-- **restart_identity**: export + re-import of the hosting chain is the identity on every client: client state,
consensus states, recent signers and the pending validator set are what they were. -/
theorem restart_identity {env : Env} (w : World) : applyOp env w .restart = (w, .ok ()) := rfl

def Op.isRestart : Op → Bool
  | .restart => true
  | _ => false

/-- restarts are invisible: the state of every client after a history is its state after the same history with the
restarts removed (wherever they occur: between an epoch header and its switch, right after a switch or an upgrade,
with recent-signer records present). -/
theorem restarts_invisible {env : Env} (c : Nat) (ops : List Op) (w : World) :
    runOps env w ops c = runOps env w (ops.filter (fun o => !o.isRestart)) c := by
  rw [frame c ops (w := w) (w' := w) rfl, frame c (ops.filter (fun o => !o.isRestart)) (w := w) (w' := w) rfl]
  congr 1
  rw [List.filter_filter]
  apply List.filter_congr
  intro o _
  cases o <;> simp [Op.touches, Op.isRestart]

/-- the rule theorems over arbitrary histories (creates, updates, upgrades, discarded executions, other clients,
restarts): whatever history led to the committed state of client `c`, a header it then accepts satisfies
`accept_sound`, the set-switch rule and `accepted_root_stored`. -/
theorem rules_over_histories {env : Env} (ops : List Op) (w : World) (c bt : Nat) (h : Header)
    {cs : ClientState} {st : Store}
    (hc : runOps env w ops c = some (cs, st))
    (hok : (applyOp env (runOps env w ops) (.update c bt h)).2 = .ok ())
    (hu64 : h.number < two64) (hnum : cs.head.number + 1 < two64) (hgas : cs.head.gasLimit < two63) :
    ∃ cs' st', runOps env w (ops ++ [.update c bt h]) c = some (cs', st')
      ∧ updateClient Fix.fixed env cs st bt h = .ok (cs', st')
      -- accept_sound
      ∧ h.number = cs.head.number + 1 ∧ toHash h.parentHash = env.hash cs.head ∧ StructurallyValid cs h
      ∧ (∃ signer, env.recover cs.chainId h = some signer ∧ signer = toAddr h.coinbase ∧ signer ∈ valSet cs.validators
          ∧ (∀ e ∈ st.recents, h.number ≤ e.num + (valSet cs.validators).length / 2 → e.addr ≠ signer)
          ∧ beNat h.difficulty = (if inturn cs.validators cs.head.number signer then 2 else 1))
      -- the set changes only at the offset, to the pending list
      ∧ (cs'.validators ≠ cs.validators →
          h.number % cs.epoch = cs.validators.length / 2 ∧ pendingAfter st cs h = some cs'.validators)
      -- accepted_root_stored
      ∧ lookupCons st'.cons h.rev h.number = some ⟨h.rev, h.number, h.time, h.root⟩ := by
  simp only [applyOp, hc] at hok
  cases hu : updateClient Fix.fixed env cs st bt h with
  | err e => simp [hu] at hok
  | panic p => simp [hu] at hok
  | ok s =>
    obtain ⟨cs', st'⟩ := s
    obtain ⟨h1, h2, h3, h4⟩ := accept_sound hu hu64 hnum hgas
    refine ⟨cs', st', ?_, rfl, h1, h2, h3, h4, (valset_changes_only_at_offset hu).1, (accepted_root_stored hu).1⟩
    unfold runOps
    rw [List.foldl_append]
    simp only [List.foldl_cons, List.foldl_nil]
    show (applyOp env (runOps env w ops) (.update c bt h)).1 c = some (cs', st')
    simp only [applyOp, hc, hu, World.set, ↓reduceIte]

/-- a discarded execution changes nothing, whatever it verified -/
theorem dry_changes_nothing {env : Env} (w : World) (i bt : Nat) (h : Header) :
    (applyOp env w (.dry i bt h)).1 = w := by
  simp only [applyOp]
  cases w i with
  | none => rfl
  | some s => rfl

/-- the verdict of an update is the verdict of `updateClient` on the client's committed state and the header:
two submissions of the same header to the same committed state get the same verdict, and a header is accepted
only with its own recovered signer (`accept_sound`) — there is no other input. -/
theorem update_verdict {env : Env} (w : World) (c bt : Nat) (h : Header) (cs : ClientState) (st : Store)
    (hc : w c = some (cs, st)) :
    (applyOp env w (.update c bt h)).2 = verdict (updateClient Fix.fixed env cs st bt h)
    ∧ (applyOp env w (.dry c bt h)).2 = verdict (updateClient Fix.fixed env cs st bt h) := by
  simp only [applyOp]
  rw [hc]
  simp only
  constructor
  · cases updateClient Fix.fixed env cs st bt h <;> rfl
  · trivial

/-! ## concrete runs: non-vacuity, and the witnesses of the defects of the code as found -/

/-- create, then a list of `(blockTime, header)` updates; stops at the first failure; also checks the
representability side conditions of `Trace` -/
def runFrom (fx : Fix) (env : Env) : ClientState × Store → List (Nat × Header) → Outcome (ClientState × Store)
  | s, [] => .ok s
  | (cs, st), (bt, h) :: rest =>
    match updateClient fx env cs st bt h with
    | .ok s' =>
      if h.number < two64 ∧ cs.head.number + 1 < two64 ∧ s'.1.validators.length < two64 then runFrom fx env s' rest
      else .err "bounds"
    | .err e => .err e
    | .panic p => .panic p

def run (fx : Fix) (env : Env) (cs0 : ClientState) (l : List (Nat × Header)) : Outcome (ClientState × Store) :=
  match createClient env cs0 with
  | .ok s => if s.1.validators.length < two64 then runFrom fx env s l else .err "bounds"
  | .err e => .err e
  | .panic p => .panic p

theorem trace_of_runFrom {env : Env} {h0 : Header} (l : List (Nat × Header)) :
    ∀ {cs cs' : ClientState} {st st' : Store} {recs : List (Header × Nat)},
      Trace env cs st h0 recs → runFrom Fix.fixed env (cs, st) l = .ok (cs', st') →
      ∃ recs', Trace env cs' st' h0 recs' ∧ recs'.length = recs.length + l.length := by
  induction l with
  | nil =>
    intro cs cs' st st' recs t hr
    simp only [runFrom, Outcome.ok.injEq, Prod.mk.injEq] at hr
    obtain ⟨h1, h2⟩ := hr; subst h1; subst h2
    exact ⟨recs, t, rfl⟩
  | cons x rest ih =>
    intro cs cs' st st' recs t hr
    obtain ⟨bt, h⟩ := x
    unfold runFrom at hr
    cases hu : updateClient Fix.fixed env cs st bt h with
    | err e => simp [hu] at hr
    | panic p => simp [hu] at hr
    | ok s1 =>
      obtain ⟨cs1, st1⟩ := s1
      simp only [hu] at hr
      split at hr
      · rename_i hb
        obtain ⟨recs', t', hl⟩ := ih (Trace.step t hu hb.1 hb.2.1 hb.2.2) hr
        exact ⟨recs', t', by simp only [List.length_cons] at hl ⊢; omega⟩
      · cases hr

theorem trace_of_run {env : Env} {cs0 cs : ClientState} {st : Store} {l : List (Nat × Header)}
    (hr : run Fix.fixed env cs0 l = .ok (cs, st)) :
    ∃ recs, Trace env cs st cs0.head recs ∧ recs.length = l.length := by
  unfold run at hr
  cases hc : createClient env cs0 with
  | err e => simp [hc] at hr
  | panic p => simp [hc] at hr
  | ok s =>
    obtain ⟨cs1, st1⟩ := s
    simp only [hc] at hr
    split at hr
    · rename_i hb
      have h1 : cs1 = cs0 := (createClient_ok hc).1
      have t := Trace.create hc hb
      rw [h1] at t
      obtain ⟨recs, t', hl⟩ := trace_of_runFrom l t (by rw [← h1]; exact hr)
      exact ⟨recs, t', by simpa using hl⟩
    · cases hr

namespace Witness

/-- test environment: the sealer is the coinbase (a validly sealed header), the hash is `number + 1000` -/
def env : Env := { hash := fun h => h.number + 1000, recover := fun _ h => some (toAddr h.coinbase) }

def uncle : Bytes :=
  [0x1d,0xcc,0x4d,0xe8,0xde,0xc7,0x5d,0x7a,0xab,0x85,0xb5,0x67,0xb6,0xcc,0xd4,0x1a,
   0xd3,0x12,0x45,0x1b,0x94,0x8a,0x74,0x13,0xf0,0xa1,0x42,0xfd,0x40,0xd4,0x93,0x47]

def addrBytes (a : Nat) : Bytes := List.replicate 19 0 ++ [UInt8.ofNat a]

/-- extra data: 32 bytes vanity, the validator list (addresses 1..n), 65 bytes seal -/
def extraOf (vals : List Nat) : Bytes :=
  List.replicate 32 0 ++ (vals.map addrBytes).flatten ++ List.replicate 65 0

/-- header `num` sealed by validator `who` with difficulty `diff`, time `time` -/
def hdr (num who diff time : Nat) (vals : List Nat := []) : Header :=
  { rev := 0, number := num,
    parentHash := [UInt8.ofNat ((num + 999) / 256), UInt8.ofNat ((num + 999) % 256)],
    uncleHash := uncle, coinbase := [UInt8.ofNat who], root := [UInt8.ofNat num], txHash := [], receiptHash := [],
    bloom := [], difficulty := [UInt8.ofNat diff], gasLimit := 30000000, gasUsed := 21000, time := time,
    extra := extraOf vals, mixDigest := [], nonce := [] }

def client (epoch tp : Nat) (vals : List Nat) (head : Header) : ClientState :=
  { head := head, chainId := 56, epoch := epoch, validators := vals.map addrBytes, trustingPeriod := tp }

/-! ### F9 — code as found: while `number < limit` the uint64 subtraction wraps and the window test is off -/

def oneClientE : ClientState := client 4 1000 [1] (hdr 4 1 2 100 [1])

def f9Client : ClientState := client 2 1000 [1, 2, 3, 4, 5, 6] (hdr 2 1 2 100 [1, 2, 3, 4, 5, 6])

/-- six validators (limit 4, ⌊N/2⌋ = 3), epoch 2, client created at height 2 whose sealer is validator 1 (a client
cannot be created at height 0-0 any more); header 3 is sealed by 1 again: `3 - 4` wraps, the code as found
accepts it, the repaired code rejects it. -/
theorem asFound_accepts_recent_signer_below_limit :
    (run Fix.asFound env f9Client [(0, hdr 3 1 1 103)]).isOk = true
    ∧ (run Fix.fixed env f9Client [(0, hdr 3 1 1 103)]).isOk = false
    ∧ env.recover 56 (hdr 3 1 1 103) = env.recover 56 f9Client.head
    ∧ (valSet f9Client.validators).length / 2 = 3 := by
  refine ⟨by decide +kernel, by decide +kernel, by decide +kernel, by decide +kernel⟩

/-- the guards of `ClientState.Validate`: no client at height 0-0, none from an epoch header without validators -/
theorem create_rejects_height_zero_and_empty_list :
    (run Fix.fixed env (client 100 1000 [1, 2] (hdr 0 1 2 100 [1, 2])) []).isOk = false
    ∧ (run Fix.fixed env (client 100 1000 [1, 2] (hdr 100 1 2 100 [])) []).isOk = false
    ∧ (run Fix.fixed env (client 100 1000 [1, 2] (hdr 100 1 2 100 [1, 2])) []).isOk = true
    -- an epoch header announcing an empty list is refused (it would leave the client without validators)
    ∧ (run Fix.fixed env oneClientE [(0, hdr 5 1 2 103), (0, hdr 6 1 2 106), (0, hdr 7 1 2 109), (0, hdr 8 1 2 112 [])]).isOk = false
    ∧ (run Fix.fixed env oneClientE [(0, hdr 5 1 2 103), (0, hdr 6 1 2 106), (0, hdr 7 1 2 109), (0, hdr 8 1 2 112 [1])]).isOk = true := by
  refine ⟨by decide +kernel, by decide +kernel, by decide +kernel, by decide +kernel, by decide +kernel⟩

/-! ### F9b — code as found: expiry of the earliest consensus state deletes the recent-signer record of its height -/

def six : List Nat := [1, 2, 3, 4, 5, 6]

def f9bClient : ClientState := client 100 5 six (hdr 100 1 2 100 six)

def f9bBlocks : List (Nat × Header) := [(101, hdr 101 2 1 200), (110, hdr 102 3 1 200)]

/-- six validators (⌊N/2⌋ = 3), trusting period 5, client created at height 100 (sealed by validator 1). While
height 102 is accepted (block time 110) the consensus state of height 100 — the earliest one — expires and, in the
code as found, takes the recent-signer record of height 100 with it, so validator 1 is accepted again at
height 103 (distance 3). The repaired code keeps the record and rejects. -/
theorem asFound_accepts_recent_signer_after_expiry :
    (run Fix.asFound env f9bClient (f9bBlocks ++ [(111, hdr 103 1 1 200)])).isOk = true
    ∧ (run Fix.fixed env f9bClient f9bBlocks).isOk = true
    ∧ (run Fix.fixed env f9bClient (f9bBlocks ++ [(111, hdr 103 1 1 200)])).isOk = false
    ∧ (run ⟨true, false, true⟩ env f9bClient (f9bBlocks ++ [(111, hdr 103 1 1 200)])).isOk = true
    ∧ env.recover 56 (hdr 103 1 1 200) = env.recover 56 f9bClient.head
    ∧ (valSet f9bClient.validators).length / 2 = 3 := by
  refine ⟨by decide +kernel, by decide +kernel, by decide +kernel, by decide +kernel, by decide +kernel, by decide +kernel⟩

/-! ### known finding — thin window right after the validator set grew (identical to upstream Parlia) -/

def growClient : ClientState := client 4 1000 [1, 2, 3] (hdr 4 1 2 100 [1, 2, 3])

def nine : List Nat := [1, 2, 3, 4, 5, 6, 7, 8, 9]

def growBlocks : List (Nat × Header) :=
  [(0, hdr 5 2 1 103), (0, hdr 6 1 2 106), (0, hdr 7 2 2 109), (0, hdr 8 3 2 112 nine), (0, hdr 9 2 1 115),
   (0, hdr 10 1 1 118)]

/-- the set grows from 3 to 9 validators at height 9 (announced by epoch header 8). Validator 1 sealed
height 6; its record was dropped on the schedule of the 3-validator set (at height 8). Header 10 sealed by
validator 1 is accepted although 10 − 6 = 4 ≤ ⌊9/2⌋: the full-window statement does not hold right after a
growth (`accept_sound_full` needs `hstable`). The repaired client is a `Trace` here — also the non-vacuity
example for the hypotheses of the run theorems. -/
theorem growth_thin_window :
    (∃ cs st recs, run Fix.fixed env growClient growBlocks = .ok (cs, st)
        ∧ Trace env cs st growClient.head recs ∧ recs.length = 6
        ∧ (valSet cs.validators).length = 9)
    ∧ env.recover 56 (hdr 10 1 1 118) = env.recover 56 (hdr 6 1 2 106)
    ∧ 10 - 6 ≤ 9 / 2 := by
  refine ⟨?_, by decide +kernel, by decide +kernel⟩
  have hok : (run Fix.fixed env growClient growBlocks).isOk = true := by decide +kernel
  cases hr : run Fix.fixed env growClient growBlocks with
  | err e => rw [hr] at hok; simp [Outcome.isOk] at hok
  | panic p => rw [hr] at hok; simp [Outcome.isOk] at hok
  | ok s =>
    obtain ⟨cs, st⟩ := s
    obtain ⟨recs, t, hl⟩ := trace_of_run hr
    refine ⟨cs, st, recs, rfl, t, hl, ?_⟩
    have : (match run Fix.fixed env growClient growBlocks with
            | .ok s => (valSet s.1.validators).length | _ => 0) = 9 := by decide +kernel
    rw [hr] at this; exact this

/-! ### offset 0 — a single validator hands over to a different single validator at the epoch header itself -/

def oneClient : ClientState := client 4 1000 [1] (hdr 4 1 2 100 [1])

def oneBlocks : List (Nat × Header) :=
  [(0, hdr 5 1 2 103), (0, hdr 6 1 2 106), (0, hdr 7 1 2 109), (0, hdr 8 1 2 112 [2])]

/-- epoch 4, client at height 4 with the set {1}; epoch header 8 (sealed by 1) carries [2]: the set is {2} from
header 8 on — header 9 sealed by the retired validator 1 is refused, sealed by 2 it is accepted. -/
theorem handover_at_offset_0 :
    (match run Fix.fixed env oneClient oneBlocks with
      | .ok s => some (s.1.validators, s.2.pending)
      | _ => none) = some ([addrBytes 2], [addrBytes 2])
    ∧ (run Fix.fixed env oneClient (oneBlocks ++ [(0, hdr 9 1 2 115)])).isOk = false
    ∧ (run Fix.fixed env oneClient (oneBlocks ++ [(0, hdr 9 2 2 115)])).isOk = true := by
  refine ⟨by decide +kernel, by decide +kernel, by decide +kernel⟩

/-! ### reorganisation repaired by an upgrade: branch B overwrites the roots branch A left behind -/

def branchBHead : Header := { hdr 4 1 2 100 [1, 2, 3] with root := [0xAA] }

def reorgOps : List Op :=
  [.create 0 growClient, .update 0 0 (hdr 5 2 1 103), .update 0 0 (hdr 6 1 2 106),
   .upgrade 0 { growClient with head := branchBHead } 0,
   .update 0 0 { hdr 5 2 1 103 with root := [0xBB] }]

def rootAt (s : Option (ClientState × Store)) (num : Nat) : Option Bytes :=
  match s with
  | some (_, st) => (lookupCons st.cons 0 num).map (fun c => c.root)
  | none => none

def headNumber (s : Option (ClientState × Store)) : Option Nat := s.map (fun p => p.1.head.number)

/-- the client follows branch A (5, 6), is upgraded back to another header at height 4, then accepts branch B's
header 5: the state of height 5 is branch B's root, height 4 is the new head's root, height 6 (not yet re-written)
still holds branch A's root — the upgrade keeps it, the next accepted header 6 will overwrite it. -/
theorem reorg_overwrites_root :
    headNumber (runOps env World.empty reorgOps 0) = some 5
    ∧ rootAt (runOps env World.empty reorgOps 0) 4 = some [0xAA]
    ∧ rootAt (runOps env World.empty reorgOps 0) 5 = some [0xBB]
    ∧ rootAt (runOps env World.empty reorgOps 0) 6 = some [6]
    ∧ rootAt (runOps env World.empty (reorgOps.take 3) 0) 5 = some [5] := by
  refine ⟨by decide +kernel, by decide +kernel, by decide +kernel, by decide +kernel, by decide +kernel⟩

/-! ### F14 — code as found: a header is accepted under ANY revision number -/

def rootOf (st : Store) (rev num : Nat) : Option Bytes := (lookupCons st.cons rev num).map (fun c => c.root)

/-- branch A (5, 6) at revision 0, upgrade back to another header at height 4, branch B (5, 6) submitted under
revision 7 with `fx`: `(head revision, head number, root stored at 0-6, root stored at 7-6)` -/
def otherRevisionRun (fx : Fix) : Option (Nat × Nat × Option Bytes × Option Bytes) :=
  match createClient env growClient with
  | .ok (cs, st) =>
    match updateClient fx env cs st 0 (hdr 5 2 1 103) with
    | .ok (cs, st) =>
      match updateClient fx env cs st 0 (hdr 6 1 2 106) with
      | .ok (_, st) =>
        match upgradeClient env st { growClient with head := branchBHead } 0 with
        | .ok (cs, st) =>
          match updateClient fx env cs st 0 { hdr 5 2 1 103 with root := [0xBB], rev := 7 } with
          | .ok (cs, st) =>
            match updateClient fx env cs st 0 { hdr 6 3 1 106 with root := [0xCC], rev := 7 } with
            | .ok (cs, st) => some (cs.head.rev, cs.head.number, rootOf st 0 6, rootOf st 7 6)
            | _ => none
          | _ => none
        | _ => none
      | _ => none
    | _ => none
  | _ => none

/-- the code as found accepts branch B under revision 7: the head is 7-6, and the consensus state 0-6 still holds
the root of the ABANDONED branch A at a block number the head has reached (packet proofs at height 0-6 verify
against it). The repaired code refuses the first header of another revision; fed under revision 0, branch B
overwrites 0-5 and 0-6 (`reorg_overwrites_root`, `accepted_root_stored`). -/
theorem asFound_accepts_other_revision :
    otherRevisionRun Fix.asFound = some (7, 6, some [6], some [0xCC])
    ∧ otherRevisionRun Fix.fixed = none
    ∧ otherRevisionRun ⟨true, true, false⟩ = some (7, 6, some [6], some [0xCC]) := by
  refine ⟨by decide +kernel, by decide +kernel, by decide +kernel⟩

end Witness

end TM.Bsc
