import TeleportModel.Proofs.C13Agg
/-
C13 — the aggregate registry invariant `AggKeys` (every denomination / contract index entry points to the pair that lists it, every
pair has all its index entries: each denomination in exactly one pair) is carried through the registry operations behind the
governance proposals and the self-destruct clean-up; hence the export of every reachable registry validates and round-trips.
-/
namespace TM.Genesis
open TM TM.GKv

/-! ## membership after writes / deletes -/

theorem mem_set_iff {s : Store} (hS : Sorted s) (k v : Bytes) (kv : Bytes × Bytes) :
    kv ∈ set s k v ↔ (kv = (k, v) ∨ (kv ∈ s ∧ kv.1 ≠ k)) := by
  obtain ⟨k', v'⟩ := kv
  rw [mem_iff_get (sorted_set hS k v), get_set hS, mem_iff_get hS]
  by_cases e : k = k'
  · subst e
    simp only [if_true, Option.some.injEq, Prod.mk.injEq, true_and, ne_eq, not_true_eq_false, and_false, or_false]
    exact eq_comm
  · have : ¬ k' = k := fun h => e h.symm
    simp [e, this]

theorem mem_del_iff {s : Store} (hS : Sorted s) (k : Bytes) (kv : Bytes × Bytes) :
    kv ∈ del s k ↔ (kv ∈ s ∧ kv.1 ≠ k) := by
  obtain ⟨k', v'⟩ := kv
  rw [mem_iff_get (sorted_del hS k), get_del hS, mem_iff_get hS]
  by_cases e : k = k'
  · subst e; simp
  · have : ¬ k' = k := fun h => e h.symm
    simp [e, this]

theorem mem_setAll_iff {s : Store} (hS : Sorted s) (W : List (Bytes × Bytes)) (hW : (W.map (·.1)).Nodup) (kv : Bytes × Bytes) :
    kv ∈ setAll s W ↔ (kv ∈ W ∨ (kv ∈ s ∧ kv.1 ∉ W.map (·.1))) := by
  induction W generalizing s with
  | nil => simp [setAll]
  | cons a r ih =>
    simp only [List.map_cons, List.nodup_cons] at hW
    have : setAll s (a :: r) = setAll (set s a.1 a.2) r := rfl
    rw [this, ih (sorted_set hS _ _) hW.2, mem_set_iff hS]
    simp only [List.mem_cons, List.map_cons]
    constructor
    · rintro (h | ⟨h | ⟨h1, h2⟩, h3⟩)
      · exact Or.inl (Or.inr h)
      · exact Or.inl (Or.inl h)
      · exact Or.inr ⟨h1, fun hm => by rcases hm with e | hm; exact h2 e; exact h3 hm⟩
    · rintro ((h | h) | ⟨h1, h2⟩)
      · refine Or.inr ⟨Or.inl h, ?_⟩
        rw [h]; exact hW.1
      · exact Or.inl h
      · exact Or.inr ⟨Or.inr ⟨h1, fun e => h2 (Or.inl e)⟩, fun hm => h2 (Or.inr hm)⟩

theorem foldl_delDenoms {s : Store} (hS : Sorted s) (ds : List Bytes) :
    Sorted (ds.foldl (fun s d => del s (aggDenomKey d)) s) ∧
    ∀ kv, kv ∈ ds.foldl (fun s d => del s (aggDenomKey d)) s ↔ (kv ∈ s ∧ ∀ d ∈ ds, kv.1 ≠ aggDenomKey d) := by
  induction ds generalizing s with
  | nil => exact ⟨hS, fun kv => by simp⟩
  | cons d r ih =>
    obtain ⟨h1, h2⟩ := ih (sorted_del hS (aggDenomKey d))
    refine ⟨h1, fun kv => ?_⟩
    simp only [List.foldl_cons]
    rw [h2 kv, mem_del_iff hS]
    simp only [List.mem_cons, forall_eq_or_imp]
    constructor
    · rintro ⟨⟨a, b⟩, c⟩; exact ⟨a, b, c⟩
    · rintro ⟨a, b, c⟩; exact ⟨⟨a, b⟩, c⟩

theorem mem_aggDelPair {env : Env} {s : Store} (hS : Sorted s) (b : Bytes) :
    Sorted (aggDelPair env s b) ∧ ∀ kv, kv ∈ aggDelPair env s b ↔
      (kv ∈ s ∧ kv.1 ≠ aggPairKey (env.pairId b) ∧ kv.1 ≠ aggErc20Key (env.pairErc20 b) ∧ ∀ d ∈ env.pairDenoms b, kv.1 ≠ aggDenomKey d) := by
  unfold aggDelPair
  have h1 := sorted_del hS (aggPairKey (env.pairId b))
  have h2 := sorted_del h1 (aggErc20Key (env.pairErc20 b))
  obtain ⟨h3, h4⟩ := foldl_delDenoms h2 (env.pairDenoms b)
  refine ⟨h3, fun kv => ?_⟩
  rw [h4 kv, mem_del_iff h1, mem_del_iff hS]
  constructor
  · rintro ⟨⟨⟨a, b'⟩, c⟩, d⟩; exact ⟨a, b', c, d⟩
  · rintro ⟨a, b', c, d⟩; exact ⟨⟨⟨a, b'⟩, c⟩, d⟩

theorem nodup_map_denomKey {ds : List Bytes} (h : ds.Nodup) : (ds.map aggDenomKey).Nodup := by
  induction ds with
  | nil => simp
  | cons d r ih =>
    simp only [List.nodup_cons, List.map_cons, List.mem_map] at h ⊢
    refine ⟨?_, ih h.2⟩
    rintro ⟨d', hd', e⟩
    have : d' = d := by simpa [aggDenomKey] using e
    subst this
    exact h.1 hd'

theorem aggWrites_keys_nodup {env : Env} {b : Bytes} (h : (env.pairDenoms b).Nodup) :
    ((aggPairWrites env b).map (·.1)).Nodup := by
  have e : (aggPairWrites env b).map (·.1) =
      aggPairKey (env.pairId b) :: ((env.pairDenoms b).map aggDenomKey ++ [aggErc20Key (env.pairErc20 b)]) := by
    simp [aggPairWrites, List.map_append, Function.comp_def]
  rw [e]
  refine List.nodup_cons.mpr ⟨?_, ?_⟩
  · simp [aggPairKey, aggDenomKey, aggErc20Key]
  · rw [List.nodup_append]
    refine ⟨?_, by simp, ?_⟩
    · exact nodup_map_denomKey h
    · intro x hx y hy
      simp only [List.mem_map] at hx
      obtain ⟨d, _, rfl⟩ := hx
      simp only [List.mem_singleton] at hy
      subst hy
      simp [aggDenomKey, aggErc20Key]

theorem mem_aggWrites_keys {env : Env} {b k : Bytes} :
    k ∈ (aggPairWrites env b).map (·.1) ↔
      (k = aggPairKey (env.pairId b) ∨ (∃ d ∈ env.pairDenoms b, k = aggDenomKey d) ∨ k = aggErc20Key (env.pairErc20 b)) := by
  simp only [List.mem_map]
  constructor
  · rintro ⟨kv, hm, rfl⟩
    rcases mem_aggPairWrites.mp hm with e | ⟨d, hd, e⟩ | e
    · exact Or.inl (by rw [e])
    · exact Or.inr (Or.inl ⟨d, hd, by rw [e]⟩)
    · exact Or.inr (Or.inr (by rw [e]))
  · rintro (e | ⟨d, hd, e⟩ | e)
    · exact ⟨_, mem_aggPairWrites.mpr (Or.inl rfl), e.symm⟩
    · exact ⟨_, mem_aggPairWrites.mpr (Or.inr (Or.inl ⟨d, hd, rfl⟩)), e.symm⟩
    · exact ⟨_, mem_aggPairWrites.mpr (Or.inr (Or.inr rfl)), e.symm⟩

/-! ## `aggKeyOk` unfolded per key family -/

theorem aggKeyOk_pair {env : Env} {s : Store} {id b : Bytes} :
    aggKeyOk env s (aggPairKey id) b = true ↔
      (env.pairId b = id ∧ get s (aggErc20Key (env.pairErc20 b)) = some id ∧ ∀ d ∈ env.pairDenoms b, get s (aggDenomKey d) = some id) := by
  simp only [aggKeyOk, aggPairKey, Bool.and_eq_true, beq_iff_eq, List.all_eq_true, and_assoc]

theorem aggKeyOk_erc {env : Env} {s : Store} {e v : Bytes} :
    aggKeyOk env s (aggErc20Key e) v = true ↔ ∃ b, get s (aggPairKey v) = some b ∧ env.pairErc20 b = e ∧ env.pairId b = v := by
  simp only [aggKeyOk, aggErc20Key]
  cases hg : get s (aggPairKey v) with
  | none => simp
  | some b => simp

theorem aggKeyOk_den {env : Env} {s : Store} {d v : Bytes} :
    aggKeyOk env s (aggDenomKey d) v = true ↔ ∃ b, get s (aggPairKey v) = some b ∧ d ∈ env.pairDenoms b ∧ env.pairId b = v := by
  simp only [aggKeyOk, aggDenomKey]
  cases hg : get s (aggPairKey v) with
  | none => simp
  | some b => simp

theorem aggKey_shape {env : Env} {s : Store} {k v : Bytes} (h : aggKeyOk env s k v = true) :
    (∃ id, k = aggPairKey id) ∨ (∃ e, k = aggErc20Key e) ∨ (∃ d, k = aggDenomKey d) := by
  unfold aggKeyOk at h
  split at h
  · next id => exact Or.inl ⟨id, rfl⟩
  · next e => exact Or.inr (Or.inl ⟨e, rfl⟩)
  · next d => exact Or.inr (Or.inr ⟨d, rfl⟩)
  · simp at h

theorem aggSetGuard_spec {env : Env} {s : Store} {b : Bytes} (h : aggSetGuard env s b = true) :
    get s (aggPairKey (env.pairId b)) = none ∧ get s (aggErc20Key (env.pairErc20 b)) = none ∧
    (∀ d ∈ env.pairDenoms b, get s (aggDenomKey d) = none) ∧ (env.pairDenoms b).Nodup ∧ env.pairDenoms b ≠ [] ∧ env.validPair b = true := by
  unfold aggSetGuard at h
  simp only [Bool.and_eq_true, Option.isNone_iff_eq_none, List.all_eq_true, decide_eq_true_eq, Bool.not_eq_true',
    List.isEmpty_eq_false_iff] at h
  obtain ⟨⟨⟨⟨⟨a, b'⟩, c⟩, d⟩, e⟩, f⟩ := h
  exact ⟨a, b', c, d, e, f⟩

/-! ## the two registry operations keep the invariant -/

/-- registering a pair whose id, contract and denominations are unused keeps `AggKeys` -/
theorem aggKeys_set {env : Env} {s : Store} (h : AggKeys env s) {b : Bytes} (hg : aggSetGuard env s b = true) :
    AggKeys env (aggSetPair env s b) := by
  obtain ⟨hS, hK⟩ := (aggKeys_iff env s).mp h
  obtain ⟨f1, f2, f3, hnd, _, _⟩ := aggSetGuard_spec hg
  have hS' : Sorted (aggSetPair env s b) := sorted_setAll hS _
  have hmem := fun kv => mem_setAll_iff hS (aggPairWrites env b) (aggWrites_keys_nodup hnd) kv
  -- reading the new store
  have getW : ∀ k v, (k, v) ∈ aggPairWrites env b → get (aggSetPair env s b) k = some v :=
    fun k v hm => (mem_iff_get hS' k v).mp ((hmem (k, v)).mpr (Or.inl hm))
  have getOld : ∀ k v, get s k = some v → k ∉ (aggPairWrites env b).map (·.1) → get (aggSetPair env s b) k = some v :=
    fun k v hg' hk => (mem_iff_get hS' k v).mp ((hmem (k, v)).mpr (Or.inr ⟨(mem_iff_get hS k v).mpr hg', hk⟩))
  refine (aggKeys_iff env _).mpr ⟨hS', ?_⟩
  intro kv hkv
  rcases (hmem kv).mp hkv with hw | ⟨hold, hnk⟩
  · -- a new entry
    rcases mem_aggPairWrites.mp hw with e | ⟨d, hd, e⟩ | e <;> subst e
    · exact aggKeyOk_pair.mpr ⟨rfl, getW _ _ (mem_aggPairWrites.mpr (Or.inr (Or.inr rfl))),
        fun d hd => getW _ _ (mem_aggPairWrites.mpr (Or.inr (Or.inl ⟨d, hd, rfl⟩)))⟩
    · exact aggKeyOk_den.mpr ⟨b, getW _ _ (mem_aggPairWrites.mpr (Or.inl rfl)), hd, rfl⟩
    · exact aggKeyOk_erc.mpr ⟨b, getW _ _ (mem_aggPairWrites.mpr (Or.inl rfl)), rfl, rfl⟩
  · -- an old entry: what it refers to is untouched (the new pair's keys were all unused)
    obtain ⟨k, v⟩ := kv
    have hok : aggKeyOk env s k v = true := hK _ hold
    have notNew : ∀ k' v', get s k' = some v' → k' ∉ (aggPairWrites env b).map (·.1) := by
      intro k' v' hg' hm
      rcases mem_aggWrites_keys.mp hm with e | ⟨d, hd, e⟩ | e <;> subst e
      · rw [f1] at hg'; simp at hg'
      · rw [f3 d hd] at hg'; simp at hg'
      · rw [f2] at hg'; simp at hg'
    rcases aggKey_shape hok with ⟨id, rfl⟩ | ⟨e, rfl⟩ | ⟨d, rfl⟩
    · obtain ⟨a1, a2, a3⟩ := aggKeyOk_pair.mp hok
      exact aggKeyOk_pair.mpr ⟨a1, getOld _ _ a2 (notNew _ _ a2), fun d hd => getOld _ _ (a3 d hd) (notNew _ _ (a3 d hd))⟩
    · obtain ⟨b', g1, g2, g3⟩ := aggKeyOk_erc.mp hok
      exact aggKeyOk_erc.mpr ⟨b', getOld _ _ g1 (notNew _ _ g1), g2, g3⟩
    · obtain ⟨b', g1, g2, g3⟩ := aggKeyOk_den.mp hok
      exact aggKeyOk_den.mpr ⟨b', getOld _ _ g1 (notNew _ _ g1), g2, g3⟩

/-- `DeleteTokenPair` of a stored pair keeps `AggKeys`: no other pair shares its contract or one of its denominations -/
theorem aggKeys_del {env : Env} {s : Store} (h : AggKeys env s) {b : Bytes} (hg : aggDelGuard env s b = true) :
    AggKeys env (aggDelPair env s b) := by
  obtain ⟨hS, hK⟩ := (aggKeys_iff env s).mp h
  have hb : get s (aggPairKey (env.pairId b)) = some b := by simpa [aggDelGuard] using hg
  have hbm : (aggPairKey (env.pairId b), b) ∈ s := (mem_iff_get hS _ _).mpr hb
  obtain ⟨_, p2, p3⟩ := aggKeyOk_pair.mp (hK _ hbm)
  obtain ⟨hS', hmem⟩ := mem_aggDelPair (env := env) hS b
  have getKept : ∀ k v, get s k = some v → k ≠ aggPairKey (env.pairId b) → k ≠ aggErc20Key (env.pairErc20 b) →
      (∀ d ∈ env.pairDenoms b, k ≠ aggDenomKey d) → get (aggDelPair env s b) k = some v :=
    fun k v hg' a1 a2 a3 => (mem_iff_get hS' k v).mp ((hmem (k, v)).mpr ⟨(mem_iff_get hS k v).mpr hg', a1, a2, a3⟩)
  refine (aggKeys_iff env _).mpr ⟨hS', ?_⟩
  intro kv hkv
  obtain ⟨hold, n1, n2, n3⟩ := (hmem kv).mp hkv
  obtain ⟨k, v⟩ := kv
  have hok : aggKeyOk env s k v = true := hK _ hold
  simp only at n1 n2 n3
  rcases aggKey_shape hok with ⟨id, rfl⟩ | ⟨e, rfl⟩ | ⟨d, rfl⟩
  · -- another pair: its contract / denominations differ from the deleted pair's (else two ids for one index entry)
    obtain ⟨a1, a2, a3⟩ := aggKeyOk_pair.mp hok
    have hid : id ≠ env.pairId b := fun e => n1 (by rw [e])
    refine aggKeyOk_pair.mpr ⟨a1, getKept _ _ a2 (by simp [aggErc20Key, aggPairKey]) ?_ (by intro d _; simp [aggErc20Key, aggDenomKey]), ?_⟩
    · intro e
      rw [e, p2] at a2
      injection a2 with a2
      exact hid a2.symm
    · intro d hd
      refine getKept _ _ (a3 d hd) (by simp [aggDenomKey, aggPairKey]) (by simp [aggErc20Key, aggDenomKey]) ?_
      intro d' hd' e
      have e' : d = d' := by simpa [aggDenomKey] using e
      subst e'
      have := a3 d hd
      rw [p3 d hd'] at this
      injection this with this
      exact hid this.symm
  · obtain ⟨b', g1, g2, g3⟩ := aggKeyOk_erc.mp hok
    have hv : v ≠ env.pairId b := by
      intro e
      rw [e, hb] at g1
      injection g1 with g1
      subst g1
      exact n2 (by rw [g2])
    exact aggKeyOk_erc.mpr ⟨b', getKept _ _ g1 (by intro e; exact hv (by simpa [aggPairKey] using e))
      (by simp [aggErc20Key, aggPairKey]) (by intro d _; simp [aggPairKey, aggDenomKey]), g2, g3⟩
  · obtain ⟨b', g1, g2, g3⟩ := aggKeyOk_den.mp hok
    have hv : v ≠ env.pairId b := by
      intro e
      rw [e, hb] at g1
      injection g1 with g1
      subst g1
      exact n3 d g2 rfl
    exact aggKeyOk_den.mpr ⟨b', getKept _ _ g1 (by intro e; exact hv (by simpa [aggPairKey] using e))
      (by simp [aggErc20Key, aggPairKey]) (by intro d _; simp [aggPairKey, aggDenomKey]), g2, g3⟩

/-! ## well-formedness and reachability -/

theorem aggWellFormed_iff {env : Env} {s : Store} :
    AggWellFormed env s ↔ ∀ id b, (aggPairKey id, b) ∈ s → env.validPair b = true ∧ env.pairDenoms b ≠ [] := by
  unfold AggWellFormed aggWellFormedB
  simp only [List.all_eq_true, Bool.and_eq_true, Bool.not_eq_true', List.isEmpty_eq_false_iff]
  constructor
  · intro h id b hm; exact h b (mem_exportAgg.mpr ⟨id, hm⟩)
  · intro h b hb; obtain ⟨id, hm⟩ := mem_exportAgg.mp hb; exact h id b hm

theorem applyAgg_invariant {env : Env} {s : Store} (h : AggKeys env s ∧ AggWellFormed env s) (op : AggOp) :
    AggKeys env (applyAgg env s op) ∧ AggWellFormed env (applyAgg env s op) := by
  obtain ⟨hk, hw⟩ := h
  have hS := ((aggKeys_iff env s).mp hk).1
  cases op with
  | set b =>
    simp only [applyAgg]
    split
    · next hg =>
      refine ⟨aggKeys_set hk hg, aggWellFormed_iff.mpr ?_⟩
      obtain ⟨_, _, _, hnd, hne, hv⟩ := aggSetGuard_spec hg
      intro id b' hm
      rcases (mem_setAll_iff hS (aggPairWrites env b) (aggWrites_keys_nodup hnd) _).mp hm with hw' | ⟨hold, _⟩
      · rcases mem_aggPairWrites.mp hw' with e | ⟨d, _, e⟩ | e
        · injection e with _ e2; subst e2; exact ⟨hv, hne⟩
        · injection e with e1 _; simp [aggPairKey, aggDenomKey] at e1
        · injection e with e1 _; simp [aggPairKey, aggErc20Key] at e1
      · exact aggWellFormed_iff.mp hw id b' hold
    · exact ⟨hk, hw⟩
  | del b =>
    simp only [applyAgg]
    split
    · next hg =>
      refine ⟨aggKeys_del hk hg, aggWellFormed_iff.mpr ?_⟩
      intro id b' hm
      exact aggWellFormed_iff.mp hw id b' (((mem_aggDelPair (env := env) hS b).2 _).mp hm).1
    · exact ⟨hk, hw⟩

theorem aggKeys_empty (env : Env) : AggKeys env [] ∧ AggWellFormed env [] := by
  constructor
  · exact (aggKeys_iff env []).mpr ⟨sorted_nil, by simp⟩
  · exact aggWellFormed_iff.mpr (by simp)

/-- **every registry reachable from the empty one by the operations behind RegisterCoin / RegisterERC20 / AddCoin /
ToggleTokenRelay / UpdateTokenPairERC20 / the self-destruct clean-up satisfies `AggKeys`** (each denomination and each contract
in exactly one pair, indexes agree) and is well formed -/
theorem agg_reachable (env : Env) (ops : List AggOp) :
    AggKeys env (ops.foldl (applyAgg env) []) ∧ AggWellFormed env (ops.foldl (applyAgg env) []) := by
  have : ∀ (ops : List AggOp) (s : Store), AggKeys env s ∧ AggWellFormed env s →
      AggKeys env (ops.foldl (applyAgg env) s) ∧ AggWellFormed env (ops.foldl (applyAgg env) s) := by
    intro ops
    induction ops with
    | nil => intro s h; exact h
    | cons op r ih => intro s h; exact ih _ (applyAgg_invariant h op)
  exact this ops [] (aggKeys_empty env)

/-- the export of every reachable registry passes `GenesisState.Validate` … -/
theorem agg_reachable_export_validates (env : Env) (ops : List AggOp) (p : Store) :
    validateAggregate env (exportAggregate ⟨ops.foldl (applyAgg env) [], p⟩) = true :=
  export_validates_aggregate (st := ⟨_, p⟩) (agg_reachable env ops).1 (agg_reachable env ops).2

/-- … and a fresh chain initialised from it reproduces the registry -/
theorem agg_reachable_roundtrip (env : Env) (ops : List AggOp) {p : Store} (hp : Sorted p) :
    initAggregate env (exportAggregate ⟨ops.foldl (applyAgg env) [], p⟩) = ⟨ops.foldl (applyAgg env) [], p⟩ :=
  roundtrip_aggregate (st := ⟨_, p⟩) (agg_reachable env ops).1 hp

/-- the seeded UpdateTokenPairERC20 (delete computed from the NEW address, so the old record and its contract index survive)
on the toy registry: the old pair stays beside the new one, two pairs list the same denominations, and the export fails the
module's own validation -/
def toyUpdated : Store := aggSetPair toyEnv toyAgg [8, 10, 100, 101]

theorem stale_pair_breaks_validation :
    ¬ AggKeys toyEnv toyUpdated ∧ validateAgg toyEnv (exportAgg toyUpdated) = false := by
  unfold AggKeys; decide

/-! ## module-level import = keeper-level import ∘ JSON decode -/

/-- **no defaulting**: for every genesis state `g` whatsoever — all switches off, zero-valued structs, empty lists included — the
module-level import of its JSON is the keeper-level import of `g` itself (the codec's round trip `decode (encode g) = g` is the
only assumption; it is ProtoCanonical for the JSON codec, checked by every harness run) -/
theorem module_import_no_defaulting {G S : Type} (encode : G → Bytes) (decode : Bytes → Option G) (init : G → S)
    (hc : ∀ g, decode (encode g) = some g) (g : G) : moduleInit decode init (encode g) = .ok (init g) := by
  simp [moduleInit, hc g]

/-- export through `AppModule.ExportGenesis`, import through `AppModule.InitGenesis`: the aggregate module state comes back
unchanged, whatever the parameter values are -/
theorem module_roundtrip_aggregate {env : Env} (encode : AggGenesis → Bytes) (decode : Bytes → Option AggGenesis)
    (hc : ∀ g, decode (encode g) = some g) {st : AggState} (h : AggKeys env st.a) (hp : Sorted st.p) :
    moduleInit decode (initAggregate env) (encode (exportAggregate st)) = .ok st := by
  rw [module_import_no_defaulting encode decode _ hc, roundtrip_aggregate h hp]

theorem module_roundtrip_xibc (encode : Genesis → Bytes) (decode : Bytes → Option Genesis)
    (hc : ∀ g, decode (encode g) = some g) {s : Store} (h : ModuleKeys s) :
    moduleInit decode initXibc (encode (exportXibc s)) = .ok s := by
  rw [module_import_no_defaulting encode decode _ hc, roundtrip h]

/-- toy parameter stores: key 1 = EnableAggregate, key 2 = EnableEVMHook; value 0 = false, 1 = true -/
def toyParamsOff : Store := [([1], [0]), ([2], [0])]
def toyParamsDefault : Store := [([1], [1]), ([2], [1])]

/-- the seeded "zero value means absent" defaulting: a chain whose governance switched both parameters off comes back with both
switched on -/
theorem defaulting_breaks_roundtrip :
    Sorted toyParamsOff ∧
    initAggregateDefaulting toyEnv toyParamsOff toyParamsDefault (exportAggregate ⟨toyAgg, toyParamsOff⟩) ≠ ⟨toyAgg, toyParamsOff⟩ ∧
    initAggregate toyEnv (exportAggregate ⟨toyAgg, toyParamsOff⟩) = ⟨toyAgg, toyParamsOff⟩ := by
  refine ⟨(sortedB_iff _).mp (by decide), by decide, by decide⟩

end TM.Genesis
