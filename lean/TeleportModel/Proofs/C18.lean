import TeleportModel.Model.Lifecycle
import TeleportModel.Proofs.C09
/-
C18 — "Client lifecycle installs a usable client or changes nothing": theorems about Model/Lifecycle.lean
(the repaired behaviour, see fixes/C18-*.diff), for all states, all proposals / updates and all histories.
-/
namespace TM.Lifecycle

/-! ### store lemmas -/

theorem lookup_filter (p : Name × Key → Bool) (key : Name × Key) (l : KV) :
    lookup key (l.filter (fun e => p e.1)) = if p key then lookup key l else none := by
  induction l with
  | nil => simp [lookup]
  | cons e r ih =>
    obtain ⟨k, v⟩ := e
    by_cases hp : p k = true
    · simp only [List.filter_cons, hp, ↓reduceIte, lookup]
      by_cases hk : k = key
      · subst hk; simp [hp]
      · simp [hk, ih]
    · have hp' : p k = false := by simpa using hp
      simp only [List.filter_cons, hp', lookup]
      by_cases hk : k = key
      · subst hk; simp [hp', ih]
      · simp [hk, ih]

@[simp] theorem get_set (s : St) (n : Name) (k : Key) (v : Val) (n' : Name) (k' : Key) :
    get (set s n k v) n' k' = if (n, k) = (n', k') then some v else get s n' k' := by
  simp [get, set, lookup]

@[simp] theorem get_del (s : St) (n : Name) (k : Key) (n' : Name) (k' : Key) :
    get (del s n k) n' k' = if (n', k') = (n, k) then none else get s n' k' := by
  have := lookup_filter (fun e => decide (e ≠ (n, k))) (n', k') s.kv
  simp only [get, del]
  rw [this]
  by_cases h : (n', k') = (n, k) <;> simp [h]

@[simp] theorem get_clearName (s : St) (n n' : Name) (k' : Key) :
    get (clearName s n) n' k' = if n' = n then none else get s n' k' := by
  have := lookup_filter (fun e => decide (e.1 ≠ n)) (n', k') s.kv
  simp only [get, clearName]
  rw [this]
  by_cases h : n' = n <;> simp [h]

@[simp] theorem get_delSigners (s : St) (n n' : Name) (k' : Key) :
    get (delSigners s n) n' k' = if n' = n ∧ isSigner k' = true then none else get s n' k' := by
  have := lookup_filter (fun e => !(decide (e.1 = n) && isSigner e.2)) (n', k') s.kv
  simp only [get, delSigners]
  rw [this]
  by_cases h : n' = n <;> by_cases h2 : isSigner k' = true <;> simp [h, h2]

@[simp] theorem now_set (s : St) (n k v) : (set s n k v).now = s.now := rfl
@[simp] theorem now_del (s : St) (n k) : (del s n k).now = s.now := rfl
@[simp] theorem now_clearName (s : St) (n) : (clearName s n).now = s.now := rfl
@[simp] theorem now_delSigners (s : St) (n) : (delSigners s n).now = s.now := rfl

/-! ### what "initialised the way its type requires" means -/

/-- the metadata the client type needs at the latest height of `c` is in the store of `n`
    (tendermint: processed time `p` and the iteration key) -/
def InitialisedFor (s : St) (n : Name) (c : CState) (p : Nat) : Prop :=
  match c.ty with
  | .tm => get s n (.pt c.latest) = some (.num p) ∧ get s n (.it c.latest) = some (.txt "k")
  | .bsc => get s n (.sg c.latest) = some (.txt c.x1) ∧ get s n .pv = some (.txt c.x2)
  | .eth => get s n (.ei c.x1 c.latest.h) = some (.txt c.x3) ∧ get s n (.er c.x2 c.latest.h) = some (.txt c.x1)
  | .tss => True

/-- client state `c` with consensus state `k` at its latest height is what the store of `n` holds -/
def Installed (s : St) (n : Name) (c : CState) (k : KState) : Prop :=
  getClient s n = some c ∧ (c.ty ≠ .tss → getCons s n c.latest = some k)

theorem writeMeta_now (s : St) (n : Name) (c : CState) : (writeMeta s n c).now = s.now := by
  unfold writeMeta; cases c.ty <;> simp

theorem writeMeta_cs (s : St) (n : Name) (c : CState) (n' : Name) :
    get (writeMeta s n c) n' .cs = get s n' .cs := by
  unfold writeMeta; cases c.ty <;> simp

theorem writeMeta_cons (s : St) (n : Name) (c : CState) (n' : Name) (h : Height) :
    get (writeMeta s n c) n' (.cons h) = get s n' (.cons h) := by
  unfold writeMeta; cases c.ty <;> simp

theorem writeMeta_other (s : St) (n : Name) (c : CState) (n' : Name) (k : Key) (hn : n' ≠ n) :
    get (writeMeta s n c) n' k = get s n' k := by
  have : ∀ k0, ¬ ((n, k0) = (n', k)) := by intro k0 h; exact hn (by simpa using (congrArg Prod.fst h).symm)
  unfold writeMeta; cases c.ty <;> simp [this]

theorem writeMeta_initialised (s : St) (n : Name) (c : CState) : InitialisedFor (writeMeta s n c) n c s.now := by
  unfold InitialisedFor writeMeta
  cases c.ty <;> simp

/-- later writes of the client state and of consensus states do not disturb the metadata -/
theorem initialised_set_cs (s : St) (n : Name) (c : CState) (p : Nat) (v : Val) (h : InitialisedFor s n c p) :
    InitialisedFor (set s n .cs v) n c p := by
  unfold InitialisedFor at *; cases hc : c.ty <;> simp_all

theorem initialised_set_cons (s : St) (n : Name) (c : CState) (p : Nat) (hh : Height) (v : Val)
    (h : InitialisedFor s n c p) : InitialisedFor (set s n (.cons hh) v) n c p := by
  unfold InitialisedFor at *; cases hc : c.ty <;> simp_all

/-! ### accepted proposals: what they required and what they installed -/

theorem commit_ok {s s' : St} {o : Outcome St} (h : commit s o = (s', Res.ok)) : o = .ok s' := by
  cases o <;> simp_all [commit]

theorem validateContent_eq (p : Proposal) : validateContent p = validateBasic p := by
  unfold validateContent validateCreate validateUpgrade validateToggle
  cases p.kind <;> rfl

theorem govExec_ok {s s' : St} {p : Proposal} (h : govExec s p = (s', Res.ok)) :
    validateBasic p = true ∧ handle s p = .ok s' := by
  unfold govExec at h
  rw [validateContent_eq] at h
  by_cases hv : validateBasic p = true
  · simp [hv] at h; exact ⟨hv, commit_ok h⟩
  · simp [hv] at h

theorem validateBasic_true {p : Proposal} (hv : validateBasic p = true) :
    validName p.name = true ∧ (∃ c, p.cs = some c ∧ c.valid = true) ∧ (∃ k, p.ks = some k ∧ k.vb = true) := by
  unfold validateBasic at hv
  have h1 := (Bool.and_eq_true _ _).mp hv
  have h2 := (Bool.and_eq_true _ _).mp h1.1
  refine ⟨h2.1, ?_, ?_⟩
  · cases hc : p.cs with
    | none => have := h2.2; simp [hc] at this
    | some c => exact ⟨c, rfl, by simpa [hc] using h2.2⟩
  · cases hk : p.ks with
    | none => have := h1.2; simp [hk] at this
    | some k => exact ⟨k, rfl, by simpa [hk] using h1.2⟩

/-- a create is accepted only under a valid, unused chain name that is not this chain's own name -/
theorem create_only_fresh_valid (s s' : St) (p : Proposal) (hk : p.kind = .create)
    (h : govExec s p = (s', Res.ok)) : validName p.name = true ∧ p.name ≠ s.self ∧ getClient s p.name = none := by
  obtain ⟨hv, hh⟩ := govExec_ok h
  refine ⟨?_, ?_, ?_⟩
  · exact (validateBasic_true hv).1
  · intro hself
    unfold handle at hh; rw [hk] at hh; simp [hself] at hh
  · unfold handle at hh; rw [hk] at hh; simp only at hh
    by_cases hself : p.name = s.self
    · simp [hself] at hh
    · cases hc : getClient s p.name with
      | none => rfl
      | some c => simp [hself, hc] at hh

/-- an accepted proposal carried a client state that passes `Validate()` and a consensus state that passes
    `ValidateBasic()`; both unpack -/
theorem accepted_wellformed (s s' : St) (p : Proposal) (h : govExec s p = (s', Res.ok)) :
    ∃ c k, p.cs = some c ∧ p.ks = some k ∧ c.valid = true ∧ k.vb = true := by
  obtain ⟨hv, _⟩ := govExec_ok h
  obtain ⟨_, ⟨c, hc, hcv⟩, ⟨k, hk, hkv⟩⟩ := validateBasic_true hv
  exact ⟨c, k, hc, hk, hcv, hkv⟩

/-- an upgrade keeps the client type -/
theorem upgrade_keeps_type (s s' : St) (p : Proposal) (c : CState) (hk : p.kind = .upgrade) (hc : p.cs = some c)
    (h : govExec s p = (s', Res.ok)) : ∃ old, getClient s p.name = some old ∧ old.ty = c.ty := by
  obtain ⟨_, hh⟩ := govExec_ok h
  unfold handle at hh; rw [hk] at hh; simp only [hc] at hh
  cases hks : p.ks with
  | none => simp [hks] at hh
  | some k =>
    simp only [hks, upgradeClient] at hh
    cases ho : getClient s p.name with
    | none => simp [ho] at hh
    | some old =>
      refine ⟨old, rfl, ?_⟩
      simp only [ho] at hh
      by_cases ht : old.ty = c.ty
      · exact ht
      · simp [ht] at hh

/-- a toggle changes the client type -/
theorem toggle_changes_type (s s' : St) (p : Proposal) (c : CState) (hk : p.kind = .toggle) (hc : p.cs = some c)
    (h : govExec s p = (s', Res.ok)) : ∃ old, getClient s p.name = some old ∧ old.ty ≠ c.ty := by
  obtain ⟨_, hh⟩ := govExec_ok h
  unfold handle at hh; rw [hk] at hh; simp only [hc] at hh
  cases ho : getClient s p.name with
  | none => simp [ho] at hh
  | some old =>
    refine ⟨old, rfl, ?_⟩
    cases hks : p.ks with
    | none => simp [ho, hks] at hh
    | some k =>
      simp only [ho, hks, toggleClient, Option.isNone_some] at hh
      intro ht
      simp [ht] at hh

theorem initClient_ok {s s2 : St} {n : Name} {c : CState} {k : KState} (h : initClient s n c k = .ok s2) :
    s2 = writeMeta s n c ∧ (c.ty ≠ .tss → k.ty = c.ty ∧ c.initOk = true) := by
  unfold initClient at h
  cases hc : c.ty <;> simp only [hc] at h
  case tss => simp at h; subst h; simp [writeMeta, hc]
  all_goals
    by_cases hk : k.ty = c.ty
    · by_cases hi : c.initOk = true
      · simp [hk, hc, hi] at h; subst h
        exact ⟨rfl, fun _ => ⟨by rw [hk, hc], hi⟩⟩
      · simp [hk, hc, hi] at h
    · rw [hc] at hk; simp [hk] at h

theorem getClient_set_cs (s : St) (n : Name) (c : CState) : getClient (set s n .cs (.cstate c)) n = some c := by
  simp [getClient]

theorem getCons_set_cons (s : St) (n : Name) (h : Height) (k : KState) :
    getCons (set s n (.cons h) (.kstate k)) n h = some k := by
  simp [getCons]

theorem getClient_set_cons (s : St) (n : Name) (h : Height) (v : Val) (n' : Name) :
    getClient (set s n (.cons h) v) n' = getClient s n' := by
  simp [getClient]

theorem getClient_writeMeta (s : St) (n : Name) (c : CState) (n' : Name) :
    getClient (writeMeta s n c) n' = getClient s n' := by
  simp [getClient, writeMeta_cs]

/-- **installs exactly** — after an accepted create / upgrade / toggle the stored client state is the proposal's,
    the consensus state at its latest height is the proposal's (for every kind: unless the client is a TSS client, which
    has no consensus states — see `tss_install_no_consensus`), the consensus state
    has the client's type, and the client store holds the metadata the (new) type requires, processed at `s.now`. -/
theorem installs_exactly (s s' : St) (p : Proposal) (c : CState) (k : KState) (hc : p.cs = some c) (hks : p.ks = some k)
    (h : govExec s p = (s', Res.ok)) :
    getClient s' p.name = some c ∧
    (c.ty ≠ .tss → getCons s' p.name c.latest = some k) ∧
    (c.ty ≠ .tss → k.ty = c.ty) ∧
    InitialisedFor s' p.name c s.now ∧ s'.now = s.now := by
  obtain ⟨_, hh⟩ := govExec_ok h
  unfold handle at hh
  cases hkind : p.kind <;> simp only [hkind, hc, hks] at hh
  · -- create
    by_cases hself : p.name = s.self
    · simp [hself] at hh
    · simp only [hself, ↓reduceIte] at hh
      split at hh
      · simp at hh
      · unfold createClient at hh
        cases hi : initClient (set s p.name .cs (.cstate c)) p.name c k with
        | err e => simp [hi] at hh
        | panic e => simp [hi] at hh
        | ok s2 =>
          obtain ⟨h2, hty⟩ := initClient_ok hi
          simp only [hi] at hh
          have hI : InitialisedFor s2 p.name c s.now := by
            rw [h2]; exact writeMeta_initialised (set s p.name .cs (.cstate c)) p.name c
          have hC : getClient s2 p.name = some c := by rw [h2, getClient_writeMeta, getClient_set_cs]
          have hN : s2.now = s.now := by rw [h2, writeMeta_now]; rfl
          by_cases ht : c.ty = .tss
          · simp [ht] at hh; subst hh
            exact ⟨hC, fun hne => absurd ht hne, fun hne => (hty hne).1, hI, hN⟩
          · simp [ht] at hh; subst hh
            refine ⟨by rw [getClient_set_cons]; exact hC, fun _ => getCons_set_cons _ _ _ _, fun hne => (hty hne).1,
                    initialised_set_cons _ _ _ _ _ _ hI, hN⟩
  · -- upgrade
    unfold upgradeClient at hh
    cases ho : getClient s p.name with
    | none => simp [ho] at hh
    | some old =>
      simp only [ho] at hh
      by_cases hto : old.ty = c.ty
      · simp only [hto, ne_eq, not_true_eq_false, ↓reduceIte] at hh
        cases hu : upgradeState s p.name c k with
        | err e => simp [hu] at hh
        | panic e => simp [hu] at hh
        | ok s1 =>
          simp only [hu] at hh
          have hS : InitialisedFor s1 p.name c s.now ∧ s1.now = s.now ∧ (c.ty ≠ .tss → k.ty = c.ty) := by
            unfold upgradeState at hu
            cases hcty : c.ty <;> simp only [hcty] at hu
            · -- tm
              by_cases hk : k.ty = .tm
              · simp [hk] at hu; subst hu
                exact ⟨writeMeta_initialised s p.name c, writeMeta_now _ _ _, fun _ => hk⟩
              · simp [hk] at hu
            · -- bsc
              by_cases hk : k.ty = .bsc
              · by_cases hi : c.initOk = true
                · simp only [hk, ne_eq, not_true_eq_false, ↓reduceIte, hi, Bool.not_true, Bool.false_eq_true] at hu
                  cases hp : bscPrune s p.name c with
                  | err e => simp [hp] at hu
                  | panic e => simp [hp] at hu
                  | ok s0 =>
                    simp only [hp] at hu; injection hu with hu; subst hu
                    have hnow : s0.now = s.now := by
                      unfold bscPrune at hp
                      split at hp
                      · injection hp with hp; subst hp; rfl
                      · split at hp
                        · split at hp
                          · simp at hp
                          · split at hp <;> (injection hp with hp; subst hp; simp)
                        · simp at hp
                    have := writeMeta_initialised (delSigners s0 p.name) p.name c
                    simp only [now_delSigners, hnow] at this
                    exact ⟨this, by rw [writeMeta_now]; simpa using hnow, fun _ => hk⟩
                · simp [hk, hi] at hu
              · simp [hk] at hu
            · -- eth
              by_cases hk : k.ty = .eth
              · simp [hk] at hu; subst hu
                exact ⟨writeMeta_initialised s p.name c, writeMeta_now _ _ _, fun _ => hk⟩
              · simp [hk] at hu
            · -- tss
              simp at hu; subst hu
              exact ⟨by simp [InitialisedFor, hcty], rfl, fun h => absurd rfl h⟩
          by_cases ht : c.ty = .tss
          · simp [ht] at hh; subst hh
            exact ⟨getClient_set_cs _ _ _, fun hne => absurd ht hne, hS.2.2,
                   initialised_set_cs _ _ _ _ _ hS.1, by simpa using hS.2.1⟩
          · simp [ht] at hh; subst hh
            exact ⟨by rw [getClient_set_cons, getClient_set_cs], fun _ => getCons_set_cons _ _ _ _, hS.2.2,
                   initialised_set_cons _ _ _ _ _ _ (initialised_set_cs _ _ _ _ _ hS.1), by simpa using hS.2.1⟩
      · simp [hto] at hh
  · -- toggle
    split at hh
    · simp at hh
    · unfold toggleClient at hh
      cases ho : getClient s p.name with
      | none => simp [ho] at hh
      | some old =>
        simp only [ho] at hh
        by_cases hto : old.ty = c.ty
        · simp [hto] at hh
        · simp only [hto, ↓reduceIte] at hh
          cases hi : initClient (set (clearName s p.name) p.name .cs (.cstate c)) p.name c k with
          | err e => simp [hi] at hh
          | panic e => simp [hi] at hh
          | ok s2 =>
            obtain ⟨h2, hty⟩ := initClient_ok hi
            simp only [hi] at hh
            have hI : InitialisedFor s2 p.name c s.now := by
              rw [h2]; exact writeMeta_initialised (set (clearName s p.name) p.name .cs (.cstate c)) p.name c
            have hC : getClient s2 p.name = some c := by rw [h2, getClient_writeMeta, getClient_set_cs]
            have hN : s2.now = s.now := by rw [h2, writeMeta_now]; rfl
            by_cases ht : c.ty = .tss
            · simp [ht] at hh; subst hh
              exact ⟨hC, fun hne => absurd ht hne, fun hne => (hty hne).1, hI, hN⟩
            · simp [ht] at hh; subst hh
              exact ⟨by rw [getClient_set_cons]; exact hC, fun _ => getCons_set_cons _ _ _ _, fun hne => (hty hne).1,
                     initialised_set_cons _ _ _ _ _ _ hI, hN⟩

/-- toggling to a TSS client leaves exactly the client state in the client store: nothing of the replaced client, and
    NO consensus state, whatever consensus state the proposal carried (a TSS client has none; one at height 0-0 would
    make the client genesis of an export invalid) -/
theorem toggle_tss_no_consensus (s s' : St) (p : Proposal) (c : CState) (k : KState) (hkind : p.kind = .toggle)
    (hc : p.cs = some c) (hks : p.ks = some k) (hct : c.ty = .tss) (h : govExec s p = (s', Res.ok)) :
    ∀ key, get s' p.name key = if key = .cs then some (.cstate c) else none := by
  obtain ⟨_, hh⟩ := govExec_ok h
  unfold handle at hh
  simp only [hkind, hc, hks] at hh
  split at hh
  · simp at hh
  · unfold toggleClient at hh
    cases ho : getClient s p.name with
    | none => simp [ho] at hh
    | some old =>
      simp only [ho] at hh
      by_cases hto : old.ty = c.ty
      · simp [hto] at hh
      · simp only [hto, ↓reduceIte] at hh
        cases hi : initClient (set (clearName s p.name) p.name .cs (.cstate c)) p.name c k with
        | err e => simp [hi] at hh
        | panic e => simp [hi] at hh
        | ok s2 =>
          obtain ⟨h2, _⟩ := initClient_ok hi
          simp [hi, hct] at hh; subst hh
          intro key
          rw [h2]
          simp only [writeMeta, hct, get_set, get_clearName]
          by_cases hkey : key = .cs
          · subst hkey; simp
          · have : ¬ ((p.name, Key.cs) = (p.name, key)) := by
              intro he; exact hkey (by injection he with _ h2; exact h2.symm)
            simp [this, hkey]

/-- the client store of `n` holds no consensus state at all -/
def NoCons (s : St) (n : Name) : Prop := ∀ h, get s n (.cons h) = none

/-- **a TSS client has no consensus states** — an accepted create / upgrade / toggle that installs a TSS client adds no
    consensus state, whatever consensus state the proposal carries: after a toggle the client store holds none at all;
    after a create or an upgrade it holds none if it held none before (a fresh name; a TSS client that never had one). -/
theorem tss_install_no_consensus (s s' : St) (p : Proposal) (c : CState) (k : KState)
    (hc : p.cs = some c) (hks : p.ks = some k) (hct : c.ty = .tss) (h : govExec s p = (s', Res.ok))
    (hpre : p.kind = .toggle ∨ NoCons s p.name) : NoCons s' p.name := by
  cases hkind : p.kind with
  | toggle =>
    intro hh
    rw [toggle_tss_no_consensus s s' p c k hkind hc hks hct h]; simp
  | create =>
    have hpre : NoCons s p.name := by
      cases hpre with
      | inl h1 => rw [hkind] at h1; cases h1
      | inr h1 => exact h1
    obtain ⟨_, hh⟩ := govExec_ok h
    unfold handle at hh
    simp only [hkind, hc, hks] at hh
    by_cases hself : p.name = s.self
    · simp [hself] at hh
    · simp only [hself, ↓reduceIte] at hh
      split at hh
      · simp at hh
      · unfold createClient at hh
        cases hi : initClient (set s p.name .cs (.cstate c)) p.name c k with
        | err e => simp [hi] at hh
        | panic e => simp [hi] at hh
        | ok s2 =>
          obtain ⟨h2, _⟩ := initClient_ok hi
          simp [hi, hct] at hh; subst hh
          intro hgt
          rw [h2, writeMeta_cons]
          simpa using hpre hgt
  | upgrade =>
    have hpre : NoCons s p.name := by
      cases hpre with
      | inl h1 => rw [hkind] at h1; cases h1
      | inr h1 => exact h1
    obtain ⟨_, hh⟩ := govExec_ok h
    unfold handle at hh
    simp only [hkind, hc, hks] at hh
    unfold upgradeClient at hh
    cases ho : getClient s p.name with
    | none => simp [ho] at hh
    | some old =>
      simp only [ho] at hh
      by_cases hto : old.ty = c.ty
      · simp only [hto, ne_eq, not_true_eq_false, ↓reduceIte] at hh
        have hu : upgradeState s p.name c k = .ok s := by simp [upgradeState, hct]
        simp [hu, hct] at hh; subst hh
        intro hgt
        simpa using hpre hgt
      · simp [hto] at hh

/-! ### usable: Active, and proofs at the installed height verify once the delay has passed -/

/-- the consensus state is recent enough for the client's trusting period (tm: strict, as `IsExpired`) -/
def Fresh (now : Nat) (c : CState) (k : KState) : Prop :=
  match c.ty with
  | .tm => now < k.ts + c.trust
  | .tss => True
  | _ => secs now ≤ k.ts + c.trust

theorem status_active (s : St) (n : Name) (c : CState) (k : KState)
    (hk : c.ty ≠ .tss → getCons s n c.latest = some k ∧ k.ty = c.ty) (hf : Fresh s.now c k) :
    status s n c = .active := by
  unfold status
  unfold Fresh at hf
  cases hc : c.ty <;> simp only [hc] at hf hk ⊢
  · obtain ⟨h1, h2⟩ := hk (by simp)
    simp only [h1, h2, ne_eq, not_true_eq_false, ↓reduceIte]
    have : ¬ (k.ts + c.trust ≤ s.now) := by omega
    simp [this]
  · obtain ⟨h1, h2⟩ := hk (by simp)
    simp only [h1, h2, ne_eq, not_true_eq_false, ↓reduceIte]
    have : ¬ (k.ts + c.trust < secs s.now) := by omega
    simp [this]
  · obtain ⟨h1, h2⟩ := hk (by simp)
    simp only [h1, h2, ne_eq, not_true_eq_false, ↓reduceIte]
    have : ¬ (k.ts + c.trust < secs s.now) := by omega
    simp [this]

/-- the delay of the client type has passed for height `h` (tss: the proof names the TSS address) -/
def DelayPassed (s : St) (n : Name) (c : CState) (h : Height) (proof : String) : Prop :=
  match c.ty with
  | .tm => ∃ p, get s n (.pt h) = some (.num p) ∧ p + c.delay ≤ s.now
  | .tss => proof = c.x1
  | _ => c.delay ≤ c.latest.h - h.h

/-- a true membership at a height not above the latest, whose consensus state is stored and whose delay has passed,
    verifies (membership itself is the abstract boolean `true`) -/
theorem verify_ok (s : St) (n : Name) (c : CState) (k : KState) (h : Height) (proof : String)
    (hc : getClient s n = some c) (hlt : c.latest.lt h = false)
    (hk : c.ty ≠ .tss → getCons s n h = some k ∧ k.ty = c.ty) (hd : DelayPassed s n c h proof) :
    verify s n h true proof = some true := by
  unfold verify
  simp only [hc]
  unfold DelayPassed at hd
  cases hty : c.ty <;> simp only [hty] at hd hk ⊢
  · obtain ⟨h1, h2⟩ := hk (by simp)
    obtain ⟨p, hp, hle⟩ := hd
    have : ¬ (p + c.delay > s.now) := by omega
    simp [hlt, h1, h2, hp, this]
  · obtain ⟨h1, h2⟩ := hk (by simp)
    have : ¬ (c.latest.h - h.h < c.delay) := by omega
    simp [hlt, h1, h2, this]
  · obtain ⟨h1, h2⟩ := hk (by simp)
    have : ¬ (c.latest.h - h.h < c.delay) := by omega
    simp [hlt, h1, h2, this]
  · simp [hd]

theorem lt_irrefl (h : Height) : h.lt h = false := by simp [Height.lt]

theorem get_withNow (s : St) (t : Nat) (n : Name) (k : Key) : get { s with now := t } n k = get s n k := rfl
theorem getClient_withNow (s : St) (t : Nat) (n : Name) : getClient { s with now := t } n = getClient s n := rfl
theorem getCons_withNow (s : St) (t : Nat) (n : Name) (h : Height) : getCons { s with now := t } n h = getCons s n h := rfl

/-- **usable** — after an accepted create / upgrade / toggle whose consensus state is fresh the client is Active, and
    at every later block time `t` (no other change) it stays Active while fresh; a true membership at the installed
    height verifies: for Tendermint as soon as the time delay has passed since installation, for TSS when the proof
    names the TSS address, for BSC / ETH when the block delay is zero (for a positive block delay see
    `usable_after_blocks`: the delay is counted in blocks of the counterparty, i.e. it passes through updates). -/
theorem usable (s s' : St) (p : Proposal) (c : CState) (k : KState) (hc : p.cs = some c) (hks : p.ks = some k)
    (h : govExec s p = (s', Res.ok)) :
    (Fresh s.now c k → status s' p.name c = .active) ∧
    (∀ t, Fresh t c k → status { s' with now := t } p.name c = .active) ∧
    (c.ty = .tm → ∀ t, s.now + c.delay ≤ t → verify { s' with now := t } p.name c.latest true "" = some true) ∧
    (c.ty = .tss → verify s' p.name c.latest true c.x1 = some true) ∧
    ((c.ty = .bsc ∨ c.ty = .eth) → c.delay = 0 → verify s' p.name c.latest true "" = some true) := by
  obtain ⟨hC, hK, hT, hI, hN⟩ := installs_exactly s s' p c k hc hks h
  have hk' : c.ty ≠ .tss → getCons s' p.name c.latest = some k ∧ k.ty = c.ty :=
    fun hne => ⟨hK hne, hT hne⟩
  refine ⟨fun hf => status_active s' p.name c k hk' (by rw [hN]; exact hf),
          fun t hf => status_active _ p.name c k hk' hf, ?_, ?_, ?_⟩
  · intro hty t ht
    apply verify_ok { s' with now := t } p.name c k c.latest "" (by rw [getClient_withNow]; exact hC) (lt_irrefl _) hk'
    unfold DelayPassed; simp only [hty]
    unfold InitialisedFor at hI; simp only [hty] at hI
    exact ⟨s.now, by rw [get_withNow]; exact hI.1, ht⟩
  · intro hty
    apply verify_ok s' p.name c k c.latest c.x1 hC (lt_irrefl _) hk'
    unfold DelayPassed; simp [hty]
  · intro hty hd
    apply verify_ok s' p.name c k c.latest "" hC (lt_irrefl _) hk'
    unfold DelayPassed
    cases hty with
    | inl h1 => simp [h1, hd]
    | inr h1 => simp [h1, hd]

/-- BSC / ETH: once updates have moved the client `delay` blocks past the installed height `h` (its consensus state
    still stored), a true membership at the installed height verifies -/
theorem usable_after_blocks (s : St) (n : Name) (c2 : CState) (k : KState) (h : Height)
    (hty : c2.ty = .bsc ∨ c2.ty = .eth) (hc : getClient s n = some c2) (hk : getCons s n h = some k) (hkt : k.ty = c2.ty)
    (hrev : c2.latest.rev = h.rev) (hblocks : h.h + c2.delay ≤ c2.latest.h) :
    verify s n h true "" = some true := by
  apply verify_ok s n c2 k h "" hc
  · simp [Height.lt, hrev]; omega
  · exact fun _ => ⟨hk, hkt⟩
  · unfold DelayPassed
    cases hty with
    | inl h1 => simp only [h1]; omega
    | inr h1 => simp only [h1]; omega

/-! ### updates -/

/-- **update, all four types** — a header that passes the client's verification (`check`), is well-formed, has a
    non-nil height and is submitted by a registered relayer that the client accepts (`CheckMsg`: the TSS address for a
    TSS client) to an Active client is accepted, whatever the client type; the new client state is stored (for Tendermint
    with the latest height `maxLex` of the old one and the header's, see `storedAfterUpdate`) and the new
    consensus state (if any) is stored at the header's height. -/
theorem update_all_types (s : St) (u : Update) (c : CState) (h : Height)
    (hs : u.signerOk = true) (hvb : u.hdr.vb = true) (hn : validName u.name = true)
    (hauth : authRelayer s u.name u.signer = true) (hc : getClient s u.name = some c)
    (hmsg : checkMsg c u.signer = true) (hact : status s u.name c = .active) (hchk : u.check = true)
    (hh : u.hdr.height = some h) :
    ∃ s', txExec s u = (s', Res.ok) ∧ getClient s' u.name = some (storedAfterUpdate c u h) ∧
          (∀ k, u.newK = some k → getCons s' u.name h = some k) := by
  unfold txExec handleUpdate updateClient
  simp only [hs, hvb, hn, Bool.and_self, Bool.not_true, Bool.false_eq_true, ↓reduceIte, hauth, hc, hmsg, hact,
    ne_eq, not_true_eq_false, hchk, hh]
  cases hk : u.newK with
  | none =>
    refine ⟨_, rfl, getClient_set_cs _ _ _, ?_⟩
    intro k hk'; cases hk'
  | some k =>
    refine ⟨_, rfl, by rw [getClient_set_cons, getClient_set_cs], ?_⟩
    intro k' hk'; cases hk'; exact getCons_set_cons _ _ _ _

/-- the four instances, spelled out -/
theorem update_tss_signer (c : CState) (signer : String) (ht : c.ty = .tss) :
    checkMsg c signer = true ↔ c.x1 = signer := by
  simp [checkMsg, ht]
theorem update_other_signer (c : CState) (signer : String) (ht : c.ty ≠ .tss) : checkMsg c signer = true := by
  unfold checkMsg; cases h : c.ty <;> simp_all

/-- the defect witness (F10/3) in the model: a header whose `GetHeight()` is nil makes the otherwise valid update panic
    (the unrepaired TSS header); the transaction runner turns that into a failed transaction -/
theorem update_nil_height_panics (s : St) (u : Update) (c : CState)
    (hs : u.signerOk = true) (hvb : u.hdr.vb = true) (hn : validName u.name = true)
    (hauth : authRelayer s u.name u.signer = true) (hc : getClient s u.name = some c)
    (hmsg : checkMsg c u.signer = true) (hact : status s u.name c = .active) (hchk : u.check = true)
    (hh : u.hdr.height = none) : txExec s u = (s, Res.panic) := by
  unfold txExec handleUpdate updateClient
  simp [hs, hvb, hn, hauth, hc, hmsg, hact, hchk, hh, commit]

/-- an accepted update came from a registered relayer accepted by the client, for an Active client -/
theorem update_accepted_only_if (s s' : St) (u : Update) (h : txExec s u = (s', Res.ok)) :
    validName u.name = true ∧ authRelayer s u.name u.signer = true ∧
    ∃ c, getClient s u.name = some c ∧ checkMsg c u.signer = true ∧ status s u.name c = .active ∧ u.check = true := by
  unfold txExec at h
  by_cases hv : (u.signerOk && u.hdr.vb && validName u.name) = true
  · simp only [hv, Bool.not_true, Bool.false_eq_true, ↓reduceIte] at h
    have hh := commit_ok h
    have hn : validName u.name = true := ((Bool.and_eq_true _ _).mp hv).2
    unfold handleUpdate at hh
    by_cases ha : authRelayer s u.name u.signer = true
    · simp only [ha, Bool.not_true, Bool.false_eq_true, ↓reduceIte] at hh
      cases hc : getClient s u.name with
      | none => simp [hc] at hh
      | some c =>
        simp only [hc] at hh
        by_cases hm : checkMsg c u.signer = true
        · simp only [hm, Bool.not_true, Bool.false_eq_true, ↓reduceIte] at hh
          unfold updateClient at hh
          by_cases hst : status s u.name c = .active
          · by_cases hck : u.check = true
            · exact ⟨hn, ha, c, rfl, hm, hst, hck⟩
            · simp [hst, hck] at hh
          · simp [hst] at hh
        · simp [hm] at hh
    · simp [ha] at hh
  · simp [hv] at h

/-! ### failure is a no-op -/

theorem commit_fail (s : St) (o : Outcome St) (h : (commit s o).2 ≠ Res.ok) : (commit s o).1 = s := by
  cases o <;> simp_all [commit]

/-- **failure is a no-op** — a proposal, relayer registration or update that does not succeed leaves the whole state
    (every client, its consensus states and metadata, the relayer registry) exactly as it was -/
theorem failure_is_noop (s : St) (o : Op) (h : (step s o).2 ≠ Res.ok) : (step s o).1 = s := by
  cases o with
  | time ns => simp [step] at h
  | prop p =>
    simp only [step, govExec] at h ⊢
    split
    · rfl
    · rename_i hv; simp only [hv] at h; exact commit_fail _ _ h
  | relayer p =>
    simp only [step, relayerExec] at h ⊢
    split
    · rfl
    · rename_i hv; simp [hv] at h
  | update u =>
    simp only [step, txExec] at h ⊢
    split
    · rfl
    · rename_i hv; simp only [hv] at h; exact commit_fail _ _ h
  | restart => rfl
  | dry o => rfl

/-- **restart is the identity** on the state the property talks about (tied to the code by the `restart` op of the
    harness: ExportGenesis → JSON → Validate → emptied module store → InitGenesis, dumps compared) -/
theorem restart_identity (s : St) : step s .restart = (s, Res.ok) := rfl

/-- **a dropped execution is the identity** whatever the operation -/
theorem dry_identity (s : St) (o : Op) : step s (.dry o) = (s, Res.ok) := rfl

/-- the accepted operations of a history -/
def accepted (s : St) : List Op → List Op
  | [] => []
  | o :: r => if (step s o).2 = Res.ok then o :: accepted (step s o).1 r else accepted s r

theorem run_fst_cons (s : St) (o : Op) (r : List Op) : (run s (o :: r)).1 = (run (step s o).1 r).1 := by
  simp [run]

/-- over all histories: the final state is the one reached by the accepted operations alone — rejected proposals
    and failed updates, wherever they are interleaved, leave no trace -/
theorem run_failures_noop (s : St) (ops : List Op) : (run s ops).1 = (run s (accepted s ops)).1 := by
  induction ops generalizing s with
  | nil => rfl
  | cons o r ih =>
    rw [run_fst_cons]
    unfold accepted
    by_cases h : (step s o).2 = Res.ok
    · simp only [h, ↓reduceIte]; rw [run_fst_cons]; exact ih _
    · simp only [h, ↓reduceIte]
      rw [failure_is_noop s o h]; exact ih s

/-! ### completeness over all ordered type pairs -/

theorem validateBasic_of (p : Proposal) (c : CState) (k : KState) (hc : p.cs = some c) (hks : p.ks = some k)
    (hn : validName p.name = true) (hv : c.valid = true) (hkv : k.vb = true) : validateBasic p = true := by
  simp [validateBasic, hc, hks, hn, hv, hkv]

theorem validateContent_of (p : Proposal) (c : CState) (k : KState) (hc : p.cs = some c) (hks : p.ks = some k)
    (hn : validName p.name = true) (hv : c.valid = true) (hkv : k.vb = true) : validateContent p = true := by
  rw [validateContent_eq]; exact validateBasic_of p c k hc hks hn hv hkv

theorem initClient_accepts (s : St) (n : Name) (c : CState) (k : KState)
    (hk : c.ty ≠ .tss → k.ty = c.ty ∧ c.initOk = true) : initClient s n c k = .ok (writeMeta s n c) := by
  unfold initClient
  cases hc : c.ty <;> simp only [hc] at hk ⊢
  · obtain ⟨h1, h2⟩ := hk (by simp); simp [h1, h2]
  · obtain ⟨h1, h2⟩ := hk (by simp); simp [h1, h2]
  · obtain ⟨h1, h2⟩ := hk (by simp); simp [h1, h2]
  · simp [writeMeta, hc]

/-- **toggle, all 12 ordered pairs of distinct types** — a well-formed toggle proposal (valid name and client state,
    consensus state of the new type, the new type's own initial checks pass) for an existing client of ANY other type
    is accepted.  (False for the unrepaired code whenever the old type is Tendermint — F10/1.) -/
theorem toggle_accepts (s : St) (p : Proposal) (c old : CState) (k : KState) (hkind : p.kind = .toggle)
    (hc : p.cs = some c) (hks : p.ks = some k) (hn : validName p.name = true) (hv : c.valid = true) (hkv : k.vb = true)
    (ho : getClient s p.name = some old) (hne : old.ty ≠ c.ty)
    (hk : c.ty ≠ .tss → k.ty = c.ty ∧ c.initOk = true) : ∃ s', govExec s p = (s', Res.ok) := by
  unfold govExec handle toggleClient
  simp only [validateContent_of p c k hc hks hn hv hkv, Bool.not_true, Bool.false_eq_true, ↓reduceIte, hkind, ho,
    Option.isNone_some, hc, hks, hne, initClient_accepts _ _ _ _ hk]
  split <;> exact ⟨_, rfl⟩

/-- the 4 pairs with equal types are rejected by toggle, and change nothing -/
theorem toggle_same_type_rejected (s : St) (p : Proposal) (c old : CState) (hkind : p.kind = .toggle)
    (hc : p.cs = some c) (ho : getClient s p.name = some old) (he : old.ty = c.ty) : govExec s p = (s, Res.err) := by
  unfold govExec
  split
  · rfl
  · unfold handle toggleClient
    cases hks : p.ks <;> simp [hkind, ho, hc, he, commit]

/-- the 12 pairs with different types are rejected by upgrade, and change nothing -/
theorem upgrade_other_type_rejected (s : St) (p : Proposal) (c old : CState) (hkind : p.kind = .upgrade)
    (hc : p.cs = some c) (ho : getClient s p.name = some old) (hne : old.ty ≠ c.ty) : govExec s p = (s, Res.err) := by
  unfold govExec
  split
  · rfl
  · unfold handle upgradeClient
    cases hks : p.ks <;> simp [hkind, ho, hc, hne, commit]

/-- **upgrade, the 4 equal-type pairs** — accepted for a well-formed proposal (for BSC: the earliest stored consensus
    state, which `UpgradeState` inspects for pruning, is a BSC one) -/
theorem upgrade_accepts (s : St) (p : Proposal) (c old : CState) (k : KState) (hkind : p.kind = .upgrade)
    (hc : p.cs = some c) (hks : p.ks = some k) (hn : validName p.name = true) (hv : c.valid = true) (hkv : k.vb = true)
    (ho : getClient s p.name = some old) (he : old.ty = c.ty)
    (hk : c.ty ≠ .tss → k.ty = c.ty ∧ c.initOk = true)
    (hprune : c.ty = .bsc → ∀ e, minHeight (consHeights p.name s.kv) = some e →
                ∃ k0, getCons s p.name e = some k0 ∧ k0.ty = .bsc) :
    ∃ s', govExec s p = (s', Res.ok) := by
  have hup : ∃ s1, upgradeState s p.name c k = .ok s1 := by
    unfold upgradeState
    cases hty : c.ty <;> simp only [hty] at hk hprune ⊢
    · obtain ⟨h1, _⟩ := hk (by simp); simp [h1]
    · obtain ⟨h1, h2⟩ := hk (by simp)
      simp only [h1, ne_eq, not_true_eq_false, ↓reduceIte, h2, Bool.not_true, Bool.false_eq_true]
      have hp : ∃ s0, bscPrune s p.name c = .ok s0 := by
        unfold bscPrune
        cases hm : minHeight (consHeights p.name s.kv) with
        | none => exact ⟨s, rfl⟩
        | some e =>
          obtain ⟨k0, hk0, hk0t⟩ := hprune trivial e hm
          simp only [hk0, hk0t, ne_eq, not_true_eq_false, ↓reduceIte]
          split <;> exact ⟨_, rfl⟩
      obtain ⟨s0, hs0⟩ := hp
      simp [hs0]
    · obtain ⟨h1, _⟩ := hk (by simp); simp [h1]
    · exact ⟨s, rfl⟩
  obtain ⟨s1, hs1⟩ := hup
  unfold govExec handle upgradeClient
  simp only [validateContent_of p c k hc hks hn hv hkv, Bool.not_true, Bool.false_eq_true, ↓reduceIte, hkind, ho, hc, hks, he,
    ne_eq, not_true_eq_false, hs1]
  split <;> exact ⟨_, rfl⟩

/-- **create, all four types** — accepted under a valid unused name other than the chain's own for a well-formed proposal -/
theorem create_own_name_rejected (s : St) (p : Proposal) (hkind : p.kind = .create) (hself : p.name = s.self) :
    govExec s p = (s, Res.err) := by
  unfold govExec
  split
  · rfl
  · simp [handle, hkind, hself, commit]

theorem create_accepts (s : St) (p : Proposal) (c : CState) (k : KState) (hkind : p.kind = .create)
    (hc : p.cs = some c) (hks : p.ks = some k) (hn : validName p.name = true) (hv : c.valid = true) (hkv : k.vb = true)
    (ho : getClient s p.name = none) (hself : p.name ≠ s.self)
    (hk : c.ty ≠ .tss → k.ty = c.ty ∧ c.initOk = true) : ∃ s', govExec s p = (s', Res.ok) := by
  unfold govExec handle createClient
  simp only [validateContent_of p c k hc hks hn hv hkv, Bool.not_true, Bool.false_eq_true, ↓reduceIte, hkind, ho, hself,
    Option.isSome_none, hc, hks, initClient_accepts _ _ _ _ hk]
  split <;> exact ⟨_, rfl⟩

/-! ### non-vacuity: the hypotheses are satisfiable on concrete, non-trivial histories -/

section Examples
def exTm (h : Nat) : CState :=
  { ty := .tm, latest := ⟨11, h⟩, dig := "aa", valid := true, trust := 1000, delay := 20, initOk := true, x1 := "", x2 := "", x3 := "" }
def exBsc : CState :=
  { ty := .bsc, latest := ⟨0, 200⟩, dig := "bb", valid := true, trust := 5, delay := 11, initOk := true, x1 := "5191", x2 := "pp", x3 := "" }
def exTss : CState :=
  { ty := .tss, latest := ⟨0, 0⟩, dig := "cc", valid := true, trust := 0, delay := 0, initOk := true, x1 := "addrA", x2 := "", x3 := "" }
def exK (t : Ty) (ts : Nat) : KState := { ty := t, ts := ts, dig := "kk" }
def exRel : Op := .relayer { address := "r0", addrOk := true, nAddresses := 1, chains := ["chain-b"] }
def exHist : List Op :=
  [ exRel, .time 100,
    .prop { kind := .create, name := "chain-b", cs := some (exTm 5), ks := some (exK .tm 90) },          -- ok
    .prop { kind := .create, name := "chain-b", cs := some (exTm 6), ks := some (exK .tm 95) },          -- duplicate: err
    .prop { kind := .create, name := "a/b", cs := some exTss, ks := some (exK .tss 0) },                 -- invalid name: err
    .prop { kind := .toggle, name := "chain-b", cs := some (exTm 7), ks := some (exK .tm 95) },          -- same type: err
    .prop { kind := .upgrade, name := "chain-b", cs := some exBsc, ks := some (exK .bsc 1) },            -- other type: err
    .prop { kind := .upgrade, name := "chain-b", cs := some (exTm 9), ks := some (exK .tm 99) },         -- ok
    .prop { kind := .toggle, name := "chain-b", cs := some exBsc, ks := some (exK .bsc 1) },             -- tm -> bsc: ok
    .prop { kind := .toggle, name := "chain-b", cs := some exTss, ks := some (exK .tss 0) },             -- bsc -> tss: ok
    .update { name := "chain-b", signer := "r0", signerOk := true, hdr := { ty := .tss, height := some ⟨0, 0⟩, vb := true },
              check := true, newC := { exTss with x1 := "addrB", dig := "dd" }, newK := none, delta := [] } ] -- wrong signer: err

example : (run init exHist).2 = [.ok, .ok, .ok, .err, .err, .err, .err, .ok, .ok, .ok, .err] := by decide
example : getClient (run init exHist).1 "chain-b" = some exTss := by decide
-- after the upgrade: the new height has its processed time and iteration key (F10/2 repaired)
example : InitialisedFor (run init (exHist.take 8)).1 "chain-b" (exTm 9) 100 := by
  show get _ _ _ = _ ∧ get _ _ _ = _
  decide
-- after tm -> bsc: nothing of the Tendermint client is left, the BSC metadata is there (F10/1 repaired)
example : get (run init (exHist.take 9)).1 "chain-b" (.pt ⟨11, 9⟩) = none ∧
          get (run init (exHist.take 9)).1 "chain-b" (.cons ⟨11, 5⟩) = none ∧
          get (run init (exHist.take 9)).1 "chain-b" (.sg ⟨0, 200⟩) = some (.txt "5191") := by decide
-- the TSS update from the TSS address is accepted with the repaired (non-nil) height, and panics with a nil height
example : (step (run init (exHist.take 10)).1
    (.update { name := "chain-b", signer := "addrA", signerOk := true, hdr := { ty := .tss, height := some ⟨0, 0⟩, vb := true },
               check := true, newC := exTss, newK := none, delta := [] })).2 = .err := by decide   -- addrA is not a registered relayer
example : (run init ([.relayer { address := "addrA", addrOk := true, nAddresses := 1, chains := ["chain-b"] }] ++ exHist.take 10 ++
    [.update { name := "chain-b", signer := "addrA", signerOk := true, hdr := { ty := .tss, height := some ⟨0, 0⟩, vb := true },
               check := true, newC := exTss, newK := none, delta := [] },
     .update { name := "chain-b", signer := "addrA", signerOk := true, hdr := { ty := .tss, height := none, vb := true },
               check := true, newC := exTss, newK := none, delta := [] }])).2.drop 11 = [.ok, .panic] := by decide
-- after bsc -> tss (TSS consensus state): no consensus state at 0-0, nothing but the client state
example : getCons (run init (exHist.take 10)).1 "chain-b" ⟨0, 0⟩ = none ∧
          get (run init (exHist.take 10)).1 "chain-b" (.sg ⟨0, 200⟩) = none := by decide
-- a client under the chain's own name is refused; neither create nor upgrade of a TSS client stores a consensus state,
-- not even when the proposal carries a Tendermint one
example : (govExec { init with self := "home" } { kind := .create, name := "home", cs := some exTss, ks := some (exK .tss 0) }).2 = .err := by decide
example : getCons (run init [.prop { kind := .create, name := "abc", cs := some exTss, ks := some (exK .tss 0) },
                             .prop { kind := .upgrade, name := "abc", cs := some exTss, ks := some (exK .tss 0) }]).1 "abc" ⟨0, 0⟩
          = none := by decide
example : get (run init [.prop { kind := .create, name := "abc", cs := some exTss, ks := some (exK .tm 5) }]).1 "abc" (.cons ⟨0, 0⟩)
          = none := by decide
-- a Tendermint consensus state failing its own ValidateBasic: refused at submission, for every kind
example : validateContent { kind := .toggle, name := "chain-b", cs := some (exTm 5), ks := some { exK .tm 90 with vb := false } } = false
        ∧ (govExec (run init exHist).1 { kind := .toggle, name := "chain-b", cs := some (exTm 5), ks := some { exK .tm 90 with vb := false } }).2 = .err := by decide
-- a Tendermint client upgraded from revision 1 (block 993) to revision 2 starting again at block 3: a valid late header
-- of revision 1 with a larger block number (1-994) is accepted, its consensus state is stored, the latest height stays
-- 2-3 and a proof at the installed height is still within range
def exRev1 : CState := { exTm 993 with latest := ⟨1, 993⟩, delay := 0 }
def exRev2 : CState := { exTm 3 with latest := ⟨2, 3⟩, dig := "r2", delay := 0 }
def exLate : Op := .update { name := "chain-b", signer := "r0", signerOk := true, hdr := { ty := .tm, height := some ⟨1, 994⟩, vb := true }, check := true, newC := { exRev2 with latest := ⟨1, 994⟩ }, newK := some (exK .tm 98), delta := [(.pt ⟨1, 994⟩, some (.num 100))] }
def exRevHist : List Op :=
  [ exRel, .time 100, .prop { kind := .create, name := "chain-b", cs := some exRev1, ks := some (exK .tm 90) },
    .prop { kind := .upgrade, name := "chain-b", cs := some exRev2, ks := some (exK .tm 95) }, exLate ]
example : (run init exRevHist).2 = [.ok, .ok, .ok, .ok, .ok]
        ∧ (getClient (run init exRevHist).1 "chain-b").map (·.latest) = some ⟨2, 3⟩
        ∧ getCons (run init exRevHist).1 "chain-b" ⟨1, 994⟩ = some (exK .tm 98)
        ∧ verify (run init exRevHist).1 "chain-b" ⟨2, 3⟩ true "" = some true := by decide
end Examples

/-! ### frame: an operation about one client leaves every other client's store byte-identical -/

theorem get_set_other (s : St) (n n' : Name) (k k' : Key) (v : Val) (hn : n' ≠ n) :
    get (set s n k v) n' k' = get s n' k' := by
  have : ¬ ((n, k) = (n', k')) := by intro h; exact hn (by injection h with h1 _; exact h1.symm)
  simp [this]

theorem get_del_other (s : St) (n n' : Name) (k k' : Key) (hn : n' ≠ n) :
    get (del s n k) n' k' = get s n' k' := by
  have : ¬ ((n', k') = (n, k)) := by intro h; exact hn (by injection h with h1 _)
  simp [this]

theorem get_clearName_other (s : St) (n n' : Name) (k' : Key) (hn : n' ≠ n) :
    get (clearName s n) n' k' = get s n' k' := by simp [hn]

theorem get_delSigners_other (s : St) (n n' : Name) (k' : Key) (hn : n' ≠ n) :
    get (delSigners s n) n' k' = get s n' k' := by simp [hn]

theorem applyDelta_other (n n' : Name) (k' : Key) (hn : n' ≠ n) :
    ∀ (d : List (Key × Option Val)) (s : St), get (applyDelta s n d) n' k' = get s n' k' := by
  intro d
  induction d with
  | nil => intro s; rfl
  | cons e r ih =>
    intro s
    obtain ⟨k, v⟩ := e
    cases v with
    | none => simp only [applyDelta]; rw [ih, get_del_other _ _ _ _ _ hn]
    | some v => simp only [applyDelta]; rw [ih, get_set_other _ _ _ _ _ _ hn]

theorem bscPrune_other {s s1 : St} {n : Name} {c : CState} (h : bscPrune s n c = .ok s1) (n' : Name) (k' : Key)
    (hn : n' ≠ n) : get s1 n' k' = get s n' k' := by
  unfold bscPrune at h
  split at h
  · injection h with h; subst h; rfl
  · split at h
    · split at h
      · simp at h
      · split at h <;> (injection h with h; subst h)
        · exact get_del_other _ _ _ _ _ hn
        · rfl
    · simp at h

theorem upgradeState_other {s s1 : St} {n : Name} {c : CState} {k : KState} (h : upgradeState s n c k = .ok s1)
    (n' : Name) (k' : Key) (hn : n' ≠ n) : get s1 n' k' = get s n' k' := by
  unfold upgradeState at h
  cases hc : c.ty <;> simp only [hc] at h
  · split at h
    · simp at h
    · injection h with h; subst h; exact writeMeta_other _ _ _ _ _ hn
  · split at h
    · simp at h
    · split at h
      · simp at h
      · cases hp : bscPrune s n c with
        | err e => simp [hp] at h
        | panic e => simp [hp] at h
        | ok s0 =>
          simp only [hp] at h; injection h with h; subst h
          rw [writeMeta_other _ _ _ _ _ hn, get_delSigners_other _ _ _ _ hn]
          exact bscPrune_other hp n' k' hn
  · split at h
    · simp at h
    · injection h with h; subst h; exact writeMeta_other _ _ _ _ _ hn
  · injection h with h; subst h; rfl

theorem handle_other {s s' : St} {p : Proposal} (h : handle s p = .ok s') (n' : Name) (k' : Key)
    (hn : n' ≠ p.name) : get s' n' k' = get s n' k' := by
  unfold handle at h
  cases hk : p.kind <;> simp only [hk] at h
  · -- create
    split at h
    · simp at h
    · split at h
      · simp at h
      · cases hc : p.cs with
        | none => simp [hc] at h
        | some c =>
          cases hks : p.ks with
          | none => simp [hc, hks] at h
          | some k =>
            simp only [hc, hks, createClient] at h
            cases hi : initClient (set s p.name .cs (.cstate c)) p.name c k with
            | err e => simp [hi] at h
            | panic e => simp [hi] at h
            | ok s2 =>
              obtain ⟨h2, _⟩ := initClient_ok hi
              simp only [hi] at h
              split at h <;> (injection h with h; subst h)
              · rw [get_set_other _ _ _ _ _ _ hn, h2, writeMeta_other _ _ _ _ _ hn, get_set_other _ _ _ _ _ _ hn]
              · rw [h2, writeMeta_other _ _ _ _ _ hn, get_set_other _ _ _ _ _ _ hn]
  · -- upgrade
    cases hc : p.cs with
    | none => simp [hc] at h
    | some c =>
      cases hks : p.ks with
      | none => simp [hc, hks] at h
      | some k =>
        simp only [hc, hks, upgradeClient] at h
        cases ho : getClient s p.name with
        | none => simp [ho] at h
        | some old =>
          simp only [ho] at h
          split at h
          · simp at h
          · cases hu : upgradeState s p.name c k with
            | err e => simp [hu] at h
            | panic e => simp [hu] at h
            | ok s1 =>
              simp only [hu] at h
              split at h <;> (injection h with h; subst h)
              · rw [get_set_other _ _ _ _ _ _ hn, get_set_other _ _ _ _ _ _ hn]; exact upgradeState_other hu n' k' hn
              · rw [get_set_other _ _ _ _ _ _ hn]; exact upgradeState_other hu n' k' hn
  · -- toggle
    split at h
    · simp at h
    · cases hc : p.cs with
      | none => simp [hc] at h
      | some c =>
        cases hks : p.ks with
        | none => simp [hc, hks] at h
        | some k =>
          simp only [hc, hks, toggleClient] at h
          cases ho : getClient s p.name with
          | none => simp [ho] at h
          | some old =>
            simp only [ho] at h
            split at h
            · simp at h
            · cases hi : initClient (set (clearName s p.name) p.name .cs (.cstate c)) p.name c k with
              | err e => simp [hi] at h
              | panic e => simp [hi] at h
              | ok s2 =>
                obtain ⟨h2, _⟩ := initClient_ok hi
                simp only [hi] at h
                split at h <;> (injection h with h; subst h)
                · rw [get_set_other _ _ _ _ _ _ hn, h2, writeMeta_other _ _ _ _ _ hn, get_set_other _ _ _ _ _ _ hn,
                    get_clearName_other _ _ _ _ hn]
                · rw [h2, writeMeta_other _ _ _ _ _ hn, get_set_other _ _ _ _ _ _ hn, get_clearName_other _ _ _ _ hn]

theorem handleUpdate_other {s s' : St} {u : Update} (h : handleUpdate s u = .ok s') (n' : Name) (k' : Key)
    (hne : n' ≠ u.name) : get s' n' k' = get s n' k' := by
  unfold handleUpdate at h
  split at h
  · simp at h
  · cases hc : getClient s u.name with
    | none => simp [hc] at h
    | some c =>
      simp only [hc] at h
      split at h
      · simp at h
      · unfold updateClient at h
        split at h
        · simp at h
        · split at h
          · simp at h
          · cases hh : u.hdr.height with
            | none => simp [hh] at h
            | some hgt =>
              simp only [hh] at h
              cases hk : u.newK with
              | none =>
                simp only [hk] at h; injection h with h; subst h
                rw [get_set_other _ _ _ _ _ _ hne]; exact applyDelta_other _ _ _ hne _ _
              | some k =>
                simp only [hk] at h; injection h with h; subst h
                rw [get_set_other _ _ _ _ _ _ hne, get_set_other _ _ _ _ _ _ hne]; exact applyDelta_other _ _ _ hne _ _

theorem commit_other {s s' : St} {o : Outcome St} {r : Res} (h : commit s o = (s', r)) :
    s' = s ∨ o = .ok s' := by
  cases o <;> simp_all [commit]

/-- **frame** — an operation about client `n` (a proposal, an update, whether it succeeds or not) leaves the client
    store of every other name exactly as it was: state, consensus states, auxiliary records. Operations without a
    target (time, relayer registration, restart, dropped executions) leave every client store as it was. -/
theorem step_frame (s : St) (o : Op) (n' : Name) (k' : Key) (hn : ∀ n, target o = some n → n' ≠ n) :
    get (step s o).1 n' k' = get s n' k' := by
  cases o with
  | time ns => rfl
  | relayer p =>
    simp only [step, relayerExec]; split <;> rfl
  | restart => rfl
  | dry o => rfl
  | prop p =>
    have hne : n' ≠ p.name := hn p.name rfl
    simp only [step, govExec]
    split
    · rfl
    · rcases commit_other (s := s) (o := handle s p) (s' := (commit s (handle s p)).1) (r := (commit s (handle s p)).2) rfl with h | h
      · rw [h]
      · exact handle_other h n' k' hne
  | update u =>
    have hne : n' ≠ u.name := hn u.name rfl
    simp only [step, txExec]
    split
    · rfl
    · rcases commit_other (s := s) (o := handleUpdate s u) (s' := (commit s (handleUpdate s u)).1) (r := (commit s (handleUpdate s u)).2) rfl with h | h
      · rw [h]
      · exact handleUpdate_other h n' k' hne

/-- over histories: a client none of whose operations is in the history keeps its whole store, whatever happens to the
    other clients (several clients of every type side by side) -/
theorem run_frame (n' : Name) (k' : Key) (ops : List Op) (hn : ∀ o ∈ ops, ∀ n, target o = some n → n' ≠ n) :
    ∀ s : St, get (run s ops).1 n' k' = get s n' k' := by
  induction ops with
  | nil => intro s; rfl
  | cons o r ih =>
    intro s
    rw [run_fst_cons, ih (fun o' ho' => hn o' (List.mem_cons_of_mem _ ho'))]
    exact step_frame s o n' k' (hn o List.mem_cons_self)

/-! ### the latest height of a Tendermint client never moves back (revision first, then block number) -/

theorem lt_iff (a b : Height) : a.lt b = true ↔ a.rev < b.rev ∨ (a.rev = b.rev ∧ a.h < b.h) := by
  simp [Height.lt]

theorem lt_false_iff (a b : Height) : a.lt b = false ↔ ¬ (a.rev < b.rev ∨ (a.rev = b.rev ∧ a.h < b.h)) := by
  rw [← lt_iff]; simp

/-- `h0 ≤ a` in the order of `Height.GT` -/
def Height.leLex (h0 a : Height) : Prop := a.lt h0 = false

theorem leLex_maxLex_left (h0 a b : Height) (h : Height.leLex h0 a) : Height.leLex h0 (Height.maxLex a b) := by
  unfold Height.leLex Height.maxLex at *
  by_cases hab : a.lt b = true
  · simp only [hab, ↓reduceIte]
    rw [lt_false_iff] at h ⊢
    rw [lt_iff] at hab
    omega
  · simp only [hab]; exact h

theorem maxLex_ge_right (a b : Height) : Height.leLex b (Height.maxLex a b) := by
  unfold Height.leLex Height.maxLex
  by_cases hab : a.lt b = true
  · simp only [hab, ↓reduceIte]; exact lt_irrefl b
  · have hab' : a.lt b = false := by simpa using hab
    simp only [hab', Bool.false_eq_true, ↓reduceIte]

/-- what an update leaves as the client of its name: the previous one (refused) or `storedAfterUpdate` -/
theorem txExec_client (s : St) (u : Update) (c : CState) (hc : getClient s u.name = some c) :
    getClient (txExec s u).1 u.name = some c ∨
    ∃ h, u.hdr.height = some h ∧ getClient (txExec s u).1 u.name = some (storedAfterUpdate c u h) := by
  unfold txExec
  split
  · exact Or.inl hc
  · unfold handleUpdate
    split
    · exact Or.inl hc
    · simp only [hc]
      split
      · exact Or.inl hc
      · unfold updateClient
        split
        · exact Or.inl hc
        · split
          · exact Or.inl hc
          · cases hh : u.hdr.height with
            | none => exact Or.inl hc
            | some h =>
              refine Or.inr ⟨h, rfl, ?_⟩
              cases hk : u.newK with
              | none => simp only [commit]; exact getClient_set_cs _ _ _
              | some k => simp only [commit]; rw [getClient_set_cons]; exact getClient_set_cs _ _ _

/-- a Tendermint client of name `n` whose latest height is at least `h0` -/
def TmLatestGe (s : St) (n : Name) (h0 : Height) : Prop :=
  ∃ c, getClient s n = some c ∧ c.ty = .tm ∧ Height.leLex h0 c.latest

theorem getClient_congr (s s' : St) (n : Name) (h : get s' n .cs = get s n .cs) : getClient s' n = getClient s n := by
  unfold getClient; rw [h]

/-- one step that is not a lifecycle proposal about `n` keeps "`n` is a Tendermint client with latest ≥ h0": an accepted
    update stores `maxLex` of the old latest height and the header's — a valid late header of an earlier revision or a
    skipped past height never moves it back — and nothing else touches the client -/
theorem step_tmLatestGe (s : St) (o : Op) (n : Name) (h0 : Height) (hno : ∀ p, o = .prop p → p.name ≠ n)
    (hge : TmLatestGe s n h0) : TmLatestGe (step s o).1 n h0 := by
  obtain ⟨c, hc, hty, hle⟩ := hge
  cases o with
  | update u =>
    by_cases hn : u.name = n
    · subst hn
      simp only [step]
      rcases txExec_client s u c hc with h | ⟨h, _, hst⟩
      · exact ⟨c, h, hty, hle⟩
      · refine ⟨_, hst, ?_, ?_⟩
        · simp [storedAfterUpdate, hty]
        · simp only [storedAfterUpdate, hty]; exact leLex_maxLex_left _ _ _ hle
    · refine ⟨c, ?_, hty, hle⟩
      rw [getClient_congr _ _ _ (step_frame s (.update u) n .cs (by intro m hm; simp [target] at hm; subst hm; exact fun h => hn h.symm))]
      exact hc
  | prop p =>
    have hne : p.name ≠ n := hno p rfl
    refine ⟨c, ?_, hty, hle⟩
    rw [getClient_congr _ _ _ (step_frame s (.prop p) n .cs (by intro m hm; simp [target] at hm; subst hm; exact fun h => hne h.symm))]
    exact hc
  | time ns => exact ⟨c, hc, hty, hle⟩
  | relayer p =>
    refine ⟨c, ?_, hty, hle⟩
    rw [getClient_congr _ _ _ (step_frame s (.relayer p) n .cs (by intro m hm; simp [target] at hm))]
    exact hc
  | restart => exact ⟨c, hc, hty, hle⟩
  | dry o => exact ⟨c, hc, hty, hle⟩

/-- **latest never decreases** (revision first, then block number) — over every history of updates by anyone, of
    time steps, restarts, dropped executions, relayer registrations and lifecycle proposals about OTHER clients, a
    Tendermint client's latest height never falls below a height it once had -/
theorem latest_never_decreases_lex (n : Name) (h0 : Height) (ops : List Op)
    (hno : ∀ o ∈ ops, ∀ p, o = .prop p → p.name ≠ n) : ∀ s : St, TmLatestGe s n h0 → TmLatestGe (run s ops).1 n h0 := by
  induction ops with
  | nil => intro s h; exact h
  | cons o r ih =>
    intro s h
    rw [run_fst_cons]
    exact ih (fun o' ho' => hno o' (List.mem_cons_of_mem _ ho')) _ (step_tmLatestGe s o n h0 (hno o List.mem_cons_self) h)

/-- … in particular after an upgrade (or create / toggle) that installed the Tendermint client state `c` — possibly
    of a NEW revision whose block numbers start again below those of the old one — no later history of updates,
    including valid late headers of the old revision with larger block numbers, takes the latest height below
    `c.latest`: proofs at the installed height stay within the client's range -/
theorem installed_height_stays_in_range (s s' : St) (p : Proposal) (c : CState) (k : KState) (hc : p.cs = some c)
    (hks : p.ks = some k) (hty : c.ty = .tm) (h : govExec s p = (s', Res.ok)) (ops : List Op)
    (hno : ∀ o ∈ ops, ∀ q, o = .prop q → q.name ≠ p.name) :
    ∃ c', getClient (run s' ops).1 p.name = some c' ∧ c'.ty = .tm ∧ c'.latest.lt c.latest = false := by
  obtain ⟨hC, _⟩ := installs_exactly s s' p c k hc hks h
  exact latest_never_decreases_lex p.name c.latest ops hno s' ⟨c, hC, hty, lt_irrefl _⟩

/-- **the stateless stage of an update accepts an app hash of ANY length** (a Tendermint app hash is arbitrary bytes:
    1, 8, 20, 31, 32, 33, 64 …): whether `MsgUpdateClient.ValidateBasic` passes does not depend on it, and a header whose
    other free-form fields are well formed passes -/
theorem update_stateless_accepts_any_apphash_len (n d e l p : Nat) :
    tmHeaderStateless { appHash := n, data := d, evidence := e, lastResults := l, proposer := p } =
      tmHeaderStateless { appHash := 32, data := d, evidence := e, lastResults := l, proposer := p } ∧
    (hashLenOk d = true → hashLenOk e = true → hashLenOk l = true → p = 20 →
      tmHeaderStateless { appHash := n, data := d, evidence := e, lastResults := l, proposer := p } = true) := by
  refine ⟨rfl, ?_⟩
  intro hd he hl hp
  simp [tmHeaderStateless, hd, he, hl, hp]

/-! ### an invalid proposal changes nothing (stated over the composition: submission stage, then handler) -/

/-- the content fails the stateless stage: bad chain name, a client state that does not unpack or fails `Validate()`,
    a consensus state that does not unpack or fails `ValidateBasic()` -/
def ContentInvalid (p : Proposal) : Prop :=
  validName p.name = false ∨ p.cs = none ∨ (∃ c, p.cs = some c ∧ c.valid = false) ∨
  p.ks = none ∨ ∃ k, p.ks = some k ∧ k.vb = false

theorem validateBasic_invalid {p : Proposal} (hi : ContentInvalid p) : validateBasic p = false := by
  unfold validateBasic
  rcases hi with h | h | ⟨c, hc, hv⟩ | h | ⟨k, hk, hv⟩
  · simp [h]
  · simp [h]
  · simp [hc, hv]
  · simp [h]
  · simp [hk, hv]

/-- **create**: invalid content is rejected at submission, nothing is touched -/
theorem invalid_create_changes_nothing (s : St) (p : Proposal) (hk : p.kind = .create) (hi : ContentInvalid p) :
    validateContent p = false ∧ govExec s p = (s, Res.err) := by
  have hv : validateContent p = false := by
    unfold validateContent; rw [hk]; exact validateBasic_invalid hi
  exact ⟨hv, by simp [govExec, hv]⟩

/-- **upgrade**: invalid content is rejected at submission, the existing client is untouched -/
theorem invalid_upgrade_changes_nothing (s : St) (p : Proposal) (hk : p.kind = .upgrade) (hi : ContentInvalid p) :
    validateContent p = false ∧ govExec s p = (s, Res.err) := by
  have hv : validateContent p = false := by
    unfold validateContent; rw [hk]; exact validateBasic_invalid hi
  exact ⟨hv, by simp [govExec, hv]⟩

/-- **toggle**: invalid content is rejected at submission — `ToggleClient`, which clears the old client store and runs
    `Initialize` on the assumption that the client state was validated, is never reached; the working client stays -/
theorem invalid_toggle_changes_nothing (s : St) (p : Proposal) (hk : p.kind = .toggle) (hi : ContentInvalid p) :
    validateContent p = false ∧ govExec s p = (s, Res.err) := by
  have hv : validateContent p = false := by
    unfold validateContent; rw [hk]; exact validateBasic_invalid hi
  exact ⟨hv, by simp [govExec, hv]⟩

/-- the content passes submission but cannot be installed: the consensus state does not unpack, is of another type
    than a non-TSS client state, or the type's own initial checks fail (BSC in every kind, the others on Initialize) -/
def ExecInvalid (p : Proposal) : Prop :=
  p.ks = none ∨ ∃ c k, p.cs = some c ∧ p.ks = some k ∧ c.ty ≠ .tss ∧
    (k.ty ≠ c.ty ∨ (c.initOk = false ∧ (c.ty = .bsc ∨ p.kind ≠ .upgrade)))

theorem initClient_invalid (s : St) (n : Name) (c : CState) (k : KState) (hne : c.ty ≠ .tss)
    (h : k.ty ≠ c.ty ∨ c.initOk = false) : ∃ e, initClient s n c k = .err e := by
  unfold initClient
  cases hc : c.ty <;> simp only [hc] at hne h ⊢
  case tss => exact absurd rfl hne
  all_goals
    rcases h with h | h
    · exact ⟨"consensus-type", by simp [h]⟩
    · by_cases hk : k.ty = c.ty
      · rw [hc] at hk; exact ⟨"init", by simp [hk, h]⟩
      · rw [hc] at hk; exact ⟨"consensus-type", by simp [hk]⟩

theorem upgradeState_invalid (s : St) (n : Name) (c : CState) (k : KState) (hne : c.ty ≠ .tss)
    (h : k.ty ≠ c.ty ∨ (c.initOk = false ∧ c.ty = .bsc)) : ∃ e, upgradeState s n c k = .err e := by
  unfold upgradeState
  cases hc : c.ty <;> simp only [hc] at hne h ⊢
  case tss => exact absurd rfl hne
  case tm =>
    rcases h with h | ⟨_, h⟩
    · exact ⟨"consensus-type", by simp [h]⟩
    · cases h
  case eth =>
    rcases h with h | ⟨_, h⟩
    · exact ⟨"consensus-type", by simp [h]⟩
    · cases h
  case bsc =>
    rcases h with h | ⟨h, _⟩
    · exact ⟨"consensus-type", by simp [h]⟩
    · by_cases hk : k.ty = .bsc
      · exact ⟨"init", by simp [hk, h]⟩
      · exact ⟨"consensus-type", by simp [hk]⟩

/-- **an invalid proposal changes nothing** — for every kind and every state: content that is invalid at the
    stateless stage or at the execution stage ends as a failed proposal (never a panic) and the state — the previous
    client, its consensus states, its auxiliary records, the relayers — is exactly what it was -/
theorem invalid_proposal_changes_nothing (s : St) (p : Proposal) (hi : ContentInvalid p ∨ ExecInvalid p) :
    govExec s p = (s, Res.err) := by
  rcases hi with hi | hi
  · cases hk : p.kind with
    | create => exact (invalid_create_changes_nothing s p hk hi).2
    | upgrade => exact (invalid_upgrade_changes_nothing s p hk hi).2
    | toggle => exact (invalid_toggle_changes_nothing s p hk hi).2
  · unfold govExec
    split
    · rfl
    · have hcommit : ∀ e, commit s (Outcome.err e : Outcome St) = (s, Res.err) := fun _ => rfl
      unfold handle
      rcases hi with hks | ⟨c, k, hc, hks, hne, hbad⟩
      · cases hk : p.kind <;> simp only [hk, hks]
        · split
          · exact hcommit _
          · split
            · exact hcommit _
            · cases p.cs <;> exact hcommit _
        · cases p.cs <;> exact hcommit _
        · split
          · exact hcommit _
          · cases p.cs <;> exact hcommit _
      · cases hk : p.kind <;> simp only [hk, hc, hks]
        · -- create
          split
          · exact hcommit _
          · split
            · exact hcommit _
            · unfold createClient
              obtain ⟨e, he⟩ := initClient_invalid (set s p.name .cs (.cstate c)) p.name c k hne
                (by rcases hbad with h | ⟨h, _⟩
                    · exact Or.inl h
                    · exact Or.inr h)
              simp only [he]; exact hcommit _
        · -- upgrade
          unfold upgradeClient
          cases ho : getClient s p.name with
          | none => exact hcommit _
          | some old =>
            simp only
            split
            · exact hcommit _
            · obtain ⟨e, he⟩ := upgradeState_invalid s p.name c k hne
                (by rcases hbad with h | ⟨h, h2⟩
                    · exact Or.inl h
                    · rcases h2 with h2 | h2
                      · exact Or.inr ⟨h, h2⟩
                      · exact absurd hk h2)
              simp only [he]; exact hcommit _
        · -- toggle
          split
          · exact hcommit _
          · unfold toggleClient
            cases ho : getClient s p.name with
            | none => exact hcommit _
            | some old =>
              simp only
              split
              · exact hcommit _
              · obtain ⟨e, he⟩ := initClient_invalid (set (clearName s p.name) p.name .cs (.cstate c)) p.name c k hne
                  (by rcases hbad with h | ⟨h, _⟩
                      · exact Or.inl h
                      · exact Or.inr h)
                simp only [he]; exact hcommit _

end TM.Lifecycle

/-! ### BSC: the pending validator set installed with the client is the one the installed epoch header announces,
and it is the set in force once the updates have crossed the switch point (epoch + ⌊len/2⌋)

Stated on `TM.Bsc` (Model/Bsc.lean, the model of the BSC client's `Initialize` / `CheckHeaderAndUpdateState` that C09
ties to the code). In `TM.Lifecycle` the same record is `Key.pv ↦ CState.x2`; the harness computes `x2` BY CONSTRUCTION
from the extra data of the installed header (own parsing), so the differential run compares the real store's pending
set with the announced list right after every install. -/
namespace TM.Bsc

/-- `k` accepted updates, each with the next header (the number check of `verifyCascadingFields` modulo 2^64) -/
inductive NextRun (env : Env) (cs0 : ClientState) (st0 : Store) : Nat → ClientState → Store → Prop
  | nil : NextRun env cs0 st0 0 cs0 st0
  | step {k : Nat} {cs cs' : ClientState} {st st' : Store} {bt : Nat} {h : Header} :
      NextRun env cs0 st0 k cs st → updateClient Fix.fixed env cs st bt h = .ok (cs', st') →
      h.number = cs.head.number + 1 → NextRun env cs0 st0 (k + 1) cs' st'

theorem install_pending_announced {env : Env} {cs0 cs : ClientState} {st : Store}
    (hc : createClient env cs0 = .ok (cs, st)) :
    cs = cs0 ∧ parseValidators cs0.head.extra = some st.pending ∧
    ∃ signer, env.recover cs0.chainId cs0.head = some signer ∧ st.recents = [⟨cs0.head.rev, cs0.head.number, signer⟩] := by
  obtain ⟨hcs, _, _, signer, pending, hr, _, hp, hst⟩ := createClient_ok hc
  subst hst
  exact ⟨hcs, hp, signer, hr, rfl⟩

theorem add_mod_of_mod_zero {n e j : Nat} (hn : n % e = 0) (hj : j < e) : (n + j) % e = j := by
  obtain ⟨q, hq⟩ := Nat.dvd_of_mod_eq_zero hn
  subst hq
  rw [Nat.mul_add_mod, Nat.mod_eq_of_lt hj]

theorem nextRun_inv {env : Env} {cs0 : ClientState} {st0 : Store} {k : Nat} {cs : ClientState} {st : Store}
    (hrun : NextRun env cs0 st0 k cs st) (he : cs0.head.number % cs0.epoch = 0) (hk : k < cs0.epoch) :
    cs.head.number = cs0.head.number + k ∧ cs.epoch = cs0.epoch ∧ st.pending = st0.pending ∧
    cs.validators = if k < cs0.validators.length / 2 then cs0.validators else
                    if cs0.validators.length / 2 = 0 then cs0.validators else st0.pending := by
  induction hrun with
  | nil =>
    refine ⟨rfl, rfl, rfl, ?_⟩
    by_cases h : 0 < cs0.validators.length / 2
    · rw [if_pos h]
    · rw [if_neg h, if_pos (by omega)]
  | @step j cs cs' st st' bt h _ hacc hnum ih =>
    obtain ⟨ihn, ihe, ihp, ihv⟩ := ih (by omega)
    obtain ⟨signer, pending, _, hp, hcs', _, hpe, _⟩ := step_effect hacc
    have hmod : h.number % cs.epoch = j + 1 := by
      rw [hnum, ihn, ihe, Nat.add_assoc]; exact add_mod_of_mod_zero he hk
    have hpend : pending = st.pending := by
      unfold pendingAfter at hp
      have : ¬ (h.number % cs.epoch = 0) := by omega
      simp only [this, ↓reduceIte, Option.some.injEq] at hp; exact hp.symm
    refine ⟨by rw [hcs']; simp only; omega, by rw [hcs']; exact ihe, by rw [hpe, hpend]; exact ihp, ?_⟩
    rw [hcs']; simp only [hmod]
    by_cases h1 : j + 1 < cs0.validators.length / 2
    · have hj : j < cs0.validators.length / 2 := by omega
      rw [if_pos hj] at ihv
      rw [ihv, if_pos h1]
      have : ¬ (j + 1 = cs0.validators.length / 2) := by omega
      simp [this]
    · rw [if_neg h1]
      by_cases h0 : cs0.validators.length / 2 = 0
      · -- a one-validator set: the switch point is the epoch header itself, never reached inside the epoch
        rw [if_pos h0]
        have : ¬ (j < cs0.validators.length / 2) := by omega
        rw [if_neg this, if_pos h0] at ihv
        rw [ihv]
        have : ¬ (j + 1 = cs0.validators.length / 2) := by omega
        simp [this]
      · rw [if_neg h0]
        by_cases hj : j < cs0.validators.length / 2
        · rw [if_pos hj] at ihv
          have : j + 1 = cs0.validators.length / 2 := by omega
          rw [ihv]; simp only [this, ↓reduceIte]; rw [hpend, ihp]
        · rw [if_neg hj, if_neg h0] at ihv
          rw [ihv, hpend, ihp]
          split <;> rfl

/-- **the announced set takes over** — a BSC client installed (create / toggle / upgrade all run the same
    `Initialize` / `UpgradeState` guards and writes) at an epoch header with `len` validators, ⌊len/2⌋ ≥ 1, then
    updated with `k` valid next headers, ⌊len/2⌋ ≤ k < epoch: the authorised validator list is EXACTLY the list the
    installed header's extra data announces (and before the switch point it is still the installed list). -/
theorem announced_set_in_force {env : Env} {cs0 cs csk : ClientState} {st stk : Store} {k : Nat}
    (hc : createClient env cs0 = .ok (cs, st)) (hrun : NextRun env cs st k csk stk) (hk : k < cs0.epoch) :
    (k < cs0.validators.length / 2 → csk.validators = cs0.validators) ∧
    (1 ≤ cs0.validators.length / 2 → cs0.validators.length / 2 ≤ k →
        parseValidators cs0.head.extra = some csk.validators ∧ stk.pending = csk.validators) := by
  obtain ⟨hcs, _, hep, _⟩ := createClient_ok hc
  obtain ⟨_, hp, _⟩ := install_pending_announced hc
  subst hcs
  obtain ⟨_, _, hpend, hv⟩ := nextRun_inv hrun hep hk
  constructor
  · intro hlt; rw [hv, if_pos hlt]
  · intro h1 h2
    have hn : ¬ (k < cs.validators.length / 2) := by omega
    have h0 : ¬ (cs.validators.length / 2 = 0) := by omega
    rw [if_neg hn, if_neg h0] at hv
    exact ⟨by rw [hv]; exact hp, by rw [hv]; exact hpend⟩

/-! non-vacuity: epoch 10, a client installed at epoch header 20 with the set {1,2,3} in force while the header announces
{3,4,5,6,7}: header 21 (validator 1) is verified by the old set and triggers the switch, header 22 sealed by the newly
joined validator 5 is accepted and the announced list is in force; the retired validator 1 can no longer seal 22. -/
namespace Witness
def rotClient : ClientState := client 10 1000000 [1, 2, 3] (hdr 20 3 2 100 [3, 4, 5, 6, 7])

example : (match run Fix.fixed env rotClient [(0, hdr 21 1 2 103), (0, hdr 22 5 2 106)] with
      | .ok s => some (s.1.validators, s.2.pending)
      | _ => none) = some ([3, 4, 5, 6, 7].map addrBytes, [3, 4, 5, 6, 7].map addrBytes)
    ∧ (match run Fix.fixed env rotClient [] with | .ok s => some s.2.pending | _ => none) = some ([3, 4, 5, 6, 7].map addrBytes)
    ∧ (run Fix.fixed env rotClient [(0, hdr 21 1 2 103), (0, hdr 22 1 1 106)]).isOk = false
    ∧ (run Fix.fixed env rotClient [(0, hdr 21 1 2 103), (0, hdr 22 2 1 106)]).isOk = false := by
  refine ⟨by decide +kernel, by decide +kernel, by decide +kernel, by decide +kernel⟩
end Witness

end TM.Bsc

