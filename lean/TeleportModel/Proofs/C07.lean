import TeleportModel.Model.TmClient
/-
C07 — the Tendermint client trusts only sufficiently signed, fresh, newer headers.

Property theorems about the executable model `Model/TmClient.lean` (helper lemmas first, local to this file):
  commitLight_sound, commitTrusting_sound, accept_sound, accept_sound_trustlevel, accept_frame,
  latest_monotone, expired_accepts_nothing, proof_gate (+ corollaries), and non-vacuity examples.
"Signed" is read semantically (`signedPower`): the voting power of those entries of a validator set under whose
public key some for-block signature of the commit verifies — every entry of the set is counted at most once.
-/
namespace TM.TmClient
open TM

/-! ### helper lemmas -/

theorem bind_ok {α β} (x : Outcome α) (f : α → Outcome β) (b : β) :
    (x >>= f) = .ok b ↔ ∃ a, x = .ok a ∧ f a = .ok b := by
  cases x <;> simp [Bind.bind, Outcome.bind]

theorem require_ok (c : Bool) (s : String) (u : Unit) : require c s = .ok u ↔ c = true := by
  unfold require; cases c <;> simp

theorem pure_ok {α} (a b : α) : (pure a : Outcome α) = .ok b ↔ a = b := by
  simp [pure]

/-- all voting powers are non-negative (established by `valSetFromProto`) -/
def NonNeg (vs : List Validator) : Prop := ∀ v ∈ vs, 0 ≤ v.power

theorem wsum_nonneg (p : Nat → Validator → Bool) (k : Nat) (vs : List Validator) (h : NonNeg vs) :
    0 ≤ wsum p k vs := by
  induction vs generalizing k with
  | nil => simp [wsum]
  | cons v vs ih =>
    have hv : 0 ≤ v.power := h v (by simp)
    have := ih (k + 1) (fun w hw => h w (by simp [hw]))
    simp only [wsum]
    split <;> omega

theorem wsum_mono (p q : Nat → Validator → Bool) (k : Nat) (vs : List Validator) (h : NonNeg vs)
    (hpq : ∀ j v, vs[j]? = some v → p (k + j) v = true → q (k + j) v = true) :
    wsum p k vs ≤ wsum q k vs := by
  induction vs generalizing k with
  | nil => simp [wsum]
  | cons v vs ih =>
    have hv : 0 ≤ v.power := h v (by simp)
    have := ih (k + 1) (fun w hw => h w (by simp [hw])) (fun j w hj hp => by
      have := hpq (j + 1) w (by simpa using hj)
      rw [show k + (j + 1) = k + 1 + j by omega] at this
      exact this hp)
    have h0 := hpq 0 v (by simp)
    simp only [Nat.add_zero] at h0
    simp only [wsum]
    by_cases hp : p k v = true
    · rw [if_pos hp, if_pos (h0 hp)]; omega
    · rw [if_neg hp]; split <;> omega

theorem wsum_le_total (p : Nat → Validator → Bool) (k : Nat) (vs : List Validator) (h : NonNeg vs) :
    wsum p k vs ≤ totalOf vs := by
  induction vs generalizing k with
  | nil => simp [wsum, totalOf]
  | cons v vs ih =>
    have hv : 0 ≤ v.power := h v (by simp)
    have := ih (k + 1) (fun w hw => h w (by simp [hw]))
    simp only [wsum, totalOf]
    split <;> omega

/-- flagging one more index adds exactly that validator's power -/
theorem wsum_insert (s : List Nat) (k : Nat) (vs : List Validator) (j : Nat) (v : Validator)
    (hj : vs[j]? = some v) (hn : (k + j) ∉ s) :
    wsum (fun i _ => decide (i ∈ (k + j) :: s)) k vs = wsum (fun i _ => decide (i ∈ s)) k vs + v.power := by
  induction vs generalizing k j with
  | nil => simp at hj
  | cons w vs ih =>
    simp only [wsum]
    cases j with
    | zero =>
      simp only [List.getElem?_cons_zero, Option.some.injEq] at hj
      subst hj
      simp only [Nat.add_zero] at hn ⊢
      have hrest : wsum (fun i _ => decide (i ∈ k :: s)) (k + 1) vs = wsum (fun i _ => decide (i ∈ s)) (k + 1) vs := by
        have aux : ∀ (l : List Validator) (m : Nat), k < m →
            wsum (fun i _ => decide (i ∈ k :: s)) m l = wsum (fun i _ => decide (i ∈ s)) m l := by
          intro l
          induction l with
          | nil => intro m _; simp [wsum]
          | cons x l ihl =>
            intro m hm
            simp only [wsum]
            rw [ihl (m + 1) (by omega)]
            have : (m ∈ k :: s) ↔ m ∈ s := by
              simp only [List.mem_cons]
              constructor
              · intro h; rcases h with h | h
                · omega
                · exact h
              · intro h; exact Or.inr h
            simp only [this]
        exact aux vs (k + 1) (by omega)
      rw [hrest]
      simp [hn]
      omega
    | succ j =>
      simp only [List.getElem?_cons_succ] at hj
      have := ih (k + 1) j hj (by rw [show k + 1 + j = k + (j + 1) by omega]; exact hn)
      rw [show k + 1 + j = k + (j + 1) by omega] at this
      rw [this]
      have hk : k ≠ k + (j + 1) := by omega
      have : (k ∈ (k + (j + 1)) :: s) ↔ k ∈ s := by
        simp only [List.mem_cons]
        constructor
        · intro h; rcases h with h | h
          · exact absurd h hk
          · exact h
        · intro h; exact Or.inr h
      simp only [this]
      omega

/-- a for-block signature at position `i` that verifies under `key` witnesses `signedBy` -/
theorem anySig_of_get (env : Env) (cid : Bytes) (c : Commit) (key : Nat) (k : Nat) (ss : List CommitSig) (j : Nat)
    (s : CommitSig) (hj : ss[j]? = some s) (hf : s.flag = .commit) (hv : env.sigValid cid c (k + j) key = true) :
    anySig env cid c key k ss = true := by
  induction ss generalizing k j with
  | nil => simp at hj
  | cons x ss ih =>
    simp only [anySig]
    cases j with
    | zero =>
      simp only [List.getElem?_cons_zero, Option.some.injEq] at hj
      subst hj
      simp only [Nat.add_zero] at hv
      simp [hf, hv]
    | succ j =>
      simp only [List.getElem?_cons_succ] at hj
      have := ih (k + 1) j hj (by rw [show k + 1 + j = k + (j + 1) by omega]; exact hv)
      simp [this]



theorem wsum_shift (f : Validator → Bool) (k k' : Nat) (vs : List Validator) :
    wsum (fun _ v => f v) k vs = wsum (fun _ v => f v) k' vs := by
  induction vs generalizing k k' with
  | nil => simp [wsum]
  | cons v vs ih => simp only [wsum]; rw [ih (k + 1) (k' + 1)]

theorem signedPower_cons (env : Env) (cid : Bytes) (c : Commit) (v : Validator) (vs : List Validator) :
    signedPower env cid c (v :: vs) =
      (if signedBy env cid c v.key then v.power else 0) + signedPower env cid c vs := by
  unfold signedPower
  simp only [wsum]
  rw [wsum_shift (fun v => signedBy env cid c v.key) (0 + 1) 0]

theorem signedPower_nonneg (env : Env) (cid : Bytes) (c : Commit) (vs : List Validator) (h : NonNeg vs) :
    0 ≤ signedPower env cid c vs := wsum_nonneg _ _ _ h

theorem signedPower_le_total (env : Env) (cid : Bytes) (c : Commit) (vs : List Validator) (h : NonNeg vs) :
    signedPower env cid c vs ≤ totalOf vs := wsum_le_total _ _ _ h

theorem lightLoop_sound (env : Env) (cid : Bytes) (c : Commit) (needed : Int) :
    ∀ (vs : List Validator) (ss : List CommitSig) (i : Nat) (t : Int),
      NonNeg vs →
      (∀ j s, ss[j]? = some s → c.sigs[i + j]? = some s) →
      lightLoop env cid c needed i t vs ss = .ok () →
      needed < t + signedPower env cid c vs := by
  intro vs
  induction vs with
  | nil => intro ss i t _ _ h; simp [lightLoop] at h
  | cons v vs ih =>
    intro ss i t hnn hs h
    cases ss with
    | nil => simp [lightLoop] at h
    | cons s ss =>
      have hv : 0 ≤ v.power := hnn v (by simp)
      have hnn' : NonNeg vs := fun w hw => hnn w (by simp [hw])
      have hs' : ∀ j s', ss[j]? = some s' → c.sigs[i + 1 + j]? = some s' := by
        intro j s' hj
        have := hs (j + 1) s' (by simpa using hj)
        rw [show i + 1 + j = i + (j + 1) by omega]; exact this
      have hsp := signedPower_nonneg env cid c vs hnn'
      rw [signedPower_cons]
      simp only [lightLoop] at h
      by_cases hf : s.flag = .commit
      · rw [if_neg (by simpa using hf)] at h
        by_cases hval : env.sigValid cid c i v.key = false
        · rw [if_pos hval] at h; simp at h
        · rw [if_neg hval] at h
          have hval' : env.sigValid cid c i v.key = true := by simpa using hval
          have hsb : signedBy env cid c v.key = true := by
            unfold signedBy
            have h0 := hs 0 s (by simp)
            exact anySig_of_get env cid c v.key 0 c.sigs i s (by simpa using h0) hf (by simpa using hval')
          rw [if_pos hsb]
          by_cases hgt : t + v.power > needed
          · omega
          · rw [if_neg hgt] at h
            have := ih ss (i + 1) (t + v.power) hnn' hs' h
            omega
      · rw [if_pos hf] at h
        have := ih ss (i + 1) t hnn' hs' h
        split <;> omega

/-- **`VerifyCommitLight` is sound**: success means that validators holding more than two thirds of the
    total power of the set have a valid for-block signature in the commit (each entry counted once). -/
theorem commitLight_sound (env : Env) (cid : Bytes) (vs : List Validator) (height : Int) (c : Commit)
    (hnn : NonNeg vs)
    (h : verifyCommitLight env cid vs (totalOf vs) height c = .ok ()) :
    3 * signedPower env cid c vs > 2 * totalOf vs ∧ vs.length = c.sigs.length ∧ height = c.height := by
  unfold verifyCommitLight at h
  by_cases h1 : vs.length ≠ c.sigs.length
  · rw [if_pos h1] at h; simp at h
  · rw [if_neg h1] at h
    by_cases h2 : height ≠ c.height
    · rw [if_pos h2] at h; simp at h
    · rw [if_neg h2] at h
      have := lightLoop_sound env cid c (totalOf vs * 2 / 3) vs c.sigs 0 0 hnn (by intro j s hj; simpa using hj) h
      refine ⟨?_, by simpa using h1, by simpa using h2⟩
      omega



theorem findAddr_spec (a : Nat) (k : Nat) (vs : List Validator) (vi : Nat) (v : Validator)
    (h : findAddr a k vs = some (vi, v)) : ∃ j, vi = k + j ∧ vs[j]? = some v ∧ v.addr = a := by
  induction vs generalizing k with
  | nil => simp [findAddr] at h
  | cons w vs ih =>
    simp only [findAddr] at h
    by_cases hw : w.addr = a
    · rw [if_pos hw] at h
      simp only [Option.some.injEq, Prod.mk.injEq] at h
      exact ⟨0, by omega, by simp [h.2], by rw [← h.2]; exact hw⟩
    · rw [if_neg hw] at h
      obtain ⟨j, h1, h2, h3⟩ := ih (k + 1) h
      exact ⟨j + 1, by omega, by simpa using h2, h3⟩

theorem trustLoop_sound (env : Env) (cid : Bytes) (c : Commit) (vals : List Validator) (needed : Int)
    (hnn : NonNeg vals) :
    ∀ (ss : List CommitSig) (i : Nat) (t : Int) (seen : List Nat),
      (∀ j s, ss[j]? = some s → c.sigs[i + j]? = some s) →
      t = wsum (fun i _ => decide (i ∈ seen)) 0 vals →
      (∀ vi ∈ seen, ∀ v, vals[vi]? = some v → signedBy env cid c v.key = true) →
      trustLoop env cid c vals needed i t seen ss = .ok () →
      needed < signedPower env cid c vals := by
  intro ss
  induction ss with
  | nil => intro i t seen _ _ _ h; simp [trustLoop] at h
  | cons s ss ih =>
    intro i t seen hs ht hseen h
    have hs' : ∀ j s', ss[j]? = some s' → c.sigs[i + 1 + j]? = some s' := by
      intro j s' hj
      have := hs (j + 1) s' (by simpa using hj)
      rw [show i + 1 + j = i + (j + 1) by omega]; exact this
    simp only [trustLoop] at h
    by_cases hf : s.flag = .commit
    · rw [if_neg (by simpa using hf)] at h
      cases hfa : findAddr s.addr 0 vals with
      | none => rw [hfa] at h; exact ih (i + 1) t seen hs' ht hseen h
      | some p =>
        obtain ⟨vi, v⟩ := p
        rw [hfa] at h
        simp only at h
        obtain ⟨j, hvi, hget, _⟩ := findAddr_spec _ _ _ _ _ hfa
        simp only [Nat.zero_add] at hvi
        rw [hvi] at h
        clear hvi hfa vi
        by_cases hmem : j ∈ seen
        · rw [if_pos hmem] at h; simp at h
        · rw [if_neg hmem] at h
          by_cases hval : env.sigValid cid c i v.key = false
          · rw [if_pos hval] at h; simp at h
          · rw [if_neg hval] at h
            have hval' : env.sigValid cid c i v.key = true := by simpa using hval
            have hsb : signedBy env cid c v.key = true := by
              unfold signedBy
              have h0 := hs 0 s (by simp)
              exact anySig_of_get env cid c v.key 0 c.sigs i s (by simpa using h0) hf (by simpa using hval')
            have hins := wsum_insert seen 0 vals j v hget (by simpa using hmem)
            simp only [Nat.zero_add] at hins
            have hseen' : ∀ vi ∈ j :: seen, ∀ w, vals[vi]? = some w → signedBy env cid c w.key = true := by
              intro vi hvi w hw
              simp only [List.mem_cons] at hvi
              rcases hvi with hvi | hvi
              · subst hvi; rw [hget] at hw; simp only [Option.some.injEq] at hw; subst hw; exact hsb
              · exact hseen vi hvi w hw
            by_cases hgt : t + v.power > needed
            · have hle : wsum (fun i _ => decide (i ∈ j :: seen)) 0 vals ≤ signedPower env cid c vals := by
                unfold signedPower
                apply wsum_mono _ _ 0 vals hnn
                intro m w hm hp
                simp only [Nat.zero_add, decide_eq_true_eq] at hp
                exact hseen' m hp w hm
              omega
            · rw [if_neg hgt] at h
              exact ih (i + 1) (t + v.power) (j :: seen) hs' (by rw [hins, ht]) hseen' h
    · rw [if_pos hf] at h
      exact ih (i + 1) t seen hs' ht hseen h

/-- the trust level fits `int64` (numerator and denominator are `uint64` in the client state and are
    converted with `int64(…)` by the library) -/
def TrustLevelInt64 (num den : Nat) : Prop := (num : Int) < two63 ∧ 0 < den ∧ (den : Int) < two63

theorem wrap64_id (x : Int) (h0 : 0 ≤ x) (h1 : x < two63) : wrap64 x = x := by
  unfold wrap64 two64; unfold two63 at *; omega

theorem ite_none_some {α} {c : Prop} [Decidable c] {x m : α} (h : (if c then none else some x) = some m) :
    m = x := by
  split at h
  · simp at h
  · simp only [Option.some.injEq] at h; exact h.symm

theorem safeMul_some (a b m : Int) (h : safeMul a b = some m) : m = a * b := by
  unfold safeMul at h
  by_cases h0 : a = 0 ∨ b = 0
  · rw [if_pos h0] at h
    simp only [Option.some.injEq] at h
    rcases h0 with h0 | h0 <;> simp [h0, ← h]
  · rw [if_neg h0] at h
    exact ite_none_some h

/-- **`VerifyCommitLightTrusting` is sound**: success means that validators of the (trusted) set holding more than
    `num/den` of its total power have a valid for-block signature in the commit; no entry is counted twice. -/
theorem commitTrusting_sound (env : Env) (cid : Bytes) (vs : List Validator) (c : Commit) (num den : Nat)
    (hnn : NonNeg vs) (htl : TrustLevelInt64 num den)
    (h : verifyCommitLightTrusting env cid vs (totalOf vs) c num den = .ok ()) :
    (den : Int) * signedPower env cid c vs > (num : Int) * totalOf vs := by
  obtain ⟨hn, hd0, hd⟩ := htl
  unfold verifyCommitLightTrusting at h
  rw [if_neg (by omega)] at h
  rw [wrap64_id num (by omega) hn, wrap64_id den (by omega) hd] at h
  cases hm : safeMul (totalOf vs) num with
  | none => rw [hm] at h; simp at h
  | some m =>
    rw [hm] at h
    simp only at h
    have hmeq := safeMul_some _ _ _ hm
    have htot : 0 ≤ totalOf vs := by
      have := signedPower_le_total env cid c vs hnn
      have := signedPower_nonneg env cid c vs hnn
      omega
    have hm0 : 0 ≤ m := by rw [hmeq]; exact Int.mul_nonneg htot (by omega)
    rw [Int.tdiv_eq_ediv_of_nonneg hm0] at h
    have := trustLoop_sound env cid c vs (m / (den : Int)) hnn c.sigs 0 0 [] (by intro j s hj; simpa using hj)
      (by
        have : ∀ (l : List Validator) (k : Nat), wsum (fun i _ => decide (i ∈ ([] : List Nat))) k l = 0 := by
          intro l; induction l with
          | nil => intro k; simp [wsum]
          | cons x l ih => intro k; simp only [wsum]; rw [ih (k + 1)]; simp
        rw [this]) (by intro vi hvi; simp at hvi) h
    have hdpos : (0 : Int) < (den : Int) := by omega
    have := (Int.ediv_lt_iff_lt_mul hdpos).mp this
    rw [hmeq] at this
    rw [Int.mul_comm (den : Int), Int.mul_comm (num : Int)]
    exact this


/-! ### validator-set conversion establishes what the soundness theorems assume -/

theorem totalPowerAux_ok (vs : List Validator) (s t : Int) (hs : 0 ≤ s) (hnn : NonNeg vs)
    (h : totalPowerAux s vs = .ok t) : t = s + totalOf vs ∧ t ≤ maxTotalVotingPower ∨ (vs = [] ∧ t = s) := by
  induction vs generalizing s with
  | nil => simp only [totalPowerAux, Outcome.ok.injEq] at h; right; exact ⟨rfl, h.symm⟩
  | cons v vs ih =>
    have hv : 0 ≤ v.power := hnn v (by simp)
    have hnn' : NonNeg vs := fun w hw => hnn w (by simp [hw])
    simp only [totalPowerAux] at h
    split at h
    · simp at h
    · rename_i hgt
      have hclip : clip64 (s + v.power) = s + v.power := by
        unfold clip64 maxTotalVotingPower at *
        unfold maxInt64 minInt64 at *
        split
        · rename_i h1; rw [if_pos h1] at hgt; omega
        · split <;> omega
      rw [hclip] at h hgt
      left
      rcases ih (s + v.power) (by omega) hnn' h with ⟨h1, h2⟩ | ⟨h1, h2⟩
      · simp only [totalOf]; exact ⟨by omega, h2⟩
      · subst h1; simp only [totalOf]; exact ⟨by omega, by omega⟩

theorem all_nonneg_of (vs : List Validator)
    (h : vs.all (fun v => decide (0 ≤ v.power) && v.addrOk) = true) : NonNeg vs := by
  intro v hv
  rw [List.all_eq_true] at h
  have := h v hv
  simp only [Bool.and_eq_true, decide_eq_true_eq] at this
  exact this.1

/-- what a successful `ValidatorSetFromProto` + `ValidateBasic` guarantees -/
theorem valSetFromProto_ok (p : ValSetP) (vs : List Validator) (total : Int)
    (h : valSetFromProto p = .ok (vs, total)) :
    vs = p.vals ∧ NonNeg vs ∧ total = totalOf vs ∧ vs ≠ [] := by
  unfold valSetFromProto at h
  simp only [bind_ok, require_ok, pure_ok, Prod.mk.injEq] at h
  obtain ⟨_, _, _, _, _, _, t, ht, _, hne, _, hall, _, _, hvs, htot⟩ := h
  have hnn : NonNeg p.vals := all_nonneg_of _ hall
  subst hvs
  refine ⟨rfl, hnn, ?_, ?_⟩
  · rcases totalPowerAux_ok p.vals 0 t (by omega) hnn ht with ⟨h1, _⟩ | ⟨h1, h2⟩
    · omega
    · rw [h1] at hne; simp at hne
  · intro he; rw [he] at hne; simp at hne

/-! ### heights -/

theorem Height.lt_iff (a b : Height) : a < b ↔ a.rev < b.rev ∨ (a.rev = b.rev ∧ a.h < b.h) := Iff.rfl

theorem Height.le_iff (a b : Height) : a ≤ b ↔ a.rev < b.rev ∨ (a.rev = b.rev ∧ a.h ≤ b.h) := by
  obtain ⟨ar, ah⟩ := a
  obtain ⟨br, bh⟩ := b
  show (_ ∨ _) ∨ _ ↔ _
  simp only [Height.mk.injEq]
  omega

theorem Height.le_refl (a : Height) : a ≤ a := Or.inr rfl

theorem Height.le_trans {a b c : Height} (h1 : a ≤ b) (h2 : b ≤ c) : a ≤ c := by
  rw [Height.le_iff] at *; omega

theorem Height.le_max_left (a b : Height) : a ≤ Height.max a b := by
  unfold Height.max
  split
  · rename_i h; exact Or.inl h
  · exact Height.le_refl a

theorem Height.le_max_right (a b : Height) : b ≤ Height.max a b := by
  unfold Height.max
  split
  · exact Height.le_refl b
  · rename_i h
    rw [Height.le_iff]; rw [Height.lt_iff] at h; omega

/-! ### finite maps -/

theorem lookup_erase_ne {α} (h k : Height) (m : List (Height × α)) (hne : k ≠ h) :
    lookup k (erase h m) = lookup k m := by
  induction m with
  | nil => rfl
  | cons x m ih =>
    obtain ⟨k', v⟩ := x
    simp only [erase]
    by_cases h1 : k' = h
    · rw [if_pos h1]
      simp only [lookup]
      rw [if_neg (by rw [h1]; exact fun e => hne e.symm)]
      exact ih
    · rw [if_neg h1]
      simp only [lookup]
      rw [ih]

theorem lookup_erase_self {α} (h : Height) (m : List (Height × α)) : lookup h (erase h m) = none := by
  induction m with
  | nil => rfl
  | cons x m ih =>
    obtain ⟨k', v⟩ := x
    simp only [erase]
    by_cases h1 : k' = h
    · rw [if_pos h1]; exact ih
    · rw [if_neg h1]; simp only [lookup]; rw [if_neg h1]; exact ih

theorem lookup_insert_self {α} (h : Height) (v : α) (m : List (Height × α)) : lookup h (insert h v m) = some v := by
  simp [insert, lookup]

theorem lookup_insert_ne {α} (h k : Height) (v : α) (m : List (Height × α)) (hne : k ≠ h) :
    lookup k (insert h v m) = lookup k m := by
  simp only [insert, lookup]
  rw [if_neg (fun e => hne e.symm)]
  exact lookup_erase_ne h k m hne

/-! ### the statement of acceptance -/

/-- the two headers are adjacent, as `light.Verify` decides it (int64 arithmetic on the heights) -/
def Adjacent (hd : Header) : Prop := hd.sh.height = wrap64 (wrap64 hd.trustedHeight.h + 1)

/-- Everything `checkValidity` has established when it lets a header through. -/
structure Valid (env : Env) (cs : ClientState) (tc : ConsState) (hd : Header) (now : Int) (hh : Height) : Prop where
  /-- the header's height: revision parsed from its chain id, height of the block -/
  height_eq : headerHeight hd = .ok hh
  height_pos : 0 < hd.sh.height
  /-- the supplied trusted validators hash to the next-validators hash stored at the trusted height -/
  trusted_hash : env.valsHash hd.trustedVals.vals = tc.nextValsHash
  trusted_nonneg : NonNeg hd.trustedVals.vals
  /-- same revision, strictly newer -/
  same_rev : hh.rev = hd.trustedHeight.rev
  newer : hd.trustedHeight < hh
  /-- the header is for the client's chain (at the header's revision) -/
  chain : hd.sh.chainId = effChainId cs hh.rev
  /-- freshness: trusted state within the trusting period, header time after it and within the clock drift -/
  not_expired : tc.time + cs.trustingPeriod > now
  time_after : tc.time < hd.sh.time
  time_drift : hd.sh.time < now + cs.maxClockDrift
  /-- the header's own validator set is the one it commits to -/
  vals_hash : env.valsHash hd.vals.vals = hd.sh.valsHash
  vals_nonneg : NonNeg hd.vals.vals
  /-- the commit is a commit for this very header -/
  commit : ∃ c, hd.commit = some c ∧ c.height = hd.sh.height ∧ c.blockHash = env.headerHash hd.sh ∧
    (Adjacent hd → hd.sh.valsHash = tc.nextValsHash) ∧
    (¬ Adjacent hd → TrustLevelInt64 cs.tlNum cs.tlDen →
        (cs.tlDen : Int) * signedPower env hd.sh.chainId c hd.trustedVals.vals >
          (cs.tlNum : Int) * totalOf hd.trustedVals.vals) ∧
    3 * signedPower env hd.sh.chainId c hd.vals.vals > 2 * totalOf hd.vals.vals

theorem signedHeaderBasic_ok (env : Env) (cid : Bytes) (hd : Header) (c : Commit)
    (h : signedHeaderBasic env cid hd = .ok c) :
    hd.commit = some c ∧ 0 < hd.sh.height ∧ hd.sh.chainId = cid ∧ c.height = hd.sh.height ∧
      c.blockHash = env.headerHash hd.sh := by
  unfold signedHeaderBasic at h
  split at h
  · simp at h
  · rename_i c' hc
    simp only [bind_ok, require_ok, pure_ok, Bool.and_eq_true, decide_eq_true_eq] at h
    obtain ⟨_, ⟨h1, _⟩, _, _, _, h3, _, h4, _, h5, h6⟩ := h
    subst h6
    exact ⟨hc, h1, h3, h4, h5⟩

theorem verifyNewHeaderAndVals_ok (env : Env) (cid : Bytes) (hd : Header) (vals : List Validator)
    (trustedH trustedTime now drift : Int) (c : Commit)
    (h : verifyNewHeaderAndVals env cid hd vals trustedH trustedTime now drift = .ok c) :
    signedHeaderBasic env cid hd = .ok c ∧ hd.sh.height > trustedH ∧ hd.sh.time > trustedTime ∧
      hd.sh.time < now + drift ∧ hd.sh.valsHash = env.valsHash vals := by
  unfold verifyNewHeaderAndVals at h
  simp only [bind_ok, require_ok, pure_ok, decide_eq_true_eq] at h
  obtain ⟨c', hc, _, h1, _, h2, _, h3, _, h4, h5⟩ := h
  subst h5
  exact ⟨hc, h1, h2, h3, h4⟩

theorem expired_false (t period now : Int) (h : (!expired t period now) = true) : t + period > now := by
  unfold expired at h
  simpa using h

theorem checkValidity_ok (env : Env) (cs : ClientState) (tc : ConsState) (hd : Header) (now : Int) (hh : Height)
    (h : checkValidity env cs tc hd now = .ok hh) : Valid env cs tc hd now hh := by
  unfold checkValidity at h
  simp only [bind_ok, require_ok, pure_ok, Bool.and_eq_true, Bool.not_eq_true', decide_eq_true_eq,
    decide_eq_false_iff_not, Prod.exists] at h
  obtain ⟨tvals, ttotal, htv, _, hth, hh', hhh, _, hrev, _, _, _, _, vals, total, hv, _, hnewer, _, hlv, hpure⟩ := h
  subst hpure
  obtain ⟨htv1, htv2, htv3, _⟩ := valSetFromProto_ok _ _ _ htv
  obtain ⟨hv1, hv2, hv3, _⟩ := valSetFromProto_ok _ _ _ hv
  subst htv1 hv1 htv3 hv3
  have hnewer' : hd.trustedHeight < hh' := by
    rw [Height.le_iff] at hnewer; rw [Height.lt_iff]; omega
  unfold lightVerify at hlv
  split at hlv
  · -- non-adjacent
    rename_i hna
    simp only [bind_ok, require_ok] at hlv
    obtain ⟨_, hexp, c, hnew, _, htr, hli⟩ := hlv
    obtain ⟨hsb, _, ht1, ht2, hvh⟩ := verifyNewHeaderAndVals_ok _ _ _ _ _ _ _ _ _ hnew
    obtain ⟨hc, hpos, hcid, hch, hcb⟩ := signedHeaderBasic_ok _ _ _ _ hsb
    have hl := commitLight_sound env _ _ _ c hv2 hli
    refine ⟨hhh, hpos, hth.symm, htv2, hrev, hnewer', hcid, expired_false _ _ _ hexp, ht1, ht2, hvh.symm, hv2,
      c, hc, hch, hcb, ?_, ?_, ?_⟩
    · intro hadj; exact absurd hadj hna
    · intro _ htl
      rw [hcid]
      exact commitTrusting_sound env _ _ c _ _ htv2 htl htr
    · rw [hcid]; exact hl.1
  · -- adjacent
    rename_i hadj
    simp only [bind_ok, require_ok, decide_eq_true_eq] at hlv
    obtain ⟨_, hexp, c, hnew, _, hnv, hli⟩ := hlv
    obtain ⟨hsb, _, ht1, ht2, hvh⟩ := verifyNewHeaderAndVals_ok _ _ _ _ _ _ _ _ _ hnew
    obtain ⟨hc, hpos, hcid, hch, hcb⟩ := signedHeaderBasic_ok _ _ _ _ hsb
    have hl := commitLight_sound env _ _ _ c hv2 hli
    refine ⟨hhh, hpos, hth.symm, htv2, hrev, hnewer', hcid, expired_false _ _ _ hexp, ht1, ht2, hvh.symm, hv2,
      c, hc, hch, hcb, ?_, ?_, ?_⟩
    · intro _; exact hnv
    · intro hna; exact absurd (by simpa [Adjacent] using hadj) hna
    · rw [hcid]; exact hl.1


/-! ### property theorems -/

/-- **accept_sound.** If the keeper's `UpdateClient` accepts a header at block time `now`, then
    the client was not expired, a consensus state `tc` is stored at the trusted height, the header passed every
    condition of `Valid` (trusted validators hash to `tc.nextValsHash`; same revision; strictly newer height; trusted
    state within the trusting period; `tc.time < header time < now + drift`; adjacent ⇒ the header's validators hash is
    `tc.nextValsHash`; non-adjacent ⇒ more than the trust level of the trusted set signed; more than 2/3 of the
    header's own set signed; the commit is for this header), and afterwards exactly
    `⟨time, appHash, nextValsHash⟩` of the header is stored at its height, with processed time `now`, and the latest
    height is the maximum of the old latest height and the header's height. -/
theorem accept_sound (env : Env) (c c' : Client) (hd : Header) (now : Int)
    (h : updateClient env c hd now = .ok c') :
    status c now = .active ∧
    ∃ tc hh, lookup hd.trustedHeight c.st.cons = some tc ∧
      Valid env c.cs tc hd now hh ∧
      lookup hh c'.st.cons = some ⟨hd.sh.time, hd.sh.appHash, hd.sh.nextValsHash⟩ ∧
      lookup hh c'.st.ptime = some (toU64 now) ∧
      lookup hh c'.st.iter = some () ∧
      c'.cs = { c.cs with latest := Height.max c.cs.latest hh } := by
  unfold updateClient at h
  split at h
  · simp at h
  · simp at h
  · rename_i hst
    split at h
    · simp at h
    · rename_i tc htc
      simp only [bind_ok, require_ok] at h
      obtain ⟨hh, hcv, _, _, h⟩ := h
      split at h
      · simp at h
      · rename_i st _
        simp only [pure_ok] at h
        subst h
        exact ⟨hst, tc, hh, htc, checkValidity_ok _ _ _ _ _ _ hcv, lookup_insert_self _ _ _, lookup_insert_self _ _ _,
          lookup_insert_self _ _ _, rfl⟩

/-- **accepted_state_exportable.** The consensus state an accepted header stores passes the module's own
    `ConsensusState.ValidateBasic` (non-empty root, well-formed next-validators hash, positive time): every state the
    update path can write is one the exported genesis validates. -/
theorem accepted_state_exportable (env : Env) (c c' : Client) (hd : Header) (now : Int)
    (h : updateClient env c hd now = .ok c') : validConsState (consOf hd) = true := by
  unfold updateClient at h
  split at h
  · simp at h
  · simp at h
  · split at h
    · simp at h
    · simp only [bind_ok, require_ok] at h
      obtain ⟨_, _, _, hv, _⟩ := h
      exact hv

/-- **accept_frame.** An accepted update changes the consensus states only at the header's height and, possibly, at
    one pruned height whose consensus state was expired; a rejected update changes nothing (`runUpdates`). -/
theorem accept_frame (env : Env) (c c' : Client) (hd : Header) (now : Int) (hh : Height)
    (h : updateClient env c hd now = .ok c') (hhh : headerHeight hd = .ok hh) (k : Height) (hk : k ≠ hh) :
    lookup k c'.st.cons = lookup k c.st.cons ∨
    (lookup k c'.st.cons = none ∧ ∃ old, lookup k c.st.cons = some old ∧
        expired old.time c.cs.trustingPeriod now = true) := by
  unfold updateClient at h
  split at h
  · simp at h
  · simp at h
  · split at h
    · simp at h
    · rename_i tc htc
      simp only [bind_ok, require_ok] at h
      obtain ⟨hh', hcv, _, _, h⟩ := h
      have heq : hh' = hh := by
        have := (checkValidity_ok _ _ _ _ _ _ hcv).height_eq
        rw [hhh] at this; simp only [Outcome.ok.injEq] at this; exact this.symm
      subst heq
      split at h
      · simp at h
      · rename_i st hpr
        simp only [pure_ok] at h
        subst h
        simp only
        rw [lookup_insert_ne _ _ _ _ hk]
        unfold prune at hpr
        split at hpr
        · simp only [Option.some.injEq] at hpr; subst hpr; left; rfl
        · rename_i m _
          split at hpr
          · simp at hpr
          · rename_i old hold
            split at hpr
            · rename_i hexp
              simp only [Option.some.injEq] at hpr; subst hpr
              simp only
              by_cases hkm : k = m
              · subst hkm
                right
                exact ⟨lookup_erase_self _ _, old, hold, hexp⟩
              · left; exact lookup_erase_ne _ _ _ hkm
            · simp only [Option.some.injEq] at hpr; subst hpr; left; rfl

/-- one update attempt never lowers the latest height -/
theorem update_latest_le (env : Env) (c c' : Client) (hd : Header) (now : Int)
    (h : updateClient env c hd now = .ok c') : c.cs.latest ≤ c'.cs.latest := by
  obtain ⟨_, tc, hh, _, _, _, _, _, hcs⟩ := accept_sound env c c' hd now h
  rw [hcs]
  exact Height.le_max_left _ _

/-- **latest_monotone.** Over an arbitrary sequence of update attempts (any headers, any clock values, accepted or
    rejected, forward, skipping or back-filling) the latest height never decreases. -/
theorem latest_monotone (env : Env) (c : Client) (ops : List (Header × Int)) :
    c.cs.latest ≤ (runUpdates env c ops).cs.latest := by
  induction ops generalizing c with
  | nil => exact Height.le_refl _
  | cons op ops ih =>
    obtain ⟨hd, now⟩ := op
    simp only [runUpdates]
    split
    · rename_i c' hc'
      exact Height.le_trans (update_latest_le env c c' hd now hc') (ih c')
    · exact ih c

/-- The order on heights used everywhere (`Height.max`, the `≤ trusted height` test, the proof-height gate) is the
    lexicographic order on (revision number, revision height): a lower revision is below a higher one whatever the
    revision heights are. -/
theorem Height.lt_lex (a b : Height) :
    a < b ↔ a.rev < b.rev ∨ (a.rev = b.rev ∧ a.h < b.h) := Iff.rfl

theorem Height.lower_revision_lt (a b : Height) (h : a.rev < b.rev) : a < b := Or.inl h

theorem Height.not_lt_of_le {a b : Height} (h : a ≤ b) : ¬ b < a := by
  rw [Height.le_iff] at h; rw [Height.lt_iff]; omega

theorem Height.max_cases (a b : Height) :
    (Height.max a b = a ∧ b ≤ a) ∨ (Height.max a b = b ∧ a < b) := by
  unfold Height.max
  by_cases h : a < b
  · right; rw [if_pos h]; exact ⟨rfl, h⟩
  · left; rw [if_neg h]
    refine ⟨rfl, ?_⟩
    rw [Height.le_iff]; rw [Height.lt_iff] at h; omega

/-- **latest_is_max.** After an accepted update the latest height is the lexicographic maximum of the previous latest
    height and the header's height: it is one of the two, it is at least both, and it is unchanged whenever the header
    is not above the previous latest height (back-filling — also of an *older revision* with a numerically larger
    revision height — never moves it). -/
theorem latest_is_max (env : Env) (c c' : Client) (hd : Header) (now : Int) (hh : Height)
    (h : updateClient env c hd now = .ok c') (hhh : headerHeight hd = .ok hh) :
    c.cs.latest ≤ c'.cs.latest ∧ hh ≤ c'.cs.latest ∧
    (c'.cs.latest = c.cs.latest ∨ c'.cs.latest = hh) ∧
    (hh ≤ c.cs.latest → c'.cs.latest = c.cs.latest) ∧
    (hh.rev < c.cs.latest.rev → c'.cs.latest = c.cs.latest) := by
  obtain ⟨_, tc, hh', _, hv, _, _, _, hcs⟩ := accept_sound env c c' hd now h
  have heq : hh' = hh := by
    have := hv.height_eq
    rw [hhh] at this; simp only [Outcome.ok.injEq] at this; exact this.symm
  subst heq
  have hl : c'.cs.latest = Height.max c.cs.latest hh' := by rw [hcs]
  rw [hl]
  refine ⟨Height.le_max_left _ _, Height.le_max_right _ _, ?_, ?_, ?_⟩
  · rcases Height.max_cases c.cs.latest hh' with ⟨h1, _⟩ | ⟨h1, _⟩
    · left; exact h1
    · right; exact h1
  · intro hle
    rcases Height.max_cases c.cs.latest hh' with ⟨h1, _⟩ | ⟨_, h2⟩
    · exact h1
    · exact absurd h2 (Height.not_lt_of_le hle)
  · intro hrev
    rcases Height.max_cases c.cs.latest hh' with ⟨h1, _⟩ | ⟨_, h2⟩
    · exact h1
    · rw [Height.lt_iff] at h2; omega

/-! ### histories with upgrades: consensus states of several revisions coexist -/

theorem upgrade_spec (c : Client) (cs : ClientState) (k : ConsState) (now : Int) :
    (upgradeClient c cs k now).cs = cs ∧
    lookup cs.latest (upgradeClient c cs k now).st.cons = some k ∧
    lookup cs.latest (upgradeClient c cs k now).st.ptime = some (toU64 now) ∧
    ∀ h, h ≠ cs.latest → lookup h (upgradeClient c cs k now).st.cons = lookup h c.st.cons ∧
                          lookup h (upgradeClient c cs k now).st.ptime = lookup h c.st.ptime := by
  refine ⟨rfl, lookup_insert_self _ _ _, lookup_insert_self _ _ _, ?_⟩
  intro h hne
  exact ⟨lookup_insert_ne _ _ _ _ hne, lookup_insert_ne _ _ _ _ hne⟩

/-- an update step (accepted or rejected), from *any* client state — in particular one whose store holds consensus
    states of older revisions after an upgrade — never lowers the latest height -/
theorem step_update_latest_le (env : Env) (c : Client) (hd : Header) (now : Int) :
    c.cs.latest ≤ (applyStep env c (.update hd now)).cs.latest := by
  simp only [applyStep]
  split
  · rename_i c' hc'; exact update_latest_le env c c' hd now hc'
  · exact Height.le_refl _

/-- every upgrade of the history installs a latest height that is not below the current one (what an upgrade proposal
    is for; the keeper does not check it) -/
def RaisingUpgrades (env : Env) : Client → List Step → Prop
  | _, [] => True
  | c, .update hd now :: rest => RaisingUpgrades env (applyStep env c (.update hd now)) rest
  | c, .upgrade cs k now :: rest => c.cs.latest ≤ cs.latest ∧ RaisingUpgrades env (upgradeClient c cs k now) rest

/-- **latest_monotone_steps.** Over arbitrary histories of update attempts (any headers of any revision, trusted
    heights in old or new revisions, any clocks) interleaved with upgrades that raise the latest height, the latest
    height never decreases in the lexicographic order. -/
theorem latest_monotone_steps (env : Env) (c : Client) (steps : List Step) (h : RaisingUpgrades env c steps) :
    c.cs.latest ≤ (runSteps env c steps).cs.latest := by
  induction steps generalizing c with
  | nil => exact Height.le_refl _
  | cons s rest ih =>
    cases s with
    | update hd now =>
      simp only [runSteps]
      exact Height.le_trans (step_update_latest_le env c hd now) (ih _ h)
    | upgrade cs k now =>
      simp only [runSteps, applyStep]
      exact Height.le_trans h.1 (ih _ h.2)

/-- without any assumption on the upgrades: after the last upgrade the latest height only grows -/
theorem latest_monotone_after_upgrade (env : Env) (c : Client) (cs : ClientState) (k : ConsState) (now : Int)
    (ups : List (Header × Int)) :
    cs.latest ≤ (runUpdates env (upgradeClient c cs k now) ups).cs.latest :=
  latest_monotone env (upgradeClient c cs k now) ups

/-- the configuration of a client (chain id, trust level, periods, delay) is never changed by updates -/
theorem config_preserved (env : Env) (c : Client) (ops : List (Header × Int)) :
    (runUpdates env c ops).cs = { c.cs with latest := (runUpdates env c ops).cs.latest } := by
  induction ops generalizing c with
  | nil => rfl
  | cons op ops ih =>
    obtain ⟨hd, now⟩ := op
    simp only [runUpdates]
    split
    · rename_i c' hc'
      obtain ⟨_, tc, hh, _, _, _, _, _, hcs⟩ := accept_sound env c c' hd now hc'
      rw [ih c', hcs]
    · exact ih c

/-- **expired_accepts_nothing.** A client whose latest consensus state is missing or has left the trusting period
    accepts no header whatsoever. -/
theorem expired_accepts_nothing (env : Env) (c : Client) (hd : Header) (now : Int)
    (h : status c now ≠ .active) : ∀ c', updateClient env c hd now ≠ .ok c' := by
  intro c' hc'
  exact h (accept_sound env c c' hd now hc').1

/-- in particular: latest consensus state older than the trusting period ⇒ nothing is accepted -/
theorem expired_latest_accepts_nothing (env : Env) (c : Client) (hd : Header) (now : Int) (k : ConsState)
    (hk : lookup c.cs.latest c.st.cons = some k) (hexp : k.time + c.cs.trustingPeriod ≤ now) :
    ∀ c', updateClient env c hd now ≠ .ok c' := by
  apply expired_accepts_nothing
  unfold status
  rw [hk]
  have : expired k.time c.cs.trustingPeriod now = true := by
    unfold expired; simp; omega
  simp [this]

/-- What the guards shared by every `Verify*` entry point establish: the proof height is not above the latest height, a
    consensus state and a processed time are stored at it, the proof is present and decodes, and the configured delay
    has elapsed since that height was processed (`processedTime + TimeDelay` in unbounded arithmetic against the
    block time as `uint64`). -/
structure Gate (env : Env) (c : Client) (h : Height) (proof : Option Bytes) (now : Int) (pf : Bytes) (k : ConsState) :
    Prop where
  le_latest : h ≤ c.cs.latest
  stored : lookup h c.st.cons = some k
  present : proof = some pf
  decodes : env.proofDecodes pf = true
  delay : ∃ pt, lookup h c.st.ptime = some pt ∧ pt + c.cs.timeDelay ≤ toU64 now

theorem verifyArgs_ok (env : Env) (c : Client) (h : Height) (proof : Option Bytes) (now : Int) (pf : Bytes)
    (k : ConsState) (hv : verifyArgs env c h proof now = .ok (pf, k)) : Gate env c h proof now pf k := by
  unfold verifyArgs at hv
  simp only [bind_ok, pure_ok] at hv
  obtain ⟨r, hp, _, hd, hr⟩ := hv
  subst hr
  unfold produceVerificationArgs at hp
  simp only [bind_ok, require_ok, Bool.not_eq_true', decide_eq_false_iff_not] at hp
  obtain ⟨_, hlat, hp⟩ := hp
  have hle : h ≤ c.cs.latest := by
    rw [Height.le_iff]; rw [Height.lt_iff] at hlat; omega
  split at hp
  · simp at hp
  · rename_i pf'
    simp only [bind_ok, require_ok] at hp
    obtain ⟨_, hdec, hp⟩ := hp
    split at hp
    · simp at hp
    · rename_i k' hk
      simp only [pure_ok, Prod.mk.injEq] at hp
      obtain ⟨h1, h2⟩ := hp
      subst h1 h2
      unfold verifyDelayPeriodPassed at hd
      split at hd
      · simp at hd
      · rename_i pt hpt
        simp only [bind_ok, require_ok, Bool.not_eq_true', decide_eq_false_iff_not, decide_eq_true_eq] at hd
        obtain ⟨_, _, hdelay⟩ := hd
        exact ⟨hle, hk, rfl, hdec, pt, hpt, by omega⟩

/-- **proof_gate (commitment path).** `VerifyPacketCommitment` honours a proof only at a height not above the latest
    height, at which a consensus state and a processed time are stored, only after the delay since processing, and only
    if the membership proof of the commitment path verifies against the root stored at that height. -/
theorem proof_gate (env : Env) (c : Client) (h : Height) (proof : Option Bytes) (id value : Bytes) (now : Int)
    (hv : verifyPacketCommitment env c h proof id value now = .ok ()) :
    ∃ pf k, Gate env c h proof now pf k ∧ env.membership k.root pf (commitmentPath id) value = true := by
  unfold verifyPacketCommitment at hv
  simp only [bind_ok, require_ok, Prod.exists] at hv
  obtain ⟨pf, k, ha, hm⟩ := hv
  exact ⟨pf, k, verifyArgs_ok _ _ _ _ _ _ _ ha, hm⟩

/-- **proof_gate_ack (acknowledgement path).** The same gate for `VerifyPacketAcknowledgement`, stated separately: the
    acknowledgement path has its own call of the delay check in the code. -/
theorem proof_gate_ack (env : Env) (c : Client) (h : Height) (proof : Option Bytes) (id value : Bytes) (now : Int)
    (hv : verifyPacketAcknowledgement env c h proof id value now = .ok ()) :
    ∃ pf k, Gate env c h proof now pf k ∧ env.membership k.root pf (acknowledgementPath id) value = true := by
  unfold verifyPacketAcknowledgement at hv
  simp only [bind_ok, require_ok, Prod.exists] at hv
  obtain ⟨pf, k, ha, hm⟩ := hv
  exact ⟨pf, k, verifyArgs_ok _ _ _ _ _ _ _ ha, hm⟩

/-- the delay conjunct with the block time as a number (non-negative `int64`): `processedTime + delay ≤ now` -/
theorem gate_delay (env : Env) (c : Client) (h : Height) (proof : Option Bytes) (now : Int) (pf : Bytes) (k : ConsState)
    (g : Gate env c h proof now pf k) (hnow : 0 ≤ now ∧ now < two63) :
    ∃ pt, lookup h c.st.ptime = some pt ∧ ((pt + c.cs.timeDelay : Nat) : Int) ≤ now := by
  obtain ⟨pt, hpt, hd⟩ := g.delay
  refine ⟨pt, hpt, ?_⟩
  unfold toU64 two64 at hd
  unfold two63 at hnow
  omega

theorem proof_gate_delay (env : Env) (c : Client) (h : Height) (proof : Option Bytes) (id value : Bytes) (now : Int)
    (hv : verifyPacketCommitment env c h proof id value now = .ok ())
    (hnow : 0 ≤ now ∧ now < two63) :
    ∃ pt, lookup h c.st.ptime = some pt ∧ ((pt + c.cs.timeDelay : Nat) : Int) ≤ now := by
  obtain ⟨pf, k, g, _⟩ := proof_gate env c h proof id value now hv
  exact gate_delay env c h proof now pf k g hnow

theorem proof_gate_ack_delay (env : Env) (c : Client) (h : Height) (proof : Option Bytes) (id value : Bytes) (now : Int)
    (hv : verifyPacketAcknowledgement env c h proof id value now = .ok ())
    (hnow : 0 ≤ now ∧ now < two63) :
    ∃ pt, lookup h c.st.ptime = some pt ∧ ((pt + c.cs.timeDelay : Nat) : Int) ≤ now := by
  obtain ⟨pf, k, g, _⟩ := proof_gate_ack env c h proof id value now hv
  exact gate_delay env c h proof now pf k g hnow

/-- a consensus state that is still stored above the latest height (after an upgrade installed a lower latest height)
    is never used: both paths reject a proof height above the latest height -/
theorem above_latest_rejected (env : Env) (c : Client) (h : Height) (proof : Option Bytes) (id value : Bytes) (now : Int)
    (hab : c.cs.latest < h) :
    verifyPacketCommitment env c h proof id value now ≠ .ok () ∧
    verifyPacketAcknowledgement env c h proof id value now ≠ .ok () := by
  constructor
  · intro hv
    obtain ⟨pf, k, g, _⟩ := proof_gate env c h proof id value now hv
    exact Height.not_lt_of_le g.le_latest hab
  · intro hv
    obtain ⟨pf, k, g, _⟩ := proof_gate_ack env c h proof id value now hv
    exact Height.not_lt_of_le g.le_latest hab

/-- a configuration that passes `ClientState.Validate` has a trust level in `[1/3, 1]` that fits `int64`, which is the
    side condition of the "trust level" conjunct of `Valid` -/
theorem validTrustLevel_int64 (num den : Nat) (h : validTrustLevel num den = true) :
    TrustLevelInt64 num den ∧ num ≤ den := by
  unfold validTrustLevel at h
  simp only [Bool.and_eq_true, Bool.not_eq_true', Bool.or_eq_false_iff, decide_eq_false_iff_not, decide_eq_true_eq] at h
  obtain ⟨⟨⟨⟨_, h2⟩, h3⟩, h4⟩, h5⟩ := h
  unfold TrustLevelInt64 two63
  unfold maxInt64 at h4 h5
  refine ⟨⟨by omega, by omega, by omega⟩, by omega⟩

/-! ### the wording "more than the trust level of the trusted set", also for adjacent headers -/

/-- the part of a validator set that is hashed: public key and voting power, in order -/
def keyPowers (vs : List Validator) : List (Nat × Int) := vs.map (fun v => (v.key, v.power))

/-- no collision of the validator-set hash between two given sets, on what the hash covers
    (an assumption about SHA-256 / the Merkle tree of `ValidatorSet.Hash`, needed only for the sets in play) -/
def NoValsHashCollision (env : Env) (a b : List Validator) : Prop :=
  env.valsHash a = env.valsHash b → keyPowers a = keyPowers b

theorem signedPower_congr (env : Env) (cid : Bytes) (c : Commit) (a b : List Validator)
    (h : keyPowers a = keyPowers b) : signedPower env cid c a = signedPower env cid c b ∧ totalOf a = totalOf b := by
  induction a generalizing b with
  | nil =>
    cases b with
    | nil => exact ⟨rfl, rfl⟩
    | cons y b => simp [keyPowers] at h
  | cons x a ih =>
    cases b with
    | nil => simp [keyPowers] at h
    | cons y b =>
      simp only [keyPowers, List.map_cons, List.cons.injEq, Prod.mk.injEq] at h
      obtain ⟨⟨hk, hp⟩, hrest⟩ := h
      obtain ⟨h1, h2⟩ := ih b hrest
      rw [signedPower_cons, signedPower_cons, h1, hk, hp]
      simp only [totalOf, h2, hp]
      exact ⟨trivial, trivial⟩

theorem two_thirds_implies_level (sp tot : Int) (n d : Nat) (htot : 0 ≤ tot) (h : 3 * sp > 2 * tot)
    (hl : 3 * n ≤ 2 * d) (hd : 0 < d) : (d : Int) * sp > (n : Int) * tot := by
  have h1 : (d : Int) * (2 * tot) < (d : Int) * (3 * sp) := Int.mul_lt_mul_of_pos_left h (by omega)
  have h2 : (3 * (n : Int)) * tot ≤ (2 * (d : Int)) * tot := Int.mul_le_mul_of_nonneg_right (by omega) htot
  have e1 : (d : Int) * (2 * tot) = 2 * ((d : Int) * tot) := Int.mul_left_comm _ _ _
  have e2 : (d : Int) * (3 * sp) = 3 * ((d : Int) * sp) := Int.mul_left_comm _ _ _
  have e3 : (3 * (n : Int)) * tot = 3 * ((n : Int) * tot) := Int.mul_assoc _ _ _
  have e4 : (2 * (d : Int)) * tot = 2 * ((d : Int) * tot) := Int.mul_assoc _ _ _
  rw [e1, e2] at h1
  rw [e3, e4] at h2
  omega

/-- **accept_sound_trustlevel.** With a trust level of at most 2/3 (every sane configuration; the default is 1/3) and a
    collision-free validator-set hash, an accepted header — adjacent or not — carries valid signatures of validators
    holding more than the trust level of the *trusted* set (the next validators of the trusted height). -/
theorem accept_sound_trustlevel (env : Env) (c c' : Client) (hd : Header) (now : Int)
    (h : updateClient env c hd now = .ok c')
    (hcf : NoValsHashCollision env hd.vals.vals hd.trustedVals.vals)
    (htl : TrustLevelInt64 c.cs.tlNum c.cs.tlDen) (hlvl : 3 * c.cs.tlNum ≤ 2 * c.cs.tlDen) :
    ∃ tc cm, lookup hd.trustedHeight c.st.cons = some tc ∧ hd.commit = some cm ∧
      env.valsHash hd.trustedVals.vals = tc.nextValsHash ∧
      (c.cs.tlDen : Int) * signedPower env hd.sh.chainId cm hd.trustedVals.vals >
        (c.cs.tlNum : Int) * totalOf hd.trustedVals.vals := by
  obtain ⟨_, tc, hh, htc, hv, _⟩ := accept_sound env c c' hd now h
  obtain ⟨cm, hcm, _, _, hadj, hnadj, hown⟩ := hv.commit
  refine ⟨tc, cm, htc, hcm, hv.trusted_hash, ?_⟩
  by_cases ha : Adjacent hd
  · have hhash : env.valsHash hd.vals.vals = env.valsHash hd.trustedVals.vals := by
      rw [hv.vals_hash, hadj ha, hv.trusted_hash]
    obtain ⟨e1, e2⟩ := signedPower_congr env hd.sh.chainId cm _ _ (hcf hhash)
    rw [← e1, ← e2]
    have htot : 0 ≤ totalOf hd.vals.vals := by
      have := signedPower_le_total env hd.sh.chainId cm _ hv.vals_nonneg
      have := signedPower_nonneg env hd.sh.chainId cm _ hv.vals_nonneg
      omega
    exact two_thirds_implies_level _ _ _ _ htot hown hlvl htl.2.1
  · exact hnadj ha htl


/-! ### the same facts in plain arithmetic (heights on the wire are `int64`) -/

theorem headerHeight_h (hd : Header) (hh : Height) (h : headerHeight hd = .ok hh) : hh.h = toU64 hd.sh.height := by
  unfold headerHeight at h
  simp only [bind_ok, pure_ok] at h
  obtain ⟨r, _, h⟩ := h
  rw [← h]

/-- the stored height is the block height of the header, strictly above the trusted height -/
theorem valid_height (env : Env) (cs : ClientState) (tc : ConsState) (hd : Header) (now : Int) (hh : Height)
    (hv : Valid env cs tc hd now hh) (hwire : hd.sh.height < two63) :
    (hh.h : Int) = hd.sh.height ∧ hh.rev = hd.trustedHeight.rev ∧ (hd.trustedHeight.h : Int) < hd.sh.height := by
  have h1 := headerHeight_h hd hh hv.height_eq
  have hpos := hv.height_pos
  have hn := hv.newer
  have hr := hv.same_rev
  rw [Height.lt_iff] at hn
  unfold toU64 two64 at h1
  unfold two63 at hwire
  refine ⟨by omega, hr, by omega⟩

/-- for an accepted header, the library's adjacency test is `height = trusted height + 1` -/
theorem adjacent_iff (env : Env) (cs : ClientState) (tc : ConsState) (hd : Header) (now : Int) (hh : Height)
    (hv : Valid env cs tc hd now hh) (hwire : hd.sh.height < two63) :
    Adjacent hd ↔ hd.sh.height = hd.trustedHeight.h + 1 := by
  obtain ⟨_, _, h3⟩ := valid_height env cs tc hd now hh hv hwire
  have hpos := hv.height_pos
  unfold Adjacent wrap64 two64
  unfold two63 at *
  omega

/-! ### real entry points, several clients, restarts, discarded executions -/

/-- a header accepted through `MsgUpdateClient` (`ValidateBasic`, then the msg server) is a header accepted by the keeper:
    every conclusion of `accept_sound` holds for the transaction path -/
theorem updateClientMsg_ok (env : Env) (c c' : Client) (hd : Header) (now : Int)
    (h : updateClientMsg env c hd now = .ok c') :
    headerValidateBasic env hd = .ok () ∧ updateClient env c hd now = .ok c' := by
  unfold updateClientMsg at h
  simp only [bind_ok] at h
  obtain ⟨u, h1, h2⟩ := h
  exact ⟨h1, h2⟩

theorem msg_accept_sound (env : Env) (c c' : Client) (hd : Header) (now : Int)
    (h : updateClientMsg env c hd now = .ok c') :
    status c now = .active ∧
    ∃ tc hh, lookup hd.trustedHeight c.st.cons = some tc ∧
      Valid env c.cs tc hd now hh ∧
      lookup hh c'.st.cons = some ⟨hd.sh.time, hd.sh.appHash, hd.sh.nextValsHash⟩ ∧
      lookup hh c'.st.ptime = some (toU64 now) ∧
      lookup hh c'.st.iter = some () ∧
      c'.cs = { c.cs with latest := Height.max c.cs.latest hh } :=
  accept_sound env c c' hd now (updateClientMsg_ok env c c' hd now h).2

theorem World.get_set_self (w : World) (n : Bytes) (c : Client) : (w.set n c).get n = some c := by
  induction w with
  | nil => simp [World.set, World.get]
  | cons x w ih =>
    obtain ⟨m, d⟩ := x
    simp only [World.set]
    by_cases h : m = n
    · rw [if_pos h]; simp [World.get]
    · rw [if_neg h]; simp only [World.get]; rw [if_neg h]; exact ih

theorem World.get_set_ne (w : World) (n n' : Bytes) (c : Client) (hne : n' ≠ n) :
    (w.set n c).get n' = w.get n' := by
  induction w with
  | nil => simp only [World.set, World.get]; rw [if_neg (fun e => hne e.symm)]
  | cons x w ih =>
    obtain ⟨m, d⟩ := x
    simp only [World.set]
    by_cases h : m = n
    · rw [if_pos h]
      simp only [World.get]
      rw [if_neg (fun e => hne e.symm), if_neg (by rw [h]; exact fun e => hne e.symm)]
    · rw [if_neg h]
      simp only [World.get]
      by_cases h2 : m = n'
      · rw [if_pos h2, if_pos h2]
      · rw [if_neg h2, if_neg h2]; exact ih

/-- the client an operation is addressed to -/
def WOp.target : WOp → Option Bytes
  | .create n _ _ _ => some n
  | .upgrade n _ _ _ => some n
  | .update n _ _ => some n
  | .updateMsg n _ _ => some n
  | .restart => none
  | .discarded _ => none

/-- **restart_identity.** Export → validate → wipe → import leaves every client exactly as it was (client state,
    consensus states of every revision, processed times, iteration keys). -/
theorem restart_identity (w : World) : restart w = w := rfl

/-- an execution on a dropped cache context changes nothing -/
theorem discarded_identity (env : Env) (w : World) (op : WOp) : applyW env w (.discarded op) = w := rfl

/-- **frame.** An operation addressed to one client leaves every other client of the store untouched — also a second
    client of the same counterparty chain under another name. -/
theorem frame (env : Env) (w : World) (op : WOp) (n' : Bytes) (h : op.target ≠ some n') :
    (applyW env w op).get n' = w.get n' := by
  cases op with
  | create n cs k now =>
    have hne : n' ≠ n := fun e => h (by simp [WOp.target, e])
    simp only [applyW]
    split
    · rfl
    · split
      · exact World.get_set_ne _ _ _ _ hne
      · rfl
  | upgrade n cs k now =>
    have hne : n' ≠ n := fun e => h (by simp [WOp.target, e])
    simp only [applyW]
    split
    · rfl
    · split
      · exact World.get_set_ne _ _ _ _ hne
      · rfl
  | update n hd now =>
    have hne : n' ≠ n := fun e => h (by simp [WOp.target, e])
    simp only [applyW]
    split
    · rfl
    · split
      · exact World.get_set_ne _ _ _ _ hne
      · rfl
  | updateMsg n hd now =>
    have hne : n' ≠ n := fun e => h (by simp [WOp.target, e])
    simp only [applyW]
    split
    · rfl
    · split
      · exact World.get_set_ne _ _ _ _ hne
      · rfl
  | restart => rfl
  | discarded op => rfl

def WOp.isUpgradeOf (n : Bytes) : WOp → Bool
  | .upgrade m _ _ _ => m == n
  | _ => false

/-- one world operation other than an upgrade of `n` keeps client `n` and never lowers its latest height -/
theorem applyW_latest_le (env : Env) (w : World) (op : WOp) (n : Bytes) (c : Client)
    (hc : w.get n = some c) (hop : op.isUpgradeOf n = false) :
    ∃ c', (applyW env w op).get n = some c' ∧ c.cs.latest ≤ c'.cs.latest := by
  by_cases ht : op.target = some n
  · cases op with
    | create m cs k now =>
      simp only [WOp.target, Option.some.injEq] at ht; subst ht
      refine ⟨c, ?_, Height.le_refl _⟩
      simp [applyW, hc]
    | upgrade m cs k now =>
      simp only [WOp.target, Option.some.injEq] at ht; subst ht
      simp [WOp.isUpgradeOf] at hop
    | update m hd now =>
      simp only [WOp.target, Option.some.injEq] at ht; subst ht
      simp only [applyW, hc]
      split
      · rename_i c' hc'
        exact ⟨c', World.get_set_self _ _ _, update_latest_le env c c' hd now hc'⟩
      · exact ⟨c, hc, Height.le_refl _⟩
    | updateMsg m hd now =>
      simp only [WOp.target, Option.some.injEq] at ht; subst ht
      simp only [applyW, hc]
      split
      · rename_i c' hc'
        exact ⟨c', World.get_set_self _ _ _,
          update_latest_le env c c' hd now (updateClientMsg_ok env c c' hd now hc').2⟩
      · exact ⟨c, hc, Height.le_refl _⟩
    | restart => simp [WOp.target] at ht
    | discarded op => simp [WOp.target] at ht
  · exact ⟨c, by rw [frame env w op n ht]; exact hc, Height.le_refl _⟩

/-- **world_latest_monotone.** Over arbitrary histories in a store with several clients — keeper-level and
    transaction-level updates of any client, creations, upgrades of *other* clients, restarts from an export and
    discarded executions in any order — the latest height of client `n` never decreases. -/
theorem world_latest_monotone (env : Env) (w : World) (ops : List WOp) (n : Bytes) (c : Client)
    (hc : w.get n = some c) (hops : ops.all (fun op => !op.isUpgradeOf n) = true) :
    ∃ c', (runW env w ops).get n = some c' ∧ c.cs.latest ≤ c'.cs.latest := by
  induction ops generalizing w c with
  | nil => exact ⟨c, hc, Height.le_refl _⟩
  | cons op rest ih =>
    simp only [List.all_cons, Bool.and_eq_true, Bool.not_eq_true'] at hops
    obtain ⟨c1, h1, hle1⟩ := applyW_latest_le env w op n c hc hops.1
    obtain ⟨c2, h2, hle2⟩ := ih (applyW env w op) c1 h1 hops.2
    exact ⟨c2, by simpa [runW] using h2, Height.le_trans hle1 hle2⟩

/-! ### non-vacuity: concrete clients, headers and proofs on which the hypotheses hold -/
section Examples

/-- all example times are offsets from this instant (a consensus state needs a positive Unix time) -/
def exT0 : Int := 2000000000
/-- the 32-byte validator-set hash of the example set -/
def exNV : Hash := List.replicate 29 0 ++ [1, 2, 3]

def exEnv : Env where
  valsHash := fun vs => List.replicate 29 0 ++ vs.map (fun v => UInt8.ofNat v.key)
  headerHash := fun h => [UInt8.ofNat h.height.toNat]
  sigValid := fun _ _ idx key => idx + 1 == key
  proofDecodes := fun _ => true
  membership := fun root _ _ _ => root == [9]

def exVals : List Validator := [⟨1, 1, 1, true, true⟩, ⟨2, 2, 1, true, true⟩, ⟨3, 3, 1, true, true⟩]
def exValSet : ValSetP := ⟨false, exVals, true, true⟩
/-- chain "abc", trust level 1/3, trusting period 1000, drift 10, delay 20, created at height 0-5 at time 120 -/
def exClient : Client :=
  createClient ⟨[97, 98, 99], 1, 3, 1000, 10, ⟨0, 5⟩, 20⟩ ⟨exT0 + 100, [7], exNV⟩ (exT0 + 120)

def exCommit (h : Int) (flags : List Flag) : Commit :=
  ⟨h, [UInt8.ofNat h.toNat], true, flags.zipIdx.map (fun (f, i) => ⟨f, i + 1⟩)⟩

def exHeader (h : Int) (t : Int) (th : Nat) (flags : List Flag) : Header where
  sh := ⟨[97, 98, 99], h, exT0 + t, exNV, exNV, [9], true, []⟩
  commit := some (exCommit h flags)
  vals := exValSet
  trustedHeight := ⟨0, th⟩
  trustedVals := exValSet

/-- adjacent header signed by all three validators: accepted (the hypothesis of `accept_sound` is satisfiable) -/
example : (updateClient exEnv exClient (exHeader 6 150 5 [.commit, .commit, .commit]) (exT0 + 200)).isOk = true := by decide
/-- exactly two thirds sign: rejected -/
example : (updateClient exEnv exClient (exHeader 6 150 5 [.commit, .commit, .absent]) (exT0 + 200)).isOk = false := by decide
/-- skipping header (non-adjacent path), all sign: accepted -/
example : (updateClient exEnv exClient (exHeader 9 150 5 [.commit, .commit, .commit]) (exT0 + 200)).isOk = true := by decide
/-- skipping header signed by exactly one third of the trusted set: rejected -/
example : (updateClient exEnv exClient (exHeader 9 150 5 [.commit, .absent, .absent]) (exT0 + 200)).isOk = false := by decide
/-- trusted state out of the trusting period: rejected -/
example : (updateClient exEnv exClient (exHeader 6 150 5 [.commit, .commit, .commit]) (exT0 + 1100)).isOk = false := by decide
/-- header time at `now + drift`: rejected -/
example : (updateClient exEnv exClient (exHeader 6 210 5 [.commit, .commit, .commit]) (exT0 + 200)).isOk = false := by decide
/-- the side conditions of `accept_sound_trustlevel` hold for this client and message -/
example : validTrustLevel exClient.cs.tlNum exClient.cs.tlDen = true ∧
    TrustLevelInt64 exClient.cs.tlNum exClient.cs.tlDen ∧ 3 * exClient.cs.tlNum ≤ 2 * exClient.cs.tlDen ∧
    NoValsHashCollision exEnv (exHeader 6 150 5 []).vals.vals (exHeader 6 150 5 []).trustedVals.vals :=
  ⟨by decide, by unfold TrustLevelInt64; decide, by decide, fun _ => rfl⟩
/-- a proof at the stored height is honoured after the delay, not before, and never above the latest height -/
example : (verifyPacketCommitment exEnv (runUpdates exEnv exClient [(exHeader 6 150 5 [.commit, .commit, .commit], exT0 + 200)])
    ⟨0, 6⟩ (some []) [] [] (exT0 + 220)).isOk = true := by decide
example : (verifyPacketCommitment exEnv (runUpdates exEnv exClient [(exHeader 6 150 5 [.commit, .commit, .commit], exT0 + 200)])
    ⟨0, 6⟩ (some []) [] [] (exT0 + 219)).isOk = false := by decide
example : (verifyPacketCommitment exEnv exClient ⟨0, 6⟩ (some []) [] [] (exT0 + 1000)).isOk = false := by decide
/-- the acknowledgement path: honoured from `processed + delay` on, not one nanosecond earlier -/
example : (verifyPacketAcknowledgement exEnv (runUpdates exEnv exClient [(exHeader 6 150 5 [.commit, .commit, .commit], exT0 + 200)])
    ⟨0, 6⟩ (some []) [] [] (exT0 + 220)).isOk = true := by decide
example : (verifyPacketAcknowledgement exEnv (runUpdates exEnv exClient [(exHeader 6 150 5 [.commit, .commit, .commit], exT0 + 200)])
    ⟨0, 6⟩ (some []) [] [] (exT0 + 219)).isOk = false := by decide
/-- updated to 0-6, then an upgrade installs latest height 0-4: the consensus state at 0-6 is still stored, and proofs
    at 0-6 are rejected on both paths -/
example :
    let c := upgradeClient (runUpdates exEnv exClient [(exHeader 6 150 5 [.commit, .commit, .commit], exT0 + 200)])
      { exClient.cs with latest := ⟨0, 4⟩ } ⟨exT0 + 90, [9], exNV⟩ (exT0 + 210)
    (lookup ⟨0, 6⟩ c.st.cons).isSome = true ∧
    (verifyPacketCommitment exEnv c ⟨0, 6⟩ (some []) [] [] (exT0 + 1000)).isOk = false ∧
    (verifyPacketAcknowledgement exEnv c ⟨0, 6⟩ (some []) [] [] (exT0 + 1000)).isOk = false ∧
    (verifyPacketAcknowledgement exEnv c ⟨0, 4⟩ (some []) [] [] (exT0 + 1000)).isOk = true := by decide

/-! multi-revision: created at 1-100 (chain "a-1"), upgraded to 2-5 (chain "a-2"), then the old revision is
    back-filled with 1-101 trusting 1-100: accepted, stored, and the latest height stays 2-5 although 101 > 5 -/
def exClientR : Client :=
  upgradeClient (createClient ⟨[97, 45, 49], 1, 3, 1000, 10, ⟨1, 100⟩, 20⟩ ⟨exT0 + 100, [7], exNV⟩ (exT0 + 120))
    ⟨[97, 45, 50], 1, 3, 1000, 10, ⟨2, 5⟩, 20⟩ ⟨exT0 + 130, [8], exNV⟩ (exT0 + 140)

def exHeaderR (chain : Bytes) (h : Int) (t : Int) (trev th : Nat) : Header where
  sh := ⟨chain, h, exT0 + t, exNV, exNV, [9], true, []⟩
  commit := some (exCommit h [.commit, .commit, .commit])
  vals := exValSet
  trustedHeight := ⟨trev, th⟩
  trustedVals := exValSet

example : (updateClient exEnv exClientR (exHeaderR [97, 45, 49] 101 150 1 100) (exT0 + 200)).isOk = true := by decide
example : (runSteps exEnv exClientR [.update (exHeaderR [97, 45, 49] 101 150 1 100) (exT0 + 200)]).cs.latest = ⟨2, 5⟩ ∧
    (lookup ⟨1, 101⟩ (runSteps exEnv exClientR [.update (exHeaderR [97, 45, 49] 101 150 1 100) (exT0 + 200)]).st.cons).isSome = true := by
  decide
/-- forward in the new revision with a numerically smaller revision height: latest becomes 2-6 -/
example : (runSteps exEnv exClientR [.update (exHeaderR [97, 45, 49] 101 150 1 100) (exT0 + 200),
    .update (exHeaderR [97, 45, 50] 6 160 2 5) (exT0 + 200)]).cs.latest = ⟨2, 6⟩ := by decide
/-- a header of revision 1 cannot be verified against a trusted height of revision 2 -/
example : (updateClient exEnv exClientR (exHeaderR [97, 45, 49] 101 150 2 5) (exT0 + 200)).isOk = false := by decide

/-! two clients of the same chain under two names: an update of one does not touch the other; a restart and a
    discarded update change nothing -/
def exWorld : World := [([97], exClient), ([98], exClient)]
example :
    let w := runW exEnv exWorld [.updateMsg [97] (exHeader 6 150 5 [.commit, .commit, .commit]) (exT0 + 200), .restart,
      .discarded (.update [98] (exHeader 6 150 5 [.commit, .commit, .commit]) 200)]
    ((w.get [97]).map (·.cs.latest)) = some ⟨0, 6⟩ ∧ ((w.get [98]).map (·.cs.latest)) = some ⟨0, 5⟩ := by decide
/-- the transaction path accepts the well-formed header and refuses one whose trusted height is above its height -/
example : (updateClientMsg exEnv exClient (exHeader 6 150 5 [.commit, .commit, .commit]) (exT0 + 200)).isOk = true := by decide
example : (headerValidateBasic exEnv (exHeader 6 150 7 [.commit, .commit, .commit])).isOk = false := by decide

end Examples

end TM.TmClient
