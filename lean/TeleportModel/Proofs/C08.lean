import TeleportModel.Model.EvmProof
import TeleportModel.Model.EvmProofLife
/-
C08 — EVM storage proofs bind contract, slot, value, root and height.

Theorems about `TM.EvmProof.verify` (the transcription of VerifyPacketCommitment / VerifyPacketAcknowledgement of the
ETH and BSC clients). `Env.keccak` and `Env.mpt` (go-ethereum `trie.VerifyProof`) are arbitrary; the only assumption
used anywhere is `MptSound` (a hypothesis, see `binds`).
-/
namespace TM.EvmProof
open TM

/-! ## height rule -/

/-- The height rule in plain (unbounded) arithmetic: the proof height is not above the head in the `Height` order
    and the proof block number plus the confirmation delay does not exceed the head block number. -/
def HeightRule (cs : ClientState) (h : Height) : Prop :=
  (cs.head.rn = h.rn ∨ h.rn < cs.head.rn) ∧ h.rh.toNat + cs.delayBlock.toNat ≤ cs.head.rh.toNat

/-- the three guards of the code, as executed on `uint64` -/
def heightGuards (cs : ClientState) (h : Height) : Bool :=
  !(cs.head.lt h) && !(decide (cs.head.rh < h.rh)) && !(decide (cs.head.rh - h.rh < cs.delayBlock))

theorem heightGuards_iff (cs : ClientState) (h : Height) : heightGuards cs h = true ↔ HeightRule cs h := by
  unfold heightGuards HeightRule Height.lt
  simp only [Bool.and_eq_true, Bool.not_eq_true', decide_eq_false_iff_not, UInt64.not_lt, ne_eq, ite_not]
  constructor
  · rintro ⟨⟨h1, h2⟩, h3⟩
    have h2' : h.rh.toNat ≤ cs.head.rh.toNat := UInt64.le_iff_toNat_le.mp h2
    have h3' : cs.delayBlock.toNat ≤ (cs.head.rh - h.rh).toNat := UInt64.le_iff_toNat_le.mp h3
    rw [UInt64.toNat_sub_of_le _ _ h2] at h3'
    refine ⟨?_, by omega⟩
    by_cases e : cs.head.rn = h.rn
    · exact Or.inl e
    · right
      simp only [e, ↓reduceIte, decide_eq_false_iff_not, UInt64.not_lt] at h1
      rcases UInt64.lt_or_eq_of_le h1 with h4 | h4
      · exact h4
      · exact absurd h4.symm e
  · rintro ⟨h1, h2⟩
    have hle : h.rh ≤ cs.head.rh := UInt64.le_iff_toNat_le.mpr (by omega)
    refine ⟨⟨?_, hle⟩, ?_⟩
    · rcases h1 with e | l
      · simp only [e, ↓reduceIte, decide_eq_false_iff_not, UInt64.not_lt]
        exact hle
      · have ne : ¬ cs.head.rn = h.rn := fun e => by rw [e] at l; exact absurd l (UInt64.lt_irrefl _)
        simp only [ne, ↓reduceIte, decide_eq_false_iff_not, UInt64.not_lt]
        exact UInt64.le_of_lt l
    · apply UInt64.le_iff_toNat_le.mpr
      rw [UInt64.toNat_sub_of_le _ _ hle]
      omega

/-! ## RLP facts -/

theorem rlpList_ne_nil (p : Bytes) : rlpList p ≠ [] := by
  unfold rlpList; split <;> simp

theorem rlpAccount_ne_nil (a b c d : Bytes) : rlpAccount a b c d ≠ [] := rlpList_ne_nil _

theorem rlpDecodeBytes_nil : rlpDecodeBytes [] = none := rfl

theorem checkProofResult_iff (result value : Bytes) :
    checkProofResult result value = true ↔ ∃ t, rlpDecodeBytes result = some t ∧ leftPad32 t = value := by
  unfold checkProofResult
  cases h : rlpDecodeBytes result with
  | none => simp
  | some t => simp

/-! ## the Merkle glue -/

theorem mptBytes_some_ne_nil {r : MptRes} {v : Bytes} (h : r.bytes = some v) (hv : v ≠ []) : r = .value v := by
  cases r with
  | invalid => simp [MptRes.bytes] at h
  | absent => simp only [MptRes.bytes, Option.some.injEq] at h; exact absurd h.symm hv
  | value w => simp [MptRes.bytes] at h; rw [h]

/-- what `verifyMerkleProof` demands, spelled out -/
def MerkleOk (env : Env) (p : Proof) (consRoot contract commitment proofKey : Bytes) : Prop :=
  fromHex p.address = contract ∧
  env.mpt (bytesToHash consRoot) (env.keccak (fromHex p.address)) (p.accountProof.map fromHex)
    = .value (rlpAccount (hexToHash p.nonce) (hexToHash p.balance) (hexToHash p.storageHash) (hexToHash p.codeHash)) ∧
  ∃ sp raw t,
    p.storageProof = [some sp] ∧
    hexToHash sp.key = proofKey ∧
    env.mpt (hexToHash p.storageHash) (env.keccak (hexToHash sp.key)) (sp.proof.map fromHex) = .value raw ∧
    rlpDecodeBytes raw = some t ∧ leftPad32 t = commitment

theorem verifyMerkleProof_ok_iff (env : Env) (p : Proof) (consRoot contract commitment proofKey : Bytes) :
    verifyMerkleProof env p consRoot contract commitment proofKey = .ok () ↔
      MerkleOk env p consRoot contract commitment proofKey := by
  unfold verifyMerkleProof MerkleOk
  by_cases ha : fromHex p.address = contract
  · simp only [ha, ne_eq, not_true_eq_false, ↓reduceIte, true_and]
    subst ha
    cases hm : (env.mpt (bytesToHash consRoot) (env.keccak (fromHex p.address)) (p.accountProof.map fromHex)).bytes with
    | none =>
      simp only [reduceCtorEq, false_iff, not_and]
      intro h; rw [h] at hm; simp [MptRes.bytes] at hm
    | some acctVal =>
      simp only
      by_cases hr : rlpAccount (hexToHash p.nonce) (hexToHash p.balance) (hexToHash p.storageHash) (hexToHash p.codeHash) = acctVal
      · subst hr
        have hv := mptBytes_some_ne_nil hm (rlpAccount_ne_nil _ _ _ _)
        simp only [not_true_eq_false, ↓reduceIte, hv, true_and]
        match hsp : p.storageProof with
        | [] => simp
        | [none] => simp
        | _ :: _ :: _ => simp
        | [some sp] =>
          simp only [List.cons.injEq, Option.some.injEq, and_true]
          by_cases hk : hexToHash sp.key = proofKey
          · simp only [hk, not_true_eq_false, ↓reduceIte]
            subst hk
            cases hm2 : (env.mpt (hexToHash p.storageHash) (env.keccak (hexToHash sp.key)) (sp.proof.map fromHex)).bytes with
            | none =>
              simp only [reduceCtorEq, false_iff]
              rintro ⟨sp', raw, t, rfl, _, h2, _⟩
              rw [h2] at hm2; simp [MptRes.bytes] at hm2
            | some val =>
              simp only
              by_cases hc : checkProofResult val commitment = true
              · simp only [hc, ↓reduceIte, true_iff]
                obtain ⟨t, ht, hp⟩ := (checkProofResult_iff _ _).mp hc
                have hne : val ≠ [] := by intro e; rw [e, rlpDecodeBytes_nil] at ht; simp at ht
                exact ⟨sp, val, t, rfl, rfl, mptBytes_some_ne_nil hm2 hne, ht, hp⟩
              · simp only [hc, Bool.false_eq_true, ↓reduceIte, reduceCtorEq, false_iff]
                rintro ⟨sp', raw, t, rfl, _, h2, ht, hp⟩
                rw [h2] at hm2; simp only [MptRes.bytes, Option.some.injEq] at hm2; subst hm2
                exact hc ((checkProofResult_iff _ _).mpr ⟨t, ht, hp⟩)
          · simp only [hk, not_false_eq_true, ↓reduceIte, reduceCtorEq, false_iff]
            rintro ⟨sp', raw, t, rfl, h1, _⟩
            exact hk h1
      · simp only [hr, not_false_eq_true, ↓reduceIte, reduceCtorEq, false_iff, not_and]
        intro h; rw [h] at hm; simp only [MptRes.bytes, Option.some.injEq] at hm
        exact absurd hm hr
  · simp [ha]

/-! ## accept_iff -/

/-- **accept_iff.** `VerifyPacketCommitment` / `VerifyPacketAcknowledgement` return nil exactly when:
    the proof bytes decode to a record, a consensus state is stored for the proof height, the height rule holds in
    plain arithmetic (no `uint64` wrap-around), the record's address is the configured contract, the account proof
    proves the record's account tuple for `keccak(address)` under the stored root, there is exactly one (non-null)
    storage proof, its key is the slot derived from the path, and the storage proof proves under the record's
    storage hash, for `keccak(slot)`, an RLP string whose left-padded-to-32 form is the commitment. -/
theorem accept_iff (env : Env) (cs : ClientState) (store : ConsStore) (h : Height) (proof : ProofArg)
    (k : PathKind) (src dst : Bytes) (seq : UInt64) (value : Bytes) :
    verify env cs store h proof k src dst seq value = .ok () ↔
      ∃ p cons, proof = .parsed p ∧ store.get h = some (.state cons) ∧ HeightRule cs h ∧
        MerkleOk env p cons.root cs.contract value (slotOf env k src dst seq) := by
  rw [← heightGuards_iff]
  unfold verify heightGuards
  by_cases h1 : cs.head.lt h = true
  · simp [h1]
  · by_cases h2 : cs.head.rh < h.rh
    · simp [h1, h2]
    · simp only [h1, h2, Bool.false_eq_true, ↓reduceIte, Bool.not_false, decide_false, Bool.true_and, Bool.not_eq_true',
        decide_eq_false_iff_not, Bool.and_true]
      cases proof with
      | nil => simp
      | badJson => simp
      | parsed p =>
        simp only [ProofArg.parsed.injEq, exists_and_left, exists_eq_left']
        cases hs : store.get h with
        | none => simp
        | some e =>
          cases e with
          | corrupt => simp
          | state cons =>
            simp only [Option.some.injEq, ConsEntry.state.injEq, exists_eq_left']
            by_cases h3 : cs.head.rh - h.rh < cs.delayBlock
            · simp [h3]
            · simp only [h3, ↓reduceIte, not_false_eq_true, true_and]
              exact verifyMerkleProof_ok_iff _ _ _ _ _ _

/-! ## binding (under soundness of `trie.VerifyProof`) -/

/-- Soundness of `trie.VerifyProof`, the one assumption about the external primitive: there is a function `sem`
    from (root, key) to the value stored under that key in *the* trie with that root, and whenever a proof is
    accepted with value `v`, `v` is that value. (For go-ethereum this follows from collision resistance of
    Keccak-256; it is a hypothesis here, never an axiom.) -/
def MptSound (env : Env) (sem : Bytes → Bytes → Option Bytes) : Prop :=
  ∀ root key nodes v, env.mpt root key nodes = .value v → sem root key = some v

/-- "In the state with root `root`, account `addr` exists and its storage maps `slot` to the word `value`":
    the account trie holds an account tuple for `keccak(addr)` whose storage root `storageH` is a trie that holds,
    for `keccak(slot)`, an RLP string equal to `value` after left-padding to 32 bytes. -/
def StateHolds (env : Env) (sem : Bytes → Bytes → Option Bytes) (root addr slot value : Bytes) : Prop :=
  ∃ nonceH balH storageH codeH, storageH.length = 32 ∧ codeH.length = 32 ∧
    sem root (env.keccak addr) = some (rlpAccount nonceH balH storageH codeH) ∧
    ∃ raw t, sem storageH (env.keccak slot) = some raw ∧ rlpDecodeBytes raw = some t ∧ leftPad32 t = value

theorem bytesToHash_length (b : Bytes) : (bytesToHash b).length = 32 := by
  unfold bytesToHash
  split
  · simp only [List.length_drop]; omega
  · simp only [List.length_append, List.length_replicate]; omega

theorem hexToHash_length (s : Bytes) : (hexToHash s).length = 32 := bytesToHash_length _

/-- **binds.** An accepted proof means: a consensus state is stored for exactly that height, the height rule holds,
    and in the state whose root is stored there the *configured* contract holds `value` at the slot derived from
    (kind, src, dst, seq). -/
theorem binds {env : Env} {sem : Bytes → Bytes → Option Bytes} (hs : MptSound env sem)
    {cs : ClientState} {store : ConsStore} {h : Height} {proof : ProofArg}
    {k : PathKind} {src dst : Bytes} {seq : UInt64} {value : Bytes}
    (hacc : verify env cs store h proof k src dst seq value = .ok ()) :
    ∃ cons, store.get h = some (.state cons) ∧ HeightRule cs h ∧
      StateHolds env sem (bytesToHash cons.root) cs.contract (slotOf env k src dst seq) value := by
  obtain ⟨p, consRoot, _, hst, hh, haddr, hacct, sp, raw, t, _, hkey, hstor, hdec, hpad⟩ := (accept_iff ..).mp hacc
  refine ⟨consRoot, hst, hh, hexToHash p.nonce, hexToHash p.balance, hexToHash p.storageHash, hexToHash p.codeHash,
    hexToHash_length _, hexToHash_length _, ?_, raw, t, ?_, hdec, hpad⟩
  · rw [← haddr]; exact hs _ _ _ _ hacct
  · rw [← hkey]; exact hs _ _ _ _ hstor

/-- contrapositive: whatever proof bytes are presented, if the state stored for the height does not hold the value at
    that slot of the configured contract (other contract, other slot, other value, other root, other height), the
    call is rejected. -/
theorem rejected_unless_state_holds {env : Env} {sem : Bytes → Bytes → Option Bytes} (hs : MptSound env sem)
    (cs : ClientState) (store : ConsStore) (h : Height) (proof : ProofArg)
    (k : PathKind) (src dst : Bytes) (seq : UInt64) (value : Bytes)
    (hno : ∀ cons, store.get h = some (.state cons) →
      ¬ StateHolds env sem (bytesToHash cons.root) cs.contract (slotOf env k src dst seq) value) :
    verify env cs store h proof k src dst seq value ≠ .ok () := by
  intro hacc
  obtain ⟨consRoot, hst, _, hh⟩ := binds hs hacc
  exact hno consRoot hst hh

/-! ### a state holds at most one value per (contract, slot) -/

theorem rlpString_len32 {s : Bytes} (h : s.length = 32) : rlpString s = 0xa0 :: s := by
  unfold rlpString
  split
  · simp at h
  · simp [h]

theorem rlpList_eq_append (p : Bytes) : ∃ hd, rlpList p = hd ++ p := by
  unfold rlpList
  split
  · exact ⟨[_], rfl⟩
  · exact ⟨UInt8.ofNat (0xf7 + (beBytes p.length).length) :: beBytes p.length, by simp⟩

theorem rlpAccount_inj_storage {a b s c a' b' s' c' : Bytes}
    (hs : s.length = 32) (hc : c.length = 32) (hs' : s'.length = 32) (hc' : c'.length = 32)
    (h : rlpAccount a b s c = rlpAccount a' b' s' c') : s = s' := by
  unfold rlpAccount at h
  rw [rlpString_len32 hs, rlpString_len32 hc, rlpString_len32 hs', rlpString_len32 hc'] at h
  obtain ⟨h1, e1⟩ := rlpList_eq_append (rlpString (trimZeros a) ++ rlpString (trimZeros b) ++ 0xa0 :: s ++ 0xa0 :: c)
  obtain ⟨h2, e2⟩ := rlpList_eq_append (rlpString (trimZeros a') ++ rlpString (trimZeros b') ++ 0xa0 :: s' ++ 0xa0 :: c')
  rw [e1, e2] at h
  have h' : (h1 ++ (rlpString (trimZeros a) ++ rlpString (trimZeros b))) ++ (0xa0 :: s ++ 0xa0 :: c)
          = (h2 ++ (rlpString (trimZeros a') ++ rlpString (trimZeros b'))) ++ (0xa0 :: s' ++ 0xa0 :: c') := by
    simpa [List.append_assoc] using h
  have h3 := List.append_inj_right' h' (by simp [hs, hc, hs', hc'])
  have h4 := List.append_inj_left h3 (by simp [hs, hs'])
  simpa using h4

theorem stateHolds_unique {env : Env} {sem : Bytes → Bytes → Option Bytes} {root addr slot v v' : Bytes}
    (h1 : StateHolds env sem root addr slot v) (h2 : StateHolds env sem root addr slot v') : v = v' := by
  obtain ⟨a, b, s, c, hs, hc, hacct, raw, t, hraw, hdec, hpad⟩ := h1
  obtain ⟨a', b', s', c', hs', hc', hacct', raw', t', hraw', hdec', hpad'⟩ := h2
  rw [hacct] at hacct'
  have e : s = s' := rlpAccount_inj_storage hs hc hs' hc' (Option.some.inj hacct')
  subst e
  rw [hraw] at hraw'
  have e2 : raw = raw' := Option.some.inj hraw'
  subst e2
  rw [hdec] at hdec'
  have e3 : t = t' := Option.some.inj hdec'
  subst e3
  rw [← hpad, ← hpad']

/-- **other value ⇒ rejected.** Once some proof has been accepted for `value`, no proof whatsoever is accepted for a
    different value at the same client state, store, height and path. -/
theorem other_value_rejected {env : Env} {sem : Bytes → Bytes → Option Bytes} (hs : MptSound env sem)
    {cs : ClientState} {store : ConsStore} {h : Height} {proof proof' : ProofArg}
    {k : PathKind} {src dst : Bytes} {seq : UInt64} {value value' : Bytes}
    (hacc : verify env cs store h proof k src dst seq value = .ok ()) (hne : value' ≠ value) :
    verify env cs store h proof' k src dst seq value' ≠ .ok () := by
  intro hacc'
  obtain ⟨r, hst, _, hh⟩ := binds hs hacc
  obtain ⟨r', hst', _, hh'⟩ := binds hs hacc'
  rw [hst] at hst'
  have e : r = r' := by simpa using hst'
  subst e
  exact hne (stateHolds_unique hh' hh)

/-! ## absent keys and invalid proofs -/

/-- a storage proof that does not prove a value for the slot key (invalid proof, or a proof of absence) is rejected -/
theorem storage_not_proven_rejected (env : Env) (cs : ClientState) (store : ConsStore) (h : Height) (p : Proof) (sp : StorageResult)
    (k : PathKind) (src dst : Bytes) (seq : UInt64) (value : Bytes)
    (hsp : p.storageProof = [some sp])
    (hno : ∀ v, env.mpt (hexToHash p.storageHash) (env.keccak (hexToHash sp.key)) (sp.proof.map fromHex) ≠ .value v) :
    verify env cs store h (.parsed p) k src dst seq value ≠ .ok () := by
  intro hacc
  obtain ⟨p', consRoot, hp, _, _, _, _, sp', raw, t, hsp', _, hstor, _, _⟩ := (accept_iff ..).mp hacc
  cases hp
  rw [hsp] at hsp'
  have e : sp = sp' := by simpa using hsp'
  subst e
  exact hno _ hstor

/-- **absent_key_rejected.** A storage proof that shows the slot is *absent* (`trie.VerifyProof` returns nil, nil) is
    rejected for every commitment, the all-zero word included. -/
theorem absent_key_rejected (env : Env) (cs : ClientState) (store : ConsStore) (h : Height) (p : Proof) (sp : StorageResult)
    (k : PathKind) (src dst : Bytes) (seq : UInt64) (value : Bytes)
    (hsp : p.storageProof = [some sp])
    (habs : env.mpt (hexToHash p.storageHash) (env.keccak (hexToHash sp.key)) (sp.proof.map fromHex) = .absent) :
    verify env cs store h (.parsed p) k src dst seq value ≠ .ok () :=
  storage_not_proven_rejected env cs store h p sp k src dst seq value hsp (by intro v; rw [habs]; simp)

/-- the same for the account: an absence proof (or a failing proof) for `keccak(address)` is rejected -/
theorem absent_account_rejected (env : Env) (cs : ClientState) (store : ConsStore) (h : Height) (p : Proof) (consRoot : ConsState)
    (k : PathKind) (src dst : Bytes) (seq : UInt64) (value : Bytes)
    (hst : store.get h = some (.state consRoot))
    (habs : ∀ v, env.mpt (bytesToHash consRoot.root) (env.keccak (fromHex p.address)) (p.accountProof.map fromHex) ≠ .value v) :
    verify env cs store h (.parsed p) k src dst seq value ≠ .ok () := by
  intro hacc
  obtain ⟨p', consRoot', hp, hst', _, _, hacct, _⟩ := (accept_iff ..).mp hacc
  cases hp
  rw [hst] at hst'
  have e : consRoot = consRoot' := by simpa using hst'
  subst e
  exact habs _ hacct

/-! ## each proof is verified from its own node set -/

/-- **storage_step_uses_only_storage_nodes.** The node list of `account_proof` is used by the account step only:
    replacing it by any other list for which the account step gives the same answer (more nodes, storage-trie nodes
    mixed in, another order, …) leaves the result unchanged. In particular the storage step never sees account-proof
    nodes: the model passes `sp.proof` alone to `Env.mpt` (the code re-allocates the node list before step 3). -/
theorem storage_step_uses_only_storage_nodes (env : Env) (cs : ClientState) (store : ConsStore) (h : Height) (p : Proof)
    (ap' : List Bytes) (k : PathKind) (src dst : Bytes) (seq : UInt64) (value : Bytes)
    (hacct : ∀ root, env.mpt root (env.keccak (fromHex p.address)) (ap'.map fromHex)
                   = env.mpt root (env.keccak (fromHex p.address)) (p.accountProof.map fromHex)) :
    verify env cs store h (.parsed { p with accountProof := ap' }) k src dst seq value
      = verify env cs store h (.parsed p) k src dst seq value := by
  unfold verify verifyMerkleProof
  simp only [hacct]

/-- What `trie.VerifyProof` needs (assumption about the external primitive, a hypothesis like `MptSound`): for every
    root and key there is the list `path root key` of the trie nodes on the way from the root to the key, and a proof is
    accepted with a value only if every one of them is in the node set handed to THAT call (each step looks the next
    node up by its hash; a missing node is "proof node missing"). -/
def MptNeedsPath (env : Env) (path : Bytes → Bytes → List Bytes) : Prop :=
  ∀ root key nodes v, env.mpt root key nodes = .value v → ∀ n, n ∈ path root key → n ∈ nodes

/-- **truncated_storage_proof_rejected.** If a node on the storage-trie path of the slot is missing from
    `storage_proof[0].proof`, the call is rejected — whatever `account_proof` contains (the missing node may well be
    there), for every value, height and client state. -/
theorem truncated_storage_proof_rejected {env : Env} {path : Bytes → Bytes → List Bytes} (hn : MptNeedsPath env path)
    (cs : ClientState) (store : ConsStore) (h : Height) (p : Proof) (sp : StorageResult)
    (k : PathKind) (src dst : Bytes) (seq : UInt64) (value : Bytes)
    (hsp : p.storageProof = [some sp]) (n : Bytes)
    (hpath : n ∈ path (hexToHash p.storageHash) (env.keccak (hexToHash sp.key)))
    (hmiss : n ∉ sp.proof.map fromHex) :
    verify env cs store h (.parsed p) k src dst seq value ≠ .ok () := by
  apply storage_not_proven_rejected env cs store h p sp k src dst seq value hsp
  intro v hv
  exact hmiss (hn _ _ _ v hv n hpath)

/-- the same for the account proof: a missing account-trie node is not made up for by the storage proof's nodes -/
theorem truncated_account_proof_rejected {env : Env} {path : Bytes → Bytes → List Bytes} (hn : MptNeedsPath env path)
    (cs : ClientState) (store : ConsStore) (h : Height) (p : Proof) (cons : ConsState)
    (k : PathKind) (src dst : Bytes) (seq : UInt64) (value : Bytes)
    (hst : store.get h = some (.state cons)) (n : Bytes)
    (hpath : n ∈ path (bytesToHash cons.root) (env.keccak (fromHex p.address)))
    (hmiss : n ∉ p.accountProof.map fromHex) :
    verify env cs store h (.parsed p) k src dst seq value ≠ .ok () := by
  apply absent_account_rejected env cs store h p cons k src dst seq value hst
  intro v hv
  exact hmiss (hn _ _ _ v hv n hpath)

/-- `trie.VerifyProof` works on a node SET: more nodes never hurt (assumption about the primitive) -/
def MptMonotone (env : Env) : Prop :=
  ∀ root key ns ns' v, (∀ n, n ∈ ns → n ∈ ns') → env.mpt root key ns = .value v → env.mpt root key ns' = .value v

/-- **extra_nodes_harmless.** Under `MptMonotone`, adding nodes (unrelated ones, duplicates, nodes of the other
    component, any order) to `account_proof` and to the storage proof keeps an accepted proof accepted. -/
theorem extra_nodes_harmless {env : Env} (hm : MptMonotone env)
    (cs : ClientState) (store : ConsStore) (h : Height) (p : Proof) (sp : StorageResult) (ap' sp' : List Bytes)
    (k : PathKind) (src dst : Bytes) (seq : UInt64) (value : Bytes)
    (hsp : p.storageProof = [some sp])
    (hap : ∀ s, s ∈ p.accountProof → s ∈ ap') (hspn : ∀ s, s ∈ sp.proof → s ∈ sp')
    (hacc : verify env cs store h (.parsed p) k src dst seq value = .ok ()) :
    verify env cs store h (.parsed { p with accountProof := ap', storageProof := [some { sp with proof := sp' }] })
      k src dst seq value = .ok () := by
  obtain ⟨p0, cons, hp, hst, hh, haddr, hacct, sp0, raw, t, hsp0, hkey, hstor, hdec, hpad⟩ := (accept_iff ..).mp hacc
  cases hp
  rw [hsp] at hsp0
  have e : sp = sp0 := by simpa using hsp0
  subst e
  refine (accept_iff ..).mpr ⟨_, cons, rfl, hst, hh, haddr, ?_, { sp with proof := sp' }, raw, t, rfl, hkey, ?_, hdec, hpad⟩
  · refine hm _ _ _ _ _ ?_ hacct
    intro n hn
    obtain ⟨s, hs, rfl⟩ := List.mem_map.mp hn
    exact List.mem_map.mpr ⟨s, hap s hs, rfl⟩
  · refine hm _ _ _ _ _ ?_ hstor
    intro n hn
    obtain ⟨s, hs, rfl⟩ := List.mem_map.mp hn
    exact List.mem_map.mpr ⟨s, hspn s hs, rfl⟩

/-! ## the height gate -/

/-- **delay_gate.** Acceptance implies the height rule in unbounded arithmetic … -/
theorem delay_gate {env : Env} {cs : ClientState} {store : ConsStore} {h : Height} {proof : ProofArg}
    {k : PathKind} {src dst : Bytes} {seq : UInt64} {value : Bytes}
    (hacc : verify env cs store h proof k src dst seq value = .ok ()) : HeightRule cs h := by
  obtain ⟨_, _, _, _, hh, _⟩ := (accept_iff ..).mp hacc
  exact hh

/-- … so no `uint64` wrap-around, for any revision numbers, lets a future block (`head < h`) or a block with fewer than
    `delayBlock` confirmations through. -/
theorem too_recent_or_future_rejected (env : Env) (cs : ClientState) (store : ConsStore) (h : Height) (proof : ProofArg)
    (k : PathKind) (src dst : Bytes) (seq : UInt64) (value : Bytes)
    (hbad : cs.head.rh.toNat < h.rh.toNat + cs.delayBlock.toNat) :
    verify env cs store h proof k src dst seq value ≠ .ok () := by
  intro hacc
  have := (delay_gate hacc).2
  omega

theorem later_revision_rejected (env : Env) (cs : ClientState) (store : ConsStore) (h : Height) (proof : ProofArg)
    (k : PathKind) (src dst : Bytes) (seq : UInt64) (value : Bytes)
    (hbad : cs.head.rn < h.rn) :
    verify env cs store h proof k src dst seq value ≠ .ok () := by
  intro hacc
  rcases (delay_gate hacc).1 with e | l
  · rw [e] at hbad; exact absurd hbad (UInt64.lt_irrefl _)
  · exact absurd (UInt64.lt_trans hbad l) (UInt64.lt_irrefl _)

/-- **inner_height_irrelevant.** The `Height` (and `Timestamp`) field *inside* the stored consensus state plays no
    role: only the key it is stored under (the proof height) and its root do. In particular the confirmation rule of
    `accept_iff` / `delay_gate` is about the proof height for ANY inner field value (omitted = 0-0, above the head, …). -/
theorem inner_height_irrelevant (env : Env) (cs : ClientState) (rest : ConsStore) (h : Height) (c : ConsState)
    (ts : UInt64) (ih : Height) (proof : ProofArg) (k : PathKind) (src dst : Bytes) (seq : UInt64) (value : Bytes) :
    verify env cs ((h, .state { c with timestamp := ts, height := ih }) :: rest) h proof k src dst seq value
      = verify env cs ((h, .state c) :: rest) h proof k src dst seq value := by
  unfold verify
  simp [ConsStore.get]

/-- The two guards of the code *before* the fix `C08-delay-underflow-cross-revision` (`Height.LT`, then the `uint64`
    subtraction) do not imply the height rule: with the head in a later revision the subtraction wraps. This is the
    witness found by the harness on the unfixed tree (head 1-371, proof height 0-384, one confirmation block). -/
theorem preFix_guards_unsound :
    ∃ (cs : ClientState) (h : Height),
      (!(cs.head.lt h) && !(decide (cs.head.rh - h.rh < cs.delayBlock))) = true ∧ ¬ HeightRule cs h := by
  refine ⟨{ kind := .eth, head := ⟨1, 371⟩, contract := [], blockDelay := 1, nValidators := 0 }, ⟨0, 384⟩, by decide, ?_⟩
  intro hr
  have := hr.2
  simp [ClientState.delayBlock] at this

/-! ## values with leading zero bytes -/

theorem dropWhile_length_le (f : UInt8 → Bool) (l : Bytes) : (l.dropWhile f).length ≤ l.length := by
  induction l with
  | nil => simp
  | cons x l ih => simp only [List.dropWhile_cons]; split <;> simp <;> omega

theorem trimZeros_replicate_append (n : Nat) (t : Bytes) : trimZeros (List.replicate n 0 ++ t) = trimZeros t := by
  induction n with
  | zero => simp
  | succ n ih => simp only [List.replicate_succ, List.cons_append]; unfold trimZeros at *; simp [List.dropWhile_cons, ih]

theorem eq_replicate_append_trimZeros (l : Bytes) :
    l = List.replicate (l.length - (trimZeros l).length) 0 ++ trimZeros l := by
  induction l with
  | nil => simp [trimZeros]
  | cons x l ih =>
    unfold trimZeros at *
    by_cases hx : x = 0
    · subst hx
      have hl : (List.dropWhile (fun x => x == 0) l).length ≤ l.length := dropWhile_length_le _ _
      simp only [List.dropWhile_cons, beq_self_eq_true, ↓reduceIte, List.length_cons]
      rw [show l.length + 1 - (List.dropWhile (fun x => x == 0) l).length
            = (l.length - (List.dropWhile (fun x => x == 0) l).length) + 1 by omega]
      rw [List.replicate_succ, List.cons_append, ← ih]
    · have : (x == 0) = false := by simp [hx]
      simp [this]

theorem trimZeros_length_le (l : Bytes) : (trimZeros l).length ≤ l.length := dropWhile_length_le _ _

/-- padding the trimmed form restores a 32-byte word -/
theorem leftPad32_trimZeros {v : Bytes} (hv : v.length = 32) : leftPad32 (trimZeros v) = v := by
  unfold leftPad32
  have := eq_replicate_append_trimZeros v
  rw [hv] at this
  exact this.symm

/-- the storage value check sees exactly the word, not its byte form: for a 32-byte commitment `v` the proven RLP
    string `t` is accepted iff it has at most 32 bytes and the same minimal form as `v`. -/
theorem leftPad32_eq_iff {t v : Bytes} (hv : v.length = 32) :
    leftPad32 t = v ↔ t.length ≤ 32 ∧ trimZeros t = trimZeros v := by
  constructor
  · intro h
    have hl : t.length ≤ 32 := by
      have := congrArg List.length h
      unfold leftPad32 at this
      simp only [List.length_append, List.length_replicate] at this
      omega
    refine ⟨hl, ?_⟩
    rw [← h]; unfold leftPad32; rw [trimZeros_replicate_append]
  · rintro ⟨hl, ht⟩
    have key : ∀ (a : Nat) (T : Bytes), t = List.replicate a 0 ++ T → v = List.replicate (32 - T.length) 0 ++ T →
        t.length ≤ 32 → List.replicate (32 - t.length) 0 ++ t = v := by
      intro a T e1 e2 hl
      subst e1
      rw [e2]
      simp only [List.length_append, List.length_replicate] at *
      rw [← List.append_assoc, List.replicate_append_replicate]
      congr 2
      omega
    have e2 := eq_replicate_append_trimZeros v
    rw [hv, ← ht] at e2
    exact key _ _ (eq_replicate_append_trimZeros t) e2 hl

/-! ### RLP round trip for short strings -/

theorem u8_ofNat_toNat {n : Nat} (h : n < 256) : (UInt8.ofNat n).toNat = n := by
  simp [Nat.mod_eq_of_lt h]

theorem rlpDecodeBytes_short (b : UInt8) (rest : Bytes) (h1 : ¬ b < 0x80) (h2 : b < 0xB8)
    (hsz : b.toNat - 0x80 = rest.length) (hcanon : ¬ (rest.length = 1 ∧ rest.headD 0 < 0x80)) :
    rlpDecodeBytes (b :: rest) = some rest := by
  unfold rlpDecodeBytes
  simp only [h1, h2, ↓reduceIte, hsz, List.take_length, Nat.lt_irrefl, hcanon]

theorem rlpDecodeBytes_rlpString {t : Bytes} (ht : t.length < 56) : rlpDecodeBytes (rlpString t) = some t := by
  unfold rlpString
  split
  · rename_i x
    by_cases hx : x < 0x80
    · simp [hx, rlpDecodeBytes]
    · simp only [hx, ↓reduceIte]
      exact rlpDecodeBytes_short 0x81 [x] (by decide) (by decide) rfl (by simp [hx])
  · rename_i hns
    simp only [ht, ↓reduceIte]
    have hn : (UInt8.ofNat (0x80 + t.length)).toNat = 0x80 + t.length := u8_ofNat_toNat (by omega)
    apply rlpDecodeBytes_short
    · rw [UInt8.lt_iff_toNat_lt, hn]; simp
    · rw [UInt8.lt_iff_toNat_lt, hn]; simp; omega
    · rw [hn]; omega
    · rintro ⟨h41, _⟩
      match t, h41 with
      | [x], _ => exact hns x rfl

/-- **leading_zero_values (round trip).** For every 32-byte commitment `v` — whatever its number of leading zero
    bytes, the all-zero word included — the value an EVM storage trie holds for the word `v`, namely the RLP string of
    its minimal big-endian form, passes `checkProofResult`. -/
theorem leading_zero_roundtrip {v : Bytes} (hv : v.length = 32) :
    checkProofResult (rlpString (trimZeros v)) v = true := by
  rw [checkProofResult_iff]
  have hl := trimZeros_length_le v
  exact ⟨trimZeros v, rlpDecodeBytes_rlpString (by omega), leftPad32_trimZeros hv⟩

/-- **leading_zero_values.** A 32-byte commitment with `k` leading zero bytes is accepted by the value check iff the
    proven trie value is the RLP string of a byte string of at most 32 bytes with the same trimmed form (the canonical
    one being the trimmed form itself, see `leading_zero_roundtrip`); nothing else passes. -/
theorem leading_zero_values {v : Bytes} (hv : v.length = 32) (result : Bytes) :
    checkProofResult result v = true ↔
      ∃ t, rlpDecodeBytes result = some t ∧ t.length ≤ 32 ∧ trimZeros t = trimZeros v := by
  rw [checkProofResult_iff]
  constructor
  · rintro ⟨t, h1, h2⟩; exact ⟨t, h1, (leftPad32_eq_iff hv).mp h2⟩
  · rintro ⟨t, h1, h2⟩; exact ⟨t, h1, (leftPad32_eq_iff hv).mpr h2⟩

/-- a commitment that is not exactly 32 bytes long can only match a trie value of that same length (> 32):
    31-byte or trimmed commitments never pass. -/
theorem short_commitment_rejected {v : Bytes} (hv : v.length < 32) (result : Bytes) :
    checkProofResult result v = false := by
  cases h : checkProofResult result v with
  | false => rfl
  | true =>
    obtain ⟨t, _, h2⟩ := (checkProofResult_iff _ _).mp h
    have := congrArg List.length h2
    unfold leftPad32 at this
    simp only [List.length_append, List.length_replicate] at this
    omega

/-! ## commitment and acknowledgement slots are derived from different preimages -/

/-- the hashed preimages of a commitment slot and an acknowledgement slot always differ (first byte `c` vs `a`), so the
    two kinds of slot can coincide only through a Keccak collision -/
theorem preimage_commitment_ne_ack (src dst src' dst' : Bytes) (seq seq' : UInt64) :
    pathOf .commitment src dst seq ++ slotIndexWord ≠ pathOf .ack src' dst' seq' ++ slotIndexWord := by
  intro h
  simp [pathOf, prefixOf] at h

theorem slot_kind_separated (env : Env) (src dst src' dst' : Bytes) (seq seq' : UInt64)
    (hinj : ∀ a b, env.keccak a = env.keccak b → a = b) :
    slotOf env .commitment src dst seq ≠ slotOf env .ack src' dst' seq' := by
  intro h
  exact preimage_commitment_ne_ack src dst src' dst' seq seq' (hinj _ _ h)

/-! ## the slot binds the WHOLE path -/

/-- **slot_binds_full_path.** The hashed preimage is the whole path followed by the 32-byte slot index, for paths of
    every length: two different paths (of any lengths — 160 bytes and more included) give different preimages, so their
    slots can coincide only through a Keccak collision. -/
theorem slot_binds_full_path (p p' : Bytes) (h : p ≠ p') : p ++ slotIndexWord ≠ p' ++ slotIndexWord :=
  fun e => h (List.append_cancel_right e)

/-- in terms of `slotOf`: with a collision-free hash equal slots mean equal paths (kind, chains and sequence text) -/
theorem slotOf_eq_imp_path_eq (env : Env) (hinj : ∀ a b, env.keccak a = env.keccak b → a = b)
    (k k' : PathKind) (src dst src' dst' : Bytes) (seq seq' : UInt64)
    (h : slotOf env k src dst seq = slotOf env k' src' dst' seq') :
    pathOf k src dst seq = pathOf k' src' dst' seq' :=
  List.append_cancel_right (hinj _ _ h)

/-- a path cut at any length `n` shorter than itself (a fixed-size buffer) is another preimage: the slot derived from a
    truncated path is not the slot of the path -/
theorem truncated_path_other_preimage (p : Bytes) (n : Nat) (hn : n < p.length) :
    p.take n ++ slotIndexWord ≠ p ++ slotIndexWord := by
  apply slot_binds_full_path
  intro e
  have := congrArg List.length e
  simp only [List.length_take] at this
  omega

/-- the model hashes exactly `path.length + 32` bytes, whatever the path length -/
theorem slot_preimage_length (k : PathKind) (src dst : Bytes) (seq : UInt64) :
    (pathOf k src dst seq ++ slotIndexWord).length = (pathOf k src dst seq).length + 32 := by
  simp [slotIndexWord]

/-! ## non-vacuity: a concrete accepted proof, a sound environment, and the theorems applied to it -/

namespace Example

/-- toy hash: the last 32 bytes, left-padded (so that slots are 32 bytes long) -/
def toyKeccak (b : Bytes) : Bytes := bytesToHash b

/-- record: address "ab", nonce "1", balance "0", storage hash "07", code hash "09", one storage proof for key "d0" -/
def toyProof : Proof :=
  { address := [0x61, 0x62], balance := [0x30], codeHash := [0x30, 0x39], nonce := [0x31], storageHash := [0x30, 0x37],
    accountProof := [], storageProof := [some { key := [0x64, 0x30], value := [], proof := [] }] }

def toyAccount : Bytes := rlpAccount (hexToHash [0x31]) (hexToHash [0x30]) (hexToHash [0x30, 0x37]) (hexToHash [0x30, 0x39])

/-- the "tries": under any root, key keccak(0xab) holds the account; under the storage root 0x…07 the slot key holds
    the RLP string 0x05 -/
def toySem (root key : Bytes) : Option Bytes :=
  if key = toyKeccak [0xab] then some toyAccount
  else if root = hexToHash [0x30, 0x37] ∧ key = toyKeccak slotIndexWord then some [0x05]
  else none

def toyEnv : Env :=
  { keccak := toyKeccak
    mpt := fun root key _ => match toySem root key with | some v => .value v | none => .absent }

def toyCs : ClientState := { kind := .bsc, head := ⟨0, 120⟩, contract := [0xab], blockDelay := 0, nValidators := 21 }
/-- the stored state carries an inner `Height` of 0-0 (as after `CreateClient` with the field omitted) -/
def toyStore : ConsStore := [(⟨0, 100⟩, .state ⟨7, ⟨0, 0⟩, [0x01]⟩), (⟨0, 110⟩, .corrupt)]
def toyValue : Bytes := leftPad32 [0x05]

/-- accepted: BSC client with 21 validators (11 confirmation blocks), head 120, proof height 100 -/
theorem toy_accepted : verify toyEnv toyCs toyStore ⟨0, 100⟩ (.parsed toyProof) .commitment [] [] 0 toyValue = .ok () := by decide

/-- too recent: height 110 has only 10 confirmations -/
example : verify toyEnv toyCs ((⟨0, 110⟩, .state ⟨7, ⟨0, 0⟩, [0x01]⟩) :: toyStore) ⟨0, 110⟩ (.parsed toyProof) .commitment [] [] 0 toyValue
    = .err "delay" := by decide

/-- a `null` storage proof element panics (nil pointer dereference in the Go code) -/
example : verify toyEnv toyCs toyStore ⟨0, 100⟩ (.parsed { toyProof with storageProof := [none] }) .commitment [] [] 0 toyValue
    = .panic "nil-storage-result" := by decide

theorem toyEnv_sound : MptSound toyEnv toySem := by
  intro root key nodes v h
  simp only [toyEnv] at h
  cases hs : toySem root key with
  | none => rw [hs] at h; simp at h
  | some w => rw [hs] at h; simp at h; rw [h]

/-- `binds` applied: the hypotheses are satisfiable and the conclusion is about a non-trivial state -/
example : ∃ cons, toyStore.get ⟨0, 100⟩ = some (.state cons) ∧ HeightRule toyCs ⟨0, 100⟩ ∧
    StateHolds toyEnv toySem (bytesToHash cons.root) toyCs.contract (slotOf toyEnv .commitment [] [] 0) toyValue :=
  binds toyEnv_sound toy_accepted

/-! a node-sensitive environment: every verification step needs the node 0xee in ITS node list -/

def toyEnv2 : Env :=
  { keccak := toyKeccak
    mpt := fun root key nodes => if [0xee] ∈ nodes then toyEnv.mpt root key nodes else .invalid }

def toyPath (_ _ : Bytes) : List Bytes := [[0xee]]

theorem toyEnv2_needsPath : MptNeedsPath toyEnv2 toyPath := by
  intro root key nodes v h n hn
  simp only [toyPath, List.mem_singleton] at hn
  subst hn
  simp only [toyEnv2] at h
  by_cases hm : [0xee] ∈ nodes
  · exact hm
  · simp [hm] at h

/-- complete proofs ("ee" in both lists): accepted -/
example : verify toyEnv2 toyCs toyStore ⟨0, 100⟩
    (.parsed { toyProof with accountProof := [[0x65, 0x65]], storageProof := [some { key := [0x64, 0x30], value := [], proof := [[0x65, 0x65]] }] })
    .commitment [] [] 0 toyValue = .ok () := by decide

/-- the storage node moved into `account_proof` (storage proof empty): rejected at the storage step -/
example : verify toyEnv2 toyCs toyStore ⟨0, 100⟩
    (.parsed { toyProof with accountProof := [[0x65, 0x65], [0x65, 0x65]], storageProof := [some { key := [0x64, 0x30], value := [], proof := [] }] })
    .commitment [] [] 0 toyValue = .err "storage-proof" := by decide

end Example

/-! ## life cycle: the configured delay is the delay in force -/

namespace Life

/-- the configuration of a stored client: everything but the latest header -/
structure Conf where
  kind : ClientKind
  contract : Bytes
  blockDelay : UInt64
  nValidators : Nat
  chainId : UInt64
  trusting : UInt64
  timeDelay : UInt64
  deriving DecidableEq

def confOf (l : Life) : Conf :=
  { kind := l.cs.kind, contract := l.cs.contract, blockDelay := l.cs.blockDelay, nValidators := l.cs.nValidators,
    chainId := l.chainId, trusting := l.trusting, timeDelay := l.timeDelay }

/-- **update_preserves_configuration.** A header update changes the head (and the stored header) and adds a consensus
    state; every other field of the stored client state — contract, chain id, trusting period, TimeDelay, BlockDelay — is
    unchanged. -/
theorem update_preserves_configuration (l : Life) (h : Height) (hash parent root : Bytes) (time : UInt64) :
    confOf (update l h hash parent root time) = confOf l := rfl

theorem applyUpd_preserves_configuration (l : Life) (u : Upd) : confOf (applyUpd l u) = confOf l := by
  unfold applyUpd; split
  · exact update_preserves_configuration ..
  · rfl

/-- … after any number of accepted or rejected updates -/
theorem updates_preserve_configuration (l : Life) (us : List Upd) : confOf (applyUpds l us) = confOf l := by
  induction us generalizing l with
  | nil => rfl
  | cons u us ih => simp only [applyUpds, List.foldl_cons] at *; rw [ih, applyUpd_preserves_configuration]

theorem delayBlock_of_conf {l l' : Life} (h : confOf l' = confOf l) : l'.cs.delayBlock = l.cs.delayBlock := by
  have hk : l'.cs.kind = l.cs.kind := congrArg Conf.kind h
  have hb : l'.cs.blockDelay = l.cs.blockDelay := congrArg Conf.blockDelay h
  have hn : l'.cs.nValidators = l.cs.nValidators := congrArg Conf.nValidators h
  unfold ClientState.delayBlock; rw [hk, hb, hn]

/-- **configured_delay_in_force.** Create (or upgrade, toggle) with configuration `c`, apply any header updates, verify on
    the stored state: acceptance implies `proof block + c.blockDelay ≤ head block` with the BlockDelay of the
    proposal, for every TimeDelay, and the contract checked is the configured one. -/
theorem configured_delay_in_force (env : Env) (c : Config) (old : ConsStore) (oh : List Hdr) (us : List Upd) (h : Height) (proof : ProofArg)
    (k : PathKind) (src dst : Bytes) (seq : UInt64) (value : Bytes)
    (hacc : verifyStored env (applyUpds (fromConfig c old oh) us) h proof k src dst seq value = .ok ()) :
    h.rh.toNat + c.blockDelay.toNat ≤ (applyUpds (fromConfig c old oh) us).cs.head.rh.toNat
    ∧ (applyUpds (fromConfig c old oh) us).cs.contract = c.contract := by
  have hc := updates_preserve_configuration (fromConfig c old oh) us
  have hd := delayBlock_of_conf hc
  have hg := (delay_gate hacc).2
  rw [hd] at hg
  refine ⟨by simpa [fromConfig, ClientState.delayBlock] using hg, ?_⟩
  exact congrArg Conf.contract hc

/-- non-vacuity: a configuration with TimeDelay ≠ BlockDelay keeps both through two accepted updates and a rejected one -/
def toyConfig : Config :=
  { contract := [1], chainId := 4, trusting := 9, timeDelay := 0, blockDelay := 3,
    head := ⟨0, 10⟩, headHash := [7], cons := ⟨1, ⟨0, 10⟩, [2]⟩ }

/-- 10 ← 11 ← 12 accepted (13 refused), then a competing child 11' of 10: the head moves DOWN to height 11 -/
def toyUpds : List Upd :=
  [⟨true, ⟨0, 11⟩, [8], [7], [3], 2⟩, ⟨false, ⟨0, 12⟩, [9], [8], [4], 3⟩, ⟨true, ⟨0, 12⟩, [9], [8], [4], 3⟩]

def toyReorg : List Upd := toyUpds ++ [⟨true, ⟨0, 11⟩, [0x18], [7], [5], 4⟩]

/-- the last accepted update of a list (none if none was accepted) -/
def lastAccepted : List Upd → Option Upd
  | [] => none
  | u :: us => match lastAccepted us with
    | some v => some v
    | none => if u.accepted then some u else none

/-- **head_follows_last_accepted_update.** After any sequence of accepted / rejected updates — extensions, siblings,
    height-DEcreasing ones — the stored head (height and header) is the one of the last accepted update; with no accepted
    update it is unchanged. The head is not a maximum over the history. -/
theorem head_follows_last_accepted_update (l : Life) (us : List Upd) :
    (applyUpds l us).cs.head = (match lastAccepted us with | some u => u.h | none => l.cs.head)
    ∧ (applyUpds l us).headHash = (match lastAccepted us with | some u => u.hash | none => l.headHash) := by
  induction us generalizing l with
  | nil => exact ⟨rfl, rfl⟩
  | cons u us ih =>
    simp only [applyUpds, List.foldl_cons] at *
    have := ih (applyUpd l u)
    simp only [lastAccepted]
    cases hl : lastAccepted us with
    | some v => simpa [hl] using this
    | none =>
      rw [hl] at this
      by_cases ha : u.accepted = true
      · simp only [ha, ↓reduceIte]
        simpa [applyUpd, ha, update] using this
      · simp only [ha, Bool.false_eq_true, ↓reduceIte]
        simpa [applyUpd, ha] using this

/-- the reorganisation moves the head down and re-points height 11; the abandoned state at height 12 stays stored, above
    the head -/
example : (applyUpds (create toyConfig) toyReorg).cs.head = ⟨0, 11⟩
    ∧ (applyUpds (create toyConfig) toyReorg).store.get ⟨0, 11⟩ = some (.state ⟨4, ⟨0, 11⟩, [5]⟩)
    ∧ (applyUpds (create toyConfig) toyReorg).store.get ⟨0, 12⟩ = some (.state ⟨3, ⟨0, 12⟩, [4]⟩)
    ∧ (confOf (applyUpds (create toyConfig) toyReorg)).blockDelay = 3 := by decide

/-- … and no proof at the abandoned height 12 is accepted any more (it is above the head), whatever the proof -/
theorem above_head_rejected_after_reorg (env : Env) (proof : ProofArg) (k : PathKind) (src dst : Bytes) (seq : UInt64) (value : Bytes) :
    verifyStored env (applyUpds (create toyConfig) toyReorg) ⟨0, 12⟩ proof k src dst seq value ≠ .ok () := by
  intro hacc
  have := (delay_gate hacc).2
  have hh : (applyUpds (create toyConfig) toyReorg).cs.head = ⟨0, 11⟩ := by decide
  rw [hh] at this
  have e1 : (12 : UInt64).toNat = 12 := by decide
  have e2 : (11 : UInt64).toNat = 11 := by decide
  simp only [e1, e2] at this
  omega


example : (confOf (applyUpds (create toyConfig) toyUpds)).blockDelay = 3
    ∧ (confOf (applyUpds (create toyConfig) toyUpds)).timeDelay = 0
    ∧ (applyUpds (create toyConfig) toyUpds).cs.head = ⟨0, 12⟩ := by decide

end Life

end TM.EvmProof
